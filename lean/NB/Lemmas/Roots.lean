/- helper lemmas for C11: bit length, Newton step facts, bisection, the two-phase fixpoint loop -/
import NB.Model.Roots
import Mathlib.Analysis.SpecialFunctions.Pow.NthRootLemmas
import Mathlib.Tactic.Ring
import Mathlib.Tactic.Linarith
namespace NB.Roots

/-! ### bit length -/

theorem lt_two_pow_bits (x : Nat) : x < 2 ^ bits x := by
  unfold bits
  split
  · subst_vars; simp
  · exact Nat.lt_log2_self

theorem two_pow_bits_le {x : Nat} (hx : x ≠ 0) : 2 ^ (bits x - 1) ≤ x := by
  unfold bits
  simp only [hx, if_false, Nat.add_sub_cancel]
  exact Nat.log2_self_le hx

/-- `xn.bits() > max_bits` is the test `xn ≥ 2^max_bits` -/
theorem bits_gt_iff (y k : Nat) : bits y > k ↔ 2 ^ k ≤ y := by
  constructor
  · intro h
    have hy : y ≠ 0 := by
      intro h0; subst h0; simp [bits] at h
    have h1 := two_pow_bits_le hy
    have h2 : 2 ^ k ≤ 2 ^ (bits y - 1) := Nat.pow_le_pow_right (by decide) (by omega)
    omega
  · intro h
    by_contra hc
    have h1 := lt_two_pow_bits y
    have h2 : 2 ^ bits y ≤ 2 ^ k := Nat.pow_le_pow_right (by decide) (by omega)
    omega

theorem bits_pos {x : Nat} (hx : x ≠ 0) : 0 < bits x := by
  unfold bits; simp [hx]

/-- `x < (2^(bits x / n + 1))^n`: the bound behind `max_bits` -/
theorem lt_pow_maxBits (x : Nat) {n : Nat} (hn : 0 < n) : x < (2 ^ (bits x / n + 1)) ^ n := by
  have h1 := lt_two_pow_bits x
  have h2 : bits x < n * (bits x / n + 1) := Nat.lt_mul_div_succ _ hn
  have h3 : 2 ^ bits x ≤ 2 ^ (n * (bits x / n + 1)) := Nat.pow_le_pow_right (by decide) (by omega)
  rw [← pow_mul, Nat.mul_comm]
  omega

/-! ### the floor root (Mathlib's `Nat.nthRoot`) -/

theorem root_lt_maxBits (x : Nat) {n : Nat} (hn : 0 < n) : Nat.nthRoot n x < 2 ^ (bits x / n + 1) := by
  rw [Nat.nthRoot_lt_iff (by omega)]
  exact lt_pow_maxBits x hn

theorem root_pos {x n : Nat} (hn : 0 < n) (hx : 1 ≤ x) : 1 ≤ Nat.nthRoot n x := by
  rw [Nat.le_nthRoot_iff (by omega)]; simpa using hx

/-! ### Newton step -/

/-- the value computed by the closure handed to `fixpoint` -/
def F (x n s : Nat) : Nat := ((n - 1) * s + x / s ^ (n - 1)) / n

/-- Newton step never undershoots the floor root (AM–GM; Mathlib's `lt_pow_go_succ_aux`) -/
theorem F_ge {x n s : Nat} (hn : 1 ≤ n) (hs : 1 ≤ s) : Nat.nthRoot n x ≤ F x n s := by
  obtain ⟨m, rfl⟩ : ∃ m, n = m + 1 := ⟨n - 1, by omega⟩
  have h := Nat.nthRoot.lt_pow_go_succ_aux (a := x) (b := s) (n := m) (by omega)
  have hr : Nat.nthRoot (m + 1) x ^ (m + 1) ≤ x := Nat.pow_nthRoot_le (.inl (by omega))
  have h2 := lt_of_le_of_lt hr h
  have h3 := lt_of_pow_lt_pow_left₀ (m + 1) (by positivity) h2
  unfold F
  simp only [Nat.add_sub_cancel]
  rw [Nat.add_comm (m * s)]
  omega

/-- above the root the step strictly decreases -/
theorem F_lt {x n s : Nat} (hn : 1 ≤ n) (hs : Nat.nthRoot n x < s) : F x n s < s := by
  obtain ⟨m, rfl⟩ : ∃ m, n = m + 1 := ⟨n - 1, by omega⟩
  have hx : x < s ^ (m + 1) := (Nat.nthRoot_lt_iff (by omega)).mp hs
  have hpos : 0 < s ^ m := Nat.pow_pos (by omega)
  have hq : x / s ^ m < s := by
    rw [Nat.div_lt_iff_lt_mul hpos]
    rw [pow_succ] at hx; rw [Nat.mul_comm]; exact hx
  unfold F
  simp only [Nat.add_sub_cancel]
  rw [Nat.div_lt_iff_lt_mul (by omega)]
  have : (m + 1) * s = m * s + s := by ring
  rw [Nat.mul_comm s]; omega

/-- Bernoulli: `(s+1)^(m+1) ≥ s^(m+1) + (m+1) s^m` -/
theorem bernoulli (s m : Nat) : s ^ (m + 1) + (m + 1) * s ^ m ≤ (s + 1) ^ (m + 1) := by
  induction m with
  | zero => simp
  | succ k ih =>
    have e1 : (s + 1) ^ (k + 1 + 1) = (s + 1) ^ (k + 1) * (s + 1) := pow_succ _ _
    have e2 : s ^ (k + 1 + 1) = s ^ (k + 1) * s := pow_succ _ _
    have e3 : s ^ (k + 1) = s ^ k * s := pow_succ _ _
    have h0 : 0 ≤ s ^ k := Nat.zero_le _
    rw [e1, e2]
    nlinarith [Nat.mul_le_mul_right (s + 1) ih, Nat.zero_le (s ^ k * s)]

/-- strictly below the root the step strictly increases -/
theorem F_gt {x n s : Nat} (hn : 1 ≤ n) (hs : 1 ≤ s) (hlt : s < Nat.nthRoot n x) : s < F x n s := by
  obtain ⟨m, rfl⟩ : ∃ m, n = m + 1 := ⟨n - 1, by omega⟩
  have hle : s + 1 ≤ Nat.nthRoot (m + 1) x := hlt
  have hx : (s + 1) ^ (m + 1) ≤ x := (Nat.le_nthRoot_iff (by omega)).mp hle
  have hb := bernoulli s m
  have hpos : 0 < s ^ m := Nat.pow_pos (by omega)
  have hq : s + (m + 1) ≤ x / s ^ m := by
    rw [Nat.le_div_iff_mul_le hpos]
    have : (s + (m + 1)) * s ^ m = s ^ (m + 1) + (m + 1) * s ^ m := by rw [pow_succ]; ring
    omega
  unfold F
  simp only [Nat.add_sub_cancel]
  have : (s + 1) * (m + 1) ≤ m * s + x / s ^ m := by
    have : (s + 1) * (m + 1) = m * s + s + (m + 1) := by ring
    omega
  exact (Nat.le_div_iff_mul_le (by omega)).mpr this

/-! ### bisection floor root -/

theorem bisect_spec (x n : Nat) : ∀ (fuel lo hi : Nat), lo ^ n ≤ x → x < hi ^ n → hi - lo ≤ 2 ^ fuel →
    (bisect x n fuel lo hi) ^ n ≤ x ∧ x < (bisect x n fuel lo hi + 1) ^ n := by
  intro fuel
  induction fuel with
  | zero =>
    intro lo hi h1 h2 hw
    simp only [bisect]
    refine ⟨h1, ?_⟩
    have hlt : lo < hi := by
      by_contra hc
      have : hi ^ n ≤ lo ^ n := Nat.pow_le_pow_left (by omega) n
      omega
    have : hi = lo + 1 := by simp at hw; omega
    rw [← this]; exact h2
  | succ f ih =>
    intro lo hi h1 h2 hw
    have hlt : lo < hi := by
      by_contra hc
      have : hi ^ n ≤ lo ^ n := Nat.pow_le_pow_left (by omega) n
      omega
    simp only [bisect]
    by_cases hc : hi ≤ lo + 1
    · simp only [hc, if_true]
      have : hi = lo + 1 := by omega
      rw [← this]; exact ⟨h1, h2⟩
    · simp only [hc, if_false]
      have hp : 2 ^ (f + 1) = 2 * 2 ^ f := by rw [pow_succ]; ring
      by_cases hm : ((lo + hi) / 2) ^ n ≤ x
      · simp only [hm, if_true]
        exact ih _ _ hm h2 (by omega)
      · simp only [hm, if_false]
        exact ih _ _ h1 (by omega) (by omega)

/-- the bisection result is the floor root -/
theorem floorRoot_eq (x : Nat) {n : Nat} (hn : 1 ≤ n) : floorRoot x n = Nat.nthRoot n x := by
  have h := bisect_spec x n (bits x / n + 2) 0 (2 ^ (bits x / n + 1))
    (by rw [Nat.zero_pow (by omega)]; omega) (lt_pow_maxBits x hn)
    (by rw [Nat.sub_zero]; exact Nat.pow_le_pow_right (by decide) (by omega))
  unfold floorRoot
  exact (Nat.nthRoot_eq_of_le_of_lt h.1 h.2).symm

/-! ### the two-phase `fixpoint` loop, for an abstract step -/

/-- what the loop needs from the closure: it evaluates (no panic) to `Fn s` on `s ≥ 1`, never
    undershoots `r`, strictly decreases above `r`, strictly increases below `r` -/
structure NewtonOk (f : Nat → Except Panic Nat) (Fn : Nat → Nat) (r : Nat) : Prop where
  rpos : 1 ≤ r
  eval : ∀ s, 1 ≤ s → f s = .ok (Fn s)
  ge : ∀ s, 1 ≤ s → r ≤ Fn s
  lt : ∀ s, r < s → Fn s < s
  gt : ∀ s, 1 ≤ s → s < r → s < Fn s

theorem climb_spec {f : Nat → Except Panic Nat} {Fn : Nat → Nat} {r mb : Nat} (hN : NewtonOk f Fn r)
    (hmb : r < 2 ^ mb) : ∀ (fuel x : Nat), 1 ≤ x → (r < x → 1 ≤ fuel) → (x ≤ r → (r - x) + 2 ≤ fuel) →
    ∃ x', climb f mb fuel x (Fn x) = .ok (x', Fn x') ∧ r ≤ x' ∧ x' ≤ max x (2 ^ mb) := by
  intro fuel
  induction fuel with
  | zero =>
    intro x hx h1 h2
    by_cases h : r < x
    · have := h1 h; omega
    · have := h2 (by omega); omega
  | succ fuel ih =>
    intro x hx h1 h2
    simp only [climb]
    by_cases hc : x < Fn x
    · simp only [hc, if_true]
      have hxr : x ≤ r := by
        by_contra h
        have := hN.lt x (by omega); omega
      have hge := hN.ge x hx
      -- the saturated next iterate
      obtain ⟨x', hx'def, hx'r, hx'gt, hx'le⟩ :
          ∃ x', (if bits (Fn x) > mb then 1 <<< mb else Fn x) = x' ∧ r ≤ x' ∧ x < x' ∧ x' ≤ 2 ^ mb := by
        by_cases hb : bits (Fn x) > mb
        · refine ⟨2 ^ mb, by simp [hb, Nat.one_shiftLeft], by omega, by omega, le_refl _⟩
        · refine ⟨Fn x, by simp [hb], hge, hc, ?_⟩
          have := (bits_gt_iff (Fn x) mb).not.mp hb
          omega
      rw [hx'def, hN.eval x' (by omega)]
      simp only
      obtain ⟨x'', e, hr, hle⟩ := ih x' (by omega) (fun _ => by
          have := h2 hxr; omega) (fun hle => by
          have := h2 hxr; omega)
      refine ⟨x'', e, hr, ?_⟩
      have : max x' (2 ^ mb) = 2 ^ mb := Nat.max_eq_right hx'le
      rw [this] at hle
      exact le_trans hle (Nat.le_max_right _ _)
    · simp only [hc, if_false]
      refine ⟨x, rfl, ?_, Nat.le_max_left _ _⟩
      by_contra h
      have := hN.gt x hx (by omega); omega

theorem descend_spec {f : Nat → Except Panic Nat} {Fn : Nat → Nat} {r : Nat} (hN : NewtonOk f Fn r) :
    ∀ (fuel x : Nat), r ≤ x → (x - r) + 1 ≤ fuel → descend f fuel x (Fn x) = .ok r := by
  intro fuel
  induction fuel with
  | zero => intro x _ h; omega
  | succ fuel ih =>
    intro x hx hf
    simp only [descend]
    by_cases hc : x > Fn x
    · simp only [hc, if_true]
      have hge := hN.ge x (by have := hN.rpos; omega)
      rw [hN.eval (Fn x) (by have := hN.rpos; omega)]
      simp only
      exact ih (Fn x) hge (by omega)
    · simp only [hc, if_false]
      have : x = r := by
        by_contra h
        have := hN.lt x (by omega); omega
      rw [this]

/-- for every guess `g ≥ 1` and `fuel ≥ fixFuel g maxBits` the loop returns `r` -/
theorem fixpoint_ok {f : Nat → Except Panic Nat} {Fn : Nat → Nat} {r mb g fuel : Nat} (hN : NewtonOk f Fn r)
    (hmb : r < 2 ^ mb) (hg : 1 ≤ g) (hfuel : fixFuel g mb ≤ fuel) : fixpoint fuel g mb f = .ok r := by
  unfold fixFuel at hfuel
  unfold fixpoint
  rw [hN.eval g hg]
  simp only
  obtain ⟨x', e, hr, hle⟩ := climb_spec hN hmb fuel g hg (fun _ => by omega) (fun _ => by omega)
  rw [e]
  simp only
  refine descend_spec hN fuel x' hr ?_
  have : max g (2 ^ mb) ≤ g + 2 ^ mb := by
    rcases Nat.le_total g (2 ^ mb) with h | h
    · rw [Nat.max_eq_right h]; omega
    · rw [Nat.max_eq_left h]; omega
  omega

/-! ### the three closures -/

theorem stepNth_eval {x n s : Nat} (hn : 1 ≤ n) (hs : 1 ≤ s) : stepNth x n s = .ok (F x n s) := by
  unfold stepNth F
  have hpos : s ^ (n - 1) ≠ 0 := Nat.pos_iff_ne_zero.mp (Nat.pow_pos (by omega))
  have hn0 : n ≠ 0 := by omega
  simp only [hpos, hn0, if_false]

theorem stepSqrt_eq (x : Nat) : stepSqrt x = stepNth x 2 := by
  funext s
  unfold stepSqrt stepNth
  simp [Nat.shiftRight_eq_div_pow]

theorem stepCbrt_eq (x : Nat) : stepCbrt x = stepNth x 3 := by
  funext s
  unfold stepCbrt stepNth
  simp only [Nat.shiftLeft_eq, show (3 : Nat) - 1 = 2 by rfl, show (3 : Nat) ≠ 0 by decide, if_false, pow_two, pow_one]
  rw [Nat.mul_comm s 2]

theorem newtonOk_stepNth {x n : Nat} (hn : 1 ≤ n) (hx : 1 ≤ x) :
    NewtonOk (stepNth x n) (F x n) (Nat.nthRoot n x) where
  rpos := root_pos hn hx
  eval := fun _ hs => stepNth_eval hn hs
  ge := fun _ hs => F_ge hn hs
  lt := fun _ hs => F_lt hn hs
  gt := fun _ hs hlt => F_gt hn hs hlt

/-- the core of all three root functions: Newton from any guess `g ≥ 1` with `max_bits = bits/n + 1` -/
theorem fixpoint_root {x n g fuel : Nat} (hn : 1 ≤ n) (hx : 1 ≤ x) (hg : 1 ≤ g)
    (hfuel : fixFuel g (bits x / n + 1) ≤ fuel) :
    fixpoint fuel g (bits x / n + 1) (stepNth x n) = .ok (Nat.nthRoot n x) :=
  fixpoint_ok (newtonOk_stepNth hn hx) (root_lt_maxBits x hn) hg hfuel

/-! ### guess sources -/

/-- the source yields some guess `≥ 1` where `nth_root` evaluates `let guess = …` -/
def NthOk (S : GuessSrc) (x n : Nat) : Prop := ∃ g, 1 ≤ g ∧ S.nth x n (bits x) (bits x / n + 1) = .ok g
def SqrtOk (S : GuessSrc) (x : Nat) : Prop := ∃ g, 1 ≤ g ∧ S.sqrt x (bits x) (bits x / 2 + 1) = .ok g
def CbrtOk (S : GuessSrc) (x : Nat) : Prop := ∃ g, 1 ≤ g ∧ S.cbrt x (bits x) (bits x / 3 + 1) = .ok g

theorem sqrtG_ok {S : GuessSrc} {x : Nat} (hS : SqrtOk S x) : sqrtG S x = .ok (Nat.nthRoot 2 x) := by
  unfold sqrtG
  by_cases h01 : x = 0 ∨ x = 1
  · rcases h01 with h | h <;> subst h <;> simp
  · simp only [h01, if_false]
    by_cases hB : x < B
    · simp only [hB, if_true, floorRoot_eq x (show 1 ≤ 2 by decide)]
    · simp only [hB, if_false]
      obtain ⟨g, hg, e⟩ := hS
      rw [e]
      simp only
      rw [stepSqrt_eq]
      exact fixpoint_root (by decide) (by omega) hg (le_refl _)

theorem cbrtG_ok {S : GuessSrc} {x : Nat} (hS : CbrtOk S x) : cbrtG S x = .ok (Nat.nthRoot 3 x) := by
  unfold cbrtG
  by_cases h01 : x = 0 ∨ x = 1
  · rcases h01 with h | h <;> subst h <;> simp
  · simp only [h01, if_false]
    by_cases hB : x < B
    · simp only [hB, if_true, floorRoot_eq x (show 1 ≤ 3 by decide)]
    · simp only [hB, if_false]
      obtain ⟨g, hg, e⟩ := hS
      rw [e]
      simp only
      rw [stepCbrt_eq]
      exact fixpoint_root (by decide) (by omega) hg (le_refl _)

theorem nthRootG_ok {S : GuessSrc} {x n : Nat} (hn : 1 ≤ n) (h2 : SqrtOk S x) (h3 : CbrtOk S x) (h4 : NthOk S x n) :
    nthRootG S x n = .ok (Nat.nthRoot n x) := by
  unfold nthRootG
  have hn0 : n ≠ 0 := by omega
  simp only [hn0, if_false]
  by_cases h01 : x = 0 ∨ x = 1
  · rcases h01 with h | h <;> subst h <;> simp [hn0]
  · simp only [h01, if_false]
    by_cases hn1 : n = 1
    · subst hn1; simp
    simp only [hn1, if_false]
    by_cases hn2 : n = 2
    · subst hn2; simp only [if_true]; exact sqrtG_ok h2
    simp only [hn2, if_false]
    by_cases hn3 : n = 3
    · subst hn3; simp only [if_true]; exact cbrtG_ok h3
    simp only [hn3, if_false]
    by_cases hb : bits x ≤ n
    · simp only [hb, if_true]
      congr 1
      refine (Nat.nthRoot_eq_of_le_of_lt (by simp; omega) ?_).symm
      have h1 := lt_two_pow_bits x
      have h2 : 2 ^ bits x ≤ 2 ^ n := Nat.pow_le_pow_right (by decide) hb
      show x < 2 ^ n
      omega
    · simp only [hb, if_false]
      by_cases hB : x < B
      · simp only [hB, if_true, floorRoot_eq x hn]
      · simp only [hB, if_false]
        obtain ⟨g, hg, e⟩ := h4
        rw [e]
        simp only
        exact fixpoint_root hn (by omega) hg (le_refl _)

theorem nostd_ok (x n : Nat) : SqrtOk nostdSrc x ∧ CbrtOk nostdSrc x ∧ NthOk nostdSrc x n := by
  refine ⟨⟨_, ?_, rfl⟩, ⟨_, ?_, rfl⟩, ⟨_, ?_, rfl⟩⟩ <;> rw [Nat.one_shiftLeft] <;> exact Nat.pow_pos (by decide)

/-! ### the std guess source -/

/-- What is assumed of the float arm (trusted: IEEE `ln/exp/sqrt/cbrt`, `to_f64`, `from_f64`):
    a finite evaluation yields a guess `≥ 1`, and `to_f64` is non-finite only from `2^1023` on. -/
structure F64.Valid (Fl : F64) : Prop where
  nth_pos : ∀ x n g, Fl.nth x n = some g → 1 ≤ g
  nth_none : ∀ x n, Fl.nth x n = none → 2 ^ (f64MaxExp - 1) ≤ x
  sqrt_pos : ∀ x g, Fl.sqrt x = some g → 1 ≤ g
  sqrt_none : ∀ x, Fl.sqrt x = none → 2 ^ (f64MaxExp - 1) ≤ x
  cbrt_pos : ∀ x g, Fl.cbrt x = some g → 1 ≤ g
  cbrt_none : ∀ x, Fl.cbrt x = none → 2 ^ (f64MaxExp - 1) ≤ x

/-- values that fit f64 never recurse: depth 1 is enough -/
theorem std_ok_small {Fl : F64} (hF : Fl.Valid) (d x n : Nat) (hx : x < 2 ^ (f64MaxExp - 1)) :
    SqrtOk (stdSrc Fl (d + 1)) x ∧ CbrtOk (stdSrc Fl (d + 1)) x ∧ NthOk (stdSrc Fl (d + 1)) x n := by
  refine ⟨?_, ?_, ?_⟩
  · unfold SqrtOk stdSrc
    simp only
    cases h : Fl.sqrt x with
    | some g => exact ⟨g, hF.sqrt_pos x g h, rfl⟩
    | none => have := hF.sqrt_none x h; omega
  · unfold CbrtOk stdSrc
    simp only
    cases h : Fl.cbrt x with
    | some g => exact ⟨g, hF.cbrt_pos x g h, rfl⟩
    | none => have := hF.cbrt_none x h; omega
  · unfold NthOk stdSrc
    simp only
    cases h : Fl.nth x n with
    | some g => exact ⟨g, hF.nth_pos x n g h, rfl⟩
    | none => have := hF.nth_none x n h; omega

theorem shift_bounds {x scale : Nat} (h1 : scale < bits x) (h2 : bits x - scale ≤ f64MaxExp - 1) :
    1 ≤ x >>> scale ∧ x >>> scale < 2 ^ (f64MaxExp - 1) := by
  have hx0 : x ≠ 0 := by intro h; subst h; simp [bits] at h1
  have hlo := two_pow_bits_le hx0
  have hhi := lt_two_pow_bits x
  rw [Nat.shiftRight_eq_div_pow]
  constructor
  · have : 2 ^ scale ≤ 2 ^ (bits x - 1) := Nat.pow_le_pow_right (by decide) (by omega)
    exact (Nat.le_div_iff_mul_le (Nat.pow_pos (by decide))).mpr (by omega)
  · rw [Nat.div_lt_iff_lt_mul (Nat.pow_pos (by decide))]
    have : 2 ^ bits x ≤ 2 ^ (f64MaxExp - 1) * 2 ^ scale := by
      rw [← pow_add]; exact Nat.pow_le_pow_right (by decide) (by omega)
    omega

theorem divCeil_mul_ge (e : Nat) {n : Nat} (hn : 1 ≤ n) : e ≤ divCeil e n * n := by
  unfold divCeil
  have h := Nat.div_add_mod e n
  have hr := Nat.mod_lt e (show n > 0 by omega)
  have hc : n * (e / n) = e / n * n := Nat.mul_comm _ _
  by_cases hp : e % n > 0
  · simp only [hp, if_true]
    have : (e / n + 1) * n = e / n * n + n := by ring
    omega
  · simp only [hp, if_false]; omega

theorem bits_ge_of_le {x k : Nat} (h : 2 ^ k ≤ x) : k < bits x := (bits_gt_iff x k).mpr h

theorem shiftLeft_pos {r k : Nat} (h : 1 ≤ r) : 1 ≤ r <<< k := by
  rw [Nat.shiftLeft_eq]; exact Nat.mul_pos h (Nat.pow_pos (by decide))

/-- the std source with depth ≥ 2 yields a guess `≥ 1` for every value: the float arm by assumption,
    the scaled arm because the down-scaled value is `≥ 1`, fits f64, and its root (computed by the
    same code, one level down) is the floor root `≥ 1`; the fallback arm is `2^max_bits`. -/
theorem std_ok {Fl : F64} (hF : Fl.Valid) (d x n : Nat) (hn : 1 ≤ n) :
    SqrtOk (stdSrc Fl (d + 2)) x ∧ CbrtOk (stdSrc Fl (d + 2)) x ∧ NthOk (stdSrc Fl (d + 2)) x n := by
  have hE : f64MaxExp - 1 = 1023 := rfl
  refine ⟨?_, ?_, ?_⟩
  · unfold SqrtOk
    rw [show stdSrc Fl (d + 2) = stdSrc Fl (d + 1 + 1) from rfl]
    conv => arg 1; intro g; rw [stdSrc]
    simp only
    cases h : Fl.sqrt x with
    | some g => exact ⟨g, hF.sqrt_pos x g h, rfl⟩
    | none =>
      have hb := bits_ge_of_le (hF.sqrt_none x h)
      have he : extraBits (bits x) = .ok (bits x - (f64MaxExp - 1)) := by
        unfold extraBits; rw [if_neg (by omega)]
      simp only [he]
      generalize hsc : (bits x - (f64MaxExp - 1) + 1) / 2 = rs
      obtain ⟨hy1, hy2⟩ := shift_bounds (x := x) (scale := rs * 2) (by omega) (by omega)
      obtain ⟨o2, _, _⟩ := std_ok_small hF d (x >>> (rs * 2)) 2 hy2
      rw [sqrtG_ok o2]
      exact ⟨_, shiftLeft_pos (root_pos (by decide) hy1), rfl⟩
  · unfold CbrtOk
    rw [show stdSrc Fl (d + 2) = stdSrc Fl (d + 1 + 1) from rfl]
    conv => arg 1; intro g; rw [stdSrc]
    simp only
    cases h : Fl.cbrt x with
    | some g => exact ⟨g, hF.cbrt_pos x g h, rfl⟩
    | none =>
      have hb := bits_ge_of_le (hF.cbrt_none x h)
      have he : extraBits (bits x) = .ok (bits x - (f64MaxExp - 1)) := by
        unfold extraBits; rw [if_neg (by omega)]
      simp only [he]
      generalize hsc : (bits x - (f64MaxExp - 1) + 2) / 3 = rs
      obtain ⟨hy1, hy2⟩ := shift_bounds (x := x) (scale := rs * 3) (by omega) (by omega)
      obtain ⟨_, o3, _⟩ := std_ok_small hF d (x >>> (rs * 3)) 3 hy2
      rw [cbrtG_ok o3]
      exact ⟨_, shiftLeft_pos (root_pos (by decide) hy1), rfl⟩
  · unfold NthOk
    rw [show stdSrc Fl (d + 2) = stdSrc Fl (d + 1 + 1) from rfl]
    conv => arg 1; intro g; rw [stdSrc]
    simp only
    cases h : Fl.nth x n with
    | some g => exact ⟨g, hF.nth_pos x n g h, rfl⟩
    | none =>
      have hb := bits_ge_of_le (hF.nth_none x n h)
      have he : extraBits (bits x) = .ok (bits x - (f64MaxExp - 1)) := by
        unfold extraBits; rw [if_neg (by omega)]
      simp only [he]
      have hge := divCeil_mul_ge (bits x - (f64MaxExp - 1)) hn
      generalize divCeil (bits x - (f64MaxExp - 1)) n = rs at hge
      by_cases hc : rs * n < bits x ∧ bits x - rs * n > n
      · simp only [hc, and_self, if_true]
        obtain ⟨hy1, hy2⟩ := shift_bounds (x := x) (scale := rs * n) hc.1 (by omega)
        obtain ⟨o2, o3, o4⟩ := std_ok_small hF d (x >>> (rs * n)) n hy2
        rw [nthRootG_ok hn o2 o3 o4]
        exact ⟨_, shiftLeft_pos (root_pos hn hy1), rfl⟩
      · rw [if_neg hc]
        exact ⟨_, shiftLeft_pos (le_refl 1), rfl⟩

end NB.Roots
