"""C04 — constructors that live in other streams (from_str_radix / parse_bytes / from_radix_* in C06, from_bytes_* in
C09): every value they return must be canonical.  The harness prints the digit vector exactly as stored (no
re-normalisation), so a redundant high zero digit shows up as `…,0`.  Values sit on and around 64-bit digit boundaries,
where a top input digit straddles two native digits, with and without leading zero input digits."""
from genlib import *

def to_base(v, r):
    out = []
    while v:
        out.append(v % r); v //= r
    return out or [0]

ALPH = "0123456789abcdefghijklmnopqrstuvwxyz"

def gen(rng, tier):
    reqs = []
    ks = list(range(60, 70)) + list(range(124, 133)) + list(range(188, 196))
    if tier == "thorough":
        ks += list(range(250, 262)) + [319, 320, 321, 511, 512, 513, 1023, 1024, 1025]
    vals = []
    for k in ks:
        vals += [1 << k, (1 << k) - 1, (1 << k) + 1, (1 << k) + (1 << (k // 2)), 3 << (k - 1), rng.randrange(1 << (k - 1), 1 << k)]
    vals += [0, 1, B - 1, B, B * B - 1, B * B]
    for v in vals:
        for r in (2, 4, 8, 16, 32, 10, 36, 3, 7):
            ds = to_base(v, r)
            for lead in (0, 1, 3):
                txt = "0" * lead + "".join(ALPH[d] for d in reversed(ds))
                b = wbytes(txt.encode())
                reqs.append("C06 u.from_str %d %s" % (r, b))
                if rng.randrange(3) == 0:
                    reqs.append("C06 i.from_str %d %s" % (r, wbytes(("-" + txt).encode())))
                    reqs.append("C06 u.parse_bytes %d %s" % (r, b))
        for r in (2, 8, 32, 64, 128, 256, 10, 100, 255, 3):
            ds = to_base(v, r)
            for lead in (0, 2):
                le = ds + [0] * lead
                reqs.append("C06 u.from_radix_le %d %s" % (r, wbytes(le)))
                reqs.append("C06 u.from_radix_be %d %s" % (r, wbytes(list(reversed(le)))))
                if rng.randrange(4) == 0:
                    reqs.append("C06 i.from_radix_be - %d %s" % (r, wbytes(list(reversed(le)))))
        bs = to_base(v, 256)
        for lead in (0, 1, 9):
            reqs.append("C09 u.from_bytes_le %s" % wbytes(bs + [0] * lead))
            reqs.append("C09 u.from_bytes_be %s" % wbytes([0] * lead + list(reversed(bs))))
    return reqs
