"""Per-property configuration for tools/check.py."""

COMMON_ASSUME = [
    "64-bit x86_64 target (u64 digits); the 32-bit digit configuration is not modelled",
    "Vec growth/split/truncate semantics, the allocator and ownership are not modelled (values are immutable lists)",
]

PROPS = {
    "C01": {
        "lean": ["NB.Props.C01"],
        "gens": ["c01"],
        "profiles": ["release"],
        "trusted": ["_addcarry_u64/_subborrow_u64 = adc/sbb on Nat digits (NB.adc, NB.sbb)",
                    "asm block routine modelled as a chained adc/sbb over the first w*(len/d) digits (w from the generated instruction list, d from `size /= d`)"],
        "assumptions": COMMON_ASSUME,
    },
}
