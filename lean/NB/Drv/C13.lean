/- driver handlers for stream C13 (gcd, lcm, Bézout coefficients, multiple-of helpers).
   `extended_gcd` / `extended_gcd_lcm` print the coefficients (not unique mathematically, so the
   oracle column is `-`: implementation vs model only); the `.id` variants print `g` and `a*x + b*y`
   (computed by the harness with BigInt arithmetic) against the oracle `gcd gcd`. -/
import NB.Wire
import NB.Model.Gcd
import NB.Model.GcdD
import NB.Model.AsmParams
namespace NB.Drv.C13
open NB NB.Wire NB.IntVal

/-- the extracted parameters the digit-level operators run with -/
def P := NB.Gen.P

/-- operands as the harness builds them: `BigUint::new` / `BigInt::from_biguint` normalise (strip high
    zero limbs, zero gets `NoSign`), so the digit-level model is always run on the canonical vector the
    real code sees (identity on canonical request tokens; the shrinker of tools/check.py can emit a
    token like `0`).  A limb that is not a 64-bit digit is rejected (the harness cannot parse it either). -/
def pU (s : String) : Option (List Nat) := do
  let l ← parseLimbs s
  if l.all (fun d => decide (d < B)) then pure (normalize l) else none
def pI (s : String) : Option BigInt := do
  let x ← parseBigInt s
  if x.mag.all (fun d => decide (d < B)) then pure (BigInt.fromBiguint x.sign (normalize x.mag)) else none

/- MODEL column: the digit-level definitions of NB.Model.GcdD (namespace `NB.GcdD`), applied to the
   limbs exactly as received; results are digit vectors / BigInt records and are printed verbatim.
   ORACLE column: `Nat.gcd`, `Nat.lcm`, `Int.gcd`, `Int.fmod`, … on the values. -/
def lu (n : Nat) : String := showLimbs (ofNat n)
def li (i : Int) : String := showBigInt (BigInt.ofInt i)
def su := showExcept lu
def si := showExcept li
def sb := showExcept (fun b : Bool => showBool b)
def suu := showExcept (fun (p : Nat × Nat) => lu p.1 ++ " " ++ lu p.2)
def sii := showExcept (fun (p : Int × Int) => li p.1 ++ " " ++ li p.2)
/-- digit-level results -/
def du := showExcept showLimbs
def di := showExcept showBigInt
def duu := showExcept (fun (p : List Nat × List Nat) => showLimbs p.1 ++ " " ++ showLimbs p.2)
def dii := showExcept (fun (p : BigInt × BigInt) => showBigInt p.1 ++ " " ++ showBigInt p.2)

def oNextU (a b : Nat) : Except Panic Nat := if b = 0 then .error .divzero else .ok ((a + b - 1) / b * b)
def oPrevU (a b : Nat) : Except Panic Nat := if b = 0 then .error .divzero else .ok (a / b * b)
def oNextI (a b : Int) : Except Panic Int := if b = 0 then .error .divzero else .ok (a + Int.fmod (-a) b)
def oPrevI (a b : Int) : Except Panic Int := if b = 0 then .error .divzero else .ok (a - Int.fmod a b)
def oDecU (a : Nat) : Except Panic Nat := if a = 0 then .error .underflow else .ok (a - 1)

def handle (op : String) (args : List String) : Option (String × String) :=
  match op, args with
  | "u.gcd", [a, b] => do
    let a ← pU a; let b ← pU b
    pure (du (GcdD.gcd P a b), su (.ok (Nat.gcd (val a) (val b))))
  | "u.lcm", [a, b] => do
    let a ← pU a; let b ← pU b
    pure (du (GcdD.lcm P a b), su (.ok (Nat.lcm (val a) (val b))))
  | "u.gcd_lcm", [a, b] => do
    let a ← pU a; let b ← pU b
    pure (duu (GcdD.gcdLcm P a b), suu (.ok (Nat.gcd (val a) (val b), Nat.lcm (val a) (val b))))
  | "u.is_multiple_of", [a, b] => do
    let a ← pU a; let b ← pU b
    pure (sb (GcdD.isMultipleOf P a b), sb (.ok (decide (val a % val b = 0))))
  | "u.next_multiple_of", [a, b] => do
    let a ← pU a; let b ← pU b
    pure (du (GcdD.nextMultipleOf P a b), su (oNextU (val a) (val b)))
  | "u.prev_multiple_of", [a, b] => do
    let a ← pU a; let b ← pU b
    pure (du (GcdD.prevMultipleOf P a b), su (oPrevU (val a) (val b)))
  | "u.is_even", [a] => do
    let a ← pU a
    pure (sb (.ok (Gcd.isEven a)), sb (.ok (decide (val a % 2 = 0))))
  | "u.is_odd", [a] => do
    let a ← pU a
    pure (sb (.ok (Gcd.isOdd a)), sb (.ok (decide (val a % 2 = 1))))
  | "u.inc", [a] => do
    let a ← pU a
    pure (du (GcdD.inc P a), su (.ok (val a + 1)))
  | "u.dec", [a] => do
    let a ← pU a
    pure (du (GcdD.dec P a), su (oDecU (val a)))
  | "i.gcd", [a, b] => do
    let a ← pI a; let b ← pI b
    pure (di (GcdD.bigintGcd P a b), si (.ok (Int.gcd a.val b.val : Nat)))
  | "i.lcm", [a, b] => do
    let a ← pI a; let b ← pI b
    pure (di (GcdD.bigintLcm P a b), si (.ok (Int.lcm a.val b.val : Nat)))
  | "i.gcd_lcm", [a, b] => do
    let a ← pI a; let b ← pI b
    pure (dii (GcdD.bigintGcdLcm P a b), sii (.ok ((Int.gcd a.val b.val : Nat), (Int.lcm a.val b.val : Nat))))
  | "i.extended_gcd", [a, b] => do
    let a ← pI a; let b ← pI b
    let m := showExcept (fun (r : BigInt × BigInt × BigInt) =>
      showBigInt r.1 ++ " " ++ showBigInt r.2.1 ++ " " ++ showBigInt r.2.2) (GcdD.extendedGcd P a b)
    pure (m, "-")
  | "i.extended_gcd.id", [a, b] => do
    let a ← pI a; let b ← pI b
    let m := showExcept (fun (r : BigInt × BigInt × BigInt) =>
      showBigInt r.1 ++ " " ++ li (a.val * r.2.1.val + b.val * r.2.2.val)) (GcdD.extendedGcd P a b)
    let g : Int := (Int.gcd a.val b.val : Nat)
    pure (m, "ok " ++ li g ++ " " ++ li g)
  | "i.extended_gcd_lcm", [a, b] => do
    let a ← pI a; let b ← pI b
    let m := showExcept (fun (r : (BigInt × BigInt × BigInt) × BigInt) =>
      showBigInt r.1.1 ++ " " ++ showBigInt r.1.2.1 ++ " " ++ showBigInt r.1.2.2 ++ " " ++ showBigInt r.2)
      (GcdD.extendedGcdLcm P a b)
    pure (m, "-")
  | "i.extended_gcd_lcm.id", [a, b] => do
    let a ← pI a; let b ← pI b
    let m := showExcept (fun (r : (BigInt × BigInt × BigInt) × BigInt) =>
      showBigInt r.1.1 ++ " " ++ li (a.val * r.1.2.1.val + b.val * r.1.2.2.val) ++ " " ++ showBigInt r.2)
      (GcdD.extendedGcdLcm P a b)
    let g : Int := (Int.gcd a.val b.val : Nat)
    let l : Int := (Int.lcm a.val b.val : Nat)
    pure (m, "ok " ++ li g ++ " " ++ li g ++ " " ++ li l)
  | "i.is_multiple_of", [a, b] => do
    let a ← pI a; let b ← pI b
    pure (sb (GcdD.bigintIsMultipleOf P a b), sb (.ok (decide (a.val % b.val = 0))))
  | "i.next_multiple_of", [a, b] => do
    let a ← pI a; let b ← pI b
    pure (di (GcdD.bigintNextMultipleOf P a b), si (oNextI a.val b.val))
  | "i.prev_multiple_of", [a, b] => do
    let a ← pI a; let b ← pI b
    pure (di (GcdD.bigintPrevMultipleOf P a b), si (oPrevI a.val b.val))
  | "i.is_even", [a] => do
    let a ← pI a
    pure (sb (.ok (Gcd.isEven a.mag)), sb (.ok (decide (a.val % 2 = 0))))
  | "i.is_odd", [a] => do
    let a ← pI a
    pure (sb (.ok (Gcd.isOdd a.mag)), sb (.ok (decide (a.val % 2 = 1))))
  | "i.inc", [a] => do
    let a ← pI a
    pure (di (GcdD.bigintInc P a), si (.ok (a.val + 1)))
  | "i.dec", [a] => do
    let a ← pI a
    pure (di (GcdD.bigintDec P a), si (.ok (a.val - 1)))
  -- api-coverage: `Integer::divides` = `self.is_multiple_of(other)` for both types
  | "u.divides", [a, b] => do
    let a ← pU a; let b ← pU b
    pure (sb (GcdD.isMultipleOf P a b), sb (.ok (decide (val a % val b = 0))))
  | "i.divides", [a, b] => do
    let a ← pI a; let b ← pI b
    pure (sb (GcdD.bigintIsMultipleOf P a b), sb (.ok (decide (a.val % b.val = 0))))
  | _, _ => none

end NB.Drv.C13
