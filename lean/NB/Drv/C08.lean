/- driver handlers for stream C08 (primitive integer and float conversions).

   Each answer is `<model> | <oracle>`.  The oracles below are written directly from the
   mathematical definitions (range tables, "nearest representable value, ties to the even
   significand", "truncate the rational value of the float toward zero") and share no code with
   the model functions of NB.Model.Convert / NB.Model.Float.
   The model column of the float ops (`u.high_bits`, `u/i.to_f32/f64`, `u/i.from_f32/f64`) is the DIGIT-level
   model NB.Model.FloatD (`bits()`, `fls`, `<<=`, `>>=` through the digit-level models of C07, shift panics
   propagated); NB.Props.C08 proves it equal to NB.Model.Float (`…D_refines`) — no size cap.  -/
import NB.Wire
import NB.Model.Convert
import NB.Model.Float
import NB.Model.FloatD
namespace NB.Drv.C08
open NB NB.Wire NB.Conv

def parseTy (s : String) : Option PTy :=
  match s with
  | "u8" => some .u8 | "u16" => some .u16 | "u32" => some .u32 | "u64" => some .u64
  | "u128" => some .u128 | "usize" => some .usize
  | "i8" => some .i8 | "i16" => some .i16 | "i32" => some .i32 | "i64" => some .i64
  | "i128" => some .i128 | "isize" => some .isize
  | _ => none

/-- independent range table (literal bounds) -/
def oRange : PTy → Int × Int
  | .u8 => (0, 255) | .u16 => (0, 65535) | .u32 => (0, 4294967295)
  | .u64 | .usize => (0, 18446744073709551615)
  | .u128 => (0, 340282366920938463463374607431768211455)
  | .i8 => (-128, 127) | .i16 => (-32768, 32767) | .i32 => (-2147483648, 2147483647)
  | .i64 | .isize => (-9223372036854775808, 9223372036854775807)
  | .i128 => (-170141183460469231731687303715884105728, 170141183460469231731687303715884105727)

def oFits (t : PTy) (v : Int) : Bool := (oRange t).1 ≤ v && v ≤ (oRange t).2

/-- `<type>:<decimal>` with the value inside the type's range -/
def parseTyped (s : String) : Option (PTy × Int) :=
  match s.splitOn ":" with
  | [t, v] => do
    let t ← parseTy t; let v ← parseInt v
    if oFits t v then some (t, v) else none
  | _ => none

def showEO {α} (f : α → String) : Except Panic (Option α) → String
  | .ok r => showOpt f r
  | .error p => "panic " ++ p.toString

def showTry {α ε} (f : α → String) (g : ε → String) : TryRes α ε → String
  | .ok v => "ok " ++ f v
  | .err o => let s := g o; if s.isEmpty then "err" else "err " ++ s

def showETry {α ε} (f : α → String) (g : ε → String) : Except Panic (TryRes α ε) → String
  | .ok r => showTry f g r
  | .error p => "panic " ++ p.toString

/-! ### float oracles -/

/-- number of binary digits, by repeated halving (independent of `Nat.log2`) -/
def oLen (n : Nat) : Nat := go n n 0
where go : Nat → Nat → Nat → Nat
  | 0, _, acc => acc
  | fuel + 1, n, acc => if n = 0 then acc else go fuel (n / 2) (acc + 1)

/-- nearest value with at most `p` significant bits, ties to the even significand:
    compare the distances to the two neighbours `lo ≤ v < hi` -/
def oRound (p v : Nat) : Nat :=
  let n := oLen v
  if n ≤ p then v else
  let ulp := 2 ^ (n - p)
  let lo := v / ulp * ulp
  let hi := lo + ulp
  if v - lo < hi - v then lo
  else if hi - v < v - lo then hi
  else if (lo / ulp) % 2 = 0 then lo else hi

/-- IEEE pattern (`p` precision, `eb` exponent bits) of an exactly representable `w ≥ 0`;
    `+∞` from `2^emax` on -/
def oEncode (p eb w : Nat) : Nat :=
  if w = 0 then 0 else
  let emax := 2 ^ (eb - 1)
  if w ≥ 2 ^ emax then (2 ^ eb - 1) * 2 ^ (p - 1) else
  let e := oLen w - 1                      -- 2^e ≤ w < 2^(e+1)
  -- significand scaled to p bits: w·2^(p−1−e), hidden bit removed
  let sig := if e ≤ p - 1 then w * 2 ^ (p - 1 - e) else w / 2 ^ (e - (p - 1))
  (e + (emax - 1)) * 2 ^ (p - 1) + (sig - 2 ^ (p - 1))

def oToFloat (p eb : Nat) (v : Nat) : Nat := oEncode p eb (oRound p v)

/-- `(finite, negative, ⌊|x|⌋)` of the float with pattern `b` -/
def oDecode (p eb b : Nat) : Bool × Bool × Nat :=
  let fb := p - 1
  let frac := b % 2 ^ fb
  let e := (b / 2 ^ fb) % 2 ^ eb
  let neg := (b / 2 ^ (fb + eb)) % 2 = 1
  if e = 2 ^ eb - 1 then (false, neg, 0) else
  -- |x| = sig · 2^(ex − bias − fb),  bias = 2^(eb−1) − 1
  let sig := if e = 0 then frac else frac + 2 ^ fb
  let ex := if e = 0 then 1 else e
  let off := 2 ^ (eb - 1) - 1 + fb
  (true, neg, if ex ≥ off then sig * 2 ^ (ex - off) else sig / 2 ^ (off - ex))

def oFromFloatU (p eb b : Nat) : Option (List Nat) :=
  let (fin, neg, t) := oDecode p eb b
  if !fin then none
  else if neg && t ≠ 0 then none
  else some (ofNat t)

def oFromFloatI (p eb b : Nat) : Option BigInt :=
  let (fin, neg, t) := oDecode p eb b
  if !fin then none
  else some (BigInt.ofInt (if neg then -(t : Int) else (t : Int)))

def showBitsE : Except Panic Nat → String
  | .ok v => "ok " ++ showHex v
  | .error p => "panic " ++ p.toString

def oNeg (width v : Nat) (neg : Bool) : Nat := if neg then v + 2 ^ (width - 1) else v

/-- value of the top 64 bits with everything below or-ed into the LSB -/
def oHighBits (v : Nat) : Nat :=
  let n := oLen v
  if n ≤ 64 then v else
  let s := n - 64
  let t := v / 2 ^ s
  if v % 2 ^ s = 0 then t else (if t % 2 = 0 then t + 1 else t)

def handle (op : String) (args : List String) : Option (String × String) :=
  match op, args with
  -- big → primitive
  | "u.to", [t, x] => do
    let t ← parseTy t; let x ← parseLimbs x
    let v : Int := val x
    pure (showEO showInt (U.toPrim t x), showOpt showInt (if oFits t v then some v else none))
  | "i.to", [t, x] => do
    let t ← parseTy t; let x ← parseBigInt x
    let v := x.val
    pure (showEO showInt (I.toPrim t x), showOpt showInt (if oFits t v then some v else none))
  | "u.try_into", [t, x] => do
    let t ← parseTy t; let x ← parseLimbs x
    let v : Int := val x
    pure (showETry showInt showLimbs (U.tryInto t x),
          if oFits t v then "ok " ++ showInt v else "err " ++ showLimbs x)
  | "i.try_into", [t, x] => do
    let t ← parseTy t; let x ← parseBigInt x
    let v := x.val
    pure (showETry showInt showBigInt (I.tryInto t x),
          if oFits t v then "ok " ++ showInt v else "err " ++ showBigInt x)
  -- primitive → big
  | "u.from", [tv] =>
    if tv == "bool:0" then some (su (U.fromBool false), su (ofNat 0))
    else if tv == "bool:1" then some (su (U.fromBool true), su (ofNat 1))
    else do
      let (t, v) ← parseTyped tv
      let r ← U.from t v
      pure (su r, su (ofNat v.toNat))
  | "u.from_prim", [tv] => do
    let (t, v) ← parseTyped tv
    pure (showOpt showLimbs (U.fromPrim t v), showOpt showLimbs (if v < 0 then none else some (ofNat v.toNat)))
  | "u.try_from", [tv] => do
    let (t, v) ← parseTyped tv
    if !t.signed then none else
    pure ((match U.fromPrim t v with | some r => "ok " ++ showLimbs r | none => "err"),
          if v < 0 then "err" else "ok " ++ showLimbs (ofNat v.toNat))
  | "i.from", [tv] =>
    if tv == "bool:0" then some ("ok " ++ showBigInt (I.fromBool false), "ok " ++ showBigInt (BigInt.ofInt 0))
    else if tv == "bool:1" then some ("ok " ++ showBigInt (I.fromBool true), "ok " ++ showBigInt (BigInt.ofInt 1))
    else do
      let (t, v) ← parseTyped tv
      pure (showExcept showBigInt (I.from t v), "ok " ++ showBigInt (BigInt.ofInt v))
  | "i.from_prim", [tv] => do
    let (t, v) ← parseTyped tv
    pure (showEO showBigInt (I.fromPrim t v), "some " ++ showBigInt (BigInt.ofInt v))
  -- BigUint ↔ BigInt
  | "u.try_from_i", [x] => do
    let x ← parseBigInt x
    pure (showTry showLimbs showBigInt (U.tryFromBigInt x),
          if x.val < 0 then "err " ++ showBigInt x else "ok " ++ showLimbs (ofNat x.val.toNat))
  | "u.try_from_iref", [x] => do
    let x ← parseBigInt x
    pure (showTry showLimbs (fun _ => "") (U.tryFromBigIntRef x),
          if x.val < 0 then "err" else "ok " ++ showLimbs (ofNat x.val.toNat))
  | "i.to_biguint", [x] => do
    let x ← parseBigInt x
    pure (showOpt showLimbs (I.toBiguint x), if x.val < 0 then "none" else "some " ++ showLimbs (ofNat x.val.toNat))
  | "u.to_bigint", [x] => do
    let x ← parseLimbs x
    pure ("some " ++ showBigInt (I.fromBiguint x), "some " ++ showBigInt (BigInt.ofInt (val x)))
  -- api-coverage: trait impls `ToBigUint for BigInt` (same three-arm match as the inherent method),
  -- `ToBigUint for BigUint` / `ToBigInt for BigInt` (`Some(self.clone())`)
  | "i.to_biguint_t", [x] => do
    let x ← parseBigInt x
    pure (showOpt showLimbs (I.toBiguint x), if x.val < 0 then "none" else "some " ++ showLimbs (ofNat x.val.toNat))
  | "u.to_biguint_t", [x] => do
    let x ← parseLimbs x
    pure ("some " ++ showLimbs x, "some " ++ showLimbs (ofNat (val x)))
  | "i.to_bigint_t", [x] => do
    let x ← parseBigInt x
    pure ("some " ++ showBigInt x, "some " ++ showBigInt (BigInt.ofInt x.val))
  | "i.from_u", [x] => do
    let x ← parseLimbs x
    pure ("ok " ++ showBigInt (I.fromBiguint x), "ok " ++ showBigInt (BigInt.ofInt (val x)))
  -- big → float
  | "u.high_bits", [x] => do
    let x ← parseLimbs x
    pure (showBitsE (highBitsToU64D x), "ok " ++ showHex (oHighBits (val x)))
  | "u.to_f64", [x] => do
    let x ← parseLimbs x
    pure (showBitsE (U.toFloatD f64 x), "ok " ++ showHex (oToFloat 53 11 (val x)))
  | "u.to_f32", [x] => do
    let x ← parseLimbs x
    pure (showBitsE (U.toFloatD f32 x), "ok " ++ showHex (oToFloat 24 8 (val x)))
  | "i.to_f64", [x] => do
    let x ← parseBigInt x
    pure (showBitsE (I.toFloatD f64 x), "ok " ++ showHex (oNeg 64 (oToFloat 53 11 x.val.natAbs) (x.val < 0)))
  | "i.to_f32", [x] => do
    let x ← parseBigInt x
    pure (showBitsE (I.toFloatD f32 x), "ok " ++ showHex (oNeg 32 (oToFloat 24 8 x.val.natAbs) (x.val < 0)))
  -- float → big
  | "u.from_f64", [b] => do
    let b ← parseHex b
    if b ≥ 2 ^ 64 then none else
    pure (showEO showLimbs (U.fromF64D b), showOpt showLimbs (oFromFloatU 53 11 b))
  | "u.from_f32", [b] => do
    let b ← parseHex b
    if b ≥ 2 ^ 32 then none else
    pure (showEO showLimbs (U.fromF32D b), showOpt showLimbs (oFromFloatU 24 8 b))
  | "i.from_f64", [b] => do
    let b ← parseHex b
    if b ≥ 2 ^ 64 then none else
    pure (showEO showBigInt (I.fromF64D b), showOpt showBigInt (oFromFloatI 53 11 b))
  | "i.from_f32", [b] => do
    let b ← parseHex b
    if b ≥ 2 ^ 32 then none else
    pure (showEO showBigInt (I.fromF32D b), showOpt showBigInt (oFromFloatI 24 8 b))
  | _, _ => none
where su (l : List Nat) : String := "ok " ++ showLimbs l

end NB.Drv.C08
