"""Per-property configuration for tools/check.py."""
import special

COMMON_ASSUME = [
    "64-bit x86_64 target (u64 digits); the 32-bit digit configuration is not modelled",
    "Vec growth/split/truncate semantics, the allocator and ownership are not modelled (values are immutable lists)",
]

PROPS = {
    "C01": {
        "lean": ["NB.Props.C01"],
        "gens": ["c01"],
        "profiles": ["release"],
        "trusted": ["_addcarry_u64/_subborrow_u64 = adc/sbb on Nat digits (NB.adc, NB.sbb)",
                    "asm block routine modelled as a chained adc/sbb over the first w*(len/d) digits (w from the generated instruction list, d from `size /= d`)"],
        "assumptions": COMMON_ASSUME,
        "level_text": "Theorems addAssign_spec, addRef_spec, subAssign_spec, subRefVal_spec, checkedSub_spec, bigint_add_spec, bigint_sub_spec: for ALL canonical operands (any length, digit content, sign pair) the model of each code path returns exactly the canonical representation of the mathematical sum/difference, and BigUint subtraction fails exactly when a<b. The model is tied to the source by regenerated asm/block parameters (proof obligation gen_params_valid_addsub) and by a 3-way differential run on structured carry/borrow patterns.",
        "level_note": "Trusted: Lean kernel + {propext, Classical.choice, Quot.sound}; adc/sbb intrinsics and the asm block routine are modelled (chained adc/sbb on Nat digits); Vec/ownership not modelled; correspondence strength bounded by the generators.",
    },
}

PROPS["C15"] = {
    "lean": ["NB.Props.C15"],
    "gens": ["c15"],
    "profiles": ["release"],
    "special": special.c15_special,
    "trusted": ["mini x86 semantics NB.Model.Asm (adc/sbb/inc/dec/jnz/setc/clc on 64-bit registers, two bounded memories)",
                "tools/extract.py translation of the asm! templates into NB.Gen.AsmProg",
                "valgrind memcheck as the observer of real memory accesses"],
    "assumptions": COMMON_ASSUME + ["rustc honours the asm! operand constraints; real memory behaviour is observed (valgrind, exact-size heap blocks), not proved"],
    "level": "proof",
    "level_text": "PARTIAL by nature: proved, for the asm instruction lists regenerated from the source on every run and under my mini x86 semantics, that both inline-asm routines never fault, never store through the borrowed pointer, write only a[0..w*n), return idx=w*n, and compute exactly the adc/sbb chain (asm_add_refines / asm_sub_refines, all sizes, by symbolic execution of one iteration + induction over iterations), and that the callers pass w*(len/d) <= len digits (blk_done_le). Real memory behaviour of the compiled code (operand constraints honoured by rustc, allocator layout, the div instruction, from_utf8_unchecked, the u64-as-u32 view) is OBSERVED, not proved: every request also runs under valgrind memcheck on exact-size heap blocks, borrowed operands are compared with saved copies, text is validated as ASCII within the radix alphabet.",
    "level_note": "Trusted: Lean kernel + {propext, Classical.choice, Quot.sound}; NB.Model.Asm (my x86 subset semantics); tools/extract.py asm! parser; valgrind. The alphabet theorem for to_str_radix belongs to C06, the div_wide precondition to C03.",
    "technique": "Lean 4 symbolic execution proof over translator-generated asm instruction lists + valgrind-observed correspondence run",
}

PROPS["C16"] = {
    "lean": ["NB.Props.C16"],
    "gens": ["c16"],
    "profiles": ["release"],
    "special": special.c16_special,
    "trusted": ["cargo/rustc as the judge of 'this configuration compiles'",
                "the harness's feature plumbing (harness/Cargo.toml features std/rand/serde forward to num-bigint)"],
    "assumptions": COMMON_ASSUME + ["compile success is observed by exhaustive enumeration of the finite configuration set, not proved"],
    "level": "proof",
    "level_text": "PARTIAL by nature: the model has no feature parameter at all (every model function is configuration-free by construction), and the only feature-conditional computations are (1) Vec capacity estimates in radix output, which are not an input of any model function, and (2) the initial guess of the root iteration, for which the theorem root_config_independent (C11: the result is the floor root for EVERY guess >= 1) gives equality of results across std/no_std. That every documented configuration COMPILES and produces byte-identical transcripts is observed by exhaustive enumeration: cargo check of all 20 feature sets of ci/test_full.sh and harness transcripts (cross-section of all streams, all radix/root cases) across std/no_std x features x debug/release.",
    "level_note": "Trusted: Lean kernel; cargo/rustc; harness feature plumbing. Compile success and transcript identity are exhaustive observations over the finite configuration set.",
    "technique": "Lean 4 configuration-independence theorems + exhaustive enumeration of the finite feature-configuration set (cargo check + byte-identical transcripts)",
    "claimed": False,
}

PROPS["C05"] = {
        "lean": ["NB.Props.C05"],
        "gens": ["c05"],
        "profiles": ["release", "debug"],
        "trusted": ["u64/u128 wrapping arithmetic and bit operations = Nat arithmetic mod 2^64 and Nat.land/lor/shiftRight on digits < 2^64 (NB.wadd, wsub, wmul, wnot, hdBorrow)",
                    "BigUint operators used inside modpow/modinv (* % div_rem - cmp <<) taken as the mathematical operations (justified by C01-C03, C07)"],
        "assumptions": COMMON_ASSUME,
        "level_text": "Theorems (all sorry-free, none _partial): modpow_spec — for ALL canonical b, e, m with m != 0 the model of BigUint::modpow returns the canonical digits of b^e mod m, on the odd path (monty_modpow_spec: padding, rr, 16-entry table, 4-bit windows from the top, skipped first squarings, conversion out, last reduction; built on montgomery_spec: n-digit operands not necessarily < m, z < B^n and z*B^n = x*y (mod m), with the digit-level lemmas add_mul_vvw_spec, sub_vv_spec (Hacker's-Delight borrow proved arithmetically), inv_mod_alt_spec k*b = -1 (mod 2^64)) and on the even path (plain_modpow_spec: zero-digit skipping, trailing-zero stripping, early exit, last digit); modinv_spec — Some(x) iff gcd(a,m)=1, then x<m and a*x = 1 (mod m), zero modulus panics; bigint_modpow_spec — negative exponent / zero modulus panic, otherwise BigInt.ofInt (Int.fmod (b^e) m); bigint_modinv_spec — Some(y) iff gcd=1, y canonical, in [0,m) resp. (m,0], m | a*y-1. No internal assertion, overflow site or checked subtraction of the model is reachable. The model is tied to the source by the extracted window width (obligation gen_params_valid_monty: window = 4 = the four literal squarings) and by a 3-way differential run (real crate release+debug vs compiled model vs independent Nat/Int oracle) on structured moduli/bases/exponents/signs plus the internal hooks montgomery (digit-exact and checked mod m / < B^n, exit branch compared through the MONTY_SUB probe) and inv_mod_alt.",
        "level_note": 'Trusted: Lean kernel + {propext, Classical.choice, Quot.sound} (no bv_decide needed); u64/u128 wrapping arithmetic and & | ! >> modelled as Nat arithmetic mod 2^64 and Nat.land/lor/shiftRight; BigUint operators inside modpow/modinv taken as the mathematical operations (C01-C03, C07); Vec/ownership not modelled; correspondence strength bounded by the generators (quick: ~9.8k requests, probes MONTY_SUB/NOSUB/FINAL_SUB all hit).',
    }

NOT_CLAIMED = {}

if __name__ == "__main__":
    import sys
    if "--lean-modules" in sys.argv:
        mods = []
        for p in PROPS.values():
            for m in p.get("lean", []):
                if m not in mods:
                    mods.append(m)
        print(" ".join(mods))
