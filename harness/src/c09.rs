//! stream C09: bytes, digit vectors, digit iterators
use crate::wire::*;
use num_bigint::{BigInt, BigUint, Sign};
use num_traits::{FromBytes, ToBytes};
use std::fmt::LowerHex;

fn sign_tok(s: &str) -> Option<Sign> {
    let mut it = s.chars();
    let c = it.next()?;
    if it.next().is_some() {
        return None;
    }
    parse_sign(c)
}

#[derive(Clone, Copy)]
enum Call {
    Next,
    NextBack,
    Len,
    SizeHint,
    Nth(usize),
    Last,
    Count,
}

fn parse_calls(s: &str) -> Option<Vec<Call>> {
    if s == "-" {
        return Some(vec![]);
    }
    let b = s.as_bytes();
    let mut i = 0;
    let mut out = vec![];
    while i < b.len() {
        let c = b[i] as char;
        i += 1;
        out.push(match c {
            'n' => Call::Next,
            'b' => Call::NextBack,
            'l' => Call::Len,
            'h' => Call::SizeHint,
            'L' => Call::Last,
            'C' => Call::Count,
            't' => {
                let st = i;
                while i < b.len() && b[i].is_ascii_digit() {
                    i += 1;
                }
                if st == i {
                    return None;
                }
                Call::Nth(s[st..i].parse().ok()?)
            }
            _ => return None,
        });
    }
    Some(out)
}

fn item<T: LowerHex>(o: Option<T>) -> String {
    match o {
        Some(x) => format!("s{:x}", x),
        None => "n".to_string(),
    }
}

/// drive a digit iterator with a call sequence; `last`/`count` consume it and end the run
fn run<T: LowerHex, I>(mut it: I, calls: &[Call]) -> String
where
    I: Iterator<Item = T> + DoubleEndedIterator + ExactSizeIterator,
{
    let mut out: Vec<String> = vec![];
    for (k, c) in calls.iter().enumerate() {
        match *c {
            Call::Next => out.push(item(it.next())),
            Call::NextBack => out.push(item(it.next_back())),
            Call::Len => out.push(format!("{}", it.len())),
            Call::SizeHint => {
                let (lo, hi) = it.size_hint();
                out.push(match hi {
                    Some(h) => format!("h{}:{}", lo, h),
                    None => format!("h{}:none", lo),
                });
            }
            Call::Nth(n) => out.push(item(it.nth(n))),
            Call::Last => {
                out.push(item(it.last()));
                let _ = k;
                break;
            }
            Call::Count => {
                out.push(format!("{}", it.count()));
                break;
            }
        }
    }
    if out.is_empty() {
        "ok".to_string()
    } else {
        format!("ok {}", out.join(" "))
    }
}

/// a prefix of calls (no `last`/`count`), then internal iteration over what is left: `F` = `fold` collecting front to
/// back, `E` = `for_each`, `R` = `rfold` (back to front), `V` = `rev().collect()`, `S` = `sum`, `K` = `skip(1)` + fold
fn run_internal<I>(mut it: I, calls: &[Call], kind: &str) -> Option<String>
where
    I: Iterator + DoubleEndedIterator + ExactSizeIterator,
    I::Item: LowerHex + Into<u64> + Copy,
{
    let mut out: Vec<String> = vec![];
    for c in calls {
        match *c {
            Call::Next => out.push(item(it.next())),
            Call::NextBack => out.push(item(it.next_back())),
            Call::Len => out.push(format!("{}", it.len())),
            Call::SizeHint => {
                let (lo, hi) = it.size_hint();
                out.push(match hi {
                    Some(h) => format!("h{}:{}", lo, h),
                    None => format!("h{}:none", lo),
                });
            }
            Call::Nth(n) => out.push(item(it.nth(n))),
            Call::Last | Call::Count => return None,
        }
    }
    let mut items: Vec<I::Item> = vec![];
    match kind {
        "F" => items = it.fold(vec![], |mut v, x| { v.push(x); v }),
        "E" => it.for_each(|x| items.push(x)),
        "R" => items = it.rfold(vec![], |mut v, x| { v.push(x); v }),
        "V" => items = it.rev().collect(),
        "S" => {
            let tot: u64 = it.map(|x| x.into()).fold(0u64, |a, b| a.wrapping_add(b));
            out.push(format!("sum:{:x}", tot));
            return Some(format!("ok {}", out.join(" ")));
        }
        _ => return None,
    }
    out.push(";".to_string());
    for x in items {
        out.push(format!("s{:x}", x));
    }
    Some(format!("ok {}", out.join(" ")))
}

pub fn handle(op: &str, a: &[&str]) -> Option<String> {
    Some(match (op, a) {
        ("u.to_bytes_le", [x]) => format!("ok {}", show_bytes(&parse_u(x)?.to_bytes_le())),
        ("u.to_bytes_be", [x]) => format!("ok {}", show_bytes(&parse_u(x)?.to_bytes_be())),
        ("u.to_le_bytes", [x]) => format!("ok {}", show_bytes(&ToBytes::to_le_bytes(&parse_u(x)?))),
        ("u.to_be_bytes", [x]) => format!("ok {}", show_bytes(&ToBytes::to_be_bytes(&parse_u(x)?))),
        ("u.from_bytes_le", [b]) => ok_u(&BigUint::from_bytes_le(&parse_bytes(b)?)),
        ("u.from_bytes_be", [b]) => ok_u(&BigUint::from_bytes_be(&parse_bytes(b)?)),
        ("u.from_le_bytes", [b]) => ok_u(&<BigUint as FromBytes>::from_le_bytes(&parse_bytes(b)?[..])),
        ("u.from_be_bytes", [b]) => ok_u(&<BigUint as FromBytes>::from_be_bytes(&parse_bytes(b)?[..])),
        ("i.to_signed_bytes_le", [x]) => format!("ok {}", show_bytes(&parse_i(x)?.to_signed_bytes_le())),
        ("i.to_signed_bytes_be", [x]) => format!("ok {}", show_bytes(&parse_i(x)?.to_signed_bytes_be())),
        ("i.to_le_bytes", [x]) => format!("ok {}", show_bytes(&ToBytes::to_le_bytes(&parse_i(x)?))),
        ("i.to_be_bytes", [x]) => format!("ok {}", show_bytes(&ToBytes::to_be_bytes(&parse_i(x)?))),
        ("i.from_signed_bytes_le", [b]) => ok_i(&BigInt::from_signed_bytes_le(&parse_bytes(b)?)),
        ("i.from_signed_bytes_be", [b]) => ok_i(&BigInt::from_signed_bytes_be(&parse_bytes(b)?)),
        ("i.from_le_bytes", [b]) => ok_i(&<BigInt as FromBytes>::from_le_bytes(&parse_bytes(b)?[..])),
        ("i.from_be_bytes", [b]) => ok_i(&<BigInt as FromBytes>::from_be_bytes(&parse_bytes(b)?[..])),
        // api-coverage: the PROVIDED `ToBytes::to_ne_bytes` / `FromBytes::from_ne_bytes` (num-traits: the little-endian
        // form on this target); not overridden by the crate — an override added by a change would be reached here
        ("u.to_ne_bytes", [x]) => format!("ok {}", show_bytes(&ToBytes::to_ne_bytes(&parse_u(x)?))),
        ("i.to_ne_bytes", [x]) => format!("ok {}", show_bytes(&ToBytes::to_ne_bytes(&parse_i(x)?))),
        ("u.from_ne_bytes", [b]) => ok_u(&<BigUint as FromBytes>::from_ne_bytes(&parse_bytes(b)?[..])),
        ("i.from_ne_bytes", [b]) => ok_i(&<BigInt as FromBytes>::from_ne_bytes(&parse_bytes(b)?[..])),
        ("i.to_bytes_le", [x]) => {
            let (s, b) = parse_i(x)?.to_bytes_le();
            format!("ok {} {}", show_sign(s), show_bytes(&b))
        }
        ("i.to_bytes_be", [x]) => {
            let (s, b) = parse_i(x)?.to_bytes_be();
            format!("ok {} {}", show_sign(s), show_bytes(&b))
        }
        ("i.from_bytes_le", [s, b]) => ok_i(&BigInt::from_bytes_le(sign_tok(s)?, &parse_bytes(b)?)),
        ("i.from_bytes_be", [s, b]) => ok_i(&BigInt::from_bytes_be(sign_tok(s)?, &parse_bytes(b)?)),
        ("u.to_u32_digits", [x]) => format!("ok {}", show_words(&parse_u(x)?.to_u32_digits())),
        ("u.to_u64_digits", [x]) => format!("ok {}", show_limbs(&parse_u(x)?.to_u64_digits())),
        ("i.to_u32_digits", [x]) => {
            let (s, w) = parse_i(x)?.to_u32_digits();
            format!("ok {} {}", show_sign(s), show_words(&w))
        }
        ("i.to_u64_digits", [x]) => {
            let (s, w) = parse_i(x)?.to_u64_digits();
            format!("ok {} {}", show_sign(s), show_limbs(&w))
        }
        ("u.new", [w]) => ok_u(&BigUint::new(parse_words(w)?)),
        ("u.from_slice", [w]) => ok_u(&BigUint::from_slice(&parse_words(w)?)),
        ("u.assign_from_slice", [old, w]) => {
            let mut v = parse_u(old)?;
            v.assign_from_slice(&parse_words(w)?);
            ok_u(&v)
        }
        ("i.new", [s, w]) => ok_i(&BigInt::new(sign_tok(s)?, parse_words(w)?)),
        ("i.from_slice", [s, w]) => ok_i(&BigInt::from_slice(sign_tok(s)?, &parse_words(w)?)),
        ("i.assign_from_slice", [old, s, w]) => {
            let mut v = parse_i(old)?;
            v.assign_from_slice(sign_tok(s)?, &parse_words(w)?);
            ok_i(&v)
        }
        ("iter32x", [x, cs, kind]) => {
            let v = parse_u(x)?;
            let k = match *kind { "E" => "F", "V" => "R", k => k };
            let _ = k;
            run_internal(v.iter_u32_digits(), &parse_calls(cs)?, kind)?
        }
        ("iter64x", [x, cs, kind]) => {
            let v = parse_u(x)?;
            run_internal(v.iter_u64_digits(), &parse_calls(cs)?, kind)?
        }
        ("iter32", [x, cs]) => {
            let v = parse_u(x)?;
            run(v.iter_u32_digits(), &parse_calls(cs)?)
        }
        ("iter64", [x, cs]) => {
            let v = parse_u(x)?;
            run(v.iter_u64_digits(), &parse_calls(cs)?)
        }
        ("i.iter32", [x, cs]) => {
            let v = parse_i(x)?;
            run(v.iter_u32_digits(), &parse_calls(cs)?)
        }
        ("i.iter64", [x, cs]) => {
            let v = parse_i(x)?;
            run(v.iter_u64_digits(), &parse_calls(cs)?)
        }
        _ => return None,
    })
}
