/- driver handlers for stream C18 (random generation over a word tape) -/
import NB.Wire
import NB.Model.Rand
import NB.Model.AsmParams
namespace NB.Drv.C18
open NB NB.Wire NB.Rand

def P := NB.Gen.P
def RP := NB.Gen.RP

/-- a tape on the wire: every word must be a u32 -/
def parseTape (s : String) : Option (List Nat) := do
  let t ← parseWords s
  if t.all (· < WB) then some t else none

/-- `ok <value> <words consumed>` | `tape-exhausted` | `panic <class>` -/
def showR {α : Type} (f : α → String) (tape : List Nat) : R α → String
  | .error p => "panic " ++ p.toString
  | .ok none => "tape-exhausted"
  | .ok (some (v, rest)) => "ok " ++ f v ++ " " ++ toString (tape.length - rest.length)

def showE {α : Type} (f : α → String) (tape : List Nat) : Except Panic (Option (α × List Nat)) → String :=
  showR f tape

def oU (tape : List Nat) (r : Option (Nat × List Nat)) (off : Nat := 0) : String :=
  showR showLimbs tape (.ok (r.map fun (c, t) => (ofNat (off + c), t)))

def oI (tape : List Nat) (r : Option (Int × List Nat)) : String :=
  showR showBigInt tape (.ok (r.map fun (c, t) => (BigInt.ofInt c, t)))

def emptyrange : String := "panic emptyrange"

/-- oracle for every unsigned range form: `lo + first candidate below (hi - lo)` -/
def oRangeU (lo hi : Nat) (tape : List Nat) : String :=
  if lo < hi then oU tape (belowSpec (hi - lo) tape) lo else emptyrange

def oRangeI (lo hi : Int) (tape : List Nat) : String :=
  if lo < hi then oI tape ((belowSpec (hi - lo).toNat tape).map fun (c, t) => (lo + (c : Int), t))
  else emptyrange

def handle (op : String) (args : List String) : Option (String × String) :=
  match op, args with
  | "gen_biguint", [n, t] => do
    let n ← parseNat n; let t ← parseTape t
    pure (showR showLimbs t (genBiguint RP n t), oU t (genSpec n t))
  | "random_bits_u", [n, t] => do
    let n ← parseNat n; let t ← parseTape t
    pure (showR showLimbs t (randomBitsU RP n t), oU t (genSpec n t))
  | "gen_bigint", [n, t] => do
    let n ← parseNat n; let t ← parseTape t
    pure (showR showBigInt t (genBigint RP n t), oI t (bigintSpec n t))
  | "random_bits_i", [n, t] => do
    let n ← parseNat n; let t ← parseTape t
    pure (showR showBigInt t (randomBitsI RP n t), oI t (bigintSpec n t))
  | "gen_biguint_below", [b, t] => do
    let b ← parseLimbs b; let t ← parseTape t
    pure (showR showLimbs t (genBiguintBelow RP b t),
          if val b = 0 then emptyrange else oU t (belowSpec (val b) t))
  | "gen_biguint_range", [lo, hi, t] => do
    let lo ← parseLimbs lo; let hi ← parseLimbs hi; let t ← parseTape t
    pure (showR showLimbs t (genBiguintRange P RP lo hi t), oRangeU (val lo) (val hi) t)
  | "sample_single_u", [lo, hi, t] => do
    let lo ← parseLimbs lo; let hi ← parseLimbs hi; let t ← parseTape t
    pure (showR showLimbs t (UniformU.sampleSingle P RP lo hi t), oRangeU (val lo) (val hi) t)
  | "gen_bigint_range", [lo, hi, t] => do
    let lo ← parseBigInt lo; let hi ← parseBigInt hi; let t ← parseTape t
    pure (showR showBigInt t (genBigintRange P RP lo hi t), oRangeI lo.val hi.val t)
  | "sample_single_i", [lo, hi, t] => do
    let lo ← parseBigInt lo; let hi ← parseBigInt hi; let t ← parseTape t
    pure (showR showBigInt t (UniformI.sampleSingle P RP lo hi t), oRangeI lo.val hi.val t)
  | "uniform_u", [lo, hi, incl, t] => do
    let lo ← parseLimbs lo; let hi ← parseLimbs hi; let incl ← parseNat incl; let t ← parseTape t
    let m := showR showLimbs t (UniformU.newSample P RP (incl != 0) lo hi t)
    pure (m, oRangeU (val lo) (val hi + (if incl = 0 then 0 else 1)) t)
  | "uniform_i", [lo, hi, incl, t] => do
    let lo ← parseBigInt lo; let hi ← parseBigInt hi; let incl ← parseNat incl; let t ← parseTape t
    let m := showR showBigInt t (UniformI.newSample P RP (incl != 0) lo hi t)
    pure (m, oRangeI lo.val (hi.val + (if incl = 0 then 0 else 1)) t)
  -- api-coverage: `SampleUniform for BigUint/BigInt` through rand's generic front ends.
  -- `gen_range(lo..hi)` = `Sampler::sample_single`; `gen_range(lo..=hi)` = provided `sample_single_inclusive`
  -- = `new_inclusive(lo, hi).sample(rng)`; `Uniform::new/new_inclusive/from` = `Sampler::new/new_inclusive` + `sample`.
  | "gen_range_u", [lo, hi, incl, t] => do
    let lo ← parseLimbs lo; let hi ← parseLimbs hi; let incl ← parseNat incl; let t ← parseTape t
    if (incl = 0 ∧ val lo ≥ val hi) ∨ (incl ≠ 0 ∧ val lo > val hi) then none else
    let m := if incl = 0 then showR showLimbs t (UniformU.sampleSingle P RP lo hi t)
             else showR showLimbs t (UniformU.newSample P RP true lo hi t)
    pure (m, oRangeU (val lo) (val hi + (if incl = 0 then 0 else 1)) t)
  | "gen_range_i", [lo, hi, incl, t] => do
    let lo ← parseBigInt lo; let hi ← parseBigInt hi; let incl ← parseNat incl; let t ← parseTape t
    if (incl = 0 ∧ lo.val ≥ hi.val) ∨ (incl ≠ 0 ∧ lo.val > hi.val) then none else
    let m := if incl = 0 then showR showBigInt t (UniformI.sampleSingle P RP lo hi t)
             else showR showBigInt t (UniformI.newSample P RP true lo hi t)
    pure (m, oRangeI lo.val (hi.val + (if incl = 0 then 0 else 1)) t)
  | "dist_uniform_u", [lo, hi, incl, t] => do
    let lo ← parseLimbs lo; let hi ← parseLimbs hi; let incl ← parseNat incl; let t ← parseTape t
    let inc := incl % 2 = 1
    let m := showR showLimbs t (UniformU.newSample P RP inc lo hi t)
    pure (m, oRangeU (val lo) (val hi + (if inc then 1 else 0)) t)
  | "dist_uniform_i", [lo, hi, incl, t] => do
    let lo ← parseBigInt lo; let hi ← parseBigInt hi; let incl ← parseNat incl; let t ← parseTape t
    let inc := incl % 2 = 1
    let m := showR showBigInt t (UniformI.newSample P RP inc lo hi t)
    pure (m, oRangeI lo.val (hi.val + (if inc then 1 else 0)) t)
  | _, _ => none

end NB.Drv.C18
