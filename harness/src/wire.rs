//! wire format helpers (see lean/NB/Wire.lean for the grammar)
use num_bigint::{BigInt, BigUint, Sign};

pub fn parse_limbs(s: &str) -> Option<Vec<u64>> {
    if s == "." {
        return Some(vec![]);
    }
    s.split(',').map(|t| u64::from_str_radix(t, 16).ok()).collect()
}

pub fn show_limbs(l: &[u64]) -> String {
    if l.is_empty() {
        return ".".to_string();
    }
    let mut out = String::with_capacity(l.len() * 17);
    for (i, d) in l.iter().enumerate() {
        if i > 0 {
            out.push(',');
        }
        out.push_str(&format!("{:x}", d));
    }
    out
}

/// `--spare`: operands are built inside a larger, reused buffer (capacity > length), so that code paths gated on
/// spare capacity / buffer reuse are exercised; values are identical
pub static SPARE: core::sync::atomic::AtomicBool = core::sync::atomic::AtomicBool::new(false);

/// BigUint from limbs through the public constructor (normalises)
pub fn parse_u(s: &str) -> Option<BigUint> {
    let l = parse_limbs(s)?;
    let mut w = Vec::with_capacity(l.len() * 2);
    for d in l {
        w.push(d as u32);
        w.push((d >> 32) as u32);
    }
    if SPARE.load(core::sync::atomic::Ordering::Relaxed) {
        let mut v = BigUint::new(vec![1u32; w.len() + 12]);
        v.assign_from_slice(&w);
        return Some(v);
    }
    Some(BigUint::new(w))
}

/// raw export: the digit vector exactly as stored (no re-normalisation)
pub fn show_u(v: &BigUint) -> String {
    show_limbs(&v.to_u64_digits())
}

pub fn parse_sign(c: char) -> Option<Sign> {
    match c {
        '+' => Some(Sign::Plus),
        '-' => Some(Sign::Minus),
        '0' => Some(Sign::NoSign),
        _ => None,
    }
}

pub fn show_sign(s: Sign) -> &'static str {
    match s {
        Sign::Plus => "+",
        Sign::Minus => "-",
        Sign::NoSign => "0",
    }
}

pub fn parse_i(s: &str) -> Option<BigInt> {
    let c = s.chars().next()?;
    let sign = parse_sign(c)?;
    let mag = parse_u(&s[1..])?;
    Some(BigInt::from_biguint(sign, mag))
}

pub fn show_i(v: &BigInt) -> String {
    format!("{}{}", show_sign(v.sign()), show_limbs(&v.magnitude().to_u64_digits()))
}

pub fn parse_bytes(s: &str) -> Option<Vec<u8>> {
    let s = s.strip_prefix('x')?;
    if s.len() % 2 != 0 {
        return None;
    }
    (0..s.len() / 2).map(|i| u8::from_str_radix(&s[2 * i..2 * i + 2], 16).ok()).collect()
}

pub fn show_bytes(b: &[u8]) -> String {
    let mut out = String::with_capacity(1 + b.len() * 2);
    out.push('x');
    for x in b {
        out.push_str(&format!("{:02x}", x));
    }
    out
}

pub fn parse_words(s: &str) -> Option<Vec<u32>> {
    let s = s.strip_prefix('w')?;
    if s.is_empty() {
        return Some(vec![]);
    }
    s.split(',').map(|t| u32::from_str_radix(t, 16).ok()).collect()
}

pub fn show_words(w: &[u32]) -> String {
    let mut out = String::from("w");
    for (i, d) in w.iter().enumerate() {
        if i > 0 {
            out.push(',');
        }
        out.push_str(&format!("{:x}", d));
    }
    out
}

pub fn show_ord(o: core::cmp::Ordering) -> &'static str {
    match o {
        core::cmp::Ordering::Less => "-1",
        core::cmp::Ordering::Equal => "0",
        core::cmp::Ordering::Greater => "1",
    }
}

pub fn show_bool(b: bool) -> &'static str {
    if b {
        "1"
    } else {
        "0"
    }
}

pub fn ok_u(v: &BigUint) -> String {
    format!("ok {}", show_u(v))
}
pub fn ok_i(v: &BigInt) -> String {
    format!("ok {}", show_i(v))
}
pub fn opt_u(v: &Option<BigUint>) -> String {
    match v {
        Some(v) => format!("some {}", show_u(v)),
        None => "none".to_string(),
    }
}
pub fn opt_i(v: &Option<BigInt>) -> String {
    match v {
        Some(v) => format!("some {}", show_i(v)),
        None => "none".to_string(),
    }
}

/// map a panic message to the outcome class of DESIGN.md appendix B
pub fn classify(msg: &str) -> String {
    let table: &[(&str, &str)] = &[
        ("attempt to divide by zero", "divzero"),
        ("Cannot subtract b from a", "underflow"),
        ("with negative", "negshift"),
        ("The radix must be within", "radix"),
        ("zero modulus", "zeromod"),
        ("negative exponentiation", "negexp"),
        ("is imaginary", "imaginary"),
        ("root degree n must be at least 1", "zeroroot"),
        ("memory overflow", "capacity"),
        ("capacity overflow", "capacity"),
        // the four assertions of src/bigrand.rs
        ("assertion failed: !bound.is_zero()", "emptyrange"),
        ("assertion failed: *lbound < *ubound", "emptyrange"),
        ("assertion failed: low < high", "emptyrange"),
        ("assertion failed: low <= high", "emptyrange"),
    ];
    for (pat, class) in table {
        if msg.contains(pat) {
            return class.to_string();
        }
    }
    let short: String = msg.chars().take(60).map(|c| if c == ' ' || c == '\n' { '_' } else { c }).collect();
    // messages produced by core/alloc for faults nobody wrote on purpose (indexing, slicing, arithmetic overflow,
    // unwrap, plain `assert!(cond)` / `assert_eq!`, unreachable) are internal failures; any other text was written
    // by the crate itself: an explicit panic whose wording the table does not know (`custom:`), which the comparison
    // accepts in place of a documented class so that rewording a message is not reported as a violation
    let internal: &[&str] = &[
        "index out of bounds", "out of range for slice", "slice index starts at", "range start index", "range end index",
        "byte index", "with overflow", "attempt to negate", "attempt to calculate the remainder", "called `Option::unwrap()`",
        "called `Result::unwrap()`", "assertion failed", "assertion `", "internal error: entered unreachable code",
        "not implemented", "not yet implemented", "already borrowed", "already mutably borrowed", "is out of bounds",
        "destination and source slices", "mid > len", "chunk size must be non-zero", "removal index", "insertion index",
        "swap_remove index", "cannot sample empty range", "explicit panic", "overflow when", "out of bounds",
    ];
    if internal.iter().any(|p| msg.contains(p)) {
        return format!("internal:{}", short);
    }
    format!("custom:{}", short)
}
