"""C04 — constructors that live in other streams (from_str_radix / parse_bytes / from_radix_* in C06, from_bytes_* in
C09): every value they return must be canonical.  The harness prints the digit vector exactly as stored (no
re-normalisation), so a redundant high zero digit shows up as `…,0`.  Values sit on and around 64-bit digit boundaries,
where a top input digit straddles two native digits, with and without leading zero input digits."""
from genlib import *
from genlib import _is_bigtok

def to_base(v, r):
    out = []
    while v:
        out.append(v % r); v //= r
    return out or [0]

ALPH = "0123456789abcdefghijklmnopqrstuvwxyz"

def gen(rng, tier):
    reqs = []
    ks = list(range(60, 70)) + list(range(124, 133)) + list(range(188, 196))
    if tier == "thorough":
        ks += list(range(250, 262)) + [319, 320, 321, 511, 512, 513, 1023, 1024, 1025]
    vals = []
    for k in ks:
        vals += [1 << k, (1 << k) - 1, (1 << k) + 1, (1 << k) + (1 << (k // 2)), 3 << (k - 1), rng.randrange(1 << (k - 1), 1 << k)]
    vals += [0, 1, B - 1, B, B * B - 1, B * B]
    for v in vals:
        for r in (2, 4, 8, 16, 32, 10, 36, 3, 7):
            ds = to_base(v, r)
            for lead in (0, 1, 3):
                txt = "0" * lead + "".join(ALPH[d] for d in reversed(ds))
                b = wbytes(txt.encode())
                reqs.append("C06 u.from_str %d %s" % (r, b))
                if rng.randrange(3) == 0:
                    reqs.append("C06 i.from_str %d %s" % (r, wbytes(("-" + txt).encode())))
                    reqs.append("C06 u.parse_bytes %d %s" % (r, b))
        for r in (2, 8, 32, 64, 128, 256, 10, 100, 255, 3):
            ds = to_base(v, r)
            for lead in (0, 2):
                le = ds + [0] * lead
                reqs.append("C06 u.from_radix_le %d %s" % (r, wbytes(le)))
                reqs.append("C06 u.from_radix_be %d %s" % (r, wbytes(list(reversed(le)))))
                if rng.randrange(4) == 0:
                    reqs.append("C06 i.from_radix_be - %d %s" % (r, wbytes(list(reversed(le)))))
        bs = to_base(v, 256)
        for lead in (0, 1, 9):
            reqs.append("C09 u.from_bytes_le %s" % wbytes(bs + [0] * lead))
            reqs.append("C09 u.from_bytes_be %s" % wbytes([0] * lead + list(reversed(bs))))
    return reqs + shrinking_results(rng, tier)

def shrinking_results(rng, tier):
    """Canonical form is at stake wherever a result is zero or shorter than its operands.  The value-producing requests
    of the other arithmetic streams (C01 C02 C03 C07 C08 C12 C13 C19: every operator form, scalar forms, bit operations,
    shifts, negation / `!` by value and by reference, conversions, gcd/lcm helpers, sign helpers) are generated, run
    through the compiled model, and those whose MODEL answer contains a zero or a value shorter than the longest operand
    are added to the C04 run (plus a random sample of the rest).  The harness prints digit vectors and signs exactly as
    stored, so `[0]`, a high zero digit, `Plus`/`Minus` with an empty magnitude or `NoSign` with digits show up as a
    disagreement with the model (C04-u1: `!&x` for x = -1 returned `Plus` with no digits)."""
    import importlib, os, subprocess
    drv = os.path.join(os.path.dirname(os.path.dirname(os.path.dirname(os.path.abspath(__file__)))), "lean", ".lake", "build", "bin", "nbdrv")
    cand = []
    for name in ("c01", "c02", "c03", "c07", "c08", "c12", "c13", "c19"):
        try:
            mod = importlib.import_module(name)
            ls = [l for l in mod.gen(rng, "quick") if len(l) < 700 and " raw." not in l and ".huge" not in l and " work" not in l]
        except Exception:  # noqa: BLE001
            continue
        if len(ls) > 12000:
            ls = rng.sample(ls, 12000)
        cand += ls
    if not cand:
        return []
    picked = []
    try:
        p = subprocess.run([drv], input="\n".join(cand) + "\n", capture_output=True, text=True, timeout=600)
        outs = p.stdout.split("\n")
        if p.returncode == 0 and len(outs) >= len(cand):
            for l, o in zip(cand, outs):
                m = o.split(" | ")[0]
                if not (m.startswith("ok") or m.startswith("some")):
                    continue
                res = m.split()[1:]
                ops = l.split()[2:]
                nd = lambda t: 0 if t.strip("+-") in (".", "0.", "0") else t.count(",") + 1
                bigops = [t for t in ops if _is_bigtok(t)]
                bigres = [t for t in res if _is_bigtok(t)]
                if not bigres:
                    continue
                if any(t in (".", "0.") for t in bigres) or (bigops and min(nd(t) for t in bigres) < max(nd(t) for t in bigops)):
                    picked.append(l)
    except Exception:  # noqa: BLE001
        picked = []
    cap = 20000 if tier == "thorough" else 7000
    if len(picked) > cap:
        picked = rng.sample(picked, cap)
    rest = rng.sample(cand, min(len(cand), 6000 if tier == "thorough" else 2500))
    return picked + rest
