/- helper lemmas for C07: bits of digit lists, digit-wise operations, two's complement streams -/
import NB.Lemmas.Base
import NB.Lemmas.Canon
import NB.Model.Bits
import Mathlib.Data.Int.Bitwise
namespace NB.C07

theorem B_eq_bits : B = 2 ^ BITS := by decide

/-- bits of `b + 2^k * a` for `b < 2^k` -/
theorem testBit_block {k b : Nat} (a : Nat) (hb : b < 2 ^ k) (j : Nat) :
    (b + 2 ^ k * a).testBit j = if j < k then b.testBit j else a.testBit (j - k) := by
  rw [Nat.add_comm]; exact Nat.testBit_two_pow_mul_add a hb j

theorem and_block {k d e : Nat} (x y : Nat) (hd : d < 2 ^ k) (he : e < 2 ^ k) :
    (d + 2 ^ k * x) &&& (e + 2 ^ k * y) = (d &&& e) + 2 ^ k * (x &&& y) := by
  apply Nat.eq_of_testBit_eq; intro j
  rw [Nat.testBit_and, testBit_block x hd, testBit_block y he,
    testBit_block (x &&& y) (Nat.and_lt_two_pow d he)]
  split <;> simp

theorem or_block {k d e : Nat} (x y : Nat) (hd : d < 2 ^ k) (he : e < 2 ^ k) :
    (d + 2 ^ k * x) ||| (e + 2 ^ k * y) = (d ||| e) + 2 ^ k * (x ||| y) := by
  apply Nat.eq_of_testBit_eq; intro j
  rw [Nat.testBit_or, testBit_block x hd, testBit_block y he,
    testBit_block (x ||| y) (Nat.or_lt_two_pow hd he)]
  split <;> simp

theorem xor_block {k d e : Nat} (x y : Nat) (hd : d < 2 ^ k) (he : e < 2 ^ k) :
    (d + 2 ^ k * x) ^^^ (e + 2 ^ k * y) = (d ^^^ e) + 2 ^ k * (x ^^^ y) := by
  apply Nat.eq_of_testBit_eq; intro j
  rw [Nat.testBit_xor, testBit_block x hd, testBit_block y he,
    testBit_block (x ^^^ y) (Nat.xor_lt_two_pow hd he)]
  split <;> simp

/-- a digit-wise operation: bounded on digits and compatible with every block decomposition -/
structure DigitOp (f : Nat → Nat → Nat) : Prop where
  lt : ∀ {k d e : Nat}, d < 2 ^ k → e < 2 ^ k → f d e < 2 ^ k
  block : ∀ {k d e : Nat} (x y : Nat), d < 2 ^ k → e < 2 ^ k →
    f (d + 2 ^ k * x) (e + 2 ^ k * y) = f d e + 2 ^ k * f x y
  zero : f 0 0 = 0

theorem digitOp_and : DigitOp (· &&& ·) :=
  ⟨fun _ he => Nat.and_lt_two_pow _ he, fun x y hd he => and_block x y hd he, by simp⟩
theorem digitOp_or : DigitOp (· ||| ·) :=
  ⟨fun hd he => Nat.or_lt_two_pow hd he, fun x y hd he => or_block x y hd he, by simp⟩
theorem digitOp_xor : DigitOp (· ^^^ ·) :=
  ⟨fun hd he => Nat.xor_lt_two_pow hd he, fun x y hd he => xor_block x y hd he, by simp⟩

/-- bit `64*i + j` of the value is bit `j` of digit `i` -/
theorem testBit_val {ds : List Nat} (h : DigitsOk ds) (i j : Nat) (hj : j < BITS) :
    (val ds).testBit (BITS * i + j) = (ds.getD i 0).testBit j := by
  induction ds generalizing i with
  | nil => simp [val]
  | cons d ds ih =>
    have hd : d < 2 ^ BITS := by rw [← B_eq_bits]; exact h.head
    rw [val_cons, B_eq_bits, testBit_block _ hd]
    cases i with
    | zero => simp [hj]
    | succ i =>
      have : ¬ (BITS * (i + 1) + j < BITS) := by unfold BITS at *; omega
      rw [if_neg this]
      have e : BITS * (i + 1) + j - BITS = BITS * i + j := by unfold BITS at *; omega
      rw [e, ih h.tail i]; simp

theorem val_zipWith {f : Nat → Nat → Nat} (hf : DigitOp f) :
    ∀ (a b : List Nat), a.length = b.length → DigitsOk a → DigitsOk b →
    val (List.zipWith f a b) = f (val a) (val b) ∧ DigitsOk (List.zipWith f a b) := by
  intro a
  induction a with
  | nil => intro b hl _ _; cases b <;> simp_all [val, hf.zero, DigitsOk.nil]
  | cons d ds ih =>
    intro b hl ha hb
    cases b with
    | nil => simp at hl
    | cons e es =>
      have hd : d < 2 ^ BITS := by rw [← B_eq_bits]; exact ha.head
      have he : e < 2 ^ BITS := by rw [← B_eq_bits]; exact hb.head
      obtain ⟨h1, h2⟩ := ih es (by simpa using hl) ha.tail hb.tail
      simp only [List.zipWith_cons_cons, val_cons]
      refine ⟨?_, DigitsOk.cons (by rw [B_eq_bits]; exact hf.lt hd he) h2⟩
      rw [h1, B_eq_bits, hf.block _ _ hd he]

theorem B_pow (n : Nat) : B ^ n = 2 ^ (BITS * n) := by rw [B_eq_bits, ← Nat.pow_mul]

theorem val_take_drop (a : List Nat) (k : Nat) (hk : k ≤ a.length) :
    val a = val (a.take k) + B ^ k * val (a.drop k) := by
  conv_lhs => rw [← List.take_append_drop k a]
  rw [val_append, List.length_take, Nat.min_eq_left hk]

theorem val_zipWith_min {f : Nat → Nat → Nat} (hf : DigitOp f) (a b : List Nat)
    (ha : DigitsOk a) (hb : DigitsOk b) :
    val (List.zipWith f a b) = f (val (a.take (min a.length b.length))) (val (b.take (min a.length b.length)))
    ∧ DigitsOk (List.zipWith f a b) ∧ (List.zipWith f a b).length = min a.length b.length := by
  rw [List.zipWith_eq_zipWith_take_min]
  obtain ⟨h1, h2⟩ := val_zipWith hf (a.take (min a.length b.length)) (b.take (min a.length b.length))
    (by simp) (ha.take _) (hb.take _)
  exact ⟨h1, h2, by simp⟩

theorem val_drop_of_le (a : List Nat) {k : Nat} (h : a.length ≤ k) : val (a.drop k) = 0 := by
  rw [List.drop_eq_nil_of_le h]; rfl

/-- value of `f (val a) (val b)` split at the shorter length -/
theorem op_val_split {f : Nat → Nat → Nat} (hf : DigitOp f) (a b : List Nat)
    (ha : DigitsOk a) (hb : DigitsOk b) :
    f (val a) (val b) = val (List.zipWith f a b) +
      B ^ (min a.length b.length) * f (val (a.drop (min a.length b.length))) (val (b.drop (min a.length b.length))) := by
  obtain ⟨h1, _, _⟩ := val_zipWith_min hf a b ha hb
  rw [h1]
  conv_lhs => rw [val_take_drop a (min a.length b.length) (Nat.min_le_left _ _),
    val_take_drop b (min a.length b.length) (Nat.min_le_right _ _)]
  rw [B_pow]
  apply hf.block
  · rw [← B_pow]; have := val_lt (ha.take (min a.length b.length)); simpa using this
  · rw [← B_pow]; have := val_lt (hb.take (min a.length b.length)); simpa using this

theorem andAssign_val (a b : List Nat) (ha : DigitsOk a) (hb : DigitsOk b) :
    val (andAssign a b) = val a &&& val b ∧ Canon (andAssign a b) := by
  unfold andAssign zipMut
  have hz := val_zipWith_min digitOp_and a b ha hb
  have e : (List.zipWith (· &&& ·) a b ++ a.drop b.length).take b.length = List.zipWith (· &&& ·) a b := by
    rcases Nat.le_total a.length b.length with h | h
    · rw [List.drop_eq_nil_of_le h, List.append_nil]
      exact List.take_of_length_le (by rw [hz.2.2]; exact Nat.min_le_right _ _)
    · rw [List.take_append_of_le_length (by rw [hz.2.2, Nat.min_eq_right h])]
      exact List.take_of_length_le (by rw [hz.2.2]; exact Nat.min_le_right _ _)
  rw [e]
  refine ⟨?_, normalize_canon hz.2.1⟩
  rw [normalize_val, op_val_split digitOp_and a b ha hb]
  rcases Nat.le_total a.length b.length with h | h
  · rw [Nat.min_eq_left h, val_drop_of_le a (Nat.le_refl _)]; simp
  · rw [Nat.min_eq_right h, val_drop_of_le b (Nat.le_refl _)]; simp


theorem zipMut_length (f : Nat → Nat → Nat) (a b : List Nat) : (zipMut f a b).length = a.length := by
  unfold zipMut; simp; omega

/-- zip, then extend with the extra digits of `b` (`|=` and `^=` before normalisation) -/
theorem extend_val {f : Nat → Nat → Nat} (hf : DigitOp f) (hl : ∀ x, f x 0 = x) (hr : ∀ y, f 0 y = y)
    (a b : List Nat) (ha : DigitsOk a) (hb : DigitsOk b) :
    val (if b.length > (zipMut f a b).length then zipMut f a b ++ b.drop (zipMut f a b).length else zipMut f a b)
      = f (val a) (val b)
    ∧ DigitsOk (if b.length > (zipMut f a b).length then zipMut f a b ++ b.drop (zipMut f a b).length else zipMut f a b)
    ∧ (if b.length > (zipMut f a b).length then zipMut f a b ++ b.drop (zipMut f a b).length else zipMut f a b).length
      = max a.length b.length := by
  rw [zipMut_length]
  obtain ⟨_, hz2, hz3⟩ := val_zipWith_min hf a b ha hb
  have hs := op_val_split hf a b ha hb
  by_cases h : b.length > a.length
  · simp only [h, if_true]
    have hd : a.drop b.length = [] := List.drop_eq_nil_of_le (by omega)
    unfold zipMut
    rw [hd, List.append_nil]
    refine ⟨?_, hz2.append (hb.drop _), by simp; omega⟩
    rw [val_append, hz3, hs, Nat.min_eq_left (by omega), val_drop_of_le a (Nat.le_refl _), hr]
  · simp only [h, if_false]
    unfold zipMut
    refine ⟨?_, hz2.append (ha.drop _), by simp; omega⟩
    rw [val_append, hz3, hs, Nat.min_eq_right (by omega), val_drop_of_le b (Nat.le_refl _), hl]

theorem orAssign_val (a b : List Nat) (ha : Canon a) (hb : Canon b) :
    val (orAssign a b) = val a ||| val b ∧ Canon (orAssign a b) := by
  unfold orAssign
  obtain ⟨h1, h2, h3⟩ := extend_val digitOp_or (by simp) (by simp) a b ha.1 hb.1
  dsimp only
  refine ⟨h1, canon_of_val_ge h2 ?_⟩
  intro hne
  rw [h3, h1]
  rcases Nat.le_total a.length b.length with h | h
  · rw [Nat.max_eq_right h]
    have hbne : b ≠ [] := by
      intro hb0; subst hb0
      have : a = [] := List.eq_nil_of_length_eq_zero (by simpa using h)
      subst this; simp [zipMut] at hne
    exact Nat.le_trans (canon_val_ge hb hbne) Nat.right_le_or
  · rw [Nat.max_eq_left h]
    have hane : a ≠ [] := by
      intro ha0; subst ha0
      have : b = [] := List.eq_nil_of_length_eq_zero (by simpa using h)
      subst this; simp [zipMut] at hne
    exact Nat.le_trans (canon_val_ge ha hane) Nat.left_le_or

theorem xorAssign_val (a b : List Nat) (ha : DigitsOk a) (hb : DigitsOk b) :
    val (xorAssign a b) = val a ^^^ val b ∧ Canon (xorAssign a b) := by
  unfold xorAssign
  obtain ⟨h1, h2, _⟩ := extend_val digitOp_xor (by simp) (by simp) a b ha hb
  dsimp only
  exact ⟨by rw [normalize_val, h1], normalize_canon h2⟩

/-- `ctzAux` finds the exponent of two in a non-zero number that fits the fuel -/
theorem ctzAux_spec : ∀ (f d : Nat), d ≠ 0 → d < 2 ^ f →
    ctzAux f d < f ∧ ∃ m, d = 2 ^ (ctzAux f d) * (2 * m + 1) := by
  intro f
  induction f with
  | zero => intro d h0 h1; simp at h1; omega
  | succ f ih =>
    intro d h0 h1
    unfold ctzAux
    by_cases hodd : d % 2 = 1
    · simp only [hodd, if_true]
      exact ⟨by omega, d / 2, by omega⟩
    · simp only [hodd, if_false]
      have hd2 : d / 2 ≠ 0 := by omega
      have hlt : d / 2 < 2 ^ f := by rw [Nat.pow_succ] at h1; omega
      obtain ⟨i1, m, hm⟩ := ih (d / 2) hd2 hlt
      refine ⟨by omega, m, ?_⟩
      have : d = 2 * (d / 2) := by omega
      generalize ctzAux f (d / 2) = t at *
      calc d = 2 * (d / 2) := this
        _ = 2 * (2 ^ t * (2 * m + 1)) := by rw [← hm]
        _ = 2 ^ (1 + t) * (2 * m + 1) := by rw [Nat.add_comm 1, Nat.pow_succ]; ring

theorem tzDigit_spec {d : Nat} (h0 : d ≠ 0) (hd : d < B) :
    tzDigit d < BITS ∧ ∃ m, d = 2 ^ (tzDigit d) * (2 * m + 1) :=
  ctzAux_spec BITS d h0 (by rw [← B_eq_bits]; exact hd)

theorem position_cons (p : Nat → Bool) (d : Nat) (ds : List Nat) :
    position p (d :: ds) = if p d then some 0 else (position p ds).map (· + 1) := rfl

theorem trailingZerosU_nil : trailingZerosU [] = none := rfl

theorem trailingZerosU_cons (d : Nat) (ds : List Nat) :
    trailingZerosU (d :: ds) =
      if d ≠ 0 then some (tzDigit d) else (trailingZerosU ds).map (· + BITS) := by
  unfold trailingZerosU
  rw [position_cons]
  by_cases h : d = 0
  · subst h
    simp only [bne_self_eq_false, Bool.false_eq_true, if_false, ne_eq, not_true_eq_false]
    cases position (fun d => d != 0) ds with
    | none => rfl
    | some i => simp [Nat.add_mul, Nat.add_right_comm]
  · simp [h]

/-- `trailing_zeros`: `None` for zero, otherwise the exponent `t` with `value = 2^t * odd` -/
theorem trailingZerosU_spec : ∀ (ds : List Nat), DigitsOk ds →
    (val ds = 0 → trailingZerosU ds = none) ∧
    (val ds ≠ 0 → ∃ t m, trailingZerosU ds = some t ∧ val ds = 2 ^ t * (2 * m + 1)) := by
  intro ds
  induction ds with
  | nil => intro _; simp [val, trailingZerosU_nil]
  | cons d ds ih =>
    intro h
    obtain ⟨i1, i2⟩ := ih h.tail
    rw [trailingZerosU_cons, val_cons]
    by_cases hd : d = 0
    · subst hd
      simp only [ne_eq, not_true_eq_false, if_false, Nat.zero_add]
      constructor
      · intro hv
        have : val ds = 0 := by
          rcases Nat.mul_eq_zero.mp hv with h' | h'
          · exact absurd h' (by decide)
          · exact h'
        rw [i1 this]; rfl
      · intro hv
        have : val ds ≠ 0 := by intro h'; rw [h'] at hv; simp at hv
        obtain ⟨t, m, ht, hm⟩ := i2 this
        refine ⟨t + BITS, m, by rw [ht]; rfl, ?_⟩
        rw [hm, Nat.pow_add, ← B_eq_bits]; ring
    · simp only [ne_eq, hd, not_false_eq_true, if_true]
      obtain ⟨hlt, m, hm⟩ := tzDigit_spec hd h.head
      constructor
      · intro hv; omega
      · intro _
        refine ⟨tzDigit d, m + 2 ^ (BITS - 1 - tzDigit d) * val ds, rfl, ?_⟩
        have hB : B = 2 ^ (tzDigit d) * (2 * 2 ^ (BITS - 1 - tzDigit d)) := by
          rw [B_eq_bits, ← Nat.pow_succ', ← Nat.pow_add]; congr 1; omega
        generalize tzDigit d = t at *
        generalize 2 ^ (BITS - 1 - t) = Q at *
        calc d + B * val ds = 2 ^ t * (2 * m + 1) + 2 ^ t * (2 * Q) * val ds := by rw [← hm, ← hB]
          _ = 2 ^ t * (2 * (m + Q * val ds) + 1) := by ring

theorem dnot_lt {d : Nat} : dnot d < B := by unfold dnot MAXD B; omega

theorem trailingOnesU_nil : trailingOnesU [] = 0 := rfl

theorem trailingOnesU_cons (d : Nat) (ds : List Nat) :
    trailingOnesU (d :: ds) = if dnot d ≠ 0 then toDigit d else BITS + trailingOnesU ds := by
  unfold trailingOnesU
  rw [position_cons]
  by_cases h : dnot d = 0
  · simp only [h, bne_self_eq_false, Bool.false_eq_true, if_false, ne_eq, not_true_eq_false]
    cases position (fun d => dnot d != 0) ds with
    | none => simp [Nat.add_mul, Nat.add_comm]
    | some i => simp [Nat.add_mul, Nat.add_comm]; omega
  · simp [h]

/-- `trailing_ones`: the exponent `t` with `value + 1 = 2^t * odd`, i.e. bits `0..t-1` are ones
    and bit `t` is zero -/
theorem trailingOnesU_spec : ∀ (ds : List Nat), DigitsOk ds →
    ∃ m, val ds + 1 = 2 ^ (trailingOnesU ds) * (2 * m + 1) := by
  intro ds
  induction ds with
  | nil => intro _; exact ⟨0, by simp [val, trailingOnesU_nil]⟩
  | cons d ds ih =>
    intro h
    obtain ⟨m, hm⟩ := ih h.tail
    rw [trailingOnesU_cons, val_cons]
    have hdB := h.head
    by_cases hd : dnot d = 0
    · simp only [hd, ne_eq, not_true_eq_false, if_false]
      have hdm : d + 1 = B := by unfold dnot MAXD at hd; omega
      refine ⟨m, ?_⟩
      rw [Nat.pow_add, ← B_eq_bits]
      calc d + B * val ds + 1 = B * (val ds + 1) := by rw [Nat.mul_add, ← hdm]; ring
        _ = B * 2 ^ trailingOnesU ds * (2 * m + 1) := by rw [hm]; ring
    · simp only [ne_eq, hd, not_false_eq_true, if_true]
      unfold toDigit
      obtain ⟨hlt, m', hm'⟩ := tzDigit_spec hd dnot_lt
      have hB : B = 2 ^ (tzDigit (dnot d)) * (2 * 2 ^ (BITS - 1 - tzDigit (dnot d))) := by
        rw [B_eq_bits, ← Nat.pow_succ', ← Nat.pow_add]; congr 1; omega
      generalize tzDigit (dnot d) = t at *
      generalize 2 ^ (BITS - 1 - t) = Q at *
      have hd1 : d + 1 + dnot d = B := by unfold dnot MAXD; omega
      -- d + 1 = B - 2^t (2m'+1) = 2^t (2 (Q - m' - 1) + 1)
      have hle : m' + 1 ≤ Q := by
        have h1 : 2 ^ t * (2 * m' + 1) < 2 ^ t * (2 * Q) := by rw [← hB, ← hm']; exact dnot_lt
        have := Nat.lt_of_mul_lt_mul_left h1
        omega
      refine ⟨(Q - m' - 1) + Q * val ds, ?_⟩
      have e1 : d + 1 = 2 ^ t * (2 * (Q - m' - 1) + 1) := by
        have : 2 ^ t * (2 * (Q - m' - 1) + 1) + 2 ^ t * (2 * m' + 1) = B := by
          rw [hB, ← Nat.mul_add]; congr 1; omega
        omega
      calc d + B * val ds + 1 = (d + 1) + B * val ds := by ring
        _ = 2 ^ t * (2 * (Q - m' - 1) + 1) + 2 ^ t * (2 * Q) * val ds := by rw [e1, ← hB]
        _ = 2 ^ t * (2 * (Q - m' - 1 + Q * val ds) + 1) := by ring

theorem bitsU_bounds (ds : List Nat) (h : Canon ds) :
    val ds < 2 ^ (bitsU ds) ∧ (ds ≠ [] → 1 ≤ bitsU ds ∧ 2 ^ (bitsU ds - 1) ≤ val ds) := by
  rcases List.eq_nil_or_concat ds with h0 | ⟨init, top, rfl⟩
  · subst h0; simp [bitsU, val]
  · simp only [List.concat_eq_append] at *
    have htopB : top < B := h.1 top (by simp)
    have htop0 : top ≠ 0 := by intro e; exact h.2 (by simp [e])
    have hL : Nat.log2 top < BITS := (Nat.log2_lt htop0).2 (by rw [← B_eq_bits]; exact htopB)
    have hlo := Nat.log2_self_le htop0
    have hhi := Nat.lt_log2_self (n := top)
    have hinit := val_lt h.1.left
    have hb : bitsU (init ++ [top]) = BITS * init.length + Nat.log2 top + 1 := by
      unfold bitsU lzDigit
      simp only [List.getLast?_append, List.getLast?_singleton, Option.some_or, htop0, if_false,
        List.length_append, List.length_cons, List.length_nil]
      unfold BITS at *; omega
    rw [hb, val_append]
    simp only [val, Nat.mul_zero, Nat.add_zero]
    have hP : B ^ init.length = 2 ^ (BITS * init.length) := B_pow _
    generalize B ^ init.length = Pw at *
    have hPpos : 0 < Pw := by rw [hP]; exact Nat.pow_pos (by decide)
    constructor
    · calc val init + Pw * top < Pw + Pw * top := by omega
        _ = Pw * (top + 1) := by ring
        _ ≤ Pw * 2 ^ (Nat.log2 top + 1) := Nat.mul_le_mul_left _ hhi
        _ = 2 ^ (BITS * init.length + Nat.log2 top + 1) := by rw [hP, Nat.add_assoc, ← Nat.pow_add]
    · intro _
      refine ⟨by omega, ?_⟩
      calc 2 ^ (BITS * init.length + Nat.log2 top + 1 - 1) = Pw * 2 ^ Nat.log2 top := by
            rw [Nat.add_sub_cancel, Nat.pow_add, hP]
        _ ≤ Pw * top := Nat.mul_le_mul_left _ hlo
        _ ≤ val init + Pw * top := Nat.le_add_left _ _

theorem bitsU_eq_size (ds : List Nat) (h : Canon ds) : bitsU ds = Nat.size (val ds) := by
  obtain ⟨h1, h2⟩ := bitsU_bounds ds h
  by_cases h0 : ds = []
  · subst h0; simp [bitsU, val]
  · obtain ⟨h3, h4⟩ := h2 h0
    have a1 : Nat.size (val ds) ≤ bitsU ds := Nat.size_le.2 h1
    have a2 : bitsU ds - 1 < Nat.size (val ds) := Nat.lt_size.2 h4
    omega

/-- number of set bits among the lowest `w` bits -/
def countBits (w v : Nat) : Nat := ((List.range w).filter (fun i => v.testBit i)).length

theorem countBits_succ (w v : Nat) : countBits (w + 1) v = v % 2 + countBits w (v / 2) := by
  unfold countBits
  rw [List.range_succ_eq_map, List.filter_cons, List.filter_map]
  have e : ((fun i => v.testBit i) ∘ Nat.succ) = (fun i => (v / 2).testBit i) := by
    funext i; simp [Nat.testBit_succ]
  rw [e]
  rcases Nat.mod_two_eq_zero_or_one v with h | h
  · simp [Nat.testBit_zero, h]
  · simp [Nat.testBit_zero, h]; omega

theorem popAux_eq (f d : Nat) : popAux f d = countBits f d := by
  induction f generalizing d with
  | zero => simp [popAux, countBits]
  | succ f ih => rw [popAux, countBits_succ, ih]

theorem countBits_block {k d : Nat} (w x : Nat) (hd : d < 2 ^ k) :
    countBits (k + w) (d + 2 ^ k * x) = countBits k d + countBits w x := by
  unfold countBits
  rw [List.range_add, List.filter_append, List.length_append, List.filter_map, List.length_map]
  congr 1
  · congr 1
    apply List.filter_congr
    intro i hi
    rw [List.mem_range] at hi
    rw [testBit_block x hd, if_pos hi]
  · congr 2
    funext i
    simp only [Function.comp]
    rw [testBit_block x hd, if_neg (by omega)]
    congr 1; omega

/-- `count_ones` counts the set bits of the value -/
theorem countOnesU_spec : ∀ (ds : List Nat), DigitsOk ds →
    countOnesU ds = countBits (BITS * ds.length) (val ds) := by
  intro ds
  induction ds with
  | nil => intro _; simp [countOnesU, countBits]
  | cons d ds ih =>
    intro h
    have hd : d < 2 ^ BITS := by rw [← B_eq_bits]; exact h.head
    have e : BITS * (d :: ds).length = BITS + BITS * ds.length := by simp [Nat.mul_succ, Nat.add_comm]
    rw [e, val_cons, B_eq_bits, countBits_block _ _ hd, ← ih h.tail]
    simp [countOnesU, popDigit, popAux_eq]

theorem mask_test (d j : Nat) : ((d &&& (1 <<< j)) != 0) = d.testBit j := by
  rw [Nat.one_shiftLeft, Nat.and_two_pow]
  cases h : d.testBit j <;> simp

/-- `BigUint::bit` reads the corresponding bit of the value -/
theorem bitU_spec (ds : List Nat) (h : DigitsOk ds) (k : Nat) : bitU ds k = (val ds).testBit k := by
  have hk : k = BITS * (k / BITS) + k % BITS := (Nat.div_add_mod k BITS).symm
  conv_rhs => rw [hk]
  rw [testBit_val h _ _ (Nat.mod_lt _ (by decide))]
  unfold bitU
  rw [List.getD_eq_getElem?_getD]
  cases ds[k / BITS]? with
  | none => simp
  | some d => simp [mask_test]

theorem val_replicate_zero (k : Nat) : val (List.replicate k 0) = 0 := by
  induction k with
  | zero => rfl
  | succ k ih => simp [List.replicate_succ, val, ih]

theorem digitsOk_replicate {k d : Nat} (hd : d < B) : DigitsOk (List.replicate k d) := by
  intro x hx; rw [List.eq_of_mem_replicate hx]; exact hd

theorem ldiff_lt {k d : Nat} (e : Nat) (hd : d < 2 ^ k) : Nat.ldiff d e < 2 ^ k := by
  apply Nat.lt_pow_two_of_testBit
  intro i hi
  rw [Nat.testBit_ldiff, Nat.testBit_lt_two_pow (Nat.lt_of_lt_of_le hd (Nat.pow_le_pow_right (by decide) hi))]
  rfl

theorem ldiff_block {k d e : Nat} (x y : Nat) (hd : d < 2 ^ k) (he : e < 2 ^ k) :
    Nat.ldiff (d + 2 ^ k * x) (e + 2 ^ k * y) = Nat.ldiff d e + 2 ^ k * Nat.ldiff x y := by
  apply Nat.eq_of_testBit_eq; intro j
  rw [Nat.testBit_ldiff, testBit_block x hd, testBit_block y he,
    testBit_block (Nat.ldiff x y) (ldiff_lt e hd)]
  split <;> simp [Nat.testBit_ldiff]

theorem digitOp_ldiff : DigitOp Nat.ldiff :=
  ⟨fun hd _ => ldiff_lt _ hd, fun x y hd he => ldiff_block x y hd he, by simp [Nat.ldiff]⟩

theorem ldiff_zero_right (x : Nat) : Nat.ldiff x 0 = x := by
  apply Nat.eq_of_testBit_eq; intro j; simp [Nat.testBit_ldiff]

/-- clearing through `& !mask` on a digit is set difference -/
theorem and_dnot_mask {d j : Nat} (hd : d < B) (hj : j < BITS) :
    d &&& dnot (1 <<< j) = Nat.ldiff d (2 ^ j) := by
  apply Nat.eq_of_testBit_eq; intro i
  have hm : dnot (1 <<< j) = 2 ^ BITS - (2 ^ j + 1) := by
    unfold dnot MAXD; rw [Nat.one_shiftLeft, ← B_eq_bits]; omega
  have hj2 : 2 ^ j < 2 ^ BITS := Nat.pow_lt_pow_right (by decide) hj
  rw [Nat.testBit_and, Nat.testBit_ldiff, hm, Nat.testBit_two_pow_sub_succ hj2]
  by_cases hi : i < BITS
  · simp [hi]
  · have : d.testBit i = false :=
      Nat.testBit_lt_two_pow (Nat.lt_of_lt_of_le (by rw [← B_eq_bits]; exact hd)
        (Nat.pow_le_pow_right (by decide) (by omega)))
    simp [this]

/-- replacing digit `i` by `f digit m` applies `f` with `B^i * m` to the value -/
theorem val_set_op {f : Nat → Nat → Nat} (hf : DigitOp f) (hr : ∀ x, f x 0 = x)
    (ds : List Nat) (i m : Nat) (hi : i < ds.length) (h : DigitsOk ds) (hm : m < B) :
    val (ds.set i (f (ds.getD i 0) m)) = f (val ds) (B ^ i * m) ∧
    DigitsOk (ds.set i (f (ds.getD i 0) m)) := by
  induction ds generalizing i with
  | nil => simp at hi
  | cons d ds ih =>
    have hd : d < 2 ^ BITS := by rw [← B_eq_bits]; exact h.head
    have hm' : m < 2 ^ BITS := by rw [← B_eq_bits]; exact hm
    cases i with
    | zero =>
      simp only [List.set_cons_zero, List.getD_cons_zero, val_cons, pow_zero, Nat.one_mul]
      refine ⟨?_, DigitsOk.cons (by rw [B_eq_bits]; exact hf.lt hd hm') h.tail⟩
      have := hf.block (k := BITS) (d := d) (e := m) (val ds) 0 hd hm'
      rw [hr, Nat.mul_zero, Nat.add_zero] at this
      rw [B_eq_bits, this]
    | succ i =>
      obtain ⟨i1, i2⟩ := ih i (by simpa using hi) h.tail
      simp only [List.set_cons_succ, List.getD_cons_succ, val_cons]
      refine ⟨?_, DigitsOk.cons h.head i2⟩
      rw [i1, pow_succ]
      have := hf.block (k := BITS) (d := d) (e := 0) (val ds) (B ^ i * m) hd (Nat.pow_pos (by decide))
      rw [hr, Nat.zero_add] at this
      rw [B_eq_bits] at this ⊢
      rw [show (2 ^ BITS) ^ i * 2 ^ BITS * m = 2 ^ BITS * ((2 ^ BITS) ^ i * m) by ring, this]

theorem setBitU_true (ds : List Nat) (k : Nat) (h : Canon ds) :
    val (setBitU ds k true) = val ds ||| 2 ^ k ∧ Canon (setBitU ds k true) := by
  unfold setBitU
  simp only [if_true]
  have hj : k % BITS < BITS := Nat.mod_lt _ (by decide)
  have hmB : 1 <<< (k % BITS) < B := by
    rw [Nat.one_shiftLeft, B_eq_bits]; exact Nat.pow_lt_pow_right (by decide) hj
  have hk : 2 ^ k = B ^ (k / BITS) * (1 <<< (k % BITS)) := by
    rw [Nat.one_shiftLeft, B_pow, ← Nat.pow_add, Nat.div_add_mod]
  generalize hdata : (if k / BITS ≥ ds.length then ds ++ List.replicate (k / BITS + 1 - ds.length) 0 else ds) = data
  have hv : val data = val ds := by
    rw [← hdata]; split
    · rw [val_append, val_replicate_zero]; simp
    · rfl
  have hok : DigitsOk data := by
    rw [← hdata]; split
    · exact h.1.append (digitsOk_replicate (by decide))
    · exact h.1
  have hlen : k / BITS < data.length := by
    rw [← hdata]; split
    · simp; omega
    · omega
  obtain ⟨h1, h2⟩ := val_set_op digitOp_or (by simp) data (k / BITS) (1 <<< (k % BITS)) hlen hok hmB
  rw [h1, hv, ← hk]
  refine ⟨rfl, canon_of_val_ge h2 ?_⟩
  intro _
  rw [List.length_set, h1, hv, ← hk]
  by_cases hge : k / BITS ≥ ds.length
  · have : data.length = k / BITS + 1 := by rw [← hdata, if_pos hge]; simp; omega
    rw [this, Nat.add_sub_cancel]
    refine Nat.le_trans ?_ Nat.right_le_or
    rw [hk]; exact Nat.le_mul_of_pos_right _ (by rw [Nat.one_shiftLeft]; exact Nat.pow_pos (by decide))
  · have : data = ds := by rw [← hdata, if_neg hge]
    rw [this]
    have hne : ds ≠ [] := by intro e; subst e; simp at hge
    exact Nat.le_trans (canon_val_ge h hne) Nat.left_le_or

theorem setBitU_false (ds : List Nat) (k : Nat) (h : Canon ds) :
    val (setBitU ds k false) = Nat.ldiff (val ds) (2 ^ k) ∧ Canon (setBitU ds k false) := by
  unfold setBitU
  simp only [Bool.false_eq_true, if_false]
  have hj : k % BITS < BITS := Nat.mod_lt _ (by decide)
  have hk : 2 ^ k = B ^ (k / BITS) * 2 ^ (k % BITS) := by
    rw [B_pow, ← Nat.pow_add, Nat.div_add_mod]
  by_cases hlt : k / BITS < ds.length
  · simp only [hlt, if_true]
    have hdig : ds.getD (k / BITS) 0 < B := by
      rw [List.getD_eq_getElem?_getD, List.getElem?_eq_getElem hlt]; exact h.1 _ (List.getElem_mem hlt)
    rw [and_dnot_mask hdig hj]
    obtain ⟨h1, h2⟩ := val_set_op digitOp_ldiff ldiff_zero_right ds (k / BITS) (2 ^ (k % BITS)) hlt h.1
      (by rw [B_eq_bits]; exact Nat.pow_lt_pow_right (by decide) hj)
    exact ⟨by rw [normalize_val, h1, ← hk], normalize_canon h2⟩
  · simp only [hlt, if_false]
    refine ⟨?_, h⟩
    apply Nat.eq_of_testBit_eq; intro i
    rw [Nat.testBit_ldiff, Nat.testBit_two_pow]
    by_cases hik : k = i
    · subst hik
      have : (val ds).testBit k = false := by
        apply Nat.testBit_lt_two_pow
        calc val ds < B ^ ds.length := val_lt h.1
          _ = 2 ^ (BITS * ds.length) := B_pow _
          _ ≤ 2 ^ k := Nat.pow_le_pow_right (by decide) (by
              have := Nat.div_add_mod k BITS
              have : BITS * ds.length ≤ BITS * (k / BITS) := Nat.mul_le_mul_left _ (by omega)
              omega)
      simp [this]
    · simp [hik]

end NB.C07
