/- lemmas about the adc/sbb chains and the slice routines `__add2`, `sub2`, `sub2rev` -/
import NB.Lemmas.Base
import NB.Model.AddSub
namespace NB

theorem adc_spec {c a b : Nat} (ha : a < B) (hb : b < B) (hc : c ≤ 1) :
    (adc c a b).1 + B * (adc c a b).2 = a + b + c ∧ (adc c a b).1 < B ∧ (adc c a b).2 ≤ 1 := by
  unfold adc
  refine ⟨Nat.mod_add_div _ _, Nat.mod_lt _ B_pos, ?_⟩
  have : a + b + c < 2 * B := by omega
  have := (Nat.div_lt_iff_lt_mul B_pos).mpr this
  omega

theorem sbb_spec {c a b : Nat} (ha : a < B) (hb : b < B) (hc : c ≤ 1) :
    (sbb c a b).1 + b + c = a + B * (sbb c a b).2 ∧ (sbb c a b).1 < B ∧ (sbb c a b).2 ≤ 1 := by
  unfold sbb
  split
  · refine ⟨?_, ?_, ?_⟩ <;> simp <;> omega
  · refine ⟨?_, ?_, ?_⟩ <;> simp <;> omega

/-- the chained adc over two equal-length slices is exact addition with carry -/
theorem adcZip_spec : ∀ (a b : List Nat) (c : Nat), a.length = b.length → DigitsOk a → DigitsOk b → c ≤ 1 →
    val (adcZip c a b).1 + B ^ a.length * (adcZip c a b).2 = val a + val b + c ∧
    (adcZip c a b).1.length = a.length ∧ DigitsOk (adcZip c a b).1 ∧ (adcZip c a b).2 ≤ 1 := by
  intro a
  induction a with
  | nil =>
    intro b c hl _ _ hc
    cases b with
    | nil => simp [adcZip, val, hc]; exact DigitsOk.nil
    | cons _ _ => simp at hl
  | cons x xs ih =>
    intro b c hl ha hb hc
    cases b with
    | nil => simp at hl
    | cons y ys =>
      have hl' : xs.length = ys.length := by simpa using hl
      obtain ⟨h1, h2, h3⟩ := adc_spec ha.head hb.head hc
      obtain ⟨i1, i2, i3, i4⟩ := ih ys (adc c x y).2 hl' ha.tail hb.tail h3
      simp only [adcZip, val, List.length_cons, pow_succ]
      refine ⟨?_, by simp [i2], DigitsOk.cons h2 i3, i4⟩
      have e : B ^ xs.length * B * (adcZip (adc c x y).2 xs ys).2
             = B * (B ^ xs.length * (adcZip (adc c x y).2 xs ys).2) := by ring
      rw [e]
      have := congrArg (B * ·) i1
      simp only [Nat.mul_add] at this
      omega

theorem adcZip_append (x1 y1 x2 y2 : List Nat) (c : Nat) (h : x1.length = y1.length) :
    adcZip c (x1 ++ x2) (y1 ++ y2) =
      ((adcZip c x1 y1).1 ++ (adcZip (adcZip c x1 y1).2 x2 y2).1, (adcZip (adcZip c x1 y1).2 x2 y2).2) := by
  induction x1 generalizing y1 c with
  | nil =>
    cases y1 with
    | nil => simp [adcZip]
    | cons _ _ => simp at h
  | cons a as ih =>
    cases y1 with
    | nil => simp at h
    | cons b bs =>
      have h' : as.length = bs.length := by simpa using h
      simp only [List.cons_append, adcZip]
      rw [ih bs (adc c a b).2 h']

theorem adcProp_spec : ∀ (a : List Nat) (c : Nat), DigitsOk a → c ≤ 1 →
    val (adcProp c a).1 + B ^ a.length * (adcProp c a).2 = val a + c ∧
    (adcProp c a).1.length = a.length ∧ DigitsOk (adcProp c a).1 ∧ (adcProp c a).2 ≤ 1 := by
  intro a
  induction a with
  | nil => intro c _ hc; simp [adcProp, val, hc]; exact DigitsOk.nil
  | cons x xs ih =>
    intro c ha hc
    unfold adcProp
    by_cases h0 : c = 0
    · subst h0; simp; exact ha
    · simp only [h0, if_false]
      obtain ⟨h1, h2, h3⟩ := adc_spec ha.head (show 0 < B from B_pos) hc
      obtain ⟨i1, i2, i3, i4⟩ := ih (adc c x 0).2 ha.tail h3
      simp only [val, List.length_cons, pow_succ]
      refine ⟨?_, by simp [i2], DigitsOk.cons h2 i3, i4⟩
      have e : B ^ xs.length * B * (adcProp (adc c x 0).2 xs).2
             = B * (B ^ xs.length * (adcProp (adc c x 0).2 xs).2) := by ring
      rw [e]
      have := congrArg (B * ·) i1
      simp only [Nat.mul_add] at this
      omega

theorem add2c_eq (P : Params) (a b : List Nat) (hl : b.length ≤ a.length) :
    add2c P a b =
      ((adcZip 0 (a.take b.length) b).1 ++ (adcProp (adcZip 0 (a.take b.length) b).2 (a.drop b.length)).1,
       (adcProp (adcZip 0 (a.take b.length) b).2 (a.drop b.length)).2) := by
  have hLoLen : (a.take b.length).length = b.length := by simp [List.length_take, Nat.min_eq_left hl]
  have hchain := adcZip_append ((a.take b.length).take (P.addBlk.done b.length)) (b.take (P.addBlk.done b.length))
    ((a.take b.length).drop (P.addBlk.done b.length)) (b.drop (P.addBlk.done b.length)) 0
    (by simp only [List.length_take, hLoLen])
  rw [List.take_append_drop, List.take_append_drop] at hchain
  unfold add2c
  dsimp only
  rw [hchain]

/-- `__add2` is exact: digits plus carry-out equal the sum, length and digit range preserved.
    Holds for every block description because the block part and the scalar tail are the
    same carry chain (`adcZip_append`). -/
theorem add2c_spec (P : Params) (a b : List Nat) (hl : b.length ≤ a.length) (ha : DigitsOk a) (hb : DigitsOk b) :
    val (add2c P a b).1 + B ^ a.length * (add2c P a b).2 = val a + val b ∧
    (add2c P a b).1.length = a.length ∧ DigitsOk (add2c P a b).1 ∧ (add2c P a b).2 ≤ 1 := by
  rw [add2c_eq P a b hl]
  have hLoLen : (a.take b.length).length = b.length := by simp [List.length_take, Nat.min_eq_left hl]
  have hsplit : a = a.take b.length ++ a.drop b.length := (List.take_append_drop _ _).symm
  obtain ⟨z1, z2, z3, z4⟩ := adcZip_spec (a.take b.length) b 0 hLoLen (ha.take _) hb (by omega)
  obtain ⟨p1, p2, p3, p4⟩ := adcProp_spec (a.drop b.length) (adcZip 0 (a.take b.length) b).2 (ha.drop _) z4
  generalize adcProp (adcZip 0 (a.take b.length) b).2 (a.drop b.length) = p at *
  generalize adcZip 0 (a.take b.length) b = z at *
  have hva : val a = val (a.take b.length) + B ^ b.length * val (a.drop b.length) := by
    conv_lhs => rw [hsplit]
    rw [val_append, hLoLen]
  have hlenA : a.length = b.length + (a.drop b.length).length := by simp; omega
  rw [hLoLen] at z1 z2
  refine ⟨?_, ?_, z3.append p3, p4⟩
  · rw [val_append, z2, hva]
    generalize val (a.take b.length) = va at *
    generalize val (a.drop b.length) = vh at *
    rw [hlenA, pow_add]
    generalize (a.drop b.length).length = lh at *
    have := congrArg (B ^ b.length * ·) p1
    simp only [Nat.mul_add] at this
    have e : B ^ b.length * B ^ lh * p.2 = B ^ b.length * (B ^ lh * p.2) := by ring
    rw [e]
    omega
  · simp only [List.length_append, z2, p2]; omega

theorem sbbZip_spec : ∀ (a b : List Nat) (c : Nat), a.length = b.length → DigitsOk a → DigitsOk b → c ≤ 1 →
    val (sbbZip c a b).1 + val b + c = val a + B ^ a.length * (sbbZip c a b).2 ∧
    (sbbZip c a b).1.length = a.length ∧ DigitsOk (sbbZip c a b).1 ∧ (sbbZip c a b).2 ≤ 1 := by
  intro a
  induction a with
  | nil =>
    intro b c hl _ _ hc
    cases b with
    | nil => simp [sbbZip, val, hc]; exact DigitsOk.nil
    | cons _ _ => simp at hl
  | cons x xs ih =>
    intro b c hl ha hb hc
    cases b with
    | nil => simp at hl
    | cons y ys =>
      have hl' : xs.length = ys.length := by simpa using hl
      obtain ⟨h1, h2, h3⟩ := sbb_spec ha.head hb.head hc
      obtain ⟨i1, i2, i3, i4⟩ := ih ys (sbb c x y).2 hl' ha.tail hb.tail h3
      simp only [sbbZip, val, List.length_cons, pow_succ]
      refine ⟨?_, by simp [i2], DigitsOk.cons h2 i3, i4⟩
      have e : B ^ xs.length * B * (sbbZip (sbb c x y).2 xs ys).2
             = B * (B ^ xs.length * (sbbZip (sbb c x y).2 xs ys).2) := by ring
      rw [e]
      have := congrArg (B * ·) i1
      simp only [Nat.mul_add] at this
      omega

theorem sbbZip_append (x1 y1 x2 y2 : List Nat) (c : Nat) (h : x1.length = y1.length) :
    sbbZip c (x1 ++ x2) (y1 ++ y2) =
      ((sbbZip c x1 y1).1 ++ (sbbZip (sbbZip c x1 y1).2 x2 y2).1, (sbbZip (sbbZip c x1 y1).2 x2 y2).2) := by
  induction x1 generalizing y1 c with
  | nil =>
    cases y1 with
    | nil => simp [sbbZip]
    | cons _ _ => simp at h
  | cons a as ih =>
    cases y1 with
    | nil => simp at h
    | cons b bs =>
      have h' : as.length = bs.length := by simpa using h
      simp only [List.cons_append, sbbZip]
      rw [ih bs (sbb c a b).2 h']

theorem sbbProp_spec : ∀ (a : List Nat) (c : Nat), DigitsOk a → c ≤ 1 →
    val (sbbProp c a).1 + c = val a + B ^ a.length * (sbbProp c a).2 ∧
    (sbbProp c a).1.length = a.length ∧ DigitsOk (sbbProp c a).1 ∧ (sbbProp c a).2 ≤ 1 := by
  intro a
  induction a with
  | nil => intro c _ hc; simp [sbbProp, val, hc]; exact DigitsOk.nil
  | cons x xs ih =>
    intro c ha hc
    unfold sbbProp
    by_cases h0 : c = 0
    · subst h0; simp; exact ha
    · simp only [h0, if_false]
      obtain ⟨h1, h2, h3⟩ := sbb_spec ha.head (show 0 < B from B_pos) hc
      obtain ⟨i1, i2, i3, i4⟩ := ih (sbb c x 0).2 ha.tail h3
      simp only [val, List.length_cons, pow_succ]
      refine ⟨?_, by simp [i2], DigitsOk.cons h2 i3, i4⟩
      have e : B ^ xs.length * B * (sbbProp (sbb c x 0).2 xs).2
             = B * (B ^ xs.length * (sbbProp (sbb c x 0).2 xs).2) := by ring
      rw [e]
      have := congrArg (B * ·) i1
      simp only [Nat.mul_add] at this
      omega

theorem all_zero_val {l : List Nat} : (l.all (· == 0)) = true ↔ val l = 0 := by
  induction l with
  | nil => simp [val]
  | cons d ds ih =>
    simp only [List.all_cons, Bool.and_eq_true, beq_iff_eq, ih, val]
    constructor
    · rintro ⟨h1, h2⟩; simp [h1, h2]
    · intro h
      have hd : d = 0 := by omega
      refine ⟨hd, ?_⟩
      have : B * val ds = 0 := by omega
      rcases Nat.mul_eq_zero.mp this with h | h
      · exact absurd h (by decide)
      · exact h

theorem sub2_eq (P : Params) (a b : List Nat) :
    sub2 P a b =
      (let len := min a.length b.length
       let z := sbbZip 0 (a.take len) (b.take len)
       let p := sbbProp z.2 (a.drop len)
       if p.2 = 0 ∧ (b.drop len).all (· == 0) then .ok (z.1 ++ p.1) else .error .underflow) := by
  have hLa : (a.take (min a.length b.length)).length = min a.length b.length := by simp [List.length_take]
  have hLb : (b.take (min a.length b.length)).length = min a.length b.length := by simp [List.length_take]
  have hchain := sbbZip_append ((a.take (min a.length b.length)).take (P.subBlk.done (min a.length b.length)))
    ((b.take (min a.length b.length)).take (P.subBlk.done (min a.length b.length)))
    ((a.take (min a.length b.length)).drop (P.subBlk.done (min a.length b.length)))
    ((b.take (min a.length b.length)).drop (P.subBlk.done (min a.length b.length))) 0
    (by simp only [List.length_take, hLa, hLb])
  rw [List.take_append_drop, List.take_append_drop] at hchain
  unfold sub2
  dsimp only
  rw [hchain]

/-- arithmetic core of `sub2_spec`, over plain numbers -/
theorem sub2_arith {P H va vh vbl vbh zl c2 ph c3 : Nat} (hP : 0 < P) (hH : 0 < H)
    (hz : zl + vbl = va + P * c2) (hp : ph + c2 = vh + H * c3)
    (hzl : zl < P) (hph : ph < H) (hva : va < P) (hvbl : vbl < P) (hvh : vh < H)
    (hc2 : c2 ≤ 1) (hc3 : c3 ≤ 1)
    (hcases : (vh = 0 ∧ H = 1) ∨ vbh = 0) :
    ((va + P * vh < vbl + P * vbh) → ¬ (c3 = 0 ∧ vbh = 0)) ∧
    ((vbl + P * vbh ≤ va + P * vh) → c3 = 0 ∧ vbh = 0 ∧ zl + P * ph = va + P * vh - (vbl + P * vbh)) := by
  have e1 : P * (ph + c2) = P * (vh + H * c3) := by rw [hp]
  simp only [Nat.mul_add] at e1
  constructor
  · intro hlt ⟨h0, hb0⟩
    subst h0 hb0
    simp at e1 hlt
    omega
  · intro hle
    rcases Nat.eq_zero_or_pos vbh with hb0 | hbpos
    · subst hb0
      simp at hle ⊢
      have hc3' : c3 = 0 := by
        by_contra hne
        have h1 : c3 = 1 := by omega
        subst h1
        have : P * (ph + 1) ≤ P * H := Nat.mul_le_mul_left _ hph
        simp only [Nat.mul_add, Nat.mul_one] at this e1
        omega
      subst hc3'
      simp at e1
      refine ⟨rfl, ?_⟩
      omega
    · rcases hcases with ⟨hv0, hH1⟩ | hb
      · subst hv0
        have : P * 1 ≤ P * vbh := Nat.mul_le_mul_left _ hbpos
        omega
      · omega

/-- the raw slice subtraction `sub2`: panics exactly when `val a < val b`, otherwise exact -/
theorem sub2_spec (P : Params) (a b : List Nat) (ha : DigitsOk a) (hb : DigitsOk b) :
    (val a < val b → sub2 P a b = .error .underflow) ∧
    (val b ≤ val a → ∃ r, sub2 P a b = .ok r ∧ val r = val a - val b ∧ r.length = a.length ∧ DigitsOk r) := by
  rw [sub2_eq]
  dsimp only
  have hLa : (a.take (min a.length b.length)).length = min a.length b.length := by simp [List.length_take]
  have hLb : (b.take (min a.length b.length)).length = min a.length b.length := by simp [List.length_take]
  obtain ⟨z1, z2, z3, z4⟩ := sbbZip_spec (a.take (min a.length b.length)) (b.take (min a.length b.length)) 0
    (by rw [hLa, hLb]) (ha.take _) (hb.take _) (by omega)
  obtain ⟨p1, p2, p3, p4⟩ := sbbProp_spec (a.drop (min a.length b.length))
    (sbbZip 0 (a.take (min a.length b.length)) (b.take (min a.length b.length))).2 (ha.drop _) z4
  have hva : val a = val (a.take (min a.length b.length)) + B ^ (min a.length b.length) * val (a.drop (min a.length b.length)) := by
    conv_lhs => rw [← List.take_append_drop (min a.length b.length) a]
    rw [val_append, hLa]
  have hvb : val b = val (b.take (min a.length b.length)) + B ^ (min a.length b.length) * val (b.drop (min a.length b.length)) := by
    conv_lhs => rw [← List.take_append_drop (min a.length b.length) b]
    rw [val_append, hLb]
  have hcases : (val (a.drop (min a.length b.length)) = 0 ∧ B ^ (a.drop (min a.length b.length)).length = 1)
      ∨ val (b.drop (min a.length b.length)) = 0 := by
    rcases Nat.le_total a.length b.length with h | h
    · left; simp [Nat.min_eq_left h, val]
    · right; simp [Nat.min_eq_right h, val]
  have hzl := val_lt z3
  have hph := val_lt p3
  have hval := val_lt (ha.take (min a.length b.length))
  have hvbl := val_lt (hb.take (min a.length b.length))
  have hvh := val_lt (ha.drop (min a.length b.length))
  rw [z2, hLa] at hzl
  rw [p2] at hph
  rw [hLa] at hval z1
  rw [hLb] at hvbl
  have hAlen : a.length = min a.length b.length + (a.drop (min a.length b.length)).length := by simp
  have hz : ((b.drop (min a.length b.length)).all (· == 0)) = true ↔ val (b.drop (min a.length b.length)) = 0 := all_zero_val
  generalize sbbProp (sbbZip 0 (a.take (min a.length b.length)) (b.take (min a.length b.length))).2
    (a.drop (min a.length b.length)) = p at *
  generalize sbbZip 0 (a.take (min a.length b.length)) (b.take (min a.length b.length)) = z at *
  obtain ⟨k1, k2⟩ := sub2_arith (Nat.pow_pos B_pos : 0 < B ^ (min a.length b.length))
    (Nat.pow_pos B_pos : 0 < B ^ (a.drop (min a.length b.length)).length)
    (by simpa using z1) p1 hzl hph hval hvbl hvh z4 p4 hcases
  rw [hva, hvb]
  constructor
  · intro hlt
    have := k1 hlt
    rw [← hz] at this
    simp only [this, if_false]
  · intro hle
    obtain ⟨h0, hb0, hv⟩ := k2 hle
    have hb0' := hz.mpr hb0
    refine ⟨z.1 ++ p.1, by simp only [h0, hb0', and_self, if_true], ?_, ?_, z3.append p3⟩
    · rw [val_append, z2, hLa]; exact hv
    · simp only [List.length_append, z2, p2, hLa]; omega

end NB
