/- helper lemmas for C03 (division): digit loops, multiply-subtract, shifts, Knuth D -/
import NB.Model.Div
import NB.Lemmas.Base
import NB.Lemmas.Canon
import NB.Lemmas.AddSub
import Mathlib.Tactic.Ring
import Mathlib.Tactic.Linarith
namespace NB

/-! ### `div_wide`, `div_rem_digit`, `rem_digit` -/

theorem divWide_ok {hi lo d : Nat} (h : hi < d) :
    divWide hi lo d = .ok ((hi * B + lo) / d, (hi * B + lo) % d) := by
  simp [divWide, h]

/-- the single-digit loop: exact quotient digits and remainder, `rem < b` is the loop
    invariant, hence `div_wide` never faults -/
theorem divRemDigitLoop_spec (b : Nat) (hb : 0 < b) : ∀ (a : List Nat), DigitsOk a →
    ∃ qs r, divRemDigitLoop b a = .ok (qs, r) ∧ val qs * b + r = val a ∧ r < b ∧
      qs.length = a.length ∧ DigitsOk qs := by
  intro a
  induction a with
  | nil => intro _; exact ⟨[], 0, rfl, by simp [val], hb, rfl, DigitsOk.nil⟩
  | cons d ds ih =>
    intro ha
    obtain ⟨qs, r, h1, h2, h3, h4, h5⟩ := ih ha.tail
    have hd := ha.head
    refine ⟨(r * B + d) / b :: qs, (r * B + d) % b, ?_, ?_, Nat.mod_lt _ hb, by simp [h4], ?_⟩
    · simp [divRemDigitLoop, h1, divWide_ok h3]
    · have hdm := Nat.div_add_mod (r * B + d) b
      simp only [val]
      rw [← h2]
      nlinarith [hdm]
    · refine DigitsOk.cons ?_ h5
      rw [Nat.div_lt_iff_lt_mul hb]
      have : r * B + B ≤ B * b := by
        have := Nat.mul_le_mul_right B (show r + 1 ≤ b from h3)
        nlinarith [this]
      omega

theorem remDigitLoop_eq (b : Nat) : ∀ a : List Nat,
    remDigitLoop b a = (divRemDigitLoop b a).map (·.2) := by
  intro a
  induction a with
  | nil => rfl
  | cons d ds ih =>
    simp only [remDigitLoop, divRemDigitLoop, ih]
    cases h : divRemDigitLoop b ds with
    | error e => rfl
    | ok p =>
      obtain ⟨qs, rem⟩ := p
      simp only [Except.map]
      cases h2 : divWide rem d b with
      | error e => rfl
      | ok p2 => rfl

/-- quotient/remainder are determined by `q*b + r = n`, `r < b` -/
theorem div_mod_of_eq {n b q r : Nat} (h : q * b + r = n) (hr : r < b) : n / b = q ∧ n % b = r := by
  have hb : 0 < b := by omega
  subst h
  constructor
  · rw [Nat.add_comm, Nat.add_mul_div_right _ _ hb, Nat.div_eq_of_lt hr, Nat.zero_add]
  · rw [Nat.add_comm, Nat.add_mul_mod_self_right, Nat.mod_eq_of_lt hr]

theorem divRemDigit_spec' (a : List Nat) (b : Nat) (ha : DigitsOk a) (hb : b ≠ 0) :
    divRemDigit a b = .ok (ofNat (val a / b), val a % b) := by
  obtain ⟨qs, r, h1, h2, h3, _, h5⟩ := divRemDigitLoop_spec b (Nat.pos_of_ne_zero hb) a ha
  obtain ⟨e1, e2⟩ := div_mod_of_eq h2 h3
  simp only [divRemDigit, hb, if_false, h1]
  rw [canon_eq_ofNat (normalize_canon h5), normalize_val, e1, e2]

theorem remDigit_spec' (a : List Nat) (b : Nat) (ha : DigitsOk a) (hb : b ≠ 0) :
    remDigit a b = .ok (val a % b) := by
  obtain ⟨qs, r, h1, h2, h3, _, _⟩ := divRemDigitLoop_spec b (Nat.pos_of_ne_zero hb) a ha
  obtain ⟨_, e2⟩ := div_mod_of_eq h2 h3
  simp only [remDigit, hb, if_false, remDigitLoop_eq, h1, Except.map, e2]

/-! ### `sub_mul_digit_same_len` -/

theorem MAXD_eq : MAXD + 1 = B := by decide

/-- one digit of the offset-carry multiply-subtract: no `u128` wrap, and with
    `borrow = MAX - offset_carry` it is the exact digit equation
    `x' + y*c + borrow = x + B*borrow'` (stated additively) -/
theorem subMulStep_spec {x y c oc : Nat} (hx : x < B) (hy : y < B) (hc : c < B) (hoc : oc < B) :
    ∃ oc' x', subMulStep x y c oc = .ok (oc', x') ∧
      x' + B * oc' + y * c + MAXD = MAXD * B + x + oc ∧ x' < B ∧ oc' < B := by
  have hM := MAXD_eq
  have hyc : y * c ≤ MAXD * MAXD := Nat.mul_le_mul (by omega) (by omega)
  have hMM : MAXD * MAXD + MAXD = MAXD * B := by rw [← hM]; ring
  have hBB : MAXD * B + B = B * B := by rw [← hM]; ring
  have h0 : ¬ (MAXD * B + x < MAXD) := by omega
  have h1 : ¬ (U128 ≤ MAXD * B + x - MAXD + oc) := by unfold U128; omega
  have h2 : ¬ (U128 ≤ y * c) := by unfold U128; omega
  have h3 : ¬ (MAXD * B + x - MAXD + oc < y * c) := by omega
  refine ⟨(MAXD * B + x - MAXD + oc - y * c) / B, (MAXD * B + x - MAXD + oc - y * c) % B, ?_, ?_,
    Nat.mod_lt _ B_pos, ?_⟩
  · simp only [subMulStep, h0, h1, h2, h3, if_false]
  · have := Nat.mod_add_div (MAXD * B + x - MAXD + oc - y * c) B
    omega
  · rw [Nat.div_lt_iff_lt_mul B_pos]; omega

theorem subMulLoop_spec (c : Nat) (hc : c < B) : ∀ (a b : List Nat) (oc : Nat), a.length = b.length →
    DigitsOk a → DigitsOk b → oc < B →
    ∃ r ocf, subMulLoop c oc a b = .ok (r, ocf) ∧
      val r + c * val b + MAXD + B ^ a.length * ocf = val a + oc + B ^ a.length * MAXD ∧
      ocf < B ∧ r.length = a.length ∧ DigitsOk r := by
  intro a
  induction a with
  | nil =>
    intro b oc hl _ _ hoc
    cases b with
    | nil => exact ⟨[], oc, rfl, by simp [val]; omega, hoc, rfl, DigitsOk.nil⟩
    | cons _ _ => simp at hl
  | cons x xs ih =>
    intro b oc hl ha hb hoc
    cases b with
    | nil => simp at hl
    | cons y ys =>
      have hl' : xs.length = ys.length := by simpa using hl
      obtain ⟨oc', x', s1, s2, s3, s4⟩ := subMulStep_spec ha.head hb.head hc hoc
      obtain ⟨r, ocf, l1, l2, l3, l4, l5⟩ := ih ys oc' hl' ha.tail hb.tail s4
      refine ⟨x' :: r, ocf, ?_, ?_, l3, by simp [l4], DigitsOk.cons s3 l5⟩
      · simp [subMulLoop, s1, l1]
      · simp only [val, List.length_cons, pow_succ]
        have h2 := congrArg (B * ·) l2
        nlinarith [h2, s2]

/-- `sub_mul_digit_same_len`: `a' + c*b = a + borrow*B^n`, `borrow < B`; no `u128`/`u64`
    under- or overflow is reachable -/
theorem subMul_spec (a b : List Nat) (c : Nat) (hl : a.length = b.length) (ha : DigitsOk a)
    (hb : DigitsOk b) (hc : c < B) :
    ∃ r borrow, subMulDigitSameLen a b c = .ok (r, borrow) ∧
      val r + c * val b = val a + borrow * B ^ a.length ∧ borrow < B ∧
      r.length = a.length ∧ DigitsOk r := by
  have hM := MAXD_eq
  obtain ⟨r, ocf, l1, l2, l3, l4, l5⟩ := subMulLoop_spec c hc a b MAXD hl ha hb (by omega)
  refine ⟨r, MAXD - ocf, ?_, ?_, by omega, l4, l5⟩
  · have : ¬ (MAXD < ocf) := by omega
    simp [subMulDigitSameLen, hl, l1, this]
  · have hle : ocf ≤ MAXD := by omega
    have : (MAXD - ocf) * B ^ a.length + B ^ a.length * ocf = B ^ a.length * MAXD := by
      rw [Nat.mul_comm (MAXD - ocf), ← Nat.mul_add, Nat.sub_add_cancel hle]
    omega

/-! ### normalisation shifts -/

theorem B_split {s : Nat} (hs : s ≤ 64) : B = 2 ^ (64 - s) * 2 ^ s := by
  rw [← pow_add, B_eq]; congr 1; omega

/-- `(e << s) | carry` for `carry < 2^s`: the OR is an addition -/
theorem shl_digit {e s c : Nat} (hs : s ≤ 64) (hc : c < 2 ^ s) :
    ((e <<< s) % B) ||| c = (e % 2 ^ (64 - s)) * 2 ^ s + c := by
  rw [Nat.shiftLeft_eq, B_split hs, Nat.mul_mod_mul_right, ← Nat.shiftLeft_eq,
    ← Nat.shiftLeft_add_eq_or_of_lt hc]

theorem shlLoop_spec (s : Nat) (hs0 : 0 < s) (hs : s < 64) : ∀ (l : List Nat) (c : Nat), DigitsOk l → c < 2 ^ s →
    val (shlLoop s c l) = val l * 2 ^ s + c ∧ DigitsOk (shlLoop s c l) := by
  intro l
  have hB := B_split (show s ≤ 64 by omega)
  have hK : 0 < 2 ^ (64 - s) := Nat.pow_pos (by decide)
  have hS : 0 < 2 ^ s := Nat.pow_pos (by decide)
  induction l with
  | nil =>
    intro c _ hc
    have hcB : c < B := by
      have : 2 ^ s ≤ 2 ^ (64 - s) * 2 ^ s := Nat.le_mul_of_pos_left _ hK
      omega
    by_cases h0 : c = 0
    · simp [shlLoop, h0, val]; exact DigitsOk.nil
    · simp [shlLoop, h0, val]; exact DigitsOk.cons hcB DigitsOk.nil
  | cons e es ih =>
    intro c hl hc
    have he := hl.head
    have hcar : e >>> (DIVBITS - s) < 2 ^ s := by
      rw [Nat.shiftRight_eq_div_pow, Nat.div_lt_iff_lt_mul (by simp [DIVBITS])]
      simp only [DIVBITS]; rw [Nat.mul_comm, ← hB]; exact he
    obtain ⟨i1, i2⟩ := ih (e >>> (DIVBITS - s)) hl.tail hcar
    simp only [shlLoop, val, i1]
    rw [shl_digit (by omega) hc]
    constructor
    · rw [Nat.shiftRight_eq_div_pow]; simp only [DIVBITS]
      have hdm := Nat.mod_add_div e (2 ^ (64 - s))
      generalize e % 2 ^ (64 - s) = m at *
      generalize e / 2 ^ (64 - s) = d at *
      generalize 2 ^ (64 - s) = K at *
      generalize 2 ^ s = S at *
      subst hdm; rw [hB]
      ring
    · refine DigitsOk.cons ?_ i2
      have : e % 2 ^ (64 - s) < 2 ^ (64 - s) := Nat.mod_lt _ hK
      generalize e % 2 ^ (64 - s) = m at *
      generalize 2 ^ (64 - s) = K at *
      generalize 2 ^ s = S at *
      rw [hB]
      have : (m + 1) * S ≤ K * S := Nat.mul_le_mul_right _ this
      nlinarith [this]

theorem ofNat_zero : ofNat 0 = [] := by unfold ofNat; simp

theorem ofNat_digit {d : Nat} (h0 : d ≠ 0) (h : d < B) : ofNat d = [d] := by
  have hc : Canon [d] := ⟨DigitsOk.cons h DigitsOk.nil, by simp [h0]⟩
  have := canon_eq_ofNat hc
  simpa [val] using this.symm

theorem fromDigit_eq {d : Nat} (h : d < B) : fromDigit d = ofNat d := by
  unfold fromDigit
  by_cases h0 : d = 0
  · simp [h0, ofNat_zero]
  · simp [h0, ofNat_digit h0 h]

/-- `biguint_shl` by fewer than `DIVBITS` bits: exact, canonical -/
theorem shlBig_spec (n : List Nat) (s : Nat) (hn : DigitsOk n) (hs : s < DIVBITS) :
    shlBig n s = ofNat (val n * 2 ^ s) := by
  unfold shlBig
  by_cases h0 : n = []
  · subst h0; simp [val, ofNat_zero]
  · simp only [h0, if_false]
    have hd : s / DIVBITS = 0 := Nat.div_eq_of_lt hs
    have hm : s % DIVBITS = s := Nat.mod_eq_of_lt hs
    simp only [hd, hm, List.replicate_zero, List.nil_append]
    by_cases hs0 : s > 0
    · simp only [hs0, if_true]
      obtain ⟨v, ok⟩ := shlLoop_spec s hs0 (by simpa [DIVBITS] using hs) n 0 hn (Nat.pow_pos (by decide))
      rw [canon_eq_ofNat (normalize_canon ok), normalize_val, v, Nat.add_zero]
    · have : s = 0 := by omega
      subst this
      simp only [Nat.lt_irrefl, if_false, pow_zero, Nat.mul_one]
      rw [canon_eq_ofNat (normalize_canon hn), normalize_val]

/-- `(e >> s) | borrow` for `borrow = t << (64-s)`, and the borrow handed down -/
theorem shr_digit {e s t : Nat} (hs : s ≤ 64) (he : e < B) :
    ((e >>> s) ||| (t * 2 ^ (64 - s))) = t * 2 ^ (64 - s) + e / 2 ^ s := by
  have hlt : e / 2 ^ s < 2 ^ (64 - s) := by
    rw [Nat.div_lt_iff_lt_mul (Nat.pow_pos (by decide)), ← B_split hs]; exact he
  rw [Nat.or_comm, Nat.shiftRight_eq_div_pow, ← Nat.shiftLeft_eq, ← Nat.shiftLeft_add_eq_or_of_lt hlt]

theorem shr_borrow {e s : Nat} (hs : s ≤ 64) :
    (e <<< (DIVBITS - s)) % B = (e % 2 ^ s) * 2 ^ (64 - s) := by
  have : B = 2 ^ s * 2 ^ (64 - s) := by rw [B_split hs, Nat.mul_comm]
  simp only [DIVBITS]
  rw [Nat.shiftLeft_eq, this, Nat.mul_mod_mul_right]

theorem shrLoop_spec (s : Nat) (hs0 : 0 < s) (hs : s < 64) : ∀ (l : List Nat), DigitsOk l →
    ∃ t, t < 2 ^ s ∧ (shrLoop s l).2 = t * 2 ^ (64 - s) ∧ val (shrLoop s l).1 * 2 ^ s + t = val l ∧
      DigitsOk (shrLoop s l).1 := by
  intro l
  have hB := B_split (show s ≤ 64 by omega)
  have hK : 0 < 2 ^ (64 - s) := Nat.pow_pos (by decide)
  have hS : 0 < 2 ^ s := Nat.pow_pos (by decide)
  induction l with
  | nil => intro _; exact ⟨0, hS, by simp [shrLoop], by simp [shrLoop, val], DigitsOk.nil⟩
  | cons e es ih =>
    intro hl
    have he := hl.head
    obtain ⟨t, t1, t2, t3, t4⟩ := ih hl.tail
    refine ⟨e % 2 ^ s, Nat.mod_lt _ hS, ?_, ?_, ?_⟩
    · simp only [shrLoop]; exact shr_borrow (by omega)
    · simp only [shrLoop, val, t2]
      rw [shr_digit (by omega) he, ← t3]
      have hdm := Nat.div_add_mod e (2 ^ s)
      generalize e % 2 ^ s = m at *
      generalize e / 2 ^ s = d at *
      generalize 2 ^ (64 - s) = K at *
      generalize 2 ^ s = S at *
      subst hdm; rw [hB]
      ring
    · simp only [shrLoop, t2]
      refine DigitsOk.cons ?_ t4
      rw [shr_digit (by omega) he]
      have hlt : e / 2 ^ s < 2 ^ (64 - s) := by
        rw [Nat.div_lt_iff_lt_mul hS, ← hB]; exact he
      generalize e / 2 ^ s = d at *
      generalize 2 ^ (64 - s) = K at *
      generalize 2 ^ s = S at *
      rw [hB]
      have : (t + 1) * K ≤ S * K := Nat.mul_le_mul_right _ t1
      nlinarith [this]

/-- `biguint_shr` by fewer than `DIVBITS` bits: exact floor, canonical -/
theorem shrBig_spec (n : List Nat) (s : Nat) (hn : DigitsOk n) (hs : s < DIVBITS) :
    shrBig n s = ofNat (val n / 2 ^ s) := by
  unfold shrBig
  by_cases h0 : n = []
  · subst h0; simp [val, ofNat_zero]
  · simp only [h0, if_false]
    have hd : s / DIVBITS = 0 := Nat.div_eq_of_lt hs
    have hm : s % DIVBITS = s := Nat.mod_eq_of_lt hs
    have hlen : ¬ (0 ≥ n.length) := by
      cases n with
      | nil => exact absurd rfl h0
      | cons _ _ => simp
    simp only [hd, hm, hlen, if_false, List.drop_zero]
    by_cases hs0 : s > 0
    · simp only [hs0, if_true]
      obtain ⟨t, t1, _, t3, t4⟩ := shrLoop_spec s hs0 (by simpa [DIVBITS] using hs) n hn
      rw [canon_eq_ofNat (normalize_canon t4), normalize_val]
      congr 1
      exact ((div_mod_of_eq t3 t1).1).symm
    · have : s = 0 := by omega
      subst this
      simp only [Nat.lt_irrefl, if_false, pow_zero, Nat.div_one]
      rw [canon_eq_ofNat (normalize_canon hn), normalize_val]

/-- `leading_zeros` of a non-zero digit: the normalising shift -/
theorem leadingZeros_spec {d : Nat} (h0 : d ≠ 0) (hd : d < B) :
    leadingZeros d < DIVBITS ∧ B / 2 ≤ d * 2 ^ leadingZeros d ∧ d * 2 ^ leadingZeros d < B := by
  have hlog : d.log2 < 64 := (Nat.log2_lt h0).mpr (by rw [← B_eq]; exact hd)
  have hlo := Nat.log2_self_le h0
  have hhi := Nat.lt_log2_self (n := d)
  have hlz : leadingZeros d = 63 - d.log2 := by simp [leadingZeros, h0, DIVBITS]
  rw [hlz]
  refine ⟨by simp [DIVBITS]; omega, ?_, ?_⟩
  · have : B / 2 = 2 ^ d.log2 * 2 ^ (63 - d.log2) := by
      rw [← pow_add, show d.log2 + (63 - d.log2) = 63 by omega]; decide
    rw [this]; exact Nat.mul_le_mul_right _ hlo
  · have : B = 2 ^ (d.log2 + 1) * 2 ^ (63 - d.log2) := by
      rw [← pow_add, show d.log2 + 1 + (63 - d.log2) = 64 by omega]; decide
    rw [this]; exact Nat.mul_lt_mul_of_pos_right hhi (Nat.pow_pos (by decide))

theorem leadingZeros_zero_iff {d : Nat} (h0 : d ≠ 0) (hd : d < B) : leadingZeros d = 0 ↔ B / 2 ≤ d := by
  obtain ⟨_, h2, h3⟩ := leadingZeros_spec h0 hd
  constructor
  · intro h; rw [h] at h2; simpa using h2
  · intro h
    by_contra hne
    have : 2 ≤ 2 ^ leadingZeros d := by
      calc 2 = 2 ^ 1 := rfl
        _ ≤ 2 ^ leadingZeros d := Nat.pow_le_pow_right (by decide) (by omega)
    have : d * 2 ≤ d * 2 ^ leadingZeros d := Nat.mul_le_mul_left _ this
    have : B / 2 * 2 = B := by decide
    omega


/-! ### arithmetic core of Knuth D (plain `Nat`) -/

/-- the true quotient digit never exceeds what the top three / top two digits allow -/
theorem knuth_q_top {q V W P T2 T3 bl wl : Nat} (hV : V = bl + P * T2) (hW : W = wl + P * T3)
    (hwl : wl < P) (hq : q * V ≤ W) : q * T2 ≤ T3 := by
  have h1 : q * (P * T2) ≤ q * V := Nat.mul_le_mul_left q (by omega)
  have h2 : P * (q * T2) < P * (T3 + 1) := by
    have : P * (q * T2) = q * (P * T2) := by ring
    rw [this, Nat.mul_add]; omega
  have := Nat.lt_of_mul_lt_mul_left h2
  omega

/-- `q̂ ≤ q + 1` once `q̂·top2(b) ≤ top3(window)`; only `b0 ≥ 1` and `q̂ < B` are needed -/
theorem knuth_qhat_le {qh V W P T2 T3 bl wl b0 b1 : Nat} (hV : V = bl + P * T2) (hW : W = wl + P * T3)
    (hbl : bl < P) (hT2 : T2 = b1 + B * b0) (hb0 : 1 ≤ b0) (hqh : qh < B) (hVpos : 0 < V)
    (h : qh * T2 ≤ T3) : qh ≤ W / V + 1 := by
  cases qh with
  | zero => exact Nat.zero_le _
  | succ k =>
    have hk : k ≤ T2 := by
      have : B * 1 ≤ B * b0 := Nat.mul_le_mul_left _ hb0
      omega
    have hkV : k * V ≤ W := by
      have e1 : k * V = k * bl + k * (P * T2) := by rw [hV]; ring
      have e2 : k * bl ≤ k * P := Nat.mul_le_mul_left _ (by omega)
      have e3 : k * P ≤ T2 * P := Nat.mul_le_mul_right _ hk
      have e4 : P * ((k + 1) * T2) ≤ P * T3 := Nat.mul_le_mul_left _ h
      have e5 : P * ((k + 1) * T2) = k * (P * T2) + T2 * P := by ring
      omega
    exact Nat.succ_le_succ ((Nat.le_div_iff_mul_le hVpos).mpr hkV)

/-- window bound `W < V·B` forces `a0 ≤ b0` -/
theorem knuth_a0_le {V W P T2 T3 bl wl a0 a1 a2 b0 b1 : Nat} (hV : V = bl + P * T2) (hW : W = wl + P * T3)
    (hbl : bl < P) (hT2 : T2 = b1 + B * b0) (hT3 : T3 = a2 + B * (a1 + B * a0)) (hb1 : b1 < B)
    (hWV : W < V * B) : a0 ≤ b0 := by
  by_contra hlt
  have h1 : b0 + 1 ≤ a0 := by omega
  have h2 : P * (B * (B * (b0 + 1))) ≤ P * (B * (B * a0)) :=
    Nat.mul_le_mul_left _ (Nat.mul_le_mul_left _ (Nat.mul_le_mul_left _ h1))
  have h3 : P * (B * (B * a0)) ≤ W := by
    have : P * T3 = P * a2 + P * (B * a1) + P * (B * (B * a0)) := by rw [hT3]; ring
    omega
  have h4 : V * B < P * (B * (B * (b0 + 1))) := by
    have : V + 1 ≤ P * (B * (b0 + 1)) := by
      have : P * (B * (b0 + 1)) = P * (B * b0) + P * B := by ring
      have : P * T2 = P * b1 + P * (B * b0) := by rw [hT2]; ring
      have : P * (b1 + 1) ≤ P * B := Nat.mul_le_mul_left _ (by omega)
      have : P * (b1 + 1) = P * b1 + P := by ring
      omega
    have h5 := Nat.mul_le_mul_right B this
    have : P * (B * (b0 + 1)) * B = P * (B * (B * (b0 + 1))) := by ring
    have : (V + 1) * B = V * B + B := by ring
    have := B_pos
    omega
  omega

/-- 2-by-1 estimate is an upper bound of anything bounded by top3/top2 -/
theorem knuth_est_ge {q T2 T3 a0 a1 a2 b0 b1 : Nat} (hT2 : T2 = b1 + B * b0)
    (hT3 : T3 = a2 + B * (a1 + B * a0)) (ha2 : a2 < B) (h : q * T2 ≤ T3) : q * b0 ≤ a1 + B * a0 := by
  have h1 : B * (q * b0) ≤ q * T2 := by
    have : q * T2 = q * b1 + B * (q * b0) := by rw [hT2]; ring
    omega
  have h2 : B * (q * b0) < B * (a1 + B * a0 + 1) := by
    have : B * (a1 + B * a0 + 1) = B * (a1 + B * a0) + B := by ring
    omega
  have := Nat.lt_of_mul_lt_mul_left h2
  omega

/-- the 3-by-2 loop keeps every lower bound `q` (with `q·top2 ≤ top3`) and ends with
    `q̂·top2 ≤ top3`; `r + q̂·b0 = [a0,a1]` is the loop invariant -/
theorem corrLoop_spec {b0 b1 a0 a1 a2 T2 T3 q : Nat} (hT2 : T2 = b1 + B * b0)
    (hT3 : T3 = a2 + B * (a1 + B * a0)) (hb1 : b1 < B) (hq : q * T2 ≤ T3) :
    ∀ (qh r : Nat), r + qh * b0 = a1 + B * a0 → q ≤ qh → qh < B →
      q ≤ (corrLoop b0 b1 a2 qh r).1 ∧ (corrLoop b0 b1 a2 qh r).1 ≤ qh ∧
      (corrLoop b0 b1 a2 qh r).1 * T2 ≤ T3 := by
  intro qh
  induction qh with
  | zero => intro r _ hle _; simp [corrLoop]; omega
  | succ k ih =>
    intro r hinv hle hlt
    have hM := MAXD_eq
    have eT : (k + 1) * T2 = (k + 1) * b1 + B * ((k + 1) * b0) := by rw [hT2]; ring
    have eT3 : T3 = a2 + B * (r + (k + 1) * b0) := by rw [hT3, hinv]
    have eB : B * (r + (k + 1) * b0) = r * B + B * ((k + 1) * b0) := by ring
    simp only [corrLoop]
    split
    · rename_i hc
      -- the estimate is too large: (k+1)·top2 > top3 ≥ q·top2, so q ≤ k
      have hgt : T3 < (k + 1) * T2 := by omega
      have hqk : q ≤ k := by
        by_contra hn
        have : (k + 1) * T2 ≤ q * T2 := Nat.mul_le_mul_right _ (by omega)
        omega
      have hinv' : r + b0 + k * b0 = a1 + B * a0 := by
        have : (k + 1) * b0 = k * b0 + b0 := by ring
        omega
      obtain ⟨i1, i2, i3⟩ := ih (r + b0) hinv' hqk (by omega)
      exact ⟨i1, by omega, i3⟩
    · rename_i hc
      refine ⟨hle, Nat.le_refl _, ?_⟩
      show (k + 1) * T2 ≤ T3
      have hkb : (k + 1) * b1 ≤ r * B + a2 := by
        by_cases hr : r ≤ MAXD
        · have : ¬ (r * B + a2 < (k + 1) * b1) := fun h => hc ⟨hr, h⟩
          omega
        · have h1 : (k + 1) * b1 ≤ B * B := Nat.mul_le_mul (by omega) (by omega)
          have h2 : B * B ≤ r * B := Nat.mul_le_mul_right _ (by omega)
          omega
      omega

/-- the first (2-by-1) estimate: never below the true digit, `< B`, and `r = [a0,a1] - q̂·b0`;
    `div_wide` does not fault and the `a0 == b0` assertion holds -/
theorem estimate_spec {a0 a1 a2 b0 b1 T2 T3 q : Nat} (hT2 : T2 = b1 + B * b0)
    (hT3 : T3 = a2 + B * (a1 + B * a0)) (ha1 : a1 < B) (ha2 : a2 < B) (ha0 : a0 ≤ b0)
    (hq : q * T2 ≤ T3) (hqB : q < B) :
    ∃ qh r, estimate a0 a1 b0 = .ok (qh, r) ∧ r + qh * b0 = a1 + B * a0 ∧ q ≤ qh ∧ qh < B := by
  have hM := MAXD_eq
  unfold estimate
  by_cases hlt : a0 < b0
  · simp only [hlt, if_true, divWide_ok hlt]
    refine ⟨_, _, rfl, ?_, ?_, ?_⟩
    · have := Nat.mod_add_div (a0 * B + a1) b0
      have e : b0 * ((a0 * B + a1) / b0) = (a0 * B + a1) / b0 * b0 := Nat.mul_comm _ _
      have e2 : a0 * B = B * a0 := Nat.mul_comm _ _
      omega
    · rw [Nat.le_div_iff_mul_le (by omega)]
      have := knuth_est_ge hT2 hT3 ha2 hq
      have e2 : a0 * B = B * a0 := Nat.mul_comm _ _
      omega
    · rw [Nat.div_lt_iff_lt_mul (by omega)]
      have : (a0 + 1) * B ≤ b0 * B := Nat.mul_le_mul_right _ hlt
      have e : (a0 + 1) * B = a0 * B + B := by ring
      have e2 : B * b0 = b0 * B := Nat.mul_comm _ _
      omega
  · have he : a0 = b0 := by omega
    have : ¬ (a0 ≠ b0) := by omega
    simp only [hlt, this, if_false]
    refine ⟨_, _, rfl, ?_, by omega, by omega⟩
    subst he
    have : B * a0 = MAXD * a0 + a0 := by rw [← hM]; ring
    omega

/-- arithmetic of the multiply-subtract / add-back decision: with `q ≤ q̂ ≤ q+1`,
    either `q̂ = q`, the borrow equals `a0` and nothing is added back, or `q̂ = q+1`, the borrow
    is `a0 + 1`, and adding `b` back produces carry 1 -/
theorem addback_arith {W V Pn vw a0 q R qh v1 borrow : Nat} (hW : W = vw + a0 * Pn)
    (hdm : q * V + R = W) (hR : R < V) (hVP : V < Pn) (hv1 : v1 < Pn)
    (hsm : v1 + qh * V = vw + borrow * Pn) (hcase : qh = q ∨ qh = q + 1) :
    (qh = q ∧ borrow = a0 ∧ v1 = R) ∨
    (qh = q + 1 ∧ a0 < borrow ∧ ∀ v2 carry, v2 < Pn → carry ≤ 1 → v2 + Pn * carry = v1 + V →
        carry = 1 ∧ borrow = a0 + 1 ∧ v2 = R) := by
  rcases hcase with h | h
  · left
    subst h
    have hb : borrow = a0 := by
      rcases Nat.lt_trichotomy borrow a0 with hlt | heq | hgt
      · have : (borrow + 1) * Pn ≤ a0 * Pn := Nat.mul_le_mul_right _ hlt
        have e : (borrow + 1) * Pn = borrow * Pn + Pn := by ring
        omega
      · exact heq
      · have : (a0 + 1) * Pn ≤ borrow * Pn := Nat.mul_le_mul_right _ hgt
        have e : (a0 + 1) * Pn = a0 * Pn + Pn := by ring
        omega
    subst hb
    exact ⟨rfl, rfl, by omega⟩
  · right
    subst h
    have e0 : (q + 1) * V = q * V + V := by ring
    have hgt : a0 < borrow := by
      by_contra hn
      have : borrow * Pn ≤ a0 * Pn := Nat.mul_le_mul_right _ (by omega)
      omega
    refine ⟨rfl, hgt, ?_⟩
    intro v2 carry hv2 hc hadd
    have h1 : (a0 + 1) * Pn ≤ borrow * Pn := Nat.mul_le_mul_right _ hgt
    have e1 : (a0 + 1) * Pn = a0 * Pn + Pn := by ring
    have hc1 : carry = 1 := by
      by_contra hn
      have : carry = 0 := by omega
      subst this
      simp at hadd
      omega
    subst hc1
    have hb : borrow = a0 + 1 := by
      by_contra hn
      have h2 : (a0 + 2) * Pn ≤ borrow * Pn := Nat.mul_le_mul_right _ (by omega)
      have e2 : (a0 + 2) * Pn = a0 * Pn + Pn + Pn := by ring
      omega
    subst hb
    exact ⟨rfl, rfl, by omega⟩

/-- multiply-subtract with conditional add-back: for a trial digit `q ≤ q̂ ≤ q+1` it returns
    the exact digit `q = W / V` and the exact window remainder `W % V`; add-back happens exactly
    when `q̂ = q+1`; afterwards `borrow = a0` (the `debug_assert`), no `u64` underflow -/
theorem mulSubAddBack_spec (P : Params) (w b : List Nat) (qh a0 : Nat) (hl : w.length = b.length)
    (hw : DigitsOk w) (hb : DigitsOk b) (hqh : qh < B) (hVpos : 0 < val b)
    (hlo : (val w + a0 * B ^ w.length) / val b ≤ qh)
    (hhi : qh ≤ (val w + a0 * B ^ w.length) / val b + 1) :
    ∃ w2, mulSubAddBack P w b qh a0 = .ok ((val w + a0 * B ^ w.length) / val b, w2) ∧
      val w2 = (val w + a0 * B ^ w.length) % val b ∧ w2.length = w.length ∧ DigitsOk w2 := by
  have hdm := Nat.div_add_mod (val w + a0 * B ^ w.length) (val b)
  have hR := Nat.mod_lt (val w + a0 * B ^ w.length) hVpos
  generalize (val w + a0 * B ^ w.length) / val b = q at *
  generalize (val w + a0 * B ^ w.length) % val b = R at *
  obtain ⟨w1, borrow, s1, s2, s3, s4, s5⟩ := subMul_spec w b qh hl hw hb hqh
  have hVP : val b < B ^ w.length := by rw [hl]; exact val_lt hb
  have hv1 : val w1 < B ^ w.length := by rw [← s4]; exact val_lt s5
  have hdm' : q * val b + R = val w + a0 * B ^ w.length := by rw [Nat.mul_comm]; exact hdm
  have hsm : val w1 + qh * val b = val w + borrow * B ^ w.length := s2
  rcases addback_arith rfl hdm' hR hVP hv1 hsm (by omega) with ⟨e1, e2, e3⟩ | ⟨e1, e2, e3⟩
  · refine ⟨w1, ?_, e3, s4, s5⟩
    subst e1; subst e2
    simp [mulSubAddBack, s1]
  · obtain ⟨c1, c2, c3, c4⟩ := add2c_spec P w1 b (by omega) s5 hb
    have hv2 : val (add2c P w1 b).1 < B ^ w.length := by rw [← s4, ← c2]; exact val_lt c3
    rw [s4] at c1
    obtain ⟨k1, k2, k3⟩ := e3 _ _ hv2 c4 c1
    refine ⟨(add2c P w1 b).1, ?_, k3, by rw [c2, s4], c3⟩
    subst e1
    simp [mulSubAddBack, s1, k1, k2]

theorem top2_of_append (lo : List Nat) (x y : Nat) :
    (lo ++ [x, y]).getLast?.getD 0 = y ∧ (lo ++ [x, y]).getD ((lo ++ [x, y]).length - 2) 0 = x := by
  constructor
  · simp
  · simp [List.getD_eq_getElem?_getD]

theorem list_top2 (l : List Nat) (h : 2 ≤ l.length) : ∃ lo x y, l = lo ++ [x, y] := by
  rcases List.eq_nil_or_concat l with h0 | ⟨l1, y, rfl⟩
  · subst h0; simp at h
  · rcases List.eq_nil_or_concat l1 with h1 | ⟨l2, x, rfl⟩
    · subst h1; simp at h
    · exact ⟨l2, x, y, by simp⟩

theorem val_top2 (lo : List Nat) (x y : Nat) :
    val (lo ++ [x, y]) = val lo + B ^ lo.length * (x + B * y) := by
  rw [val_append]; simp [val]

theorem step_arith {vlo Bj W V q R N : Nat} (hN : N = vlo + Bj * W) (hvlo : vlo < Bj)
    (hdm : q * V + R = W) (hR : R < V) :
    (vlo + Bj * R) + q * V * Bj = N ∧ vlo + Bj * R < V * Bj := by
  constructor
  · rw [hN, ← hdm]; ring
  · have : Bj * (R + 1) ≤ Bj * V := Nat.mul_le_mul_left _ hR
    have e : Bj * (R + 1) = Bj * R + Bj := by ring
    have e2 : V * Bj = Bj * V := Nat.mul_comm _ _
    omega

/-- one iteration of the main loop of `div_rem_core`: given the invariant
    `N = a + a0·B^len < b·B^(j+1)` it produces the exact quotient digit `q_j = (N / B^j) / b`,
    removes `q_j·b·B^j` from `N`, re-establishes the invariant for `j`, and trips no assertion -/
theorem coreStep_spec (P : Params) (b : List Nat) (hb : DigitsOk b) (hn : 2 ≤ b.length)
    (hb0 : 1 ≤ b.getLast?.getD 0) (j : Nat) (a : List Nat) (a0 : Nat) (ha : DigitsOk a)
    (hlen : a.length = b.length + j)
    (hinv : val a + a0 * B ^ a.length < val b * B ^ (j + 1)) :
    ∃ q a' a0', coreStep P b (b.getLast?.getD 0) (b.getD (b.length - 2) 0) j a a0 = .ok (q, a', a0') ∧
      q < B ∧ a'.length + 1 = a.length ∧ DigitsOk a' ∧ a0' < B ∧
      (val a' + a0' * B ^ a'.length) + q * val b * B ^ j = val a + a0 * B ^ a.length ∧
      val a' + a0' * B ^ a'.length < val b * B ^ j := by
  -- split a into the untouched low part and the window
  have hsplit : a.take j ++ a.drop j = a := List.take_append_drop j a
  have hlo : (a.take j).length = j := by rw [List.length_take]; omega
  have hwl : (a.drop j).length = b.length := by rw [List.length_drop]; omega
  obtain ⟨blo, b1, b0, hbe⟩ := list_top2 b hn
  obtain ⟨wlo, a2, a1, hwe⟩ := list_top2 (a.drop j) (by omega)
  have hae : a = (a.take j ++ wlo) ++ [a2, a1] := by rw [List.append_assoc, ← hwe, hsplit]
  obtain ⟨tb0, tb1⟩ := top2_of_append blo b1 b0
  obtain ⟨ta1, ta2⟩ := top2_of_append (a.take j ++ wlo) a2 a1
  rw [← hbe] at tb0 tb1
  rw [← hae] at ta1 ta2
  rw [tb0] at hb0
  rw [tb0, tb1]
  have hblo : blo.length + 2 = b.length := by rw [hbe]; simp
  have hwlo : wlo.length = blo.length := by
    have := congrArg List.length hwe; simp at this; omega
  have hdb : DigitsOk (blo ++ [b1, b0]) := hbe ▸ hb
  have hb1B : b1 < B := hdb b1 (by simp)
  have hb0B : b0 < B := hdb b0 (by simp)
  have hdw : DigitsOk (a.drop j) := ha.drop j
  have hdw' : DigitsOk (wlo ++ [a2, a1]) := hwe ▸ hdw
  have ha1B : a1 < B := hdw' a1 (by simp)
  have ha2B : a2 < B := hdw' a2 (by simp)
  -- values
  have hvb : val b = val blo + B ^ blo.length * (b1 + B * b0) := by rw [hbe, val_top2]
  have hvw : val (a.drop j) = val wlo + B ^ blo.length * (a2 + B * a1) := by rw [hwe, val_top2, hwlo]
  have hva : val a = val (a.take j) + B ^ j * val (a.drop j) := by
    conv_lhs => rw [← hsplit]
    rw [val_append, hlo]
  have hvlo : val (a.take j) < B ^ j := by have := val_lt (ha.take j); rwa [hlo] at this
  have hbl : val blo < B ^ blo.length := val_lt hdb.left
  have hwll : val wlo < B ^ blo.length := by rw [← hwlo]; exact val_lt hdw'.left
  have hpow : B ^ a.length = B ^ j * (B ^ blo.length * (B * B)) := by
    rw [hlen, ← hblo, show blo.length + 2 + j = j + (blo.length + 2) by omega, pow_add, pow_add]
    ring
  have hpw : B ^ (a.drop j).length = B ^ blo.length * (B * B) := by
    rw [hwl, ← hblo, pow_add]; ring
  -- the window value W and the invariant W < V·B
  have hWdef : val (a.drop j) + a0 * B ^ (a.drop j).length
      = val wlo + B ^ blo.length * (a2 + B * (a1 + B * a0)) := by rw [hvw, hpw]; ring
  have hN : val a + a0 * B ^ a.length
      = val (a.take j) + B ^ j * (val (a.drop j) + a0 * B ^ (a.drop j).length) := by
    rw [hva, hpow, hpw]; ring
  have hPpos : 0 < B ^ blo.length := Nat.pow_pos B_pos
  have hVpos : 0 < val b := by
    have : B ^ blo.length * 1 ≤ B ^ blo.length * (b1 + B * b0) := Nat.mul_le_mul_left _ (by
      have : B * 1 ≤ B * b0 := Nat.mul_le_mul_left _ hb0
      have := B_pos; omega)
    omega
  have hWV : val (a.drop j) + a0 * B ^ (a.drop j).length < val b * B := by
    have h1 : B ^ j * (val (a.drop j) + a0 * B ^ (a.drop j).length) < B ^ j * (val b * B) := by
      have : val b * B ^ (j + 1) = B ^ j * (val b * B) := by rw [pow_succ]; ring
      omega
    exact Nat.lt_of_mul_lt_mul_left h1
  generalize hWg : val (a.drop j) + a0 * B ^ (a.drop j).length = W at *
  -- the true digit
  have hqV : W / val b * val b ≤ W := Nat.div_mul_le_self _ _
  have hqB : W / val b < B := by rw [Nat.div_lt_iff_lt_mul hVpos, Nat.mul_comm]; exact hWV
  have hqT := knuth_q_top hvb hWdef hwll hqV
  have ha0le := knuth_a0_le hvb hWdef hbl rfl rfl hb1B hWV
  obtain ⟨qh0, r0, e1, e2, e3, e4⟩ := estimate_spec rfl rfl ha1B ha2B ha0le hqT hqB
  obtain ⟨c1, c2, c3⟩ := corrLoop_spec rfl rfl hb1B hqT qh0 r0 e2 e3 e4
  have hqhB : (corrLoop b0 b1 a2 qh0 r0).1 < B := by omega
  have hqhle := knuth_qhat_le hvb hWdef hbl rfl hb0 hqhB hVpos c3
  obtain ⟨w2, m1, m2, m3, m4⟩ := mulSubAddBack_spec P (a.drop j) b _ a0 hwl hdw hb hqhB hVpos
    (by rw [hWg]; exact c1) (by rw [hWg]; exact hqhle)
  rw [hWg] at m1 m2
  -- the new window: pop its top digit
  have hw2len : w2.length = b.length := by rw [m3, hwl]
  rcases List.eq_nil_or_concat w2 with h0 | ⟨init, z, hz⟩
  · subst h0; simp at hw2len; omega
  simp only [List.concat_eq_append] at hz
  have hzB : z < B := m4 z (by rw [hz]; simp)
  have hinitD : DigitsOk init := by rw [hz] at m4; exact m4.left
  have hinitlen : init.length + 1 = b.length := by rw [← hw2len, hz]; simp
  have hvw2 : val w2 = val init + B ^ init.length * z := by rw [hz, val_append]; simp [val]
  refine ⟨W / val b, a.take j ++ init, z, ?_, hqB, ?_, (ha.take j).append hinitD, hzB, ?_⟩
  · have hl1 : ¬ (a.length ≠ b.length + j) := by omega
    have hl2 : ¬ (a.length < 2) := by omega
    simp only [coreStep, hl1, hl2, if_false, ta1, ta2, e1, m1]
    rw [hz]; simp
  · simp only [List.length_append, hlo]; omega
  · have hdm : W / val b * val b + W % val b = W := by
      rw [Nat.mul_comm]; exact Nat.div_add_mod _ _
    have hR := Nat.mod_lt W hVpos
    obtain ⟨k1, k2⟩ := step_arith hN hvlo hdm hR
    have hval' : val (a.take j ++ init) + z * B ^ (a.take j ++ init).length
        = val (a.take j) + B ^ j * (W % val b) := by
      rw [val_append, hlo, List.length_append, hlo, pow_add, ← m2, hvw2]; ring
    rw [hval']
    exact ⟨k1, k2⟩

/-- the whole main loop: `k` iterations turn the invariant `N < b·B^k` into the exact
    quotient digits and a final window `< b`; no internal error on the way -/
theorem coreLoop_spec (P : Params) (b : List Nat) (hb : DigitsOk b) (hn : 2 ≤ b.length)
    (hb0 : 1 ≤ b.getLast?.getD 0) : ∀ (k : Nat) (a : List Nat) (a0 : Nat), DigitsOk a →
    a.length + 1 = b.length + k → a0 < B → val a + a0 * B ^ a.length < val b * B ^ k →
    ∃ qs af a0f, coreLoop P b (b.getLast?.getD 0) (b.getD (b.length - 2) 0) k a a0 = .ok (qs, af, a0f) ∧
      val qs * val b + (val af + a0f * B ^ af.length) = val a + a0 * B ^ a.length ∧
      val af + a0f * B ^ af.length < val b ∧ qs.length = k ∧ DigitsOk qs ∧ DigitsOk af ∧ a0f < B ∧
      af.length + 1 = b.length := by
  intro k
  induction k with
  | zero =>
    intro a a0 ha hlen ha0 hinv
    refine ⟨[], a, a0, rfl, by simp [val], by simpa using hinv, rfl, DigitsOk.nil, ha, ha0, by omega⟩
  | succ j ih =>
    intro a a0 ha hlen _ hinv
    obtain ⟨q, a', a0', s1, s2, s3, s4, s5, s6, s7⟩ :=
      coreStep_spec P b hb hn hb0 j a a0 ha (by omega) hinv
    obtain ⟨qs, af, a0f, l1, l2, l3, l4, l5, l6, l7, l8⟩ := ih a' a0' s4 (by omega) s5 s7
    refine ⟨qs ++ [q], af, a0f, ?_, ?_, l3, by simp [l4], l5.append (DigitsOk.cons s2 DigitsOk.nil), l6, l7, l8⟩
    · simp only [coreLoop, s1, l1]
    · rw [val_append, l4]
      simp only [val, Nat.mul_zero, Nat.add_zero]
      rw [← s6, ← l2]; ring

theorem getLast_ne_zero_of_ge {b : List Nat} {t : Nat} (ht : 1 ≤ t) (h : t ≤ b.getLast?.getD 0) :
    b.getLast? ≠ some 0 := by
  intro h0; rw [h0] at h; simp at h; omega

/-- `div_rem_core` on pre-normalised operands: exact canonical quotient and remainder,
    none of its debug assertions / overflow sites is reachable -/
theorem divRemCore_spec (P : Params) (a b : List Nat) (ha : DigitsOk a) (hb : DigitsOk b)
    (hn : 2 ≤ b.length) (hlen : b.length ≤ a.length) (htop : B / 2 ≤ b.getLast?.getD 0) :
    divRemCore P a b = .ok (ofNat (val a / val b), ofNat (val a % val b)) := by
  have hhalf : 1 ≤ B / 2 := by decide
  have hb0 : 1 ≤ b.getLast?.getD 0 := by omega
  have hbC : Canon b := ⟨hb, getLast_ne_zero_of_ge hhalf htop⟩
  have hbne : b ≠ [] := by intro h; subst h; simp at hn
  have hb0B : b.getLast?.getD 0 < B := by
    cases hl : b.getLast? with
    | none => simp; exact B_pos
    | some x => simp; exact hb x (List.mem_of_getLast? hl)
  have hlz : leadingZeros (b.getLast?.getD 0) = 0 :=
    (leadingZeros_zero_iff (by omega) hb0B).mpr htop
  -- loop invariant at entry
  have hVge := canon_val_ge hbC hbne
  have hinv : val a + 0 * B ^ a.length < val b * B ^ (a.length - b.length + 1) := by
    have h1 := val_lt ha
    have h2 : B ^ a.length = B ^ (b.length - 1) * B ^ (a.length - b.length + 1) := by
      rw [← pow_add]; congr 1; omega
    have h3 : B ^ (b.length - 1) * B ^ (a.length - b.length + 1) ≤ val b * B ^ (a.length - b.length + 1) :=
      Nat.mul_le_mul_right _ hVge
    omega
  obtain ⟨qs, af, a0f, l1, l2, l3, _, l5, l6, l7, l8⟩ :=
    coreLoop_spec P b hb hn hb0 (a.length - b.length + 1) a 0 ha (by omega) B_pos hinv
  have hrD : DigitsOk (af ++ [a0f]) := l6.append (DigitsOk.cons l7 DigitsOk.nil)
  have hrv : val (af ++ [a0f]) = val af + a0f * B ^ af.length := by
    rw [val_append]; simp [val]; ring
  have hrC := normalize_canon hrD
  have hcmp : cmpSlice (normalize (af ++ [a0f])) b = .lt := by
    rw [cmpSlice_spec hrC hbC, normalize_val, hrv, Nat.compare_eq_lt]; exact l3
  have hpre : ¬ ¬ (a.length ≥ b.length ∧ b.length > 1) := by omega
  simp only [divRemCore, hpre, hlz, ne_eq, not_true_eq_false, if_false, l1, hcmp]
  simp only [Nat.zero_mul, Nat.add_zero] at l2
  obtain ⟨e1, e2⟩ := div_mod_of_eq l2 l3
  rw [canon_eq_ofNat (normalize_canon l5), normalize_val, canon_eq_ofNat hrC, normalize_val, hrv, e1, e2]

/-! ### `div_rem_ref`, `div_rem` -/

theorem top_bounds {l : List Nat} (h : DigitsOk l) (hne : l ≠ []) :
    (l.getLast?.getD 0) * B ^ (l.length - 1) ≤ val l ∧
    val l < (l.getLast?.getD 0 + 1) * B ^ (l.length - 1) := by
  rcases List.eq_nil_or_concat l with h0 | ⟨init, y, rfl⟩
  · exact absurd h0 hne
  · simp only [List.concat_eq_append] at *
    have hi := val_lt h.left
    rw [val_append]
    simp only [List.getLast?_append, List.getLast?_singleton, Option.some_or, Option.getD_some,
      List.length_append, List.length_cons, List.length_nil, Nat.zero_add, Nat.add_sub_cancel, val,
      Nat.mul_zero, Nat.add_zero]
    constructor
    · rw [Nat.mul_comm]; omega
    · have : (y + 1) * B ^ init.length = B ^ init.length * y + B ^ init.length := by ring
      omega

theorem getLast_lt_B {l : List Nat} (h : DigitsOk l) : l.getLast?.getD 0 < B := by
  cases hl : l.getLast? with
  | none => simp; exact B_pos
  | some x => simp; exact h x (List.mem_of_getLast? hl)

theorem canon_getLast_pos {l : List Nat} (h : Canon l) (hne : l ≠ []) : 1 ≤ l.getLast?.getD 0 := by
  cases hl : l.getLast? with
  | none => simp at hl; exact absurd hl hne
  | some x =>
    simp
    have : x ≠ 0 := by intro hx; subst hx; exact h.2 hl
    omega

/-- a canonical list whose value lies in `[t·B^(n-1), B^n)` has exactly `n` digits and top digit `≥ t` -/
theorem canon_of_bounds {l : List Nat} (h : Canon l) {n t : Nat} (hn : 1 ≤ n) (ht : 1 ≤ t)
    (hlo : t * B ^ (n - 1) ≤ val l) (hhi : val l < B ^ n) :
    l.length = n ∧ t ≤ l.getLast?.getD 0 := by
  have hB1 : 1 < B := by decide
  have hPpos : 0 < B ^ (n - 1) := Nat.pow_pos B_pos
  have hge : B ^ (n - 1) ≤ val l := by
    have : 1 * B ^ (n - 1) ≤ t * B ^ (n - 1) := Nat.mul_le_mul_right _ ht
    omega
  have hne : l ≠ [] := by intro h0; subst h0; simp [val] at hge; omega
  have h1 := canon_val_ge h hne
  have h2 := val_lt h.1
  have hlen : l.length = n := by
    have a1 : B ^ (l.length - 1) < B ^ n := by omega
    have a2 : B ^ (n - 1) < B ^ l.length := by omega
    rw [Nat.pow_lt_pow_iff_right hB1] at a1 a2
    omega
  refine ⟨hlen, ?_⟩
  obtain ⟨_, t2⟩ := top_bounds h.1 hne
  rw [hlen] at t2
  have : t * B ^ (n - 1) < (l.getLast?.getD 0 + 1) * B ^ (n - 1) := by omega
  have := Nat.lt_of_mul_lt_mul_right this
  omega

theorem length_ge_of_val_ge {l : List Nat} (h : DigitsOk l) {n : Nat} (hge : B ^ (n - 1) ≤ val l)
    (hn : 1 ≤ n) : n ≤ l.length := by
  have h2 := val_lt h
  have a2 : B ^ (n - 1) < B ^ l.length := by omega
  rw [Nat.pow_lt_pow_iff_right (by decide)] at a2
  omega

/-- normalise, divide with Knuth D, un-shift the remainder -/
theorem divRemKnuth_spec (P : Params) (u d : List Nat) (hu : Canon u) (hd : Canon d)
    (hn : 2 ≤ d.length) (hgt : val d < val u) :
    divRemKnuth P u d = .ok (ofNat (val u / val d), ofNat (val u % val d)) := by
  have hdne : d ≠ [] := by intro h; subst h; simp at hn
  have hdl1 := canon_getLast_pos hd hdne
  have hdlB := getLast_lt_B hd.1
  obtain ⟨z1, z2, z3⟩ := leadingZeros_spec (show d.getLast?.getD 0 ≠ 0 by omega) hdlB
  obtain ⟨tb1, tb2⟩ := top_bounds hd.1 hdne
  have hVge := canon_val_ge hd hdne
  unfold divRemKnuth
  by_cases hs : leadingZeros (d.getLast?.getD 0) = 0
  · simp only [hs, if_true]
    have htop := (leadingZeros_zero_iff (show d.getLast?.getD 0 ≠ 0 by omega) hdlB).mp hs
    have hlen : d.length ≤ u.length := length_ge_of_val_ge hu.1 (by omega) (by omega)
    exact divRemCore_spec P u d hu.1 hd.1 hn hlen htop
  · simp only [hs, if_false]
    generalize leadingZeros (d.getLast?.getD 0) = s at *
    have hS : 0 < 2 ^ s := Nat.pow_pos (by decide)
    rw [shlBig_spec u s hu.1 z1, shlBig_spec d s hd.1 z1]
    have hdC := ofNat_canon (val d * 2 ^ s)
    have huC := ofNat_canon (val u * 2 ^ s)
    -- the shifted divisor keeps its length and gets a top digit ≥ B/2
    have hlo : (B / 2) * B ^ (d.length - 1) ≤ val (ofNat (val d * 2 ^ s)) := by
      rw [ofNat_val]
      calc (B / 2) * B ^ (d.length - 1) ≤ (d.getLast?.getD 0 * 2 ^ s) * B ^ (d.length - 1) :=
            Nat.mul_le_mul_right _ z2
        _ = (d.getLast?.getD 0 * B ^ (d.length - 1)) * 2 ^ s := by ring
        _ ≤ val d * 2 ^ s := Nat.mul_le_mul_right _ tb1
    have hhi : val (ofNat (val d * 2 ^ s)) < B ^ d.length := by
      rw [ofNat_val]
      have hK : (d.getLast?.getD 0 + 1) * 2 ^ s ≤ B := by
        have hB := B_split (show s ≤ 64 by simp [DIVBITS] at z1; omega)
        rw [hB] at z3 ⊢
        have := Nat.lt_of_mul_lt_mul_right z3
        exact Nat.mul_le_mul_right _ this
      calc val d * 2 ^ s < ((d.getLast?.getD 0 + 1) * B ^ (d.length - 1)) * 2 ^ s :=
            Nat.mul_lt_mul_of_pos_right tb2 hS
        _ = ((d.getLast?.getD 0 + 1) * 2 ^ s) * B ^ (d.length - 1) := by ring
        _ ≤ B * B ^ (d.length - 1) := Nat.mul_le_mul_right _ hK
        _ = B ^ d.length := by rw [← pow_succ']; congr 1; omega
    obtain ⟨k1, k2⟩ := canon_of_bounds hdC (n := d.length) (by omega) (by decide) hlo hhi
    have hulen : (ofNat (val d * 2 ^ s)).length ≤ (ofNat (val u * 2 ^ s)).length := by
      rw [k1]
      refine length_ge_of_val_ge huC.1 ?_ (by omega)
      rw [ofNat_val]
      have : val d * 2 ^ s ≤ val u * 2 ^ s := Nat.mul_le_mul_right _ (by omega)
      have : B ^ (d.length - 1) * 1 ≤ val d * 2 ^ s := Nat.mul_le_mul hVge hS
      omega
    rw [divRemCore_spec P _ _ huC.1 hdC.1 (by omega) hulen k2]
    simp only [ofNat_val]
    rw [shrBig_spec _ s (ofNat_digitsOk _) z1, ofNat_val, Nat.mul_div_mul_right _ _ hS,
      Nat.mul_mod_mul_right, Nat.mul_div_cancel _ hS]

theorem ofNat_one : ofNat 1 = [1] := ofNat_digit (by decide) (by decide)

theorem ofNat_eq_nil {n : Nat} : ofNat n = [] ↔ n = 0 := by
  constructor
  · intro h; have := congrArg val h; rwa [ofNat_val] at this
  · intro h; subst h; exact ofNat_zero

theorem canon_singleton {x : Nat} (h : Canon [x]) : x ≠ 0 ∧ x < B :=
  ⟨fun h0 => h.2 (by simp [h0]), h.1 x (by simp)⟩

/-- all pre-checks of `div_rem_ref` / `div_rem` up to the Knuth branch -/
theorem divRem_common (P : Params) (u d : List Nat) (hu : Canon u) (hd : Canon d) (hd0 : d ≠ [])
    (f : Nat → List Nat) (hf : ∀ r, r < B → f r = ofNat r) :
    (if u = [] then (.ok ([], []) : Except Panic (List Nat × List Nat))
     else if d.length = 1 then
       if d = [1] then .ok (u, [])
       else match divRemDigit u (d.headD 0) with
         | .error e => .error e
         | .ok (q, r) => .ok (q, f r)
     else match cmpSlice u d with
       | .lt => .ok ([], u)
       | .eq => .ok ([1], [])
       | .gt => divRemKnuth P u d) = .ok (ofNat (val u / val d), ofNat (val u % val d)) := by
  have hdpos := canon_val_pos hd hd0
  by_cases hu0 : u = []
  · subst hu0; simp [val, ofNat_zero]
  · simp only [hu0, if_false]
    by_cases hl1 : d.length = 1
    · simp only [hl1, if_true]
      obtain ⟨x, rfl⟩ : ∃ x, d = [x] := by
        match d, hl1 with
        | [x], _ => exact ⟨x, rfl⟩
      obtain ⟨hx0, hxB⟩ := canon_singleton hd
      have hvx : val [x] = x := by simp [val]
      by_cases h1 : x = 1
      · subst h1
        simp only [if_true, hvx, Nat.div_one, Nat.mod_one, ofNat_zero]
        rw [← canon_eq_ofNat hu]
      · have : ¬ ([x] = [1]) := by simpa using h1
        simp only [this, if_false, List.headD_cons, divRemDigit_spec' u x hu.1 hx0, hvx]
        rw [hf _ (Nat.lt_trans (Nat.mod_lt _ (Nat.pos_of_ne_zero hx0)) hxB)]
    · simp only [hl1, if_false]
      have hn : 2 ≤ d.length := by
        have : d.length ≠ 0 := by intro h; exact hd0 (List.length_eq_zero_iff.mp h)
        omega
      rw [cmpSlice_spec hu hd]
      rcases Nat.lt_trichotomy (val u) (val d) with h | h | h
      · rw [Nat.compare_eq_lt.mpr h]
        simp only [Nat.div_eq_of_lt h, Nat.mod_eq_of_lt h, ofNat_zero]
        rw [← canon_eq_ofNat hu]
      · rw [Nat.compare_eq_eq.mpr h]
        simp only [h, Nat.div_self hdpos, Nat.mod_self, ofNat_zero, ofNat_one]
      · rw [Nat.compare_eq_gt.mpr h]
        exact divRemKnuth_spec P u d hu hd hn h

/-- `div_rem_ref`: `attempt to divide by zero` exactly for `d = 0`, otherwise the canonical
    quotient and remainder; no internal error -/
theorem divRemRef_spec' (P : Params) (u d : List Nat) (hu : Canon u) (hd : Canon d) :
    divRemRef P u d = if d = [] then .error .divzero
      else .ok (ofNat (val u / val d), ofNat (val u % val d)) := by
  unfold divRemRef
  by_cases hd0 : d = []
  · simp [hd0]
  · simp only [hd0, if_false]
    exact divRem_common P u d hu hd hd0 fromDigit (fun r hr => fromDigit_eq hr)

/-- `BigUint += digit` -/
theorem addDigit_spec (P : Params) (a : List Nat) (c : Nat) (ha : Canon a) (hc : c < B) :
    addDigit P a c = ofNat (val a + c) := by
  unfold addDigit
  by_cases hc0 : c = 0
  · simp [hc0]; exact canon_eq_ofNat ha
  · simp only [hc0, ne_eq, not_false_eq_true, if_true]
    have hcD : DigitsOk [c] := DigitsOk.cons hc DigitsOk.nil
    have hvc : val [c] = c := by simp [val]
    -- a' = [0] for the empty vector
    have key : ∀ a' : List Nat, DigitsOk a' → 1 ≤ a'.length → (B ^ (a'.length - 1) ≤ val a' + c) →
        (if (add2c P a' [c]).2 ≠ 0 then (add2c P a' [c]).1 ++ [(add2c P a' [c]).2] else (add2c P a' [c]).1)
          = ofNat (val a' + c) := by
      intro a' hD hlen hge
      obtain ⟨l1, l2, l3, l4⟩ := add2c_spec P a' [c] (by simpa using hlen) hD hcD
      rw [hvc] at l1
      generalize add2c P a' [c] = r at *
      by_cases h0 : r.2 = 0
      · simp only [h0, ne_eq, not_true_eq_false, if_false]
        rw [h0] at l1
        have hC : Canon r.1 := canon_of_val_ge l3 (by intro _; rw [l2]; omega)
        rw [canon_eq_ofNat hC]; congr 1
      · have h1 : r.2 = 1 := by omega
        simp only [h0, ne_eq, not_false_eq_true, if_true]
        have hC : Canon (r.1 ++ [r.2]) := canon_append_singleton l3 (by rw [h1]; decide) h0
        rw [canon_eq_ofNat hC, val_append, l2]
        simp only [val, Nat.mul_zero, Nat.add_zero]
        congr 1
    by_cases ha0 : a = []
    · subst ha0
      simp only [if_true]
      have := key [0] (DigitsOk.cons B_pos DigitsOk.nil) (by simp) (by simp [val]; omega)
      simpa [val] using this
    · simp only [ha0, if_false]
      exact key a ha.1 (by
        have : a.length ≠ 0 := fun h => ha0 (List.length_eq_zero_iff.mp h)
        omega) (by have := canon_val_ge ha ha0; omega)

/-- `div_rem` by value (buffer-reusing variant): same outcome as `div_rem_ref` -/
theorem divRemVal_spec' (P : Params) (u d : List Nat) (hu : Canon u) (hd : Canon d) :
    divRemVal P u d = if d = [] then .error .divzero
      else .ok (ofNat (val u / val d), ofNat (val u % val d)) := by
  unfold divRemVal
  by_cases hd0 : d = []
  · simp [hd0]
  · simp only [hd0, if_false]
    refine divRem_common P u d hu hd hd0 (addDigit P []) (fun r hr => ?_)
    rw [addDigit_spec P [] r canon_nil hr]; simp [val]

end NB
