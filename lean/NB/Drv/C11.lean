/- driver handlers for stream C11 (integer roots).
   Model column: the std configuration (`stdSrc floatF64`, float guesses from Lean's native Float); the
   no_std configuration (`nostdSrc`) is evaluated too and any difference is appended as `!nostd=…`
   (NB.Props.C11.root_config_independent says there is none).  Oracle column: bisection floor root. -/
import NB.Wire
import NB.Model.Roots
namespace NB.Drv.C11
open NB NB.Wire NB.Roots NB.IntVal

def su (r : Except Panic Nat) : String := showExcept showLimbs (r.map ofNat)
def si (r : Except Panic Int) : String := showExcept showBigInt (r.map BigInt.ofInt)

def stdS : GuessSrc := stdSrc floatF64 stdDepth

def both (f : GuessSrc → String) : String :=
  let a := f stdS
  let b := f nostdSrc
  if a == b then a else a ++ " !nostd=" ++ b

def oRootU (x n : Nat) : Except Panic Nat :=
  if n = 0 then .error .zeroroot else .ok (floorRoot x n)

def oRootI (x : Int) (n : Nat) : Except Panic Int :=
  if x < 0 ∧ n % 2 = 0 then .error .imaginary
  else if n = 0 then .error .zeroroot
  else if x < 0 then .ok (- (floorRoot x.natAbs n : Int)) else .ok (floorRoot x.natAbs n : Int)

def handle (op : String) (args : List String) : Option (String × String) :=
  match op, args with
  | "u.sqrt", [a] => do
    let a ← parseLimbs a
    pure (both (fun S => su (sqrtG S (val a))), su (oRootU (val a) 2))
  | "u.cbrt", [a] => do
    let a ← parseLimbs a
    pure (both (fun S => su (cbrtG S (val a))), su (oRootU (val a) 3))
  | "u.nth_root", [a, n] => do
    let a ← parseLimbs a; let n ← parseNat n
    pure (both (fun S => su (nthRootG S (val a) n)), su (oRootU (val a) n))
  | "i.sqrt", [a] => do
    let a ← parseBigInt a
    pure (both (fun S => si (bigintSqrt S a.val)), si (oRootI a.val 2))
  | "i.cbrt", [a] => do
    let a ← parseBigInt a
    pure (both (fun S => si (bigintCbrt S a.val)), si (oRootI a.val 3))
  | "i.nth_root", [a, n] => do
    let a ← parseBigInt a; let n ← parseNat n
    pure (both (fun S => si (bigintNthRoot S a.val n)), si (oRootI a.val n))
  | _, _ => none

end NB.Drv.C11
