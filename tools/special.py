"""Property-specific extra steps called by tools/check.py (cfg["special"])."""
import os, subprocess, time

def _valgrind(binp, lines, timeout=1500):
    p = subprocess.run(["valgrind", "--quiet", "--error-exitcode=97", "--leak-check=no", binp],
                       input="\n".join(lines) + "\n", stdout=subprocess.PIPE, stderr=subprocess.PIPE, text=True, timeout=timeout)
    return p.returncode, p.stderr

def c15_special(ctx):
    """replay the C15 requests under valgrind memcheck: any invalid read/write is a violation"""
    out = {"coverage": {}, "violations": [], "errors": [], "notes": []}
    binp = ctx["bins"].get("release")
    lines = ctx["lines"]
    if not binp or not lines:
        out["errors"].append("C15: no harness binary or no requests for the memcheck run")
        return out
    t0 = time.time()
    rc, err = _valgrind(binp, lines)
    out["coverage"]["memcheck_requests"] = len(lines)
    out["coverage"]["memcheck_rc"] = rc
    if rc == 97 or rc < 0:
        # bisect to a single request
        cur = lines
        while len(cur) > 1:
            half = cur[: len(cur) // 2]
            r1, e1 = _valgrind(binp, half)
            if r1 == 97 or r1 < 0:
                cur, err = half, e1
            else:
                rest = cur[len(cur) // 2:]
                r2, e2 = _valgrind(binp, rest)
                if r2 == 97 or r2 < 0:
                    cur, err = rest, e2
                else:
                    break  # only fails in combination: keep the current set
        req = cur[0] if len(cur) == 1 else None
        path = ctx["write_replay"](ctx["pid"], {"property": ctx["pid"], "kind": "memcheck", "request": req,
                                                "requests": None if req else cur[:50],
                                                "valgrind": err[-1500:],
                                                "explanation": "valgrind memcheck reports an invalid memory access while the real crate executes this request"})
        out["violations"].append((path, ""))
    elif rc != 0:
        out["errors"].append("valgrind run failed rc=%s: %s" % (rc, err[-300:]))
    out["coverage"]["memcheck_s"] = round(time.time() - t0, 1)
    return out
