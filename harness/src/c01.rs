//! stream C01: addition and subtraction
use crate::wire::*;
use num_bigint::{BigInt, BigUint};
use num_traits::{CheckedAdd, CheckedSub};

pub fn handle(op: &str, a: &[&str]) -> Option<String> {
    Some(match (op, a) {
        ("u.add", [x, y]) => ok_u(&(&parse_u(x)? + &parse_u(y)?)),
        ("u.add_assign", [x, y]) => {
            let mut v = parse_u(x)?;
            v += &parse_u(y)?;
            ok_u(&v)
        }
        ("u.checked_add", [x, y]) => opt_u(&parse_u(x)?.checked_add(&parse_u(y)?)),
        ("u.sub", [x, y]) => ok_u(&(&parse_u(x)? - &parse_u(y)?)),
        ("u.sub_assign", [x, y]) => {
            let mut v = parse_u(x)?;
            v -= &parse_u(y)?;
            ok_u(&v)
        }
        ("u.sub_refval", [x, y]) => ok_u(&(&parse_u(x)? - parse_u(y)?)),
        ("u.checked_sub", [x, y]) => opt_u(&parse_u(x)?.checked_sub(&parse_u(y)?)),
        ("u.sub_from_u32", [s, y]) => ok_u(&(s.parse::<u32>().ok()? - parse_u(y)?)),
        ("u.sub_from_u64", [s, y]) => {
            let sc = s.parse::<u64>().ok()?;
            let by_val = std::panic::catch_unwind(|| sc - parse_u(y).unwrap());
            let by_ref = std::panic::catch_unwind(|| sc - &parse_u(y).unwrap());
            match (by_val, by_ref) {
                (Ok(a), Ok(b)) if a == b => ok_u(&a),
                (Err(e), Err(_)) => std::panic::resume_unwind(e),
                _ => "panic internal:scalar-left-forms-disagree".to_string(),
            }
        }
        ("u.sub_from_u128", [s, y]) => ok_u(&(s.parse::<u128>().ok()? - parse_u(y)?)),
        ("u.add_u64", [x, s]) => {
            let sc = s.parse::<u64>().ok()?;
            let a = parse_u(x)?;
            let mut b = a.clone();
            b += sc;
            let c = &a + sc;
            if b != c || (sc <= u32::MAX as u64 && &a + (sc as u32) != c) {
                return Some("panic internal:scalar-forms-disagree".to_string());
            }
            ok_u(&b)
        }
        ("u.add_u128", [x, s]) => {
            let sc = s.parse::<u128>().ok()?;
            let a = parse_u(x)?;
            let mut b = a.clone();
            b += sc;
            if b != &a + sc {
                return Some("panic internal:scalar-forms-disagree".to_string());
            }
            ok_u(&b)
        }
        ("u.sub_u64", [x, s]) => {
            let sc = s.parse::<u64>().ok()?;
            let a = parse_u(x)?;
            let by_op = std::panic::catch_unwind(|| &a - sc);
            let by_assign = std::panic::catch_unwind(|| {
                let mut b = a.clone();
                b -= sc;
                b
            });
            match (by_op, by_assign) {
                (Ok(p), Ok(q)) if p == q => ok_u(&p),
                (Err(e), Err(_)) => std::panic::resume_unwind(e),
                _ => "panic internal:scalar-forms-disagree".to_string(),
            }
        }
        ("u.sub_u128", [x, s]) => {
            let sc = s.parse::<u128>().ok()?;
            let a = parse_u(x)?;
            let by_op = std::panic::catch_unwind(|| &a - sc);
            let by_assign = std::panic::catch_unwind(|| {
                let mut b = a.clone();
                b -= sc;
                b
            });
            match (by_op, by_assign) {
                (Ok(p), Ok(q)) if p == q => ok_u(&p),
                (Err(e), Err(_)) => std::panic::resume_unwind(e),
                _ => "panic internal:scalar-forms-disagree".to_string(),
            }
        }
        ("i.add", [x, y]) => ok_i(&(&parse_i(x)? + &parse_i(y)?)),
        ("i.add_assign", [x, y]) => {
            let mut v = parse_i(x)?;
            v += &parse_i(y)?;
            ok_i(&v)
        }
        ("i.sub", [x, y]) => ok_i(&(&parse_i(x)? - &parse_i(y)?)),
        ("i.sub_assign", [x, y]) => {
            let mut v = parse_i(x)?;
            v -= &parse_i(y)?;
            ok_i(&v)
        }
        ("i.checked_add", [x, y]) => opt_i(&parse_i(x)?.checked_add(&parse_i(y)?)),
        ("i.checked_sub", [x, y]) => opt_i(&parse_i(x)?.checked_sub(&parse_i(y)?)),
        #[cfg(num_bigint_verif)]
        ("raw.add2", [x, y]) => {
            let mut a = parse_limbs(x)?;
            let b = parse_limbs(y)?;
            if a.len() < b.len() {
                return None;
            }
            let c = num_bigint::verif::add2c(&mut a, &b);
            format!("{} {}", show_limbs(&a), c)
        }
        _ => return None,
    })
}

#[allow(dead_code)]
fn _types(_: BigInt, _: BigUint) {}
