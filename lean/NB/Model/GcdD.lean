/-
  NB.Model.GcdD — DIGIT-LEVEL model of the gcd family of `impl Integer for BigUint` (src/biguint.rs),
  `impl Integer for BigInt` (src/bigint.rs) and num-integer 0.1.47's default `Integer::extended_gcd`
  (the loop BigInt inherits), on digit vectors (`List Nat`) / `NB.BigInt` records.

  It has the control flow of NB.Model.Gcd (the value-level model, which stays as the intermediate
  layer of the refinement) but every BigUint/BigInt *operator* of the Rust text is the digit-level
  model of that operator, and every panic of an operator is propagated:

    `x.trailing_zeros()`            NB.C07.trailingZerosU        (src/biguint.rs)
    `m >>= k`, `n >>= k` (u64)      NB.C07.biguintShr            (`ShrAssign<u64>`: `biguint_shr`)
    `n << shift` (u64)              NB.C07.biguintShl            (`Shl<u64>`: `biguint_shl`)
    `n > m`                         NB.cmpSlice                  (`Ord::cmp` = `cmp_slice`)
    `m -= &n`                       NB.subAssign
    `&a / g`, `&a / &g`             NB.divRef                    (`&a / g` forwards to ref/ref)
    `q * &b`                        NB.Mul.mulRef                (`impl_mul!`: one body for the four forms)
    `&a % &b`                       NB.remRef                    (with its `to_u32` fast path)
    `a.mod_floor(&b)`               NB.modFloor                  (`div_rem_ref(..).1`)
    `&b - m` (m by value)           NB.subRefVal
    `&a + d` (d by value)           NB.addAssign d a             (`forward_ref_val_binop_commutative`: `d += a`)
    `*self += 1u32`, `*self -= 1u32` NB.C07.addAssignU32 / subAssignU32
    `BigInt::from(BigUint)`         NB.BigInt.fromBU
    BigInt `/ * - +`                NB.BigInt.div, NB.Mul.bigintMul, NB.BigInt.sub, NB.BigInt.add
    `r.1 >= zero`                   NB.Core.BigInt.cmp
    BigInt `mod_floor`              NB.BigInt.modFloor           (NB.Model.Div)
    BigInt `+= 1u32`, `-= 1u32`     NB.BigInt.addU / subU

  `extended_gcd` is generic code instantiated at BigInt with *by-value* operands
  (`r.1.clone() / r.0.clone()`, `q.clone() * r.1.clone()`, `r.0 - …`); the by-value forms of the BigInt
  operators differ from the ref/ref forms modelled here only in which buffer is reused
  (capacity-driven, not modelled; C10 ties the forms together).

  Loops take the same fuel as the value-level model (`steinFuel`, `egcdFuel` evaluated on the
  values of the digit vectors); NB.Lemmas.GcdD proves the refinement
  `digit-level (digits) = (value-level (values)).map ofNat/ofInt` for canonical inputs.
-/
import NB.Base
import NB.Model.AddSub
import NB.Model.Mul
import NB.Model.Div
import NB.Model.Bits
import NB.Model.Shift
import NB.Model.Core
import NB.Model.Gcd
namespace NB.GcdD

/-! ### BigUint -/

/-- `fn twos(x: &BigUint) -> u64 { x.trailing_zeros().unwrap_or(0) }` -/
def twos (x : List Nat) : Nat := (NB.C07.trailingZerosU x).getD 0

/-- one pass of the body of `while !m.is_zero() { m >>= twos(&m); if n > m { swap(&mut n, &mut m) } m -= &n; }`;
    returns the new `(m, n)` -/
def steinStep (P : Params) (m n : List Nat) : Except Panic (List Nat × List Nat) :=
  -- `m >>= twos(&m)`
  match NB.C07.biguintShr m (twos m : Nat) with
  | .error e => .error e
  | .ok m1 =>
    -- `if n > m { mem::swap(&mut n, &mut m) }`
    let sw : Bool := cmpSlice n m1 == .gt
    let n2 := if sw then m1 else n
    let m2 := if sw then n else m1
    -- `m -= &n`
    match subAssign P m2 n2 with
    | .error e => .error e
    | .ok m3 => .ok (m3, n2)

/-- the `while !m.is_zero()` loop of `BigUint::gcd`; returns `n` -/
def steinLoop (P : Params) : Nat → List Nat → List Nat → Except Panic (List Nat)
  | 0, _, _ => .error (.internal "fuel")
  | fuel + 1, m, n =>
    if m = [] then .ok n else
    match steinStep P m n with
    | .error e => .error e
    | .ok (m', n') => steinLoop P fuel m' n'

/-- fuel: the value-level bound `m + n + 1` (NB.Gcd.steinFuel) on the values of the vectors -/
def steinFuel (m n : List Nat) : Nat := NB.Gcd.steinFuel (val m) (val n)

/-- `BigUint::gcd` (Stein's algorithm) -/
def gcd (P : Params) (a b : List Nat) : Except Panic (List Nat) :=
  if a = [] then .ok b else
  if b = [] then .ok a else
  let m := a
  let n := b
  -- find common factors of 2
  let shift := min (twos n) (twos m)
  -- divide m and n by 2 until odd; m inside loop: `n >>= twos(&n)`
  match NB.C07.biguintShr n (twos n : Nat) with
  | .error e => .error e
  | .ok n =>
    match steinLoop P (steinFuel m n) m n with
    | .error e => .error e
    | .ok n => NB.C07.biguintShl n (shift : Nat)   -- `n << shift`

/-- `self / g * other` (`g` by value or by reference: both divisions forward to `div_rem_ref`) -/
def divMul (P : Params) (a g b : List Nat) : Except Panic (List Nat) :=
  match divRef P a g with
  | .error e => .error e
  | .ok q => NB.Mul.mulRef P q b

/-- `BigUint::lcm` -/
def lcm (P : Params) (a b : List Nat) : Except Panic (List Nat) :=
  if a = [] ∧ b = [] then .ok [] else
  match gcd P a b with
  | .error e => .error e
  | .ok g => divMul P a g b

/-- `BigUint::gcd_lcm` -/
def gcdLcm (P : Params) (a b : List Nat) : Except Panic (List Nat × List Nat) :=
  match gcd P a b with
  | .error e => .error e
  | .ok g =>
    if g = [] then .ok (g, []) else
    match divMul P a g b with
    | .error e => .error e
    | .ok l => .ok (g, l)

/-- `BigUint::is_multiple_of` -/
def isMultipleOf (P : Params) (a b : List Nat) : Except Panic Bool :=
  if b = [] then .ok (decide (a = [])) else
  match remRef P a b with
  | .error e => .error e
  | .ok r => .ok (decide (r = []))

/-- `BigUint::next_multiple_of` -/
def nextMultipleOf (P : Params) (a b : List Nat) : Except Panic (List Nat) :=
  match modFloor P a b with
  | .error e => .error e
  | .ok m =>
    if m = [] then .ok a else
    -- `self + (other - m)`
    match subRefVal P b m with
    | .error e => .error e
    | .ok d => .ok (addAssign P d a)

/-- `BigUint::prev_multiple_of`: `self - self.mod_floor(other)` -/
def prevMultipleOf (P : Params) (a b : List Nat) : Except Panic (List Nat) :=
  match modFloor P a b with
  | .error e => .error e
  | .ok m => subRefVal P a m

/-- `BigUint::inc`: `*self += 1u32` -/
def inc (P : Params) (a : List Nat) : Except Panic (List Nat) := .ok (NB.C07.addAssignU32 P a 1)

/-- `BigUint::dec`: `*self -= 1u32` -/
def dec (P : Params) (a : List Nat) : Except Panic (List Nat) := NB.C07.subAssignU32 P a 1

/-! ### BigInt -/

def bigintGcd (P : Params) (a b : BigInt) : Except Panic BigInt :=
  (gcd P a.mag b.mag).map BigInt.fromBU

def bigintLcm (P : Params) (a b : BigInt) : Except Panic BigInt :=
  (lcm P a.mag b.mag).map BigInt.fromBU

def bigintGcdLcm (P : Params) (a b : BigInt) : Except Panic (BigInt × BigInt) :=
  (gcdLcm P a.mag b.mag).map (fun p => (BigInt.fromBU p.1, BigInt.fromBU p.2))

/-- the closure `f = |mut r| { swap(&mut r.0, &mut r.1); r.0 = r.0 - q.clone() * r.1.clone(); r }`
    applied to the pair `(x0, x1)` -/
def egcdF (P : Params) (q x0 x1 : BigInt) : Except Panic (BigInt × BigInt) :=
  match NB.Mul.bigintMul P q x0 with
  | .error e => .error e
  | .ok p =>
    match BigInt.sub P x1 p with
    | .error e => .error e
    | .ok d => .ok (d, x0)

/-- num-integer `extended_gcd` loop on BigInt records.
    `while !r.0.is_zero() { let q = r.1.clone() / r.0.clone(); r = f(r); s = f(s); t = f(t); }` -/
def egcdLoop (P : Params) : Nat → BigInt → BigInt → BigInt → BigInt → BigInt → BigInt →
    Except Panic (BigInt × BigInt × BigInt)
  | 0, _, _, _, _, _, _ => .error (.internal "fuel")
  | fuel + 1, s0, s1, t0, t1, r0, r1 =>
    if r0.sign = .nosign then .ok (r1, s1, t1) else
    match BigInt.div P r1 r0 with
    | .error e => .error e
    | .ok q =>
      match egcdF P q r0 r1 with
      | .error e => .error e
      | .ok (r0', r1') =>
        match egcdF P q s0 s1 with
        | .error e => .error e
        | .ok (s0', s1') =>
          match egcdF P q t0 t1 with
          | .error e => .error e
          | .ok (t0', t1') => egcdLoop P fuel s0' s1' t0' t1' r0' r1'

def bzero : BigInt := ⟨.nosign, []⟩
def bone : BigInt := ⟨.plus, [1]⟩

/-- fuel: the value-level bound `|b| + 1` (NB.Gcd.egcdFuel) -/
def egcdFuel (b : BigInt) : Nat := val b.mag + 1

/-- num-integer 0.1.47 `Integer::extended_gcd` (default method) on BigInt; returns `(gcd, x, y)` -/
def extendedGcd (P : Params) (a b : BigInt) : Except Panic (BigInt × BigInt × BigInt) :=
  -- s = (0, 1); t = (1, 0); r = (other, self)
  match egcdLoop P (egcdFuel b) bzero bone bone bzero b a with
  | .error e => .error e
  | .ok (r1, s1, t1) =>
    -- `if r.1 >= Self::zero()`
    if NB.Core.BigInt.cmp r1 bzero ≠ .lt then .ok (r1, s1, t1)
    else
      match BigInt.sub P bzero r1 with
      | .error e => .error e
      | .ok g =>
        match BigInt.sub P bzero s1 with
        | .error e => .error e
        | .ok x =>
          match BigInt.sub P bzero t1 with
          | .error e => .error e
          | .ok y => .ok (g, x, y)

/-- `BigInt::extended_gcd_lcm` -/
def extendedGcdLcm (P : Params) (a b : BigInt) : Except Panic ((BigInt × BigInt × BigInt) × BigInt) :=
  match extendedGcd P a b with
  | .error e => .error e
  | .ok (g, x, y) =>
    if g.sign = .nosign then .ok ((g, x, y), bzero) else
    -- `BigInt::from(&self.data / &egcd.gcd.data * &other.data)`
    match divMul P a.mag g.mag b.mag with
    | .error e => .error e
    | .ok l => .ok ((g, x, y), BigInt.fromBU l)

/-- `BigInt::is_multiple_of`: `self.data.is_multiple_of(&other.data)` -/
def bigintIsMultipleOf (P : Params) (a b : BigInt) : Except Panic Bool := isMultipleOf P a.mag b.mag

/-- `BigInt::next_multiple_of`: `let m = self.mod_floor(other); if m.is_zero() { self.clone() } else { self + (other - m) }` -/
def bigintNextMultipleOf (P : Params) (a b : BigInt) : Except Panic BigInt :=
  match BigInt.modFloor P a b with
  | .error e => .error e
  | .ok m =>
    if m.sign = .nosign then .ok a else
    match BigInt.sub P b m with
    | .error e => .error e
    | .ok d => BigInt.add P a d

/-- `BigInt::prev_multiple_of`: `self - self.mod_floor(other)` -/
def bigintPrevMultipleOf (P : Params) (a b : BigInt) : Except Panic BigInt :=
  match BigInt.modFloor P a b with
  | .error e => .error e
  | .ok m => BigInt.sub P a m

/-- `BigInt::inc`: `*self += 1u32` -/
def bigintInc (P : Params) (a : BigInt) : Except Panic BigInt := BigInt.addU P a 1

/-- `BigInt::dec`: `*self -= 1u32` -/
def bigintDec (P : Params) (a : BigInt) : Except Panic BigInt := BigInt.subU P a 1

end NB.GcdD
