//! stream C20: work count of the multiply-accumulate row routine around one product
use crate::wire::*;
use num_bigint::BigUint;

/// digit `i` of operand `k` for pattern id `p` (identical to `NB.Cost.denseDigit`)
#[allow(dead_code)]
fn dense_digit(p: u64, k: u64, i: u64) -> u64 {
    (i.wrapping_add(1))
        .wrapping_mul(0x9E37_79B9_7F4A_7C15)
        .wrapping_add(p)
        .wrapping_add(k.wrapping_mul(0xD1B5_4A32_D192_ED03))
        | 1
}

#[allow(dead_code)]
fn dense(p: u64, k: u64, n: usize) -> BigUint {
    let mut w = Vec::with_capacity(2 * n);
    for i in 0..n {
        let d = dense_digit(p, k, i as u64);
        w.push(d as u32);
        w.push((d >> 32) as u32);
    }
    BigUint::new(w)
}

#[allow(dead_code)]
fn measure(a: &BigUint, b: &BigUint) -> String {
    #[cfg(num_bigint_verif)]
    {
        num_bigint::verif::reset();
        let prod = a * b;
        let w = num_bigint::verif::work_count();
        std::hint::black_box(&prod);
        return format!("ok {}", w);
    }
    #[cfg(not(num_bigint_verif))]
    {
        let _ = (a, b);
        "unsupported".to_string()
    }
}

/// the same product through every call shape that reaches `mul3` (a cost that depends on HOW the operands are passed —
/// aliased references, owned values, assignment, squaring inside `pow` — is invisible to `&a * &b` on fresh buffers)
#[allow(dead_code)]
fn measure_form(form: &str, a: &BigUint, b: &BigUint) -> Option<String> {
    #[cfg(num_bigint_verif)]
    {
        use num_bigint::BigInt;
        use num_traits::{CheckedMul, Pow};
        let (a2, b2) = (a.clone(), b.clone());
        let (ia, ib) = (BigInt::from(a.clone()), -BigInt::from(b.clone()));
        num_bigint::verif::reset();
        match form {
            "rr" => { std::hint::black_box(a * b); }
            "vv" => { std::hint::black_box(a2 * b2); }
            "vr" => { std::hint::black_box(a2 * b); }
            "rv" => { std::hint::black_box(a * b2); }
            "assign" => { let mut x = a2; x *= b; std::hint::black_box(x); }
            "assignv" => { let mut x = a2; x *= b2; std::hint::black_box(x); }
            "checked" => { std::hint::black_box(a.checked_mul(b)); }
            "irr" => { std::hint::black_box(&ia * &ib); }
            "ivv" => { std::hint::black_box(ia * ib); }
            "iassign" => { let mut x = ia; x *= &ib; std::hint::black_box(x); }
            // the forms below use `a` only (the request repeats it as `b`)
            "alias" => { std::hint::black_box(a * a); }
            "ialias" => { std::hint::black_box(&ia * &ia); }
            "pow2" => { std::hint::black_box(Pow::pow(a, 2u32)); }
            "pow2v" => { std::hint::black_box(Pow::pow(a2, 2u8)); }
            "ipow2" => { std::hint::black_box(Pow::pow(&ia, 2u64)); }
            _ => return None,
        }
        let w = num_bigint::verif::work_count();
        return Some(format!("ok {}", w));
    }
    #[cfg(not(num_bigint_verif))]
    {
        let _ = (form, a, b);
        Some("unsupported".to_string())
    }
}

pub fn handle(op: &str, a: &[&str]) -> Option<String> {
    Some(match (op, a) {
        #[cfg(num_bigint_verif)]
        ("work", [n, m, p]) => {
            let n: usize = n.parse().ok()?;
            let m: usize = m.parse().ok()?;
            let p: u64 = p.parse().ok()?;
            measure(&dense(p, 0, n), &dense(p, 1, m))
        }
        #[cfg(num_bigint_verif)]
        ("workv", [x, y]) => measure(&parse_u(x)?, &parse_u(y)?),
        #[cfg(num_bigint_verif)]
        ("workf", [f, x, y]) => measure_form(f, &parse_u(x)?, &parse_u(y)?)?,
        // squaring of the fixed dense operand through aliased references
        #[cfg(num_bigint_verif)]
        ("worksq", [f, n, p]) => {
            let n: usize = n.parse().ok()?;
            let p: u64 = p.parse().ok()?;
            let d = dense(p, 0, n);
            measure_form(f, &d, &d)?
        }
        _ => return None,
    })
}
