//! nbharness — runs request lines (one per stdin line: `<stream> <op> <arg>*`) against the
//! real num-bigint built from /repo's working tree and prints one canonical result line each.
mod wire;
mod c19;
mod c04;
mod c20;
mod c02;
mod c13;
mod c12;
mod c11;
mod c07;
mod c03;
mod c08;
mod c06;
#[cfg(feature = "rand")]
mod c18;
mod c10;
mod c17;
mod c09;
mod c05;
mod c01;
mod c15;

use std::io::{BufRead, Write};
use std::panic;

type Handler = fn(&str, &[&str]) -> Option<String>;

fn handlers() -> Vec<(&'static str, Handler)> {
    vec![
        ("C01", c01::handle as Handler),
        ("C15", c15::handle as Handler),
        ("C05", c05::handle as Handler),
        ("C09", c09::handle as Handler),
        ("C17", c17::handle as Handler),
        ("C10", c10::handle as Handler),
        #[cfg(feature = "rand")]
        ("C18", c18::handle as Handler),
        ("C06", c06::handle as Handler),
        ("C08", c08::handle as Handler),
        ("C03", c03::handle as Handler),
        ("C07", c07::handle as Handler),
        ("C11", c11::handle as Handler),
        ("C12", c12::handle as Handler),
        ("C13", c13::handle as Handler),
        ("C02", c02::handle as Handler),
        ("C20", c20::handle as Handler),
        ("C04", c04::handle as Handler),
        ("C19", c19::handle as Handler),
    ]
}

fn main() {
    panic::set_hook(Box::new(|_| {}));
    let hs = handlers();
    let args: Vec<String> = std::env::args().collect();
    let want_tags = args.iter().any(|a| a == "--tags");
    let flush = args.iter().any(|a| a == "--flush");
    if args.iter().any(|a| a == "--spare") {
        wire::SPARE.store(true, core::sync::atomic::Ordering::Relaxed);
    }
    let stdin = std::io::stdin();
    let stdout = std::io::stdout();
    let mut out = std::io::BufWriter::new(stdout.lock());
    for line in stdin.lock().lines() {
        let line = line.unwrap();
        let toks: Vec<&str> = line.split_whitespace().collect();
        if toks.len() < 2 {
            writeln!(out, "unsupported").unwrap();
            continue;
        }
        let (stream, op, rest) = (toks[0], toks[1], &toks[2..]);
        let h = hs.iter().find(|(s, _)| *s == stream).map(|(_, h)| *h);
        #[cfg(num_bigint_verif)]
        if want_tags {
            num_bigint::verif::reset();
        }
        let res = match h {
            None => "unsupported".to_string(),
            Some(h) => {
                let r = panic::catch_unwind(|| h(op, rest));
                match r {
                    Ok(Some(s)) => s,
                    Ok(None) => "unsupported".to_string(),
                    Err(e) => {
                        let msg = if let Some(s) = e.downcast_ref::<&str>() {
                            s.to_string()
                        } else if let Some(s) = e.downcast_ref::<String>() {
                            s.clone()
                        } else {
                            "?".to_string()
                        };
                        format!("panic {}", wire::classify(&msg))
                    }
                }
            }
        };
        #[cfg(num_bigint_verif)]
        if want_tags {
            let hits = num_bigint::verif::hits();
            let tags: Vec<String> = hits.iter().enumerate().filter(|(_, &h)| h > 0).map(|(i, h)| format!("{}:{}", i, h)).collect();
            writeln!(out, "{} # tags={} work={}", res, tags.join(","), num_bigint::verif::work_count()).unwrap();
            if flush {
                out.flush().unwrap();
            }
            continue;
        }
        let _ = want_tags;
        writeln!(out, "{}", res).unwrap();
        if flush {
            out.flush().unwrap();
        }
    }
    out.flush().unwrap();
}
