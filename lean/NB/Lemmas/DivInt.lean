/- helper lemmas for the BigInt division conventions of C03: integer division facts on ±A / ±D,
   `ofInt`/`fromBiguint` bookkeeping, and the scalar `± u32` operations -/
import NB.Lemmas.Div
import NB.Props.C01
namespace NB

/-! ### integer division conventions on `±A`, `±D` in terms of the natural quotient/remainder -/

theorem int_ediv_pos (A D : Nat) : ((A : Int) / (D : Int) = ((A / D : Nat) : Int)) ∧
    ((A : Int) % (D : Int) = ((A % D : Nat) : Int)) :=
  ⟨(Int.natCast_ediv A D).symm, (Int.natCast_emod A D).symm⟩

/-- Euclidean division of a negative dividend by a positive divisor -/
theorem int_ediv_neg (A D : Nat) (hD : 0 < D) :
    (-(A : Int)) / (D : Int) = (if A % D = 0 then -((A / D : Nat) : Int) else -((A / D : Nat) : Int) - 1) ∧
    (-(A : Int)) % (D : Int) = (if A % D = 0 then 0 else (D : Int) - ((A % D : Nat) : Int)) := by
  have hdm := Nat.div_add_mod A D
  have hlt := Nat.mod_lt A hD
  have hdmI : (D : Int) * ((A / D : Nat) : Int) + ((A % D : Nat) : Int) = (A : Int) := by exact_mod_cast hdm
  have hltI : ((A % D : Nat) : Int) < (D : Int) := by exact_mod_cast hlt
  have hD' : (0 : Int) < (D : Int) := by exact_mod_cast hD
  by_cases h0 : A % D = 0
  · simp only [h0, if_true]
    rw [h0] at hdmI
    refine (Int.ediv_emod_unique hD').mpr ⟨?_, le_refl _, hD'⟩
    rw [← hdmI]; push_cast; ring
  · simp only [h0, if_false]
    have hpos : (0 : Int) < ((A % D : Nat) : Int) := by
      have : 0 < A % D := Nat.pos_of_ne_zero h0
      exact_mod_cast this
    refine (Int.ediv_emod_unique hD').mpr ⟨?_, by omega, by omega⟩
    rw [← hdmI]; ring

theorem int_tdiv_pos (A D : Nat) : Int.tdiv (A : Int) (D : Int) = ((A / D : Nat) : Int) ∧
    Int.tmod (A : Int) (D : Int) = ((A % D : Nat) : Int) := by
  have h : (0 : Int) ≤ (A : Int) := Int.natCast_nonneg A
  rw [Int.tdiv_eq_ediv_of_nonneg h, Int.tmod_eq_emod_of_nonneg h]
  exact int_ediv_pos A D

/-! ### small facts about `ofInt`, `fromBiguint`, `fromBU`, `neg` -/

theorem fromBiguint_ofNat_plus (n : Nat) : BigInt.fromBiguint .plus (ofNat n) = BigInt.ofInt n := by
  rw [fromBiguint_plus (ofNat_canon n), ofNat_val]

theorem fromBiguint_ofNat_minus (n : Nat) : BigInt.fromBiguint .minus (ofNat n) = BigInt.ofInt (-(n : Int)) := by
  rw [fromBiguint_minus (ofNat_canon n), ofNat_val]

theorem fromBiguint_nosign (m : List Nat) : BigInt.fromBiguint .nosign m = BigInt.ofInt 0 := by
  simp [BigInt.fromBiguint, BigInt.ofInt]

theorem fromBU_eq (m : List Nat) : BigInt.fromBU m = BigInt.fromBiguint .plus m := by
  unfold BigInt.fromBU BigInt.fromBiguint; simp

theorem fromBU_ofNat (n : Nat) : BigInt.fromBU (ofNat n) = BigInt.ofInt n := by
  rw [fromBU_eq, fromBiguint_ofNat_plus]

theorem ofInt_zero : BigInt.ofInt 0 = ⟨.nosign, []⟩ := by simp [BigInt.ofInt]

theorem neg_ofInt (i : Int) : (BigInt.ofInt i).neg = BigInt.ofInt (-i) := by
  unfold BigInt.ofInt BigInt.neg
  by_cases h1 : i < 0
  · have h2 : ¬ (-i < 0) := by omega
    have h3 : ¬ (-i = 0) := by omega
    simp [h1, h2, h3, Sign.neg] <;> omega
  · by_cases h2 : i = 0
    · subst h2; simp [Sign.neg]
    · have h3 : -i < 0 := by omega
      simp [h1, h2, h3, Sign.neg] <;> omega

theorem ofInt_sign_minus (i : Int) : (BigInt.ofInt i).sign = .minus ↔ i < 0 := by
  unfold BigInt.ofInt
  by_cases h1 : i < 0
  · simp [h1]
  · by_cases h2 : i = 0 <;> simp [h1, h2]

theorem ofInt_sign_nosign (i : Int) : (BigInt.ofInt i).sign = .nosign ↔ i = 0 := by
  unfold BigInt.ofInt
  by_cases h1 : i < 0
  · simp [h1]; omega
  · by_cases h2 : i = 0 <;> simp [h1, h2]

theorem ofInt_sign_plus (i : Int) : (BigInt.ofInt i).sign = .plus ↔ 0 < i := by
  unfold BigInt.ofInt
  by_cases h1 : i < 0
  · simp [h1]; omega
  · by_cases h2 : i = 0
    · simp [h2]
    · simp [h1, h2]; omega

theorem ofInt_mag (i : Int) : (BigInt.ofInt i).mag = ofNat i.natAbs := by
  unfold BigInt.ofInt
  by_cases h1 : i < 0
  · simp [h1]
  · by_cases h2 : i = 0
    · simp [h2, ofNat_zero]
    · simp [h1, h2]

theorem add_ofInt (P : Params) (i j : Int) :
    BigInt.add P (BigInt.ofInt i) (BigInt.ofInt j) = .ok (BigInt.ofInt (i + j)) := by
  rw [bigint_add_spec P _ _ (bigint_ofInt_canon i) (bigint_ofInt_canon j), bigint_ofInt_val, bigint_ofInt_val]

theorem sub_ofInt (P : Params) (i j : Int) :
    BigInt.sub P (BigInt.ofInt i) (BigInt.ofInt j) = .ok (BigInt.ofInt (i - j)) := by
  rw [bigint_sub_spec P _ _ (bigint_ofInt_canon i) (bigint_ofInt_canon j), bigint_ofInt_val, bigint_ofInt_val]

/-! ### `BigUint ∓ digit`, `digit - BigUint`, `BigInt ± u32` -/

theorem subDigit_spec (P : Params) (a : List Nat) (c : Nat) (ha : DigitsOk a) (hc : c < B) :
    subDigit P a c = if val a < c then .error .underflow else .ok (ofNat (val a - c)) := by
  obtain ⟨h1, h2⟩ := sub2_spec P a [c] ha (DigitsOk.cons hc DigitsOk.nil)
  have hvc : val [c] = c := by simp [val]
  rw [hvc] at h1 h2
  unfold subDigit
  by_cases hlt : val a < c
  · simp only [hlt, if_true, h1 hlt]; rfl
  · simp only [hlt, if_false]
    obtain ⟨r, hr, hv, _, hok⟩ := h2 (by omega)
    rw [hr]
    show Except.ok (normalize r) = _
    rw [canon_eq_ofNat (normalize_canon hok), normalize_val, hv]

theorem digitSub_spec (c : Nat) (a : List Nat) (ha : DigitsOk a) (hc : c < B) :
    digitSub c a = if c < val a then .error .underflow else .ok (ofNat (c - val a)) := by
  have hcD : DigitsOk [c] := DigitsOk.cons hc DigitsOk.nil
  have hvc : val [c] = c := by simp [val]
  unfold digitSub
  by_cases ha0 : a = []
  · subst ha0
    simp only [if_true, val, Nat.not_lt_zero, if_false, Nat.sub_zero]
    rw [canon_eq_ofNat (normalize_canon hcD), normalize_val, hvc]
  · simp only [ha0, if_false]
    have hlen : [c].length ≤ a.length := by
      have : a.length ≠ 0 := fun h => ha0 (List.length_eq_zero_iff.mp h)
      simp; omega
    obtain ⟨h1, h2⟩ := sub2rev_spec [c] a hlen hcD ha
    rw [hvc] at h1 h2
    by_cases hlt : c < val a
    · simp only [hlt, if_true, h1 hlt]; rfl
    · simp only [hlt, if_false]
      obtain ⟨r, hr, hv, hok⟩ := h2 (by omega)
      rw [hr]
      show Except.ok (normalize r) = _
      rw [canon_eq_ofNat (normalize_canon hok), normalize_val, hv]

theorem fromU_eq {c : Nat} (hc : c < B) : BigInt.fromU c = BigInt.ofInt c := by
  unfold BigInt.fromU
  by_cases h0 : c = 0
  · subst h0; simp [BigInt.ofInt]
  · have hpos : c > 0 := Nat.pos_of_ne_zero h0
    have h1 : ¬ ((c : Int) < 0) := by omega
    have h2 : ¬ ((c : Int) = 0) := by omega
    simp [hpos, BigInt.ofInt, h1, h2, fromDigit_eq hc] <;> omega

/-- `BigInt + u32` on a canonical value -/
theorem addU_spec (P : Params) (a : BigInt) (c : Nat) (ha : a.Canon) (hc : c < B) :
    BigInt.addU P a c = .ok (BigInt.ofInt (a.val + c)) := by
  obtain ⟨s, m⟩ := a
  obtain ⟨hm, hs⟩ := ha
  simp only at hm hs
  have hcC : Canon (fromDigit c) := by rw [fromDigit_eq hc]; exact ofNat_canon c
  have hcv : val (fromDigit c) = c := by rw [fromDigit_eq hc, ofNat_val]
  cases s with
  | nosign => simp [BigInt.addU, BigInt.val, fromU_eq hc]
  | plus =>
    simp only [BigInt.addU, BigInt.val, addDigit_spec P m c hm hc, fromBU_ofNat]
    congr 2
  | minus =>
    simp only [BigInt.addU, BigInt.val]
    rw [cmpSlice_spec hm hcC, hcv]
    rcases Nat.lt_trichotomy (val m) c with h | h | h
    · rw [Nat.compare_eq_lt.mpr h]
      have : ¬ (c < val m) := by omega
      simp only [digitSub_spec c m hm.1 hc, this, if_false, Except.map, fromBU_ofNat]
      congr 2; omega
    · rw [Nat.compare_eq_eq.mpr h]
      simp only [← ofInt_zero]; congr 2; omega
    · rw [Nat.compare_eq_gt.mpr h]
      have : ¬ (val m < c) := by omega
      simp only [subDigit_spec P m c hm.1 hc, this, if_false, Except.map, fromBU_ofNat, neg_ofInt]
      congr 2; omega

/-- `BigInt - u32` on a canonical value -/
theorem subU_spec (P : Params) (a : BigInt) (c : Nat) (ha : a.Canon) (hc : c < B) :
    BigInt.subU P a c = .ok (BigInt.ofInt (a.val - c)) := by
  obtain ⟨s, m⟩ := a
  obtain ⟨hm, hs⟩ := ha
  simp only at hm hs
  have hcC : Canon (fromDigit c) := by rw [fromDigit_eq hc]; exact ofNat_canon c
  have hcv : val (fromDigit c) = c := by rw [fromDigit_eq hc, ofNat_val]
  cases s with
  | nosign => simp [BigInt.subU, BigInt.val, fromU_eq hc, neg_ofInt]
  | minus =>
    simp only [BigInt.subU, BigInt.val, addDigit_spec P m c hm hc, fromBU_ofNat, neg_ofInt]
    congr 2; push_cast; ring
  | plus =>
    simp only [BigInt.subU, BigInt.val]
    rw [cmpSlice_spec hm hcC, hcv]
    rcases Nat.lt_trichotomy (val m) c with h | h | h
    · rw [Nat.compare_eq_lt.mpr h]
      have : ¬ (c < val m) := by omega
      simp only [digitSub_spec c m hm.1 hc, this, if_false, Except.map, fromBU_ofNat, neg_ofInt]
      congr 2; omega
    · rw [Nat.compare_eq_eq.mpr h]
      simp only [← ofInt_zero]; congr 2; omega
    · rw [Nat.compare_eq_gt.mpr h]
      have : ¬ (val m < c) := by omega
      simp only [subDigit_spec P m c hm.1 hc, this, if_false, Except.map, fromBU_ofNat]
      congr 2; omega

theorem tdiv_cast (A D : Nat) : Int.tdiv (A : Int) (D : Int) = ((A / D : Nat) : Int) := (int_tdiv_pos A D).1

theorem tmod_cast (A D : Nat) : Int.tmod (A : Int) (D : Int) = ((A % D : Nat) : Int) := (int_tdiv_pos A D).2

/-- facts about the sign field of a canonical BigInt -/
theorem canon_sign_cases {s : Sign} {m : List Nat} (h : (⟨s, m⟩ : BigInt).Canon) :
    (s = .nosign ∧ m = []) ∨ (s ≠ .nosign ∧ m ≠ [] ∧ 0 < val m) := by
  obtain ⟨hm, hs⟩ := h
  simp only at hm hs
  by_cases h0 : s = .nosign
  · exact Or.inl ⟨h0, hs.mp h0⟩
  · have : m ≠ [] := fun hm0 => h0 (hs.mpr hm0)
    exact Or.inr ⟨h0, this, canon_val_pos hm this⟩

/-- Euclidean quotient/remainder from the truncated pair, exactly as `Euclid for BigInt` computes it -/
theorem euclid_from_trunc (a b : Int) (hb : b ≠ 0) :
    a / b = (if Int.tmod a b < 0 then (if 0 < b then Int.tdiv a b - 1 else Int.tdiv a b + 1) else Int.tdiv a b) ∧
    a % b = (if Int.tmod a b < 0 then (if 0 < b then Int.tmod a b + b else Int.tmod a b - b) else Int.tmod a b) := by
  rw [Int.tdiv_eq_ediv, Int.tmod_eq_emod]
  have h1 := Int.emod_nonneg a hb
  have h2 := Int.emod_lt a hb
  by_cases hc : 0 ≤ a ∨ b ∣ a
  · simp only [hc, if_true]
    have : ¬ (a % b - ((0 : Nat) : Int) < 0) := by omega
    simp only [this, if_false]
    constructor <;> omega
  · simp only [hc, if_false]
    have : a % b - (b.natAbs : Int) < 0 := by omega
    simp only [this, if_true]
    by_cases hp : 0 < b
    · simp only [hp, if_true, Int.sign_eq_one_of_pos hp]
      constructor <;> omega
    · have hn : b < 0 := by omega
      simp only [hp, if_false, Int.sign_eq_neg_one_of_neg hn]
      constructor <;> omega

theorem canon_val_zero_iff {b : BigInt} (hb : b.Canon) : b.val = 0 ↔ b.sign = .nosign := by
  obtain ⟨s, m⟩ := b
  rcases canon_sign_cases hb with ⟨h1, h2⟩ | ⟨h1, _, h3⟩
  · subst h1; simp [BigInt.val]
  · cases s <;> simp [BigInt.val] at h1 ⊢ <;> omega

theorem canon_sign_plus_iff {b : BigInt} (hb : b.Canon) : b.sign = .plus ↔ 0 < b.val := by
  obtain ⟨s, m⟩ := b
  rcases canon_sign_cases hb with ⟨h1, h2⟩ | ⟨h1, _, h3⟩
  · subst h1; simp [BigInt.val]
  · cases s <;> simp [BigInt.val] at h1 ⊢ <;> omega

/-- the `to_u32` / `to_i32` fast paths of `Rem for BigInt` agree with the general path -/
theorem bigint_rem_eq (P : Params) (a b : BigInt) (ha : a.Canon) (hb : b.Canon) :
    BigInt.rem P a b = (BigInt.divRem P a b).map (·.2) := by
  obtain ⟨sa, ma⟩ := a
  obtain ⟨sb, mb⟩ := b
  have hB := canon_sign_cases hb
  -- the single-digit path
  have hdig : ∀ d, mb = [d] → BigInt.remU ⟨sa, ma⟩ d = (BigInt.divRem P ⟨sa, ma⟩ ⟨sb, mb⟩).map (·.2) := by
    intro d hd
    subst hd
    obtain ⟨hd0, hdB⟩ := canon_singleton hb.1
    have hv : val [d] = d := by simp [val]
    have hne : ¬ ([d] = ([] : List Nat)) := by simp
    simp only [BigInt.remU, BigInt.divRem, remDigit_spec' ma d ha.1.1 hd0, divRemRef_spec' P ma [d] ha.1 hb.1,
      hne, if_false, hv, Except.map]
    rw [fromDigit_eq (Nat.lt_trans (Nat.mod_lt _ (Nat.pos_of_ne_zero hd0)) hdB)]
    by_cases hm : sb = .minus <;> simp [hm]
  unfold BigInt.rem
  rcases hB with ⟨hsb, hmb⟩ | ⟨hsb, hmb, hpb⟩
  · subst hsb; subst hmb
    simp [BigInt.toU32, BigInt.remU, remDigit, BigInt.divRem, divRemRef, Except.map]
  · cases sb with
    | nosign => exact absurd rfl hsb
    | plus =>
      simp only [BigInt.toU32, BigInt.toI32Abs]
      cases mb with
      | nil => exact absurd rfl hmb
      | cons d t =>
        cases t with
        | nil =>
          by_cases hd : d < U32
          · simp only [toU32, hd, if_true]; exact hdig d rfl
          · simp only [toU32, hd, if_false]
        | cons e es => simp only [toU32]
    | minus =>
      simp only [BigInt.toU32, BigInt.toI32Abs]
      cases mb with
      | nil => exact absurd rfl hmb
      | cons d t =>
        cases t with
        | nil =>
          by_cases hd : d ≤ I32MINABS
          · simp only [hd, if_true]; exact hdig d rfl
          · simp only [hd, if_false]
        | cons e es => rfl

/-! ### floor / ceiling conventions on `±A`, `±D` -/

theorem fdiv_pp (A D : Nat) : Int.fdiv (A : Int) (D : Int) = ((A / D : Nat) : Int) := by
  rw [Int.fdiv_eq_ediv_of_nonneg _ (Int.natCast_nonneg D)]; exact (int_ediv_pos A D).1

theorem fmod_pp (A D : Nat) : Int.fmod (A : Int) (D : Int) = ((A % D : Nat) : Int) := by
  rw [Int.fmod_eq_emod_of_nonneg _ (Int.natCast_nonneg D)]; exact (int_ediv_pos A D).2

theorem fdiv_np (A D : Nat) (hD : 0 < D) : Int.fdiv (-(A : Int)) (D : Int) =
    (if A % D = 0 then -((A / D : Nat) : Int) else -((A / D : Nat) : Int) - 1) := by
  rw [Int.fdiv_eq_ediv_of_nonneg _ (Int.natCast_nonneg D)]; exact (int_ediv_neg A D hD).1

theorem fmod_np (A D : Nat) (hD : 0 < D) : Int.fmod (-(A : Int)) (D : Int) =
    (if A % D = 0 then 0 else (D : Int) - ((A % D : Nat) : Int)) := by
  rw [Int.fmod_eq_emod_of_nonneg _ (Int.natCast_nonneg D)]; exact (int_ediv_neg A D hD).2

theorem fdiv_pn (A D : Nat) (hD : 0 < D) : Int.fdiv (A : Int) (-(D : Int)) =
    (if A % D = 0 then -((A / D : Nat) : Int) else -((A / D : Nat) : Int) - 1) := by
  have := Int.neg_fdiv_neg (-(A : Int)) (D : Int)
  rw [neg_neg] at this; rw [this]; exact fdiv_np A D hD

theorem fmod_pn (A D : Nat) (hD : 0 < D) : Int.fmod (A : Int) (-(D : Int)) =
    (if A % D = 0 then 0 else ((A % D : Nat) : Int) - (D : Int)) := by
  have := Int.neg_fmod_neg (-(A : Int)) (D : Int)
  rw [neg_neg] at this; rw [this, fmod_np A D hD]
  split <;> omega

theorem fdiv_nn (A D : Nat) : Int.fdiv (-(A : Int)) (-(D : Int)) = ((A / D : Nat) : Int) := by
  rw [Int.neg_fdiv_neg]; exact fdiv_pp A D

theorem fmod_nn (A D : Nat) : Int.fmod (-(A : Int)) (-(D : Int)) = -((A % D : Nat) : Int) := by
  rw [Int.neg_fmod_neg, fmod_pp]

/-- `-d` or `-d - 1u32` of `div_floor` / `div_mod_floor` -/
theorem floor_adj (P : Params) (Q R : Nat) :
    (if ofNat R = [] then (.ok (BigInt.ofInt (Q : Int)).neg : Except Panic BigInt)
      else BigInt.subU P (BigInt.ofInt (Q : Int)).neg 1) =
    .ok (BigInt.ofInt (if R = 0 then -(Q : Int) else -(Q : Int) - 1)) := by
  simp only [ofNat_eq_nil, neg_ofInt]
  split
  · rfl
  · rw [subU_spec P _ 1 (bigint_ofInt_canon _) (by decide), bigint_ofInt_val]; rfl

/-- `d + 1u32` of `div_ceil` -/
theorem ceil_adj (P : Params) (Q R : Nat) :
    (if ofNat R = [] then (.ok (BigInt.ofInt (Q : Int)) : Except Panic BigInt)
      else BigInt.addU P (BigInt.ofInt (Q : Int)) 1) =
    .ok (BigInt.ofInt (if R = 0 then (Q : Int) else (Q : Int) + 1)) := by
  simp only [ofNat_eq_nil]
  split
  · rfl
  · rw [addU_spec P _ 1 (bigint_ofInt_canon _) (by decide), bigint_ofInt_val]; rfl

/-- `m` or `other - m` of `mod_floor` / `div_mod_floor` -/
theorem mod_adj (P : Params) (b : BigInt) (hb : b.Canon) (x : Int) :
    (if (BigInt.ofInt x).sign = .nosign then (.ok (BigInt.ofInt x) : Except Panic BigInt)
      else BigInt.sub P b (BigInt.ofInt x)) =
    .ok (BigInt.ofInt (if x = 0 then 0 else b.val - x)) := by
  simp only [ofInt_sign_nosign]
  split
  · rename_i h; rw [h]
  · rw [bigint_sub_spec P b _ hb (bigint_ofInt_canon _), bigint_ofInt_val]

/-- the paired adjustment of `div_mod_floor` -/
theorem divmod_adj (P : Params) (b : BigInt) (hb : b.Canon) (Q : Nat) (x : Int) :
    (if (BigInt.ofInt x).sign = .nosign then
        (.ok ((BigInt.ofInt (Q : Int)).neg, BigInt.ofInt x) : Except Panic (BigInt × BigInt))
      else
        pairOk (BigInt.subU P (BigInt.ofInt (Q : Int)).neg 1) (BigInt.sub P b (BigInt.ofInt x))) =
    .ok (BigInt.ofInt (if x = 0 then -(Q : Int) else -(Q : Int) - 1),
         BigInt.ofInt (if x = 0 then 0 else b.val - x)) := by
  simp only [ofInt_sign_nosign, neg_ofInt]
  split
  · rename_i h; rw [h]
  · rw [subU_spec P _ 1 (bigint_ofInt_canon _) (by decide), bigint_ofInt_val,
      bigint_sub_spec P b _ hb (bigint_ofInt_canon _), bigint_ofInt_val]; rfl

theorem bigint_isZero_iff {b : BigInt} (hb : b.Canon) : b.isZero = true ↔ b.val = 0 := by
  rw [canon_val_zero_iff hb]; simp [BigInt.isZero]

theorem checked_eq {α} (z : Bool) (zp : Prop) [Decidable zp] (hz : z = true ↔ zp) (f : Except Panic α) (v : α)
    (hf : f = if zp then .error .divzero else .ok v) :
    checked z f = .ok (if zp then none else some v) := by
  unfold checked
  by_cases h : zp
  · simp [h, hz.mpr h]
  · have : z = false := by
      cases z with
      | true => exact absurd (hz.mp rfl) h
      | false => rfl
    simp [h, this, hf, Except.map]

end NB
