"""C06 — text / radix conversion request generator.

Streams (all under `C06`):
  emit   u.to_str i.to_str u.to_radix_le/be i.to_radix_le/be     every radix 2..36 / 2..256 each run
  parse  u.from_str i.from_str u.parse i.parse u.parse_bytes i.parse_bytes
         u.from_radix_le/be i.from_radix_le/be                   grammar-aware mutants of emitted text
  fmt    u.fmt i.fmt                                             the fixed format table x boundary values
  radix  the same ops with a radix outside the asserted range
"""
import math
from genlib import *

import json, os

ALPHA = "0123456789abcdefghijklmnopqrstuvwxyz"
NFMT = 40


def _bigbase():
    """the extracted big-base threshold (`digits.data.len() >= 64`, NB.Gen.bigBase): the size classes
    63/64/65 of the property text are taken relative to what the source says now"""
    try:
        here = os.path.dirname(os.path.dirname(os.path.dirname(os.path.abspath(__file__))))
        v = int(json.load(open(os.path.join(here, "build", "extract.json")))["values"]["bigBase"])
        return v if 2 <= v <= 4096 else 64
    except Exception:  # noqa: BLE001
        return 64


BIGBASE = _bigbase()
PROBE_RADIX_BIGBASE = 20


def is_pow2(r):
    return r & (r - 1) == 0


def radix_power(r):
    """(base, power) of generate_radix_bases for u64 digits"""
    base, power = r, 1
    while base * r <= MAX:
        base *= r
        power += 1
    return base, power


def digits_le(n, r):
    """little-endian digits of n in radix r ([] for 0), chunked so that big values stay fast"""
    if n == 0:
        return []
    base, power = radix_power(r)
    out = []
    while n >= base:
        n, c = divmod(n, base)
        for _ in range(power):
            c, d = divmod(c, r)
            out.append(d)
    while n:
        n, d = divmod(n, r)
        out.append(d)
    return out


def text(n, r):
    if n == 0:
        return "0"
    return "".join(ALPHA[d] for d in reversed(digits_le(n, r)))


def limbs_value(rng, nl, pattern=None):
    return big(rng, nl, pattern)


def nlimbs(v):
    return (v.bit_length() + 63) // 64


def big_base_of(nl, r):
    """(big_base, big_power) that to_radix_digits_le computes for an nl-limb value: `base` squared until it has
    at least isqrt(nl) limbs"""
    bb, bp = radix_power(r)[0], 1
    target = math.isqrt(nl)
    while nlimbs(bb) < target:
        bb, bp = bb * bb, bp * 2
    return bb, bp


def superchunk_values(rng, nl, r, count=2):
    """values of about nl >= BIGBASE limbs on the boundaries of the super-chunk loop (digit-level `digits > big_base`,
    `digits.div_rem(&big_base)`, `div_rem_digit(big_r, base)`): big_base^m (the loop ends with digits == big_base, every
    big_r is zero), big_base^m ± 1, (big_base+1)·big_base^(m-1) (last quotient 1, remainder 1), sparse super-chunks"""
    bb, _ = big_base_of(nl, r)
    m = max(1, (nl * 64) // bb.bit_length())
    p = bb ** m
    q = bb ** (m - 1)
    cands = [p, p - 1, p + 1, (bb + 1) * q, (bb - 1) * q, p + bb, rng.randrange(1, bb) * q + rng.randrange(r),
             rng.randrange(1, bb) * q + rng.randrange(1, bb) * bb ** rng.randrange(m), 2 * p, bb * (p - 1)]
    rng.shuffle(cands)
    # a super-chunk that is all zeros above a residue in every magnitude class of the small base (below r, just below
    # and just above r^power = `base`, up to 2^64, two and three chunks): the last big digit of a field may not be
    # assumed to fit `power` output digits (C06-x1).  These come first.
    base, power = radix_power(r)
    res = [rng.randrange(base, B) if base < B else base, base, base + 1, MAX, base - 1, rng.randrange(r), rng.randrange(B, B * B),
           base * base - 1, base * base + rng.randrange(base)]
    rng.shuffle(res)
    fieldz = [rng.choice([p, rng.randrange(1, r) * p, rng.randrange(1, bb) * q, p * rng.randrange(1, bb)]) + s_ for s_ in res[:3]]
    cands = fieldz + cands
    count = count + 2
    out = []
    for v in cands:
        n2 = nlimbs(v)
        if n2 >= BIGBASE and big_base_of(n2, r)[0] == bb:
            out.append(v)
        if len(out) >= count:
            break
    return out


def value_set(rng, r, tier, big_lens):
    """values for radix r: 0, one digit, zero-run patterns r^k / r^k±1, around chunk boundaries,
    and the requested multi-limb lengths"""
    base, power = radix_power(r)
    vs = [0, 1, r - 1, r, r + 1, rng.randrange(B), MAX, B, B + 1]
    ks = {1, 2, power - 1, power, power + 1, 2 * power, 2 * power + 1, rng.randrange(1, 6 * power)}
    for k in ks:
        if k < 1:
            continue
        p = r ** k
        vs += [p, p - 1, p + 1]
    vs.append(rng.randrange(1, r) * r ** rng.randrange(power, 8 * power) + rng.randrange(r))
    vs.append(base); vs.append(base - 1); vs.append(base * base); vs.append(base * base - 1)
    for nl in big_lens:
        pat = rng.choice(["rand", "ones", "zeros_top1", "sparse", "runs", "lowzero", "mixed"])
        vs.append(limbs_value(rng, nl, pat))
        if nl >= BIGBASE - 1:
            # long runs of zero / (r-1) output digits at the multi-limb sizes: r^k, r^k±1 with about nl limbs
            k = int(nl * 64 / math.log2(r)) - rng.randrange(0, 3)
            vs.append(r ** k + rng.choice([0, -1, 1]))
    return vs


def superchunk_set(rng, r, tier, big_lens, count):
    """super-chunk boundary values for every requested length that takes the big-base path"""
    if is_pow2(r):
        return []
    # the digit-level model column costs ~3 ms (64 limbs) … 2.8 s (2000 limbs) per request: none at the huge sizes
    return [v for nl in big_lens if BIGBASE <= nl < 300 for v in superchunk_values(rng, nl, r, count)]


def big_lengths(rng, tier, i):
    """multi-limb lengths for the i-th radix of a sweep: 63/64/65 rotate so that every run has all
    three for many radices; plus a random length (<= 200 quick / thorough) and rarely a huge one"""
    around = [BIGBASE - 1, BIGBASE, BIGBASE + 1]
    ls = [around[i % 3], rng.choice([2, 3, 5, 8, 17])]
    if tier == "thorough":
        ls += [around[(i + 1) % 3], around[(i + 2) % 3], rng.randrange(2, 200), rng.randrange(66, 200)]
        if i % 16 == 0:
            ls.append(rng.choice([400, 1000, 2000]))
    else:
        if i % 5 == 0:
            ls.append(rng.randrange(66, 200))
        if i % 11 == 0:
            ls.append(rng.randrange(2, 63))
    return ls


def mutate_text(rng, t, r, exhaustive_us):
    """grammar-aware mutants of a well-formed digit string t (bytes)"""
    out = []
    b = t.encode()
    n = len(b)
    out.append(b)
    out.append(b.upper())
    out.append(bytes(c ^ 0x20 if (65 <= c <= 90 or 97 <= c <= 122) and rng.randrange(2) else c for c in b))
    # leading zeros
    out.append(b"0" + b); out.append(b"0" * rng.randrange(2, 50) + b)
    # underscores
    poss = range(n + 1) if exhaustive_us else {0, 1, n, max(0, n - 1), rng.randrange(n + 1), rng.randrange(n + 1)}
    for p in poss:
        out.append(b[:p] + b"_" + b[p:])
    p = rng.randrange(n + 1)
    out.append(b[:p] + b"__" + b[p:])
    out.append(b + b"__"); out.append(b"__" + b); out.append(b"_".join(bytes([c]) for c in b))
    out.append(b[:1] + b"_" * rng.randrange(2, 20) + b[1:])
    # signs
    for s in (b"+", b"-", b"++", b"--", b"+-", b"-+", b"+_", b"-_", b"+0", b"-0", b"-00_"):
        out.append(s + b)
    out.append(b + b"+"); out.append(b + b"-"); out.append(b[:1] + b"-" + b[1:]); out.append(b[:1] + b"+" + b[1:])
    # one invalid byte
    bad = [ALPHA[r].encode() if r < 36 else b"{", ALPHA[r].upper().encode() if r < 36 else b"[",
           b" ", b"/", b":", b"@", b"[", b"`", b"{", b"\x00", b".", b",", b"\x7f", b"\n"]
    for _ in range(4):
        p = rng.randrange(n)
        x = rng.choice(bad)
        out.append(b[:p] + x + b[p + 1:])
    p = rng.randrange(n + 1)
    out.append(b[:p] + rng.choice(bad) + b[p:])
    out.append(b" " + b); out.append(b + b" "); out.append(b"0x" + b)
    # bytes >= 0x80: a valid multi-byte scalar, and ill-formed sequences
    p = rng.randrange(n + 1)
    out.append(b[:p] + "é".encode() + b[p:])
    out.append(b[:p] + "→".encode() + b[p:])
    out.append(b[:p] + "𝟙".encode() + b[p:])
    out.append(b[:p] + b"\x80" + b[p:])
    out.append(b[:p] + b"\xff" + b[p:])
    out.append(b[:p] + b"\xc3" + b[p:])           # truncated / followed by ASCII
    out.append(b + b"\xe2\x82")                    # truncated at the end
    return out


FIXED_TEXTS = [b"", b"+", b"-", b"_", b"+_", b"-_", b"__", b"++", b"--", b"+-", b"-+", b"0", b"00", b"-0", b"+0",
               b"0_", b"_0", b"0_0", b"-_0", b"+_0", b"1_", b"-1_", b"z", b"Z", b"-z", b"10", b"-10", b" ", b"\x00",
               b"\xc2\x80", b"\xc0\x80", b"\xed\xa0\x80", b"\xed\x9f\xbf", b"\xf4\x8f\xbf\xbf", b"\xf4\x90\x80\x80",
               b"\xf5\x80\x80\x80", b"\xe0\x9f\xbf", b"\xe0\xa0\x80", b"\xf0\x8f\xbf\xbf", b"\xf0\x90\x80\x80", b"\x80",
               b"1\xc2", b"1\xe2\x82", b"1\xf0\x9f\x98", b"\xef\xbf\xbf", b"\xc1\xbf", b"\xdf\xbf1", b"1\xdf"]

BAD_STR_RADIX = [0, 1, 37, 38, 64, 100, 255, 256, 257, 65536, 4294967295]
BAD_DIG_RADIX = [0, 1, 257, 258, 300, 512, 1000, 65536, 4294967295]


def is_utf8(b):
    try:
        b.decode("utf-8")
        return True
    except UnicodeDecodeError:
        return False


def parse_reqs(rng, r, b, which=None):
    """request lines for one text; str-based ops only for valid UTF-8"""
    ops = ["u.parse_bytes", "i.parse_bytes"]
    if is_utf8(b):
        ops += ["u.from_str", "i.from_str", "u.from_str", "i.from_str"]
    op = which or rng.choice(ops)
    return "C06 %s %d %s" % (op, r, wbytes(b))


def capacity_boundary_reqs(rng, tier):
    """parse inputs on the boundaries of the output-size estimate: for k = 1 … K big digits, the longest digit string
    that still fits k digits (L = floor(64k / log2 r)) and the next one, filled with the largest digit (value at the
    top of its range) and as 1000…0 — an estimate that is one digit short only shows there, and the estimate is
    feature-conditional code (float log2 with std, integer approximation without; C16-x1: a rounded-down fixed-point
    log2 used as a multiplier).  Text for radices <= 36, digit vectors above."""
    import math
    reqs = []
    thorough = tier == "thorough"
    radices = [10, 3, 7, 23, 36, 161, 201] + rng.sample([r for r in range(2, 257) if not is_pow2(r)], 6 if not thorough else 40)
    K = 300 if thorough else 130
    for r in radices:
        lg = math.log2(r)
        ks = list(range(1, 41)) + list(range(41, K, 1 if thorough else 5)) + [94, 188, 64, 65, 128, 129]
        if not thorough:
            ks = [k for k in ks if k <= 40 or rng.randrange(3) == 0 or k in (94, 64, 65, 128)]
        for k in sorted(set(ks)):
            L0 = int(64 * k / lg)
            for L in (L0, L0 + 1):
                if L < 1:
                    continue
                for ds in ([r - 1] * L, [1] + [0] * (L - 1)):
                    if r <= 36:
                        b = "".join(ALPHA[d] for d in ds).encode()
                        reqs.append(parse_reqs(rng, r, b, ["u.from_str", "u.parse_bytes", "i.from_str"][(k + L) % 3]))
                    else:
                        reqs.append("C06 u.from_radix_be %d %s" % (r, wbytes(ds)))
    # inputs whose digit count is an exact multiple of the chunk length (`power` digits per big digit) and of power·2^j,
    # and one more / one less: a chunked or divide-and-conquer reader splits there and must cope with an empty or ragged
    # leading piece (C14-j1: `split_at(len % chunk_len)` hands an empty head to the old loop; C06-j1-like table sizing)
    for r in [10, 3, 7, 36] + rng.sample([q for q in range(2, 37) if not is_pow2(q)], 2) + [255, 100]:
        base, power = radix_power(r)
        ms = [1, 2, 3, 31, 32, 33, 63, 64, 65, 72, 80, 96, 127, 128, 129] + ([192, 255, 256, 257, 512] if thorough else [])
        for m_ in ms:
            for L in (power * m_ - 1, power * m_, power * m_ + 1):
                if L < 1:
                    continue
                ds = [rng.randrange(1, r)] + [rng.randrange(r) for _ in range(L - 1)]
                if r <= 36:
                    reqs.append(parse_reqs(rng, r, "".join(ALPHA[d] for d in ds).encode(), ["u.from_str", "u.parse_bytes", "i.from_str"][(m_ + L) % 3]))
                else:
                    reqs.append("C06 u.from_radix_%s %d %s" % ("be" if L % 2 else "le", r, wbytes(ds)))
    # OUTPUT size estimate: the smallest value with k + 1 digits (r^k) and the largest with k digits (r^k − 1) for every k
    # (radix 10: every k up to 420 (1300); others sampled) — an estimate one digit short only shows at the bottom of a
    # digit count, for particular bit lengths (C16-j1: `((bits * 1233) >> 12) + 1` under no_std)
    for r in [10] + rng.sample([q for q in range(3, 37) if not is_pow2(q)], 3 if not thorough else 12):
        kmax = (1300 if thorough else 420) if r == 10 else (300 if thorough else 120)
        for k in range(1, kmax):
            if r == 10 or thorough or k % 3 == 0 or k < 30:
                reqs.append("C06 u.to_str %s %d" % (wu(r ** k), r))
                if k % 2 == 0:
                    reqs.append("C06 u.to_str %s %d" % (wu(r ** k - 1), r))
    return reqs

def gen(rng, tier):
    reqs = capacity_boundary_reqs(rng, tier)
    thorough = tier == "thorough"
    rounds = 3 if thorough else 1
    for rnd in range(rounds):
        # ---------------------------------------------------------------- emit: text, radices 2..36
        for i, r in enumerate(range(2, 37)):
            bl = big_lengths(rng, tier, i + rnd)
            vs = value_set(rng, r, tier, bl) + superchunk_set(rng, r, tier, bl, 1 if thorough else 2)
            for v in vs:
                reqs.append("C06 u.to_str %s %d" % (wu(v), r))
                if rng.randrange(3) == 0 or v == 0:
                    reqs.append("C06 i.to_str %s %d" % (wi(-v), r))
                if rng.randrange(4) == 0:
                    reqs.append("C06 i.to_str %s %d" % (wi(v), r))
        # ---------------------------------------------------------------- emit: digits, radices 2..256
        for i, r in enumerate(range(2, 257)):
            bl = big_lengths(rng, tier, i + rnd)
            if not thorough and r > 36 and not is_pow2(r):
                bl = bl[:1] if i % 2 == 0 else bl[1:2]
            vs = value_set(rng, r, tier, bl)
            if not thorough and r > 36:
                head = vs[:9]
                rest = vs[9:]
                rng.shuffle(rest)
                vs = [0] + rng.sample(head, 3) + rest[:6] + vs[-len(bl):]
            vs = vs + superchunk_set(rng, r, tier, bl, 1 if thorough or r > 36 else 2)
            for v in vs:
                op = rng.choice(["u.to_radix_le", "u.to_radix_le", "u.to_radix_be", "i.to_radix_le", "i.to_radix_be"])
                if op[0] == "u":
                    reqs.append("C06 %s %s %d" % (op, wu(v), r))
                else:
                    reqs.append("C06 %s %s %d" % (op, wi(signed(rng, v)), r))
        # ---------------------------------------------------------------- parse: text
        for i, r in enumerate(range(2, 37)):
            base, power = radix_power(r)
            # every residue of the chunk length, two and three chunks long (also for the power-of-two radices)
            for j in range(power + 1):
                L = 2 * power + j if j % 2 == 0 else power + j
                ds = [rng.randrange(1, r)] + [rng.choice([0, 0, r - 1, rng.randrange(r)]) for _ in range(L - 1)]
                t = "".join(ALPHA[d] for d in ds)
                b = t.encode()
                if rng.randrange(2):
                    b = b.upper()
                reqs.append(parse_reqs(rng, r, b))
                if j < 3:
                    reqs.append(parse_reqs(rng, r, b"-" + b, "i.from_str"))
            # short lengths 1..power (first chunk only)
            for L in {1, 2, max(1, power - 1), power}:
                t = "".join(ALPHA[rng.randrange(r)] for _ in range(L))
                reqs.append(parse_reqs(rng, r, t.encode()))
            vals = [0, rng.randrange(1, r), r ** power, r ** power - 1, r ** (3 * power) + 1,
                    limbs_value(rng, rng.choice([1, 2, 3, 4])), limbs_value(rng, rng.randrange(5, 30))]
            if i % 4 == rnd % 4:
                vals.append(limbs_value(rng, rng.choice([BIGBASE - 1, BIGBASE, BIGBASE + 1])))
            if thorough and i % 6 == 0:
                vals.append(limbs_value(rng, rng.choice([200, 400, 1000, 2000][:2 + rnd])))
            for vi, v in enumerate(vals):
                t = text(v, r)
                if len(t) > 400:
                    # long texts: a handful of mutants only
                    muts = [t.encode(), b"-" + t.encode(), t.upper().encode(), (t[:7] + "_" + t[7:]).encode(),
                            (t[:len(t) // 2] + ALPHA[r % 36] + t[len(t) // 2:]).encode() if r < 36 else (t + "{").encode()]
                else:
                    muts = mutate_text(rng, t, r, exhaustive_us=(len(t) <= 24 and (vi == 3 or thorough)))
                for b in muts:
                    reqs.append(parse_reqs(rng, r, b))
            for b in FIXED_TEXTS:
                if rng.randrange(3) == 0 or thorough:
                    reqs.append(parse_reqs(rng, r, b))
        # ---------------------------------------------------------------- parse: the whole byte alphabet
        # every byte value 0..255 in a digit position, for every radix: the digit classifier is a table over
        # (byte, radix) and any folding trick (b | 0x20, b - b'0' wrap-around, ...) is wrong on a few cells only (C06-s1)
        if rnd == 0:
            k = 0
            for r in range(2, 37):
                for c in range(256):
                    k += 1
                    mid = b"1" + bytes([c]) + b"0"
                    alone = bytes([c])
                    for b in (mid, alone):
                        ops = ["u.parse_bytes", "i.parse_bytes"] + (["u.from_str", "i.from_str"] if c < 0x80 else [])
                        if thorough:
                            for op in ops:
                                reqs.append(parse_reqs(rng, r, b, op))
                        else:
                            reqs.append(parse_reqs(rng, r, b, ops[k % len(ops)]))
                            k += 1
                    if c < 0x80 and (thorough or k % 3 == 0):
                        reqs.append(parse_reqs(rng, r, b"-" + alone + b"1", "i.from_str"))
        # ---------------------------------------------------------------- parse: Unicode look-alikes
        # valid UTF-8 scalars that case mapping / compatibility folding / `is_alphanumeric`-style classification would
        # turn into ASCII digits or letters: KELVIN SIGN (lower-cases to k), ANGSTROM, long s (upper-cases to S),
        # dotless i / dotted I, fullwidth, Arabic-Indic, superscript, circled, mathematical digits and letters, sharp s,
        # ligatures.  None of them is a digit in any radix (C06-t1: `to_lowercase()` instead of ASCII folding).
        if rnd == 0:
            CONF = ["\u212a", "\u212b", "\u017f", "\u0131", "\u0130", "\u00df", "\ufb01", "\uff10", "\uff11", "\uff19", "\uff21", "\uff3a",
                    "\uff41", "\uff5a", "\u0660", "\u0661", "\u0669", "\u06f5", "\u00b2", "\u00b9", "\u2070", "\u2460", "\u2160", "\u217a",
                    "\U0001d7d8", "\U0001d7ce", "\U0001d400", "\U0001d41a", "\u0391", "\u0410", "\u0430", "\u03bf", "\u1e9e", "\u01c5",
                    "\u00aa", "\u00ba", "\u24b6", "\u24d0", "\u0966", "\u3007", "\u4e00"]
            k = 0
            for r in range(2, 37):
                for ch in CONF:
                    c = ch.encode()
                    for b in (c, b"1" + c + b"0", b"-" + c, c + b"_1"):
                        k += 1
                        if thorough or k % 2 == 0 or ch in ("\u212a", "\u017f", "\u0131", "\u0130"):
                            reqs.append(parse_reqs(rng, r, b, ["u.from_str", "i.from_str", "u.parse_bytes", "i.parse_bytes"][k % 4]))
            for ch in CONF:
                reqs.append("C06 u.parse %s" % wbytes(ch.encode()))
                reqs.append("C06 i.parse %s" % wbytes(b"-1" + ch.encode()))
        for b in FIXED_TEXTS:
            reqs.append("C06 u.parse %s" % wbytes(b)) if is_utf8(b) else None
            reqs.append("C06 i.parse %s" % wbytes(b)) if is_utf8(b) else None
            reqs.append(parse_reqs(rng, 10, b, "u.parse_bytes"))
            reqs.append(parse_reqs(rng, 16, b, "i.parse_bytes"))
        for _ in range(40):
            v = limbs_value(rng, rng.randrange(1, 6))
            for b in mutate_text(rng, text(v, 10), 10, False)[:rng.randrange(3, 40)][-3:]:
                if is_utf8(b):
                    reqs.append("C06 %s %s" % (rng.choice(["u.parse", "i.parse"]), wbytes(b)))
        # ---------------------------------------------------------------- parse: digit vectors
        for i, r in enumerate(range(2, 257)):
            base, power = radix_power(r)
            if thorough or r <= 36 or is_pow2(r):
                residues = list(range(power + 1))
            else:
                residues = sorted({0, 1, power - 1, rng.randrange(power), rng.randrange(power)})
            for j in residues:
                L = 2 * power + j if (j + r) % 2 == 0 else power + j
                ds = [rng.choice([0, 0, r - 1, rng.randrange(r), rng.randrange(r)]) for _ in range(L)]
                op = rng.choice(["u.from_radix_le", "u.from_radix_be"])
                reqs.append("C06 %s %d %s" % (op, r, wbytes(ds)))
            vals = [0, rng.randrange(1, r), r ** power, r ** (2 * power) - 1, limbs_value(rng, rng.choice([1, 2, 3, 7]))]
            if i % 8 == rnd % 8 or (thorough and i % 2 == 0):
                vals.append(limbs_value(rng, rng.choice([BIGBASE - 1, BIGBASE, BIGBASE + 1])))
            if thorough and i % 32 == 0:
                vals.append(limbs_value(rng, rng.choice([200, 500, 1200])))
            for v in vals:
                ds = digits_le(v, r)
                muts = [ds, ds + [0], ds + [0] * rng.randrange(2, 30), [0] * len(ds), [r - 1] * max(1, len(ds))]
                if ds:
                    p = rng.randrange(len(ds))
                    if r < 256:
                        muts.append(ds[:p] + [r] + ds[p + 1:])
                        muts.append(ds[:p] + [255] + ds[p + 1:])
                        muts.append(ds[:p] + [rng.randrange(r, 256)] + ds[p + 1:])
                        muts.append(ds + [r])
                        muts.append([r] + ds)
                    else:
                        muts.append(ds[:p] + [255] + ds[p + 1:])
                for m in muts:
                    be = rng.randrange(2)
                    d = list(reversed(m)) if be else m
                    if rng.randrange(3):
                        reqs.append("C06 u.from_radix_%s %d %s" % ("be" if be else "le", r, wbytes(d)))
                    else:
                        reqs.append("C06 i.from_radix_%s %s %d %s" % ("be" if be else "le", rng.choice("+-0"), r, wbytes(d)))
            reqs.append("C06 u.from_radix_le %d x" % r)
            reqs.append("C06 i.from_radix_be %s %d x" % (rng.choice("+-0"), r))
        # ---------------------------------------------------------------- fmt
        fvals = [0, 1, 7, 9, 10, 255, 256, 4095, 99999999, 100000000, 123456789012, (1 << 63) - 1, 1 << 63, MAX, B,
                 (1 << 127) - 1, 1 << 127, (1 << 128) - 1, 1 << 128, (1 << 128) + 1, limbs_value(rng, 3),
                 limbs_value(rng, rng.randrange(4, 12)), rng.randrange(1 << 40), rng.randrange(1 << 100),
                 10 ** 11, 10 ** 12 - 1, 8 ** 6, 16 ** 9 - 1, 2 ** 69, 2 ** 70 - 1]
        if thorough:
            fvals += [limbs_value(rng, BIGBASE), limbs_value(rng, BIGBASE + 1), rng.randrange(1 << 20), rng.randrange(1 << 64)]
        # long texts (a formatter that treats "long" output separately — no padding can apply, write the digits
        # directly — is only wrong there; C06-u1 forgot the `+` flag for >= 1024 digit characters): values whose text has
        # 255/256/257, 1023/1024/1025 and ~1500 characters in base 10, 16, 8 and 2
        for base in (10, 16, 8, 2):
            for n in (255, 256, 257, 1023, 1024, 1025, 1500):
                if thorough or rng.randrange(2) == 0 or n in (1024, 1500):
                    fvals.append(base ** (n - 1) + rng.randrange(base ** 8))
            fvals.append(base ** 1024 - 1)
        for v in fvals:
            for fid in range(NFMT):
                if thorough or rng.randrange(3) == 0 or v in (0, 255):
                    reqs.append("C06 u.fmt %d %s" % (fid, wu(v)))
                if thorough or rng.randrange(3) == 0 or v in (0, 255):
                    reqs.append("C06 i.fmt %d %s" % (fid, wi(-v if rng.randrange(3) else v)))
        # ---------------------------------------------------------------- radix out of range
        for r in BAD_STR_RADIX:
            for v in (0, 5, 1000, limbs_value(rng, 2)):
                reqs.append("C06 u.to_str %s %d" % (wu(v), r))
                reqs.append("C06 i.to_str %s %d" % (wi(-v), r))
            for b in (b"", b"0", b"12", b"-7", b"+", b"_", b"zz", b"\xc3\xa9", b"1\xc3\xa9", b"\xff", b"1\x80", b"\xc3"):
                reqs.append("C06 u.parse_bytes %d %s" % (r, wbytes(b)))
                reqs.append("C06 i.parse_bytes %d %s" % (r, wbytes(b)))
                if is_utf8(b):
                    reqs.append("C06 u.from_str %d %s" % (r, wbytes(b)))
                    reqs.append("C06 i.from_str %d %s" % (r, wbytes(b)))
        for r in BAD_DIG_RADIX:
            for v in (0, 5, 1000, 100000, limbs_value(rng, 2), limbs_value(rng, BIGBASE)):
                reqs.append("C06 u.to_radix_le %s %d" % (wu(v), r))
                reqs.append("C06 u.to_radix_be %s %d" % (wu(v), r))
                reqs.append("C06 i.to_radix_le %s %d" % (wi(-v), r))
                reqs.append("C06 i.to_radix_be %s %d" % (wi(v), r))
            for ds in ([], [0], [1, 2, 3], [255]):
                reqs.append("C06 u.from_radix_le %d %s" % (r, wbytes(ds)))
                reqs.append("C06 u.from_radix_be %d %s" % (r, wbytes(ds)))
                reqs.append("C06 i.from_radix_le %s %d %s" % (rng.choice("+-0"), r, wbytes(ds)))
                reqs.append("C06 i.from_radix_be %s %d %s" % (rng.choice("+-0"), r, wbytes(ds)))
    return reqs


def special(ctx):
    """generator-sufficiency step: the quick tier must reach the big-base path of to_radix_digits_le
    (probe RADIX_BIGBASE) on the real crate; otherwise the run is a machinery error, never a VIOLATION"""
    import random
    out = {"coverage": {}, "errors": [], "notes": []}
    if not ctx.get("hooks_on") or not ctx.get("bins"):
        out["notes"].append("probe check skipped: internal hooks unavailable")
        return out
    reqs = [l for l in (ctx.get("lines") or []) if l.startswith("C06 ")] or gen(random.Random(ctx["seed"]), ctx["tier"])
    cand = []
    for l in reqs:
        t = l.split()
        if t[1] in ("u.to_str", "u.to_radix_le", "u.to_radix_be") and t[2].count(",") + 1 >= BIGBASE \
                and not is_pow2(int(t[3])) and 2 <= int(t[3]) <= 256:
            cand.append(l)
        if len(cand) >= 25:
            break
    binp = ctx["bins"].get("release") or list(ctx["bins"].values())[0]
    hit = 0
    for r in ctx["run_harness"](binp, cand, tags=True) if cand else []:
        if r and ("tags=" in r) and any(kv.split(":")[0] == str(PROBE_RADIX_BIGBASE)
                                        for kv in r.split("tags=")[1].split()[0].split(",") if kv):
            hit += 1
    out["coverage"]["probe_radix_bigbase_requests"] = len(cand)
    out["coverage"]["probe_radix_bigbase_hits"] = hit
    if hit == 0:
        out["errors"].append("generator insufficient: probe RADIX_BIGBASE (20) not hit by %d candidate requests" % len(cand))
    return out
