/- Refinement lemmas: the digit-level model NB.Model.ModPowD equals the value-level model NB.Model.ModPow
   (and NB.montyModpow) on canonical inputs.  The operator facts come from the property files of the
   operators themselves: C01 (add/sub), C02 (mul), C03 (div_rem/rem), C07 (shl), `cmpSlice_spec`. -/
import NB.Props.C01
import NB.Props.C02
import NB.Props.C03
import NB.Props.C07
import NB.Lemmas.ModPow
import NB.Lemmas.Monty
import NB.Model.ModPowD
namespace NB

/-! ## the operators on `ofNat` arguments -/

theorem ofNat_eq_one_iff (n : Nat) : ofNat n = [1] ↔ n = 1 := by
  constructor
  · intro h; have := ofNat_val n; rw [h] at this; simpa [val] using this.symm
  · intro h; subst h; exact ofNat_one

theorem mulRef_ofNat (P : Params) (hP : P.ValidMul) (a b : Nat) :
    Mul.mulRef P (ofNat a) (ofNat b) = .ok (ofNat (a * b)) := by
  rw [mul_spec P hP _ _ (ofNat_canon a) (ofNat_canon b), ofNat_val, ofNat_val]

theorem mulAssign_ofNat (P : Params) (hP : P.ValidMul) (a b : Nat) :
    Mul.mulAssign P (ofNat a) (ofNat b) = .ok (ofNat (a * b)) := by
  rw [mulAssign_spec P hP _ _ (ofNat_canon a) (ofNat_canon b), ofNat_val, ofNat_val]

theorem remRef_ofNat (P : Params) (a m : Nat) (hm : m ≠ 0) :
    remRef P (ofNat a) (ofNat m) = .ok (ofNat (a % m)) := by
  rw [remRef_spec P _ _ (ofNat_canon a) (ofNat_canon m),
    if_neg (by rw [ofNat_eq_nil_iff]; exact hm), ofNat_val, ofNat_val]

theorem divRemRef_ofNat (P : Params) (a b : Nat) (hb : b ≠ 0) :
    divRemRef P (ofNat a) (ofNat b) = .ok (ofNat (a / b), ofNat (a % b)) := by
  rw [div_rem_spec P _ _ (ofNat_canon a) (ofNat_canon b),
    if_neg (by rw [ofNat_eq_nil_iff]; exact hb), ofNat_val, ofNat_val]

theorem subRefVal_ofNat (P : Params) (a b : Nat) :
    subRefVal P (ofNat a) (ofNat b) = if a < b then .error .underflow else .ok (ofNat (a - b)) := by
  rw [subRefVal_spec P _ _ (ofNat_canon a) (ofNat_canon b), ofNat_val, ofNat_val]

theorem subAssign_ofNat (P : Params) (a b : Nat) :
    subAssign P (ofNat a) (ofNat b) = if a < b then .error .underflow else .ok (ofNat (a - b)) := by
  rw [subAssign_spec P _ _ (ofNat_canon a) (ofNat_canon b), ofNat_val, ofNat_val]

theorem addRef_ofNat (P : Params) (a b : Nat) : addRef P (ofNat a) (ofNat b) = ofNat (a + b) := by
  rw [addRef_spec P _ _ (ofNat_canon a) (ofNat_canon b), ofNat_val, ofNat_val]

theorem cmpSlice_ofNat (a b : Nat) : cmpSlice (ofNat a) (ofNat b) = compare a b := by
  rw [cmpSlice_spec (ofNat_canon a) (ofNat_canon b), ofNat_val, ofNat_val]

/-! ## `plain_modpow` -/

section plain
variable (P : Params) (hP : P.ValidMul) (m : Nat) (hm : m ≠ 0)
include hP hm

theorem sqModD_ofNat (b : Nat) : sqModD P (ofNat m) (ofNat b) = .ok (ofNat (b * b % m)) := by
  simp only [sqModD, mulRef_ofNat P hP, remRef_ofNat P _ _ hm]

theorem sqTimesD_ofNat : ∀ k b, sqTimesD P (ofNat m) k (ofNat b) = .ok (ofNat (sqTimes m k b))
  | 0, b => rfl
  | k + 1, b => by
    simp only [sqTimesD, sqTimes, sqModD_ofNat P hP m hm]
    exact sqTimesD_ofNat k _

theorem stripZerosD_ofNat (r b base : Nat) :
    stripZerosD P (ofNat m) r b (ofNat base) =
      (stripZeros m r b base).map (fun t => (t.1, t.2.1, ofNat t.2.2)) := by
  induction r using Nat.strong_induction_on generalizing b base with
  | _ r ih =>
    rw [stripZerosD, stripZeros]
    by_cases h0 : r = 0
    · simp only [h0, dite_true]; rfl
    · simp only [h0, dite_false]
      by_cases h : r % 2 = 0
      · simp only [h, dite_true, sqModD_ofNat P hP m hm]
        exact ih (r / 2) (by omega) _ _
      · simp only [h, dite_false]; rfl

theorem unitStepD_ofNat (odd : Bool) (s1 s2 : Nat) :
    unitStepD P (ofNat m) odd (ofNat s1, ofNat s2) =
      .ok (ofNat (unitStep m odd (s1, s2)).1, ofNat (unitStep m odd (s1, s2)).2) := by
  cases odd <;>
    simp [unitStepD, unitStep, sqModD_ofNat P hP m hm, mulAssign_ofNat P hP, remRef_ofNat P _ _ hm]

theorem bitsLoopD_ofNat : ∀ k r s1 s2, bitsLoopD P (ofNat m) k r (ofNat s1, ofNat s2) =
      .ok (ofNat (bitsLoop m k r (s1, s2)).1, ofNat (bitsLoop m k r (s1, s2)).2)
  | 0, _, _, _ => rfl
  | k + 1, r, s1, s2 => by
    simp only [bitsLoopD, bitsLoop, unitStepD_ofNat P hP m hm]
    exact bitsLoopD_ofNat k _ _ _

theorem midLoopD_ofNat : ∀ ds s1 s2, midLoopD P (ofNat m) ds (ofNat s1, ofNat s2) =
      .ok (ofNat (midLoop m ds (s1, s2)).1, ofNat (midLoop m ds (s1, s2)).2)
  | [], _, _ => rfl
  | d :: ds, s1, s2 => by
    simp only [midLoopD, midLoop, bitsLoopD_ofNat P hP m hm]
    exact midLoopD_ofNat ds _ _

theorem whileLoopD_ofNat (r s1 s2 : Nat) : whileLoopD P (ofNat m) r (ofNat s1, ofNat s2) =
      .ok (ofNat (whileLoop m r (s1, s2)).1, ofNat (whileLoop m r (s1, s2)).2) := by
  induction r using Nat.strong_induction_on generalizing s1 s2 with
  | _ r ih =>
    rw [whileLoopD, whileLoop]
    by_cases h0 : r = 0
    · simp only [h0, dite_true]
    · simp only [h0, dite_false, unitStepD_ofNat P hP m hm]
      exact ih (r / 2) (by omega) _ _

end plain

/-- `plain_modpow` on digit vectors = the value-level `plainModpow` (including its panics) -/
theorem plainModpowD_ofNat (P : Params) (hP : P.ValidMul) (b : Nat) (e : List Nat) (m : Nat) :
    plainModpowD P (ofNat b) e (ofNat m) = (plainModpow b e m).map ofNat := by
  unfold plainModpowD plainModpow
  by_cases hm : m = 0
  · simp only [hm, ofNat_zero, if_true]; rfl
  · simp only [hm, ofNat_eq_nil_iff, if_false]
    cases hf : firstNonzero e with
    | none => simp only [Except.map, ofNat_one]
    | some i =>
      simp only [remRef_ofNat P _ _ hm, sqTimesD_ofNat P hP m hm, stripZerosD_ofNat P hP m hm]
      cases hs : stripZeros m (e.getD i 0) 0 (sqTimes m (i * BITS) (b % m)) with
      | error err => rfl
      | ok t =>
        obtain ⟨r, bb, base⟩ := t
        simp only [Except.map]
        by_cases hc : (e.drop (i + 1)).length = 0 ∧ r = 1
        · simp only [hc, and_self, if_true]
        · simp only [hc, if_false]
          cases hl : (e.drop (i + 1)).getLast? with
          | none =>
            by_cases hr : r / 2 = 0
            · simp only [hr, if_true]
            · simp only [hr, if_false, whileLoopD_ofNat P hP m hm]
          | some last =>
            simp only [bitsLoopD_ofNat P hP m hm, midLoopD_ofNat P hP m hm]
            by_cases hr : last = 0
            · simp only [hr, if_true]
            · simp only [hr, if_false, whileLoopD_ofNat P hP m hm]

theorem plainModpowD_refines (P : Params) (hP : P.ValidMul) (b e m : List Nat) (hb : Canon b) (hm : Canon m) :
    plainModpowD P b e m = (plainModpow (val b) e (val m)).map ofNat := by
  have := plainModpowD_ofNat P hP (val b) e (val m)
  rwa [← canon_eq_ofNat hb, ← canon_eq_ofNat hm] at this

/-! ## `BigUint::modinv` -/

/-- one Euclid step at least halves the product of the two remainders -/
theorem euclid_product_halves {r0 r1 f : Nat} (h1 : r1 ≠ 0) (hlt : r1 < r0) (hp : r0 * r1 < 2 ^ (f + 1)) :
    r0 % r1 < r1 ∧ r1 * (r0 % r1) < 2 ^ f := by
  have hm : r0 % r1 < r1 := Nat.mod_lt _ (Nat.pos_of_ne_zero h1)
  have hq : 1 ≤ r0 / r1 := Nat.div_pos (Nat.le_of_lt hlt) (Nat.pos_of_ne_zero h1)
  have hd := Nat.div_add_mod r0 r1
  have h2 : r1 + r0 % r1 ≤ r0 := by
    have : r1 * 1 ≤ r1 * (r0 / r1) := Nat.mul_le_mul_left _ hq
    omega
  have h3 : 2 * (r1 * (r0 % r1)) < r0 * r1 := by
    have hpos : 0 < r1 := Nat.pos_of_ne_zero h1
    nlinarith
  rw [pow_succ] at hp
  exact ⟨hm, by omega⟩

/-- a positive product below `2^0`·… cannot exist: with no fuel left the loop has already stopped -/
theorem euclid_fuel_zero {r0 r1 : Nat} (hlt : r1 < r0) (hp : r0 * r1 < 2 ^ 0) : r1 = 0 := by
  rcases Nat.eq_zero_or_pos r1 with h | h
  · exact h
  · have : 1 * 1 ≤ r0 * r1 := Nat.mul_le_mul (by omega) h
    simp at hp; omega

theorem modinvLoopD_ofNat (P : Params) (hP : P.ValidMul) (m : Nat) (hm : m ≠ 0) :
    ∀ fuel r0 r1 t0 t1, r1 < r0 → r0 * r1 < 2 ^ fuel →
      modinvLoopD P (ofNat m) (fuel + 1) (ofNat r0) (ofNat r1) (ofNat t0) (ofNat t1) =
        (modinvLoop m r0 r1 t0 t1).map (fun p => (ofNat p.1, ofNat p.2)) := by
  intro fuel
  induction fuel with
  | zero =>
    intro r0 r1 t0 t1 hlt hp
    have h1 := euclid_fuel_zero hlt hp
    rw [modinvLoopD, modinvLoop]
    simp only [h1, ofNat_zero, if_true, dite_true]; rfl
  | succ f ih =>
    intro r0 r1 t0 t1 hlt hp
    rw [modinvLoopD, modinvLoop]
    by_cases h1 : r1 = 0
    · simp only [h1, ofNat_zero, if_true, dite_true]; rfl
    · obtain ⟨hml, hpr⟩ := euclid_product_halves h1 hlt hp
      simp only [h1, ofNat_eq_nil_iff, if_false, dite_false, divRemRef_ofNat P _ _ h1, mulRef_ofNat P hP,
        remRef_ofNat P _ _ hm, cmpSlice_ofNat, Nat.compare_eq_lt]
      by_cases hc : t0 < r0 / r1 * t1 % m
      · simp only [hc, if_true, subRefVal_ofNat, subU]
        by_cases hu : m < r0 / r1 * t1 % m
        · simp only [hu, if_true]; rfl
        · simp only [hu, if_false, addRef_ofNat]
          exact ih _ _ _ _ hml hpr
      · simp only [hc, if_false, subAssign_ofNat]
        exact ih _ _ _ _ hml hpr

theorem ofNat_mul_lt (a b : Nat) : a * b < 2 ^ (BITS * ((ofNat a).length + (ofNat b).length)) := by
  have ha := val_lt (ofNat_digitsOk a)
  have hb := val_lt (ofNat_digitsOk b)
  rw [ofNat_val] at ha hb
  have : 2 ^ (BITS * ((ofNat a).length + (ofNat b).length)) = B ^ (ofNat a).length * B ^ (ofNat b).length := by
    rw [B_eq_bits, ← pow_mul, ← pow_mul, ← pow_add, Nat.mul_add]
  rw [this]
  exact Nat.mul_lt_mul'' ha hb

/-- `BigUint::modinv` on digit vectors = the value-level `modinvU` (including its panics) -/
theorem modinvD_ofNat (P : Params) (hP : P.ValidMul) (a m : Nat) :
    modinvD P (ofNat a) (ofNat m) = (modinvU a m).map (Option.map ofNat) := by
  unfold modinvD modinvU
  by_cases hm : m = 0
  · simp only [hm, ofNat_zero, if_true]; rfl
  · simp only [hm, ofNat_eq_nil_iff, ofNat_eq_one_iff, if_false, remRef_ofNat P _ _ hm]
    by_cases hm1 : m = 1
    · simp only [hm1, if_true, Except.map, Option.map, ofNat_zero]
    · simp only [hm1, if_false]
      by_cases h0 : a % m = 0
      · simp only [h0, if_true]; rfl
      · simp only [h0, if_false]
        by_cases h1 : a % m = 1
        · simp only [h1, if_true]; rfl
        · simp only [h1, if_false, divRemRef_ofNat P _ _ h0, ofNat_eq_nil_iff]
          by_cases h2 : m % (a % m) = 0
          · simp only [h2, if_true]; rfl
          · simp only [h2, if_false, subRefVal_ofNat, subU]
            by_cases hu : m < m / (a % m)
            · simp only [hu, if_true]; rfl
            · simp only [hu, if_false]
              have hloop := modinvLoopD_ofNat P hP m hm
                (BITS * ((ofNat (a % m)).length + (ofNat (m % (a % m))).length)) (a % m) (m % (a % m)) 1
                (m - m / (a % m)) (Nat.mod_lt _ (Nat.pos_of_ne_zero h0)) (ofNat_mul_lt _ _)
              rw [ofNat_one] at hloop
              rw [hloop]
              cases modinvLoop m (a % m) (m % (a % m)) 1 (m - m / (a % m)) with
              | error e => rfl
              | ok p =>
                obtain ⟨r0, t0⟩ := p
                simp only [Except.map, ofNat_eq_one_iff]
                by_cases hr : r0 = 1
                · simp only [hr, if_true, Option.map]
                · simp only [hr, if_false, Option.map]

theorem modinvD_eq (P : Params) (hP : P.ValidMul) (a m : List Nat) (ha : Canon a) (hm : Canon m) :
    modinvD P a m = (modinvU (val a) (val m)).map (Option.map ofNat) := by
  have := modinvD_ofNat P hP (val a) (val m)
  rwa [← canon_eq_ofNat ha, ← canon_eq_ofNat hm] at this

/-! ## sign placement and the BigInt wrappers -/

theorem signPlaceD_ofNat (P : Params) (xneg mneg : Bool) (m r : Nat) :
    signPlaceD P xneg mneg (ofNat m) (ofNat r) =
      (signPlace xneg mneg m r).map (fun p => (p.1, ofNat p.2)) := by
  cases xneg <;> cases mneg <;> simp only [signPlaceD, signPlace, subRefVal_ofNat, subU] <;>
    first | rfl | (by_cases h : m < r <;> simp only [h, if_true, if_false] <;> rfl)

/-- `BigInt::modinv` on digit vectors = the value-level `BigInt.modinv` -/
theorem bigint_modinvD_eq (P : Params) (hP : P.ValidMul) (x m : BigInt) (hx : Canon x.mag) (hm : Canon m.mag) :
    BigInt.modinvD P x m = BigInt.modinv x m := by
  unfold BigInt.modinvD BigInt.modinv
  rw [modinvD_eq P hP _ _ hx hm]
  cases modinvU (val x.mag) (val m.mag) with
  | error e => rfl
  | ok o =>
    cases o with
    | none => rfl
    | some r =>
      simp only [Except.map, Option.map, ofNat_eq_nil_iff]
      by_cases h0 : r = 0
      · simp only [h0, if_true]
      · simp only [h0, if_false]
        have := signPlaceD_ofNat P (x.sign = .minus) (m.sign = .minus) (val m.mag) r
        rw [← canon_eq_ofNat hm] at this
        rw [this]
        cases signPlace (decide (x.sign = .minus)) (decide (m.sign = .minus)) (val m.mag) r with
        | error e => rfl
        | ok p => rfl

/-- `BigInt::modpow` on digit vectors = the value-level `BigInt.modpow`, whenever the unsigned digit-level
    `modpow` agrees with the unsigned model and yields a canonical vector (supplied by `modpowD_spec`) -/
theorem bigint_modpowD_of (P : Params) (x e m : BigInt) (hm : m.Canon)
    (hU : m.mag ≠ [] → ∃ v, modpowD P x.mag e.mag m.mag = .ok (ofNat v) ∧ modpowU P x.mag e.mag m.mag = .ok (ofNat v)) :
    BigInt.modpowD P x e m = BigInt.modpow P x e m := by
  unfold BigInt.modpowD BigInt.modpow
  by_cases he : e.sign = .minus
  · simp only [he, if_true]
  · simp only [he, if_false]
    by_cases hs : m.sign = .nosign
    · simp only [hs, if_true]
    · simp only [hs, if_false]
      obtain ⟨v, h1, h2⟩ := hU (fun h => hs (hm.2.mpr h))
      rw [h1, h2]
      simp only [ofNat_eq_nil_iff, ofNat_val]
      by_cases h0 : v = 0
      · simp only [h0, if_true]
      · simp only [h0, if_false]
        have := signPlaceD_ofNat P (x.sign = .minus && isOddU e.mag) (m.sign = .minus) (val m.mag) v
        rw [← canon_eq_ofNat hm.1] at this
        rw [this]
        cases signPlace (decide (x.sign = .minus) && isOddU e.mag) (decide (m.sign = .minus)) (val m.mag) v with
        | error e => rfl
        | ok p => rfl

/-! ## `monty_modpow` -/

/-- `montyCore` really is the middle of the value-level `montyModpow`: unconditionally (no hypotheses) -/
theorem montyModpow_eq_core (P : Params) (x y : List Nat) (m0 : Nat) (mt : List Nat) :
    montyModpow P x y (m0 :: mt) =
      if m0 &&& 1 ≠ 1 then .error (.internal "monty_modpow: assert odd") else
      match invModAlt m0 with
      | .error e => .error e
      | .ok k =>
        let m := m0 :: mt
        let n := m.length
        let x := if x.length > n then ofNat (val x % val m) else x
        let x := if x.length < n then padTo x n else x
        let rr := ofNat (2 ^ (2 * n * BITS) % val m)
        let rr := if rr.length < n then padTo rr n else rr
        match montyCore P x rr m k n y with
        | .error e => .error e
        | .ok zz =>
          let v := val zz
          let vm := val m
          let v := if v ≥ vm then
              let v := v - vm
              if v ≥ vm then v % vm else v
            else v
          .ok (ofNat v) := by
  unfold montyModpow montyCore
  simp only []
  by_cases h1 : m0 &&& 1 ≠ 1
  · simp only [if_pos h1]
  · simp only [if_neg h1]
    cases invModAlt m0 with
    | error e => rfl
    | ok k =>
      simp only []
      by_cases hw : P.window = 0
      · simp only [hw, if_true]
      · simp only [hw, if_false]
        generalize montgomery (padTo _ _) _ _ _ _ = r0
        cases r0 with
        | error e => rfl
        | ok p0 =>
          simp only []
          generalize montgomery _ _ _ _ _ = r1
          cases r1 with
          | error e => rfl
          | ok p1 =>
            simp only []
            generalize tableLoop _ _ _ _ _ _ = r2
            cases r2 with
            | error e => rfl
            | ok rest =>
              simp only []
              generalize digitLoop _ _ _ _ _ _ _ _ _ = r3
              cases r3 with
              | error e => rfl
              | ok z => rfl

/-- the Montgomery core (table, windows, conversion out) on prepared operands: `x2 ≡ X`, `rr ≡ R²`,
    both of `n` proper digits.  Same argument as the middle of `montyModpow_spec`, but exposing the
    digit vector `zz` so that the digit-level final reduction can be applied to it. -/
theorem montyCore_spec (P : Params) (hw0 : 0 < P.window) (hwd : P.window ∣ 64)
    (hsq : P.squarings = P.window) {m : List Nat} {k : Nat} (hctx : MCtx m k)
    (x2 rr y : List Nat) (X : Nat)
    (lx2 : x2.length = m.length) (dx2 : DigitsOk x2) (cx : val x2 ≡ X [MOD val m])
    (lrr : rr.length = m.length) (drr : DigitsOk rr)
    (crr : val rr ≡ B ^ m.length * B ^ m.length [MOD val m]) (hy : DigitsOk y) :
    ∃ zz, montyCore P x2 rr m k m.length y = .ok zz ∧ zz.length = m.length ∧ DigitsOk zz ∧
      val zz ≡ X ^ val y [MOD val m] := by
  unfold montyCore
  simp only [hsq]
  generalize P.window = w at *
  have hcop := mctx_coprime hctx
  have hnpos : 0 < m.length := by
    obtain ⟨m0, mt, rfl, _⟩ := hctx; simp
  have lone : (padTo [1] m.length).length = m.length := padTo_length _ _ (by simp; omega)
  have done : DigitsOk (padTo [1] m.length) := padTo_ok _ _ (DigitsOk.cons (by decide) DigitsOk.nil)
  have vone : val (padTo [1] m.length) = 1 := by rw [padTo_val]; simp [val]
  generalize padTo [1] m.length = one at *
  have hwne : ¬ (w = 0) := by omega
  simp only [hwne, if_false]
  obtain ⟨p0, e0, l0, d0, c0⟩ := mont_mul hctx one rr lone lrr done drr
  have r0 : Rep m p0 (X ^ 0) := by
    refine ⟨l0, d0, ?_⟩
    apply Nat.ModEq.cancel_right_of_coprime hcop
    rw [vone, Nat.one_mul] at c0
    rw [pow_zero, Nat.one_mul]
    exact c0.trans crr
  obtain ⟨p1, e1, l1, d1, c1⟩ := mont_mul hctx x2 rr lx2 lrr dx2 drr
  have r1 : Rep m p1 X := by
    refine ⟨l1, d1, ?_⟩
    apply Nat.ModEq.cancel_right_of_coprime hcop
    have : val x2 * val rr ≡ X * (B ^ m.length * B ^ m.length) [MOD val m] := cx.mul crr
    rw [← Nat.mul_assoc] at this
    exact c1.trans this
  rw [e0]; simp only []
  rw [e1]; simp only []
  have r1' : Rep m p1 (X ^ 1) := by simpa using r1
  obtain ⟨rest, et, ht⟩ := tableLoop_spec hctx X p1 r1 (2 ^ w - 2) p1 1 r1'
  rw [et]; simp only []
  have hT : Table m X (p0 :: p1 :: rest) (2 ^ w) := by
    intro i hi
    match i with
    | 0 => exact ⟨p0, rfl, r0⟩
    | 1 => exact ⟨p1, rfl, r1'⟩
    | i + 2 =>
      obtain ⟨p, hp, hr⟩ := ht i (by omega)
      refine ⟨p, by simpa using hp, ?_⟩
      have : 1 + 1 + i = i + 2 := by omega
      rw [this] at hr; exact hr
  have hrs : resize p0 m.length = p0 := by rw [← l0]; exact resize_self p0
  rw [hrs]
  obtain ⟨z, ez, rz⟩ := digitLoop_spec hctx X (p0 :: p1 :: rest) w hw0 hwd hT y.length y.reverse p0 0
    (by intro d hd; exact hy d (List.mem_reverse.mp hd)) (by simp) (fun _ => rfl) r0
  rw [ez]; simp only []
  rw [List.reverse_reverse, Nat.zero_mul, Nat.zero_add] at rz
  obtain ⟨zz, ezz, lzz, dzz, czz⟩ := mont_mul hctx z one rz.1 lone rz.2.1 done
  refine ⟨zz, ezz, lzz, dzz, ?_⟩
  apply Nat.ModEq.cancel_right_of_coprime hcop
  rw [vone, Nat.mul_one] at czz
  exact czz.trans rz.2.2

/-- the final `normalize / >= / -= / >= / %= / normalize` sequence computes `zz mod m` -/
theorem montyFinalD_spec (P : Params) (zz m : List Nat) (hz : DigitsOk zz) (hm : Canon m) (hm0 : m ≠ []) :
    montyFinalD P zz m = .ok (ofNat (val zz % val m)) := by
  have hM : val m ≠ 0 := fun h => hm0 (canon_val_zero hm h)
  have e1 : normalize zz = ofNat (val zz) := by
    have := canon_eq_ofNat (normalize_canon hz); rwa [normalize_val] at this
  have e2 : m = ofNat (val m) := canon_eq_ofNat hm
  generalize val zz = v at *
  generalize val m = M at *
  subst e2
  have hn : ∀ t, normalize (ofNat t) = ofNat t := fun t => normalize_of_canon (ofNat_canon t)
  unfold montyFinalD
  simp only [e1, cmpSlice_ofNat, hn]
  rw [← last_reduction v M (Nat.pos_of_ne_zero hM)]
  by_cases h1 : v < M
  · have : ¬ v ≥ M := by omega
    simp [Nat.compare_eq_lt.mpr h1, this]
  · have h1' : v ≥ M := by omega
    have hc : compare v M ≠ .lt := by rw [Ne, Nat.compare_eq_lt]; exact h1
    simp only [hc, ne_eq, not_false_eq_true, if_true, subAssign_ofNat, h1, if_false, cmpSlice_ofNat, hn, h1']
    by_cases h2 : v - M < M
    · have : ¬ v - M ≥ M := by omega
      simp [Nat.compare_eq_lt.mpr h2, this]
    · have h2' : v - M ≥ M := by omega
      have hc2 : compare (v - M) M ≠ .lt := by rw [Ne, Nat.compare_eq_lt]; exact h2
      simp only [hc2, not_false_eq_true, if_true, remRef_ofNat P _ _ hM, hn, h2']

/-- `rr = (1 << 2·64·n) % m` -/
theorem montyRRD_spec (P : Params) (m : List Nat) (n : Nat) (hm : Canon m) (hm0 : m ≠ [])
    (hsz : 2 * n * BITS < C07.U64_RANGE) :
    montyRRD P m n = .ok (ofNat (2 ^ (2 * n * BITS) % val m)) := by
  unfold montyRRD
  have h1 : ¬ (2 * n * BITS ≥ C07.U64_RANGE) := by omega
  simp only [h1, if_false]
  have hc1 : Canon [1] := by decide
  rw [C07.shl_spec [1] _ hc1 (Int.natCast_nonneg _) (by
    intro _
    rw [Int.toNat_natCast]
    exact Nat.lt_of_le_of_lt (Nat.div_le_self _ _) hsz)]
  simp only [Int.toNat_natCast]
  have hv : val [1] = 1 := by simp [val]
  rw [hv, Nat.one_mul, remRef_spec P _ _ (ofNat_canon _) hm, if_neg hm0, ofNat_val]

/-- `monty_modpow(x, y, m)` with digit-level operators, odd canonical modulus: canonical digits of `x^y mod m` -/
theorem montyModpowD_spec (P : Params) (hw0 : 0 < P.window) (hwd : P.window ∣ 64)
    (hsq : P.squarings = P.window) (x y m : List Nat) (m0 : Nat) (mt : List Nat)
    (hm : m = m0 :: mt) (hodd : m0 % 2 = 1) (hx : Canon x) (hy : DigitsOk y) (hmc : Canon m)
    (hsz : 2 * m.length * BITS < C07.U64_RANGE) :
    montyModpowD P x y m = .ok (ofNat (val x ^ val y % val m)) := by
  have hmd := hmc.1
  have hm0 : m ≠ [] := by rw [hm]; simp
  subst hm
  unfold montyModpowD
  simp only []
  have h1 : ¬ (m0 &&& 1 ≠ 1) := by rw [Nat.and_one_is_mod]; omega
  simp only [h1, if_false]
  obtain ⟨k, hk, hkB, hkm⟩ := invModAlt_spec m0 hmd.head hodd
  rw [hk]
  simp only []
  have hctx : MCtx (m0 :: mt) k := ⟨m0, mt, rfl, hodd, hkm, hmd⟩
  have hMpos := mctx_pos hctx
  have hMlt : val (m0 :: mt) < B ^ (m0 :: mt).length := val_lt hmd
  generalize hmm : m0 :: mt = m at *
  -- `x %= m`
  have hx1 : ∃ x1, (if x.length > m.length then remRef P x m else .ok x) = .ok x1 ∧ x1.length ≤ m.length ∧
      DigitsOk x1 ∧ val x1 ≡ val x [MOD val m] := by
    by_cases hl : x.length > m.length
    · simp only [hl, if_true, remRef_spec P x m hx hmc, hm0, if_false]
      refine ⟨_, rfl, ofNat_length_le _ _ (Nat.lt_trans (Nat.mod_lt _ hMpos) hMlt), ofNat_digitsOk _, ?_⟩
      rw [ofNat_val]; exact Nat.mod_modEq _ _
    · simp only [hl, if_false]
      exact ⟨x, rfl, by omega, hx.1, Nat.ModEq.refl _⟩
  obtain ⟨x1, ex1, lx1, dx1, cx1⟩ := hx1
  rw [ex1]; simp only []
  obtain ⟨lx2, dx2, vx2⟩ := fit_spec x1 m.length lx1 dx1
  generalize (if x1.length < m.length then padTo x1 m.length else x1) = x2 at *
  -- rr
  rw [montyRRD_spec P m m.length hmc hm0 hsz]; simp only []
  have hrr1 : (ofNat (2 ^ (2 * m.length * BITS) % val m)).length ≤ m.length :=
    ofNat_length_le _ _ (Nat.lt_trans (Nat.mod_lt _ hMpos) hMlt)
  obtain ⟨lrr, drr, vrr⟩ := fit_spec _ m.length hrr1 (ofNat_digitsOk _)
  generalize (if (ofNat (2 ^ (2 * m.length * BITS) % val m)).length < m.length
    then padTo (ofNat (2 ^ (2 * m.length * BITS) % val m)) m.length
    else ofNat (2 ^ (2 * m.length * BITS) % val m)) = rr at *
  rw [ofNat_val] at vrr
  have crr : val rr ≡ B ^ m.length * B ^ m.length [MOD val m] := by
    rw [vrr]
    have : 2 ^ (2 * m.length * BITS) = B ^ m.length * B ^ m.length := by
      rw [B_eq, ← pow_mul, ← pow_add, BITS_eq]; congr 1; ring
    rw [this]; exact Nat.mod_modEq _ _
  obtain ⟨zz, ezz, _, dzz, czz⟩ := montyCore_spec P hw0 hwd hsq hctx x2 rr y (val x) lx2 dx2 (by rw [vx2]; exact cx1)
    lrr drr crr hy
  rw [ezz]; simp only []
  rw [montyFinalD_spec P zz m dzz hmc hm0]
  congr 2

end NB
