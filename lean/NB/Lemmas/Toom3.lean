/- Toom-3 branch of `mac3`, the `impl_mul!` shape match over a correct callee, and the
   specification of one whole recursion level (`mac3Body_spec`) -/
import NB.Lemmas.Mac3
namespace NB.Mul

/-! ### the `impl_mul!` shape match and BigInt products over a correct `mac3` -/

theorem mul3With_spec (P : Params) (hP : P.ValidMul) {rec : MacFn} {N : Nat} (hrec : MacSpec rec N)
    (x y : List Nat) (hx : DigitsOk x) (hy : DigitsOk y) (hN : x.length + y.length < N) :
    mul3With P rec x y = .ok (ofNat (val x * val y)) := by
  obtain ⟨r, e, c, v, _⟩ := fresh_mac hrec (x.length + y.length + P.mulSlack) x y hx hy hN
    (by have := hP.2.1; omega)
  unfold mul3With
  simp only [e]
  rw [canon_eq_ofNat c, v]

theorem mulMagWith_spec (P : Params) (hP : P.ValidMul) {rec : MacFn} {N : Nat} (hrec : MacSpec rec N)
    (a b : List Nat) (ha : Canon a) (hb : Canon b) (hN : a.length + b.length < N) :
    mulMagWith P rec a b = .ok (ofNat (val a * val b)) := by
  have h0 : ofNat 0 = [] := by unfold ofNat; simp
  rcases a with _ | ⟨a1, _ | ⟨a2, at'⟩⟩ <;> rcases b with _ | ⟨b1, _ | ⟨b2, bt⟩⟩
  · simp [mulMagWith, val, h0]
  · simp [mulMagWith, val, h0]
  · simp [mulMagWith, val, h0]
  · simp [mulMagWith, val, h0]
  · simp only [mulMagWith]
    rw [scalarMul_spec [a1] b1 ha hb.1.head]; simp [val]
  · simp only [mulMagWith]
    rw [scalarMul_spec (b1 :: b2 :: bt) a1 hb ha.1.head]; simp only [val, Nat.mul_zero, Nat.add_zero]
    rw [Nat.mul_comm]
  · simp [mulMagWith, val, h0]
  · simp only [mulMagWith]
    rw [scalarMul_spec (a1 :: a2 :: at') b1 ha hb.1.head]; simp only [val, Nat.mul_zero, Nat.add_zero]
  · simp only [mulMagWith]
    exact mul3With_spec P hP hrec _ _ ha.1 hb.1 hN

theorem mulInt_spec (P : Params) (hP : P.ValidMul) {rec : MacFn} {N : Nat} (hrec : MacSpec rec N)
    (a b : Int) (hN : (ofNat a.natAbs).length + (ofNat b.natAbs).length < N) :
    mulInt P rec a b = .ok (a * b) := by
  unfold mulInt
  rw [mulMagWith_spec P hP hrec _ _ (ofNat_canon _) (ofNat_canon _) hN]
  simp only [ofNat_val]
  congr 1
  have h1 := Int.sign_mul_natAbs a
  have h2 := Int.sign_mul_natAbs b
  calc a.sign * b.sign * ((a.natAbs * b.natAbs : Nat) : Int)
      = (a.sign * (a.natAbs : Int)) * (b.sign * (b.natAbs : Int)) := by push_cast; ring
    _ = a * b := by rw [h1, h2]

/-! ### Bodrato interpolation -/

theorem toom_interp (x0 x1 x2 y0 y1 y2 : Int) :
    let r0 := x0 * y0
    let r4 := x2 * y2
    let r1 := (x0 + x2 + x1) * (y0 + y2 + y1)
    let r2 := (x0 + x2 - x1) * (y0 + y2 - y1)
    let r3 := ((x0 + x2 - x1 + x2) * 2 - x0) * ((y0 + y2 - y1 + y2) * 2 - y0)
    let c3a := (r3 - r1).tdiv 3
    let c1a := (r1 - r2) >>> 1
    let c2a := r2 - r0
    let c3 := ((c2a - c3a) >>> 1) + r4 * 2
    let c2 := c2a + (c1a - r4)
    let c1 := c1a - c3
    c1 = x0 * y1 + x1 * y0 ∧ c2 = x0 * y2 + x1 * y1 + x2 * y0 ∧ c3 = x1 * y2 + x2 * y1 := by
  intro r0 r4 r1 r2 r3 c3a c1a c2a c3 c2 c1
  have h31 : r3 - r1 = 3 * (-(x0 * y1 + x1 * y0) + (x0 * y2 + x1 * y1 + x2 * y0)
      - 3 * (x1 * y2 + x2 * y1) + 5 * (x2 * y2)) := by
    simp only [r3, r1]; ring
  have hc3a : c3a = -(x0 * y1 + x1 * y0) + (x0 * y2 + x1 * y1 + x2 * y0)
      - 3 * (x1 * y2 + x2 * y1) + 5 * (x2 * y2) := by
    simp only [c3a]; rw [h31]; exact Int.mul_tdiv_cancel_left _ (by decide)
  have h12 : r1 - r2 = 2 * ((x0 * y1 + x1 * y0) + (x1 * y2 + x2 * y1)) := by
    simp only [r1, r2]; ring
  have hc1a : c1a = (x0 * y1 + x1 * y0) + (x1 * y2 + x2 * y1) := by
    simp only [c1a]; rw [h12, Int.shiftRight_eq_div_pow]; exact Int.mul_ediv_cancel_left _ (by decide)
  have hc2a : c2a = -(x0 * y1 + x1 * y0) + (x0 * y2 + x1 * y1 + x2 * y0) - (x1 * y2 + x2 * y1)
      + x2 * y2 := by
    simp only [c2a, r2, r0]; ring
  have h23 : c2a - c3a = 2 * ((x1 * y2 + x2 * y1) - 2 * (x2 * y2)) := by rw [hc2a, hc3a]; ring
  have hc3 : c3 = x1 * y2 + x2 * y1 := by
    simp only [c3]; rw [h23, Int.shiftRight_eq_div_pow]
    rw [show ((2:Int) * (x1 * y2 + x2 * y1 - 2 * (x2 * y2))) / ((2 ^ 1 : Nat) : Int)
        = x1 * y2 + x2 * y1 - 2 * (x2 * y2) from Int.mul_ediv_cancel_left _ (by decide)]
    simp only [r4]; ring
  refine ⟨?_, ?_, hc3⟩
  · simp only [c1]; rw [hc1a, hc3]; ring
  · simp only [c2]; rw [hc2a, hc1a]; simp only [r4]; ring

/-! ### sizes -/

/-- in the Toom-3 regime the part length `i` satisfies `i + 2 ≤ x.len()` -/
theorem toom_i_bound (P : Params) (hP : P.ValidMul) (lx ly : Nat) (h1 : P.tKara < lx)
    (h2 : ¬ lx * P.halfMul ≤ ly) : ly / P.toomDen + P.toomAdd + 2 ≤ lx := by
  obtain ⟨_, _, _, _, _, _, _, hden, hk⟩ := hP
  have hq : P.toomDen * (ly / P.toomDen) ≤ ly := Nat.mul_div_le _ _
  generalize ly / P.toomDen = q at *
  by_contra hlt
  have hle : lx ≤ q + P.toomAdd + 1 := by omega
  have a1 : lx * P.halfMul ≤ (q + P.toomAdd + 1) * P.halfMul := Nat.mul_le_mul_right _ hle
  have a2 : (P.halfMul + 1) * q ≤ P.toomDen * q := Nat.mul_le_mul_right _ hden
  have e1 : (q + P.toomAdd + 1) * P.halfMul = q * P.halfMul + (P.toomAdd + 1) * P.halfMul := by ring
  have e2 : (P.halfMul + 1) * q = q * P.halfMul + q := by ring
  have e3 : (P.halfMul + 1) * (P.toomAdd + 1) = (P.toomAdd + 1) * P.halfMul + (P.toomAdd + 1) := by ring
  rw [e1] at a1; rw [e2] at a2; rw [e3] at hk
  generalize q * P.halfMul = u at *
  generalize (P.toomAdd + 1) * P.halfMul = v at *
  omega

/-- the three parts of an operand -/
theorem toomSplit_spec (x : List Nat) (hx : DigitsOk x) (i : Nat) (hi : i ≤ x.length) :
    ∃ X0 X1 X2 : Nat, toomSplit i (min (x.length - i) i) x = ((X0 : Int), (X1 : Int), (X2 : Int)) ∧
      val x = X0 + B ^ i * X1 + B ^ i * B ^ i * X2 ∧ X0 < B ^ i ∧ X1 < B ^ i ∧
      X2 < B ^ (x.length - 2 * i) := by
  refine ⟨_, _, _, rfl, ?_, ?_, ?_, ?_⟩
  · have h1 := mx_val_split i x hi
    by_cases hc : i ≤ x.length - i
    · rw [Nat.min_eq_right hc]
      have hdl : (x.drop i).length = x.length - i := List.length_drop
      have h2 := mx_val_split i (x.drop i) (by rw [hdl]; exact hc)
      rw [List.drop_drop] at h2
      rw [h1, h2]; ring
    · have hm : min (x.length - i) i = x.length - i := Nat.min_eq_left (by omega)
      rw [hm]
      have hdl : (x.drop i).length = x.length - i := List.length_drop
      have ht : (x.drop i).take (x.length - i) = x.drop i := List.take_of_length_le (by rw [hdl])
      rw [ht]
      have : i + (x.length - i) = x.length := by omega
      rw [this, List.drop_length]
      simp only [val, Nat.mul_zero, Nat.add_zero]
      exact h1
  · have := val_lt (hx.take i); rwa [List.length_take, Nat.min_eq_left hi] at this
  · have h := val_lt ((hx.drop i).take (min (x.length - i) i))
    refine Nat.lt_of_lt_of_le h (mx_pow_le_pow_B ?_)
    rw [List.length_take]; omega
  · have h := val_lt (hx.drop (i + min (x.length - i) i))
    refine Nat.lt_of_lt_of_le h (mx_pow_le_pow_B ?_)
    rw [List.length_drop]; omega

/-- every evaluation point of an operand whose parts are `< M` has magnitude `< 7 * M` -/
theorem toomPts_bound (X0 X1 X2 M : Nat) (h0 : X0 < M) (h1 : X1 < M) (h2 : X2 < M) :
    (toomPts X0 X1 X2).1.natAbs < 7 * M ∧ (toomPts X0 X1 X2).2.1.natAbs < 7 * M ∧
    (toomPts X0 X1 X2).2.2.1.natAbs < 7 * M ∧ (toomPts X0 X1 X2).2.2.2.1.natAbs < 7 * M ∧
    (toomPts X0 X1 X2).2.2.2.2.natAbs < 7 * M := by
  simp only [toomPts]
  refine ⟨?_, ?_, ?_, ?_, ?_⟩ <;> omega

theorem ofNat_natAbs_length {a : Int} {M k : Nat} (h : a.natAbs < 7 * M) (hM : M ≤ B ^ k) :
    (ofNat a.natAbs).length ≤ k + 1 := by
  apply mx_ofNat_length_le
  have h7 : 7 ≤ B := by decide
  calc a.natAbs < 7 * M := h
    _ ≤ B * B ^ k := Nat.mul_le_mul h7 hM
    _ = B ^ (k + 1) := by rw [pow_succ]; ring

/-- one recomposition step with a non-negative coefficient -/
theorem toomAdd1_spec (P : Params) (off : Nat) (w : Int) (wn : Nat) (hw : w = (wn : Int)) (acc : List Nat)
    (ha : DigitsOk acc) (hv : val acc + B ^ off * wn < B ^ (acc.length - 1)) :
    ∃ r, toomAdd1 P off w acc = .ok r ∧ val r = val acc + B ^ off * wn ∧ r.length = acc.length ∧
      DigitsOk r := by
  subst hw
  unfold toomAdd1
  by_cases h0 : wn = 0
  · subst h0
    simp only [Int.natCast_zero, lt_self_iff_false, if_false]
    exact ⟨acc, rfl, by simp, rfl, ha⟩
  · have hpos : (0 : Int) < (wn : Int) := by omega
    simp only [gt_iff_lt, hpos, if_true, Int.natAbs_natCast]
    have h1 : B ^ off * 1 ≤ B ^ off * wn := Nat.mul_le_mul_left _ (by omega)
    have hoff : off < acc.length - 1 := by
      have : B ^ off < B ^ (acc.length - 1) := by omega
      exact (Nat.pow_lt_pow_iff_right mx_one_lt_B).mp this
    have hwlt : wn < B ^ (acc.length - 1 - off) := by
      apply mx_lt_of_mul_add_lt (lo := 0) (P := B ^ off)
      rw [← mx_pow_split (by omega : off ≤ acc.length - 1)]; omega
    have hlen := mx_ofNat_length_le hwlt
    have hpow : B ^ (acc.length - 1) ≤ B ^ acc.length := mx_pow_le_pow_B (by omega)
    obtain ⟨r, e, v, l, d⟩ := addAt_spec P off acc (ofNat wn) ha (ofNat_digitsOk _) (by omega)
      (by rw [ofNat_val]; omega)
    rw [ofNat_val] at v
    exact ⟨r, e, v, l, d⟩

/-! ### the Toom-3 branch -/

theorem toom_expand (X0 X1 X2 Y0 Y1 Y2 W : Nat) (i : Nat) (hW : W = B ^ i) :
    (X0 + W * X1 + W * W * X2) * (Y0 + W * Y1 + W * W * Y2)
      = B ^ (i * 0) * (X0 * Y0) + B ^ (i * 1) * (X0 * Y1 + X1 * Y0) + B ^ (i * 2) * (X0 * Y2 + X1 * Y1 + X2 * Y0)
        + B ^ (i * 3) * (X1 * Y2 + X2 * Y1) + B ^ (i * 4) * (X2 * Y2) := by
  subst hW
  simp only [pow_mul]
  ring

theorem toom3_spec (P : Params) (hP : P.ValidMul) {rec : MacFn} {N : Nat} (hrec : MacSpec rec N)
    (acc x y : List Nat) (hpre : MacPre acc x y) (hN : x.length + y.length ≤ N)
    (hxy : x.length ≤ y.length) (hk : P.tKara < x.length) (hh : ¬ x.length * P.halfMul ≤ y.length) :
    MacOk (toom3 P rec) acc x y := by
  obtain ⟨ha, hx, hy, hl, hv⟩ := hpre
  have hi := toom_i_bound P hP x.length y.length hk hh
  have hi1 : 1 ≤ y.length / P.toomDen + P.toomAdd := le_trans hP.2.2.2.2.2.2.1 (Nat.le_add_left _ _)
  unfold MacOk toom3
  dsimp only
  generalize y.length / P.toomDen + P.toomAdd = i at *
  rw [(lenGe_iff y i).mpr (by omega)]
  simp only [if_true]
  have hmx : min x.length i = i := Nat.min_eq_right (by omega)
  rw [hmx]
  obtain ⟨X0, X1, X2, ex, vx, bx0, bx1, bx2⟩ := toomSplit_spec x hx i (by omega)
  obtain ⟨Y0, Y1, Y2, ey, vy, by0, by1, by2⟩ := toomSplit_spec y hy i (by omega)
  rw [ex, ey]
  -- sizes of the evaluation points
  have hMx : B ^ i ≤ B ^ (x.length - 2) := mx_pow_le_pow_B (by omega)
  have hMx2 : B ^ (x.length - 2 * i) ≤ B ^ (x.length - 2) := mx_pow_le_pow_B (by omega)
  have hMy : B ^ i ≤ B ^ (y.length - 2) := mx_pow_le_pow_B (by omega)
  have hMy2 : B ^ (y.length - 2 * i) ≤ B ^ (y.length - 2) := mx_pow_le_pow_B (by omega)
  obtain ⟨px0, px1, px2, px3, px4⟩ := toomPts_bound X0 X1 X2 (B ^ (x.length - 2)) (by omega) (by omega) (by omega)
  obtain ⟨py0, py1, py2, py3, py4⟩ := toomPts_bound Y0 Y1 Y2 (B ^ (y.length - 2)) (by omega) (by omega) (by omega)
  have lx0 := ofNat_natAbs_length px0 (Nat.le_refl _)
  have lx1 := ofNat_natAbs_length px1 (Nat.le_refl _)
  have lx2 := ofNat_natAbs_length px2 (Nat.le_refl _)
  have lx3 := ofNat_natAbs_length px3 (Nat.le_refl _)
  have lx4 := ofNat_natAbs_length px4 (Nat.le_refl _)
  have ly0 := ofNat_natAbs_length py0 (Nat.le_refl _)
  have ly1 := ofNat_natAbs_length py1 (Nat.le_refl _)
  have ly2 := ofNat_natAbs_length py2 (Nat.le_refl _)
  have ly3 := ofNat_natAbs_length py3 (Nat.le_refl _)
  have ly4 := ofNat_natAbs_length py4 (Nat.le_refl _)
  have e0 := mulInt_spec P hP hrec _ _ (show (ofNat (toomPts X0 X1 X2).1.natAbs).length
      + (ofNat (toomPts Y0 Y1 Y2).1.natAbs).length < N by omega)
  have e4 := mulInt_spec P hP hrec _ _ (show (ofNat (toomPts X0 X1 X2).2.1.natAbs).length
      + (ofNat (toomPts Y0 Y1 Y2).2.1.natAbs).length < N by omega)
  have e1 := mulInt_spec P hP hrec _ _ (show (ofNat (toomPts X0 X1 X2).2.2.1.natAbs).length
      + (ofNat (toomPts Y0 Y1 Y2).2.2.1.natAbs).length < N by omega)
  have e2 := mulInt_spec P hP hrec _ _ (show (ofNat (toomPts X0 X1 X2).2.2.2.1.natAbs).length
      + (ofNat (toomPts Y0 Y1 Y2).2.2.2.1.natAbs).length < N by omega)
  have e3 := mulInt_spec P hP hrec _ _ (show (ofNat (toomPts X0 X1 X2).2.2.2.2.natAbs).length
      + (ofNat (toomPts Y0 Y1 Y2).2.2.2.2.natAbs).length < N by omega)
  simp only [e0, e4, e1, e2, e3, mx_ok_bind]
  simp only [toomPts]
  obtain ⟨h1, h2, h3⟩ := toom_interp X0 X1 X2 Y0 Y1 Y2
  rw [h1, h2, h3]
  -- the exact result in terms of the five coefficients
  have hexp := toom_expand X0 X1 X2 Y0 Y1 Y2 (B ^ i) i rfl
  rw [vx, vy, hexp] at hv
  -- recomposition
  obtain ⟨a4, f4, v4, l4, d4⟩ := toomAdd1_spec P (i * 4) ((X2 : Int) * Y2) (X2 * Y2) (by push_cast; ring)
    acc ha (by omega)
  obtain ⟨a3, f3, v3, l3, d3⟩ := toomAdd1_spec P (i * 3) ((X1 : Int) * Y2 + X2 * Y1) (X1 * Y2 + X2 * Y1)
    (by push_cast; ring) a4 d4 (by rw [l4, v4]; omega)
  obtain ⟨a2, f2, v2, l2, d2⟩ := toomAdd1_spec P (i * 2) ((X0 : Int) * Y2 + X1 * Y1 + X2 * Y0)
    (X0 * Y2 + X1 * Y1 + X2 * Y0) (by push_cast; ring) a3 d3 (by rw [l3, l4, v3, v4]; omega)
  obtain ⟨a1, f1, v1, l1, d1⟩ := toomAdd1_spec P (i * 1) ((X0 : Int) * Y1 + X1 * Y0) (X0 * Y1 + X1 * Y0)
    (by push_cast; ring) a2 d2 (by rw [l2, l3, l4, v2, v3, v4]; omega)
  obtain ⟨a0, f0, v0, l0, d0⟩ := toomAdd1_spec P (i * 0) ((X0 : Int) * Y0) (X0 * Y0) (by push_cast; ring)
    a1 d1 (by rw [l1, l2, l3, l4, v1, v2, v3, v4]; omega)
  refine ⟨a0, ?_, ?_, by rw [l0, l1, l2, l3, l4], d0⟩
  · simp only [f4, f3, f2, f1, mx_ok_bind]
    exact f0
  · rw [v0, v1, v2, v3, v4, vx, vy, hexp]; omega

/-! ### one whole level of `mac3` -/

theorem mx_suffix_apply {f : List Nat → Except Panic (List Nat)} (off : Nat) (acc : List Nat)
    (ha : DigitsOk acc) (hoff : off ≤ acc.length) (v : Nat)
    (hf : ∃ t, f (acc.drop off) = .ok t ∧ val t = val (acc.drop off) + v ∧
      t.length = (acc.drop off).length ∧ DigitsOk t) :
    ∃ r, onSuffix off acc f = .ok r ∧ val r = val acc + B ^ off * v ∧ r.length = acc.length ∧
      DigitsOk r := by
  obtain ⟨t, h1, h2, h3, h4⟩ := hf
  obtain ⟨r1, r2, r3⟩ := mx_suffix_result hoff ha h4 h3 h2
  exact ⟨_, onSuffix_ok hoff h1, r1, r2, r3⟩

theorem mx_drop_bound (off : Nat) (acc : List Nat) (hoff : off + 1 ≤ acc.length) (v : Nat)
    (hv : val acc + B ^ off * v < B ^ (acc.length - 1)) :
    val (acc.drop off) + v < B ^ ((acc.drop off).length - 1) := by
  have hsp := mx_val_split off acc (by omega)
  rw [List.length_drop]
  apply mx_lt_of_mul_add_lt (lo := val (acc.take off)) (P := B ^ off)
  have : B ^ (acc.length - 1) = B ^ off * B ^ (acc.length - off - 1) := by
    rw [← pow_add]; congr 1; omega
  rw [← this, Nat.mul_add]; omega

/-- the regime dispatch on ordered operands -/
theorem mac3Core_ordered (P : Params) (hP : P.ValidMul) {rec : MacFn} {N : Nat} (hrec : MacSpec rec N)
    (acc x y : List Nat) (hpre : MacPre acc x y) (hN : x.length + y.length ≤ N)
    (hxy : x.length ≤ y.length) :
    ∃ r, (if x.length ≤ P.tSchool then school P acc y x
          else if x.length * P.halfMul ≤ y.length then halfKara P rec acc x y
          else if x.length ≤ P.tKara then karatsuba P rec acc x y
          else toom3 P rec acc x y) = .ok r ∧
      val r = val acc + val x * val y ∧ r.length = acc.length ∧ DigitsOk r := by
  by_cases h1 : x.length ≤ P.tSchool
  · simp only [h1, if_true]
    obtain ⟨ha, hx, hy, hl, hv⟩ := hpre
    have hpow : B ^ (acc.length - 1) ≤ B ^ acc.length := mx_pow_le_pow_B (by omega)
    obtain ⟨r, e, v, l, d⟩ := school_spec P y hy x acc hx ha (by intro _; omega)
      (by rw [Nat.mul_comm]; omega)
    exact ⟨r, e, by rw [v, Nat.mul_comm], l, d⟩
  · simp only [h1, if_false]
    by_cases h2 : x.length * P.halfMul ≤ y.length
    · simp only [h2, if_true]
      obtain ⟨_, _, hd2, hd, _⟩ := hP
      exact halfKara_spec P hrec acc x y hpre hN (Nat.div_pos (by omega) (by omega))
        (Nat.div_lt_self (by omega) (by omega))
    · simp only [h2, if_false]
      by_cases h3 : x.length ≤ P.tKara
      · simp only [h3, if_true]
        exact karatsuba_spec P hP hrec acc x y hpre hN hxy (by omega)
      · simp only [h3, if_false]
        exact toom3_spec P hP hrec acc x y hpre hN hxy (by omega) h2

theorem mac3Core_spec (P : Params) (hP : P.ValidMul) {rec : MacFn} {N : Nat} (hrec : MacSpec rec N)
    (acc b c : List Nat) (hpre : MacPre acc b c) (hN : b.length + c.length ≤ N) :
    MacOk (mac3Core P rec) acc b c := by
  unfold MacOk mac3Core
  dsimp only
  by_cases h : b.length < c.length
  · simp only [h, if_true]
    exact mac3Core_ordered P hP hrec acc b c hpre hN (by omega)
  · simp only [h, if_false]
    obtain ⟨ha, hb, hc, hl, hv⟩ := hpre
    have := mac3Core_ordered P hP hrec acc c b ⟨ha, hc, hb, by omega, by rw [Nat.mul_comm]; exact hv⟩
      (by omega) (by omega)
    rw [Nat.mul_comm (val c)] at this
    exact this

/-- one level of `mac3` (zero stripping + dispatch) is correct if the callee is correct on all
    strictly smaller operand pairs -/
theorem mac3Body_spec (P : Params) (hP : P.ValidMul) {rec : MacFn} {N : Nat} (hrec : MacSpec rec N)
    (acc b c : List Nat) (hpre : MacPre acc b c) (hN : b.length + c.length ≤ N) :
    MacOk (mac3Body P rec) acc b c := by
  obtain ⟨ha, hb, hc, hl, hv⟩ := hpre
  unfold MacOk mac3Body
  dsimp only
  have hnb := lowZeros_le b
  have hnc := lowZeros_le c
  have hvb := val_drop_lowZeros b
  have hvc := val_drop_lowZeros c
  by_cases hb0 : lowZeros b ≠ 0 ∧ lowZeros b = b.length
  · rw [if_pos hb0]
    have := val_eq_zero_of_lowZeros_all b hb0.2
    exact ⟨acc, rfl, by rw [this]; simp, rfl, ha⟩
  · rw [if_neg hb0]
    generalize lowZeros b = nb at *
    have hvt : val acc + B ^ nb * (val (b.drop nb) * val c) < B ^ (acc.length - 1) := by
      rw [← Nat.mul_assoc, ← hvb]; exact hv
    have hdl : (acc.drop nb).length = acc.length - nb := List.length_drop
    have hbl : (b.drop nb).length = b.length - nb := List.length_drop
    have := mx_suffix_apply (f := fun acc1 =>
        if lowZeros c ≠ 0 ∧ lowZeros c = c.length then Except.ok acc1
        else onSuffix (lowZeros c) acc1 (fun acc2 => mac3Core P rec acc2 (b.drop nb) (c.drop (lowZeros c))))
      nb acc ha (by omega) (val (b.drop nb) * val c) ?_
    · obtain ⟨r, e, v, l, d⟩ := this
      refine ⟨r, e, ?_, l, d⟩
      rw [v, ← Nat.mul_assoc, ← hvb]
    · have hv1 := mx_drop_bound nb acc (by omega) _ hvt
      have ha1 := ha.drop nb
      generalize acc.drop nb = acc1 at *
      by_cases hc0 : lowZeros c ≠ 0 ∧ lowZeros c = c.length
      · rw [if_pos hc0]
        have := val_eq_zero_of_lowZeros_all c hc0.2
        exact ⟨acc1, rfl, by rw [this]; simp, rfl, ha1⟩
      · rw [if_neg hc0]
        generalize lowZeros c = nc at *
        have hcl : (c.drop nc).length = c.length - nc := List.length_drop
        have hvt2 : val acc1 + B ^ nc * (val (b.drop nb) * val (c.drop nc)) < B ^ (acc1.length - 1) := by
          have e : B ^ nc * (val (b.drop nb) * val (c.drop nc)) = val (b.drop nb) * (B ^ nc * val (c.drop nc)) := by
            ring
          rw [e, ← hvc]; exact hv1
        have := mx_suffix_apply (f := fun acc2 => mac3Core P rec acc2 (b.drop nb) (c.drop nc))
          nc acc1 ha1 (by omega) (val (b.drop nb) * val (c.drop nc)) ?_
        · obtain ⟨r, e, v, l, d⟩ := this
          refine ⟨r, e, ?_, l, d⟩
          rw [v]
          have e2 : B ^ nc * (val (b.drop nb) * val (c.drop nc)) = val (b.drop nb) * (B ^ nc * val (c.drop nc)) := by
            ring
          rw [e2, ← hvc]
        · have hv2 := mx_drop_bound nc acc1 (by omega) _ hvt2
          have hdl2 : (acc1.drop nc).length = acc1.length - nc := List.length_drop
          exact mac3Core_spec P hP hrec _ _ _
            ⟨ha1.drop nc, hb.drop nb, hc.drop nc, by rw [hdl2, hbl, hcl]; omega, hv2⟩
            (by rw [hbl, hcl]; omega)

end NB.Mul
