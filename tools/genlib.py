"""Generator helpers: wire encoding and structured digit patterns (B = 2^64)."""
import random

B = 1 << 64
MAX = B - 1

def limbs_of(n):
    assert n >= 0
    out = []
    while n:
        out.append(n & MAX)
        n >>= 64
    return out

def wl(l):
    """wire for a raw limb list"""
    return "." if not l else ",".join("%x" % d for d in l)

def wu(n):
    """wire for a BigUint value (canonical)"""
    return wl(limbs_of(n))

def wi(n):
    """wire for a BigInt value (canonical)"""
    if n == 0:
        return "0."
    return ("+" if n > 0 else "-") + wu(abs(n))

def wbytes(bs):
    return "x" + "".join("%02x" % b for b in bs)

def wwords(ws):
    return "w" + ",".join("%x" % w for w in ws)

def val(l):
    v = 0
    for d in reversed(l):
        v = (v << 64) | d
    return v

SPECIAL = [0, 1, 2, MAX, MAX - 1, 1 << 63, (1 << 63) - 1, (1 << 63) + 1, 1 << 32, (1 << 32) - 1]

def digit(rng, kind=None):
    k = kind if kind is not None else rng.randrange(10)
    if k < 4:
        return rng.randrange(B)
    if k < 7:
        return rng.choice(SPECIAL)
    if k < 8:
        return MAX
    if k < 9:
        return 0
    return 1 << rng.randrange(64)

def digits(rng, n, pattern=None):
    """n raw digits with a named pattern"""
    p = pattern or rng.choice(["rand", "ones", "zeros_top1", "sparse", "mixed", "runs", "lowzero", "half"])
    if n == 0:
        return []
    if p == "rand":
        l = [rng.randrange(B) for _ in range(n)]
    elif p == "ones":
        l = [MAX] * n
    elif p == "zeros_top1":
        l = [0] * (n - 1) + [1]
    elif p == "sparse":
        l = [0] * n
        for _ in range(max(1, n // 8)):
            l[rng.randrange(n)] = digit(rng)
    elif p == "mixed":
        l = [digit(rng) for _ in range(n)]
    elif p == "runs":
        l = []
        while len(l) < n:
            run = rng.randrange(1, 9)
            d = rng.choice([0, MAX, MAX, 1, rng.randrange(B)])
            l += [d] * run
        l = l[:n]
    elif p == "lowzero":
        z = rng.randrange(0, n)
        l = [0] * z + [rng.randrange(B) for _ in range(n - z)]
    elif p == "half":
        h = n // 2
        l = [MAX] * h + [rng.randrange(B) for _ in range(n - h)]
    else:
        raise ValueError(p)
    return l

def canon(l, rng=None):
    """make the top digit non-zero (value keeps its length)"""
    l = list(l)
    if l and l[-1] == 0:
        l[-1] = 1 if rng is None else rng.randrange(1, B)
    return l

def big(rng, n, pattern=None):
    """a canonical n-digit value"""
    return val(canon(digits(rng, n, pattern), rng))

def signed(rng, v):
    return v if rng.randrange(2) else -v


# ---------------------------------------------------------------------------------------------
# op-signature-driven boundary augmentation (applied by check.py to the public-API ops of some streams)

BOUNDARY = sorted({(1 << k) + d for k in (7, 8, 15, 16, 31, 32, 63, 64, 127, 128) for d in (-1, 0, 1)} | {0, 1, 2})
AUGMENT_STREAMS = {"C01", "C02", "C03", "C05", "C06", "C07", "C08", "C09", "C11", "C13", "C17", "C19"}
AUGMENT_SKIP = (".de", "shl", "from_f", "to_f", "set_bit", "bit ", "monty_modpow", "plain_modpow", "high_bits")   # cost hazards, non-value arguments, hook ops with preconditions

def _is_bigtok(t):
    import re
    return re.fullmatch(r"[+\-0]?(?:[0-9a-f]+(?:,[0-9a-f]+)*|\.)", t) is not None

def augment_boundaries(lines, rng, per_op=48):
    """For every public-API op (`u.*` / `i.*`) of the allow-listed streams, add requests whose big operands are
    primitive-type boundary values (2^k, 2^k ± 1 for k = 7…128, all signs for BigInt): native fast paths for
    values that fit u64/i64/u128/i128 must agree with the big path, including MIN / -1, gcd(MIN, 0), …
    Operand positions are inferred from the generator's own requests: a position is a big operand iff some request
    of that op has a multi-limb, empty or signed token there; all other tokens are copied from a sample request."""
    groups = {}
    for l in lines:
        t = l.split()
        if len(t) < 3 or t[0] not in AUGMENT_STREAMS or not (t[1].startswith("u.") or t[1].startswith("i.")):
            continue
        if any(s in (t[1] + " ") for s in AUGMENT_SKIP) or ("pow" in t[1] and "modpow" not in t[1]):
            continue
        groups.setdefault((t[0], t[1], len(t)), []).append(t)
    out = []
    for (stream, op, n), samples in sorted(groups.items()):
        signed = op.startswith("i.")
        bigpos = []
        for i in range(2, n):
            col = [s[i] for s in samples]
            if not all(_is_bigtok(c) for c in col):
                continue
            if any(("," in c) or c == "." or c == "0." or c[0] in "+-" for c in col):
                bigpos.append(i)
        if not bigpos or len(bigpos) > 3:
            continue
        # deterministic part: ops with ONE big operand get every boundary value (both signs for BigInt) under up to six
        # templates with distinct other arguments (smallest scalar arguments first: degree 1, shift 0, radix 2 …), so a
        # special case at one boundary value for one small argument (`(-2^127).nth_root(1)`) is not a matter of luck
        if len(bigpos) == 1:
            i = bigpos[0]
            seen_other, tmpls = set(), []
            def okey(t_):
                o = tuple(x for j, x in enumerate(t_) if j != i)
                return (sum(len(x) for x in o), o)
            for t_ in sorted(samples, key=okey):
                o = tuple(x for j, x in enumerate(t_) if j != i)
                if o not in seen_other:
                    seen_other.add(o); tmpls.append(t_)
                if len(tmpls) >= 6:
                    break
            is_signed = any(s_[i][:1] in "+-" or s_[i] == "0." for s_ in samples)   # by the column, not the op prefix
            for t_ in tmpls:
                for v in BOUNDARY:
                    for sg in ((1, -1) if is_signed and v else (1,)):
                        t2 = list(t_)
                        t2[i] = wi(sg * v) if is_signed else wu(v)
                        out.append(" ".join(t2))
        tmpl = samples[rng.randrange(len(samples))]
        cnt = 0
        tries = 0
        while cnt < per_op and tries < per_op * 4:
            tries += 1
            t = list(tmpl)
            for i in bigpos:
                v = BOUNDARY[rng.randrange(len(BOUNDARY))] if rng.randrange(5) else rng.choice([0, 1, 2, 3])
                if signed and tmpl[i][:1] in "+-0" and (tmpl[i][:1] != "0" or tmpl[i] == "0."):
                    t[i] = wi(-v if rng.randrange(2) else v)
                elif any(s[i][:1] in "+-" or s[i] == "0." for s in samples):
                    t[i] = wi(-v if rng.randrange(2) else v)
                else:
                    t[i] = wu(v)
            out.append(" ".join(t))
            cnt += 1
    return out


# ---------------------------------------------------------------------------------------------
# cross-pollination: structured multi-digit operand families for every public-API op of the arithmetic streams

def _parse_big(tok):
    """(sign, value) of a limb token, or None"""
    sg = 1
    t = tok
    if t[:1] in "+-0" and not (len(t) > 1 and t[1] in "0123456789abcdef," and t[0] == "0" and "," not in t and False):
        if t[0] == "-":
            sg, t = -1, t[1:]
        elif t[0] == "+":
            t = t[1:]
        elif t == "0.":
            return 0
    if t == ".":
        return 0
    try:
        v = 0
        for i, d in enumerate(t.split(",")):
            v += int(d, 16) << (64 * i)
        return sg * v
    except ValueError:
        return None

def structured_value(rng, n):
    """an n-digit value (n >= 1) from a family that arithmetic special cases key on: all ones, low zero digits, sparse
    digits, one bit, 2^k +- 1, upper half all ones / lower half 1, repeated digit, alternating 0 / MAX, top digit 1 or
    2^63, middle zero run"""
    k = rng.randrange(12)
    ds = [rng.randrange(B) for _ in range(n)]
    if k == 0:
        ds = [MAX] * n
    elif k == 1:
        z = rng.randrange(1, n + 1) if n > 1 else 0
        ds = [0] * min(z, n - 1) + ds[min(z, n - 1):]
    elif k == 2:
        ds = [d if rng.randrange(3) == 0 else 0 for d in ds]
    elif k == 3:
        return 1 << rng.randrange(64 * n - 64, 64 * n)
    elif k == 4:
        e = rng.randrange(max(1, 64 * n - 64), 64 * n)
        return (1 << e) + rng.choice([-1, 1])
    elif k == 5:
        h = n // 2
        ds = [1] + [0] * (h - 1) + [MAX] * (n - h) if h >= 1 else [MAX] * n
    elif k == 6:
        ds = [rng.choice([1, MAX, 1 << 63, 0x5555555555555555, rng.randrange(B)])] * n
    elif k == 7:
        ds = [(0 if i % 2 else MAX) for i in range(n)]
    elif k == 8:
        ds[-1] = rng.choice([1, 1 << 63, 2, 3, MAX])
    elif k == 9 and n >= 3:
        a = rng.randrange(1, n - 1); b = rng.randrange(a, n - 1)
        ds = ds[:a] + [0] * (b - a + 1) + ds[b + 1:]
    elif k == 10:
        ds = [MAX] * (n - 1) + [rng.choice([1, MAX >> 1, MAX])]
    if ds[-1] == 0:
        ds[-1] = 1
    return sum(d << (64 * i) for i, d in enumerate(ds))

def augment_structured(lines, rng, per_op=40, max_digits=24):
    """For every public-API op of the allow-listed streams: requests whose big operands come from (a) a pool harvested
    from ALL requests of the run (operands designed for one op are fed to every other op), (b) `structured_value`
    families, with related pairs (equal, +-1, small multiple, shifted by whole digits, one dividing the other) when the
    op has two big operands.  Operand positions are inferred as in `augment_boundaries`."""
    groups = {}
    pool = set()
    for l in lines:
        t = l.split()
        if len(t) < 3:
            continue
        for tok in t[2:]:
            if ("," in tok) and _is_bigtok(tok) and tok.count(",") < max_digits:
                v = _parse_big(tok)
                if v:
                    pool.add(abs(v))
        if t[0] not in AUGMENT_STREAMS or not (t[1].startswith("u.") or t[1].startswith("i.")):
            continue
        if any(s in (t[1] + " ") for s in AUGMENT_SKIP) or ("pow" in t[1] and "modpow" not in t[1]) or "huge" in t[1]:
            continue
        groups.setdefault((t[0], t[1], len(t)), []).append(t)
    pool = sorted(pool)
    if len(pool) > 400:
        pool = rng.sample(pool, 400)
    out = []
    for (stream, op, n), samples in sorted(groups.items()):
        bigpos = []
        for i in range(2, n):
            col = [s[i] for s in samples]
            if not all(_is_bigtok(c) for c in col):
                continue
            if any(("," in c) or c == "." or c == "0." or c[0] in "+-" for c in col):
                bigpos.append(i)
        if not bigpos or len(bigpos) > 3:
            continue
        signed_pos = {i for i in bigpos if any(s[i][:1] in "+-" or s[i] == "0." for s in samples)}
        tmpl = samples[rng.randrange(len(samples))]
        for _ in range(per_op):
            t = list(tmpl)
            vals = []
            for j, i in enumerate(bigpos):
                if pool and rng.randrange(2):
                    v = pool[rng.randrange(len(pool))]
                else:
                    v = structured_value(rng, rng.choice([1, 2, 2, 3, 4, 5, 8, 9, 16, 17]))
                if j >= 1 and rng.randrange(2):
                    a = vals[0]
                    nd = (a.bit_length() + 63) // 64
                    keep = rng.randrange(1, nd + 1) if nd else 0        # same top `keep` digits, different lower digits
                    lowbits = 64 * (nd - keep)
                    shared = ((a >> lowbits) << lowbits) | (rng.randrange(1 << lowbits) if lowbits else 0)
                    bk = 1 << (64 * rng.randrange(1, max(2, nd + 1)))     # a power of the digit base near a's size
                    comp = (1 << (64 * nd)) - a if nd else 1                 # a + comp = B^nd: the carry runs through every digit
                    v = rng.choice([comp, comp, comp - 1, comp + 1, a + bk, max(a - bk, 0), a + bk + 1, max(a - bk - 1, 0), a + bk - 1, a, a + 1, max(a - 1, 0),
                                    a * rng.choice([2, 3, 5, 1 << 64, (1 << 64) + 1, MAX]), a << (64 * rng.randrange(1, 3)),
                                    a >> 64, a >> 1, a * v if v.bit_length() < 400 else a, a ^ 1, a | 1, shared, shared, shared])
                    if rng.randrange(4) == 0:
                        vals[0], v = v, a               # the related value first
                vals.append(v)
            for j, i in enumerate(bigpos):
                v = vals[j]
                if i in signed_pos:
                    t[i] = wi(-v if rng.randrange(2) else v)
                else:
                    t[i] = wu(v)
            out.append(" ".join(t))
    return out


def cf_pair(rng, nq, huge_at=None):
    """(a, b) with a > b > 0, gcd g, whose Euclidean quotient sequence is chosen: mostly 1 … 3 (the worst case for
    Euclid / Lehmer), some one-digit quotients, and at `huge_at` positions quotients of 2^32 … 2^64 and multi-digit ones
    (a Lehmer-style batched gcd must fall back to a full division exactly there)."""
    qs = []
    for i in range(nq):
        if huge_at is not None and i in huge_at:
            qs.append(rng.choice([(1 << 40) + 12345, rng.randrange(1 << 32, 1 << 64), (1 << 64) - 1, 1 << 64, rng.randrange(B, B * B), (1 << 63)]))
        else:
            qs.append(rng.choice([1, 1, 1, 2, 2, 3, rng.randrange(1, 16), rng.randrange(1, 1 << 20)]))
    g = rng.choice([1, 1, 2, 6, rng.randrange(1, B) | 1, (1 << 64) + 3])
    a, b = 1, 0
    for q in reversed(qs):
        a, b = q * a + b, a
    if b == 0:
        a, b = a + 1, 1
    return a * g, b * g
