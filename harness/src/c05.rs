//! stream C05: modpow / modinv and the Montgomery internals
use crate::wire::*;
use num_bigint::{BigInt, BigUint};

#[cfg(num_bigint_verif)]
fn raw_u(s: &str) -> Option<BigUint> {
    Some(num_bigint::verif::raw(parse_limbs(s)?))
}

pub fn handle(op: &str, a: &[&str]) -> Option<String> {
    Some(match (op, a) {
        ("u.modpow", [b, e, m]) => ok_u(&parse_u(b)?.modpow(&parse_u(e)?, &parse_u(m)?)),
        ("i.modpow", [b, e, m]) => ok_i(&parse_i(b)?.modpow(&parse_i(e)?, &parse_i(m)?)),
        ("u.modinv", [x, m]) => opt_u(&parse_u(x)?.modinv(&parse_u(m)?)),
        ("i.modinv", [x, m]) => opt_i(&parse_i(x)?.modinv(&parse_i(m)?)),
        #[cfg(num_bigint_verif)]
        ("u.plain_modpow", [b, e, m]) => {
            let e = parse_u(e)?;
            ok_u(&num_bigint::verif::plain_modpow(&parse_u(b)?, num_bigint::verif::raw_digits(&e), &parse_u(m)?))
        }
        #[cfg(num_bigint_verif)]
        ("u.monty_modpow", [b, e, m]) => ok_u(&num_bigint::verif::monty_modpow(&parse_u(b)?, &parse_u(e)?, &parse_u(m)?)),
        #[cfg(num_bigint_verif)]
        ("raw.montgomery", [x, y, m, k, n]) => {
            let k = u64::from_str_radix(k, 16).ok()?;
            let n: usize = n.parse().ok()?;
            let z = num_bigint::verif::montgomery(&parse_limbs(x)?, &parse_limbs(y)?, &parse_limbs(m)?, k, n);
            format!("ok {}", show_limbs(&z))
        }
        #[cfg(num_bigint_verif)]
        ("raw.montgomery_chk", [x, y, m, k, n]) => {
            let k = u64::from_str_radix(k, 16).ok()?;
            let n: usize = n.parse().ok()?;
            let before = num_bigint::verif::hits()[num_bigint::verif::MONTY_SUB];
            let z = num_bigint::verif::montgomery(&parse_limbs(x)?, &parse_limbs(y)?, &parse_limbs(m)?, k, n);
            let sub = num_bigint::verif::hits()[num_bigint::verif::MONTY_SUB] - before;
            let zl = z.len();
            let (zv, xv, yv, mv) = (num_bigint::verif::raw(z), raw_u(x)?, raw_u(y)?, raw_u(m)?);
            // values through the public constructors (normalised) for the arithmetic
            let norm = |v: &BigUint| BigUint::new(v.to_u32_digits());
            let (zv, xv, yv, mv) = (norm(&zv), norm(&xv), norm(&yv), norm(&mv));
            let r = BigUint::from(1u32) << (64 * n);
            let c1 = (&zv * &r) % &mv == (&xv * &yv) % &mv;
            let c2 = zv < r && zl == n;
            format!("ok {} {} {}", show_bool(c1), show_bool(c2), sub)
        }
        #[cfg(num_bigint_verif)]
        ("raw.inv_mod_alt", [b]) => {
            let b = u64::from_str_radix(b, 16).ok()?;
            format!("ok {:x}", num_bigint::verif::inv_mod_alt(b))
        }
        _ => return None,
    })
}

#[allow(dead_code)]
fn _types(_: BigInt, _: BigUint) {}
