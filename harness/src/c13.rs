//! stream C13: gcd, lcm, Bézout coefficients, multiple-of helpers (`num_integer::Integer`)
use crate::wire::*;
use num_integer::Integer;

pub fn handle(op: &str, a: &[&str]) -> Option<String> {
    Some(match (op, a) {
        ("u.gcd", [x, y]) => ok_u(&parse_u(x)?.gcd(&parse_u(y)?)),
        ("u.lcm", [x, y]) => ok_u(&parse_u(x)?.lcm(&parse_u(y)?)),
        ("u.gcd_lcm", [x, y]) => {
            let (g, l) = parse_u(x)?.gcd_lcm(&parse_u(y)?);
            format!("ok {} {}", show_u(&g), show_u(&l))
        }
        ("u.is_multiple_of", [x, y]) => format!("ok {}", show_bool(parse_u(x)?.is_multiple_of(&parse_u(y)?))),
        ("u.next_multiple_of", [x, y]) => ok_u(&parse_u(x)?.next_multiple_of(&parse_u(y)?)),
        ("u.prev_multiple_of", [x, y]) => ok_u(&parse_u(x)?.prev_multiple_of(&parse_u(y)?)),
        ("u.is_even", [x]) => format!("ok {}", show_bool(parse_u(x)?.is_even())),
        ("u.is_odd", [x]) => format!("ok {}", show_bool(parse_u(x)?.is_odd())),
        ("u.inc", [x]) => {
            let mut v = parse_u(x)?;
            v.inc();
            ok_u(&v)
        }
        ("u.dec", [x]) => {
            let mut v = parse_u(x)?;
            v.dec();
            ok_u(&v)
        }
        ("i.gcd", [x, y]) => ok_i(&parse_i(x)?.gcd(&parse_i(y)?)),
        ("i.lcm", [x, y]) => ok_i(&parse_i(x)?.lcm(&parse_i(y)?)),
        ("i.gcd_lcm", [x, y]) => {
            let (g, l) = parse_i(x)?.gcd_lcm(&parse_i(y)?);
            format!("ok {} {}", show_i(&g), show_i(&l))
        }
        ("i.extended_gcd", [x, y]) => {
            let e = parse_i(x)?.extended_gcd(&parse_i(y)?);
            format!("ok {} {} {}", show_i(&e.gcd), show_i(&e.x), show_i(&e.y))
        }
        ("i.extended_gcd.id", [x, y]) => {
            let (a, b) = (parse_i(x)?, parse_i(y)?);
            let e = a.extended_gcd(&b);
            format!("ok {} {}", show_i(&e.gcd), show_i(&(&a * &e.x + &b * &e.y)))
        }
        ("i.extended_gcd_lcm", [x, y]) => {
            let (e, l) = parse_i(x)?.extended_gcd_lcm(&parse_i(y)?);
            format!("ok {} {} {} {}", show_i(&e.gcd), show_i(&e.x), show_i(&e.y), show_i(&l))
        }
        ("i.extended_gcd_lcm.id", [x, y]) => {
            let (a, b) = (parse_i(x)?, parse_i(y)?);
            let (e, l) = a.extended_gcd_lcm(&b);
            format!("ok {} {} {}", show_i(&e.gcd), show_i(&(&a * &e.x + &b * &e.y)), show_i(&l))
        }
        ("i.is_multiple_of", [x, y]) => format!("ok {}", show_bool(parse_i(x)?.is_multiple_of(&parse_i(y)?))),
        ("i.next_multiple_of", [x, y]) => ok_i(&parse_i(x)?.next_multiple_of(&parse_i(y)?)),
        ("i.prev_multiple_of", [x, y]) => ok_i(&parse_i(x)?.prev_multiple_of(&parse_i(y)?)),
        ("i.is_even", [x]) => format!("ok {}", show_bool(parse_i(x)?.is_even())),
        ("i.is_odd", [x]) => format!("ok {}", show_bool(parse_i(x)?.is_odd())),
        ("i.inc", [x]) => {
            let mut v = parse_i(x)?;
            v.inc();
            ok_i(&v)
        }
        ("i.dec", [x]) => {
            let mut v = parse_i(x)?;
            v.dec();
            ok_i(&v)
        }
        // api-coverage: `Integer::divides` (deprecated; own one-line body forwarding to `is_multiple_of`)
        #[allow(deprecated)]
        ("u.divides", [x, y]) => format!("ok {}", show_bool(parse_u(x)?.divides(&parse_u(y)?))),
        #[allow(deprecated)]
        ("i.divides", [x, y]) => format!("ok {}", show_bool(parse_i(x)?.divides(&parse_i(y)?))),
        _ => return None,
    })
}
