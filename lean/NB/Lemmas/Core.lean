/- helper lemmas for NB.Model.Core (properties C04 / C19): u32 word packing, constructors,
   BigInt representation facts, the BigInt `+=` / `-=` forms -/
import NB.Lemmas.Base
import NB.Lemmas.Canon
import NB.Lemmas.AddSub
import NB.Model.Core
import NB.Props.C01
namespace NB.Core

theorem B_eq_B32_sq : B = B32 * B32 := by decide

/-- `lo | hi << 32` is `lo + 2^32 * hi` for a proper u32 `lo` -/
theorem or_shift_eq {lo : Nat} (hi : Nat) (h : lo < B32) : lo ||| (hi <<< u32Bits) = lo + B32 * hi := by
  have := Nat.shiftLeft_add_eq_or_of_lt (i := u32Bits) (b := lo) h hi
  rw [Nat.or_comm, ← this, Nat.shiftLeft_eq]
  unfold B32
  rw [Nat.mul_comm, Nat.add_comm]

theorem WordsOk.nil : WordsOk [] := by intro w h; cases h
theorem WordsOk.head {w : Nat} {ws : List Nat} (h : WordsOk (w :: ws)) : w < B32 := h w (by simp)
theorem WordsOk.tail {w : Nat} {ws : List Nat} (h : WordsOk (w :: ws)) : WordsOk ws :=
  fun x hx => h x (List.mem_cons_of_mem _ hx)

/-- packing u32 words into u64 digits keeps the value and yields proper digits -/
theorem chunks_spec : ∀ (ws : List Nat), WordsOk ws →
    val ((chunks2 ws).map u32ChunkToU64) = val32 ws ∧ DigitsOk ((chunks2 ws).map u32ChunkToU64)
  | [], _ => ⟨rfl, DigitsOk.nil⟩
  | [a], h => by
    have ha := h.head
    refine ⟨by simp [chunks2, u32ChunkToU64, val, val32], ?_⟩
    simp only [chunks2, List.map_cons, List.map_nil, u32ChunkToU64]
    exact DigitsOk.cons (by unfold B32 u32Bits at ha; unfold B; omega) DigitsOk.nil
  | a :: b :: t, h => by
    have ha := h.head
    have hb := h.tail.head
    obtain ⟨ih1, ih2⟩ := chunks_spec t h.tail.tail
    simp only [chunks2, List.map_cons, u32ChunkToU64, val, val32]
    rw [or_shift_eq b ha, ih1]
    refine ⟨?_, DigitsOk.cons ?_ ih2⟩
    · rw [B_eq_B32_sq]; ring
    · rw [B_eq_B32_sq]
      have : B32 * b ≤ B32 * (B32 - 1) := Nat.mul_le_mul_left _ (by omega)
      have h2 : B32 * (B32 - 1) = B32 * B32 - B32 := by rw [Nat.mul_sub, Nat.mul_one]
      have h3 : B32 ≤ B32 * B32 := Nat.le_mul_of_pos_left _ (by decide)
      omega

/-- `normalize` of proper digits is the canonical representation of the value -/
theorem normalize_eq_ofNat {a : List Nat} (h : DigitsOk a) : normalize a = ofNat (val a) := by
  rw [canon_eq_ofNat (normalize_canon h), normalize_val]

theorem assignFromSlice_eq (old ws : List Nat) (h : WordsOk ws) :
    BigUint.assignFromSlice old ws = ofNat (val32 ws) := by
  obtain ⟨h1, h2⟩ := chunks_spec ws h
  unfold BigUint.assignFromSlice
  rw [normalize_eq_ofNat h2, h1]

theorem ofNat_zero : ofNat 0 = [] := by unfold ofNat; simp
theorem ofNat_one : ofNat 1 = [1] := by
  unfold ofNat; simp; unfold ofNat; simp [B]

theorem ofNat_eq_nil_iff (n : Nat) : ofNat n = [] ↔ n = 0 := by
  constructor
  · intro h; have := congrArg val h; rwa [ofNat_val] at this
  · intro h; subst h; exact ofNat_zero

theorem isZero_iff (a : List Nat) : BigUint.isZero a = true ↔ a = [] := by
  unfold BigUint.isZero; exact List.isEmpty_iff

theorem canon_eq_nil_iff {a : List Nat} (h : Canon a) : a = [] ↔ val a = 0 :=
  ⟨fun e => by subst e; rfl, canon_val_zero h⟩

theorem canon_one : Canon [1] := by decide

/-! ### BigInt representation facts -/

theorem ofInt_zero : BigInt.ofInt 0 = ⟨.nosign, []⟩ := by simp [BigInt.ofInt]

theorem ofInt_pos {i : Int} (h : 0 < i) : BigInt.ofInt i = ⟨.plus, ofNat i.natAbs⟩ := by
  unfold BigInt.ofInt
  have h1 : ¬ i < 0 := by omega
  have h2 : ¬ i = 0 := by omega
  simp [h1, h2]

theorem ofInt_neg {i : Int} (h : i < 0) : BigInt.ofInt i = ⟨.minus, ofNat i.natAbs⟩ := by
  unfold BigInt.ofInt; simp [h]

theorem ofInt_natCast (n : Nat) : BigInt.ofInt (n : Int) = if n = 0 then ⟨.nosign, []⟩ else ⟨.plus, ofNat n⟩ := by
  by_cases h : n = 0
  · subst h; simp [ofInt_zero]
  · simp only [h, if_false]
    rw [ofInt_pos (by omega)]; simp

theorem ofInt_negNatCast (n : Nat) : BigInt.ofInt (-(n : Int)) = if n = 0 then ⟨.nosign, []⟩ else ⟨.minus, ofNat n⟩ := by
  by_cases h : n = 0
  · subst h; simp [ofInt_zero]
  · simp only [h, if_false]
    rw [ofInt_neg (by omega)]; simp

/-- sign of a canonical BigInt, read off its value -/
theorem bigint_canon_sign {x : BigInt} (h : x.Canon) :
    (x.sign = .minus ↔ x.val < 0) ∧ (x.sign = .nosign ↔ x.val = 0) ∧ (x.sign = .plus ↔ 0 < x.val) := by
  obtain ⟨hc, hs⟩ := h
  rcases x with ⟨s, m⟩
  simp only at hc hs
  cases s with
  | nosign => simp [BigInt.val]
  | plus =>
    have hne : m ≠ [] := fun h => by simpa using hs.mpr h
    have := canon_val_pos hc hne
    simp [BigInt.val]; omega
  | minus =>
    have hne : m ≠ [] := fun h => by simpa using hs.mpr h
    have := canon_val_pos hc hne
    simp [BigInt.val]; omega

/-- magnitude of a canonical BigInt -/
theorem bigint_canon_mag {x : BigInt} (h : x.Canon) : x.mag = ofNat x.val.natAbs := by
  obtain ⟨hc, hs⟩ := h
  rcases x with ⟨s, m⟩
  simp only at hc hs
  cases s with
  | nosign => have : m = [] := hs.mp rfl; subst this; simp [BigInt.val, ofNat_zero]
  | plus => simp only [BigInt.val, Int.natAbs_natCast]; exact canon_eq_ofNat hc
  | minus => simp only [BigInt.val, Int.natAbs_neg, Int.natAbs_natCast]; exact canon_eq_ofNat hc

theorem bigint_canon_unique {x y : BigInt} (hx : x.Canon) (hy : y.Canon) (h : x.val = y.val) : x = y := by
  rw [bigint_canon_eq_ofInt hx, bigint_canon_eq_ofInt hy, h]

theorem Sign.toInt_neg (s : Sign) : Sign.toInt s.neg = - Sign.toInt s := by cases s <;> rfl

theorem bigint_val_eq (x : BigInt) : x.val = Sign.toInt x.sign * (val x.mag : Int) := by
  rcases x with ⟨s, m⟩
  cases s <;> simp [BigInt.val, Sign.toInt]

/-- `from_biguint` on an ARBITRARY sign request (also inconsistent with the magnitude) yields the
    canonical BigInt of `sign * magnitude` -/
theorem fromBiguint_eq (s : Sign) {m : List Nat} (h : NB.Canon m) :
    BigInt.fromBiguint s m = BigInt.ofInt (Sign.toInt s * (val m : Int)) := by
  cases s with
  | nosign => simp [BigInt.fromBiguint, Sign.toInt, ofInt_zero]
  | plus => rw [fromBiguint_plus h]; simp [Sign.toInt]
  | minus => rw [fromBiguint_minus h]; simp [Sign.toInt]

/-! ### `BigInt += &BigInt`, `BigInt -= &BigInt` -/

theorem subMagValRef_spec (P : Params) (ma mb : List Nat) (hca : Canon ma) (hcb : Canon mb) :
    BigInt.subMagValRef P .minus .plus ma mb = .ok (BigInt.ofInt ((val ma : Int) - val mb)) ∧
    BigInt.subMagValRef P .plus .minus ma mb = .ok (BigInt.ofInt ((val mb : Int) - val ma)) := by
  unfold BigInt.subMagValRef
  rw [cmpSlice_spec hca hcb]
  have hs1 := subAssign_spec P ma mb hca hcb
  have hs2 := subRefVal_spec P mb ma hcb hca
  rcases Nat.lt_trichotomy (val ma) (val mb) with h | h | h
  · rw [Nat.compare_eq_lt.mpr h]
    have : ¬ val mb < val ma := by omega
    simp only [hs2, this, if_false]
    constructor
    · exact ok_from_minus (ofNat_canon _) (by rw [ofNat_val]; omega)
    · exact ok_from_plus (ofNat_canon _) (by rw [ofNat_val]; omega)
  · rw [Nat.compare_eq_eq.mpr h]
    simp [h, BigInt.ofInt, BigInt.zero, BigUint.zero]
  · rw [Nat.compare_eq_gt.mpr h]
    have : ¬ val ma < val mb := by omega
    simp only [hs1, this, if_false]
    constructor
    · exact ok_from_plus (ofNat_canon _) (by rw [ofNat_val]; omega)
    · exact ok_from_minus (ofNat_canon _) (by rw [ofNat_val]; omega)

theorem bigint_negVal_eq {x : BigInt} (h : x.Canon) : BigInt.negVal x = BigInt.ofInt (- x.val) := by
  have hc : (BigInt.negVal x).Canon := by
    obtain ⟨h1, h2⟩ := h
    refine ⟨h1, ?_⟩
    rcases x with ⟨s, m⟩
    cases s <;> simpa [BigInt.negVal, Sign.neg] using h2
  rw [bigint_canon_eq_ofInt hc]; congr 1
  rcases x with ⟨s, m⟩
  cases s <;> simp [BigInt.negVal, Sign.neg, BigInt.val]

/-- `a += &b` on BigInt: exact for all nine sign pairs, canonical, never panics -/
theorem bigint_addAssign_spec (P : Params) (a b : BigInt) (ha : a.Canon) (hb : b.Canon) :
    BigInt.addAssign P a b = .ok (BigInt.ofInt (a.val + b.val)) := by
  obtain ⟨sa, ma⟩ := a
  obtain ⟨sb, mb⟩ := b
  have hA := bigint_canon_eq_ofInt ha
  have hB := bigint_canon_eq_ofInt hb
  obtain ⟨hca, hsa⟩ := ha
  obtain ⟨hcb, hsb⟩ := hb
  simp only at hca hsa hcb hsb
  have hsumC := ofNat_canon (val ma + val mb)
  obtain ⟨hdp, hdm⟩ := subMagValRef_spec P ma mb hca hcb
  cases sa <;> cases sb <;>
    simp only [BigInt.addAssign, BigInt.clone, BigUint.clone, BigInt.val, addAssign_spec P ma mb hca hcb,
      Int.add_zero, Int.zero_add] at *
  · exact ok_from_minus hsumC (by rw [ofNat_val]; omega)
  · exact congrArg _ hA
  · rw [hdm]; congr 2; omega
  · exact congrArg _ hB
  · exact congrArg _ hA
  · exact congrArg _ hB
  · rw [hdp]; congr 2
  · exact congrArg _ hA
  · exact ok_from_plus hsumC (by rw [ofNat_val]; omega)

/-- `a -= &b` on BigInt: exact for all nine sign pairs, canonical, never panics -/
theorem bigint_subAssign_spec (P : Params) (a b : BigInt) (ha : a.Canon) (hb : b.Canon) :
    BigInt.subAssign P a b = .ok (BigInt.ofInt (a.val - b.val)) := by
  obtain ⟨sa, ma⟩ := a
  obtain ⟨sb, mb⟩ := b
  have hA := bigint_canon_eq_ofInt ha
  have hB := bigint_canon_eq_ofInt hb
  have hNB := bigint_negVal_eq hb
  obtain ⟨hca, hsa⟩ := ha
  obtain ⟨hcb, hsb⟩ := hb
  simp only at hca hsa hcb hsb
  have hsumC := ofNat_canon (val ma + val mb)
  obtain ⟨hdp, hdm⟩ := subMagValRef_spec P ma mb hca hcb
  cases sa <;> cases sb <;>
    simp only [BigInt.subAssign, BigInt.clone, BigUint.clone, BigInt.val, addAssign_spec P ma mb hca hcb,
      Int.sub_zero, Int.zero_sub, Sign.neg] at *
  · rw [hdm]; congr 2; omega
  · exact congrArg _ hA
  · exact ok_from_minus hsumC (by rw [ofNat_val]; omega)
  · exact congrArg _ hNB
  · exact congrArg _ hA
  · exact congrArg _ hNB
  · exact ok_from_plus hsumC (by rw [ofNat_val]; omega)
  · exact congrArg _ hA
  · rw [hdp]

end NB.Core
