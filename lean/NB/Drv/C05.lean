/- driver handlers for stream C05 (modpow / modinv / Montgomery internals).
   The model column of u.modpow, i.modpow, u.modinv, i.modinv, u.plain_modpow, u.monty_modpow is computed by
   the DIGIT-LEVEL definitions of NB.Model.ModPowD (every BigUint operator = its digit-vector model), at every
   operand size (no cap). -/
import NB.Wire
import NB.Model.Monty
import NB.Model.ModPow
import NB.Model.ModPowD
import NB.Model.AsmParams
namespace NB.Drv.C05
open NB NB.Wire

def P := NB.Gen.P

/-! oracles: deliberately different algorithms from the model -/

/-- `b^e mod m` by the recursive halving identity -/
def powMod (b e m : Nat) : Nat :=
  if h : e = 0 then 1 % m
  else
    let hlf := powMod b (e / 2) m
    let sq := hlf * hlf % m
    if e % 2 = 1 then sq * (b % m) % m else sq
termination_by e
decreasing_by omega

/-- textbook recursive extended Euclid over `Int`: `(g, s, t)` with `s·a + t·b = g` -/
def egcd (a b : Nat) : Nat × Int × Int :=
  if h : b = 0 then (a, 1, 0)
  else
    let r := egcd b (a % b)
    (r.1, r.2.2, r.2.1 - (a / b : Nat) * r.2.2)
termination_by b
decreasing_by exact Nat.mod_lt _ (Nat.pos_of_ne_zero h)

/-- the inverse of `a` modulo `m > 0` in `[0, m)` if it exists -/
def invMod (a m : Nat) : Option Nat :=
  let r := egcd (a % m) m
  if r.1 = 1 then some (r.2.1 % (m : Int)).toNat else none

/-- floor-mod of `Int` with the sign of the modulus -/
def fmodI (a m : Int) : Int := a - m * (a.fdiv m)

def su := showExcept showLimbs
def si := showExcept showBigInt

def oModpowU (b e m : Nat) : String :=
  if m = 0 then "panic zeromod" else "ok " ++ showLimbs (ofNat (powMod b e m))

def oModpowI (b e m : Int) : String :=
  if e < 0 then "panic negexp"
  else if m = 0 then "panic zeromod"
  else
    -- |b|^e mod |m|, then move to the residue class of b^e and to the sign of m
    let r : Int := powMod b.natAbs e.toNat m.natAbs
    let r := if b < 0 ∧ e % 2 = 1 then -r else r
    "ok " ++ showBigInt (BigInt.ofInt (fmodI r m))

def oModinvU (a m : Nat) : String :=
  if m = 0 then "panic zeromod"
  else match invMod a m with
    | some x => "some " ++ showLimbs (ofNat x)
    | none => "none"

def oModinvI (a m : Int) : String :=
  if m = 0 then "panic zeromod"
  else
    -- inverse of (a mod |m|) in [0,|m|), moved to the interval of m's sign
    let am := (fmodI a m.natAbs).toNat
    match invMod am m.natAbs with
    | some x => "some " ++ showBigInt (BigInt.ofInt (fmodI x m))
    | none => "none"

def showOptI : Except Panic (Option BigInt) → String
  | .ok r => showOpt showBigInt r
  | .error p => "panic " ++ p.toString

def showOptU : Except Panic (Option (List Nat)) → String
  | .ok r => showOpt showLimbs r
  | .error p => "panic " ++ p.toString

def handle (op : String) (args : List String) : Option (String × String) :=
  match op, args with
  | "u.modpow", [b, e, m] => do
    let b ← parseLimbs b; let e ← parseLimbs e; let m ← parseLimbs m
    pure (su (modpowD P b e m), oModpowU (val b) (val e) (val m))
  | "i.modpow", [b, e, m] => do
    let b ← parseBigInt b; let e ← parseBigInt e; let m ← parseBigInt m
    pure (si (BigInt.modpowD P b e m), oModpowI b.val e.val m.val)
  | "u.modinv", [a, m] => do
    let a ← parseLimbs a; let m ← parseLimbs m
    pure (showOptU (modinvD P a m), oModinvU (val a) (val m))
  | "i.modinv", [a, m] => do
    let a ← parseBigInt a; let m ← parseBigInt m
    pure (showOptI (BigInt.modinvD P a m), oModinvI a.val m.val)
  -- the two routines behind the parity dispatch, each on any modulus it accepts
  | "u.plain_modpow", [b, e, m] => do
    let b ← parseLimbs b; let e ← parseLimbs e; let m ← parseLimbs m
    let r := su (plainModpowD P b e m)
    -- `plain_modpow` answers 1 for a zero exponent whatever the modulus (it is only ever
    -- called with an even modulus)
    let o := if val m = 0 then "panic zeromod"
             else if val e = 0 then "ok 1"
             else "ok " ++ showLimbs (ofNat (powMod (val b) (val e) (val m)))
    pure (r, o)
  | "u.monty_modpow", [b, e, m] => do
    let b ← parseLimbs b; let e ← parseLimbs e; let m ← parseLimbs m
    pure (su (montyModpowD P b e m), oModpowU (val b) (val e) (val m))
  -- internal hooks on raw digit vectors
  | "raw.montgomery", [x, y, m, k, n] => do
    let x ← parseLimbs x; let y ← parseLimbs y; let m ← parseLimbs m
    let k ← parseHex k; let n ← parseNat n
    pure (su (montgomery x y m k n), "-")
  | "raw.montgomery_chk", [x, y, m, k, n] => do
    let x ← parseLimbs x; let y ← parseLimbs y; let m ← parseLimbs m
    let k ← parseHex k; let n ← parseNat n
    match montgomery x y m k n with
    | .error p => pure ("panic " ++ p.toString, "ok 1 1 " ++ toString (montCarry x y m k n))
    | .ok z =>
      let c1 := (val z * B ^ n) % val m == (val x * val y) % val m
      let c2 := val z < B ^ n ∧ z.length = n
      pure ("ok " ++ showBool c1 ++ " " ++ showBool c2 ++ " " ++ toString (montCarry x y m k n),
            "ok 1 1 " ++ toString (montCarry x y m k n))
  | "raw.inv_mod_alt", [b] => do
    let b ← parseHex b
    let o := match invMod b B with
      | some x => "ok " ++ showHex ((B - x) % B)
      | none => "-"
    pure (showExcept showHex (invModAlt b), o)
  | _, _ => none

end NB.Drv.C05
