/- driver handlers for stream C09 (bytes, digit vectors, digit iterators) -/
import NB.Wire
import NB.Model.Bytes
import NB.Model.Iter
namespace NB.Drv.C09
open NB NB.Wire NB.Bytes NB.Iter

def su := showExcept showLimbs
def si := showExcept showBigInt
def sb := showExcept showBytes
def ssb := showExcept (fun (p : Sign × List Nat) => showSign p.1 ++ " " ++ showBytes p.2)

def parseSignTok (s : String) : Option Sign :=
  match s.toList with
  | [c] => parseSign c
  | _ => none

/-- the integer a `(sign, magnitude value)` pair denotes after `from_biguint` -/
def signedVal (s : Sign) (m : Nat) : Int :=
  match s with
  | .minus => - (m : Int) | .nosign => 0 | .plus => (m : Int)

/-- oracle: bytes of a magnitude (`[0]` for zero) -/
def oBytes (v : Nat) : List Nat := if v = 0 then [0] else digitsBase 256 v

/-- oracle: number of bytes of the shortest two's-complement encoding (fuel-free search) -/
def tcLen (v : Int) : Nat :=
  let rec go (fuel n : Nat) : Nat :=
    match fuel with
    | 0 => n
    | f + 1 =>
      if - (2 : Int) ^ (8 * n - 1) ≤ v ∧ v < (2 : Int) ^ (8 * n - 1) then n else go f (n + 1)
  go (v.natAbs.log2 / 8 + 3) 1

/-- oracle: the shortest two's-complement encoding, little endian -/
def oSigned (v : Int) : List Nat :=
  let n := tcLen v
  let u := (v % (256 : Int) ^ n).toNat
  let d := digitsBase 256 u
  d ++ List.replicate (n - d.length) 0

def parseCalls (s : String) : Option (List Call) :=
  let rec go (fuel : Nat) (cs : List Char) : Option (List Call) :=
    match fuel with
    | 0 => none
    | f + 1 =>
      match cs with
      | [] => some []
      | 'n' :: t => (go f t).map (Call.next :: ·)
      | 'b' :: t => (go f t).map (Call.nextBack :: ·)
      | 'l' :: t => (go f t).map (Call.len :: ·)
      | 'h' :: t => (go f t).map (Call.sizeHint :: ·)
      | 'L' :: t => (go f t).map (Call.last :: ·)
      | 'C' :: t => (go f t).map (Call.count :: ·)
      | 't' :: t =>
        let ds := t.takeWhile Char.isDigit
        if ds.isEmpty then none else
        match (String.ofList ds).toNat? with
        | some k => (go f (t.dropWhile Char.isDigit)).map (Call.nth k :: ·)
        | none => none
      | _ => none
  if s == "-" then some [] else go (s.length + 1) s.toList

def showRes (hex : Nat → String) : Res → String
  | .item (some x) => "s" ++ hex x
  | .item none => "n"
  | .num n => toString n
  | .hint lo (some hi) => "h" ++ toString lo ++ ":" ++ toString hi
  | .hint lo none => "h" ++ toString lo ++ ":none"
  | .panic p => "panic:" ++ p.toString

def showRun (rs : List Res) : String :=
  if rs.isEmpty then "ok" else "ok " ++ " ".intercalate (rs.map (showRes showHex))

/-- internal iteration after a prefix of calls: `fold` / `for_each` / `sum` are `next()` until `None`, `rfold` /
    `rev()` are `next_back()` until `None` (std's provided methods).  The run is extended by enough such calls and cut
    at the first `None` of the extension; `kind` = F (items front to back), R (items back to front), S (their sum). -/
def runInternal (run : List Call → List Res) (cs : List Call) (n : Nat) (kind : String) : Option String :=
  let kind := if kind == "V" then "R" else if kind == "E" then "F" else kind     -- rev().collect() / for_each
  let step : Call := if kind == "R" then Call.nextBack else Call.next
  let rs := run (cs ++ List.replicate (n + 2) step)
  let pre := rs.take cs.length
  let ext := (rs.drop cs.length).takeWhile (fun r => match r with | Res.item (some _) => true | _ => false)
  if pre.length != cs.length then none else
  let shown := pre.map (showRes showHex)
  if kind == "S" then
    let tot := ext.foldl (fun acc r => match r with | Res.item (some v) => acc + v | _ => acc) 0
    some ("ok " ++ " ".intercalate (shown ++ ["sum:" ++ showHex (tot % 18446744073709551616)]))
  else
    some ("ok " ++ " ".intercalate (shown ++ [";"] ++ ext.map (showRes showHex)))

def noTerminal (cs : List Call) : Bool := cs.all (fun c => match c with | Call.last | Call.count => false | _ => true)

def handle (op : String) (args : List String) : Option (String × String) :=
  match op, args with
  | "u.to_bytes_le", [a] | "u.to_le_bytes", [a] => do
    let a ← parseLimbs a
    pure (sb (toBytesLe a), sb (.ok (oBytes (val a))))
  | "u.to_bytes_be", [a] | "u.to_be_bytes", [a] => do
    let a ← parseLimbs a
    pure (sb (toBytesBe a), sb (.ok (oBytes (val a)).reverse))
  | "u.from_bytes_le", [b] | "u.from_le_bytes", [b] => do
    let b ← parseBytes b
    pure (su (fromBytesLe b), su (.ok (ofNat (valBase 256 b))))
  | "u.from_bytes_be", [b] | "u.from_be_bytes", [b] => do
    let b ← parseBytes b
    pure (su (fromBytesBe b), su (.ok (ofNat (valBase 256 b.reverse))))
  | "i.to_signed_bytes_le", [a] | "i.to_le_bytes", [a] => do
    let a ← parseBigInt a
    pure (sb (toSignedBytesLe a), sb (.ok (oSigned a.val)))
  | "i.to_signed_bytes_be", [a] | "i.to_be_bytes", [a] => do
    let a ← parseBigInt a
    pure (sb (toSignedBytesBe a), sb (.ok (oSigned a.val).reverse))
  | "i.from_signed_bytes_le", [b] | "i.from_le_bytes", [b] => do
    let b ← parseBytes b
    pure (si (fromSignedBytesLe b), si (.ok (BigInt.ofInt (tcDecode b))))
  | "i.from_signed_bytes_be", [b] | "i.from_be_bytes", [b] => do
    let b ← parseBytes b
    pure (si (fromSignedBytesBe b), si (.ok (BigInt.ofInt (tcDecode b.reverse))))
  | "i.to_bytes_le", [a] => do
    let a ← parseBigInt a
    pure (ssb (itoBytesLe a), ssb (.ok (a.sign, oBytes (val a.mag))))
  | "i.to_bytes_be", [a] => do
    let a ← parseBigInt a
    pure (ssb (itoBytesBe a), ssb (.ok (a.sign, (oBytes (val a.mag)).reverse)))
  | "i.from_bytes_le", [s, b] => do
    let s ← parseSignTok s; let b ← parseBytes b
    pure (si (ifromBytesLe s b), si (.ok (BigInt.ofInt (signedVal s (valBase 256 b)))))
  | "i.from_bytes_be", [s, b] => do
    let s ← parseSignTok s; let b ← parseBytes b
    pure (si (ifromBytesBe s b), si (.ok (BigInt.ofInt (signedVal s (valBase 256 b.reverse)))))
  | "u.to_u32_digits", [a] => do
    let a ← parseLimbs a
    pure ("ok " ++ showWords (toU32Digits a), "ok " ++ showWords (digitsBase W (val a)))
  | "u.to_u64_digits", [a] => do
    let a ← parseLimbs a
    pure ("ok " ++ showLimbs (toU64Digits a), "ok " ++ showLimbs (digitsBase B (val a)))
  | "i.to_u32_digits", [a] => do
    let a ← parseBigInt a
    pure ("ok " ++ showSign a.sign ++ " " ++ showWords (toU32Digits a.mag),
          "ok " ++ showSign a.sign ++ " " ++ showWords (digitsBase W (val a.mag)))
  | "i.to_u64_digits", [a] => do
    let a ← parseBigInt a
    pure ("ok " ++ showSign a.sign ++ " " ++ showLimbs (toU64Digits a.mag),
          "ok " ++ showSign a.sign ++ " " ++ showLimbs (digitsBase B (val a.mag)))
  | "u.new", [w] => do
    let w ← parseWords w
    pure (su (Bytes.new w), su (.ok (ofNat (valBase W w))))
  | "u.from_slice", [w] => do
    let w ← parseWords w
    pure (su (fromSlice w), su (.ok (ofNat (valBase W w))))
  | "u.assign_from_slice", [old, w] => do
    let old ← parseLimbs old; let w ← parseWords w
    pure (su (assignFromSlice old w), su (.ok (ofNat (valBase W w))))
  | "i.new", [s, w] => do
    let s ← parseSignTok s; let w ← parseWords w
    pure (si (inew s w), si (.ok (BigInt.ofInt (signedVal s (valBase W w)))))
  | "i.from_slice", [s, w] => do
    let s ← parseSignTok s; let w ← parseWords w
    pure (si (ifromSlice s w), si (.ok (BigInt.ofInt (signedVal s (valBase W w)))))
  | "i.assign_from_slice", [old, s, w] => do
    let old ← parseBigInt old; let s ← parseSignTok s; let w ← parseWords w
    pure (si (iassignFromSlice old s w), si (.ok (BigInt.ofInt (signedVal s (valBase W w)))))
  | "iter32x", [a, cs, kind] => do
    let a ← parseLimbs a; let cs ← parseCalls cs
    if !noTerminal cs then none else
    let m ← runInternal (fun c => run32 c (U32Digits.new a)) cs (2 * a.length) kind
    let o ← runInternal (fun c => specRun c (digitsBase W (val a))) cs (2 * a.length) kind
    pure (m, o)
  | "iter64x", [a, cs, kind] => do
    let a ← parseLimbs a; let cs ← parseCalls cs
    if !noTerminal cs then none else
    let m ← runInternal (fun c => run64 c (U64Digits.new a)) cs a.length kind
    let o ← runInternal (fun c => specRun c (digitsBase B (val a))) cs a.length kind
    pure (m, o)
  | "iter32", [a, cs] => do
    let a ← parseLimbs a; let cs ← parseCalls cs
    pure (showRun (run32 cs (U32Digits.new a)), showRun (specRun cs (digitsBase W (val a))))
  | "iter64", [a, cs] => do
    let a ← parseLimbs a; let cs ← parseCalls cs
    pure (showRun (run64 cs (U64Digits.new a)), showRun (specRun cs (digitsBase B (val a))))
  | "i.iter32", [a, cs] => do
    let a ← parseBigInt a; let cs ← parseCalls cs
    pure (showRun (run32 cs (U32Digits.new a.mag)), showRun (specRun cs (digitsBase W (val a.mag))))
  | "i.iter64", [a, cs] => do
    let a ← parseBigInt a; let cs ← parseCalls cs
    pure (showRun (run64 cs (U64Digits.new a.mag)), showRun (specRun cs (digitsBase B (val a.mag))))
  -- api-coverage: provided `to_ne_bytes` / `from_ne_bytes` (num-traits; x86_64 is little-endian: the `_le` forms)
  | "u.to_ne_bytes", [a] => do
    let a ← parseLimbs a
    pure (sb (toBytesLe a), sb (.ok (oBytes (val a))))
  | "u.from_ne_bytes", [b] => do
    let b ← parseBytes b
    pure (su (fromBytesLe b), su (.ok (ofNat (valBase 256 b))))
  | "i.to_ne_bytes", [a] => do
    let a ← parseBigInt a
    pure (sb (toSignedBytesLe a), sb (.ok (oSigned a.val)))
  | "i.from_ne_bytes", [b] => do
    let b ← parseBytes b
    pure (si (fromSignedBytesLe b), si (.ok (BigInt.ofInt (tcDecode b))))
  | _, _ => none

end NB.Drv.C09
