//! stream C02: multiplication
use crate::wire::*;
use num_traits::CheckedMul;

// ---------------------------------------------------------------------------------------------
// api-coverage: the scalar multiplication paths named in C02's anchors (`scalar_mul`, `Mul<u32|u64|u128>`,
// `MulAssign<u32|u64|u128> for BigUint` incl. the two-digit `mul3(&self.data, &[lo, hi])` arm of u128, and the BigInt
// leaves for unsigned / signed scalars), in their by-value leaf form; the small types go through the promotion impls.
// `which`: 0 `x * v`, 1 `v * x`, 2 `x *= v`.
use core::ops::{Mul, MulAssign};
use num_bigint::{BigInt, BigUint};

fn scm_u<T>(x: BigUint, v: T, which: u8) -> BigUint
where
    T: Copy + Mul<BigUint, Output = BigUint>,
    BigUint: Mul<T, Output = BigUint> + MulAssign<T>,
{
    match which {
        0 => x * v,
        1 => v * x,
        _ => {
            let mut y = x;
            y *= v;
            y
        }
    }
}

fn scm_i<T>(x: BigInt, v: T, which: u8) -> BigInt
where
    T: Copy + Mul<BigInt, Output = BigInt>,
    BigInt: Mul<T, Output = BigInt> + MulAssign<T>,
{
    match which {
        0 => x * v,
        1 => v * x,
        _ => {
            let mut y = x;
            y *= v;
            y
        }
    }
}

macro_rules! scalar_dispatch {
    ($tok:expr, |$v:ident| $body:expr, $signed:expr) => {{
        let (ty, s) = $tok.split_once(':')?;
        match (ty, $signed) {
            ("u8", _) => { let $v = s.parse::<u8>().ok()?; $body }
            ("u16", _) => { let $v = s.parse::<u16>().ok()?; $body }
            ("u32", _) => { let $v = s.parse::<u32>().ok()?; $body }
            ("u64", _) => { let $v = s.parse::<u64>().ok()?; $body }
            ("u128", _) => { let $v = s.parse::<u128>().ok()?; $body }
            ("usize", _) => { let $v = s.parse::<usize>().ok()?; $body }
            _ => return None,
        }
    }};
}

macro_rules! scalar_dispatch_signed {
    ($tok:expr, |$v:ident| $body:expr) => {{
        let (ty, s) = $tok.split_once(':')?;
        match ty {
            "i8" => { let $v = s.parse::<i8>().ok()?; $body }
            "i16" => { let $v = s.parse::<i16>().ok()?; $body }
            "i32" => { let $v = s.parse::<i32>().ok()?; $body }
            "i64" => { let $v = s.parse::<i64>().ok()?; $body }
            "i128" => { let $v = s.parse::<i128>().ok()?; $body }
            "isize" => { let $v = s.parse::<isize>().ok()?; $body }
            _ => return None,
        }
    }};
}

fn scalar_op(op: &str, a: &[&str]) -> Option<String> {
    let (w, x, tv) = match (&op[2..], a) {
        ("mul_s", [x, tv]) => (0u8, x, tv),
        ("s_mul", [tv, x]) => (1u8, x, tv),
        ("mul_assign_s", [x, tv]) => (2u8, x, tv),
        _ => return None,
    };
    Some(if op.starts_with("u.") {
        let x = parse_u(x)?;
        ok_u(&scalar_dispatch!(tv, |v| scm_u(x, v, w), false))
    } else if tv.starts_with('i') {
        let x = parse_i(x)?;
        ok_i(&scalar_dispatch_signed!(tv, |v| scm_i(x, v, w)))
    } else {
        let x = parse_i(x)?;
        ok_i(&scalar_dispatch!(tv, |v| scm_i(x, v, w), true))
    })
}

pub fn handle(op: &str, a: &[&str]) -> Option<String> {
    Some(match (op, a) {
        ("u.mul_u64", [x, s]) => {
            let sc = s.parse::<u64>().ok()?;
            let a = parse_u(x)?;
            let mut b = a.clone();
            b *= sc;
            let c = &a * sc;
            let d = sc * a.clone();
            if show_u(&b) != show_u(&c) || show_u(&c) != show_u(&d) || (sc <= u32::MAX as u64 && show_u(&(&a * (sc as u32))) != show_u(&c)) {
                return Some("panic internal:scalar-forms-disagree".to_string());
            }
            ok_u(&b)
        }
        ("u.mul_u128", [x, s]) => {
            let sc = s.parse::<u128>().ok()?;
            let a = parse_u(x)?;
            let mut b = a.clone();
            b *= sc;
            let c = &a * sc;
            let d = sc * &a;
            if show_u(&b) != show_u(&c) || show_u(&c) != show_u(&d) {
                return Some("panic internal:scalar-forms-disagree".to_string());
            }
            // the BigInt i128 forms share the magnitude path
            let bi = num_bigint::BigInt::from(a.clone()) * (sc as i128);
            let _ = bi;
            ok_u(&b)
        }
        ("u.mul", [x, y]) => ok_u(&(&parse_u(x)? * &parse_u(y)?)),
        ("u.mul_assign", [x, y]) => {
            let mut v = parse_u(x)?;
            v *= &parse_u(y)?;
            ok_u(&v)
        }
        ("u.checked_mul", [x, y]) => opt_u(&parse_u(x)?.checked_mul(&parse_u(y)?)),
        ("i.mul", [x, y]) => ok_i(&(&parse_i(x)? * &parse_i(y)?)),
        ("i.mul_assign", [x, y]) => {
            let mut v = parse_i(x)?;
            v *= &parse_i(y)?;
            ok_i(&v)
        }
        ("i.checked_mul", [x, y]) => opt_i(&parse_i(x)?.checked_mul(&parse_i(y)?)),
        // api-coverage: the TRAIT impl `CheckedMul for BigInt` (`Some(self.mul(v))`); `i.checked_mul` above resolves
        // to the inherent `BigInt::checked_mul`
        ("i.checked_mul_t", [x, y]) => opt_i(&CheckedMul::checked_mul(&parse_i(x)?, &parse_i(y)?)),
        // api-coverage: scalar multiplication forms (see `scalar_op`)
        ("u.mul_s" | "u.s_mul" | "u.mul_assign_s" | "i.mul_s" | "i.s_mul" | "i.mul_assign_s", [_, _]) => {
            return scalar_op(op, a)
        }
        #[cfg(num_bigint_verif)]
        ("raw.mac3", [acc, b, c]) => {
            let mut acc = parse_limbs(acc)?;
            let b = parse_limbs(b)?;
            let c = parse_limbs(c)?;
            num_bigint::verif::mac3(&mut acc, &b, &c);
            format!("ok {}", show_limbs(&acc))
        }
        #[cfg(num_bigint_verif)]
        ("raw.sub_sign", [x, y]) => {
            let a = parse_limbs(x)?;
            let b = parse_limbs(y)?;
            let (s, m) = num_bigint::verif::sub_sign(&a, &b);
            format!("ok {}{}", show_sign(s), show_limbs(num_bigint::verif::raw_digits(&m)))
        }
        _ => return None,
    })
}
