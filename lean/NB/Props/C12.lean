/-
  C12 — Exponentiation is exact for every exponent type.

  Model: NB.Model.Pow (value-level transcription of `pow_impl!` and `Pow<&BigUint>` of
  src/biguint/power.rs, `powsign` and `pow_impl!` of src/bigint/power.rs; correspondence-checked
  against the crate on every run).  The macro body is the same for u8…u128/usize, so one theorem
  covers all primitive exponent types; the four operand forms are separate model functions and
  all equal `x^e`.  Fuel of both loops (`powFuel e` = bit length of the exponent, at most the width
  of the exponent type) is proved sufficient, so the loops terminate and never hit the fuel error.
-/
import NB.Lemmas.Pow
import NB.Lemmas.PowD
import NB.Model.AsmParams
import NB.Drv.C12
namespace NB
open NB.Pow NB.IntVal

/-- first loop (strip trailing zero bits by squaring): stops at an odd exponent with the power unchanged -/
theorem pow_sq_phase (base exp fuel : Nat) (h0 : exp ≠ 0) (hf : exp < 2 ^ fuel) :
    ∃ b' e', sqLoop fuel base exp = .ok (b', e') ∧ e' % 2 = 1 ∧ e' ≤ exp ∧ b' ^ e' = base ^ exp :=
  sqLoop_spec fuel base exp h0 hf

/-- second loop (square, multiply when the bit is set): invariant `acc · (base²)^(exp/2)` -/
theorem pow_acc_phase (base exp acc fuel : Nat) (h0 : exp ≠ 0) (hf : exp < 2 ^ fuel) :
    accLoop fuel base exp acc = .ok (acc * (base * base) ^ (exp / 2)) :=
  accLoop_spec fuel base exp acc h0 hf

/-- the fuel handed to both loops is enough: `e < 2^(powFuel e)` -/
theorem pow_fuel_sufficient (e : Nat) : e < 2 ^ powFuel e := lt_two_pow_powFuel e

/-- `impl Pow<$T> for BigUint`: exactly `x^e`, every `x`, every `e` (so every exponent type) -/
theorem pow_spec (x e : Nat) : powVV x e = .ok (x ^ e) := powVV_ok x e

/-- all four operand forms (base by value/reference × exponent by value/reference) -/
theorem pow_forms_spec (f : Form) (x e : Nat) : powPrim f x e = .ok (x ^ e) := powPrim_ok f x e

/-- `0^0 = 1` (and `x^0 = 1`) in every form -/
theorem pow_zero_exp (f : Form) (x : Nat) : powPrim f x 0 = .ok 1 := by
  rw [powPrim_ok]; simp

theorem pow_zero_zero (f : Form) : powPrim f 0 0 = .ok 1 := pow_zero_exp f 0

/-- BigUint exponent, `Pow<&BigUint> for BigUint`: short-cuts, narrowing to u64 / u128, else the
    capacity panic — which happens exactly when `x ≥ 2` and `e ≥ 2^128` -/
theorem pow_big_spec (f : Form) (x e : Nat) :
    powBig f x e = if 2 ≤ x ∧ 2 ^ 128 ≤ e then .error .capacity else .ok (x ^ e) := by
  have hB : B * B = 2 ^ 128 := by decide
  have key : powBigVR x e = if 2 ≤ x ∧ 2 ^ 128 ≤ e then .error .capacity else .ok (x ^ e) := by
    unfold powBigVR
    by_cases h1 : x = 1 ∨ e = 0
    · have : ¬ (2 ≤ x ∧ 2 ^ 128 ≤ e) := by
        rcases h1 with h | h
        · omega
        · subst h; simp
      rw [if_pos h1, if_neg this]
      rcases h1 with h | h <;> subst h <;> simp
    · rw [if_neg h1]
      by_cases h2 : x = 0
      · have : ¬ (2 ≤ x ∧ 2 ^ 128 ≤ e) := by omega
        rw [if_pos h2, if_neg this, h2, Nat.zero_pow (by omega)]
      · rw [if_neg h2]
        by_cases h3 : e < B
        · have : ¬ (2 ≤ x ∧ 2 ^ 128 ≤ e) := by
            have : B ≤ 2 ^ 128 := by decide
            omega
          rw [if_pos h3, if_neg this, powVV_ok]
        · rw [if_neg h3]
          by_cases h4 : e < B * B
          · have : ¬ (2 ≤ x ∧ 2 ^ 128 ≤ e) := by omega
            rw [if_pos h4, if_neg this, powVV_ok]
          · have : 2 ≤ x ∧ 2 ^ 128 ≤ e := by omega
            rw [if_neg h4, if_pos this]
  have key2 : powBigRR x e = powBigVR x e := by
    unfold powBigRR
    by_cases h1 : x = 1 ∨ e = 0
    · rw [if_pos h1]; unfold powBigVR; rw [if_pos h1]
    · rw [if_neg h1]
      by_cases h2 : x = 0
      · rw [if_pos h2]; unfold powBigVR; rw [if_neg h1, if_pos h2]
      · rw [if_neg h2]
  cases f <;> simp only [powBig, powBigVV, powBigRV, key2, key]

/-- u64 / u128 narrowing is value-preserving: both arms run the same loop on the same exponent -/
theorem pow_big_narrowing (x e : Nat) (h : e < 2 ^ 128) : powBigVR x e = .ok (x ^ e) := by
  have := pow_big_spec .vr x e
  simp only [powBig] at this
  rw [this, if_neg (by omega)]

/-! ### BigInt -/

theorem fromBiguint_powsign (x : Int) (e : Nat) :
    fromBiguint (powsign (signOf x) e) (x.natAbs ^ e) = x ^ e := by
  unfold powsign
  by_cases he : e = 0
  · subst he; simp [fromBiguint]
  · rw [if_neg he]
    by_cases hneg : x < 0
    · have hs : signOf x = .minus := by simp [signOf, hneg]
      have hx : x = - (x.natAbs : Int) := by omega
      rw [hs]
      by_cases ho : e % 2 = 1
      · have : (Sign.minus ≠ Sign.minus ∨ e % 2 = 1) := Or.inr ho
        rw [if_pos this]
        simp only [fromBiguint]
        conv_rhs => rw [hx, Odd.neg_pow (Nat.odd_iff.mpr ho)]
        push_cast; rfl
      · have : ¬ (Sign.minus ≠ Sign.minus ∨ e % 2 = 1) := by simp [ho]
        rw [if_neg this]
        simp only [Sign.neg, fromBiguint]
        conv_rhs => rw [hx, Even.neg_pow (Nat.even_iff.mpr (by omega))]
        push_cast; rfl
    · by_cases h0 : x = 0
      · subst h0
        simp [signOf, fromBiguint, he]
      · have hs : signOf x = .plus := by simp [signOf, hneg, h0]
        have hx : x = (x.natAbs : Int) := by omega
        rw [hs]
        simp only [ne_eq, reduceCtorEq, not_false_eq_true, true_or, if_true, fromBiguint]
        conv_rhs => rw [hx]
        push_cast; rfl

/-- BigInt `pow` for primitive exponents, all forms: exactly `x^e` on the integers -/
theorem bigint_pow_spec (f : Form) (x : Int) (e : Nat) : bigintPow f x e = .ok (x ^ e) := by
  unfold bigintPow
  simp only [powPrim_ok, fromBiguint_powsign]

/-- BigInt `pow` with a BigUint exponent -/
theorem bigint_pow_big_spec (f : Form) (x : Int) (e : Nat) :
    bigintPowBig f x e = if 2 ≤ x.natAbs ∧ 2 ^ 128 ≤ e then .error .capacity else .ok (x ^ e) := by
  unfold bigintPowBig
  rw [pow_big_spec]
  by_cases h : 2 ≤ x.natAbs ∧ 2 ^ 128 ≤ e
  · rw [if_pos h, if_pos h]
  · rw [if_neg h, if_neg h]
    simp only [fromBiguint_powsign]

/-- sign rule: the power is negative exactly when the base is negative and the exponent odd -/
theorem bigint_pow_sign (x : Int) (e : Nat) : x ^ e < 0 ↔ x < 0 ∧ e % 2 = 1 := by
  constructor
  · intro h
    by_cases hx : x < 0
    · refine ⟨hx, ?_⟩
      by_contra ho
      have := Even.pow_nonneg (Nat.even_iff.mpr (by omega : e % 2 = 0)) x
      omega
    · have := pow_nonneg (show 0 ≤ x by omega) e
      omega
  · rintro ⟨hx, ho⟩
    exact Odd.pow_neg (Nat.odd_iff.mpr ho) hx

/-- `powsign` as a table -/
theorem powsign_spec (s : Sign) (e : Nat) :
    powsign s e = if e = 0 then .plus else if s = .minus ∧ e % 2 = 0 then .plus else s := by
  unfold powsign
  by_cases he : e = 0
  · simp [he]
  · cases s <;> by_cases ho : e % 2 = 1 <;> simp [he, ho, Sign.neg] <;> omega

/-! ### non-vacuity / concrete evaluations of the model -/

example : powVV 3 13 = .ok 1594323 := by decide
example : powVV 2 64 = .ok 18446744073709551616 := by decide
example : powVV 0 0 = .ok 1 := by decide
example : bigintPow .rv (-3) 5 = .ok (-243) := by decide
example : bigintPowBig .vv (-1) (2 ^ 128 + 1) = .ok (-1) := by
  rw [bigint_pow_big_spec, if_neg (by decide), Odd.neg_one_pow ⟨2 ^ 127, by norm_num⟩]
example : powBig .rr 2 (2 ^ 128) = .error .capacity := by rw [pow_big_spec]; simp

/-! ## Digit-level layer (NB.Model.PowD; this is what the driver's model column runs)

  `PowD.*` mirrors `pow_impl!`, `Pow<&BigUint>`, `powsign` and the BigInt `pow_impl!` on digit vectors /
  BigInt records: `&base * &base` is `Mul.mulRef`, `acc *= &base` is `Mul.mulAssign` (C02's digit-level
  multiplication, all regimes), BigUint exponents are digit vectors narrowed through the models of
  `to_u64` / `to_u128` (C08), `is_one` / `is_zero` / `is_odd` look at the digits, and every operator panic
  is propagated.  The `…D_refines` theorems say that on canonical inputs it computes exactly what the
  value-level model computes on the values (outcome for outcome), so `pow_spec` etc. transfer.
  Only extra hypothesis: `P.ValidMul` (obligation `gen_params_valid_mul`, C02). -/

/-- the squaring phase at digit level refines the value-level phase, every fuel -/
theorem pow_sq_phaseD_refines (P : Params) (hP : P.ValidMul) (fuel : Nat) (base : List Nat) (exp : Nat)
    (hb : Canon base) :
    PowD.sqLoop P fuel base exp = (sqLoop fuel (val base) exp).map (fun p => (ofNat p.1, p.2)) := by
  obtain ⟨x, rfl⟩ : ∃ x, base = ofNat x := ⟨_, canon_eq_ofNat hb⟩
  simp only [ofNat_val]
  exact PowD.sqLoop_refines P hP fuel x exp

/-- the accumulate phase at digit level refines the value-level phase, every fuel -/
theorem pow_acc_phaseD_refines (P : Params) (hP : P.ValidMul) (fuel : Nat) (base : List Nat) (exp : Nat)
    (acc : List Nat) (hb : Canon base) (ha : Canon acc) :
    PowD.accLoop P fuel base exp acc = (accLoop fuel (val base) exp (val acc)).map ofNat := by
  obtain ⟨x, rfl⟩ : ∃ x, base = ofNat x := ⟨_, canon_eq_ofNat hb⟩
  obtain ⟨y, rfl⟩ : ∃ y, acc = ofNat y := ⟨_, canon_eq_ofNat ha⟩
  simp only [ofNat_val]
  exact PowD.accLoop_refines P hP fuel x exp y

theorem powD_refines (P : Params) (hP : P.ValidMul) (f : Form) (x : List Nat) (e : Nat) (hx : Canon x) :
    PowD.powPrim P f x e = (powPrim f (val x) e).map ofNat := by
  obtain ⟨n, rfl⟩ : ∃ n, x = ofNat n := ⟨_, canon_eq_ofNat hx⟩
  simp only [ofNat_val]
  exact PowD.powPrim_ofNat P hP f n e

/-- digit-level `Pow<$T> for BigUint`, all four operand forms, every primitive exponent type:
    the canonical digits of `x^e`; no multiplication panics, both loops terminate -/
theorem powD_spec (P : Params) (hP : P.ValidMul) (f : Form) (x : List Nat) (e : Nat) (hx : Canon x) :
    PowD.powPrim P f x e = .ok (ofNat (val x ^ e)) := by
  rw [powD_refines P hP f x e hx, pow_forms_spec]; rfl

theorem powD_zero_zero (P : Params) (f : Form) : PowD.powPrim P f [] 0 = .ok [1] := by
  cases f <;> rfl

theorem pow_bigD_refines (P : Params) (hP : P.ValidMul) (f : Form) (x e : List Nat) (hx : Canon x) (he : Canon e) :
    PowD.powBig P f x e = (powBig f (val x) (val e)).map ofNat := by
  obtain ⟨n, rfl⟩ : ∃ n, x = ofNat n := ⟨_, canon_eq_ofNat hx⟩
  obtain ⟨k, rfl⟩ : ∃ k, e = ofNat k := ⟨_, canon_eq_ofNat he⟩
  simp only [ofNat_val]
  exact PowD.powBig_ofNat P hP f n k

/-- digit-level BigUint exponent: capacity panic exactly when `x ≥ 2` and `e ≥ 2^128`, else `x^e`
    (the `to_u64` overflow site of the model is not reached) -/
theorem pow_bigD_spec (P : Params) (hP : P.ValidMul) (f : Form) (x e : List Nat) (hx : Canon x) (he : Canon e) :
    PowD.powBig P f x e =
      if 2 ≤ val x ∧ 2 ^ 128 ≤ val e then .error .capacity else .ok (ofNat (val x ^ val e)) := by
  rw [pow_bigD_refines P hP f x e hx he, pow_big_spec]
  split <;> rfl

theorem bigint_powD_refines (P : Params) (hP : P.ValidMul) (f : Form) (x : BigInt) (e : Nat) (hx : x.Canon) :
    PowD.bigintPow P f x e = (bigintPow f x.val e).map BigInt.ofInt := by
  have r := PowD.bigintPow_ofInt P hP f x.val e
  rwa [← bigint_canon_eq_ofInt hx] at r

/-- digit-level BigInt `pow`, primitive exponents, all forms: the canonical BigInt of `x^e` -/
theorem bigint_powD_spec (P : Params) (hP : P.ValidMul) (f : Form) (x : BigInt) (e : Nat) (hx : x.Canon) :
    PowD.bigintPow P f x e = .ok (BigInt.ofInt (x.val ^ e)) := by
  rw [bigint_powD_refines P hP f x e hx, bigint_pow_spec]; rfl

/-- digit-level BigInt `pow` with a BigUint exponent (sign through `is_zero` / `is_odd` of the digits) -/
theorem bigint_pow_bigD_spec (P : Params) (hP : P.ValidMul) (f : Form) (x : BigInt) (e : List Nat)
    (hx : x.Canon) (he : Canon e) :
    PowD.bigintPowBig P f x e =
      if 2 ≤ x.val.natAbs ∧ 2 ^ 128 ≤ val e then .error .capacity else .ok (BigInt.ofInt (x.val ^ val e)) := by
  obtain ⟨k, rfl⟩ : ∃ k, e = ofNat k := ⟨_, canon_eq_ofNat he⟩
  have r := PowD.bigintPowBig_ofInt P hP f x.val k
  rw [← bigint_canon_eq_ofInt hx] at r
  rw [r, ofNat_val, bigint_pow_big_spec]
  split <;> rfl

/-- `powsign` on the digits of a BigUint exponent = `powsign` on its value -/
theorem powsign_bigD_spec (s : Sign) (e : List Nat) (he : Canon e) :
    PowD.powsignBig s e = powsign s (val e) := by
  obtain ⟨k, rfl⟩ : ∃ k, e = ofNat k := ⟨_, canon_eq_ofNat he⟩
  rw [ofNat_val]; exact PowD.powsignBig_eq s k

/-- instantiations at the parameters regenerated from the source on every run -/
theorem powD_spec_gen (f : Form) (x : List Nat) (e : Nat) (hx : Canon x) :
    PowD.powPrim NB.Gen.P f x e = .ok (ofNat (val x ^ e)) := powD_spec NB.Gen.P gen_params_valid_mul f x e hx

theorem bigint_powD_spec_gen (f : Form) (x : BigInt) (e : Nat) (hx : x.Canon) :
    PowD.bigintPow NB.Gen.P f x e = .ok (BigInt.ofInt (x.val ^ e)) :=
  bigint_powD_spec NB.Gen.P gen_params_valid_mul f x e hx

/-- every operand the driver hands to the digit-level model is canonical (it normalises exactly like the
    harness's constructors `BigUint::new` / `BigInt::from_biguint`), so the `…D_spec` theorems apply to
    every evaluation of the driver's model column -/
theorem drv_operand_canon (s : String) (a : List Nat) (h : NB.Drv.C12.pU s = some a) : Canon a := by
  unfold NB.Drv.C12.pU at h
  cases hp : NB.Wire.parseLimbs s with
  | none => simp [hp] at h
  | some l =>
    simp only [hp, Option.bind_eq_bind, Option.bind_some] at h
    split at h
    · rename_i hall
      simp only [Option.pure_def, Option.some.injEq] at h
      subst h
      exact normalize_canon (fun d hd => by simpa using List.all_eq_true.mp hall d hd)
    · simp at h

theorem drv_operand_canon_i (s : String) (x : BigInt) (h : NB.Drv.C12.pI s = some x) : x.Canon := by
  unfold NB.Drv.C12.pI at h
  cases hp : NB.Wire.parseBigInt s with
  | none => simp [hp] at h
  | some y =>
    simp only [hp, Option.bind_eq_bind, Option.bind_some] at h
    split at h
    · rename_i hall
      simp only [Option.pure_def, Option.some.injEq] at h
      subst h
      have hc : Canon (normalize y.mag) :=
        normalize_canon (fun d hd => by simpa using List.all_eq_true.mp hall d hd)
      unfold BigInt.fromBiguint
      by_cases h1 : y.sign = .nosign
      · simp only [h1, if_true]; exact ⟨canon_nil, by simp⟩
      · simp only [h1, if_false]
        by_cases h2 : normalize y.mag = []
        · simp only [h2, if_true]; exact ⟨canon_nil, by simp⟩
        · simp only [h2, if_false]; exact ⟨hc, by simp [h1, h2]⟩
    · simp at h

/-! ### non-vacuity of the digit-level layer: concrete evaluations at the generated parameters -/

example : PowD.powPrim NB.Gen.P .vv [3] 13 = .ok [1594323] := by decide
example : PowD.powPrim NB.Gen.P .rr [2] 64 = .ok [0, 1] := by decide
example : PowD.powPrim NB.Gen.P .vv [0, 1] 3 = .ok [0, 0, 0, 1] := by decide
example : PowD.bigintPow NB.Gen.P .rv ⟨.minus, [3]⟩ 5 = .ok ⟨.minus, [243]⟩ := by decide
example : PowD.powBig NB.Gen.P .rr [2] [0, 0, 1] = .error .capacity := by decide
example : PowD.bigintPowBig NB.Gen.P .vv ⟨.minus, [1]⟩ [1, 0, 1] = .ok ⟨.minus, [1]⟩ := by decide

end NB
