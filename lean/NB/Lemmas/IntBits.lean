/- two's complement bit theory on Int (Mathlib's Int.land/lor/xor): extensionality, block decomposition, units -/
import NB.Lemmas.Bits
namespace NB.C07

/-- two integers with the same two's complement bits are equal -/
theorem int_eq_of_testBit_eq {x y : Int} (h : ∀ i, x.testBit i = y.testBit i) : x = y := by
  have key : ∀ m n : Nat, (∀ i, m.testBit i = !n.testBit i) → False := by
    intro m n hmn
    have h1 : m.testBit (max m n) = false :=
      Nat.testBit_lt_two_pow (Nat.lt_of_le_of_lt (Nat.le_max_left m n) Nat.lt_two_pow_self)
    have h2 : n.testBit (max m n) = false :=
      Nat.testBit_lt_two_pow (Nat.lt_of_le_of_lt (Nat.le_max_right m n) Nat.lt_two_pow_self)
    have := hmn (max m n)
    rw [h1, h2] at this; cases this
  cases x with
  | ofNat m =>
    cases y with
    | ofNat n => congr 1; exact Nat.eq_of_testBit_eq h
    | negSucc n => exact (key m n h).elim
  | negSucc m =>
    cases y with
    | ofNat n => exact (key n m (fun i => (h i).symm)).elim
    | negSucc n =>
      congr 1; apply Nat.eq_of_testBit_eq; intro i
      have := h i; simp only [Int.testBit] at this
      cases h1 : m.testBit i <;> cases h2 : n.testBit i <;> simp_all

/-- bits of `d + 2^k * x` for a digit block `d < 2^k` and any integer `x` -/
theorem int_testBit_block {k d : Nat} (x : Int) (hd : d < 2 ^ k) (j : Nat) :
    ((d : Int) + 2 ^ k * x).testBit j = if j < k then d.testBit j else x.testBit (j - k) := by
  cases x with
  | ofNat n =>
    have : (d : Int) + 2 ^ k * Int.ofNat n = Int.ofNat (d + 2 ^ k * n) := by
      simp only [Int.ofNat_eq_natCast]; push_cast; ring
    rw [this]
    show (d + 2 ^ k * n).testBit j = _
    rw [testBit_block n hd]; rfl
  | negSucc n =>
    have : (d : Int) + 2 ^ k * Int.negSucc n = Int.negSucc ((2 ^ k - 1 - d) + 2 ^ k * n) := by
      rw [Int.negSucc_eq, Int.negSucc_eq]
      have h1 : ((2 ^ k - 1 - d : Nat) : Int) = (2 : Int) ^ k - 1 - d := by
        have hle : d + 1 ≤ 2 ^ k := hd
        rw [show 2 ^ k - 1 - d = 2 ^ k - (d + 1) by omega, Nat.cast_sub hle]
        push_cast; ring
      push_cast
      rw [h1]; ring
    rw [this]
    show (!(2 ^ k - 1 - d + 2 ^ k * n).testBit j) = _
    rw [testBit_block n (by omega)]
    by_cases hj : j < k
    · simp only [hj, if_true]
      rw [show 2 ^ k - 1 - d = 2 ^ k - (d + 1) by omega, Nat.testBit_two_pow_sub_succ hd]
      simp [hj]
    · simp only [hj, if_false]; rfl

theorem int_land_block {k d e : Nat} (x y : Int) (hd : d < 2 ^ k) (he : e < 2 ^ k) :
    Int.land ((d : Int) + 2 ^ k * x) ((e : Int) + 2 ^ k * y) = ((d &&& e : Nat) : Int) + 2 ^ k * Int.land x y := by
  apply int_eq_of_testBit_eq; intro j
  rw [Int.testBit_land, int_testBit_block x hd, int_testBit_block y he,
    int_testBit_block _ (Nat.and_lt_two_pow d he)]
  split <;> simp [Int.testBit_land]

theorem int_lor_block {k d e : Nat} (x y : Int) (hd : d < 2 ^ k) (he : e < 2 ^ k) :
    Int.lor ((d : Int) + 2 ^ k * x) ((e : Int) + 2 ^ k * y) = ((d ||| e : Nat) : Int) + 2 ^ k * Int.lor x y := by
  apply int_eq_of_testBit_eq; intro j
  rw [Int.testBit_lor, int_testBit_block x hd, int_testBit_block y he,
    int_testBit_block _ (Nat.or_lt_two_pow hd he)]
  split <;> simp [Int.testBit_lor]

theorem int_xor_block {k d e : Nat} (x y : Int) (hd : d < 2 ^ k) (he : e < 2 ^ k) :
    Int.xor ((d : Int) + 2 ^ k * x) ((e : Int) + 2 ^ k * y) = ((d ^^^ e : Nat) : Int) + 2 ^ k * Int.xor x y := by
  apply int_eq_of_testBit_eq; intro j
  rw [Int.testBit_lxor, int_testBit_block x hd, int_testBit_block y he,
    int_testBit_block _ (Nat.xor_lt_two_pow hd he)]
  split <;> simp [Int.testBit_lxor]

theorem int_testBit_neg_one (j : Nat) : (-1 : Int).testBit j = true := by
  show (Int.negSucc 0).testBit j = true
  simp [Int.testBit]

theorem int_testBit_zero' (j : Nat) : (0 : Int).testBit j = false := by
  show (Int.ofNat 0).testBit j = false
  simp [Int.testBit]

theorem int_land_neg_one (x : Int) : Int.land x (-1) = x := by
  apply int_eq_of_testBit_eq; intro j; simp [Int.testBit_land, int_testBit_neg_one]
theorem int_neg_one_land (x : Int) : Int.land (-1) x = x := by
  apply int_eq_of_testBit_eq; intro j; simp [Int.testBit_land, int_testBit_neg_one]
theorem int_land_zero (x : Int) : Int.land x 0 = 0 := by
  apply int_eq_of_testBit_eq; intro j; simp [Int.testBit_land, int_testBit_zero']
theorem int_zero_land (x : Int) : Int.land 0 x = 0 := by
  apply int_eq_of_testBit_eq; intro j; simp [Int.testBit_land, int_testBit_zero']
theorem int_lor_neg_one (x : Int) : Int.lor x (-1) = -1 := by
  apply int_eq_of_testBit_eq; intro j; simp [Int.testBit_lor, int_testBit_neg_one]
theorem int_neg_one_lor (x : Int) : Int.lor (-1) x = -1 := by
  apply int_eq_of_testBit_eq; intro j; simp [Int.testBit_lor, int_testBit_neg_one]
theorem int_lor_zero (x : Int) : Int.lor x 0 = x := by
  apply int_eq_of_testBit_eq; intro j; simp [Int.testBit_lor, int_testBit_zero']
theorem int_zero_lor (x : Int) : Int.lor 0 x = x := by
  apply int_eq_of_testBit_eq; intro j; simp [Int.testBit_lor, int_testBit_zero']
theorem int_xor_zero (x : Int) : Int.xor x 0 = x := by
  apply int_eq_of_testBit_eq; intro j; simp [Int.testBit_lxor, int_testBit_zero']
theorem int_zero_xor (x : Int) : Int.xor 0 x = x := by
  apply int_eq_of_testBit_eq; intro j; simp [Int.testBit_lxor, int_testBit_zero']
theorem int_testBit_compl (x : Int) (j : Nat) : (-x - 1).testBit j = !x.testBit j := by
  have : -x - 1 = Int.lnot x := by
    cases x with
    | ofNat n => simp [Int.lnot, Int.negSucc_eq]; omega
    | negSucc n => simp [Int.lnot, Int.negSucc_eq]
  rw [this, Int.testBit_lnot]
theorem int_xor_neg_one (x : Int) : Int.xor x (-1) = -x - 1 := by
  apply int_eq_of_testBit_eq; intro j; simp [Int.testBit_lxor, int_testBit_neg_one, int_testBit_compl]
theorem int_neg_one_xor (x : Int) : Int.xor (-1) x = -x - 1 := by
  apply int_eq_of_testBit_eq; intro j; simp [Int.testBit_lxor, int_testBit_neg_one, int_testBit_compl]

end NB.C07
