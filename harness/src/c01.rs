//! stream C01: addition and subtraction
use crate::wire::*;
use num_bigint::{BigInt, BigUint};
use num_traits::{CheckedAdd, CheckedSub};

// ---------------------------------------------------------------------------------------------
// api-coverage: the scalar addition / subtraction forms ("every BigUint/BigInt addition and subtraction"): leaves
// `Add/Sub<u32|u64|u128> for BigUint`, `AddAssign/SubAssign<…>`, `u32|u64|u128 - BigUint`, the BigInt leaves for
// unsigned and signed scalars, in their by-value form; the small types go through the promotion impls first.
// `which`: 0 `x + v`, 1 `v + x`, 2 `x += v`, 3 `x - v`, 4 `v - x`, 5 `x -= v`.
use core::ops::{Add, AddAssign, Sub, SubAssign};

fn sca_u<T>(x: BigUint, v: T, which: u8) -> BigUint
where
    T: Copy + Add<BigUint, Output = BigUint> + Sub<BigUint, Output = BigUint>,
    BigUint: Add<T, Output = BigUint> + Sub<T, Output = BigUint> + AddAssign<T> + SubAssign<T>,
{
    match which {
        0 => x + v,
        1 => v + x,
        2 => {
            let mut y = x;
            y += v;
            y
        }
        3 => x - v,
        4 => v - x,
        _ => {
            let mut y = x;
            y -= v;
            y
        }
    }
}

fn sca_i<T>(x: BigInt, v: T, which: u8) -> BigInt
where
    T: Copy + Add<BigInt, Output = BigInt> + Sub<BigInt, Output = BigInt>,
    BigInt: Add<T, Output = BigInt> + Sub<T, Output = BigInt> + AddAssign<T> + SubAssign<T>,
{
    match which {
        0 => x + v,
        1 => v + x,
        2 => {
            let mut y = x;
            y += v;
            y
        }
        3 => x - v,
        4 => v - x,
        _ => {
            let mut y = x;
            y -= v;
            y
        }
    }
}

/// scalar token `<type>:<decimal>`, parsed into exactly that primitive type
macro_rules! scalar_dispatch {
    ($tok:expr, |$v:ident| $body:expr, unsigned) => {{
        let (ty, s) = $tok.split_once(':')?;
        match ty {
            "u8" => { let $v = s.parse::<u8>().ok()?; $body }
            "u16" => { let $v = s.parse::<u16>().ok()?; $body }
            "u32" => { let $v = s.parse::<u32>().ok()?; $body }
            "u64" => { let $v = s.parse::<u64>().ok()?; $body }
            "u128" => { let $v = s.parse::<u128>().ok()?; $body }
            "usize" => { let $v = s.parse::<usize>().ok()?; $body }
            _ => return None,
        }
    }};
    ($tok:expr, |$v:ident| $body:expr, all) => {{
        let (ty, s) = $tok.split_once(':')?;
        match ty {
            "u8" => { let $v = s.parse::<u8>().ok()?; $body }
            "u16" => { let $v = s.parse::<u16>().ok()?; $body }
            "u32" => { let $v = s.parse::<u32>().ok()?; $body }
            "u64" => { let $v = s.parse::<u64>().ok()?; $body }
            "u128" => { let $v = s.parse::<u128>().ok()?; $body }
            "usize" => { let $v = s.parse::<usize>().ok()?; $body }
            "i8" => { let $v = s.parse::<i8>().ok()?; $body }
            "i16" => { let $v = s.parse::<i16>().ok()?; $body }
            "i32" => { let $v = s.parse::<i32>().ok()?; $body }
            "i64" => { let $v = s.parse::<i64>().ok()?; $body }
            "i128" => { let $v = s.parse::<i128>().ok()?; $body }
            "isize" => { let $v = s.parse::<isize>().ok()?; $body }
            _ => return None,
        }
    }};
}

fn scalar_op(op: &str, a: &[&str]) -> Option<String> {
    let w: u8 = match &op[2..] {
        "add_s" => 0,
        "s_add" => 1,
        "add_assign_s" => 2,
        "sub_s" => 3,
        "s_sub" => 4,
        "sub_assign_s" => 5,
        _ => return None,
    };
    let (p, q) = match a {
        [p, q] => (*p, *q),
        _ => return None,
    };
    // scalar-left forms carry the scalar first
    let (x, tv) = if w == 1 || w == 4 { (q, p) } else { (p, q) };
    Some(if op.starts_with("u.") {
        let x = parse_u(x)?;
        ok_u(&scalar_dispatch!(tv, |v| sca_u(x, v, w), unsigned))
    } else {
        let x = parse_i(x)?;
        ok_i(&scalar_dispatch!(tv, |v| sca_i(x, v, w), all))
    })
}

pub fn handle(op: &str, a: &[&str]) -> Option<String> {
    Some(match (op, a) {
        ("u.add", [x, y]) => ok_u(&(&parse_u(x)? + &parse_u(y)?)),
        ("u.add_assign", [x, y]) => {
            let mut v = parse_u(x)?;
            v += &parse_u(y)?;
            ok_u(&v)
        }
        ("u.checked_add", [x, y]) => opt_u(&parse_u(x)?.checked_add(&parse_u(y)?)),
        ("u.sub", [x, y]) => ok_u(&(&parse_u(x)? - &parse_u(y)?)),
        ("u.sub_assign", [x, y]) => {
            let mut v = parse_u(x)?;
            v -= &parse_u(y)?;
            ok_u(&v)
        }
        ("u.sub_refval", [x, y]) => ok_u(&(&parse_u(x)? - parse_u(y)?)),
        ("u.checked_sub", [x, y]) => opt_u(&parse_u(x)?.checked_sub(&parse_u(y)?)),
        ("u.sub_from_u32", [s, y]) => ok_u(&(s.parse::<u32>().ok()? - parse_u(y)?)),
        ("u.sub_from_u64", [s, y]) => {
            let sc = s.parse::<u64>().ok()?;
            let by_val = std::panic::catch_unwind(|| sc - parse_u(y).unwrap());
            let by_ref = std::panic::catch_unwind(|| sc - &parse_u(y).unwrap());
            match (by_val, by_ref) {
                (Ok(a), Ok(b)) if a == b => ok_u(&a),
                (Err(e), Err(_)) => std::panic::resume_unwind(e),
                _ => "panic internal:scalar-left-forms-disagree".to_string(),
            }
        }
        ("u.sub_from_u128", [s, y]) => ok_u(&(s.parse::<u128>().ok()? - parse_u(y)?)),
        ("u.add_u64", [x, s]) => {
            let sc = s.parse::<u64>().ok()?;
            let a = parse_u(x)?;
            let mut b = a.clone();
            b += sc;
            let c = &a + sc;
            if b != c || (sc <= u32::MAX as u64 && &a + (sc as u32) != c) {
                return Some("panic internal:scalar-forms-disagree".to_string());
            }
            ok_u(&b)
        }
        ("u.add_u128", [x, s]) => {
            let sc = s.parse::<u128>().ok()?;
            let a = parse_u(x)?;
            let mut b = a.clone();
            b += sc;
            if b != &a + sc {
                return Some("panic internal:scalar-forms-disagree".to_string());
            }
            ok_u(&b)
        }
        ("u.sub_u64", [x, s]) => {
            let sc = s.parse::<u64>().ok()?;
            let a = parse_u(x)?;
            let by_op = std::panic::catch_unwind(|| &a - sc);
            let by_assign = std::panic::catch_unwind(|| {
                let mut b = a.clone();
                b -= sc;
                b
            });
            match (by_op, by_assign) {
                (Ok(p), Ok(q)) if p == q => ok_u(&p),
                (Err(e), Err(_)) => std::panic::resume_unwind(e),
                _ => "panic internal:scalar-forms-disagree".to_string(),
            }
        }
        ("u.sub_u128", [x, s]) => {
            let sc = s.parse::<u128>().ok()?;
            let a = parse_u(x)?;
            let by_op = std::panic::catch_unwind(|| &a - sc);
            let by_assign = std::panic::catch_unwind(|| {
                let mut b = a.clone();
                b -= sc;
                b
            });
            match (by_op, by_assign) {
                (Ok(p), Ok(q)) if p == q => ok_u(&p),
                (Err(e), Err(_)) => std::panic::resume_unwind(e),
                _ => "panic internal:scalar-forms-disagree".to_string(),
            }
        }
        ("i.add", [x, y]) => ok_i(&(&parse_i(x)? + &parse_i(y)?)),
        ("i.add_assign", [x, y]) => {
            let mut v = parse_i(x)?;
            v += &parse_i(y)?;
            ok_i(&v)
        }
        ("i.sub", [x, y]) => ok_i(&(&parse_i(x)? - &parse_i(y)?)),
        ("i.sub_assign", [x, y]) => {
            let mut v = parse_i(x)?;
            v -= &parse_i(y)?;
            ok_i(&v)
        }
        ("i.checked_add", [x, y]) => opt_i(&parse_i(x)?.checked_add(&parse_i(y)?)),
        ("i.checked_sub", [x, y]) => opt_i(&parse_i(x)?.checked_sub(&parse_i(y)?)),
        // api-coverage: the TRAIT impls `CheckedAdd for BigInt` / `CheckedSub for BigInt` (src/bigint/addition.rs,
        // subtraction.rs: `Some(self.add(v))`); the method calls above resolve to the inherent `BigInt::checked_*`
        ("i.checked_add_t", [x, y]) => opt_i(&CheckedAdd::checked_add(&parse_i(x)?, &parse_i(y)?)),
        ("i.checked_sub_t", [x, y]) => opt_i(&CheckedSub::checked_sub(&parse_i(x)?, &parse_i(y)?)),
        // api-coverage: scalar addition / subtraction forms (see `scalar_op`)
        (
            "u.add_s" | "u.s_add" | "u.add_assign_s" | "u.sub_s" | "u.s_sub" | "u.sub_assign_s" | "i.add_s" | "i.s_add"
            | "i.add_assign_s" | "i.sub_s" | "i.s_sub" | "i.sub_assign_s",
            [_, _],
        ) => return scalar_op(op, a),
        #[cfg(num_bigint_verif)]
        ("raw.add2", [x, y]) => {
            let mut a = parse_limbs(x)?;
            let b = parse_limbs(y)?;
            if a.len() < b.len() {
                return None;
            }
            let c = num_bigint::verif::add2c(&mut a, &b);
            format!("{} {}", show_limbs(&a), c)
        }
        _ => return None,
    })
}

#[allow(dead_code)]
fn _types(_: BigInt, _: BigUint) {}
