"""C08 — primitive integer and float conversion request generator.

Structure first: every primitive type x values within +-2 of every type's MIN/MAX and of the
2^64 / 2^128 digit boundaries; float inputs built as <p-bit mantissa> . <tail> where the tail is
exactly-half / half-1 / half+1 / half plus (or minus) one bit placed in any lower digit (0..40
digits down), all-ones mantissas that round up to the next power of two, magnitudes around
2^127..2^129 and 2^1023..2^1025; every f32 exponent x several mantissas, structured and random
f64 patterns incl. sub-normals, -0.0, NaN payloads, infinities.
"""
from genlib import *

TYPES = {
    "u8": (8, False), "u16": (16, False), "u32": (32, False), "u64": (64, False), "u128": (128, False),
    "usize": (64, False),
    "i8": (8, True), "i16": (16, True), "i32": (32, True), "i64": (64, True), "i128": (128, True),
    "isize": (64, True),
}

def trange(t):
    b, s = TYPES[t]
    return (-(1 << (b - 1)), (1 << (b - 1)) - 1) if s else (0, (1 << b) - 1)

def boundary_values():
    vs = set()
    for t in TYPES:
        lo, hi = trange(t)
        for c in (lo, hi):
            for d in range(-2, 3):
                vs.add(c + d)
    for k in (64, 128, 192):
        for d in range(-2, 3):
            vs.add((1 << k) + d); vs.add(-((1 << k) + d))
    for k in (1, 7, 8, 15, 16, 31, 32, 33, 63, 64, 65, 127, 128, 129):
        vs.add(1 << k); vs.add(-(1 << k))
    vs |= {0, 1, 2, 3, -1, -2, -3}
    return sorted(vs)

def int_requests(rng, tier):
    reqs = []
    vs = boundary_values()
    extra = []
    n_rand = 300 if tier == "thorough" else 30
    for _ in range(n_rand):
        n = rng.choice([1, 1, 2, 2, 3, 4, 7])
        extra.append(signed(rng, big(rng, n)))
        k = rng.choice([8, 16, 32, 64, 128])
        extra.append(signed(rng, rng.randrange(1 << k)))
    for t in TYPES:
        for v in vs + extra:
            if v >= 0:
                reqs.append("C08 u.to %s %s" % (t, wu(v)))
                if rng.randrange(2) or abs(v - trange(t)[1]) <= 2:
                    reqs.append("C08 u.try_into %s %s" % (t, wu(v)))
            reqs.append("C08 i.to %s %s" % (t, wi(v)))
            if rng.randrange(2) or min(abs(v - trange(t)[0]), abs(v - trange(t)[1])) <= 2:
                reqs.append("C08 i.try_into %s %s" % (t, wi(v)))
    # primitive -> big
    for t in TYPES:
        lo, hi = trange(t)
        cand = {lo, lo + 1, lo + 2, hi, hi - 1, hi - 2, 0, 1, 2}
        if lo < 0:
            cand |= {-1, -2}
        for v in vs:
            if lo <= v <= hi:
                cand.add(v)
        for _ in range(40 if tier == "thorough" else 6):
            cand.add(rng.randrange(lo, hi + 1))
            k = rng.randrange(1, TYPES[t][0] + 1)
            x = rng.randrange(1 << k)
            if lo <= x <= hi: cand.add(x)
            if lo <= -x <= hi: cand.add(-x)
        for v in sorted(cand):
            if not TYPES[t][1]:
                reqs.append("C08 u.from %s:%d" % (t, v))
            else:
                reqs.append("C08 u.try_from %s:%d" % (t, v))
            reqs.append("C08 u.from_prim %s:%d" % (t, v))
            reqs.append("C08 i.from %s:%d" % (t, v))
            reqs.append("C08 i.from_prim %s:%d" % (t, v))
    for b in (0, 1):
        reqs.append("C08 u.from bool:%d" % b)
        reqs.append("C08 i.from bool:%d" % b)
    # BigUint <-> BigInt
    for v in vs + extra:
        reqs.append("C08 u.try_from_i %s" % wi(v))
        reqs.append("C08 u.try_from_iref %s" % wi(v))
        reqs.append("C08 i.to_biguint %s" % wi(v))
        if v >= 0:
            reqs.append("C08 u.to_bigint %s" % wu(v))
            reqs.append("C08 i.from_u %s" % wu(v))
    return reqs

# ---------------------------------------------------------------------------------------------
# big -> float

def mantissas(rng, p, n):
    top = 1 << (p - 1)
    ms = [top, top + 1, (1 << p) - 1, (1 << p) - 2, top + (1 << (p // 2))]
    for _ in range(n):
        m = top | rng.randrange(top)
        ms.append(m); ms.append(m ^ 1)
    return ms

def tails(rng, w, deep):
    """tails of w bits (w >= 1) below the kept mantissa; half = 2^(w-1)"""
    half = 1 << (w - 1)
    out = {0, half, (1 << w) - 1}
    if w >= 2:
        out |= {half - 1, half + 1, 1, half >> 1 if half > 1 else 0}
    # deciding bit placed in a given lower digit
    for _ in range(deep):
        b = rng.randrange(w)
        out.add(half | (1 << b))            # just above half (bit b)
        if b < w - 1:
            out.add(half - (1 << b))        # just below half
            out.add(1 << b)                 # far below half
        out.add(half | (1 << (b - b % 64)) if b >= 64 else half | 1)   # lowest bit of a lower digit
    out.add(rng.randrange(1 << w))
    return sorted(out)

def to_float_values(rng, tier):
    vals = set()
    thorough = tier == "thorough"
    # small values: 0, 1 digit, exactly representable, near 2^24 / 2^53
    for k in (0, 1, 2, 3, 23, 24, 25, 26, 52, 53, 54, 55, 62, 63, 64):
        for d in (-2, -1, 0, 1, 2):
            v = (1 << k) + d
            if v >= 0: vals.add(v)
    vals |= {0, MAX, MAX - 1, (1 << 64) | 1}
    for p in (24, 53):
        # total bit length n: digit count x fill of the top digit
        lens = []
        for digs in ([1, 2, 3, 4] + ([6, 9, 17, 41] if thorough else [5, 17, 41])):
            for j in (1, 2, 11, 12, 31, 32, 33, 40, 41, 53, 63, 64):
                n = 64 * (digs - 1) + j
                if n > p:
                    lens.append(n)
        if not thorough:
            lens = [n for n in lens if rng.randrange(3) == 0 or n < 200]
        for n in lens:
            w = n - p
            if p == 24 and n > 140 and rng.randrange(4):      # f32: everything above 2^128 is +inf
                continue
            for m in mantissas(rng, p, 2 if thorough else 1):
                for t in tails(rng, w, 6 if thorough else 3):
                    vals.add((m << w) | t)
        # deciding bit 0..40 digits down, systematically: top digit of j bits, tie pattern, one bit in digit d
        for j in (1, 7, 32, 63, 64):
            for down in list(range(0, 8)) + [10, 15, 16, 23, 31, 40]:
                n = 64 * (down + 1) + j
                if n <= p + 1: continue
                w = n - p
                half = 1 << (w - 1)
                for m in ((1 << (p - 1)) | rng.randrange(1 << (p - 1)) & ~1, (1 << (p - 1)) | rng.randrange(1 << (p - 1)) | 1):
                    for bit in (0, 1, 31, 62, 63):
                        if bit < w - 1:
                            vals.add((m << w) | half | (1 << bit))
                            vals.add((m << w) | half)
                            vals.add((m << w) | (half - (1 << bit)))
        # magnitudes around the overflow threshold
        emax = 128 if p == 24 else 1024
        for k in (emax - 1, emax, emax + 1, 127, 128, 129):
            for d in (-2, -1, 0, 1, 2):
                vals.add((1 << k) + d)
            vals.add((1 << k) - (1 << (k - p)))            # all-ones mantissa
            vals.add((1 << k) - (1 << (k - p - 1)))        # ... plus half an ulp: rounds up to 2^k
            vals.add((1 << k) - (1 << (k - p - 1)) - 1)
            vals.add((1 << k) - (1 << (k - p - 1)) + 1)
            vals.add((1 << k) - 1)
        top = ((1 << p) - 1) << (emax - p)                   # largest finite
        for d in (0, 1, -1, (1 << (emax - p - 1)) - 1, 1 << (emax - p - 1), (1 << (emax - p - 1)) + 1, (1 << (emax - p)) - 1):
            vals.add(top + d)
        for k in (emax + 63, emax + 64, emax + 65, emax + 66, emax + 128):
            vals.add(1 << k); vals.add((1 << k) - 1)
    for _ in range(400 if thorough else 40):
        vals.add(big(rng, rng.choice([1, 2, 2, 3, 4, 16, 17])))
    return sorted(vals)

def to_float_requests(rng, tier):
    reqs = []
    for v in to_float_values(rng, tier):
        f32_relevant = v.bit_length() <= 200 or rng.randrange(8) == 0
        reqs.append("C08 u.to_f64 %s" % wu(v))
        if f32_relevant:
            reqs.append("C08 u.to_f32 %s" % wu(v))
        reqs.append("C08 u.high_bits %s" % wu(v))
        if rng.randrange(3) == 0:
            s = signed(rng, v)
            reqs.append("C08 i.to_f64 %s" % wi(s))
            if f32_relevant:
                reqs.append("C08 i.to_f32 %s" % wi(s))
    return reqs

# ---------------------------------------------------------------------------------------------
# float -> big

def from_float_requests(rng, tier):
    reqs = []
    thorough = tier == "thorough"
    pats32 = set()
    for e in range(256):
        ms = {0, 1, (1 << 23) - 1, 1 << 22, (1 << 22) + 1, rng.randrange(1 << 23)}
        if 127 <= e <= 127 + 23:          # fraction straddles the binary point
            k = 23 - (e - 127)
            ms |= {(1 << k) - 1 if k else 0, (1 << k) % (1 << 23), ((1 << 23) - 1) ^ ((1 << k) - 1)}
        if thorough:
            ms |= {rng.randrange(1 << 23) for _ in range(58)}
        for m in ms:
            for s in (0, 1):
                pats32.add((s << 31) | (e << 23) | m)
    for b in sorted(pats32):
        reqs.append("C08 u.from_f32 %x" % b)
        reqs.append("C08 i.from_f32 %x" % b)
    pats64 = set()
    exps = {0, 1, 2, 2045, 2046, 2047} | set(range(1015, 1100)) | {1023 + k for k in (126, 127, 128, 129, 191, 192, 193, 1000, 1022)}
    # digit-level split of `ret <<= exponent` (NB.Model.FloatD -> biguint_shl): whole-digit shifts (amount % 64 == 0,
    # no bit loop), one bit below / above them, for every digit count 0..15
    exps |= {e for j in range(16) for e in (1075 + 64 * j - 1, 1075 + 64 * j, 1075 + 64 * j + 1) if e <= 2046}
    if thorough:
        exps = set(range(2048))
    else:
        exps |= {rng.randrange(2048) for _ in range(60)}
    for e in sorted(exps):
        ms = {0, 1, (1 << 52) - 1, 1 << 51, (1 << 51) + 1, rng.randrange(1 << 52)}
        if 1023 <= e <= 1023 + 52:
            k = 52 - (e - 1023)
            ms |= {(1 << k) - 1 if k else 0, (1 << k) % (1 << 52), ((1 << 52) - 1) ^ ((1 << k) - 1),
                   rng.randrange(1 << 52) >> k << k}
        for m in ms:
            for s in (0, 1):
                pats64.add((s << 63) | (e << 52) | m)
    for _ in range(3000 if thorough else 300):
        pats64.add(rng.randrange(1 << 64))
    for b in sorted(pats64):
        reqs.append("C08 u.from_f64 %x" % b)
        reqs.append("C08 i.from_f64 %x" % b)
    return reqs

def trait_form_requests(rng, tier):
    """api-coverage block: the trait impls `ToBigUint for BigInt`, `ToBigUint for BigUint`, `ToBigInt for BigInt`
    called trait-qualified (ops `*_t`): zero, ±1, digit boundaries, multi-digit values of both signs"""
    reqs = []
    vs = [0, 1, 2, MAX - 1, MAX, B, B + 1, B * B - 1, B * B, (1 << 127) - 1, 1 << 127, 1 << 128]
    vs += [big(rng, n) for n in (1, 2, 3, 5, 9)] + ([big(rng, n) for n in (17, 40, 64)] if tier == "thorough" else [])
    for v in vs:
        for s in (v, -v):
            reqs.append("C08 i.to_biguint_t %s" % wi(s))
            reqs.append("C08 i.to_bigint_t %s" % wi(s))
        reqs.append("C08 u.to_biguint_t %s" % wu(v))
    return reqs

def gen(rng, tier):
    return (int_requests(rng, tier) + to_float_requests(rng, tier) + from_float_requests(rng, tier)
            + trait_form_requests(rng, tier))
