/- helper lemmas for C08, float side: bit length, or-with-one, round-to-nearest-even on Nat,
   the double-rounding (round-to-odd) lemma, the digit walk of `high_bits_to_u64`,
   encoding / scaling of IEEE bit patterns -/
import NB.Lemmas.Base
import NB.Lemmas.Canon
import NB.Lemmas.Convert
import NB.Model.Float
namespace NB.Conv
open NB

/-! ### or-ing a sticky bit -/

/-- `t | 1` as arithmetic -/
def orOne (t : Nat) : Nat := if t % 2 = 0 then t + 1 else t

theorem or_one_eq (t : Nat) : t ||| 1 = orOne t := by
  unfold orOne
  have h1 : (1 : Nat) < 2 ^ 1 := by decide
  have key := Nat.shiftLeft_add_eq_or_of_lt h1 (t / 2)
  have hs : (t / 2) <<< 1 = 2 * (t / 2) := by rw [Nat.shiftLeft_eq]; omega
  by_cases h : t % 2 = 0
  · rw [if_pos h]
    have e : t = (t / 2) <<< 1 := by omega
    calc t ||| 1 = (t / 2) <<< 1 ||| 1 := by rw [← e]
      _ = (t / 2) <<< 1 + 1 := key.symm
      _ = t + 1 := by rw [← e]
  · rw [if_neg h]
    have e : t = (t / 2) <<< 1 + 1 := by omega
    have e2 : t = (t / 2) <<< 1 ||| 1 := by rw [← key]; exact e
    calc t ||| 1 = ((t / 2) <<< 1 ||| 1) ||| 1 := by rw [← e2]
      _ = (t / 2) <<< 1 ||| (1 ||| 1) := Nat.or_assoc _ _ _
      _ = (t / 2) <<< 1 ||| 1 := by rw [Nat.or_self]
      _ = t := e2.symm

theorem orOne_odd (t : Nat) : orOne t % 2 = 1 := by unfold orOne; split <;> omega
theorem orOne_of_odd {t : Nat} (h : t % 2 = 1) : orOne t = t := by
  unfold orOne; rw [if_neg (by omega)]
theorem orOne_idem (t : Nat) : orOne (orOne t) = orOne t := orOne_of_odd (orOne_odd t)
theorem orOne_ge (t : Nat) : t ≤ orOne t := by unfold orOne; split <;> omega
theorem orOne_le (t : Nat) : orOne t ≤ t + 1 := by unfold orOne; split <;> omega

/-- a high part that is a multiple of `2^n` or-ed with a low part below `2^n` is their sum -/
theorem or_eq_add {a b n : Nat} (hb : b < 2 ^ n) : (a * 2 ^ n) ||| b = a * 2 ^ n + b := by
  rw [← Nat.shiftLeft_eq]; exact (Nat.shiftLeft_add_eq_or_of_lt hb a).symm

/-! ### bit length -/

theorem bitLen_zero : bitLen 0 = 0 := by simp [bitLen]

theorem bitLen_pos {n : Nat} (h : n ≠ 0) : 0 < bitLen n := by simp [bitLen, h]

theorem bitLen_bounds {n : Nat} (h : n ≠ 0) : 2 ^ (bitLen n - 1) ≤ n ∧ n < 2 ^ bitLen n := by
  simp only [bitLen, h, if_false, Nat.add_sub_cancel]
  exact ⟨Nat.log2_self_le h, Nat.lt_log2_self⟩

theorem bitLen_lt (n : Nat) : n < 2 ^ bitLen n := by
  by_cases h : n = 0
  · subst h; simp [bitLen]
  · exact (bitLen_bounds h).2

/-- the bit length is determined by the enclosing powers of two -/
theorem bitLen_unique {n k : Nat} (hk : 0 < k) (hlo : 2 ^ (k - 1) ≤ n) (hhi : n < 2 ^ k) : bitLen n = k := by
  have hn : n ≠ 0 := by
    have : 0 < 2 ^ (k - 1) := Nat.pow_pos (by decide)
    omega
  simp only [bitLen, hn, if_false]
  have h1 : Nat.log2 n < k := (Nat.log2_lt hn).mpr hhi
  have h2 : ¬ Nat.log2 n < k - 1 := fun c => by
    have := (Nat.log2_lt hn).mp c; omega
  omega

theorem bitLen_le_iff {n k : Nat} : bitLen n ≤ k ↔ n < 2 ^ k := by
  by_cases h : n = 0
  · subst h; simp [bitLen, Nat.pow_pos]
  · simp only [bitLen, h, if_false]
    rw [← Nat.log2_lt h]; omega

theorem bitLen_mul_pow {w : Nat} (hw : w ≠ 0) (s : Nat) : bitLen (w * 2 ^ s) = bitLen w + s := by
  obtain ⟨lo, hi⟩ := bitLen_bounds hw
  have hp := bitLen_pos hw
  apply bitLen_unique (by omega)
  · have : bitLen w + s - 1 = (bitLen w - 1) + s := by omega
    rw [this, Nat.pow_add]
    exact Nat.mul_le_mul_right _ lo
  · rw [Nat.pow_add]
    exact Nat.mul_lt_mul_of_pos_right hi (Nat.pow_pos (by decide))

/-! ### round to nearest, ties to even -/

/-- the round-up decision of `rneNat`: remainder above half, or exactly half with odd quotient -/
def roundsUp (q r half : Nat) : Prop := half < r ∨ (r = half ∧ q % 2 = 1)
instance (q r half : Nat) : Decidable (roundsUp q r half) := by unfold roundsUp; infer_instance

theorem rneNat_small {p v : Nat} (h : bitLen v ≤ p) : rneNat p v = v := by
  unfold rneNat; simp only [h, if_true]

theorem rneNat_big {p v : Nat} (h : p < bitLen v) :
    rneNat p v =
      (if roundsUp (v / 2 ^ (bitLen v - p)) (v % 2 ^ (bitLen v - p)) (2 ^ (bitLen v - p - 1))
        then v / 2 ^ (bitLen v - p) + 1 else v / 2 ^ (bitLen v - p)) * 2 ^ (bitLen v - p) := by
  unfold rneNat
  have : ¬ bitLen v ≤ p := by omega
  simp only [this, if_false]
  rfl

/-- **Double-rounding core.**  Keep `u` (the bits between the target precision and the truncation
    point, `u < K = 2h`) and replace the discarded non-zero tail `low` by a sticky LSB: the
    round-to-nearest-even decision is unchanged, PROVIDED the half-way point `h` of the kept bits is
    even, i.e. at least two extra bits are kept.  (False without `h % 2 = 0`: h = 1, u = 0… .) -/
theorem roundsUp_sticky {q u low P h : Nat} (hlow : low < P) (hl0 : low ≠ 0) (hh : h % 2 = 0) :
    roundsUp q (u * P + low) (h * P) ↔ roundsUp q (orOne u * P) (h * P) := by
  have hP : 0 < P := by omega
  have hodd := orOne_odd u
  have hge := orOne_ge u
  have hle := orOne_le u
  -- both sides are equivalent to `h ≤ u`
  have L : roundsUp q (u * P + low) (h * P) ↔ h ≤ u := by
    unfold roundsUp
    constructor
    · rintro (c | ⟨c, _⟩)
      · by_contra hc
        have : (u + 1) * P ≤ h * P := Nat.mul_le_mul_right P (by omega)
        have e : (u + 1) * P = u * P + P := by ring
        omega
      · -- u*P + low = h*P is impossible for 0 < low < P
        exfalso
        rcases Nat.lt_or_ge u h with c1 | c1
        · have : (u + 1) * P ≤ h * P := Nat.mul_le_mul_right P (by omega)
          have e : (u + 1) * P = u * P + P := by ring
          omega
        · have : h * P ≤ u * P := Nat.mul_le_mul_right P c1
          omega
    · intro c
      left
      have : h * P ≤ u * P := Nat.mul_le_mul_right P c
      omega
  have R : roundsUp q (orOne u * P) (h * P) ↔ h ≤ u := by
    unfold roundsUp
    constructor
    · rintro (c | ⟨c, _⟩)
      · have : h < orOne u := Nat.lt_of_mul_lt_mul_right c
        by_contra hc
        have : orOne u = h := by omega
        omega
      · have : orOne u = h := Nat.eq_of_mul_eq_mul_right hP c
        omega
    · intro c
      left
      have hne : orOne u ≠ h := by intro e; omega
      have : h < orOne u := by omega
      exact Nat.mul_lt_mul_of_pos_right this hP
  rw [L, R]

theorem roundsUp_scale {q r half P : Nat} (hP : 0 < P) :
    roundsUp q (r * P) (half * P) ↔ roundsUp q r half := by
  unfold roundsUp
  constructor
  · rintro (c | ⟨c, d⟩)
    · left; exact Nat.lt_of_mul_lt_mul_right c
    · right; exact ⟨Nat.eq_of_mul_eq_mul_right hP c, d⟩
  · rintro (c | ⟨c, d⟩)
    · left; exact Nat.mul_lt_mul_of_pos_right c hP
    · right; exact ⟨by rw [c], d⟩

theorem not_roundsUp_zero {q half : Nat} (h : 0 < half) : ¬ roundsUp q 0 half := by
  unfold roundsUp; omega

/-- rounding commutes with scaling by a power of two -/
theorem rneNat_scale {p m : Nat} (hm : m ≠ 0) (s : Nat) : rneNat p (m * 2 ^ s) = rneNat p m * 2 ^ s := by
  have hbl := bitLen_mul_pow hm s
  by_cases hsm : bitLen m ≤ p
  · rw [rneNat_small hsm]
    by_cases h2 : bitLen m + s ≤ p
    · exact rneNat_small (by omega)
    · rw [rneNat_big (by omega), hbl]
      -- the shift `S' = n + s - p` is at most `s`: nothing is cut off
      have hS : bitLen m + s - p ≤ s := by omega
      have e : (2 : Nat) ^ s = 2 ^ (s - (bitLen m + s - p)) * 2 ^ (bitLen m + s - p) := by
        rw [← Nat.pow_add]; congr 1; omega
      have hpos : 0 < (2 : Nat) ^ (bitLen m + s - p) := Nat.pow_pos (by decide)
      have eq : m * 2 ^ s / 2 ^ (bitLen m + s - p) = m * 2 ^ (s - (bitLen m + s - p)) := by
        conv_lhs => rw [e, ← Nat.mul_assoc]
        exact Nat.mul_div_cancel _ hpos
      have er : m * 2 ^ s % 2 ^ (bitLen m + s - p) = 0 := by
        conv_lhs => rw [e, ← Nat.mul_assoc]
        exact Nat.mul_mod_left _ _
      rw [eq, er, if_neg (not_roundsUp_zero (Nat.pow_pos (by decide)))]
      conv_rhs => rw [e, ← Nat.mul_assoc]
  · have hlt : p < bitLen m := by omega
    rw [rneNat_big hlt, rneNat_big (by omega), hbl]
    have hpos : 0 < (2 : Nat) ^ s := Nat.pow_pos (by decide)
    have eS : (2 : Nat) ^ (bitLen m + s - p) = 2 ^ (bitLen m - p) * 2 ^ s := by
      rw [← Nat.pow_add]; congr 1; omega
    have eH : (2 : Nat) ^ (bitLen m + s - p - 1) = 2 ^ (bitLen m - p - 1) * 2 ^ s := by
      rw [← Nat.pow_add]; congr 1; omega
    rw [eS, eH, Nat.mul_div_mul_right _ _ hpos, Nat.mul_mod_mul_right]
    by_cases c : roundsUp (m / 2 ^ (bitLen m - p)) (m % 2 ^ (bitLen m - p)) (2 ^ (bitLen m - p - 1))
    · rw [if_pos c, if_pos ((roundsUp_scale hpos).mpr c), Nat.mul_assoc]
    · rw [if_neg c, if_neg (fun k => c ((roundsUp_scale hpos).mp k)), Nat.mul_assoc]

/-- `orOne` only touches the residue modulo an even number -/
theorem orOne_div_mod {t K : Nat} (hK : K % 2 = 0) (hK0 : 0 < K) :
    orOne t / K = t / K ∧ orOne t % K = orOne (t % K) := by
  obtain ⟨h, rfl⟩ : ∃ h, K = 2 * h := ⟨K / 2, by omega⟩
  have hdm := Nat.div_add_mod t (2 * h)
  have hu := Nat.mod_lt t hK0
  generalize t / (2 * h) = q at *
  generalize t % (2 * h) = u at *
  have e1 : 2 * h * q = 2 * (h * q) := by ring
  have hpar : t % 2 = u % 2 := by omega
  have hlt : orOne u < 2 * h := by
    have := orOne_odd u; have := orOne_le u; omega
  have ht : orOne t = 2 * h * q + orOne u := by
    unfold orOne
    by_cases c : t % 2 = 0
    · rw [if_pos c, if_pos (by omega)]; omega
    · rw [if_neg c, if_neg (by omega)]; omega
  rw [ht]
  constructor
  · rw [Nat.mul_add_div hK0, Nat.div_eq_of_lt hlt]; omega
  · rw [Nat.mul_add_mod, Nat.mod_eq_of_lt hlt]

/-- the round-to-odd summary of `v` at `s` dropped bits: `⌊v / 2^s⌋`, with the LSB forced to 1 when
    any dropped bit is set -/
def stickyShift (v s : Nat) : Nat := if v % 2 ^ s = 0 then v / 2 ^ s else orOne (v / 2 ^ s)

theorem div_pow_bitLen {v k s : Nat} (hk : 0 < k) (hn : bitLen v = k + s) :
    2 ^ (k - 1) ≤ v / 2 ^ s ∧ v / 2 ^ s < 2 ^ k := by
  have hv : v ≠ 0 := by intro e; subst e; simp [bitLen] at hn; omega
  obtain ⟨lo, hi⟩ := bitLen_bounds hv
  rw [hn] at lo hi
  have hpos : 0 < (2 : Nat) ^ s := Nat.pow_pos (by decide)
  constructor
  · rw [Nat.le_div_iff_mul_le hpos, ← Nat.pow_add]
    have : k - 1 + s = k + s - 1 := by omega
    rw [this]; exact lo
  · rw [Nat.div_lt_iff_lt_mul hpos, ← Nat.pow_add]; exact hi

theorem stickyShift_bounds {v k s : Nat} (hk : 0 < k) (hn : bitLen v = k + s) :
    2 ^ (k - 1) ≤ stickyShift v s ∧ stickyShift v s < 2 ^ k := by
  obtain ⟨lo, hi⟩ := div_pow_bitLen hk hn
  unfold stickyShift
  split
  · exact ⟨lo, hi⟩
  · have h1 := orOne_ge (v / 2 ^ s)
    have h2 := orOne_le (v / 2 ^ s)
    have h3 := orOne_odd (v / 2 ^ s)
    have h4 : (2 : Nat) ^ k % 2 = 0 := by
      obtain ⟨j, rfl⟩ : ∃ j, k = j + 1 := ⟨k - 1, by omega⟩
      rw [Nat.pow_succ]; omega
    omega

theorem stickyShift_bitLen {v k s : Nat} (hk : 0 < k) (hn : bitLen v = k + s) :
    bitLen (stickyShift v s) = k := by
  obtain ⟨lo, hi⟩ := stickyShift_bounds hk hn
  exact bitLen_unique hk lo hi

/-- **round_to_odd_rne** (double-rounding lemma).  Let `v` have `k + s` bits and let
    `m = ⌊v / 2^s⌋ | [v mod 2^s ≠ 0]` be its `k`-bit round-to-odd summary.  If at least two more bits
    than the target precision are kept (`p + 2 ≤ k`), rounding `m·2^s` to `p` bits (nearest, ties to
    even) gives exactly the correctly rounded `v`. -/
theorem round_to_odd_rne {p v k s : Nat} (hp : p + 2 ≤ k) (hn : bitLen v = k + s) :
    rneNat p (stickyShift v s * 2 ^ s) = rneNat p v := by
  have hk : 0 < k := by omega
  have hP : 0 < (2 : Nat) ^ s := Nat.pow_pos (by decide)
  by_cases hlow : v % 2 ^ s = 0
  · -- nothing was dropped
    have : stickyShift v s * 2 ^ s = v := by
      unfold stickyShift; rw [if_pos hlow]
      have := Nat.div_add_mod v (2 ^ s); rw [hlow] at this
      rw [Nat.mul_comm]; omega
    rw [this]
  · have hm0 : stickyShift v s ≠ 0 := by
      have := (stickyShift_bounds hk hn).1
      have : 0 < (2 : Nat) ^ (k - 1) := Nat.pow_pos (by decide)
      omega
    have hbl : bitLen (stickyShift v s * 2 ^ s) = k + s := by
      rw [bitLen_mul_pow hm0, stickyShift_bitLen hk hn]
    rw [rneNat_big (by omega), rneNat_big (by omega), hbl, hn]
    -- 2^S = K * P, half = h * P, K = 2 * h, h even
    have eS : (2 : Nat) ^ (k + s - p) = 2 ^ (k - p) * 2 ^ s := by
      rw [← Nat.pow_add]; congr 1; omega
    have eH : (2 : Nat) ^ (k + s - p - 1) = 2 ^ (k - p - 1) * 2 ^ s := by
      rw [← Nat.pow_add]; congr 1; omega
    have eK : (2 : Nat) ^ (k - p) = 2 * 2 ^ (k - p - 1) := by
      rw [← Nat.pow_succ']; congr 1; omega
    have hheven : (2 : Nat) ^ (k - p - 1) % 2 = 0 := by
      obtain ⟨j, hj⟩ : ∃ j, k - p - 1 = j + 1 := ⟨k - p - 2, by omega⟩
      rw [hj, Nat.pow_succ]; omega
    have hK0 : 0 < (2 : Nat) ^ (k - p) := Nat.pow_pos (by decide)
    have hKeven : (2 : Nat) ^ (k - p) % 2 = 0 := by omega
    rw [eS, eH]
    have hst : stickyShift v s = orOne (v / 2 ^ s) := by unfold stickyShift; rw [if_neg hlow]
    obtain ⟨od, om⟩ := orOne_div_mod (t := v / 2 ^ s) hKeven hK0
    -- quotient / remainder of the summary
    have q1 : stickyShift v s * 2 ^ s / (2 ^ (k - p) * 2 ^ s) = v / 2 ^ s / 2 ^ (k - p) := by
      rw [Nat.mul_div_mul_right _ _ hP, hst, od]
    have r1 : stickyShift v s * 2 ^ s % (2 ^ (k - p) * 2 ^ s) = orOne (v / 2 ^ s % 2 ^ (k - p)) * 2 ^ s := by
      rw [Nat.mul_mod_mul_right, hst, om]
    -- quotient / remainder of the full value
    have q2 : v / (2 ^ (k - p) * 2 ^ s) = v / 2 ^ s / 2 ^ (k - p) := by
      rw [Nat.div_div_eq_div_mul, Nat.mul_comm]
    have r2 : v % (2 ^ (k - p) * 2 ^ s) = (v / 2 ^ s % 2 ^ (k - p)) * 2 ^ s + v % 2 ^ s := by
      rw [Nat.mul_comm (2 ^ (k - p)) (2 ^ s), Nat.mod_mul]; ring
    rw [q1, r1, q2, r2]
    have core := roundsUp_sticky (q := v / 2 ^ s / 2 ^ (k - p)) (u := v / 2 ^ s % 2 ^ (k - p))
      (low := v % 2 ^ s) (P := 2 ^ s) (h := 2 ^ (k - p - 1)) (Nat.mod_lt _ hP) hlow hheven
    by_cases c : roundsUp (v / 2 ^ s / 2 ^ (k - p)) (v / 2 ^ s % 2 ^ (k - p) * 2 ^ s + v % 2 ^ s)
        (2 ^ (k - p - 1) * 2 ^ s)
    · rw [if_pos c, if_pos (core.mp c)]
    · rw [if_neg c, if_neg (fun h => c (core.mpr h))]

/-! ### the digit walk of `high_bits_to_u64` -/

theorem hbStep_top {top k j : Nat} (hk : 1 ≤ k) (hk64 : k ≤ 64) :
    hbStep top (64 * j + k) 0 0 = .ok (64 * j, top, k) := by
  unfold hbStep
  have hne : ¬ (64 * j + k = 0) := by omega
  have e : (64 * j + k - 1) % digitBits + 1 = k := by unfold digitBits; omega
  have hm : min 64 k = k := by omega
  have hk0 : ¬ k = 0 := by omega
  rw [if_neg hne]
  simp only [e, Nat.sub_zero, hm, Nat.sub_self, ne_eq, not_true_eq_false, if_false,
    hk0, not_false_eq_true, if_true, Nat.zero_shiftLeft, Nat.zero_mod, ite_self, Nat.shiftRight_zero,
    Nat.zero_or, Nat.zero_add]
  congr 2
  omega

theorem hbStep_low {d ret j : Nat} (hd : d < 2 ^ 64) :
    hbStep d (64 * (j + 1)) ret 64 = .ok (64 * j, if d = 0 then ret else ret ||| 1, 64) := by
  unfold hbStep
  have hne : ¬ (64 * (j + 1) = 0) := by omega
  have e : (64 * (j + 1) - 1) % digitBits + 1 = 64 := by unfold digitBits; omega
  rw [if_neg hne]
  simp only [e, Nat.sub_self, Nat.zero_min, ne_eq, not_true_eq_false, if_false, Nat.sub_zero,
    Nat.shiftLeft_zero, Nat.mod_eq_of_lt hd]
  have e2 : 64 * (j + 1) - 64 = 64 * j := by omega
  have h64 : ¬ (64 = 0) := by decide
  rw [e2, if_pos h64]
  by_cases hd0 : d = 0
  · rw [if_pos hd0, if_neg (not_not.mpr hd0), Nat.or_zero]
  · rw [if_neg hd0, if_pos hd0]

/-- second digit: `k` bits of the top digit are in `ret`; take the `64 - k` high bits of `d`, the
    `k` low bits go into the sticky bit -/
theorem hbStep_second {top d k j : Nat} (hk : 1 ≤ k) (hk64 : k ≤ 64) (htop : top < 2 ^ k) (hd : d < 2 ^ 64) :
    hbStep d (64 * (j + 1)) top k = .ok (64 * j, stickyShift (top * 2 ^ 64 + d) k, 64) := by
  unfold hbStep
  have hne : ¬ (64 * (j + 1) = 0) := by omega
  have e : (64 * (j + 1) - 1) % digitBits + 1 = 64 := by unfold digitBits; omega
  have e2 : 64 * (j + 1) - 64 = 64 * j := by omega
  have hm : min (64 - k) 64 = 64 - k := by omega
  have e3 : 64 - (64 - k) = k := by omega
  have e4 : k + (64 - k) = 64 := by omega
  have hk0 : ¬ (k = 0) := by omega
  rw [if_neg hne]
  simp only [e, hm, e2, e3, e4, ne_eq, hk0, not_false_eq_true, if_true]
  have hpk : 0 < (2 : Nat) ^ k := Nat.pow_pos (by decide)
  have e64 : (2 : Nat) ^ 64 = 2 ^ k * 2 ^ (64 - k) := by rw [← Nat.pow_add]; congr 1; omega
  -- arithmetic facts about H = top * 2^64 + d
  have hdiv : (top * 2 ^ 64 + d) / 2 ^ k = top * 2 ^ (64 - k) + d / 2 ^ k := by
    rw [e64, ← Nat.mul_assoc, Nat.mul_comm top, Nat.mul_assoc, Nat.mul_add_div hpk]
  have hmod : (top * 2 ^ 64 + d) % 2 ^ k = d % 2 ^ k := by
    rw [e64, ← Nat.mul_assoc, Nat.mul_comm top, Nat.mul_assoc, Nat.mul_add_mod]
  have hmask : (d <<< (64 - k)) % 2 ^ 64 = (d % 2 ^ k) * 2 ^ (64 - k) := by
    rw [Nat.shiftLeft_eq, e64, Nat.mul_mod_mul_right]
  have hmask0 : (d <<< (64 - k)) % 2 ^ 64 = 0 ↔ d % 2 ^ k = 0 := by
    rw [hmask]
    have : 0 < (2 : Nat) ^ (64 - k) := Nat.pow_pos (by decide)
    constructor
    · intro h; rcases Nat.mul_eq_zero.mp h with h | h <;> omega
    · intro h; rw [h, Nat.zero_mul]
  unfold stickyShift
  rw [hmod, hdiv]
  by_cases hk' : k = 64
  · subst hk'
    simp only [Nat.sub_self, not_true_eq_false, if_false, Nat.pow_zero, Nat.mul_one] at *
    have hd64 : d / 2 ^ 64 = 0 := Nat.div_eq_of_lt hd
    rw [hd64, Nat.add_zero]
    by_cases c : d % 2 ^ 64 = 0
    · rw [if_pos c, if_neg (not_not.mpr (hmask0.mpr c)), Nat.or_zero]
    · rw [if_neg c, if_pos (fun h => c (hmask0.mp h)), or_one_eq]
  · have hw0 : ¬ (64 - k = 0) := by omega
    have hw64 : ¬ (64 - k = 64) := by omega
    simp only [hw0, hw64, not_false_eq_true, if_true]
    have hsh : (top <<< (64 - k)) % 2 ^ 64 = top * 2 ^ (64 - k) := by
      rw [Nat.shiftLeft_eq]; apply Nat.mod_eq_of_lt
      rw [e64]; exact Nat.mul_lt_mul_of_pos_right htop (Nat.pow_pos (by decide))
    have hdk : d / 2 ^ k < 2 ^ (64 - k) := by
      rw [Nat.div_lt_iff_lt_mul hpk, Nat.mul_comm, ← e64]; exact hd
    rw [hsh, Nat.shiftRight_eq_div_pow, or_eq_add hdk]
    by_cases c : d % 2 ^ k = 0
    · rw [if_pos c, if_neg (not_not.mpr (hmask0.mpr c)), Nat.or_zero]
    · rw [if_neg c, if_pos (fun h => c (hmask0.mp h)), or_one_eq]

theorem val_eq_zero_iff (l : List Nat) : val l = 0 ↔ ∀ d ∈ l, d = 0 := by
  induction l with
  | nil => simp [val]
  | cons a as ih =>
    simp only [val, List.mem_cons, forall_eq_or_imp]
    constructor
    · intro h
      have h1 : a = 0 := by omega
      have h2 : B * val as = 0 := by omega
      rcases Nat.mul_eq_zero.mp h2 with c | c
      · exact absurd c (by decide)
      · exact ⟨h1, ih.mp c⟩
    · rintro ⟨h1, h2⟩
      rw [h1, ih.mpr h2]; simp

/-- digits three and below only feed the sticky bit -/
theorem hbLoop_tail (ds : List Nat) (hd : DigitsOk ds) (ret : Nat) :
    hbLoop ds (64 * ds.length) ret 64 = .ok (if val ds = 0 then ret else orOne ret) := by
  induction ds generalizing ret with
  | nil => simp [hbLoop, val]
  | cons d ds ih =>
    have hd64 : d < 2 ^ 64 := digit_lt hd
    unfold hbLoop
    rw [List.length_cons, hbStep_low hd64]
    show hbLoop ds (64 * ds.length) (if d = 0 then ret else ret ||| 1) 64 = _
    rw [ih hd.tail]
    have hv : val (d :: ds) = 0 ↔ d = 0 ∧ val ds = 0 := by
      simp only [val]
      constructor
      · intro h
        have h1 : d = 0 := by omega
        have h2 : B * val ds = 0 := by omega
        rcases Nat.mul_eq_zero.mp h2 with c | c
        · exact absurd c (by decide)
        · exact ⟨h1, c⟩
      · rintro ⟨h1, h2⟩; rw [h1, h2]; simp
    by_cases c1 : d = 0
    · rw [if_pos c1]
      by_cases c2 : val ds = 0
      · rw [if_pos c2, if_pos (hv.mpr ⟨c1, c2⟩)]
      · rw [if_neg c2, if_neg (fun h => c2 (hv.mp h).2)]
    · rw [if_neg c1, or_one_eq, if_neg (fun h => c1 (hv.mp h).1)]
      by_cases c2 : val ds = 0
      · rw [if_pos c2]
      · rw [if_neg c2, orOne_idem]

theorem B_pow (n : Nat) : B ^ n = 2 ^ (64 * n) := by rw [B_eq_pow, ← Nat.pow_mul]

theorem val_snoc_bitLen {init : List Nat} {last : Nat} (hi : DigitsOk init) (hl0 : last ≠ 0) :
    bitLen (val (init ++ [last])) = 64 * init.length + bitLen last := by
  have hv : val (init ++ [last]) = val init + B ^ init.length * last := by
    rw [val_append]; simp [val]
  have hlt := val_lt hi
  obtain ⟨lo, hi'⟩ := bitLen_bounds hl0
  have hp := bitLen_pos hl0
  rw [hv, B_pow] at *
  apply bitLen_unique (by omega)
  · have e : 64 * init.length + bitLen last - 1 = 64 * init.length + (bitLen last - 1) := by omega
    rw [e, Nat.pow_add]
    have := Nat.mul_le_mul_left (2 ^ (64 * init.length)) lo
    omega
  · rw [Nat.pow_add]
    have : 2 ^ (64 * init.length) * (last + 1) ≤ 2 ^ (64 * init.length) * 2 ^ bitLen last :=
      Nat.mul_le_mul_left _ hi'
    have e : 2 ^ (64 * init.length) * (last + 1) = 2 ^ (64 * init.length) * last + 2 ^ (64 * init.length) := by ring
    omega

theorem bitLen_digit {d : Nat} (h : d < 2 ^ 64) : bitLen d ≤ 64 := bitLen_le_iff.mpr h

/-- `BigUint::bits()` is the bit length of the value -/
theorem bitsOf_canon {x : List Nat} (h : Canon x) : bitsOf x = bitLen (val x) := by
  rcases List.eq_nil_or_concat x with rfl | ⟨init, last, rfl⟩
  · simp [bitsOf, val, bitLen]
  · rw [List.concat_eq_append] at h ⊢
    have hl0 : last ≠ 0 := by
      intro e; apply h.2; simp [e]
    have hl : last < 2 ^ 64 := by
      have := h.1 last (by simp); rwa [B_eq_pow] at this
    have := bitLen_digit hl
    have hp := bitLen_pos hl0
    rw [val_snoc_bitLen h.1.left hl0]
    unfold bitsOf
    simp only [List.getLast?_append, List.getLast?_singleton, Option.some_or, List.length_append,
      List.length_singleton, digitBits]
    omega

theorem highBits_of_len {x : List Nat} (hl : 2 ≤ x.length) :
    highBitsToU64 x = hbLoop x.reverse (bitsOf x) 0 0 := by
  match x, hl with
  | _ :: _ :: _, _ => rfl

theorem highBits_small {x : List Nat} (hl : x.length ≤ 1) : highBitsToU64 x = .ok (val x) := by
  match x, hl with
  | [], _ => rfl
  | [d], _ => simp [highBitsToU64, val]

/-- **high_bits_spec**: for at least two digits, `high_bits_to_u64` returns the top 64 bits of the
    value with all lower bits or-ed into the LSB (round-to-odd) -/
theorem highBits_spec {x : List Nat} (h : Canon x) (hl : 2 ≤ x.length) :
    highBitsToU64 x = .ok (stickyShift (val x) (bitLen (val x) - 64)) := by
  rw [highBits_of_len hl, bitsOf_canon h]
  rcases List.eq_nil_or_concat x with rfl | ⟨init, top, rfl⟩
  · simp at hl
  rw [List.concat_eq_append] at h hl ⊢
  rcases List.eq_nil_or_concat init with rfl | ⟨lows, d2, rfl⟩
  · simp at hl
  rw [List.concat_eq_append] at h hl ⊢
  have htop0 : top ≠ 0 := by intro e; apply h.2; simp [e]
  have htop : top < 2 ^ 64 := by have := h.1 top (by simp); rwa [B_eq_pow] at this
  have hd2 : d2 < 2 ^ 64 := by have := h.1 d2 (by simp); rwa [B_eq_pow] at this
  have hlows : DigitsOk lows := h.1.left.left
  have hk64 := bitLen_digit htop
  have hk1 := bitLen_pos htop0
  have htopk := bitLen_lt top
  have hbl : bitLen (val (lows ++ [d2] ++ [top])) = 64 * (lows.length + 1) + bitLen top := by
    rw [val_snoc_bitLen h.1.left htop0]; simp
  rw [hbl]
  have hrev : (lows ++ [d2] ++ [top]).reverse = top :: d2 :: lows.reverse := by simp
  rw [hrev]
  unfold hbLoop
  rw [hbStep_top hk1 hk64]
  show hbLoop (d2 :: lows.reverse) (64 * (lows.length + 1)) top (bitLen top) = _
  unfold hbLoop
  rw [hbStep_second hk1 hk64 htopk hd2]
  show hbLoop lows.reverse (64 * lows.length) (stickyShift (top * 2 ^ 64 + d2) (bitLen top)) 64 = _
  have hlen : lows.length = lows.reverse.length := by simp
  have hrd : DigitsOk lows.reverse := fun d hd => hlows d (List.mem_reverse.mp hd)
  rw [hlen, hbLoop_tail _ hrd, ← hlen]
  have hz : val lows.reverse = 0 ↔ val lows = 0 := by
    rw [val_eq_zero_iff, val_eq_zero_iff]; simp
  -- the value and its decomposition
  generalize hk : bitLen top = k at *
  have hs : 64 * (lows.length + 1) + k - 64 = 64 * lows.length + k := by omega
  rw [hs]
  have hv : val (lows ++ [d2] ++ [top]) = val lows + 2 ^ (64 * lows.length) * (top * 2 ^ 64 + d2) := by
    rw [List.append_assoc, val_append, B_pow]; simp [val, B_eq_pow]; ring
  have hlt : val lows < 2 ^ (64 * lows.length) := by have := val_lt hlows; rwa [B_pow] at this
  rw [hv]
  have e2s : (2 : Nat) ^ (64 * lows.length + k) = 2 ^ (64 * lows.length) * 2 ^ k := Nat.pow_add _ _ _
  have hPn : 0 < (2 : Nat) ^ (64 * lows.length) := Nat.pow_pos (by decide)
  unfold stickyShift
  rw [e2s]
  generalize val lows = lo at *
  generalize top * 2 ^ 64 + d2 = H at *
  generalize (2 : Nat) ^ (64 * lows.length) = Pn at *
  have hq : (lo + Pn * H) / Pn = H := by
    rw [Nat.add_mul_div_left _ _ hPn, Nat.div_eq_of_lt hlt, Nat.zero_add]
  have hdiv : (lo + Pn * H) / (Pn * 2 ^ k) = H / 2 ^ k := by
    rw [← Nat.div_div_eq_div_mul, hq]
  have hmod : (lo + Pn * H) % (Pn * 2 ^ k) = lo + Pn * (H % 2 ^ k) := by
    rw [Nat.mod_mul, hq, Nat.add_mul_mod_self_left, Nat.mod_eq_of_lt hlt]
  have hmod0 : (lo + Pn * (H % 2 ^ k) = 0) ↔ (lo = 0 ∧ H % 2 ^ k = 0) := by
    constructor
    · intro c
      have h1 : lo = 0 := by omega
      have h2 : Pn * (H % 2 ^ k) = 0 := by omega
      rcases Nat.mul_eq_zero.mp h2 with c2 | c2
      · omega
      · exact ⟨h1, c2⟩
    · rintro ⟨h1, h2⟩; rw [h1, h2]; simp
  rw [hdiv, hmod]
  by_cases c1 : H % 2 ^ k = 0
  · rw [if_pos c1]
    by_cases c2 : lo = 0
    · rw [if_pos (hz.mpr c2), if_pos (hmod0.mpr ⟨c2, c1⟩)]
    · rw [if_neg (fun c => c2 (hz.mp c)), if_neg (fun c => c2 (hmod0.mp c).1)]
  · rw [if_neg c1, if_neg (fun c => c1 (hmod0.mp c).2)]
    by_cases c2 : lo = 0
    · rw [if_pos (hz.mpr c2)]
    · rw [if_neg (fun c => c2 (hz.mp c)), orOne_idem]

/-! ### IEEE encoding and scaling -/

/-- the formats the theorems cover: at least two guard bits inside the 64-bit summary, and an
    exponent range that holds every rounded 64-bit integer (`f32`, `f64` qualify) -/
def FFmt.Valid (f : FFmt) : Prop := 2 ≤ f.p ∧ f.p + 2 ≤ 64 ∧ 8 ≤ f.ebits
instance (f : FFmt) : Decidable f.Valid := by unfold FFmt.Valid; infer_instance

theorem rneNat_zero (p : Nat) : rneNat p 0 = 0 := rneNat_small (by simp [bitLen])

theorem rneNat_bounds {p v : Nat} (hp : 1 ≤ p) (hv : v ≠ 0) :
    2 ^ (bitLen v - 1) ≤ rneNat p v ∧ rneNat p v ≤ 2 ^ bitLen v := by
  by_cases hs : bitLen v ≤ p
  · rw [rneNat_small hs]
    exact ⟨(bitLen_bounds hv).1, Nat.le_of_lt (bitLen_bounds hv).2⟩
  · have hn : bitLen v = p + (bitLen v - p) := by omega
    obtain ⟨lo, hi⟩ := div_pow_bitLen hp hn
    rw [rneNat_big (by omega)]
    generalize v / 2 ^ (bitLen v - p) = q at *
    have e1 : (2 : Nat) ^ (bitLen v - 1) = 2 ^ (p - 1) * 2 ^ (bitLen v - p) := by
      rw [← Nat.pow_add]; exact congrArg _ (by omega)
    have e2 : (2 : Nat) ^ bitLen v = 2 ^ p * 2 ^ (bitLen v - p) := by
      rw [← Nat.pow_add]; exact congrArg _ (by omega)
    rw [e1, e2]
    constructor
    · split
      · exact Nat.mul_le_mul_right _ (by omega)
      · exact Nat.mul_le_mul_right _ lo
    · split
      · exact Nat.mul_le_mul_right _ (by omega)
      · exact Nat.mul_le_mul_right _ (by omega)

theorem rneNat_ne_zero {p v : Nat} (hp : 1 ≤ p) (hv : v ≠ 0) : rneNat p v ≠ 0 := by
  have := (rneNat_bounds hp hv).1
  have : 0 < (2 : Nat) ^ (bitLen v - 1) := Nat.pow_pos (by decide)
  omega

theorem rneNat_bitLen {p v : Nat} (hp : 1 ≤ p) (hv : v ≠ 0) :
    bitLen v ≤ bitLen (rneNat p v) ∧ bitLen (rneNat p v) ≤ bitLen v + 1 := by
  obtain ⟨lo, hi⟩ := rneNat_bounds hp hv
  constructor
  · by_contra c
    have : bitLen (rneNat p v) ≤ bitLen v - 1 := by omega
    have := bitLen_le_iff.mp this
    omega
  · apply bitLen_le_iff.mpr
    have : (2 : Nat) ^ (bitLen v + 1) = 2 * 2 ^ bitLen v := by rw [Nat.pow_succ]; omega
    have : 0 < (2 : Nat) ^ bitLen v := Nat.pow_pos (by decide)
    omega

/-- the significand of `w` scaled to `p` bits lies in `[2^(p-1), 2^p)` -/
theorem sig_bounds {w p : Nat} (hp : 1 ≤ p) (hw : w ≠ 0) :
    2 ^ (p - 1) ≤ w * 2 ^ p / 2 ^ bitLen w ∧ w * 2 ^ p / 2 ^ bitLen w < 2 ^ p := by
  obtain ⟨lo, hi⟩ := bitLen_bounds hw
  have hn := bitLen_pos hw
  have hpos : 0 < (2 : Nat) ^ bitLen w := Nat.pow_pos (by decide)
  constructor
  · rw [Nat.le_div_iff_mul_le hpos]
    have e : (2 : Nat) ^ (p - 1) * 2 ^ bitLen w = 2 ^ (bitLen w - 1) * 2 ^ p := by
      rw [← Nat.pow_add, ← Nat.pow_add]; exact congrArg _ (by omega)
    rw [e]; exact Nat.mul_le_mul_right _ lo
  · rw [Nat.div_lt_iff_lt_mul hpos, Nat.mul_comm (2 ^ p)]
    exact Nat.mul_lt_mul_of_pos_right hi (Nat.pow_pos (by decide))

theorem fmt_consts (f : FFmt) (he : 1 ≤ f.ebits) (hp : 1 ≤ f.p) :
    f.bias = f.maxExp - 1 ∧ f.expAll = 2 * f.maxExp - 1 ∧ 0 < f.maxExp ∧ 2 ^ f.p = 2 * 2 ^ f.fbits ∧
    f.signBit = 2 * f.maxExp * 2 ^ f.fbits := by
  unfold FFmt.bias FFmt.expAll FFmt.maxExp FFmt.fbits FFmt.signBit
  have e1 : (2 : Nat) ^ f.ebits = 2 * 2 ^ (f.ebits - 1) := by
    rw [← Nat.pow_succ']; exact congrArg _ (by omega)
  have e2 : (2 : Nat) ^ f.p = 2 * 2 ^ (f.p - 1) := by
    rw [← Nat.pow_succ']; exact congrArg _ (by omega)
  refine ⟨rfl, by rw [e1], Nat.pow_pos (by decide), e2, ?_⟩
  rw [Nat.pow_add, e1]; rfl

/-- value of `encode` on a non-zero argument inside the exponent range, split into fields -/
theorem encode_fields {f : FFmt} (hp : 1 ≤ f.p) {w : Nat} (hw : w ≠ 0) (hn : bitLen w ≤ f.maxExp) :
    encode f w = (bitLen w - 1 + f.bias) * 2 ^ f.fbits + (w * 2 ^ f.p / 2 ^ bitLen w - 2 ^ f.fbits) ∧
    w * 2 ^ f.p / 2 ^ bitLen w - 2 ^ f.fbits < 2 ^ f.fbits := by
  constructor
  · unfold encode; rw [if_neg hw]; dsimp only; rw [if_neg (by omega)]
  · obtain ⟨lo, hi⟩ := sig_bounds hp hw
    have e2 : (2 : Nat) ^ f.p = 2 * 2 ^ (f.p - 1) := by
      rw [← Nat.pow_succ']; exact congrArg _ (by omega)
    unfold FFmt.fbits
    omega

theorem encode_inf {f : FFmt} {w : Nat} (hn : f.maxExp < bitLen w) : encode f w = f.infBits := by
  have hw : w ≠ 0 := by intro e; subst e; simp [bitLen] at hn
  unfold encode; rw [if_neg hw]; dsimp only; rw [if_pos hn]

/-- **scaling**: the modelled `(w as float) * 2.0.powi(e)` is the encoding of `w·2^e`
    (exact, or `+∞` as soon as `w·2^e ≥ 2^MAX_EXP`) -/
theorem fmul_encode {f : FFmt} (hp : 1 ≤ f.p) (he : 2 ≤ f.ebits) {w e : Nat} (hw : w ≠ 0)
    (hn : bitLen w ≤ f.maxExp) (hle : e ≤ f.maxExp) :
    fmulPow2 f (encode f w) (powi2 f e) = encode f (w * 2 ^ e) := by
  obtain ⟨hbias, hall, hM, _, _⟩ := fmt_consts f (by omega) hp
  have hM2 : 2 ≤ f.maxExp := by
    unfold FFmt.maxExp
    have : (2 : Nat) ^ 1 ≤ 2 ^ (f.ebits - 1) := Nat.pow_le_pow_right (by decide) (by omega)
    omega
  obtain ⟨henc, hfr⟩ := encode_fields hp hw hn
  have hF : 0 < (2 : Nat) ^ f.fbits := Nat.pow_pos (by decide)
  have hnpos := bitLen_pos hw
  have hbl := bitLen_mul_pow hw e
  have hw2 : w * 2 ^ e ≠ 0 := Nat.mul_ne_zero hw (by have : 0 < (2 : Nat) ^ e := Nat.pow_pos (by decide); omega)
  -- fields of a
  have hea : encode f w / 2 ^ f.fbits = bitLen w - 1 + f.bias := by
    rw [henc, Nat.mul_comm, Nat.mul_add_div hF, Nat.div_eq_of_lt hfr, Nat.add_zero]
  have hma : encode f w % 2 ^ f.fbits = w * 2 ^ f.p / 2 ^ bitLen w - 2 ^ f.fbits := by
    rw [henc, Nat.mul_comm, Nat.mul_add_mod, Nat.mod_eq_of_lt hfr]
  have ha0 : encode f w ≠ 0 := by
    intro c; rw [c] at hea; simp at hea; omega
  unfold fmulPow2
  dsimp only
  rw [hea, hma]
  by_cases hemax : e ≥ f.maxExp
  · -- 2^e is already +∞
    have hb : powi2 f e = f.infBits := by unfold powi2; rw [if_pos hemax]
    have heb : f.infBits / 2 ^ f.fbits = f.expAll := by
      unfold FFmt.infBits; exact Nat.mul_div_cancel _ hF
    rw [hb, heb, if_pos rfl, if_neg ha0, encode_inf (by omega)]
  · have hb : powi2 f e = (e + f.bias) * 2 ^ f.fbits := by unfold powi2; rw [if_neg hemax]
    have heb : (e + f.bias) * 2 ^ f.fbits / 2 ^ f.fbits = e + f.bias := Nat.mul_div_cancel _ hF
    rw [hb, heb, if_neg (by omega), if_neg ha0]
    by_cases hov : bitLen w - 1 + f.bias + (e + f.bias) - f.bias ≥ f.expAll
    · rw [if_pos hov, encode_inf (by omega)]
    · rw [if_neg hov]
      obtain ⟨henc2, _⟩ := encode_fields hp hw2 (by omega)
      rw [henc2, hbl]
      have hsig : w * 2 ^ e * 2 ^ f.p / 2 ^ (bitLen w + e) = w * 2 ^ f.p / 2 ^ bitLen w := by
        rw [Nat.pow_add, Nat.mul_assoc, Nat.mul_comm (2 ^ e), ← Nat.mul_assoc,
          Nat.mul_div_mul_right _ _ (Nat.pow_pos (by decide))]
      rw [hsig]
      congr 2
      omega

/-- every finite encoding (and `+∞`) has a clear sign bit -/
theorem encode_lt_signBit {f : FFmt} (hp : 1 ≤ f.p) (he : 1 ≤ f.ebits) (w : Nat) : encode f w < f.signBit := by
  obtain ⟨hbias, hall, hM, _, hsb⟩ := fmt_consts f he hp
  have hF : 0 < (2 : Nat) ^ f.fbits := Nat.pow_pos (by decide)
  have hinf : f.infBits < f.signBit := by
    unfold FFmt.infBits; rw [hsb, hall]
    exact Nat.mul_lt_mul_of_pos_right (by omega) hF
  by_cases hw : w = 0
  · subst hw; unfold encode; simp; omega
  · by_cases hn : bitLen w ≤ f.maxExp
    · obtain ⟨henc, hfr⟩ := encode_fields hp hw hn
      have hnpos := bitLen_pos hw
      rw [henc]
      have : (bitLen w - 1 + f.bias + 1) * 2 ^ f.fbits ≤ f.expAll * 2 ^ f.fbits :=
        Nat.mul_le_mul_right _ (by omega)
      have e : (bitLen w - 1 + f.bias + 1) * 2 ^ f.fbits = (bitLen w - 1 + f.bias) * 2 ^ f.fbits + 2 ^ f.fbits := by ring
      unfold FFmt.infBits at hinf
      omega
    · rw [encode_inf (by omega)]; exact hinf

theorem valid_maxExp {f : FFmt} (hf : f.Valid) : 128 ≤ f.maxExp := by
  unfold FFmt.maxExp
  have : (2 : Nat) ^ 7 ≤ 2 ^ (f.ebits - 1) := Nat.pow_le_pow_right (by decide) (by have := hf.2.2; omega)
  omega

theorem encode_zero (f : FFmt) : encode f 0 = 0 := by unfold encode; simp

theorem fmul_zero {f : FFmt} (hp : 1 ≤ f.p) (he : 2 ≤ f.ebits) : fmulPow2 f 0 (powi2 f 0) = 0 := by
  obtain ⟨hbias, hall, hM, _, _⟩ := fmt_consts f (by omega) hp
  have hF : 0 < (2 : Nat) ^ f.fbits := Nat.pow_pos (by decide)
  have hb : powi2 f 0 = (0 + f.bias) * 2 ^ f.fbits := by unfold powi2; rw [if_neg (by omega)]
  unfold fmulPow2
  dsimp only
  rw [hb, Nat.mul_div_cancel _ hF, if_neg (by omega), if_pos rfl]


/-! ### specification functions and lemmas for float → integer -/

/-- the correctly rounded IEEE pattern of a natural number: nearest representable value, ties to
    even, `+∞` exactly when the rounded value reaches `2^MAX_EXP` -/
def ieeeRne (f : FFmt) (v : Nat) : Nat := encode f (rneNat f.p v)

theorem f64_fbits : f64.fbits = 52 := rfl
theorem f64_bias : f64.bias = 1023 := by decide
theorem f64_expAll : f64.expAll = 2047 := by decide
theorem f64_signBit : f64.signBit = 2 ^ 63 := rfl
theorem f64_ebits : f64.ebits = 11 := rfl

/-- `⌊|x|⌋` of the finite float with bit pattern `b`: `|x| = sig · 2^(ex − bias − fbits)` with
    `sig = frac` (sub-normal, `ex = 1`) or `frac + 2^fbits` (normal, `ex` = exponent field) -/
def floatTruncAbs (f : FFmt) (b : Nat) : Nat :=
  let e := fExp f b
  let m := fFrac f b
  let sig := if e = 0 then m else m + 2 ^ f.fbits
  let ex := if e = 0 then 1 else e
  let off := f.bias + f.fbits
  if ex ≥ off then sig * 2 ^ (ex - off) else sig / 2 ^ (off - ex)

/-- specification of `BigUint::from_f64/from_f32` on a bit pattern: `None` for NaN/±∞ and for
    values `≤ −1`; otherwise the magnitude truncated toward zero (so `−0.0` and `(−1, 0)` give 0) -/
def fromFloatSpecU (f : FFmt) (b : Nat) : Option (List Nat) :=
  if fExp f b = f.expAll then none
  else if fSign f b = 1 ∧ floatTruncAbs f b ≠ 0 then none
  else some (ofNat (floatTruncAbs f b))

theorem trunc_fields {b k : Nat} (hk : k ≤ 52) :
    (b / 2 ^ k * 2 ^ k) / 2 ^ 52 = b / 2 ^ 52 ∧ (b / 2 ^ k * 2 ^ k) % 2 ^ 52 = (b % 2 ^ 52) / 2 ^ k * 2 ^ k := by
  have e : (2 : Nat) ^ 52 = 2 ^ (52 - k) * 2 ^ k := by rw [← Nat.pow_add]; exact congrArg _ (by omega)
  have hP : 0 < (2 : Nat) ^ k := Nat.pow_pos (by decide)
  rw [e]
  constructor
  · rw [Nat.mul_div_mul_right _ _ hP, Nat.div_div_eq_div_mul, Nat.mul_comm]
  · rw [Nat.mul_mod_mul_right, Nat.mul_comm (2 ^ (52 - k)), Nat.mod_mul_right_div_self]

theorem fExp64 (b : Nat) : fExp f64 b = b / 2 ^ 52 % 2048 := rfl
theorem fFrac64 (b : Nat) : fFrac f64 b = b % 2 ^ 52 := rfl
theorem fSign64 (b : Nat) : fSign f64 b = b / 2 ^ 63 % 2 := rfl
theorem integerDecode64 (n : Nat) : integerDecode f64 n =
    (if n / 2 ^ 52 % 2048 = 0 then n % 2 ^ 52 * 2 else n % 2 ^ 52 + 2 ^ 52, n / 2 ^ 52 % 2048,
      n / 2 ^ 63 % 2 != 0) := rfl
theorem fIsZero64 (n : Nat) : fIsZero f64 n = (n % 2 ^ 63 == 0) := rfl

/-- the tail of `from_f64`: `mantissa · 2^(expo − 1075)` truncated -/
theorem fromDecoded_spec (mant expo : Nat) (neg : Bool) :
    U.fromDecoded mant expo neg =
      if neg then none
      else some (ofNat (if 1075 ≤ expo then mant * 2 ^ (expo - 1075) else mant / 2 ^ (1075 - expo))) := by
  unfold U.fromDecoded
  cases neg
  · simp only [Bool.false_eq_true, if_false, f64_bias, f64_fbits, fromU64_eq_ofNat, ofNat_val]
    rcases Nat.lt_trichotomy expo 1075 with c | c | c
    · rw [Nat.compare_eq_lt.mpr c, if_neg (by omega)]
    · rw [Nat.compare_eq_eq.mpr c, if_pos (by omega), c]; simp
    · rw [Nat.compare_eq_gt.mpr c, if_pos (by omega)]
  · simp

theorem truncAbs_eq (b : Nat) : floatTruncAbs f64 b =
    (if 1075 ≤ (if b / 2 ^ 52 % 2048 = 0 then 1 else b / 2 ^ 52 % 2048) then
      (if b / 2 ^ 52 % 2048 = 0 then b % 2 ^ 52 else b % 2 ^ 52 + 2 ^ 52) *
        2 ^ ((if b / 2 ^ 52 % 2048 = 0 then 1 else b / 2 ^ 52 % 2048) - 1075)
    else (if b / 2 ^ 52 % 2048 = 0 then b % 2 ^ 52 else b % 2 ^ 52 + 2 ^ 52) /
        2 ^ (1075 - (if b / 2 ^ 52 % 2048 = 0 then 1 else b / 2 ^ 52 % 2048))) := rfl

theorem truncAbs_small {b : Nat} (he : b / 2 ^ 52 % 2048 < 1023) : floatTruncAbs f64 b = 0 := by
  rw [truncAbs_eq]
  have hm : b % 2 ^ 52 < 2 ^ 52 := Nat.mod_lt _ (by decide)
  by_cases h0 : b / 2 ^ 52 % 2048 = 0
  · simp only [h0, if_true]
    rw [if_neg (by omega)]
    apply Nat.div_eq_of_lt
    have : (2 : Nat) ^ 52 ≤ 2 ^ (1075 - 1) := Nat.pow_le_pow_right (by decide) (by omega)
    omega
  · simp only [h0, if_false]
    rw [if_neg (by omega)]
    apply Nat.div_eq_of_lt
    have : (2 : Nat) ^ 53 ≤ 2 ^ (1075 - b / 2 ^ 52 % 2048) := Nat.pow_le_pow_right (by decide) (by omega)
    omega

theorem truncAbs_big {b : Nat} (he : 1023 ≤ b / 2 ^ 52 % 2048) : floatTruncAbs f64 b =
    if 1075 ≤ b / 2 ^ 52 % 2048 then (b % 2 ^ 52 + 2 ^ 52) * 2 ^ (b / 2 ^ 52 % 2048 - 1075)
    else (b % 2 ^ 52 + 2 ^ 52) / 2 ^ (1075 - b / 2 ^ 52 % 2048) := by
  rw [truncAbs_eq]
  have h0 : ¬ (b / 2 ^ 52 % 2048 = 0) := by omega
  simp only [h0, if_false]

theorem truncAbs_big_pos {b : Nat} (he : 1023 ≤ b / 2 ^ 52 % 2048) : floatTruncAbs f64 b ≠ 0 := by
  rw [truncAbs_big he]
  split
  · have : 0 < (2 : Nat) ^ (b / 2 ^ 52 % 2048 - 1075) := Nat.pow_pos (by decide)
    exact Nat.mul_ne_zero (by omega) (by omega)
  · have hle : (2 : Nat) ^ (1075 - b / 2 ^ 52 % 2048) ≤ 2 ^ 52 := Nat.pow_le_pow_right (by decide) (by omega)
    have hpos : 0 < (2 : Nat) ^ (1075 - b / 2 ^ 52 % 2048) := Nat.pow_pos (by decide)
    have : 1 ≤ (b % 2 ^ 52 + 2 ^ 52) / 2 ^ (1075 - b / 2 ^ 52 % 2048) := by
      rw [Nat.le_div_iff_mul_le hpos]; omega
    omega

theorem truncBits64 (b : Nat) : truncBits f64 b =
    if b / 2 ^ 52 % 2048 < 1023 then (b / 2 ^ 63 % 2) * 2 ^ 63
    else if b / 2 ^ 52 % 2048 - 1023 ≥ 52 then b
    else b / 2 ^ (52 - (b / 2 ^ 52 % 2048 - 1023)) * 2 ^ (52 - (b / 2 ^ 52 % 2048 - 1023)) := by
  unfold truncBits
  rw [fExp64, fSign64, f64_bias, f64_fbits, f64_signBit]

/-- clearing the fraction bits below the binary point does not change the truncated quotient -/
theorem clear_low {m k : Nat} (hk : k ≤ 52) : (m / 2 ^ k * 2 ^ k + 2 ^ 52) / 2 ^ k = (m + 2 ^ 52) / 2 ^ k := by
  have e : (2 : Nat) ^ 52 = 2 ^ (52 - k) * 2 ^ k := by
    rw [← Nat.pow_add]; exact congrArg _ (by omega)
  have hP : 0 < (2 : Nat) ^ k := Nat.pow_pos (by decide)
  rw [e, ← Nat.add_mul, Nat.mul_div_cancel _ hP, Nat.add_mul_div_right _ _ hP]

theorem sign_if {α : Type} (sg T : Nat) (hsg : sg < 2) (hT : T ≠ 0) (x : α) :
    (if (sg != 0) = true then none else some x) = if sg = 1 ∧ T ≠ 0 then none else some x := by
  have : sg = 0 ∨ sg = 1 := by omega
  rcases this with rfl | rfl
  · simp
  · simp [hT]


/-- specification of `BigInt::from_f64/from_f32`: `None` for NaN/±∞, otherwise the value truncated
    toward zero -/
def fromFloatSpecI (f : FFmt) (b : Nat) : Option BigInt :=
  if fExp f b = f.expAll then none
  else some (BigInt.ofInt (if fSign f b = 1 then -(floatTruncAbs f b : Int) else (floatTruncAbs f b : Int)))


/-! ### what `rneNat` means -/

/-- a natural number representable with a `p`-bit significand: `m · 2^e`, `m < 2^p` -/
def Repr (p w : Nat) : Prop := ∃ m e, w = m * 2 ^ e ∧ m < 2 ^ p

/-- |a − b| on `Nat` -/
def absDiff (a b : Nat) : Nat := (a - b) + (b - a)

/-- shape of `rneNat` above the precision: one of the two neighbouring multiples of `2^S` -/
theorem rneNat_cases {p v : Nat} (h : p < bitLen v) :
    let S := bitLen v - p
    let q := v / 2 ^ S
    let r := v % 2 ^ S
    (rneNat p v = q * 2 ^ S ∧ 2 * r ≤ 2 ^ S ∧ (2 * r = 2 ^ S → q % 2 = 0)) ∨
    (rneNat p v = (q + 1) * 2 ^ S ∧ 2 ^ S ≤ 2 * r ∧ (2 * r = 2 ^ S → q % 2 = 1)) := by
  intro S q r
  have hS : 1 ≤ S := by show 1 ≤ bitLen v - p; omega
  have e2 : (2 : Nat) ^ S = 2 * 2 ^ (S - 1) := by
    rw [← Nat.pow_succ']; exact congrArg _ (by omega)
  rw [rneNat_big h]
  show (((if roundsUp q r (2 ^ (S - 1)) then q + 1 else q) * 2 ^ S = q * 2 ^ S ∧ _) ∨ _)
  by_cases c : roundsUp q r (2 ^ (S - 1))
  · right
    rw [if_pos c]
    unfold roundsUp at c
    refine ⟨rfl, by omega, by omega⟩
  · left
    rw [if_neg c]
    unfold roundsUp at c
    refine ⟨rfl, by omega, by omega⟩

/-- no representable number lies strictly between two neighbouring `p`-bit multiples of `2^S` -/
theorem no_repr_between {p w q S : Nat} (hp : 1 ≤ p) (hq : 2 ^ (p - 1) ≤ q) (hw : Repr p w) :
    ¬ (q * 2 ^ S < w ∧ w < (q + 1) * 2 ^ S) := by
  rintro ⟨h1, h2⟩
  obtain ⟨m, e, rfl, hm⟩ := hw
  by_cases he : S ≤ e
  · -- w is a multiple of 2^S
    have e1 : (2 : Nat) ^ e = 2 ^ (e - S) * 2 ^ S := by rw [← Nat.pow_add]; exact congrArg _ (by omega)
    rw [e1, ← Nat.mul_assoc] at h1 h2
    have a := Nat.lt_of_mul_lt_mul_right h1
    have b := Nat.lt_of_mul_lt_mul_right h2
    omega
  · -- w < 2^(p+e) ≤ 2^(p-1+S) ≤ q·2^S
    have e1 : (2 : Nat) ^ S = 2 ^ (S - e) * 2 ^ e := by rw [← Nat.pow_add]; exact congrArg _ (by omega)
    have hge : 2 * 2 ^ (p - 1) = 2 ^ p := by rw [← Nat.pow_succ']; exact congrArg _ (by omega)
    have h2S : 2 ≤ 2 ^ (S - e) := by
      have : (2 : Nat) ^ 1 ≤ 2 ^ (S - e) := Nat.pow_le_pow_right (by decide) (by omega)
      omega
    have : 2 ^ p * 2 ^ e ≤ q * 2 ^ S := by
      rw [e1, ← Nat.mul_assoc]
      apply Nat.mul_le_mul_right
      calc 2 ^ p = 2 ^ (p - 1) * 2 := by omega
        _ ≤ q * 2 ^ (S - e) := Nat.mul_le_mul hq h2S
    have : m * 2 ^ e < 2 ^ p * 2 ^ e := Nat.mul_lt_mul_of_pos_right hm (Nat.pow_pos (by decide))
    omega


/-! ### widening `f32 → f64` -/

theorem fExp32 (b : Nat) : fExp f32 b = b / 2 ^ 23 % 256 := rfl
theorem fSign32 (b : Nat) : fSign f32 b = b / 2 ^ 31 % 2 := rfl
theorem f32_expAll : f32.expAll = 255 := by decide

theorem truncAbs32_eq (b : Nat) : floatTruncAbs f32 b =
    (if 150 ≤ (if b / 2 ^ 23 % 256 = 0 then 1 else b / 2 ^ 23 % 256) then
      (if b / 2 ^ 23 % 256 = 0 then b % 2 ^ 23 else b % 2 ^ 23 + 2 ^ 23) *
        2 ^ ((if b / 2 ^ 23 % 256 = 0 then 1 else b / 2 ^ 23 % 256) - 150)
    else (if b / 2 ^ 23 % 256 = 0 then b % 2 ^ 23 else b % 2 ^ 23 + 2 ^ 23) /
        2 ^ (150 - (if b / 2 ^ 23 % 256 = 0 then 1 else b / 2 ^ 23 % 256))) := rfl

theorem f32ToF64_eq (b : Nat) : f32ToF64 b =
    (b / 2 ^ 31 % 2) * 2 ^ 63 +
      (if b / 2 ^ 23 % 256 = 255 then
        2047 * 2 ^ 52 + (if b % 2 ^ 23 = 0 then 0 else (b % 2 ^ 23 * 2 ^ 29) ||| 2 ^ 51)
      else if b / 2 ^ 23 % 256 = 0 then
        if b % 2 ^ 23 = 0 then 0
        else (bitLen (b % 2 ^ 23) - 1 + (1023 + 1) - (127 + 23)) * 2 ^ 52 +
          (b % 2 ^ 23 * 2 ^ (52 + 1 - bitLen (b % 2 ^ 23)) - 2 ^ 52)
      else (b / 2 ^ 23 % 256 + (1023 - 127)) * 2 ^ 52 + b % 2 ^ 23 * 2 ^ 29) := by
  unfold f32ToF64
  simp only [fSign32, fExp32, fFrac, f32_expAll, f64_bias, f64_fbits, f64_signBit]
  rfl

/-- sub-normal `f32` widened: exponent field and fraction of the normalised `f64` -/
theorem subnormal_frac {m : Nat} (hm0 : m ≠ 0) (hm : m < 2 ^ 23) :
    1 ≤ bitLen m ∧ bitLen m ≤ 23 ∧ 2 ^ 52 ≤ m * 2 ^ (52 + 1 - bitLen m) ∧ m * 2 ^ (52 + 1 - bitLen m) < 2 ^ 53 := by
  have h1 := bitLen_pos hm0
  have h2 : bitLen m ≤ 23 := bitLen_le_iff.mpr hm
  obtain ⟨lo, hi⟩ := bitLen_bounds hm0
  refine ⟨h1, h2, ?_, ?_⟩
  · have e : (2 : Nat) ^ 52 = 2 ^ (bitLen m - 1) * 2 ^ (52 + 1 - bitLen m) := by
      rw [← Nat.pow_add]; exact congrArg _ (by omega)
    rw [e]; exact Nat.mul_le_mul_right _ lo
  · have e : (2 : Nat) ^ 53 = 2 ^ bitLen m * 2 ^ (52 + 1 - bitLen m) := by
      rw [← Nat.pow_add]; exact congrArg _ (by omega)
    rw [e]; exact Nat.mul_lt_mul_of_pos_right hi (Nat.pow_pos (by decide))

/-- `⌊|x|⌋` from the three fields of an `f32` -/
def trunc32 (e m : Nat) : Nat :=
  if 150 ≤ (if e = 0 then 1 else e) then (if e = 0 then m else m + 2 ^ 23) * 2 ^ ((if e = 0 then 1 else e) - 150)
  else (if e = 0 then m else m + 2 ^ 23) / 2 ^ (150 - (if e = 0 then 1 else e))

/-- the widened pattern from the three fields -/
def widen (sg e m : Nat) : Nat :=
  sg * 2 ^ 63 +
    (if e = 255 then 2047 * 2 ^ 52 + (if m = 0 then 0 else (m * 2 ^ 29) ||| 2 ^ 51)
     else if e = 0 then
       if m = 0 then 0
       else (bitLen m - 1 + (1023 + 1) - (127 + 23)) * 2 ^ 52 + (m * 2 ^ (52 + 1 - bitLen m) - 2 ^ 52)
     else (e + (1023 - 127)) * 2 ^ 52 + m * 2 ^ 29)

theorem widen_special {sg m : Nat} (hsg : sg < 2) (hm : m < 2 ^ 23) :
    widen sg 255 m < 2 ^ 64 ∧ widen sg 255 m / 2 ^ 63 % 2 = sg ∧ widen sg 255 m / 2 ^ 52 % 2048 = 2047 := by
  unfold widen
  rw [if_pos rfl]
  have hor : (if m = 0 then 0 else (m * 2 ^ 29) ||| 2 ^ 51) < 2 ^ 52 := by
    split
    · decide
    · apply Nat.or_lt_two_pow <;> omega
  generalize (if m = 0 then 0 else (m * 2 ^ 29) ||| 2 ^ 51) = x at *
  omega

theorem widen_finite {sg e m : Nat} (hsg : sg < 2) (he : e < 255) (hm : m < 2 ^ 23) :
    widen sg e m < 2 ^ 64 ∧ widen sg e m / 2 ^ 63 % 2 = sg ∧ widen sg e m / 2 ^ 52 % 2048 ≠ 2047 ∧
    floatTruncAbs f64 (widen sg e m) = trunc32 e m := by
  unfold widen trunc32
  rw [if_neg (by omega)]
  by_cases he0 : e = 0
  · subst he0
    simp only [if_true]
    have h150 : ¬ (150 ≤ 1) := by decide
    rw [if_neg h150]
    have hT32 : m / 2 ^ (150 - 1) = 0 := by
      apply Nat.div_eq_of_lt
      have : (2 : Nat) ^ 23 ≤ 2 ^ (150 - 1) := Nat.pow_le_pow_right (by decide) (by decide)
      omega
    rw [hT32]
    by_cases hm0 : m = 0
    · subst hm0
      simp only [if_true]
      refine ⟨by omega, by omega, by omega, truncAbs_small (by omega)⟩
    · rw [if_neg hm0]
      obtain ⟨h1, h2, h3, h4⟩ := subnormal_frac hm0 hm
      generalize m * 2 ^ (52 + 1 - bitLen m) = fr at *
      generalize bitLen m = n at *
      refine ⟨by omega, by omega, by omega, truncAbs_small (by omega)⟩
  · rw [if_neg he0]
    simp only [he0, if_false]
    have hb1 : ((sg * 2 ^ 63 + ((e + (1023 - 127)) * 2 ^ 52 + m * 2 ^ 29)) / 2 ^ 52 % 2048) = e + 896 := by omega
    have hb2 : ((sg * 2 ^ 63 + ((e + (1023 - 127)) * 2 ^ 52 + m * 2 ^ 29)) % 2 ^ 52) = m * 2 ^ 29 := by omega
    refine ⟨by omega, by omega, by omega, ?_⟩
    have hsig : m * 2 ^ 29 + 2 ^ 52 = (m + 2 ^ 23) * 2 ^ 29 := by omega
    by_cases hlow : e < 127
    · rw [truncAbs_small (by omega), if_neg (by omega)]
      symm; apply Nat.div_eq_of_lt
      have : (2 : Nat) ^ 24 ≤ 2 ^ (150 - e) := Nat.pow_le_pow_right (by decide) (by omega)
      omega
    · rw [truncAbs_big (by omega), hb1, hb2, hsig]
      by_cases h179 : 1075 ≤ e + 896
      · rw [if_pos h179, if_pos (by omega), Nat.mul_assoc, ← Nat.pow_add]
        exact congrArg _ (congrArg _ (by omega))
      · rw [if_neg h179]
        by_cases h150 : 150 ≤ e
        · rw [if_pos h150]
          have e1 : (2 : Nat) ^ 29 = 2 ^ (e - 150) * 2 ^ (1075 - (e + 896)) := by
            rw [← Nat.pow_add]; exact congrArg _ (by omega)
          rw [e1, ← Nat.mul_assoc, Nat.mul_div_cancel _ (Nat.pow_pos (by decide))]
        · rw [if_neg h150]
          have e1 : (2 : Nat) ^ (1075 - (e + 896)) = 2 ^ (150 - e) * 2 ^ 29 := by
            rw [← Nat.pow_add]; exact congrArg _ (by omega)
          rw [e1, Nat.mul_div_mul_right _ _ (Nat.pow_pos (by decide))]

end NB.Conv
