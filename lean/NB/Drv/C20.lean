/- driver handlers for stream C20 (multiplication work count) -/
import NB.Wire
import NB.Model.Cost
import NB.Model.AsmParams
namespace NB.Drv.C20
open NB NB.Wire

def P := NB.Gen.P

def handle (op : String) (args : List String) : Option (String × String) :=
  match op, args with
  -- fixed dense operands of n and m digits built from the pattern id
  | "work", [n, m, p] => do
    let n ← parseNat n; let m ← parseNat m; let p ← parseNat p
    let r := "ok " ++ toString (Cost.mul P (Cost.dense p 0 n) (Cost.dense p 1 m))
    pure (r, r)
  -- arbitrary canonical operands
  | "workv", [a, b] => do
    let a ← parseLimbs a; let b ← parseLimbs b
    let r := "ok " ++ toString (Cost.mul P a b)
    pure (r, r)
  -- the same product through another call shape (aliased references, owned operands, `*=`, `pow(2)`, BigInt):
  -- the cost depends on the digit vectors only
  | "workf", [_, a, b] => do
    let a ← parseLimbs a; let b ← parseLimbs b
    let r := "ok " ++ toString (Cost.mul P a b)
    pure (r, r)
  | "worksq", [_, n, p] => do
    let n ← parseNat n; let p ← parseNat p
    let r := "ok " ++ toString (Cost.mul P (Cost.dense p 0 n) (Cost.dense p 0 n))
    pure (r, r)
  -- nominal recurrence (driver only; used by the size-table step of the check)
  | "wnom", [n, m] => do
    let n ← parseNat n; let m ← parseNat m
    let r := match Cost.W P Cost.Wfuel n m with
      | some w => "ok " ++ toString w
      | none => "fuel"
    pure (r, r)
  | _, _ => none

end NB.Drv.C20
