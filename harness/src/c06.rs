//! stream C06: text and radix conversions, formatting
use crate::wire::*;
use num_bigint::{BigInt, BigUint, Sign};
use num_traits::{Num, ToPrimitive};
use std::str::FromStr;

/// The fixed table of format strings (index = format id); the same table, as `FmtSpec` records,
/// is `NB.Radix.fmtTable` in lean/NB/Model/Radix.lean.
macro_rules! fmt_by_id {
    ($id:expr, $v:expr) => {
        match $id {
            0 => Some(format!("{}", $v)),
            1 => Some(format!("{:b}", $v)),
            2 => Some(format!("{:o}", $v)),
            3 => Some(format!("{:x}", $v)),
            4 => Some(format!("{:X}", $v)),
            5 => Some(format!("{:?}", $v)),
            6 => Some(format!("{:#x}", $v)),
            7 => Some(format!("{:#X}", $v)),
            8 => Some(format!("{:#b}", $v)),
            9 => Some(format!("{:#o}", $v)),
            10 => Some(format!("{:+}", $v)),
            11 => Some(format!("{:08}", $v)),
            12 => Some(format!("{:>12}", $v)),
            13 => Some(format!("{:^12}", $v)),
            14 => Some(format!("{:*<12}", $v)),
            15 => Some(format!("{:+#012x}", $v)),
            16 => Some(format!("{:12}", $v)),
            17 => Some(format!("{:<12}", $v)),
            18 => Some(format!("{:+08}", $v)),
            19 => Some(format!("{:#^13}", $v)),
            20 => Some(format!("{:#020b}", $v)),
            21 => Some(format!("{:+>15o}", $v)),
            22 => Some(format!("{:#010X}", $v)),
            23 => Some(format!("{:0<10}", $v)),
            24 => Some(format!("{:<010}", $v)),
            25 => Some(format!("{:1}", $v)),
            26 => Some(format!("{:40}", $v)),
            27 => Some(format!("{:-^+#21x}", $v)),
            28 => Some(format!("{:#9?}", $v)),
            29 => Some(format!("{:08?}", $v)),
            30 => Some(format!("{:→^9}", $v)),
            31 => Some(format!("{:+070b}", $v)),
            32 => Some(format!("{:_>+6}", $v)),
            33 => Some(format!("{:^+#012X}", $v)),
            34 => Some(format!("{:<#7o}", $v)),
            35 => Some(format!("{:03}", $v)),
            36 => Some(format!("{:10.3}", $v)),
            37 => Some(format!("{:.0}", $v)),
            38 => Some(format!("{:x?}", $v)),
            39 => Some(format!("{:33x}", $v)),
            _ => None,
        }
    };
}

/// ids whose output for a primitive integer is NOT what a sign-magnitude bignum prints:
/// `{:x?}` prints primitives in hex (BigUint's Debug forwards to Display).
fn prim_comparable(id: usize) -> bool {
    id != 38
}

/// ids that print in decimal (primitive signed formatting of other radices is two's complement)
fn decimal_id(id: usize) -> bool {
    matches!(id, 0 | 5 | 10 | 11 | 12 | 13 | 14 | 16 | 17 | 18 | 19 | 23 | 24 | 25 | 26 | 28 | 29 | 30 | 32 | 35 | 36 | 37)
}

fn ok_bytes(b: &[u8]) -> String {
    format!("ok {}", show_bytes(b))
}

fn parse_res_u(r: Result<BigUint, num_bigint::ParseBigIntError>) -> String {
    match r {
        Ok(v) => ok_u(&v),
        Err(e) => {
            if e.to_string().contains("empty") {
                "err empty".to_string()
            } else {
                "err invalid".to_string()
            }
        }
    }
}

fn parse_res_i(r: Result<BigInt, num_bigint::ParseBigIntError>) -> String {
    match r {
        Ok(v) => ok_i(&v),
        Err(e) => {
            if e.to_string().contains("empty") {
                "err empty".to_string()
            } else {
                "err invalid".to_string()
            }
        }
    }
}

fn sign_digits(p: (Sign, Vec<u8>)) -> String {
    format!("ok {} {}", show_sign(p.0), show_bytes(&p.1))
}

fn parse_sign_tok(s: &str) -> Option<Sign> {
    let mut it = s.chars();
    let c = it.next()?;
    if it.next().is_some() {
        return None;
    }
    parse_sign(c)
}

pub fn handle(op: &str, a: &[&str]) -> Option<String> {
    Some(match (op, a) {
        ("u.to_str", [x, r]) => ok_bytes(parse_u(x)?.to_str_radix(r.parse().ok()?).as_bytes()),
        ("i.to_str", [x, r]) => ok_bytes(parse_i(x)?.to_str_radix(r.parse().ok()?).as_bytes()),
        ("u.from_str", [r, s]) => {
            let b = parse_bytes(s)?;
            let s = std::str::from_utf8(&b).ok()?;
            parse_res_u(BigUint::from_str_radix(s, r.parse().ok()?))
        }
        ("i.from_str", [r, s]) => {
            let b = parse_bytes(s)?;
            let s = std::str::from_utf8(&b).ok()?;
            parse_res_i(BigInt::from_str_radix(s, r.parse().ok()?))
        }
        ("u.parse", [s]) => {
            let b = parse_bytes(s)?;
            let s = std::str::from_utf8(&b).ok()?;
            // `str::parse` and `FromStr::from_str` are the same call
            let r1 = s.parse::<BigUint>();
            let r2 = BigUint::from_str(s);
            if r1 != r2 {
                panic!("fmt-mismatch parse vs from_str");
            }
            parse_res_u(r1)
        }
        ("i.parse", [s]) => {
            let b = parse_bytes(s)?;
            let s = std::str::from_utf8(&b).ok()?;
            let r1 = s.parse::<BigInt>();
            let r2 = BigInt::from_str(s);
            if r1 != r2 {
                panic!("fmt-mismatch parse vs from_str");
            }
            parse_res_i(r1)
        }
        ("u.parse_bytes", [r, s]) => opt_u(&BigUint::parse_bytes(&parse_bytes(s)?, r.parse().ok()?)),
        ("i.parse_bytes", [r, s]) => opt_i(&BigInt::parse_bytes(&parse_bytes(s)?, r.parse().ok()?)),
        ("u.to_radix_le", [x, r]) => ok_bytes(&parse_u(x)?.to_radix_le(r.parse().ok()?)),
        ("u.to_radix_be", [x, r]) => ok_bytes(&parse_u(x)?.to_radix_be(r.parse().ok()?)),
        ("i.to_radix_le", [x, r]) => sign_digits(parse_i(x)?.to_radix_le(r.parse().ok()?)),
        ("i.to_radix_be", [x, r]) => sign_digits(parse_i(x)?.to_radix_be(r.parse().ok()?)),
        ("u.from_radix_le", [r, s]) => opt_u(&BigUint::from_radix_le(&parse_bytes(s)?, r.parse().ok()?)),
        ("u.from_radix_be", [r, s]) => opt_u(&BigUint::from_radix_be(&parse_bytes(s)?, r.parse().ok()?)),
        ("i.from_radix_le", [sg, r, s]) => {
            opt_i(&BigInt::from_radix_le(parse_sign_tok(sg)?, &parse_bytes(s)?, r.parse().ok()?))
        }
        ("i.from_radix_be", [sg, r, s]) => {
            opt_i(&BigInt::from_radix_be(parse_sign_tok(sg)?, &parse_bytes(s)?, r.parse().ok()?))
        }
        ("u.fmt", [id, x]) => {
            let id: usize = id.parse().ok()?;
            let v = parse_u(x)?;
            let out = fmt_by_id!(id, v)?;
            if prim_comparable(id) {
                if let Some(p) = v.to_u128() {
                    let want = fmt_by_id!(id, p)?;
                    if want != out {
                        panic!("fmt-mismatch");
                    }
                }
            }
            ok_bytes(out.as_bytes())
        }
        ("i.fmt", [id, x]) => {
            let id: usize = id.parse().ok()?;
            let v = parse_i(x)?;
            let out = fmt_by_id!(id, v)?;
            if prim_comparable(id) {
                if let Some(p) = v.to_i128() {
                    if p >= 0 || decimal_id(id) {
                        let want = fmt_by_id!(id, p)?;
                        if want != out {
                            panic!("fmt-mismatch");
                        }
                    }
                }
            }
            ok_bytes(out.as_bytes())
        }
        _ => return None,
    })
}
