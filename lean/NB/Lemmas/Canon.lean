/- canonicity helpers shared by the property files -/
import NB.Lemmas.Base
namespace NB

theorem val_lt_of_getLast_zero {r : List Nat} (h : DigitsOk r) (h0 : r.getLast? = some 0) :
    val r < B ^ (r.length - 1) := by
  rcases List.eq_nil_or_concat r with hr | ⟨init, x, rfl⟩
  · subst hr; simp at h0
  · simp only [List.concat_eq_append] at *
    have hx : x = 0 := by simpa using h0
    subst hx
    rw [val_append]
    simp only [val, Nat.mul_zero, Nat.add_zero, List.length_append, List.length_cons, List.length_nil]
    exact val_lt h.left

/-- a proper digit list whose value reaches `B^(len-1)` has a non-zero top digit -/
theorem canon_of_val_ge {r : List Nat} (h : DigitsOk r) (hge : r ≠ [] → B ^ (r.length - 1) ≤ val r) : Canon r := by
  refine ⟨h, ?_⟩
  intro h0
  have hne : r ≠ [] := by intro hr; subst hr; simp at h0
  have := val_lt_of_getLast_zero h h0
  have := hge hne
  omega

theorem canon_append_singleton {r : List Nat} {c : Nat} (h : DigitsOk r) (hc : c < B) (hc0 : c ≠ 0) : Canon (r ++ [c]) := by
  refine ⟨h.append (DigitsOk.cons hc DigitsOk.nil), ?_⟩
  simp [hc0]

theorem bigint_canon_eq_ofInt {x : BigInt} (h : x.Canon) : x = BigInt.ofInt x.val := by
  obtain ⟨hc, hs⟩ := h
  rcases x with ⟨s, m⟩
  simp only at hc hs
  cases s with
  | nosign =>
    have : m = [] := hs.mp rfl
    subst this
    simp [BigInt.val, BigInt.ofInt]
  | plus =>
    have hne : m ≠ [] := fun h => by simpa using hs.mpr h
    have hpos := canon_val_pos hc hne
    simp only [BigInt.val, BigInt.ofInt]
    have h1 : ¬ ((val m : Int) < 0) := by omega
    have h2 : ¬ ((val m : Int) = 0) := by omega
    simp only [h1, h2, if_false, Int.natAbs_natCast]
    rw [← canon_eq_ofNat hc]
  | minus =>
    have hne : m ≠ [] := fun h => by simpa using hs.mpr h
    have hpos := canon_val_pos hc hne
    simp only [BigInt.val, BigInt.ofInt]
    have h1 : (-(val m : Int) < 0) := by omega
    simp only [h1, if_true, Int.natAbs_neg, Int.natAbs_natCast]
    rw [← canon_eq_ofNat hc]

theorem bigint_ofInt_canon (i : Int) : (BigInt.ofInt i).Canon := by
  unfold BigInt.ofInt BigInt.Canon
  by_cases h1 : i < 0
  · simp only [h1, if_true]
    refine ⟨ofNat_canon _, ?_⟩
    constructor
    · intro h; cases h
    · intro h
      have := congrArg val h
      rw [ofNat_val] at this
      simp [val] at this
      omega
  · simp only [h1, if_false]
    by_cases h2 : i = 0
    · simp [h2, canon_nil]
    · simp only [h2, if_false]
      refine ⟨ofNat_canon _, ?_⟩
      constructor
      · intro h; cases h
      · intro h
        have := congrArg val h
        rw [ofNat_val] at this
        simp [val] at this
        omega

theorem bigint_ofInt_val (i : Int) : (BigInt.ofInt i).val = i := by
  unfold BigInt.ofInt BigInt.val
  by_cases h1 : i < 0
  · simp only [h1, if_true, ofNat_val]; omega
  · simp only [h1, if_false]
    by_cases h2 : i = 0
    · simp [h2]
    · simp only [h2, if_false, ofNat_val]; omega

/-- `from_biguint` of a canonical magnitude with a real sign is the canonical BigInt of ±value -/
theorem fromBiguint_plus {m : List Nat} (h : NB.Canon m) :
    BigInt.fromBiguint .plus m = BigInt.ofInt (val m) := by
  unfold BigInt.fromBiguint
  by_cases hm : m = []
  · subst hm; simp [BigInt.ofInt, val]
  · have hpos := canon_val_pos h hm
    simp only [hm, if_false]
    have : (⟨.plus, m⟩ : BigInt).Canon := ⟨h, by simp [hm]⟩
    have e := bigint_canon_eq_ofInt this
    simpa [BigInt.val] using e

theorem fromBiguint_minus {m : List Nat} (h : NB.Canon m) :
    BigInt.fromBiguint .minus m = BigInt.ofInt (-(val m : Int)) := by
  unfold BigInt.fromBiguint
  by_cases hm : m = []
  · subst hm; simp [BigInt.ofInt, val]
  · have hpos := canon_val_pos h hm
    simp only [hm, if_false]
    have : (⟨.minus, m⟩ : BigInt).Canon := ⟨h, by simp [hm]⟩
    have e := bigint_canon_eq_ofInt this
    simpa [BigInt.val] using e

end NB
