import NB.Base
namespace NB
theorem c14_placeholder : True := trivial
end NB
