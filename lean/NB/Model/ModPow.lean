/-
  NB.Model.ModPow — model of
    src/biguint/power.rs   `modpow` (parity dispatch), `plain_modpow`
    src/biguint.rs         `BigUint::modinv`
    src/bigint/power.rs    `modpow` (sign placement)
    src/bigint.rs          `BigInt::modinv`

  These routines are written with BigUint operators (`*`, `%`, `div_rem`, `-`, comparisons), so
  they are modelled at value level (`Nat`) with the mathematical operators, keeping the control
  flow of the source: zero-digit skipping, trailing-zero stripping, the early exit, the `last`
  digit handling, the lifted first Euclid iteration, the modular subtraction of coefficients.
  Every subtraction that is not syntactically guarded by a comparison is a checked `subU`.
-/
import NB.Base
import NB.Model.Monty
namespace NB

/-- BigUint `a - b`: panics on underflow -/
def subU (a b : Nat) : Except Panic Nat :=
  if a < b then .error .underflow else .ok (a - b)

/-- `BigUint::is_odd`: looks at the lowest digit only -/
def isOddU : List Nat → Bool
  | [] => false
  | d :: _ => d % 2 = 1

/-- `exp_data.iter().position(|&r| r != 0)` -/
def firstNonzero : List Nat → Option Nat
  | [] => none
  | d :: ds => if d ≠ 0 then some 0 else (firstNonzero ds).map (· + 1)

/-- `base = &base * &base % modulus`, `k` times -/
def sqTimes (m : Nat) : Nat → Nat → Nat
  | 0, base => base
  | k + 1, base => sqTimes m k (base * base % m)

/-- `while r.is_even() { base = base² % m; r >>= 1; b += 1 }`; returns `(r, b, base)`.
    With `r = 0` the Rust loop would not terminate. -/
def stripZeros (m : Nat) (r b base : Nat) : Except Panic (Nat × Nat × Nat) :=
  if h0 : r = 0 then .error (.internal "plain_modpow: zero digit in trailing-zero loop")
  else if h : r % 2 = 0 then stripZeros m (r / 2) (b + 1) (base * base % m)
  else .ok (r, b, base)
termination_by r
decreasing_by omega

/-- the closure `unit(exp_is_odd)` acting on `(base, acc)` -/
def unitStep (m : Nat) (odd : Bool) (s : Nat × Nat) : Nat × Nat :=
  let base := s.1 * s.1 % m
  if odd then (base, s.2 * base % m) else (base, s.2)

/-- `for _ in 0..k { unit(r.is_odd()); r >>= 1 }` -/
def bitsLoop (m : Nat) : Nat → Nat → Nat × Nat → Nat × Nat
  | 0, _, s => s
  | k + 1, r, s => bitsLoop m k (r / 2) (unitStep m (r % 2 = 1) s)

/-- `for &r in exp_iter { … 64 × unit … }` over the digits strictly between the first
    non-zero digit and the last digit -/
def midLoop (m : Nat) : List Nat → Nat × Nat → Nat × Nat
  | [], s => s
  | r :: rs, s => midLoop m rs (bitsLoop m BITS r s)

/-- `while !r.is_zero() { unit(r.is_odd()); r >>= 1 }` -/
def whileLoop (m : Nat) (r : Nat) (s : Nat × Nat) : Nat × Nat :=
  if h : r = 0 then s else whileLoop m (r / 2) (unitStep m (r % 2 = 1) s)
termination_by r
decreasing_by omega

/-- `plain_modpow(base, exp_data, modulus)` (value of the result) -/
def plainModpow (base : Nat) (exp : List Nat) (m : Nat) : Except Panic Nat :=
  if m = 0 then .error .zeromod else
  match firstNonzero exp with
  | none => .ok 1
  | some i =>
    let base := base % m
    let base := sqTimes m (i * BITS) base
    match stripZeros m (exp.getD i 0) 0 base with
    | .error e => .error e
    | .ok (r, b, base) =>
      let rest := exp.drop (i + 1)
      if rest.length = 0 ∧ r = 1 then .ok base else
      let acc := base
      let r := r / 2
      let b := b + 1
      match rest.getLast? with
      | some last =>
        let s := bitsLoop m (BITS - b) r (base, acc)
        let s := midLoop m rest.dropLast s
        if last = 0 then .error (.internal "plain_modpow: debug_assert_ne!(r, 0)")
        else .ok (whileLoop m last s).2
      | none =>
        if r = 0 then .error (.internal "plain_modpow: debug_assert_ne!(r, 0)")
        else .ok (whileLoop m r (base, acc)).2

/-- `BigUint::modpow` = `power::modpow`: parity dispatch -/
def modpowU (P : Params) (x e m : List Nat) : Except Panic (List Nat) :=
  if m = [] then .error .zeromod
  else if isOddU m then montyModpow P x e m
  else match plainModpow (val x) e (val m) with
    | .error p => .error p
    | .ok v => .ok (ofNat v)

/-- the `while !r1.is_zero()` loop of `BigUint::modinv`; returns `(r0, t0)` -/
def modinvLoop (m : Nat) (r0 r1 t0 t1 : Nat) : Except Panic (Nat × Nat) :=
  if h : r1 = 0 then .ok (r0, t0)
  else
    let q := r0 / r1
    let r2 := r0 % r1
    let qt1 := q * t1 % m
    if t0 < qt1 then
      match subU m qt1 with
      | .error e => .error e
      | .ok d => modinvLoop m r1 r2 t1 (t0 + d)
    else modinvLoop m r1 r2 t1 (t0 - qt1)
termination_by r1
decreasing_by
  all_goals exact Nat.mod_lt _ (Nat.pos_of_ne_zero h)

/-- `BigUint::modinv(self, modulus)` -/
def modinvU (a m : Nat) : Except Panic (Option Nat) :=
  if m = 0 then .error .zeromod
  else if m = 1 then .ok (some 0)
  else
    let r1 := a % m
    if r1 = 0 then .ok none
    else if r1 = 1 then .ok (some r1)
    else
      let q := m / r1
      let r2 := m % r1
      if r2 = 0 then .ok none
      else
        match subU m q with
        | .error e => .error e
        | .ok t1 =>
          match modinvLoop m r1 r2 1 t1 with
          | .error e => .error e
          | .ok (r0, t0) => if r0 = 1 then .ok (some t0) else .ok none

/-- the `match (…is_negative…, modulus.is_negative())` table shared by `BigInt::modpow` and
    `BigInt::modinv` -/
def signPlace (xneg mneg : Bool) (m result : Nat) : Except Panic (Sign × Nat) :=
  match xneg, mneg with
  | false, false => .ok (.plus, result)
  | true, false => match subU m result with
    | .error e => .error e
    | .ok d => .ok (.plus, d)
  | false, true => match subU m result with
    | .error e => .error e
    | .ok d => .ok (.minus, d)
  | true, true => .ok (.minus, result)

/-- `BigInt::modpow` -/
def BigInt.modpow (P : Params) (x e m : BigInt) : Except Panic BigInt :=
  if e.sign = .minus then .error .negexp
  else if m.sign = .nosign then .error .zeromod
  else
    match modpowU P x.mag e.mag m.mag with
    | .error p => .error p
    | .ok result =>
      if result = [] then .ok ⟨.nosign, []⟩
      else
        match signPlace (x.sign = .minus && isOddU e.mag) (m.sign = .minus) (NB.val m.mag) (NB.val result) with
        | .error p => .error p
        | .ok (s, mag) => .ok (BigInt.fromBiguint s (ofNat mag))

/-- `BigInt::modinv` (as it is after the fix for modulus ±1) -/
def BigInt.modinv (x m : BigInt) : Except Panic (Option BigInt) :=
  match modinvU (NB.val x.mag) (NB.val m.mag) with
  | .error p => .error p
  | .ok none => .ok none
  | .ok (some result) =>
    if result = 0 then .ok (some ⟨.nosign, []⟩)
    else
      match signPlace (x.sign = .minus) (m.sign = .minus) (NB.val m.mag) result with
      | .error p => .error p
      | .ok (s, mag) => .ok (some (BigInt.fromBiguint s (ofNat mag)))

end NB
