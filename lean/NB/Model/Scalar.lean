/-
  NB.Model.Scalar — value-level model of the scalar operator forms (property C10).

  Sources: src/macros.rs (promote_*!, forward_*!), the scalar leaf impls of
  src/biguint/{addition,subtraction,multiplication,division,shift,power}.rs and
  src/bigint/{addition,subtraction,multiplication,division,shift,power}.rs,
  `UnsignedAbs::checked_uabs` in src/bigint.rs, `impl_rem_assign_scalar!`,
  `impl_sum_iter_type!`, `impl_product_iter_type!`.

  Layering (DEVGUIDE "Model rules"): the leaf impls are written with BigUint/BigInt *operators*
  and with calls into the digit routines of C01–C03/C07 on a digit list built from the scalar
  (`&[lo, hi]`); they are modelled here at value level: a BigUint is its `Nat` value, a BigInt is
  `VInt = (sign, magnitude : Nat)`, a primitive scalar is an `Int` together with a type tag
  `STy`.  `data.len()` is `nd a` (length of the canonical digit list of `a`).  Each function
  keeps the case analysis of the source (sign match, `cmp`, `checked_uabs`, digit-count match,
  `to_T`), every panic site is an explicit `.error`.  The val/ref permutations and the
  capacity-driven operand choice of the forwarding macros do not exist at this level.
  NB.Model.ScalarD re-states the `+ - * / %` leaves on digit vectors through the digit-level operator
  models; NB.Props.C10D proves them equal to the definitions of this file (refinement).

  Target configuration: 64-bit digits (`B = 2^64`), `usize/isize` 64 bits wide,
  `UsizePromotion = u64`, `IsizePromotion = i64` (src/lib.rs, `cfg(target_pointer_width = "64")`).
-/
import NB.Base
import NB.Model.AddSub
namespace NB

/-! ## primitive scalar types -/

inductive STy where
  | u8 | u16 | u32 | u64 | u128 | usize | i8 | i16 | i32 | i64 | i128 | isize
  deriving DecidableEq, Repr, Inhabited

namespace STy

def signed : STy → Bool
  | u8 | u16 | u32 | u64 | u128 | usize => false
  | _ => true

/-- `2^BITS` -/
def modulus : STy → Int
  | u8 | i8 => 256
  | u16 | i16 => 65536
  | u32 | i32 => 4294967296
  | u64 | i64 | usize | isize => 18446744073709551616
  | u128 | i128 => 340282366920938463463374607431768211456

/-- `2^(BITS-1)` -/
def half : STy → Int
  | u8 | i8 => 128
  | u16 | i16 => 32768
  | u32 | i32 => 2147483648
  | u64 | i64 | usize | isize => 9223372036854775808
  | u128 | i128 => 170141183460469231731687303715884105728

/-- `T::MIN` -/
def lo (t : STy) : Int := if t.signed then - t.half else 0
/-- `T::MAX` -/
def hi (t : STy) : Int := if t.signed then t.half - 1 else t.modulus - 1

/-- the values of the type -/
def InRange (t : STy) (v : Int) : Prop := t.lo ≤ v ∧ v ≤ t.hi
instance (t : STy) (v : Int) : Decidable (t.InRange v) := by unfold InRange; infer_instance

/-- the unsigned type of the same width (`UnsignedAbs::Unsigned`) -/
def unsignedOf : STy → STy
  | i8 => u8 | i16 => u16 | i32 => u32 | i64 => u64 | i128 => u128 | isize => usize
  | t => t

/-- `promote_unsigned_scalars!` / `promote_signed_scalars!`: u8,u16 → u32; usize → UsizePromotion;
    i8,i16 → i32; isize → IsizePromotion; the leaf types are their own promotion -/
def promo : STy → STy
  | u8 | u16 | u32 => u32
  | usize | u64 => u64
  | u128 => u128
  | i8 | i16 | i32 => i32
  | isize | i64 => i64
  | i128 => i128

end STy

/-- `v as T` for an integer `v` of any primitive integer type: wrap into the range of `T` -/
def castTo (t : STy) (v : Int) : Int :=
  if t.signed then (v + t.half) % t.modulus - t.half else v % t.modulus

/-- `v.wrapping_neg()` in type `t` -/
def wrappingNeg (t : STy) (v : Int) : Int := castTo t (-v)

/-- `CheckedUnsignedAbs<T>` -/
inductive UAbs where
  | positive (u : Int)
  | negative (u : Int)
  deriving DecidableEq, Repr

/-- `impl_unsigned_abs!`: `if self >= 0 { Positive(self as U) } else { Negative(self.wrapping_neg() as U) }` -/
def checkedUabs (t : STy) (v : Int) : UAbs :=
  if v ≥ 0 then .positive (castTo t.unsignedOf v)
  else .negative (castTo t.unsignedOf (wrappingNeg t v))

/-- core `iN::unsigned_abs` = `self.wrapping_abs() as uN` -/
def unsignedAbs (t : STy) (v : Int) : Int :=
  castTo t.unsignedOf (if v < 0 then wrappingNeg t v else v)

/-! ## value-level BigUint leaves (`Nat`) -/

/-- `data.len()` of the normalised digit vector of `a` -/
def nd (a : Nat) : Nat := (ofNat a).length

/-- `scalar_mul(a, b)`: `0 => set_zero`, `1 => {}`, power of two => `a <<= b.trailing_zeros()`,
    otherwise the carry loop -/
def scalarMul (a b : Nat) : Nat :=
  if b = 0 then 0
  else if b = 1 then a
  else if b = 2 ^ Nat.log2 b then a * 2 ^ Nat.log2 b
  else a * b

/-- `AddAssign<u32|u64|u128> for BigUint` (64-bit digit arms of `cfg_digit!`) -/
def uAddAssign (t : STy) (a s : Nat) : Nat :=
  match t with
  | .u128 =>
    let hi := s / B; let lo := s % B          -- big_digit::from_doublebigdigit
    if hi = 0 then (if lo ≠ 0 then a + lo else a)   -- `*self += lo`
    else a + (lo + B * hi)                    -- pad to 2 digits, `__add2(.., &[lo, hi])`, push carry
  | _ => if s ≠ 0 then a + s else a

/-- `SubAssign<u32|u64|u128> for BigUint`: `sub2(&mut self.data, &[..])` then normalize -/
def uSubAssign (t : STy) (a s : Nat) : Except Panic Nat :=
  match t with
  | .u128 =>
    let hi := s / B; let lo := s % B
    if a < lo + B * hi then .error .underflow else .ok (a - (lo + B * hi))
  | _ => if a < s then .error .underflow else .ok (a - s)

/-- `Sub<BigUint> for u32|u64|u128` (scalar − big) -/
def uSubRev (t : STy) (s a : Nat) : Except Panic Nat :=
  match t with
  | .u128 =>
    let hi := s / B; let lo := s % B          -- other padded to 2 digits; sub2rev(&[lo, hi], other)
    if lo + B * hi < a then .error .underflow else .ok (lo + B * hi - a)
  | _ =>
    if nd a = 0 then .ok s                    -- `other.data.push(self)`
    else if s < a then .error .underflow else .ok (s - a)   -- sub2rev(&[self], other)

/-- `MulAssign<u32|u64|u128> for BigUint` -/
def uMulAssign (t : STy) (a s : Nat) : Nat :=
  match t with
  | .u128 =>
    if s < B then scalarMul a s                -- `BigDigit::from_u128(other)` is Some
    else a * (s % B + B * (s / B))             -- mul3(&self.data, &[lo, hi])
  | _ => scalarMul a s

/-- `Div<u32> for BigUint` (`div_rem_digit`) and `Div<u64|u128>` (`div_rem(self, From::from(other))`) -/
def uDiv (t : STy) (a s : Nat) : Except Panic Nat :=
  match t with
  | .u32 => if s = 0 then .error .divzero else .ok (a / s)
  | _ => if s = 0 then .error .divzero else .ok (a / s)

/-- `Div<BigUint> for u32|u64|u128` (scalar / big): match on `other.data.len()` -/
def uDivRev (t : STy) (s a : Nat) : Except Panic Nat :=
  match t with
  | .u128 =>
    match nd a with
    | 0 => .error .divzero
    | 1 => .ok (s / a)       -- self / other.data[0] as u128
    | 2 => .ok (s / a)       -- self / to_doublebigdigit(other.data[1], other.data[0])
    | _ => .ok 0
  | _ =>
    match nd a with
    | 0 => .error .divzero
    | 1 => .ok (s / a)
    | _ => .ok 0

/-- `Rem<u32> for &BigUint` (`rem_digit`) and `Rem<u64|u128> for BigUint` (`div_rem`) -/
def uRem (t : STy) (a s : Nat) : Except Panic Nat :=
  match t with
  | .u32 => if s = 0 then .error .divzero else .ok (a % s)
  | _ => if s = 0 then .error .divzero else .ok (a % s)

/-- `other.to_T()` for a BigUint `other` -/
def toT (t : STy) (a : Nat) : Option Nat := if (a : Int) ≤ t.hi then some a else none

/-- magnitude of `BigInt::from(s)` -/
def magOf (s : Int) : Nat := s.natAbs

/-- `impl_rem_assign_scalar!`: `scalar %= &BigUint`, for all 12 scalar types -/
def remAssignScalar (t : STy) (s : Int) (a : Nat) : Except Panic Int :=
  match toT t a with
  | none => if magOf s = a then .ok 0 else .ok s
  | some 0 => .error .divzero
  | some v => .ok (Int.tmod s v)

/-- `Rem<&BigUint> for u32`, `Rem<BigUint> for u64|u128`: `self %= other; From::from(self)` -/
def uRemRev (t : STy) (s a : Nat) : Except Panic Nat :=
  (remAssignScalar t s a).map Int.toNat

/-! ## value-level BigInt -/

structure VInt where
  sign : Sign
  mag : Nat
  deriving DecidableEq, Repr, Inhabited

namespace VInt

def val (x : VInt) : Int :=
  match x.sign with
  | .minus => - (x.mag : Int)
  | .nosign => 0
  | .plus => (x.mag : Int)

/-- the BigInt invariant: `NoSign` exactly for magnitude zero -/
def Canon (x : VInt) : Prop := x.sign = .nosign ↔ x.mag = 0
instance (x : VInt) : Decidable x.Canon := by unfold Canon; infer_instance

def zero : VInt := ⟨.nosign, 0⟩

def ofInt (i : Int) : VInt :=
  if i < 0 then ⟨.minus, i.natAbs⟩ else if i = 0 then ⟨.nosign, 0⟩ else ⟨.plus, i.natAbs⟩

/-- `BigInt::from_biguint` -/
def fromBiguint (s : Sign) (m : Nat) : VInt :=
  if s = .nosign then zero else if m = 0 then zero else ⟨s, m⟩

/-- `BigInt::from(BigUint)` / `From<u32|u64|u128>` -/
def fromNat (n : Nat) : VInt := if n = 0 then zero else ⟨.plus, n⟩

def neg (x : VInt) : VInt := ⟨x.sign.neg, x.mag⟩

end VInt

/-- `Ord::cmp` on two BigUint values -/
def cmpNat (a b : Nat) : Ordering := if a < b then .lt else if a = b then .eq else .gt

/-! ### BigInt ± unsigned leaf (u32 | u64 | u128) -/

/-- `Add<u32|u64|u128> for BigInt` -/
def iAddU (t : STy) (a : VInt) (u : Nat) : Except Panic VInt :=
  match a.sign with
  | .nosign => .ok (VInt.fromNat u)
  | .plus => .ok (VInt.fromNat (uAddAssign t a.mag u))
  | .minus =>
    match cmpNat a.mag u with
    | .eq => .ok VInt.zero
    | .lt => (uSubRev t u a.mag).map VInt.fromNat
    | .gt => (uSubAssign t a.mag u).map (fun d => (VInt.fromNat d).neg)

/-- `Sub<u32|u64|u128> for BigInt` -/
def iSubU (t : STy) (a : VInt) (u : Nat) : Except Panic VInt :=
  match a.sign with
  | .nosign => .ok (VInt.fromNat u).neg
  | .minus => .ok (VInt.fromNat (uAddAssign t a.mag u)).neg
  | .plus =>
    match cmpNat a.mag u with
    | .eq => .ok VInt.zero
    | .gt => (uSubAssign t a.mag u).map VInt.fromNat
    | .lt => (uSubRev t u a.mag).map (fun d => (VInt.fromNat d).neg)

/-- `Sub<BigInt> for u32|u64|u128`: `-(other - self)` -/
def uSubI (t : STy) (u : Nat) (a : VInt) : Except Panic VInt :=
  (iSubU t a u).map VInt.neg

/-! ### BigInt ± signed leaf (i32 | i64 | i128) through `checked_uabs` -/

/-- `Add<i32|i64|i128> for BigInt` (and `AddAssign`, which matches the same way on `+=`/`-=`) -/
def iAddS (t : STy) (a : VInt) (s : Int) : Except Panic VInt :=
  match checkedUabs t s with
  | .positive u => iAddU t.unsignedOf a u.toNat
  | .negative u => iSubU t.unsignedOf a u.toNat

/-- `Sub<i32|i64|i128> for BigInt` (and `SubAssign`) -/
def iSubS (t : STy) (a : VInt) (s : Int) : Except Panic VInt :=
  match checkedUabs t s with
  | .positive u => iSubU t.unsignedOf a u.toNat
  | .negative u => iAddU t.unsignedOf a u.toNat

/-- `Sub<BigInt> for i32|i64|i128`: `Positive(u) => u - other`, `Negative(u) => -other - u` -/
def sSubI (t : STy) (s : Int) (a : VInt) : Except Panic VInt :=
  match checkedUabs t s with
  | .positive u => uSubI t.unsignedOf u.toNat a
  | .negative u => iSubU t.unsignedOf a.neg u.toNat

/-! ### BigInt * scalar -/

/-- `Mul<u32|u64|u128> for BigInt` -/
def iMulU (t : STy) (a : VInt) (u : Nat) : VInt :=
  VInt.fromBiguint a.sign (uMulAssign t a.mag u)

/-- `MulAssign<u32|u64|u128> for BigInt`: `self.data *= other; if zero { sign = NoSign }` -/
def iMulAssignU (t : STy) (a : VInt) (u : Nat) : VInt :=
  let m := uMulAssign t a.mag u
  if m = 0 then ⟨.nosign, m⟩ else ⟨a.sign, m⟩

/-- `Mul<i32|i64|i128> for BigInt` -/
def iMulS (t : STy) (a : VInt) (s : Int) : VInt :=
  match checkedUabs t s with
  | .positive u => iMulU t.unsignedOf a u.toNat
  | .negative u => iMulU t.unsignedOf a.neg u.toNat

/-- `MulAssign<i32|i64|i128> for BigInt`: the `Negative` arm flips the sign and multiplies the
    magnitude without the zero check -/
def iMulAssignS (t : STy) (a : VInt) (s : Int) : VInt :=
  match checkedUabs t s with
  | .positive u => iMulAssignU t.unsignedOf a u.toNat
  | .negative u => ⟨a.sign.neg, uMulAssign t.unsignedOf a.mag u.toNat⟩

/-! ### BigInt / scalar, scalar / BigInt -/

/-- `Div<u32|u64|u128> for BigInt` -/
def iDivU (t : STy) (a : VInt) (u : Nat) : Except Panic VInt :=
  (uDiv t a.mag u).map (VInt.fromBiguint a.sign)

/-- `DivAssign<u32|u64|u128> for BigInt` -/
def iDivAssignU (t : STy) (a : VInt) (u : Nat) : Except Panic VInt :=
  (uDiv t a.mag u).map (fun m => if m = 0 then ⟨.nosign, m⟩ else ⟨a.sign, m⟩)

/-- `Div<BigInt> for u32|u64|u128` -/
def uDivI (t : STy) (u : Nat) (a : VInt) : Except Panic VInt :=
  (uDivRev t u a.mag).map (VInt.fromBiguint a.sign)

/-- `Div<i32|i64|i128> for BigInt` -/
def iDivS (t : STy) (a : VInt) (s : Int) : Except Panic VInt :=
  match checkedUabs t s with
  | .positive u => iDivU t.unsignedOf a u.toNat
  | .negative u => iDivU t.unsignedOf a.neg u.toNat

/-- `DivAssign<i32|i64|i128> for BigInt` -/
def iDivAssignS (t : STy) (a : VInt) (s : Int) : Except Panic VInt :=
  match checkedUabs t s with
  | .positive u => iDivAssignU t.unsignedOf a u.toNat
  | .negative u => iDivAssignU t.unsignedOf ⟨a.sign.neg, a.mag⟩ u.toNat

/-- `Div<BigInt> for i32|i64|i128`: `Positive(u) => u / other`, `Negative(u) => u / -other` -/
def sDivI (t : STy) (s : Int) (a : VInt) : Except Panic VInt :=
  match checkedUabs t s with
  | .positive u => uDivI t.unsignedOf u.toNat a
  | .negative u => uDivI t.unsignedOf u.toNat a.neg

/-! ### BigInt % scalar, scalar % BigInt -/

/-- `Rem<u32|u64|u128> for BigInt` -/
def iRemU (t : STy) (a : VInt) (u : Nat) : Except Panic VInt :=
  (uRem t a.mag u).map (VInt.fromBiguint a.sign)

/-- `RemAssign<u32|u64|u128> for BigInt` -/
def iRemAssignU (t : STy) (a : VInt) (u : Nat) : Except Panic VInt :=
  (uRem t a.mag u).map (fun m => if m = 0 then ⟨.nosign, m⟩ else ⟨a.sign, m⟩)

/-- `Rem<BigInt> for u32|u64|u128`: `BigInt::from(self % other.data)` -/
def uRemI (t : STy) (u : Nat) (a : VInt) : Except Panic VInt :=
  (uRemRev t u a.mag).map VInt.fromNat

/-- `Rem<i32|i64|i128> for BigInt`: `self % other.unsigned_abs()` -/
def iRemS (t : STy) (a : VInt) (s : Int) : Except Panic VInt :=
  iRemU t.unsignedOf a (unsignedAbs t s).toNat

/-- `RemAssign<i32|i64|i128> for BigInt` -/
def iRemAssignS (t : STy) (a : VInt) (s : Int) : Except Panic VInt :=
  iRemAssignU t.unsignedOf a (unsignedAbs t s).toNat

/-- `Rem<BigInt> for i32|i64|i128`: `Positive(u) => u % other`, `Negative(u) => -(u % other)` -/
def sRemI (t : STy) (s : Int) (a : VInt) : Except Panic VInt :=
  match checkedUabs t s with
  | .positive u => uRemI t.unsignedOf u.toNat a
  | .negative u => (uRemI t.unsignedOf u.toNat a).map VInt.neg

/-! ## the forwarding / promotion layer: operator × position × scalar type → leaf -/

inductive AOp where | add | sub | mul | div | rem
  deriving DecidableEq, Repr

/-- operand position of the scalar: `big ∘ s`, `s ∘ big`, `big ∘= s` -/
inductive SPos where | bigScalar | scalarBig | assign
  deriving DecidableEq, Repr

/-- all BigUint scalar forms (unsigned scalar types only): `promote_unsigned_scalars!` casts
    u8/u16 to u32 and usize to u64, the commutative forwarders swap the operands -/
def uScalarForm (op : AOp) (pos : SPos) (t : STy) (a : Nat) (s : Int) : Except Panic Nat :=
  let p := t.promo
  let v := (castTo p s).toNat
  match op, pos with
  | .add, _ => .ok (uAddAssign p a v)
  | .mul, _ => .ok (uMulAssign p a v)
  | .sub, .scalarBig => uSubRev p v a
  | .sub, _ => uSubAssign p a v
  | .div, .scalarBig => uDivRev p v a
  | .div, _ => uDiv p a v
  | .rem, .scalarBig => uRemRev p v a
  | .rem, _ => uRem p a v

/-- all BigInt scalar forms: `promote_all_scalars!`, then the unsigned or the signed leaf -/
def iScalarForm (op : AOp) (pos : SPos) (t : STy) (a : VInt) (s : Int) : Except Panic VInt :=
  let p := t.promo
  let v := castTo p s
  if p.signed then
    match op, pos with
    | .add, _ => iAddS p a v
    | .sub, .scalarBig => sSubI p v a
    | .sub, _ => iSubS p a v
    | .mul, .assign => .ok (iMulAssignS p a v)
    | .mul, _ => .ok (iMulS p a v)
    | .div, .bigScalar => iDivS p a v
    | .div, .assign => iDivAssignS p a v
    | .div, .scalarBig => sDivI p v a
    | .rem, .bigScalar => iRemS p a v
    | .rem, .assign => iRemAssignS p a v
    | .rem, .scalarBig => sRemI p v a
  else
    match op, pos with
    | .add, _ => iAddU p a v.toNat
    | .sub, .scalarBig => uSubI p v.toNat a
    | .sub, _ => iSubU p a v.toNat
    | .mul, .assign => .ok (iMulAssignU p a v.toNat)
    | .mul, _ => .ok (iMulU p a v.toNat)
    | .div, .bigScalar => iDivU p a v.toNat
    | .div, .assign => iDivAssignU p a v.toNat
    | .div, .scalarBig => uDivI p v.toNat a
    | .rem, .bigScalar => iRemU p a v.toNat
    | .rem, .assign => iRemAssignU p a v.toNat
    | .rem, .scalarBig => uRemI p v.toNat a

/-! ## shifts (src/biguint/shift.rs, src/bigint/shift.rs) -/

/-- `big_digit::BITS` -/
def digitBits : Nat := 64
/-- `usize::MAX + 1` -/
def usizeLim : Int := 18446744073709551616
/-- `u64::MAX + 1` -/
def u64Lim : Int := 18446744073709551616

/-- `biguint_shl(n, shift)` for any of the 12 amount types -/
def uShl (a : Nat) (k : Int) : Except Panic Nat :=
  if k < 0 then .error .negshift
  else if a = 0 then .ok a
  else if k / (digitBits : Int) ≥ usizeLim then .error .capacity   -- `.to_usize().expect("capacity overflow")`
  else .ok (a * 2 ^ k.toNat)

/-- `biguint_shr(n, shift)`: `digits = (shift / bits).to_usize().unwrap_or(usize::MAX)`,
    `biguint_shr2` returns zero when `digits >= n.data.len()` -/
def uShr (a : Nat) (k : Int) : Except Panic Nat :=
  if k < 0 then .error .negshift
  else if a = 0 then .ok a
  else
    let digits : Int := if k / (digitBits : Int) < usizeLim then k / (digitBits : Int) else usizeLim - 1
    if digits ≥ (nd a : Int) then .ok 0
    else .ok (a / 2 ^ k.toNat)

/-- number of trailing zero bits of a non-zero value (`trailing_zeros().expect(..)`) -/
def tz (m : Nat) : Nat :=
  if h : m = 0 then 0 else if m % 2 = 1 then 0 else tz (m / 2) + 1
decreasing_by omega

/-- `shr_round_down` -/
def shrRoundDown (a : VInt) (k : Int) : Bool :=
  if a.sign = .minus then
    decide (k > 0) && (if k < u64Lim then decide ((tz a.mag : Int) < k) else true)
  else false

/-- `Shl<T> for BigInt` -/
def iShl (a : VInt) (k : Int) : Except Panic VInt :=
  (uShl a.mag k).map (VInt.fromBiguint a.sign)

/-- `ShlAssign<T> for BigInt`: `self.data <<= rhs` (sign untouched) -/
def iShlAssign (a : VInt) (k : Int) : Except Panic VInt :=
  (uShl a.mag k).map (fun m => ⟨a.sign, m⟩)

/-- `Shr<T> for BigInt` (`data + 1u8` is `Add<u8>` → promoted to the `u32` leaf) -/
def iShr (a : VInt) (k : Int) : Except Panic VInt :=
  let rd := shrRoundDown a k
  (uShr a.mag k).map (fun d => VInt.fromBiguint a.sign (if rd then uAddAssign .u32 d 1 else d))

/-- `ShrAssign<T> for BigInt` -/
def iShrAssign (a : VInt) (k : Int) : Except Panic VInt :=
  let rd := shrRoundDown a k
  (uShr a.mag k).map (fun d =>
    if rd then ⟨a.sign, uAddAssign .u32 d 1⟩
    else if d = 0 then ⟨.nosign, d⟩ else ⟨a.sign, d⟩)

/-! ## powers (src/biguint/power.rs, src/bigint/power.rs) -/

/-- first loop of `Pow<$T> for BigUint`: `while exp & 1 == 0 { base = &base * &base; exp >>= 1 }` -/
def powStrip (base exp : Nat) : Nat × Nat :=
  if h : exp ≠ 0 ∧ exp % 2 = 0 then powStrip (base * base) (exp / 2) else (base, exp)
decreasing_by omega

/-- second loop: `while exp > 1 { exp >>= 1; base = &base * &base; if exp & 1 == 1 { acc *= &base } }` -/
def powAcc (base exp acc : Nat) : Nat :=
  if h : exp > 1 then
    let exp' := exp / 2
    let base' := base * base
    powAcc base' exp' (if exp' % 2 = 1 then acc * base' else acc)
  else acc
decreasing_by omega

/-- `Pow<$T> for BigUint` ($T = u8 … u128, usize) -/
def powPrim (x e : Nat) : Nat :=
  if e = 0 then 1
  else
    let r := powStrip x e
    if r.2 = 1 then r.1 else powAcc r.1 r.2 r.1

/-- `Pow<&BigUint> for BigUint` / `for &BigUint` -/
def uPowBig (x e : Nat) : Except Panic Nat :=
  if x = 1 ∨ e = 0 then .ok 1
  else if x = 0 then .ok 0
  else if (e : Int) < u64Lim then .ok (powPrim x e)           -- exp.to_u64()
  else if e < 340282366920938463463374607431768211456 then .ok (powPrim x e)   -- exp.to_u128()
  else .error .capacity                                       -- panic!("memory overflow")

/-- `powsign` -/
def powsign (s : Sign) (e : Nat) : Sign :=
  if e = 0 then .plus else if s ≠ .minus ∨ e % 2 = 1 then s else s.neg

/-- `Pow<$T> for BigInt` -/
def iPow (a : VInt) (e : Nat) : VInt := VInt.fromBiguint (powsign a.sign e) (powPrim a.mag e)

/-- `Pow<&BigUint> for BigInt` -/
def iPowBig (a : VInt) (e : Nat) : Except Panic VInt :=
  (uPowBig a.mag e).map (VInt.fromBiguint (powsign a.sign e))

/-! ## Sum / Product (`impl_sum_iter_type!`, `impl_product_iter_type!`) -/

/-- `iter.fold(Self::ZERO, <BigUint>::add)` -/
def uSum (xs : List Nat) : Nat := xs.foldl (fun acc x => acc + x) 0
/-- `iter.fold(One::one(), <BigUint>::mul)` -/
def uProduct (xs : List Nat) : Nat := xs.foldl (fun acc x => acc * x) 1

/-- canonical value-level BigInt `+` and `*` (ref/ref), used by the folds -/
def VInt.add (a b : VInt) : VInt := VInt.ofInt (a.val + b.val)
def VInt.mul (a b : VInt) : VInt := VInt.fromBiguint (a.sign.mul b.sign) (a.mag * b.mag)

def iSum (xs : List VInt) : VInt := xs.foldl VInt.add VInt.zero
def iProduct (xs : List VInt) : VInt := xs.foldl VInt.mul ⟨.plus, 1⟩


/-! ## digit-level versions of the BigUint ± scalar leaves (64-bit arms of `cfg_digit!`)

These are the same impls as `uAddAssign` / `uSubAssign` / `uSubRev` one layer down: the scalar is
split into the digit slice `&[s]` or `&[lo, hi]`, the big operand is padded with zero digits
(`while self.data.len() < 2 { push(0) }`), and the slice routines of NB.Model.AddSub (`__add2`,
`sub2`, `sub2rev`) do the work.  NB.Props.C10 proves that they compute the value-level leaves
(`dAddAssign_spec`, `dSubAssign_spec`, `dSubRev_spec`), which justifies the value-level layering
for + and −. -/

/-- `while data.len() < n { data.push(0) }` -/
def padToN (n : Nat) (a : List Nat) : List Nat := a ++ List.replicate (n - a.length) 0

/-- `AddAssign<u32>` / `AddAssign<u64>` (one digit) -/
def dAddAssign1 (P : Params) (a : List Nat) (s : Nat) : List Nat :=
  if s ≠ 0 then
    let a' := if a = [] then [0] else a           -- `if self.data.is_empty() { self.data.push(0) }`
    let r := add2c P a' [s]
    if r.2 ≠ 0 then r.1 ++ [r.2] else r.1
  else a

/-- `AddAssign<u32|u64|u128> for BigUint` on digits -/
def dAddAssign (t : STy) (P : Params) (a : List Nat) (s : Nat) : List Nat :=
  match t with
  | .u128 =>
    let hi := s / B; let lo := s % B
    if hi = 0 then dAddAssign1 P a lo
    else
      let r := add2c P (padToN 2 a) [lo, hi]
      if r.2 ≠ 0 then r.1 ++ [r.2] else r.1
  | _ => dAddAssign1 P a s

/-- `SubAssign<u32|u64|u128> for BigUint` on digits -/
def dSubAssign (t : STy) (P : Params) (a : List Nat) (s : Nat) : Except Panic (List Nat) :=
  match t with
  | .u128 => (sub2 P a [s % B, s / B]).map normalize
  | _ => (sub2 P a [s]).map normalize

/-- `Sub<BigUint> for u32|u64|u128` on digits (the big operand's buffer receives the result) -/
def dSubRev (t : STy) (s : Nat) (a : List Nat) : Except Panic (List Nat) :=
  match t with
  | .u128 => (sub2rev [s % B, s / B] (padToN 2 a)).map normalize
  | _ =>
    if a = [] then .ok (normalize [s])             -- `other.data.push(self); other.normalized()`
    else (sub2rev [s] a).map normalize

end NB
