/- helper lemmas for C08, integer side: casts, the num-traits range macros, the `to_u64`/`to_u128`
   digit walks, the `From<u64>`/`From<u128>` digit loops -/
import NB.Lemmas.Base
import NB.Lemmas.Canon
import NB.Model.Convert
namespace NB.Conv
open NB

/-- `x as T` is the identity on values of `T` -/
theorem asCast_of_inRange (t : PTy) (x : Int) (h : t.InRange x) : asCast t x = x := by
  cases t <;>
    simp [PTy.InRange, PTy.minV, PTy.maxV, PTy.signed, PTy.bits] at h <;>
    simp [asCast, PTy.signed, PTy.bits] <;> omega

/-- `x as T` always lands in `T` -/
theorem asCast_inRange (t : PTy) (x : Int) : t.InRange (asCast t x) := by
  cases t <;>
    simp [asCast, PTy.InRange, PTy.minV, PTy.maxV, PTy.signed, PTy.bits] <;>
    (try omega) <;> (split <;> omega)

set_option maxRecDepth 4000 in
/-- all 144 instances of num-traits' `impl_to_primitive_{int,uint}_to_{int,uint}!`:
    `Src::to_dst(x)` is `Some(x)` exactly when `x` fits `Dst` -/
theorem primTo_spec (src dst : PTy) (x : Int) (h : src.InRange x) :
    primTo src dst x = if dst.InRange x then some x else none := by
  cases src <;> cases dst <;>
    simp [PTy.InRange, PTy.minV, PTy.maxV, PTy.signed, PTy.bits] at h <;>
    simp [primTo, asCast, PTy.InRange, PTy.minV, PTy.maxV, PTy.signed, PTy.bits] <;>
    (try omega) <;> (split <;> simp <;> omega)

theorem ok_bind {α β} (a : α) (f : α → Except Panic β) : (Except.ok a >>= f) = f a := rfl

/-- range-checked option -/
def fitOpt (t : PTy) (v : Int) : Option Int := if t.InRange v then some v else none

theorem fitOpt_bind (a t : PTy) (v : Int) (hsub : t.InRange v → a.InRange v) :
    (fitOpt a v).bind (primTo a t) = fitOpt t v := by
  unfold fitOpt
  by_cases ha : a.InRange v
  · simp only [ha, if_true, Option.bind_some]; exact primTo_spec a t v ha
  · have : ¬ t.InRange v := fun h => ha (hsub h)
    simp [ha, this]

/-! ### canonical digit lists and their length -/

theorem B_eq_pow : B = 2 ^ 64 := by decide

theorem canon_len_le_one {x : List Nat} (h : Canon x) : x.length ≤ 1 ↔ val x < B := by
  constructor
  · intro hl
    have := val_lt h.1
    calc val x < B ^ x.length := this
      _ ≤ B ^ 1 := Nat.pow_le_pow_right B_pos hl
      _ = B := by simp
  · intro hv
    by_contra hl
    have hne : x ≠ [] := by intro e; subst e; simp at hl
    have := canon_val_ge h hne
    have : B ^ 1 ≤ B ^ (x.length - 1) := Nat.pow_le_pow_right B_pos (by omega)
    simp at this; omega

theorem canon_len_le_two {x : List Nat} (h : Canon x) : x.length ≤ 2 ↔ val x < B ^ 2 := by
  constructor
  · intro hl
    have := val_lt h.1
    calc val x < B ^ x.length := this
      _ ≤ B ^ 2 := Nat.pow_le_pow_right B_pos hl
  · intro hv
    by_contra hl
    have hne : x ≠ [] := by intro e; subst e; simp at hl
    have := canon_val_ge h hne
    have : B ^ 2 ≤ B ^ (x.length - 1) := Nat.pow_le_pow_right B_pos (by omega)
    omega

/-! ### the digit walks -/

theorem shl0_mod {d k : Nat} (hd : d < 2 ^ k) : (d <<< 0) % 2 ^ k = d := by
  rw [Nat.shiftLeft_zero]; exact Nat.mod_eq_of_lt hd

theorem digit_lt {d : Nat} {r : List Nat} (h : DigitsOk (d :: r)) : d < 2 ^ 64 := by
  have := h.head; rwa [B_eq_pow] at this

/-- `BigUint::to_u64` never trips the `+=` overflow check and returns the value iff it is one digit -/
theorem toU64_spec {x : List Nat} (h : Canon x) :
    U.toU64 x = .ok (if val x < 2 ^ 64 then some (val x) else none) := by
  have hl := canon_len_le_one h
  rw [B_eq_pow] at hl
  unfold U.toU64
  match x, h, hl with
  | [], _, _ =>
    have : val [] < 2 ^ 64 := by simp [val]
    rw [if_pos this]; rfl
  | [d], h, hl =>
    have hd : d < 2 ^ 64 := digit_lt h.1
    have hv : val [d] = d := by simp [val]
    have hlt : val [d] < 2 ^ 64 := hl.mp (by simp)
    have hno : ¬ (0 + (d <<< 0) % 2 ^ 64 ≥ 2 ^ 64) := by rw [shl0_mod hd]; omega
    have h0 : ¬ (0 ≥ 64) := by omega
    rw [if_pos hlt, hv]
    unfold toU64Loop
    rw [if_neg h0]
    dsimp only
    rw [if_neg hno, shl0_mod hd, Nat.zero_add]
    rfl
  | d :: e :: r, h, hl =>
    have hd : d < 2 ^ 64 := digit_lt h.1
    have hnot : ¬ val (d :: e :: r) < 2 ^ 64 := fun hv => by
      have := hl.mpr hv; simp at this
    have hno : ¬ (0 + (d <<< 0) % 2 ^ 64 ≥ 2 ^ 64) := by rw [shl0_mod hd]; omega
    have h0 : ¬ (0 ≥ 64) := by omega
    rw [if_neg hnot]
    unfold toU64Loop
    rw [if_neg h0]
    dsimp only
    rw [if_neg hno]
    unfold toU64Loop
    have h1 : 0 + digitBits ≥ 64 := by decide
    rw [if_pos h1]

/-- `BigUint::to_u128` returns the value iff it has at most two digits -/
theorem toU128_spec {x : List Nat} (h : Canon x) :
    U.toU128 x = if val x < 2 ^ 128 then some (val x) else none := by
  have hl := canon_len_le_two h
  have hB2 : B ^ 2 = 2 ^ 128 := by decide
  rw [hB2] at hl
  unfold U.toU128
  match x, h, hl with
  | [], _, _ =>
    have : val [] < 2 ^ 128 := by simp [val]
    rw [if_pos this]; rfl
  | [d], h, hl =>
    have hd : d < 2 ^ 64 := digit_lt h.1
    have hd' : d < 2 ^ 128 := by omega
    have hlt : val [d] < 2 ^ 128 := hl.mp (by simp)
    have hv : val [d] = d := by simp [val]
    have h0 : ¬ (0 ≥ 128) := by omega
    rw [if_pos hlt, hv]
    unfold toU128Loop
    rw [if_neg h0, shl0_mod hd', Nat.zero_or]
    rfl
  | [d, c], h, hl =>
    have hd : d < 2 ^ 64 := digit_lt h.1
    have hd' : d < 2 ^ 128 := by omega
    have hc : c < 2 ^ 64 := digit_lt h.1.tail
    have hlt : val [d, c] < 2 ^ 128 := hl.mp (by simp)
    have e2 : (c <<< (0 + digitBits)) % 2 ^ 128 = c <<< 64 := by
      apply Nat.mod_eq_of_lt; show c <<< 64 < 2 ^ 128; rw [Nat.shiftLeft_eq]; omega
    have e3 : d ||| c <<< 64 = c <<< 64 + d := by
      rw [Nat.or_comm]; exact (Nat.shiftLeft_add_eq_or_of_lt hd c).symm
    have hv : val [d, c] = c <<< 64 + d := by
      simp only [val, Nat.shiftLeft_eq, B_eq_pow]; omega
    have h0 : ¬ (0 ≥ 128) := by omega
    have h1 : ¬ (0 + digitBits ≥ 128) := by decide
    rw [if_pos hlt, hv]
    unfold toU128Loop
    rw [if_neg h0, shl0_mod hd', Nat.zero_or]
    unfold toU128Loop
    rw [if_neg h1, e2, e3]
    rfl
  | d :: c :: b :: r, h, hl =>
    have hnot : ¬ val (d :: c :: b :: r) < 2 ^ 128 := fun hv => by
      have := hl.mpr hv; simp at this
    have h0 : ¬ (0 ≥ 128) := by omega
    have h1 : ¬ (0 + digitBits ≥ 128) := by decide
    have h2 : 0 + digitBits + digitBits ≥ 128 := by decide
    rw [if_neg hnot]
    unfold toU128Loop
    rw [if_neg h0]
    unfold toU128Loop
    rw [if_neg h1]
    unfold toU128Loop
    rw [if_pos h2]

/-! ### `From<u64>` / `From<u128>` digit loops -/

theorem fromU64_eq_ofNat (n : Nat) : U.fromU64 n = ofNat n := by
  induction n using Nat.strongRecOn with
  | _ n ih =>
    unfold U.fromU64 ofNat
    by_cases h : n = 0
    · simp [h]
    · simp only [h, dite_false]
      have e : n / 2 / 2 ^ (digitBits - 1) = n / B := by
        rw [Nat.div_div_eq_div_mul]; rfl
      rw [e, ih (n / B) (Nat.div_lt_self (Nat.pos_of_ne_zero h) (by decide))]

theorem fromU128_eq_ofNat (n : Nat) : U.fromU128 n = ofNat n := by
  induction n using Nat.strongRecOn with
  | _ n ih =>
    unfold U.fromU128 ofNat
    by_cases h : n = 0
    · simp [h]
    · simp only [h, dite_false]
      have e : n / 2 ^ digitBits = n / B := rfl
      rw [e, ih (n / B) (Nat.div_lt_self (Nat.pos_of_ne_zero h) (by decide))]

theorem ofNat_zero : ofNat 0 = [] := by unfold ofNat; simp
theorem ofNat_one : ofNat 1 = [1] := by
  unfold ofNat
  have h1 : (1 : Nat) % B = 1 := by decide
  have h2 : (1 : Nat) / B = 0 := by decide
  simp [h1, h2, ofNat_zero]


end NB.Conv
