/- helper lemmas for the C07 shift routines -/
import NB.Lemmas.Bits
import NB.Model.Shift
namespace NB.C07

theorem or_disjoint {k x : Nat} (t : Nat) (hx : x < 2 ^ k) : x ||| (2 ^ k * t) = x + 2 ^ k * t := by
  have := or_block (k := k) (d := x) (e := 0) 0 t hx (Nat.pow_pos (by decide))
  simpa using this

theorem or_disjoint' {k x : Nat} (t : Nat) (hx : x < 2 ^ k) : (2 ^ k * t) ||| x = 2 ^ k * t + x := by
  rw [Nat.lor_comm, or_disjoint t hx, Nat.add_comm]

theorem B_split {s : Nat} (hs : s ≤ BITS) : B = 2 ^ (BITS - s) * 2 ^ s := by
  rw [B_eq_bits, ← Nat.pow_add]; congr 1; omega

/-- one step of the `biguint_shl2` loop -/
theorem shl_digit {s e carry : Nat} (hs : s < BITS) (he : e < B) (hc : carry < 2 ^ s) :
    (((e <<< s) % B) ||| carry) + B * (e >>> (BITS - s)) = e * 2 ^ s + carry ∧
    (((e <<< s) % B) ||| carry) < B ∧ e >>> (BITS - s) < 2 ^ s := by
  have hB := B_split (Nat.le_of_lt hs)
  generalize hQ : 2 ^ (BITS - s) = Q at hB
  have hQpos : 0 < Q := by rw [← hQ]; exact Nat.pow_pos (by decide)
  have hSpos : 0 < 2 ^ s := Nat.pow_pos (by decide)
  rw [Nat.shiftLeft_eq, Nat.shiftRight_eq_div_pow, hQ]
  have e1 : (e * 2 ^ s) % B = 2 ^ s * (e % Q) := by
    rw [hB, Nat.mul_mod_mul_right, Nat.mul_comm]
  rw [e1, or_disjoint' _ hc]
  have hmod : e % Q < Q := Nat.mod_lt _ hQpos
  have hdm := Nat.mod_add_div e Q
  refine ⟨?_, ?_, ?_⟩
  · rw [hB]
    calc 2 ^ s * (e % Q) + carry + Q * 2 ^ s * (e / Q)
        = (e % Q + Q * (e / Q)) * 2 ^ s + carry := by ring
      _ = e * 2 ^ s + carry := by rw [hdm]
  · rw [hB]
    have : 2 ^ s * (e % Q) + 2 ^ s ≤ 2 ^ s * Q := by
      have := Nat.mul_le_mul_left (2 ^ s) (Nat.succ_le_of_lt hmod)
      rw [Nat.mul_succ] at this; exact this
    calc 2 ^ s * (e % Q) + carry < 2 ^ s * (e % Q) + 2 ^ s := by omega
      _ ≤ 2 ^ s * Q := this
      _ = Q * 2 ^ s := Nat.mul_comm _ _
  · rw [Nat.div_lt_iff_lt_mul hQpos, Nat.mul_comm, ← hB]; exact he

theorem shlLoop_spec {s : Nat} (hs : s < BITS) :
    ∀ (ds : List Nat) (carry : Nat), DigitsOk ds → carry < 2 ^ s →
    val (shlLoop s carry ds).1 + B ^ ds.length * (shlLoop s carry ds).2 = val ds * 2 ^ s + carry ∧
    (shlLoop s carry ds).1.length = ds.length ∧ DigitsOk (shlLoop s carry ds).1 ∧
    (shlLoop s carry ds).2 < 2 ^ s := by
  intro ds
  induction ds with
  | nil => intro carry _ hc; simp [shlLoop, val, hc, DigitsOk.nil]
  | cons e es ih =>
    intro carry hd hc
    obtain ⟨h1, h2, h3⟩ := shl_digit hs hd.head hc
    obtain ⟨i1, i2, i3, i4⟩ := ih (e >>> (BITS - s)) hd.tail h3
    simp only [shlLoop, val_cons, List.length_cons, pow_succ]
    refine ⟨?_, by rw [i2], DigitsOk.cons h2 i3, i4⟩
    generalize (shlLoop s (e >>> (BITS - s)) es) = r at *
    generalize ((e <<< s) % B ||| carry) = e' at *
    generalize (e >>> (BITS - s)) = nc at *
    calc e' + B * val r.1 + B ^ es.length * B * r.2
        = e' + B * (val r.1 + B ^ es.length * r.2) := by ring
      _ = e' + B * (val es * 2 ^ s + nc) := by rw [i1]
      _ = (e' + B * nc) + B * val es * 2 ^ s := by ring
      _ = (e + B * val es) * 2 ^ s + carry := by rw [h1]; ring



/-- one step of the `biguint_shr2` loop: `bo = 2^(64-s) * t` is the borrow from the digit above -/
theorem shr_digit {s e t : Nat} (hs : s < BITS) (he : e < B) (ht : t < 2 ^ s) :
    B * ((e >>> s) ||| (2 ^ (BITS - s) * t)) + (e <<< (BITS - s)) % B
      = 2 ^ (BITS - s) * e + B * (2 ^ (BITS - s) * t) ∧
    ((e >>> s) ||| (2 ^ (BITS - s) * t)) < B ∧
    (e <<< (BITS - s)) % B = 2 ^ (BITS - s) * (e % 2 ^ s) := by
  have hB := B_split (Nat.le_of_lt hs)
  generalize hQ : 2 ^ (BITS - s) = Q at *
  have hQpos : 0 < Q := by rw [← hQ]; exact Nat.pow_pos (by decide)
  have hSpos : 0 < 2 ^ s := Nat.pow_pos (by decide)
  have hlt : e >>> s < Q := by
    rw [Nat.shiftRight_eq_div_pow, Nat.div_lt_iff_lt_mul hSpos, ← hB]; exact he
  have e1 : (e <<< (BITS - s)) % B = Q * (e % 2 ^ s) := by
    rw [Nat.shiftLeft_eq, hQ, hB, Nat.mul_comm e Q, Nat.mul_mod_mul_left]
  have hor : (e >>> s) ||| (Q * t) = e >>> s + Q * t := by
    rw [← hQ]; rw [← hQ] at hlt; exact or_disjoint t hlt
  rw [hor, e1]
  rw [Nat.shiftRight_eq_div_pow] at hlt ⊢
  have hdm := Nat.mod_add_div e (2 ^ s)
  refine ⟨?_, ?_, rfl⟩
  · calc B * (e / 2 ^ s + Q * t) + Q * (e % 2 ^ s)
        = Q * 2 ^ s * (e / 2 ^ s) + Q * (e % 2 ^ s) + B * (Q * t) := by rw [hB]; ring
      _ = Q * (e % 2 ^ s + 2 ^ s * (e / 2 ^ s)) + B * (Q * t) := by ring
      _ = Q * e + B * (Q * t) := by rw [hdm]
  · rw [hB]
    have h1 : Q * t + Q ≤ Q * 2 ^ s := by
      have := Nat.mul_le_mul_left Q (Nat.succ_le_of_lt ht)
      rw [Nat.mul_succ] at this; exact this
    omega

theorem shrLoop_spec {s : Nat} (hs : s < BITS) :
    ∀ (ds : List Nat), DigitsOk ds →
    B * val (shrLoop s ds).1 + (shrLoop s ds).2 = 2 ^ (BITS - s) * val ds ∧
    (shrLoop s ds).1.length = ds.length ∧ DigitsOk (shrLoop s ds).1 ∧
    (∃ t, t < 2 ^ s ∧ (shrLoop s ds).2 = 2 ^ (BITS - s) * t) := by
  intro ds
  induction ds with
  | nil => intro _; simp [shrLoop, val, DigitsOk.nil]
  | cons e es ih =>
    intro hd
    obtain ⟨i1, i2, i3, t, ht, i4⟩ := ih hd.tail
    obtain ⟨h1, h2, h3⟩ := shr_digit hs hd.head ht
    simp only [shrLoop, val_cons, List.length_cons]
    rw [i4]
    refine ⟨?_, by rw [i2], DigitsOk.cons h2 i3, e % 2 ^ s, Nat.mod_lt _ (Nat.pow_pos (by decide)), h3⟩
    rw [i4] at i1
    generalize (shrLoop s es).1 = r at *
    generalize ((e >>> s) ||| (2 ^ (BITS - s) * t)) = e' at *
    generalize ((e <<< (BITS - s)) % B) = bo at *
    generalize 2 ^ (BITS - s) = Q at *
    calc B * (e' + B * val r) + bo = (B * e' + bo) + B * (B * val r) := by ring
      _ = Q * e + B * (Q * t) + B * (B * val r) := by rw [h1]
      _ = Q * e + B * (B * val r + Q * t) := by ring
      _ = Q * (e + B * val es) := by rw [i1]; ring

/-- the value after the `shr2` loop is the floor quotient -/
theorem shrLoop_val {s : Nat} (_hs0 : 0 < s) (hs : s < BITS) (ds : List Nat) (hd : DigitsOk ds) :
    val (shrLoop s ds).1 = val ds / 2 ^ s := by
  obtain ⟨h1, _, _, t, ht, h4⟩ := shrLoop_spec hs ds hd
  have hB := B_split (Nat.le_of_lt hs)
  rw [h4] at h1
  generalize 2 ^ (BITS - s) = Q at *
  have hQpos : 0 < Q := by
    rcases Nat.eq_zero_or_pos Q with h | h
    · subst h; simp at hB; exact absurd hB (by decide)
    · exact h
  have : 2 ^ s * val (shrLoop s ds).1 + t = val ds := by
    apply Nat.eq_of_mul_eq_mul_left hQpos
    rw [← h1, hB]; ring
  rw [← this, Nat.add_comm, Nat.add_mul_div_left _ _ (Nat.pow_pos (by decide)), Nat.div_eq_of_lt ht]
  simp


theorem shl2_spec (n : List Nat) (digits s : Nat) (hn : DigitsOk n) (hs : s < BITS) :
    val (biguintShl2 n digits s) = val n * 2 ^ (BITS * digits + s) ∧ Canon (biguintShl2 n digits s) := by
  have hdata : (if digits = 0 then n else List.replicate digits 0 ++ n) = List.replicate digits 0 ++ n := by
    by_cases h : digits = 0 <;> simp [h]
  unfold biguintShl2
  simp only [hdata]
  have hz : DigitsOk (List.replicate digits 0) := digitsOk_replicate (by decide)
  have hpow : val n * 2 ^ (BITS * digits + s) = B ^ digits * (val n * 2 ^ s) := by
    rw [B_pow, Nat.pow_add]; ring
  by_cases h0 : s > 0
  · simp only [h0, if_true]
    have e1 : (List.replicate digits 0 ++ n).drop digits = n := by simp
    have e2 : (List.replicate digits 0 ++ n).take digits = List.replicate digits 0 := by simp
    rw [e1, e2]
    obtain ⟨l1, l2, l3, l4⟩ := shlLoop_spec hs n 0 hn (Nat.pow_pos (by decide))
    generalize shlLoop s 0 n = r at *
    have hcB : r.2 < B := Nat.lt_trans l4 (by
      rw [B_eq_bits]; exact Nat.pow_lt_pow_right (by decide) hs)
    by_cases hc : r.2 = 0
    · simp only [hc, ne_eq, not_true_eq_false, if_false]
      refine ⟨?_, normalize_canon (hz.append l3)⟩
      rw [normalize_val, val_append, val_replicate_zero, List.length_replicate, hpow]
      rw [hc] at l1; simp at l1; rw [l1]; simp
    · simp only [hc, ne_eq, not_false_eq_true, if_true]
      refine ⟨?_, normalize_canon ((hz.append l3).append (DigitsOk.cons hcB DigitsOk.nil))⟩
      rw [normalize_val, List.append_assoc, val_append, val_replicate_zero, List.length_replicate, val_append, l2, hpow]
      simp only [val, Nat.mul_zero, Nat.add_zero, Nat.zero_add]
      rw [l1]; simp
  · have hs0 : s = 0 := by omega
    subst hs0
    simp only [Nat.lt_irrefl, if_false]
    refine ⟨?_, normalize_canon (hz.append hn)⟩
    rw [normalize_val, val_append, val_replicate_zero, List.length_replicate, hpow]; simp

theorem shr2_spec (n : List Nat) (digits s : Nat) (hn : DigitsOk n) (hs : s < BITS) :
    val (biguintShr2 n digits s) = val n / 2 ^ (BITS * digits + s) ∧ Canon (biguintShr2 n digits s) := by
  unfold biguintShr2
  by_cases hge : digits ≥ n.length
  · simp only [hge, if_true]
    refine ⟨?_, canon_nil⟩
    have h1 := val_lt hn
    have : val n < 2 ^ (BITS * digits + s) := by
      calc val n < B ^ n.length := h1
        _ ≤ B ^ digits := Nat.pow_le_pow_right B_pos hge
        _ = 2 ^ (BITS * digits) := B_pow _
        _ ≤ 2 ^ (BITS * digits + s) := Nat.pow_le_pow_right (by decide) (by omega)
    rw [Nat.div_eq_of_lt this]; rfl
  · simp only [hge, if_false]
    have hsplit := val_take_drop n digits (by omega)
    have hlo := val_lt (hn.take digits)
    rw [List.length_take, Nat.min_eq_left (by omega)] at hlo
    have hdiv : val n / 2 ^ (BITS * digits + s) = val (n.drop digits) / 2 ^ s := by
      rw [Nat.pow_add, ← Nat.div_div_eq_div_mul, ← B_pow, hsplit,
        Nat.add_mul_div_left _ _ (Nat.pow_pos B_pos), Nat.div_eq_of_lt hlo]
      simp
    rw [hdiv]
    by_cases h0 : s > 0
    · simp only [h0, if_true]
      have := shrLoop_spec hs (n.drop digits) (hn.drop _)
      refine ⟨?_, normalize_canon this.2.2.1⟩
      rw [normalize_val, shrLoop_val h0 hs _ (hn.drop _)]
    · have hs0 : s = 0 := by omega
      subst hs0
      simp only [Nat.lt_irrefl, if_false]
      exact ⟨by rw [normalize_val]; simp, normalize_canon (hn.drop _)⟩

end NB.C07
