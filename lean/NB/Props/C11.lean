/-
  C11 — Integer roots are the exact floor roots, independent of float initial guesses.

  Model: NB.Model.Roots (value-level transcription of `fixpoint`, `nth_root`, `sqrt`, `cbrt` of
  src/biguint.rs and of `impl Roots for BigInt`, correspondence-checked against the crate on every
  run).  The initial guess is supplied by a *guess source* `S`; every theorem below holds for every
  source whose guesses are `≥ 1` (`SqrtOk/CbrtOk/NthOk`), which covers
    * `nostdSrc`   — `1 << max_bits`                                   (proved: `nostd_ok`)
    * `stdSrc F d` — float arm / scaled recursive call / fallback      (proved for every float
                      evaluation `F` with `F.Valid` and `d ≥ 2`: `std_ok`)
  so the result cannot depend on the configuration (`root_config_independent`).
  The floor root is Mathlib's `Nat.nthRoot n x`, characterised by `r^n ≤ x < (r+1)^n`.

  Trusted here (see tools/props.py): the u64 fast path (num-integer's primitive roots) is modelled
  by the spec-level bisection `floorRoot`; the float arm is abstract (`F64.Valid`: a finite float
  evaluation gives a guess ≥ 1, `to_f64` is finite below 2^1023); u64 overflow in the bit-count
  arithmetic is not modelled.  With a guess of 0 the code divides by zero (`guess_zero_panics`), so
  `g ≥ 1` is exactly the assumption needed.

  LAYER LINK (last section, theorems `…_D`): NB.Model.RootsD transcribes the same functions on digit
  vectors, every BigUint operator being the digit-level operator model (cmp_slice, bits, `<<`, `>>`,
  div_rem_ref, mulRef/mulAssign inside `pow`, scalar_mul, `+=`, div_rem_digit, to_u64), panics propagated.
  `roots_refine` / `bigint_roots_refine`: for canonical inputs (and `SizeOk`: fewer than 2^64 digits, the
  hypothesis under which `<<` cannot hit "capacity overflow"), every degree `n ≤ 2^64` (all of u32) and all
  parameter records with `P.ValidMul` (`gen_params_valid_mul` for the extracted ones) the digit-level
  functions return `(value-level function of the value).map ofNat` — same panics, canonical digits of the
  same number — for every pair of guess sources related by `SrcRefines`; `nostd_src_refines` and
  `std_src_refines` relate the two configurations' sources.  Hence all statements above transfer:
  `nth_root_spec_D`, `sqrt_spec_D`, `cbrt_spec_D`, `std_root_spec_D`, `nostd_root_spec_D`,
  `root_config_independent_D`, `bigint_*_spec_D`.  The driver's model column runs these `…D` functions.
  Still value-level inside RootsD: num-integer's u64 roots (`floorRoot`), the abstract float evaluation
  (applied to `val x`), the u64 bit-count arithmetic, and the fuel.
-/
import NB.Lemmas.Roots
import NB.Lemmas.RootsD
namespace NB
open NB.Roots NB.IntVal

/-! ### Newton step facts (`F x n s = ((n-1)·s + x / s^(n-1)) / n`) -/

theorem root_F_ge {x n s : Nat} (hn : 1 ≤ n) (hs : 1 ≤ s) : Nat.nthRoot n x ≤ F x n s := F_ge hn hs
theorem root_F_lt {x n s : Nat} (hn : 1 ≤ n) (hs : Nat.nthRoot n x < s) : F x n s < s := F_lt hn hs
theorem root_F_gt {x n s : Nat} (hn : 1 ≤ n) (hs : 1 ≤ s) (hlt : s < Nat.nthRoot n x) : s < F x n s :=
  F_gt hn hs hlt

/-- the saturation bound of `fixpoint` is a strict upper bound of the root: `r < 2^max_bits` -/
theorem root_lt_two_pow_maxBits (x : Nat) {n : Nat} (hn : 1 ≤ n) :
    Nat.nthRoot n x < 2 ^ (bits x / n + 1) := root_lt_maxBits x hn

/-- the three closures are the same Newton step, evaluated without panic on `s ≥ 1` -/
theorem root_step_eval {x n s : Nat} (hn : 1 ≤ n) (hs : 1 ≤ s) :
    stepNth x n s = .ok (F x n s) ∧ stepSqrt x = stepNth x 2 ∧ stepCbrt x = stepNth x 3 :=
  ⟨stepNth_eval hn hs, stepSqrt_eq x, stepCbrt_eq x⟩

/-- the spec-level bisection (model of the u64 fast path, and the driver's oracle) is the floor root -/
theorem floor_root_spec (x : Nat) {n : Nat} (hn : 1 ≤ n) :
    floorRoot x n = Nat.nthRoot n x ∧ floorRoot x n ^ n ≤ x ∧ x < (floorRoot x n + 1) ^ n := by
  rw [floorRoot_eq x hn]
  exact ⟨rfl, Nat.pow_nthRoot_le (.inl (by omega)), Nat.lt_pow_nthRoot_add_one (by omega) x⟩

/-! ### the loop -/

/-- `fixpoint` (both phases, with saturation) for an abstract step: from EVERY guess `g ≥ 1` and with
    EVERY `fuel ≥ fixFuel g max_bits = g + 2^max_bits + 2` it terminates and returns `r`. -/
theorem fixpoint_abstract_spec {f : Nat → Except Panic Nat} {Fn : Nat → Nat} {r mb g fuel : Nat}
    (hN : NewtonOk f Fn r) (hmb : r < 2 ^ mb) (hg : 1 ≤ g) (hfuel : fixFuel g mb ≤ fuel) :
    fixpoint fuel g mb f = .ok r := fixpoint_ok hN hmb hg hfuel

/-- `fixpoint` on the actual closure returns the floor root for every guess ≥ 1 and enough fuel -/
theorem fixpoint_spec {x n g fuel : Nat} (hn : 1 ≤ n) (hx : 1 ≤ x) (hg : 1 ≤ g)
    (hfuel : g + 2 ^ (bits x / n + 1) + 2 ≤ fuel) :
    fixpoint fuel g (bits x / n + 1) (stepNth x n) = .ok (Nat.nthRoot n x) :=
  fixpoint_root hn hx hg hfuel

/-- the hypothesis `g ≥ 1` cannot be dropped: a zero guess divides by zero -/
theorem guess_zero_panics (fuel mb x n : Nat) (hn : 2 ≤ n) : fixpoint fuel 0 mb (stepNth x n) = .error .divzero := by
  unfold fixpoint stepNth
  have : (0 : Nat) ^ (n - 1) = 0 := Nat.zero_pow (by omega)
  simp [this]

/-! ### BigUint roots -/

/-- `nth_root` returns Mathlib's floor root, for EVERY guess source with guesses ≥ 1 -/
theorem nth_root_eq {S : GuessSrc} {x n : Nat} (hn : 1 ≤ n) (h2 : SqrtOk S x) (h3 : CbrtOk S x) (h4 : NthOk S x n) :
    nthRootG S x n = .ok (Nat.nthRoot n x) := nthRootG_ok hn h2 h3 h4

/-- C11 main statement: `n ≥ 1 → r^n ≤ x < (r+1)^n` for EVERY guess -/
theorem nth_root_spec {S : GuessSrc} {x n : Nat} (hn : 1 ≤ n) (h2 : SqrtOk S x) (h3 : CbrtOk S x) (h4 : NthOk S x n) :
    ∃ r, nthRootG S x n = .ok r ∧ r ^ n ≤ x ∧ x < (r + 1) ^ n :=
  ⟨_, nthRootG_ok hn h2 h3 h4, Nat.pow_nthRoot_le (.inl (by omega)), Nat.lt_pow_nthRoot_add_one (by omega) x⟩

/-- the characterisation determines the root -/
theorem nth_root_unique {x n r r' : Nat} (h1 : r ^ n ≤ x) (h2 : x < (r + 1) ^ n)
    (h1' : r' ^ n ≤ x) (h2' : x < (r' + 1) ^ n) : r = r' := by
  rw [← Nat.nthRoot_eq_of_le_of_lt h1 h2, ← Nat.nthRoot_eq_of_le_of_lt h1' h2']

/-- degree 0 is rejected by the assertion, whatever the source -/
theorem nth_root_zero_degree (S : GuessSrc) (x : Nat) : nthRootG S x 0 = .error .zeroroot := by
  simp [nthRootG]

theorem sqrt_spec {S : GuessSrc} {x : Nat} (h : SqrtOk S x) :
    ∃ r, sqrtG S x = .ok r ∧ r * r ≤ x ∧ x < (r + 1) * (r + 1) := by
  refine ⟨_, sqrtG_ok h, ?_, ?_⟩
  · have := Nat.pow_nthRoot_le (n := 2) (a := x) (.inl (by decide)); rwa [pow_two] at this
  · have := Nat.lt_pow_nthRoot_add_one (n := 2) (by decide) x; rwa [pow_two] at this

theorem cbrt_spec {S : GuessSrc} {x : Nat} (h : CbrtOk S x) :
    ∃ r, cbrtG S x = .ok r ∧ r ^ 3 ≤ x ∧ x < (r + 1) ^ 3 :=
  ⟨_, cbrtG_ok h, Nat.pow_nthRoot_le (.inl (by decide)), Nat.lt_pow_nthRoot_add_one (by decide) x⟩

/-- `nth_root(2)` / `nth_root(3)` are `sqrt` / `cbrt` -/
theorem nth_root_dispatch (S : GuessSrc) (x : Nat) (hx : ¬ (x = 0 ∨ x = 1)) :
    nthRootG S x 2 = sqrtG S x ∧ nthRootG S x 3 = cbrtG S x := by
  constructor <;> simp [nthRootG, hx]

/-! ### the three guess sources yield guesses ≥ 1 -/

theorem nostd_guess_ok (x n : Nat) : SqrtOk nostdSrc x ∧ CbrtOk nostdSrc x ∧ NthOk nostdSrc x n := nostd_ok x n

/-- std: float arm (assumed ≥ 1), scaled recursive arm (proved ≥ 1: `scale < bits`, the recursive call
    is on a value that fits f64 and returns its floor root ≥ 1), fallback arm (`2^max_bits`).
    Recursion depth 2 suffices; in particular the `bits - 1023` subtraction never underflows. -/
theorem std_guess_ok {Fl : F64} (hF : Fl.Valid) (d x n : Nat) (hd : 2 ≤ d) (hn : 1 ≤ n) :
    SqrtOk (stdSrc Fl d) x ∧ CbrtOk (stdSrc Fl d) x ∧ NthOk (stdSrc Fl d) x n := by
  obtain ⟨k, rfl⟩ : ∃ k, d = k + 2 := ⟨d - 2, by omega⟩
  exact std_ok hF k x n hn

theorem nostd_root_spec (x n : Nat) (hn : 1 ≤ n) :
    nthRootG nostdSrc x n = .ok (Nat.nthRoot n x) ∧ sqrtG nostdSrc x = .ok (Nat.nthRoot 2 x) ∧
    cbrtG nostdSrc x = .ok (Nat.nthRoot 3 x) := by
  obtain ⟨a, b, c⟩ := nostd_ok x n
  exact ⟨nthRootG_ok hn a b c, sqrtG_ok a, cbrtG_ok b⟩

theorem std_root_spec {Fl : F64} (hF : Fl.Valid) (d x n : Nat) (hd : 2 ≤ d) (hn : 1 ≤ n) :
    nthRootG (stdSrc Fl d) x n = .ok (Nat.nthRoot n x) ∧ sqrtG (stdSrc Fl d) x = .ok (Nat.nthRoot 2 x) ∧
    cbrtG (stdSrc Fl d) x = .ok (Nat.nthRoot 3 x) := by
  obtain ⟨a, b, c⟩ := std_guess_ok hF d x n hd hn
  exact ⟨nthRootG_ok hn a b c, sqrtG_ok a, cbrtG_ok b⟩

/-- the std / no_std clause: both configurations return the same outcome for every x and every n
    (including n = 0, where both panic with the same class) -/
theorem root_config_independent {Fl : F64} (hF : Fl.Valid) (d x n : Nat) (hd : 2 ≤ d) :
    nthRootG (stdSrc Fl d) x n = nthRootG nostdSrc x n ∧ sqrtG (stdSrc Fl d) x = sqrtG nostdSrc x ∧
    cbrtG (stdSrc Fl d) x = cbrtG nostdSrc x := by
  have s1 := std_root_spec hF d x 1 hd (le_refl 1)
  have s2 := nostd_root_spec x 1 (le_refl 1)
  refine ⟨?_, by rw [s1.2.1, s2.2.1], by rw [s1.2.2, s2.2.2]⟩
  by_cases hn : n = 0
  · subst hn; rw [nth_root_zero_degree, nth_root_zero_degree]
  · rw [(std_root_spec hF d x n hd (by omega)).1, (nostd_root_spec x n (by omega)).1]

/-- any two admissible sources agree -/
theorem root_guess_independent {S S' : GuessSrc} {x n : Nat} (hn : 1 ≤ n)
    (h2 : SqrtOk S x) (h3 : CbrtOk S x) (h4 : NthOk S x n) (h2' : SqrtOk S' x) (h3' : CbrtOk S' x) (h4' : NthOk S' x n) :
    nthRootG S x n = nthRootG S' x n := by
  rw [nthRootG_ok hn h2 h3 h4, nthRootG_ok hn h2' h3' h4']

/-! ### BigInt wrappers -/

theorem fromBiguint_signOf (x : Int) (m : Nat) : fromBiguint (signOf x) m = Int.sign x * (m : Int) := by
  unfold fromBiguint signOf
  by_cases h1 : x < 0
  · simp [h1, Int.sign_eq_neg_one_of_neg h1]
  · by_cases h2 : x = 0
    · subst h2; simp
    · have : 0 < x := by omega
      simp [h1, h2, Int.sign_eq_one_of_pos this]

/-- `BigInt::nth_root`: even degree (incl. 0) of a negative value → "imaginary" panic; degree 0 of a
    non-negative value → "zeroroot" panic; otherwise `sign(x) · ⌊|x|^(1/n)⌋` (truncation toward zero) -/
theorem bigint_nth_root_spec {S : GuessSrc} (x : Int) (n : Nat)
    (h2 : SqrtOk S x.natAbs) (h3 : CbrtOk S x.natAbs) (h4 : NthOk S x.natAbs n) :
    bigintNthRoot S x n =
      if x < 0 ∧ n % 2 = 0 then .error .imaginary
      else if n = 0 then .error .zeroroot
      else .ok (Int.sign x * (Nat.nthRoot n x.natAbs : Int)) := by
  unfold bigintNthRoot
  by_cases hi : x < 0 ∧ n % 2 = 0
  · simp only [hi, and_self, if_true]
  · simp only [hi, if_false]
    by_cases hn : n = 0
    · subst hn; simp [nth_root_zero_degree]
    · simp only [hn, if_false, nthRootG_ok (show 1 ≤ n by omega) h2 h3 h4, fromBiguint_signOf]

theorem bigint_sqrt_spec {S : GuessSrc} (x : Int) (h2 : SqrtOk S x.natAbs) :
    bigintSqrt S x = if x < 0 then .error .imaginary else .ok (Nat.nthRoot 2 x.natAbs : Int) := by
  unfold bigintSqrt
  by_cases hi : x < 0
  · simp only [hi, if_true]
  · simp only [hi, if_false, sqrtG_ok h2, fromBiguint_signOf]
    by_cases h0 : x = 0
    · subst h0; simp
    · have : 0 < x := by omega
      simp [Int.sign_eq_one_of_pos this]

theorem bigint_cbrt_spec {S : GuessSrc} (x : Int) (h3 : CbrtOk S x.natAbs) :
    bigintCbrt S x = .ok (Int.sign x * (Nat.nthRoot 3 x.natAbs : Int)) := by
  unfold bigintCbrt
  simp only [cbrtG_ok h3, fromBiguint_signOf]

/-- odd root of a negative value, stated on the integers: `r^n ≥ x > (r-1)^n` with `r ≤ 0` -/
theorem bigint_odd_root_neg {x : Int} {n : Nat} (hx : x < 0) (hn : n % 2 = 1) :
    let r : Int := Int.sign x * (Nat.nthRoot n x.natAbs : Int)
    x ≤ r ^ n ∧ (r - 1) ^ n < x ∧ r ≤ 0 := by
  intro r
  have hodd : Odd n := Nat.odd_iff.mpr hn
  have hr : r = - (Nat.nthRoot n x.natAbs : Int) := by
    show Int.sign x * _ = _
    rw [Int.sign_eq_neg_one_of_neg hx]; ring
  have hxa : x = - (x.natAbs : Int) := by omega
  have h1 : (Nat.nthRoot n x.natAbs) ^ n ≤ x.natAbs := Nat.pow_nthRoot_le (.inl (by omega))
  have h2 : x.natAbs < (Nat.nthRoot n x.natAbs + 1) ^ n := Nat.lt_pow_nthRoot_add_one (by omega) _
  generalize x.natAbs = m at *
  generalize Nat.nthRoot n m = q at *
  have h1' : (q : Int) ^ n ≤ (m : Int) := by exact_mod_cast h1
  have h2' : (m : Int) < ((q : Int) + 1) ^ n := by exact_mod_cast h2
  refine ⟨?_, ?_, by omega⟩
  · rw [hr, Odd.neg_pow hodd, hxa]; omega
  · have e : r - 1 = - ((q : Int) + 1) := by rw [hr]; ring
    rw [e, Odd.neg_pow hodd, hxa]; omega

/-! ### non-vacuity -/

/-- a float evaluation satisfying the assumption: finite exactly below 2^1023, constant guess 1 -/
def exampleF64 : F64 where
  nth := fun x _ => if x < 2 ^ 1023 then some 1 else none
  sqrt := fun x => if x < 2 ^ 1023 then some 1 else none
  cbrt := fun x => if x < 2 ^ 1023 then some 1 else none

theorem exampleF64_valid : exampleF64.Valid where
  nth_pos := by intro x n g h; simp only [exampleF64] at h; split at h <;> simp_all
  nth_none := by intro x n h; simp only [exampleF64] at h; split at h <;> simp_all [f64MaxExp]
  sqrt_pos := by intro x g h; simp only [exampleF64] at h; split at h <;> simp_all
  sqrt_none := by intro x h; simp only [exampleF64] at h; split at h <;> simp_all [f64MaxExp]
  cbrt_pos := by intro x g h; simp only [exampleF64] at h; split at h <;> simp_all
  cbrt_none := by intro x h; simp only [exampleF64] at h; split at h <;> simp_all [f64MaxExp]

example : nthRootG (stdSrc exampleF64 2) (2 ^ 3000 + 12345) 7 = nthRootG nostdSrc (2 ^ 3000 + 12345) 7 :=
  (root_config_independent exampleF64_valid 2 _ 7 (le_refl 2)).1

example : (17 : Nat) ^ 5 ≤ 1500000 ∧ 1500000 < (17 + 1) ^ 5 := by decide

/-! ## Layer link: the digit-level model NB.Model.RootsD refines the value-level model -/

section LayerLink
open NB.RootsD

/-- `s.pow(e)` as coded (`pow_impl!` with digit-level `&base * &base`, `acc *= &base`) -/
theorem pow_digits_spec (P : Params) (hP : P.ValidMul) {s : List Nat} (hs : Canon s) (e : Nat) :
    powRVD P s e = .ok (ofNat (val s ^ e)) := by
  have := powRVD_spec P hP (val s) e
  rwa [← canon_eq_ofNat hs] at this

/-- the three closures on digits compute what the value-level closures compute (same panics) -/
theorem root_steps_refine (P : Params) (hP : P.ValidMul) {x s : List Nat} (hx : Canon x) (hs : Canon s)
    {n : Nat} (hn : n ≤ B) :
    stepNthD P x n s = (stepNth (val x) n (val s)).map ofNat ∧
    stepSqrtD P x s = (stepSqrt (val x) (val s)).map ofNat ∧
    stepCbrtD P x s = (stepCbrt (val x) (val s)).map ofNat := by
  have a := stepNthD_refines P hP (val x) n hn (val s)
  have b := stepSqrtD_refines P (val x) (val s)
  have c := stepCbrtD_refines P hP (val x) (val s)
  rw [← canon_eq_ofNat hx, ← canon_eq_ofNat hs] at a b c
  exact ⟨a, b, c⟩

/-- `fixpoint` on digits = `fixpoint` on values for every closure pair related on canonical digits,
    every fuel and every guess (`max_bits` small enough for `1 << max_bits` not to overflow capacity) -/
theorem fixpoint_refines {fD : List Nat → Except Panic (List Nat)} {f : Nat → Except Panic Nat}
    (hf : ∀ v, fD (ofNat v) = (f v).map ofNat) {g : List Nat} (hg : Canon g) (mb fuel : Nat)
    (hmb : mb / C07.BITS < C07.USIZE_RANGE) :
    fixpointD fuel g mb fD = (fixpoint fuel (val g) mb f).map ofNat := by
  have := fixpointD_refines hf mb hmb fuel (val g)
  rwa [← canon_eq_ofNat hg] at this

/-- `n_min_1 * s + q` and `(s << 1) + q` are `BigUint + BigUint` by value: the Rust forwarding macro
    keeps the operand with the larger `capacity()` and adds the other one to it.  Capacity is not
    modelled (RootsD always keeps the left operand); this is immaterial: either choice yields the
    same digit vector. -/
theorem add_operand_choice_irrelevant (P : Params) {a b : List Nat} (ha : Canon a) (hb : Canon b) :
    addAssign P a b = addAssign P b a := by
  rw [addAssign_spec P a b ha hb, addAssign_spec P b a hb ha, Nat.add_comm]

theorem nostd_src_refines : SrcRefines nostdSrcD nostdSrc := nostd_refines

theorem std_src_refines (P : Params) (hP : P.ValidMul) (Fl : F64) (d : Nat) :
    SrcRefines (stdSrcD P Fl d) (stdSrc Fl d) := std_refines P hP Fl d

/-- **the layer link**: on canonical digits the digit-level root functions return the canonical
    digits of what the value-level functions return, with the same panics -/
theorem roots_refine (P : Params) (hP : P.ValidMul) {SD : GuessSrcD} {S : GuessSrc} (hS : SrcRefines SD S)
    {x : List Nat} (hx : Canon x) (hlen : SizeOk x) {n : Nat} (hn : n ≤ B) :
    nthRootD P SD x n = (nthRootG S (val x) n).map ofNat ∧
    sqrtD P SD x = (sqrtG S (val x)).map ofNat ∧
    cbrtD P SD x = (cbrtG S (val x)).map ofNat :=
  ⟨nthRootD_eq P hP hS hx hlen hn, sqrtD_eq P hP hS hx hlen, cbrtD_eq P hP hS hx hlen⟩

theorem bigint_roots_refine (P : Params) (hP : P.ValidMul) {SD : GuessSrcD} {S : GuessSrc} (hS : SrcRefines SD S)
    {x : BigInt} (hx : x.Canon) (hlen : SizeOk x.mag) {n : Nat} (hn : n ≤ B) :
    bigintNthRootD P SD x n = (bigintNthRoot S x.val n).map BigInt.ofInt ∧
    bigintSqrtD P SD x = (bigintSqrt S x.val).map BigInt.ofInt ∧
    bigintCbrtD P SD x = (bigintCbrt S x.val).map BigInt.ofInt :=
  ⟨bigintNthRootD_eq P hP hS hx hlen hn, bigintSqrtD_eq P hP hS hx hlen, bigintCbrtD_eq P hP hS hx hlen⟩

/-! ### the C11 statements, transferred to the digit-level model -/

theorem nth_root_eq_D (P : Params) (hP : P.ValidMul) {SD : GuessSrcD} {S : GuessSrc} (hS : SrcRefines SD S)
    {x : List Nat} (hx : Canon x) (hlen : SizeOk x) {n : Nat} (hn : 1 ≤ n) (hnB : n ≤ B)
    (h2 : SqrtOk S (val x)) (h3 : CbrtOk S (val x)) (h4 : NthOk S (val x) n) :
    nthRootD P SD x n = .ok (ofNat (Nat.nthRoot n (val x))) := by
  rw [nthRootD_eq P hP hS hx hlen hnB, nthRootG_ok hn h2 h3 h4]; rfl

/-- C11 main statement on digits: `n ≥ 1 → r^n ≤ x < (r+1)^n` for EVERY admissible guess source -/
theorem nth_root_spec_D (P : Params) (hP : P.ValidMul) {SD : GuessSrcD} {S : GuessSrc} (hS : SrcRefines SD S)
    {x : List Nat} (hx : Canon x) (hlen : SizeOk x) {n : Nat} (hn : 1 ≤ n) (hnB : n ≤ B)
    (h2 : SqrtOk S (val x)) (h3 : CbrtOk S (val x)) (h4 : NthOk S (val x) n) :
    ∃ r, nthRootD P SD x n = .ok r ∧ Canon r ∧ val r ^ n ≤ val x ∧ val x < (val r + 1) ^ n := by
  refine ⟨_, nth_root_eq_D P hP hS hx hlen hn hnB h2 h3 h4, ofNat_canon _, ?_, ?_⟩ <;> rw [ofNat_val]
  · exact Nat.pow_nthRoot_le (.inl (by omega))
  · exact Nat.lt_pow_nthRoot_add_one (by omega) _

theorem sqrt_spec_D (P : Params) (hP : P.ValidMul) {SD : GuessSrcD} {S : GuessSrc} (hS : SrcRefines SD S)
    {x : List Nat} (hx : Canon x) (hlen : SizeOk x) (h : SqrtOk S (val x)) :
    ∃ r, sqrtD P SD x = .ok r ∧ Canon r ∧ val r * val r ≤ val x ∧ val x < (val r + 1) * (val r + 1) := by
  refine ⟨ofNat (Nat.nthRoot 2 (val x)), ?_, ofNat_canon _, ?_, ?_⟩
  · rw [sqrtD_eq P hP hS hx hlen, sqrtG_ok h]; rfl
  · rw [ofNat_val]
    have := Nat.pow_nthRoot_le (n := 2) (a := val x) (.inl (by decide)); rwa [pow_two] at this
  · rw [ofNat_val]
    have := Nat.lt_pow_nthRoot_add_one (n := 2) (by decide) (val x); rwa [pow_two] at this

theorem cbrt_spec_D (P : Params) (hP : P.ValidMul) {SD : GuessSrcD} {S : GuessSrc} (hS : SrcRefines SD S)
    {x : List Nat} (hx : Canon x) (hlen : SizeOk x) (h : CbrtOk S (val x)) :
    ∃ r, cbrtD P SD x = .ok r ∧ Canon r ∧ val r ^ 3 ≤ val x ∧ val x < (val r + 1) ^ 3 := by
  refine ⟨ofNat (Nat.nthRoot 3 (val x)), ?_, ofNat_canon _, ?_, ?_⟩
  · rw [cbrtD_eq P hP hS hx hlen, cbrtG_ok h]; rfl
  · rw [ofNat_val]; exact Nat.pow_nthRoot_le (.inl (by decide))
  · rw [ofNat_val]; exact Nat.lt_pow_nthRoot_add_one (by decide) _

/-- degree 0 is rejected by the assertion before anything is computed -/
theorem nth_root_zero_degree_D (P : Params) (SD : GuessSrcD) (x : List Nat) :
    nthRootD P SD x 0 = .error .zeroroot := by
  simp [nthRootD]

/-- no_std configuration on digits: canonical digits of Mathlib's floor root -/
theorem nostd_root_spec_D (P : Params) (hP : P.ValidMul) {x : List Nat} (hx : Canon x) (hlen : SizeOk x)
    {n : Nat} (hn : 1 ≤ n) (hnB : n ≤ B) :
    nthRootD P nostdSrcD x n = .ok (ofNat (Nat.nthRoot n (val x))) ∧
    sqrtD P nostdSrcD x = .ok (ofNat (Nat.nthRoot 2 (val x))) ∧
    cbrtD P nostdSrcD x = .ok (ofNat (Nat.nthRoot 3 (val x))) := by
  obtain ⟨a, b, c⟩ := roots_refine P hP nostd_src_refines hx hlen hnB
  obtain ⟨a', b', c'⟩ := nostd_root_spec (val x) n hn
  rw [a, b, c, a', b', c']; exact ⟨rfl, rfl, rfl⟩

/-- std configuration on digits (float arm abstract: any `Fl` with `Fl.Valid`; recursion depth ≥ 2) -/
theorem std_root_spec_D (P : Params) (hP : P.ValidMul) {Fl : F64} (hF : Fl.Valid) {d : Nat} (hd : 2 ≤ d)
    {x : List Nat} (hx : Canon x) (hlen : SizeOk x) {n : Nat} (hn : 1 ≤ n) (hnB : n ≤ B) :
    nthRootD P (stdSrcD P Fl d) x n = .ok (ofNat (Nat.nthRoot n (val x))) ∧
    sqrtD P (stdSrcD P Fl d) x = .ok (ofNat (Nat.nthRoot 2 (val x))) ∧
    cbrtD P (stdSrcD P Fl d) x = .ok (ofNat (Nat.nthRoot 3 (val x))) := by
  obtain ⟨a, b, c⟩ := roots_refine P hP (std_src_refines P hP Fl d) hx hlen hnB
  obtain ⟨a', b', c'⟩ := std_root_spec hF d (val x) n hd hn
  rw [a, b, c, a', b', c']; exact ⟨rfl, rfl, rfl⟩

/-- the std / no_std clause on digits: both configurations return the same outcome for every
    canonical x and every u32 degree (including 0, where both panic with the same class) -/
theorem root_config_independent_D (P : Params) (hP : P.ValidMul) {Fl : F64} (hF : Fl.Valid) {d : Nat}
    (hd : 2 ≤ d) {x : List Nat} (hx : Canon x) (hlen : SizeOk x) {n : Nat} (hnB : n ≤ B) :
    nthRootD P (stdSrcD P Fl d) x n = nthRootD P nostdSrcD x n ∧
    sqrtD P (stdSrcD P Fl d) x = sqrtD P nostdSrcD x ∧
    cbrtD P (stdSrcD P Fl d) x = cbrtD P nostdSrcD x := by
  obtain ⟨a, b, c⟩ := roots_refine P hP (std_src_refines P hP Fl d) hx hlen hnB
  obtain ⟨a', b', c'⟩ := roots_refine P hP nostd_src_refines hx hlen hnB
  obtain ⟨e1, e2, e3⟩ := root_config_independent hF d (val x) n hd
  rw [a, b, c, a', b', c', e1, e2, e3]; exact ⟨rfl, rfl, rfl⟩

/-- `BigInt::nth_root` on digits -/
theorem bigint_nth_root_spec_D (P : Params) (hP : P.ValidMul) {SD : GuessSrcD} {S : GuessSrc}
    (hS : SrcRefines SD S) {x : BigInt} (hx : x.Canon) (hlen : SizeOk x.mag) {n : Nat} (hnB : n ≤ B)
    (h2 : SqrtOk S x.val.natAbs) (h3 : CbrtOk S x.val.natAbs) (h4 : NthOk S x.val.natAbs n) :
    bigintNthRootD P SD x n =
      if x.val < 0 ∧ n % 2 = 0 then .error .imaginary
      else if n = 0 then .error .zeroroot
      else .ok (BigInt.ofInt (Int.sign x.val * (Nat.nthRoot n x.val.natAbs : Int))) := by
  rw [(bigint_roots_refine P hP hS hx hlen hnB).1, bigint_nth_root_spec x.val n h2 h3 h4]
  split
  · rfl
  · split <;> rfl

theorem bigint_sqrt_spec_D (P : Params) (hP : P.ValidMul) {SD : GuessSrcD} {S : GuessSrc}
    (hS : SrcRefines SD S) {x : BigInt} (hx : x.Canon) (hlen : SizeOk x.mag) (h2 : SqrtOk S x.val.natAbs) :
    bigintSqrtD P SD x =
      if x.val < 0 then .error .imaginary else .ok (BigInt.ofInt (Nat.nthRoot 2 x.val.natAbs : Int)) := by
  rw [(bigint_roots_refine P hP hS hx hlen (n := 2) (by decide)).2.1, bigint_sqrt_spec x.val h2]
  split <;> rfl

theorem bigint_cbrt_spec_D (P : Params) (hP : P.ValidMul) {SD : GuessSrcD} {S : GuessSrc}
    (hS : SrcRefines SD S) {x : BigInt} (hx : x.Canon) (hlen : SizeOk x.mag) (h3 : CbrtOk S x.val.natAbs) :
    bigintCbrtD P SD x = .ok (BigInt.ofInt (Int.sign x.val * (Nat.nthRoot 3 x.val.natAbs : Int))) := by
  rw [(bigint_roots_refine P hP hS hx hlen (n := 3) (by decide)).2.2, bigint_cbrt_spec x.val h3]
  rfl

/-- instantiated at the parameters extracted from the source: what the driver's model column computes
    (`stdSrcD NB.Gen.P floatF64 stdDepth`, and `nostdSrcD`) is, for every float evaluation satisfying
    `F64.Valid`, the canonical digit vector of Mathlib's floor root -/
theorem gen_root_spec {Fl : F64} (hF : Fl.Valid) {x : List Nat} (hx : Canon x) (hlen : SizeOk x)
    {n : Nat} (hn : 1 ≤ n) (hnB : n ≤ B) :
    nthRootD NB.Gen.P (stdSrcD NB.Gen.P Fl stdDepth) x n = .ok (ofNat (Nat.nthRoot n (val x))) ∧
    nthRootD NB.Gen.P nostdSrcD x n = .ok (ofNat (Nat.nthRoot n (val x))) :=
  ⟨(std_root_spec_D NB.Gen.P gen_params_valid_mul hF (le_refl 2) hx hlen hn hnB).1,
   (nostd_root_spec_D NB.Gen.P gen_params_valid_mul hx hlen hn hnB).1⟩

/-! ### non-vacuity -/

example : Canon [5, B - 1, 7] ∧ SizeOk [5, B - 1, 7] := by
  constructor
  · decide
  · unfold SizeOk; decide

/-- a three-digit operand, degree 7, both configurations, at the generated parameters -/
example : nthRootD NB.Gen.P (stdSrcD NB.Gen.P exampleF64 2) [5, B - 1, 7] 7
    = nthRootD NB.Gen.P nostdSrcD [5, B - 1, 7] 7 :=
  (root_config_independent_D NB.Gen.P gen_params_valid_mul exampleF64_valid (le_refl 2)
    (by decide) (by unfold SizeOk; decide) (by decide)).1

example : (⟨.minus, [0, 1]⟩ : BigInt).Canon := by decide

end LayerLink

end NB
