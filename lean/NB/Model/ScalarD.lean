/-
  NB.Model.ScalarD — DIGIT-level model of the scalar leaf impls (property C10), one layer below
  NB.Model.Scalar.

  NB.Model.Scalar models the leaf impls at value level (`Nat`/`VInt`, mathematical `+ - * / %` for the
  BigUint operators and digit routines they call).  Here the same impls are written on digit vectors
  (`List Nat`, `BigInt = (sign, List Nat)`) and every operator / digit routine they call is the
  digit-level model proved exact elsewhere:

    BigUint += / -= scalar, scalar - BigUint   `NB.dAddAssign/dSubAssign/dSubRev`   (Model/Scalar.lean, C01)
    scalar_mul, mul3(&self.data, &[lo, hi])    `NB.Mul.scalarMul`, `NB.Mul.mul3`     (Model/Mul.lean,  C02)
    div_rem_digit, rem_digit, div_rem          `NB.divRemDigit/remDigit/divRemVal`   (Model/Div.lean,  C03)
    From<u64|u128>, to_T, BigInt::from(T)      `NB.Conv.U.fromU64/fromU128/toPrim`, `NB.Conv.I.from`
                                                                                   (Model/Convert.lean, C08)
    Ord::cmp on BigUint                        `NB.cmpSlice`                         (NB.Base)

  Sources (64-bit digit arms of `cfg_digit!`):
    src/biguint/multiplication.rs   `MulAssign<u32|u64|u128> for BigUint`
    src/biguint/division.rs         `Div<u32|u64|u128> for BigUint`, `Div<BigUint> for u32|u64|u128`,
                                    `Rem<u32> for &BigUint`, `Rem<u64|u128> for BigUint`,
                                    `impl_rem_assign_scalar!`, `Rem<&BigUint> for u32`, `Rem<BigUint> for u64|u128`
    src/bigint/{addition,subtraction,multiplication,division}.rs   the sign / cmp / checked_uabs matches
    src/macros.rs                   promotion casts (same routing as `NB.uScalarForm` / `NB.iScalarForm`)

  Every panic an operator can raise is propagated through `Except Panic`; primitive division by zero
  (`self / other.data[0]`, `*self % v`) is `.divzero`.  A primitive scalar is still an `Int`/`Nat`
  with a type tag `STy` (that is what it is); only the big operands changed representation.
  NB.Props.C10D proves every definition here equal to the value-level leaf on `val` of its operands.

  Second part (“the remaining forms”): the shift forms, the Pow forms and the canonical big ∘ big operations
  (incl. `checked_*` and the big items of `Sum` / `Product`) routed to the digit-level operator models:

    `<< >> <<= >>=` by any of the 12 amount types   `NB.C07.biguintShl/biguintShr`, `NB.C07.BigInt.shl/shlAssign/
                                                    shr/shrAssign` (negative-amount panic, capacity overflow,
                                                    `shr_round_down`)                  (Model/Shift.lean, C07)
    `Pow<u8…u128|usize>`, `Pow<&BigUint>`           `NB.PowD.powPrim/powBig/bigintPow/bigintPowBig`, 4 operand forms
                                                                                       (Model/PowD.lean, C12)
    `&a + &b`, `&a - &b`, `checked_sub`             `NB.addRef/subRef/checkedSub`, `NB.BigInt.add/sub`   (C01)
    `&a * &b`                                       `NB.Mul.mulRef`, `NB.Mul.bigintMul`                  (C02)
    `&a / &b`, `&a % &b`, `checked_div`             `NB.divRef/remRef/checkedDiv`, `NB.BigInt.div/rem/checkedDiv` (C03)
    `&a & &b`, `&a | &b`, `&a ^ &b`                 `NB.C07.andRef/orRef/xorRef`, `NB.C07.BigInt.andRef/orRef/xorRef` (C07)

  The second part of NB.Props.C10D proves them equal to the value-level forms of NB.Model.Scalar / NB.Drv.C10.
-/
import NB.Base
import NB.Model.AddSub
import NB.Model.Mul
import NB.Model.Div
import NB.Model.Bits
import NB.Model.Shift
import NB.Model.PowD
import NB.Model.Convert
import NB.Model.Scalar
namespace NB.SD
open NB

/-- the type tag of NB.Model.Convert for a scalar type -/
def pty : STy → Conv.PTy
  | .u8 => .u8 | .u16 => .u16 | .u32 => .u32 | .u64 => .u64 | .u128 => .u128 | .usize => .usize
  | .i8 => .i8 | .i16 => .i16 | .i32 => .i32 | .i64 => .i64 | .i128 => .i128 | .isize => .isize

/-- `BigUint::from(s)` for a leaf scalar type: `From<u128>`, `From<u64>`, `From<u32>` (= `from(s as u64)`) -/
def uFrom (t : STy) (s : Nat) : List Nat :=
  match t with
  | .u128 => Conv.U.fromU128 s
  | _ => Conv.U.fromU64 s

/-- `BigInt::from(s)` for an unsigned leaf scalar type -/
def iFromU (t : STy) (s : Nat) : BigInt :=
  match t with
  | .u128 => Conv.I.fromU128 s
  | _ => Conv.I.fromU64 s

/-- value-level view of a digit-level BigInt -/
def toV (x : BigInt) : VInt := ⟨x.sign, val x.mag⟩
/-- canonical digit-level BigInt of a value-level one -/
def ofV (v : VInt) : BigInt := ⟨v.sign, ofNat v.mag⟩

/-! ## BigUint leaves -/

/-- `MulAssign<u32|u64|u128> for BigUint`: `scalar_mul` when the scalar is one digit, else
    `*self = mul3(&self.data, &[lo, hi])` -/
def dMulAssign (t : STy) (P : Params) (a : List Nat) (s : Nat) : Except Panic (List Nat) :=
  match t with
  | .u128 =>
    if s < B then .ok (Mul.scalarMul a s)              -- `BigDigit::from_u128(other)` is `Some`
    else Mul.mul3 P a [s % B, s / B]                   -- `from_doublebigdigit`, `mul3(&self.data, &[lo, hi])`
  | _ => .ok (Mul.scalarMul a s)

/-- `Div<u32> for BigUint` (`div_rem_digit(self, other as BigDigit)`), `Div<u64|u128> for BigUint`
    (`div_rem(self, From::from(other))`); `DivAssign` forwards to these -/
def dDiv (t : STy) (P : Params) (a : List Nat) (s : Nat) : Except Panic (List Nat) :=
  match t with
  | .u32 => (divRemDigit a s).map (·.1)
  | _ => (divRemVal P a (uFrom t s)).map (·.1)

/-- `Rem<u32> for &BigUint` (`rem_digit(self, other as BigDigit).into()`), `Rem<u64|u128> for BigUint`
    (`div_rem(self, From::from(other))`); `RemAssign` forwards to these -/
def dRem (t : STy) (P : Params) (a : List Nat) (s : Nat) : Except Panic (List Nat) :=
  match t with
  | .u32 => (remDigit a s).map Conv.U.fromU64
  | _ => (divRemVal P a (uFrom t s)).map (·.2)

/-- `Div<BigUint> for u32|u64|u128` (scalar / big): `match other.data.len()`.  The primitive
    divisions panic for a zero divisor (impossible for a normalised `other`). -/
def dDivRev (t : STy) (s : Nat) (a : List Nat) : Except Panic (List Nat) :=
  match t with
  | .u128 =>
    match a with
    | [] => .error .divzero
    | [d0] => if d0 = 0 then .error .divzero else .ok (Conv.U.fromU128 (s / d0))
    | [d0, d1] =>
      let d := d1 * B + d0                              -- `big_digit::to_doublebigdigit(data[1], data[0])`
      if d = 0 then .error .divzero else .ok (Conv.U.fromU128 (s / d))
    | _ => .ok []
  | _ =>
    match a with
    | [] => .error .divzero
    | [d0] => if d0 = 0 then .error .divzero else .ok (Conv.U.fromU64 (s / d0))
    | _ => .ok []

/-- `impl_rem_assign_scalar!`: `scalar %= &BigUint` for all 12 scalar types, through the digit-level
    `other.to_T()` and, in the `None` arm, `BigInt::from(*self).magnitude() == other` (Vec equality) -/
def dRemAssignScalar (t : STy) (s : Int) (a : List Nat) : Except Panic Int :=
  match Conv.U.toPrim (pty t) a with
  | .error e => .error e
  | .ok none =>
    match Conv.I.from (pty t) s with
    | .error e => .error e
    | .ok b => if b.mag = a then .ok 0 else .ok s
  | .ok (some v) => if v = 0 then .error .divzero else .ok (Int.tmod s v)

/-- `Rem<&BigUint> for u32`, `Rem<BigUint> for u64|u128`: `self %= other; From::from(self)` -/
def dRemRev (t : STy) (s : Nat) (a : List Nat) : Except Panic (List Nat) :=
  (dRemAssignScalar t s a).map (fun r => uFrom t r.toNat)

/-! ## BigInt ± unsigned leaf -/

/-- `Add<u32|u64|u128> for BigInt` -/
def iAddU (t : STy) (P : Params) (a : BigInt) (u : Nat) : Except Panic BigInt :=
  match a.sign with
  | .nosign => .ok (iFromU t u)
  | .plus => .ok (Conv.I.fromBiguint (dAddAssign t P a.mag u))
  | .minus =>
    match cmpSlice a.mag (uFrom t u) with
    | .eq => .ok ⟨.nosign, []⟩
    | .lt => (dSubRev t u a.mag).map Conv.I.fromBiguint
    | .gt => (dSubAssign t P a.mag u).map (fun d => (Conv.I.fromBiguint d).neg)

/-- `Sub<u32|u64|u128> for BigInt` -/
def iSubU (t : STy) (P : Params) (a : BigInt) (u : Nat) : Except Panic BigInt :=
  match a.sign with
  | .nosign => .ok (iFromU t u).neg
  | .minus => .ok (Conv.I.fromBiguint (dAddAssign t P a.mag u)).neg
  | .plus =>
    match cmpSlice a.mag (uFrom t u) with
    | .eq => .ok ⟨.nosign, []⟩
    | .gt => (dSubAssign t P a.mag u).map Conv.I.fromBiguint
    | .lt => (dSubRev t u a.mag).map (fun d => (Conv.I.fromBiguint d).neg)

/-- `Sub<BigInt> for u32|u64|u128`: `-(other - self)` -/
def uSubI (t : STy) (P : Params) (u : Nat) (a : BigInt) : Except Panic BigInt :=
  (iSubU t P a u).map BigInt.neg

/-! ## BigInt ± signed leaf (through `checked_uabs`, a primitive operation) -/

def iAddS (t : STy) (P : Params) (a : BigInt) (s : Int) : Except Panic BigInt :=
  match checkedUabs t s with
  | .positive u => iAddU t.unsignedOf P a u.toNat
  | .negative u => iSubU t.unsignedOf P a u.toNat

def iSubS (t : STy) (P : Params) (a : BigInt) (s : Int) : Except Panic BigInt :=
  match checkedUabs t s with
  | .positive u => iSubU t.unsignedOf P a u.toNat
  | .negative u => iAddU t.unsignedOf P a u.toNat

/-- `Sub<BigInt> for i32|i64|i128`: `Positive(u) => u - other`, `Negative(u) => -other - u` -/
def sSubI (t : STy) (P : Params) (s : Int) (a : BigInt) : Except Panic BigInt :=
  match checkedUabs t s with
  | .positive u => uSubI t.unsignedOf P u.toNat a
  | .negative u => iSubU t.unsignedOf P a.neg u.toNat

/-! ## BigInt * scalar -/

/-- `Mul<u32|u64|u128> for BigInt`: `from_biguint(self.sign, self.data * other)` -/
def iMulU (t : STy) (P : Params) (a : BigInt) (u : Nat) : Except Panic BigInt :=
  (dMulAssign t P a.mag u).map (BigInt.fromBiguint a.sign)

/-- the `if self.data.is_zero() { self.sign = NoSign }` tail of the BigInt assign impls -/
def fixZero (sg : Sign) (m : List Nat) : BigInt := if m = [] then ⟨.nosign, m⟩ else ⟨sg, m⟩

/-- `MulAssign<u32|u64|u128> for BigInt` -/
def iMulAssignU (t : STy) (P : Params) (a : BigInt) (u : Nat) : Except Panic BigInt :=
  (dMulAssign t P a.mag u).map (fixZero a.sign)

def iMulS (t : STy) (P : Params) (a : BigInt) (s : Int) : Except Panic BigInt :=
  match checkedUabs t s with
  | .positive u => iMulU t.unsignedOf P a u.toNat
  | .negative u => iMulU t.unsignedOf P a.neg u.toNat

/-- `MulAssign<i32|i64|i128> for BigInt`: the `Negative` arm flips the sign and multiplies the
    magnitude without the zero check -/
def iMulAssignS (t : STy) (P : Params) (a : BigInt) (s : Int) : Except Panic BigInt :=
  match checkedUabs t s with
  | .positive u => iMulAssignU t.unsignedOf P a u.toNat
  | .negative u => (dMulAssign t.unsignedOf P a.mag u.toNat).map (fun m => ⟨a.sign.neg, m⟩)

/-! ## BigInt / scalar, scalar / BigInt -/

def iDivU (t : STy) (P : Params) (a : BigInt) (u : Nat) : Except Panic BigInt :=
  (dDiv t P a.mag u).map (BigInt.fromBiguint a.sign)

def iDivAssignU (t : STy) (P : Params) (a : BigInt) (u : Nat) : Except Panic BigInt :=
  (dDiv t P a.mag u).map (fixZero a.sign)

/-- `Div<BigInt> for u32|u64|u128`: `from_biguint(other.sign, self / other.data)` -/
def uDivI (t : STy) (u : Nat) (a : BigInt) : Except Panic BigInt :=
  (dDivRev t u a.mag).map (BigInt.fromBiguint a.sign)

def iDivS (t : STy) (P : Params) (a : BigInt) (s : Int) : Except Panic BigInt :=
  match checkedUabs t s with
  | .positive u => iDivU t.unsignedOf P a u.toNat
  | .negative u => iDivU t.unsignedOf P a.neg u.toNat

/-- `DivAssign<i32|i64|i128> for BigInt`: `self.sign = -self.sign; *self /= u` -/
def iDivAssignS (t : STy) (P : Params) (a : BigInt) (s : Int) : Except Panic BigInt :=
  match checkedUabs t s with
  | .positive u => iDivAssignU t.unsignedOf P a u.toNat
  | .negative u => iDivAssignU t.unsignedOf P ⟨a.sign.neg, a.mag⟩ u.toNat

/-- `Div<BigInt> for i32|i64|i128`: `Positive(u) => u / other`, `Negative(u) => u / -other` -/
def sDivI (t : STy) (s : Int) (a : BigInt) : Except Panic BigInt :=
  match checkedUabs t s with
  | .positive u => uDivI t.unsignedOf u.toNat a
  | .negative u => uDivI t.unsignedOf u.toNat a.neg

/-! ## BigInt % scalar, scalar % BigInt -/

def iRemU (t : STy) (P : Params) (a : BigInt) (u : Nat) : Except Panic BigInt :=
  (dRem t P a.mag u).map (BigInt.fromBiguint a.sign)

def iRemAssignU (t : STy) (P : Params) (a : BigInt) (u : Nat) : Except Panic BigInt :=
  (dRem t P a.mag u).map (fixZero a.sign)

/-- `Rem<BigInt> for u32|u64|u128`: `BigInt::from(self % other.data)` -/
def uRemI (t : STy) (u : Nat) (a : BigInt) : Except Panic BigInt :=
  (dRemRev t u a.mag).map Conv.I.fromBiguint

/-- `Rem<i32|i64|i128> for BigInt`: `self % other.unsigned_abs()` -/
def iRemS (t : STy) (P : Params) (a : BigInt) (s : Int) : Except Panic BigInt :=
  iRemU t.unsignedOf P a (unsignedAbs t s).toNat

def iRemAssignS (t : STy) (P : Params) (a : BigInt) (s : Int) : Except Panic BigInt :=
  iRemAssignU t.unsignedOf P a (unsignedAbs t s).toNat

/-- `Rem<BigInt> for i32|i64|i128`: `Positive(u) => u % other`, `Negative(u) => -(u % other)` -/
def sRemI (t : STy) (s : Int) (a : BigInt) : Except Panic BigInt :=
  match checkedUabs t s with
  | .positive u => uRemI t.unsignedOf u.toNat a
  | .negative u => (uRemI t.unsignedOf u.toNat a).map BigInt.neg

/-! ## the forwarding / promotion layer (same routing as `NB.uScalarForm` / `NB.iScalarForm`) -/

/-- all BigUint scalar forms on digits -/
def uScalarForm (P : Params) (op : AOp) (pos : SPos) (t : STy) (a : List Nat) (s : Int) :
    Except Panic (List Nat) :=
  let p := t.promo
  let v := (castTo p s).toNat
  match op, pos with
  | .add, _ => .ok (dAddAssign p P a v)
  | .mul, _ => dMulAssign p P a v
  | .sub, .scalarBig => dSubRev p v a
  | .sub, _ => dSubAssign p P a v
  | .div, .scalarBig => dDivRev p v a
  | .div, _ => dDiv p P a v
  | .rem, .scalarBig => dRemRev p v a
  | .rem, _ => dRem p P a v

/-- all BigInt scalar forms on digits -/
def iScalarForm (P : Params) (op : AOp) (pos : SPos) (t : STy) (a : BigInt) (s : Int) :
    Except Panic BigInt :=
  let p := t.promo
  let v := castTo p s
  if p.signed then
    match op, pos with
    | .add, _ => iAddS p P a v
    | .sub, .scalarBig => sSubI p P v a
    | .sub, _ => iSubS p P a v
    | .mul, .assign => iMulAssignS p P a v
    | .mul, _ => iMulS p P a v
    | .div, .bigScalar => iDivS p P a v
    | .div, .assign => iDivAssignS p P a v
    | .div, .scalarBig => sDivI p v a
    | .rem, .bigScalar => iRemS p P a v
    | .rem, .assign => iRemAssignS p P a v
    | .rem, .scalarBig => sRemI p v a
  else
    match op, pos with
    | .add, _ => iAddU p P a v.toNat
    | .sub, .scalarBig => uSubI p P v.toNat a
    | .sub, _ => iSubU p P a v.toNat
    | .mul, .assign => iMulAssignU p P a v.toNat
    | .mul, _ => iMulU p P a v.toNat
    | .div, .bigScalar => iDivU p P a v.toNat
    | .div, .assign => iDivAssignU p P a v.toNat
    | .div, .scalarBig => uDivI p v.toNat a
    | .rem, .bigScalar => iRemU p P a v.toNat
    | .rem, .assign => iRemAssignU p P a v.toNat
    | .rem, .scalarBig => uRemI p v.toNat a

/-! ## shift forms (src/biguint/shift.rs `impl_shift!`, src/bigint/shift.rs `impl_shift!`)

The amount `k : Int` is the mathematical value of the primitive amount (any of the 12 types, no promotion:
`biguint_shl<T: PrimInt>` is generic).  `Shl<T> for BigUint` / `for &BigUint` are `biguint_shl(Cow::Owned | Borrowed, rhs)`,
`ShlAssign<T>` is `*self = mem::replace(self, ZERO) << rhs`: one digit-level function for the three. -/

/-- `BigUint << k`, `&BigUint << k`, `BigUint <<= k` (`left`) and `>>`, `>>=` -/
def uShiftForm (left : Bool) (a : List Nat) (k : Int) : Except Panic (List Nat) :=
  if left then NB.C07.biguintShl a k else NB.C07.biguintShr a k

/-- `BigInt << k` / `&BigInt << k` (`from_biguint(sign, data << rhs)`), `BigInt <<= k` (`self.data <<= rhs`),
    `BigInt >> k` (`shr_round_down`, `data >> rhs`, `+ 1u8`), `BigInt >>= k` -/
def iShiftForm (P : Params) (left assign : Bool) (a : BigInt) (k : Int) : Except Panic BigInt :=
  match left, assign with
  | true, false => NB.C07.BigInt.shl a k
  | true, true => NB.C07.BigInt.shlAssign a k
  | false, false => NB.C07.BigInt.shr P a k
  | false, true => NB.C07.BigInt.shrAssign P a k

/-! ## canonical big ∘ big operations (the `&a ∘ &b` forms; every val/ref/assign permutation is compared
    with them in-process by the harness).  `op`: 1 + 2 - 3 * 4 / 5 % 6 & 7 | 8 ^ (the numbering of the form ids). -/

/-- `&BigUint ∘ &BigUint` -/
def uBinForm (P : Params) (op : Nat) (a b : List Nat) : Except Panic (List Nat) :=
  match op with
  | 1 => .ok (addRef P a b)
  | 2 => subRef P a b
  | 3 => Mul.mulRef P a b
  | 4 => divRef P a b
  | 5 => remRef P a b
  | 6 => .ok (NB.C07.andRef a b)
  | 7 => .ok (NB.C07.orRef a b)
  | 8 => .ok (NB.C07.xorRef a b)
  | _ => .error (.internal "op")

/-- `&BigInt ∘ &BigInt` -/
def iBinForm (P : Params) (op : Nat) (a b : BigInt) : Except Panic BigInt :=
  match op with
  | 1 => BigInt.add P a b
  | 2 => BigInt.sub P a b
  | 3 => Mul.bigintMul P a b
  | 4 => BigInt.div P a b
  | 5 => BigInt.rem P a b
  | 6 => NB.C07.BigInt.andRef a b
  | 7 => NB.C07.BigInt.orRef a b
  | 8 => NB.C07.BigInt.xorRef a b
  | _ => .error (.internal "op")

/-- `CheckedAdd/Sub/Mul/Div for BigUint` (`op`: 1 checked_add … 4 checked_div): `Some(self.add(v))`,
    `match self.cmp(v) { Less => None, Equal => Some(ZERO), Greater => Some(self.sub(v)) }`, `Some(self.mul(v))`,
    `if v.is_zero() { None } else { Some(self.div(v)) }` -/
def uCheckedForm (P : Params) (op : Nat) (a b : List Nat) : Except Panic (Option (List Nat)) :=
  match op with
  | 1 => .ok (some (addRef P a b))
  | 2 => checkedSub P a b
  | 3 => (Mul.mulRef P a b).map some
  | 4 => checkedDiv P a b
  | _ => .error (.internal "op")

/-- `CheckedAdd/Sub/Mul/Div for BigInt` -/
def iCheckedForm (P : Params) (op : Nat) (a b : BigInt) : Except Panic (Option BigInt) :=
  match op with
  | 1 => (BigInt.add P a b).map some
  | 2 => (BigInt.sub P a b).map some
  | 3 => (Mul.bigintMul P a b).map some
  | 4 => BigInt.checkedDiv P a b
  | _ => .error (.internal "op")

/-! ## Sum / Product (`impl_sum_iter_type!`, `impl_product_iter_type!`): `iter.fold(ZERO, <Big>::add)`,
    `iter.fold(One::one(), <Big>::mul)`; an item is a big value or a primitive scalar (`Add<T>` / `Mul<T>` forms) -/

inductive Item (β : Type) where
  | big (b : β)
  | sc (t : STy) (s : Int)

/-- one fold step on a BigUint accumulator: `acc + item` (`self += &other`) / `acc * item` -/
def uIterStep (P : Params) (sum : Bool) (acc : List Nat) : Item (List Nat) → Except Panic (List Nat)
  | .big b => if sum then .ok (addAssign P acc b) else Mul.mulRef P acc b
  | .sc t s => uScalarForm P (if sum then .add else .mul) .bigScalar t acc s

def uIterFold (P : Params) (sum : Bool) : List Nat → List (Item (List Nat)) → Except Panic (List Nat)
  | acc, [] => .ok acc
  | acc, it :: rest =>
    match uIterStep P sum acc it with
    | .error e => .error e
    | .ok acc' => uIterFold P sum acc' rest

/-- `Sum` / `Product` for BigUint: the fold from `ZERO` / `One::one()` -/
def uIterForm (P : Params) (sum : Bool) (items : List (Item (List Nat))) : Except Panic (List Nat) :=
  uIterFold P sum (if sum then [] else [1]) items

def iIterStep (P : Params) (sum : Bool) (acc : BigInt) : Item BigInt → Except Panic BigInt
  | .big b => if sum then BigInt.add P acc b else Mul.bigintMul P acc b
  | .sc t s => iScalarForm P (if sum then .add else .mul) .bigScalar t acc s

def iIterFold (P : Params) (sum : Bool) : BigInt → List (Item BigInt) → Except Panic BigInt
  | acc, [] => .ok acc
  | acc, it :: rest =>
    match iIterStep P sum acc it with
    | .error e => .error e
    | .ok acc' => iIterFold P sum acc' rest

/-- `Sum` / `Product` for BigInt -/
def iIterForm (P : Params) (sum : Bool) (items : List (Item BigInt)) : Except Panic BigInt :=
  iIterFold P sum (if sum then ⟨.nosign, []⟩ else ⟨.plus, [1]⟩) items

end NB.SD
