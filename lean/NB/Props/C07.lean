/-
  C07 — Bitwise logic, shifts and bit queries follow infinite two's-complement semantics.

  All theorems are about the executable model NB.Model.Bits / NB.Model.Shift, written routine by
  routine from src/biguint/{bits,shift}.rs, src/bigint/{bits,shift}.rs and the bit queries of
  src/biguint.rs / src/bigint.rs, and correspondence-checked against the real crate on every run.
  The specs are the mathematical objects themselves:

  * BigUint `& | ^`            : `Nat.land / lor / xor` of the values, canonical result
  * BigUint `<<`, `>>`          : `v * 2^k`, `v / 2^k` for every non-negative amount of every primitive
                                  type (incl. amounts past the length, the `usize`-saturating arm of
                                  `>>`, the `capacity overflow` arm of `<<`); negative amounts panic
  * BigInt `<<`, `>>`, `<<=`, `>>=` : `x * 2^k`, floor division `x / 2^k` = `Int.shiftRight`
  * `!x`                        : `-x - 1` (both the by-value and the by-reference impl)
  * `bit`                       : `Nat.testBit` / `Int.testBit` (two's complement for negatives)
  * BigUint `set_bit`           : `v ||| 2^k` / `Nat.ldiff v (2^k)`, plus the bit-level statement
  * `bits`                      : `Nat.size`; `trailing_zeros`: exponent of 2 in v; `trailing_ones`:
                                  exponent of 2 in v+1; `count_ones`: number of set bits
  * BigInt `& | ^` (`&=`, `|=`, `^=` and the ref-ref forms), all nine sign pairs
                                : Mathlib's `Int.land`, `Int.lor`, `Int.xor`
  * every internal assertion (`debug_assert!` on carries, `unwrap`, `expect`) of these routines is
    an explicit `.error (.internal …)` in the model and is proved unreachable for canonical operands.

  Hypotheses that are not "operands canonical": `hlen : … < U64_RANGE / USIZE_RANGE` (the bit length of
  an operand fits u64 / its digit count fits usize — true of every `Vec`), used only by the right
  shifts where the code itself saturates at `usize::MAX` / compares with a `u64`.

  * BigInt `set_bit`            : `Int.lor x 2^k` / `Int.ldiff x 2^k`, all five `set_negative_bit` sub-cases
-/
import NB.Lemmas.Bits
import NB.Lemmas.Shift
import NB.Lemmas.Canon
import NB.Lemmas.BitsInt
import NB.Lemmas.SignedOps
import NB.Lemmas.SetBit
import NB.Model.AsmParams
namespace NB.C07

/-! ## BigUint `& | ^` -/

/-- `a &= &b`: the canonical representation of the bitwise and of the values -/
theorem andAssign_spec (a b : List Nat) (ha : Canon a) (hb : Canon b) :
    andAssign a b = ofNat (val a &&& val b) := by
  obtain ⟨h1, h2⟩ := andAssign_val a b ha.1 hb.1
  rw [canon_eq_ofNat h2, h1]

theorem andRef_spec (a b : List Nat) (ha : Canon a) (hb : Canon b) :
    andRef a b = ofNat (val a &&& val b) := by
  unfold andRef; split
  · exact andAssign_spec a b ha hb
  · rw [andAssign_spec b a hb ha, Nat.land_comm]

theorem orAssign_spec (a b : List Nat) (ha : Canon a) (hb : Canon b) :
    orAssign a b = ofNat (val a ||| val b) := by
  obtain ⟨h1, h2⟩ := orAssign_val a b ha hb
  rw [canon_eq_ofNat h2, h1]

theorem orRef_spec (a b : List Nat) (ha : Canon a) (hb : Canon b) :
    orRef a b = ofNat (val a ||| val b) := by
  unfold orRef; split
  · exact orAssign_spec a b ha hb
  · rw [orAssign_spec b a hb ha, Nat.lor_comm]

theorem xorAssign_spec (a b : List Nat) (ha : Canon a) (hb : Canon b) :
    xorAssign a b = ofNat (val a ^^^ val b) := by
  obtain ⟨h1, h2⟩ := xorAssign_val a b ha.1 hb.1
  rw [canon_eq_ofNat h2, h1]

theorem xorRef_spec (a b : List Nat) (ha : Canon a) (hb : Canon b) :
    xorRef a b = ofNat (val a ^^^ val b) := by
  unfold xorRef; split
  · exact xorAssign_spec a b ha hb
  · rw [xorAssign_spec b a hb ha, Nat.xor_comm]

/-! ## BigUint shifts -/

/-- a negative amount of any signed type panics -/
theorem shl_negative (a : List Nat) (k : Int) (hk : k < 0) : biguintShl a k = .error .negshift := by
  unfold biguintShl; simp [hk]

theorem shr_negative (a : List Nat) (k : Int) (hk : k < 0) : biguintShr a k = .error .negshift := by
  unfold biguintShr; simp [hk]

/-- `a << k = a * 2^k` for every non-negative amount whose digit count fits `usize` (zero is
    returned unchanged for every amount) -/
theorem shl_spec (a : List Nat) (k : Int) (ha : Canon a) (hk : 0 ≤ k)
    (hcap : a ≠ [] → k.toNat / BITS < USIZE_RANGE) :
    biguintShl a k = .ok (ofNat (val a * 2 ^ k.toNat)) := by
  unfold biguintShl
  have hk' : ¬ k < 0 := by omega
  simp only [hk', if_false]
  by_cases h0 : a = []
  · subst h0; simp [val, ofNat]
  · simp only [h0, if_false]
    have hc : ¬ (k.toNat / BITS ≥ USIZE_RANGE) := by have := hcap h0; omega
    simp only [hc, if_false]
    obtain ⟨h1, h2⟩ := shl2_spec a (k.toNat / BITS) (k.toNat % BITS) ha.1 (Nat.mod_lt _ (by decide))
    rw [Nat.div_add_mod] at h1
    rw [canon_eq_ofNat h2, h1]

/-- beyond `usize::MAX` whole digits a non-zero value cannot be shifted: `capacity overflow` -/
theorem shl_capacity (a : List Nat) (k : Int) (hk : 0 ≤ k) (h0 : a ≠ [])
    (hcap : USIZE_RANGE ≤ k.toNat / BITS) : biguintShl a k = .error .capacity := by
  unfold biguintShl
  have hk' : ¬ k < 0 := by omega
  simp [hk', h0, hcap]

/-- `a >> k = ⌊a / 2^k⌋` for every non-negative amount, including amounts past the length and
    amounts whose digit count saturates `usize` (`hlen`: a `Vec` is shorter than `usize::MAX`) -/
theorem shr_spec (a : List Nat) (k : Int) (ha : Canon a) (hk : 0 ≤ k) (hlen : a.length < USIZE_RANGE) :
    biguintShr a k = .ok (ofNat (val a / 2 ^ k.toNat)) := by
  unfold biguintShr
  have hk' : ¬ k < 0 := by omega
  simp only [hk', if_false]
  by_cases h0 : a = []
  · subst h0; simp [val, ofNat]
  · simp only [h0, if_false]
    by_cases hq : k.toNat / BITS < USIZE_RANGE
    · simp only [hq, if_true]
      obtain ⟨h1, h2⟩ := shr2_spec a (k.toNat / BITS) (k.toNat % BITS) ha.1 (Nat.mod_lt _ (by decide))
      rw [Nat.div_add_mod] at h1
      rw [canon_eq_ofNat h2, h1]
    · simp only [hq, if_false]
      obtain ⟨h1, h2⟩ := shr2_spec a (USIZE_RANGE - 1) (k.toNat % BITS) ha.1 (Nat.mod_lt _ (by decide))
      rw [canon_eq_ofNat h2, h1]
      have hv := val_lt ha.1
      have hz : ∀ e, BITS * (USIZE_RANGE - 1) ≤ e → val a / 2 ^ e = 0 := by
        intro e he
        apply Nat.div_eq_of_lt
        calc val a < B ^ a.length := hv
          _ ≤ B ^ (USIZE_RANGE - 1) := Nat.pow_le_pow_right B_pos (by omega)
          _ = 2 ^ (BITS * (USIZE_RANGE - 1)) := B_pow _
          _ ≤ 2 ^ e := Nat.pow_le_pow_right (by decide) he
      rw [hz _ (Nat.le_add_right _ _), hz k.toNat ?_]
      have := Nat.div_add_mod k.toNat BITS
      have h3 : BITS * (USIZE_RANGE - 1) ≤ BITS * (k.toNat / BITS) := Nat.mul_le_mul_left _ (by omega)
      omega

/-! ## bit queries -/

/-- bit `64*i + j` of the value is bit `j` of digit `i` (the positional meaning of digits at bit
    level; every other bit theorem rests on it) -/
theorem testBit_val_digit {ds : List Nat} (h : DigitsOk ds) (i j : Nat) (hj : j < BITS) :
    (val ds).testBit (BITS * i + j) = (ds.getD i 0).testBit j := testBit_val h i j hj

/-- `BigUint::bit` -/
theorem bit_spec_u (ds : List Nat) (h : Canon ds) (k : Nat) : bitU ds k = (val ds).testBit k :=
  bitU_spec ds h.1 k

/-- `BigUint::set_bit(k, true)`: canonical representation of `v ||| 2^k` -/
theorem set_bit_true_spec_u (ds : List Nat) (h : Canon ds) (k : Nat) :
    setBitU ds k true = ofNat (val ds ||| 2 ^ k) := by
  obtain ⟨h1, h2⟩ := setBitU_true ds k h
  rw [canon_eq_ofNat h2, h1]

/-- `BigUint::set_bit(k, false)`: canonical representation of `v &&& ¬2^k` (`Nat.ldiff`) -/
theorem set_bit_false_spec_u (ds : List Nat) (h : Canon ds) (k : Nat) :
    setBitU ds k false = ofNat (Nat.ldiff (val ds) (2 ^ k)) := by
  obtain ⟨h1, h2⟩ := setBitU_false ds k h
  rw [canon_eq_ofNat h2, h1]

/-- after `set_bit(k, b)` bit `k` reads `b` and every other bit is unchanged -/
theorem set_bit_testBit_u (ds : List Nat) (h : Canon ds) (k : Nat) (b : Bool) (i : Nat) :
    (val (setBitU ds k b)).testBit i = if i = k then b else (val ds).testBit i := by
  cases b with
  | true =>
    rw [(setBitU_true ds k h).1, Nat.testBit_or, Nat.testBit_two_pow]
    by_cases hik : i = k
    · subst hik; simp
    · have : ¬ k = i := fun e => hik e.symm
      simp [hik, this]
  | false =>
    rw [(setBitU_false ds k h).1, Nat.testBit_ldiff, Nat.testBit_two_pow]
    by_cases hik : i = k
    · subst hik; simp
    · have : ¬ k = i := fun e => hik e.symm
      simp [hik, this]

/-- `BigUint::bits` = `Nat.size` (number of bits of the value; 0 for 0) -/
theorem bits_spec_u (ds : List Nat) (h : Canon ds) : bitsU ds = Nat.size (val ds) :=
  bitsU_eq_size ds h

/-- … equivalently `2^(bits-1) ≤ v < 2^bits` -/
theorem bits_bounds_u (ds : List Nat) (h : Canon ds) (hne : ds ≠ []) :
    2 ^ (bitsU ds - 1) ≤ val ds ∧ val ds < 2 ^ bitsU ds :=
  ⟨((bitsU_bounds ds h).2 hne).2, (bitsU_bounds ds h).1⟩

/-- `BigUint::trailing_zeros`: `None` exactly for zero, otherwise the exponent of 2 in the value -/
theorem trailing_zeros_spec_u (ds : List Nat) (h : Canon ds) :
    (val ds = 0 → trailingZerosU ds = none) ∧
    (val ds ≠ 0 → ∃ t m, trailingZerosU ds = some t ∧ val ds = 2 ^ t * (2 * m + 1)) :=
  trailingZerosU_spec ds h.1

/-- `BigUint::trailing_ones`: the exponent of 2 in `value + 1`, i.e. the number of low one bits -/
theorem trailing_ones_spec_u (ds : List Nat) (h : Canon ds) :
    ∃ m, val ds + 1 = 2 ^ (trailingOnesU ds) * (2 * m + 1) :=
  trailingOnesU_spec ds h.1

/-- … in bit form: bits below `trailing_ones` are set, the bit at `trailing_ones` is clear -/
theorem trailing_ones_testBit_u (ds : List Nat) (h : Canon ds) :
    (∀ j, j < trailingOnesU ds → (val ds).testBit j = true) ∧
    (val ds).testBit (trailingOnesU ds) = false := by
  obtain ⟨m, hm⟩ := trailingOnesU_spec ds h.1
  generalize trailingOnesU ds = t at *
  -- val = 2^t * (2m) + (2^t - 1)
  have hpos : 0 < 2 ^ t := Nat.pow_pos (by decide)
  have hv : val ds = (2 ^ t - 1) + 2 ^ t * (2 * m) := by
    have : 2 ^ t * (2 * m + 1) = 2 ^ t * (2 * m) + 2 ^ t := by ring
    omega
  rw [hv]
  constructor
  · intro j hj
    rw [testBit_block _ (by omega), if_pos hj, Nat.testBit_two_pow_sub_one]; simp [hj]
  · rw [testBit_block _ (by omega), if_neg (Nat.lt_irrefl _), Nat.sub_self]
    simp [Nat.testBit_zero]

/-- `BigUint::count_ones`: the number of set bits of the value -/
theorem count_ones_spec_u (ds : List Nat) (h : Canon ds) :
    countOnesU ds = ((List.range (BITS * ds.length)).filter (fun i => (val ds).testBit i)).length :=
  countOnesU_spec ds h.1

/-! ## BigInt shifts -/

theorem bigint_shl_negative (x : BigInt) (k : Int) (hk : k < 0) : BigInt.shl x k = .error .negshift := by
  unfold BigInt.shl; rw [shl_negative _ _ hk]; rfl

theorem bigint_shr_negative (P : Params) (x : BigInt) (k : Int) (hx : x.Canon) (hk : k < 0) :
    BigInt.shr P x k = .error .negshift := by
  unfold BigInt.shr
  have h1 : ∃ b, shrRoundDown x k = .ok b := by
    unfold shrRoundDown
    by_cases hs : x.sign = .minus
    · simp only [hs, if_true]
      rcases bigint_canon_cases hx with h0 | ⟨_, hne, hpos⟩
      · rw [h0] at hs; cases hs
      · obtain ⟨t, m, ht, _⟩ := (trailingZerosU_spec x.mag hx.1.1).2 (by omega)
        rw [ht]; exact ⟨_, rfl⟩
    · simp [hs]
  obtain ⟨b, hb⟩ := h1
  rw [hb, shr_negative _ _ hk]; rfl

/-- `x << k = x * 2^k` -/
theorem bigint_shl_spec (x : BigInt) (k : Int) (hx : x.Canon) (hk : 0 ≤ k)
    (hcap : x.mag ≠ [] → k.toNat / BITS < USIZE_RANGE) :
    BigInt.shl x k = .ok (BigInt.ofInt (x.val * 2 ^ k.toNat)) := by
  unfold BigInt.shl
  rw [shl_spec x.mag k hx.1 hk hcap]
  show Except.ok _ = _
  congr 1
  rcases bigint_canon_cases hx with h0 | ⟨hs, hne, hpos⟩
  · rw [h0]; simp [BigInt.fromBiguint, BigInt.val, BigInt.ofInt]
  · obtain ⟨s, m⟩ := x
    cases s with
    | nosign => exact absurd rfl hs
    | plus => rw [fromBiguint_ofNat_plus, bigint_val_plus]; push_cast; rfl
    | minus => rw [fromBiguint_ofNat_minus, bigint_val_minus]; push_cast; rw [Int.neg_mul]

/-- `x <<= k` leaves the same canonical value (the sign field is not touched) -/
theorem bigint_shlAssign_spec (x : BigInt) (k : Int) (hx : x.Canon) (hk : 0 ≤ k)
    (hcap : x.mag ≠ [] → k.toNat / BITS < USIZE_RANGE) :
    BigInt.shlAssign x k = .ok (BigInt.ofInt (x.val * 2 ^ k.toNat)) := by
  rw [← bigint_shl_spec x k hx hk hcap]
  unfold BigInt.shlAssign BigInt.shl
  rw [shl_spec x.mag k hx.1 hk hcap]
  show Except.ok _ = Except.ok _
  congr 1
  rcases bigint_canon_cases hx with h0 | ⟨hs, hne, hpos⟩
  · rw [h0]; simp [BigInt.fromBiguint, val, ofNat]
  · have hnz : ofNat (val x.mag * 2 ^ k.toNat) ≠ [] := by
      rw [ne_eq, ofNat_eq_nil_iff]
      have : 0 < 2 ^ k.toNat := Nat.pow_pos (by decide)
      exact Nat.ne_of_gt (Nat.mul_pos hpos this)
    unfold BigInt.fromBiguint
    simp [hs, hnz]

/-- `x >> k = ⌊x / 2^k⌋` (toward −∞), for every non-negative amount of every type
    (`hlen`: the bit length of the operand fits `u64`, as `bits()` assumes) -/
theorem bigint_shr_spec (P : Params) (x : BigInt) (k : Int) (hx : x.Canon) (hk : 0 ≤ k)
    (hlen : BITS * x.mag.length < U64_RANGE) :
    BigInt.shr P x k = .ok (BigInt.ofInt (x.val / 2 ^ k.toNat)) := by
  have hl : x.mag.length < USIZE_RANGE := by unfold USIZE_RANGE U64_RANGE BITS at *; omega
  have hshr := shr_spec x.mag k hx.1 hk hl
  have hcast : (2 : Int) ^ k.toNat = ((2 ^ k.toNat : Nat) : Int) := by push_cast; rfl
  unfold BigInt.shr
  rcases bigint_canon_cases hx with h0 | ⟨hs, hne, hpos⟩
  · rw [h0] at hshr ⊢
    rw [shrRoundDown_nonneg _ _ (by simp), hshr]
    simp [bind, Except.bind, pure, Except.pure, BigInt.fromBiguint, BigInt.val, BigInt.ofInt]
  · obtain ⟨s, m⟩ := x
    simp only at *
    cases s with
    | nosign => exact absurd rfl hs
    | plus =>
      rw [shrRoundDown_nonneg _ _ (by simp), hshr]
      simp only [bind, Except.bind, pure, Except.pure, Bool.false_eq_true, if_false]
      rw [fromBiguint_ofNat_plus, bigint_val_plus, hcast, Int.natCast_ediv]
    | minus =>
      rw [shrRoundDown_minus m k hx.1 hne hk hlen, hshr]
      simp only [bind, Except.bind, pure, Except.pure]
      rw [bigint_val_minus, neg_ediv_pow]
      by_cases hr : val m % 2 ^ k.toNat = 0
      · simp only [hr, ne_eq, not_true_eq_false, decide_false, Bool.false_eq_true, if_false, if_true]
        rw [fromBiguint_ofNat_minus]; simp
      · simp only [hr, ne_eq, not_false_eq_true, decide_true, if_true, if_false]
        rw [addAssignU32_spec P _ (ofNat_canon _), ofNat_val, fromBiguint_ofNat_minus]
        push_cast; rw [Int.neg_add]; rfl

theorem bigint_shr_eq_shiftRight (P : Params) (x : BigInt) (k : Int) (hx : x.Canon) (hk : 0 ≤ k)
    (hlen : BITS * x.mag.length < U64_RANGE) :
    BigInt.shr P x k = .ok (BigInt.ofInt (x.val >>> k.toNat)) := by
  rw [bigint_shr_spec P x k hx hk hlen, Int.shiftRight_eq_div_pow]; norm_cast

/-- `x >>= k` -/
theorem bigint_shrAssign_spec (P : Params) (x : BigInt) (k : Int) (hx : x.Canon) (hk : 0 ≤ k)
    (hlen : BITS * x.mag.length < U64_RANGE) :
    BigInt.shrAssign P x k = .ok (BigInt.ofInt (x.val / 2 ^ k.toNat)) := by
  have hl : x.mag.length < USIZE_RANGE := by unfold USIZE_RANGE U64_RANGE BITS at *; omega
  have hshr := shr_spec x.mag k hx.1 hk hl
  have hcast : (2 : Int) ^ k.toNat = ((2 ^ k.toNat : Nat) : Int) := by push_cast; rfl
  unfold BigInt.shrAssign
  rcases bigint_canon_cases hx with h0 | ⟨hs, hne, hpos⟩
  · rw [h0] at hshr ⊢
    rw [shrRoundDown_nonneg _ _ (by simp), hshr]
    simp [bind, Except.bind, pure, Except.pure, BigInt.val, BigInt.ofInt, val, ofNat]
  · obtain ⟨s, m⟩ := x
    simp only at *
    cases s with
    | nosign => exact absurd rfl hs
    | plus =>
      rw [shrRoundDown_nonneg _ _ (by simp), hshr]
      simp only [bind, Except.bind, pure, Except.pure, Bool.false_eq_true, if_false]
      rw [bigint_val_plus, hcast, ← Int.natCast_ediv]
      by_cases hz : val m / 2 ^ k.toNat = 0
      · rw [hz]; simp [ofNat, BigInt.ofInt]
      · have : ofNat (val m / 2 ^ k.toNat) ≠ [] := by rw [ne_eq, ofNat_eq_nil_iff]; exact hz
        simp only [this, if_false]
        rw [ofInt_of_pos (Nat.pos_of_ne_zero hz)]
    | minus =>
      rw [shrRoundDown_minus m k hx.1 hne hk hlen, hshr]
      simp only [bind, Except.bind, pure, Except.pure]
      rw [bigint_val_minus, neg_ediv_pow]
      by_cases hr : val m % 2 ^ k.toNat = 0
      · simp only [hr, ne_eq, not_true_eq_false, decide_false, Bool.false_eq_true, if_false, if_true]
        by_cases hz : val m / 2 ^ k.toNat = 0
        · rw [hz]; simp [ofNat, BigInt.ofInt]
        · have : ofNat (val m / 2 ^ k.toNat) ≠ [] := by rw [ne_eq, ofNat_eq_nil_iff]; exact hz
          simp only [this, if_false, Int.sub_zero]
          rw [ofInt_neg_of_pos (Nat.pos_of_ne_zero hz)]
      · simp only [hr, ne_eq, not_false_eq_true, decide_true, if_true, if_false]
        rw [addAssignU32_spec P _ (ofNat_canon _), ofNat_val]
        have : -((val m / 2 ^ k.toNat : Nat) : Int) - 1 = -((val m / 2 ^ k.toNat + 1 : Nat) : Int) := by
          push_cast; rw [Int.neg_add]; rfl
        rw [this, ofInt_neg_of_pos (Nat.succ_pos _)]

/-! ## `!x` -/

/-- `!&x = −x − 1` -/
theorem bigint_notRef_spec (P : Params) (x : BigInt) (hx : x.Canon) :
    BigInt.notRef P x = .ok (BigInt.ofInt (-x.val - 1)) := by
  unfold BigInt.notRef
  rcases bigint_canon_cases hx with h0 | ⟨hs, hne, hpos⟩
  · rw [h0]
    simp only [BigInt.neg, Sign.neg, BigInt.val]
    rw [show (-(0 : Int) - 1) = -((1 : Nat) : Int) by simp, ofInt_neg_of_pos (by decide), ofNat_one]
  · obtain ⟨s, m⟩ := x
    simp only at *
    cases s with
    | nosign => exact absurd rfl hs
    | plus =>
      simp only
      rw [addAssignU32_spec P m hx.1, fromU_ofNat, ofInt_of_pos (Nat.succ_pos _), bigint_val_plus]
      simp only [BigInt.neg, Sign.neg]
      rw [show -(val m : Int) - 1 = -((val m + 1 : Nat) : Int) by push_cast; rw [Int.neg_add]; rfl,
        ofInt_neg_of_pos (Nat.succ_pos _)]
    | minus =>
      simp only
      rw [subAssignU32_spec P m hx.1 hpos, bigint_val_minus]
      show Except.ok _ = _
      rw [fromU_ofNat]
      congr 2; omega

/-- `!x = −x − 1` (by value) -/
theorem bigint_notVal_spec (P : Params) (x : BigInt) (hx : x.Canon) :
    BigInt.notVal P x = .ok (BigInt.ofInt (-x.val - 1)) := by
  unfold BigInt.notVal
  have hplus : ∀ m : List Nat, Canon m → (Except.ok ⟨.minus, addAssignU32 P m 1⟩ : Except Panic BigInt) =
      .ok (BigInt.ofInt (-(val m : Int) - 1)) := by
    intro m hm
    rw [addAssignU32_spec P m hm,
      show -(val m : Int) - 1 = -((val m + 1 : Nat) : Int) by push_cast; rw [Int.neg_add]; rfl,
      ofInt_neg_of_pos (Nat.succ_pos _)]
  rcases bigint_canon_cases hx with h0 | ⟨hs, hne, hpos⟩
  · rw [h0]; simp only
    have := hplus [] canon_nil
    simpa [BigInt.val, val] using this
  · obtain ⟨s, m⟩ := x
    simp only at *
    cases s with
    | nosign => exact absurd rfl hs
    | plus => simp only; rw [bigint_val_plus]; exact hplus m hx.1
    | minus =>
      simp only
      rw [subAssignU32_spec P m hx.1 hpos, bigint_val_minus]
      show Except.ok _ = _
      have : -(-(val m : Int)) - 1 = ((val m - 1 : Nat) : Int) := by omega
      rw [this, ← fromU_ofNat]
      unfold BigInt.fromU
      split <;> simp_all

/-! ## `BigInt::bit` -/

/-- `x.bit(k)` is bit `k` of the infinite two's complement expansion of `x` -/
theorem bigint_bit_spec (x : BigInt) (k : Nat) (hx : x.Canon) :
    BigInt.bit x k = .ok (Int.testBit x.val k) := by
  unfold BigInt.bit
  rcases bigint_canon_cases hx with h0 | ⟨hs, hne, hpos⟩
  · rw [h0]; simp [bitU, BigInt.val, Int.testBit]
  · obtain ⟨s, m⟩ := x
    simp only at *
    cases s with
    | nosign => exact absurd rfl hs
    | plus =>
      simp only [reduceCtorEq, if_false]
      rw [bitU_spec m hx.1.1, bigint_val_plus]; rfl
    | minus =>
      simp only [if_true]
      have hv : (⟨.minus, m⟩ : BigInt).val = Int.negSucc (val m - 1) := by
        rw [bigint_val_minus, Int.negSucc_eq]; omega
      rw [hv]
      show _ = Except.ok (!(val m - 1).testBit k)
      by_cases hge : k ≥ BITS * m.length
      · simp only [hge, if_true]
        have : (val m - 1).testBit k = false := by
          apply Nat.testBit_lt_two_pow
          calc val m - 1 < B ^ m.length := by have h1 : val m < B ^ m.length := val_lt hx.1.1; omega
            _ = 2 ^ (BITS * m.length) := B_pow _
            _ ≤ 2 ^ k := Nat.pow_le_pow_right (by decide) hge
        rw [this]; rfl
      · simp only [hge, if_false]
        obtain ⟨t, q, ht, hq⟩ := (trailingZerosU_spec m hx.1.1).2 (by omega)
        rw [ht]
        simp only
        rw [hq, testBit_pred_odd_mul, bitU_spec m hx.1.1, hq]
        congr 1
        rcases Nat.lt_trichotomy k t with h | h | h
        · simp [Nat.compare_eq_lt.2 h, h]
        · subst h; simp
        · have h1 : ¬ k < t := by omega
          have h2 : ¬ k = t := by omega
          simp [Nat.compare_eq_gt.2 h, h1, h2]

/-! ## BigInt `& | ^` against Mathlib's `Int.land`, `Int.lor`, `Int.xor` -/

/-- `x &= &y` for all nine sign pairs -/
theorem bigint_andAssign_spec (x y : BigInt) (hx : x.Canon) (hy : y.Canon) :
    BigInt.andAssign x y = .ok (BigInt.ofInt (Int.land x.val y.val)) := by
  obtain ⟨sx, mx⟩ := x
  obtain ⟨sy, my⟩ := y
  unfold BigInt.andAssign
  cases sx <;> cases sy <;> simp only
  case nosign.nosign | nosign.plus | nosign.minus =>
    rw [show (⟨.nosign, mx⟩ : BigInt).val = 0 from rfl, int_zero_land, bigint_nosign_eq hx]
  case plus.nosign | minus.nosign =>
    rw [show (⟨.nosign, my⟩ : BigInt).val = 0 from rfl, int_land_zero]; rfl
  case plus.plus =>
    rw [andAssign_spec mx my hx.1 hy.1, plus_if_ofNat]; rfl
  case plus.minus =>
    obtain ⟨out, h1, h2, h3⟩ := bitandPosNeg_spec mx my hx.1 hy.1 (bigint_mag_ne hy (by simp))
    rw [h1]; dsimp only [Except.map]
    rw [normalizeI_plus h2, h3]; rfl
  case minus.plus =>
    obtain ⟨out, h1, h2, h3⟩ := bitandNegPos_spec mx my hx.1 hy.1 (bigint_mag_ne hx (by simp))
    rw [h1]; dsimp only [Except.map]
    rw [normalizeI_plus h2, h3]; rfl
  case minus.minus =>
    obtain ⟨out, h1, h2, h3⟩ := bitandNegNeg_spec mx my hx.1 hy.1 (bigint_mag_ne hx (by simp)) (bigint_mag_ne hy (by simp))
    rw [h1]; dsimp only [Except.map]
    rw [normalizeI_minus h2, h3]; rfl

/-- `&x & &y` for all nine sign pairs -/
theorem bigint_andRef_spec (x y : BigInt) (hx : x.Canon) (hy : y.Canon) :
    BigInt.andRef x y = .ok (BigInt.ofInt (Int.land x.val y.val)) := by
  have h1 := bigint_andAssign_spec x y hx hy
  have h2 := bigint_andAssign_spec y x hy hx
  rw [int_land_comm] at h2
  obtain ⟨sx, mx⟩ := x
  obtain ⟨sy, my⟩ := y
  unfold BigInt.andRef
  cases sx <;> cases sy <;> simp only
  case nosign.nosign | nosign.plus | nosign.minus =>
    rw [show (⟨.nosign, mx⟩ : BigInt).val = 0 from rfl, int_zero_land]; rfl
  case plus.nosign | minus.nosign =>
    rw [show (⟨.nosign, my⟩ : BigInt).val = 0 from rfl, int_land_zero]; rfl
  case plus.plus =>
    rw [andRef_spec mx my hx.1 hy.1, fromU_ofNat]; rfl
  case plus.minus => exact h1
  case minus.plus => exact h2
  case minus.minus => split <;> assumption

/-- `x |= &y` for all nine sign pairs -/
theorem bigint_orAssign_spec (x y : BigInt) (hx : x.Canon) (hy : y.Canon) :
    BigInt.orAssign x y = .ok (BigInt.ofInt (Int.lor x.val y.val)) := by
  obtain ⟨sx, mx⟩ := x
  obtain ⟨sy, my⟩ := y
  unfold BigInt.orAssign
  cases sx <;> cases sy <;> simp only
  case nosign.nosign | plus.nosign | minus.nosign =>
    rw [show (⟨.nosign, my⟩ : BigInt).val = 0 from rfl, int_lor_zero, ← bigint_canon_eq_ofInt hx]
  case nosign.plus | nosign.minus =>
    rw [show (⟨.nosign, mx⟩ : BigInt).val = 0 from rfl, int_zero_lor, ← bigint_canon_eq_ofInt hy]
  case plus.plus =>
    rw [orAssign_spec mx my hx.1 hy.1]
    have hpos : 0 < val mx ||| val my :=
      Nat.lt_of_lt_of_le (canon_val_pos hx.1 (bigint_mag_ne hx (by simp))) Nat.left_le_or
    rw [← ofInt_of_pos hpos]; rfl
  case plus.minus =>
    obtain ⟨out, h1, h2, h3⟩ := bitorPosNeg_spec mx my hx.1 hy.1 (bigint_mag_ne hy (by simp))
    rw [h1]; dsimp only [Except.map]
    rw [normalizeI_minus h2, h3]; rfl
  case minus.plus =>
    obtain ⟨out, h1, h2, h3⟩ := bitorNegPos_spec mx my hx.1 hy.1 (bigint_mag_ne hx (by simp))
    rw [h1]; dsimp only [Except.map]
    rw [normalizeI_minus h2, h3]; rfl
  case minus.minus =>
    obtain ⟨out, h1, h2, h3⟩ := bitorNegNeg_spec mx my hx.1 hy.1 (bigint_mag_ne hx (by simp)) (bigint_mag_ne hy (by simp))
    rw [h1]; dsimp only [Except.map]
    rw [normalizeI_minus h2, h3]; rfl

/-- `&x | &y` for all nine sign pairs -/
theorem bigint_orRef_spec (x y : BigInt) (hx : x.Canon) (hy : y.Canon) :
    BigInt.orRef x y = .ok (BigInt.ofInt (Int.lor x.val y.val)) := by
  have h1 := bigint_orAssign_spec x y hx hy
  have h2 := bigint_orAssign_spec y x hy hx
  rw [int_lor_comm] at h2
  obtain ⟨sx, mx⟩ := x
  obtain ⟨sy, my⟩ := y
  unfold BigInt.orRef
  cases sx <;> cases sy <;> simp only
  case nosign.nosign | nosign.plus | nosign.minus =>
    rw [show (⟨.nosign, mx⟩ : BigInt).val = 0 from rfl, int_zero_lor, ← bigint_canon_eq_ofInt hy]
  case plus.nosign | minus.nosign =>
    rw [show (⟨.nosign, my⟩ : BigInt).val = 0 from rfl, int_lor_zero, ← bigint_canon_eq_ofInt hx]
  case plus.plus =>
    rw [orRef_spec mx my hx.1 hy.1, fromU_ofNat]; rfl
  case plus.minus => exact h2
  case minus.plus => exact h1
  case minus.minus => split <;> assumption

/-- `x ^= &y` for all nine sign pairs -/
theorem bigint_xorAssign_spec (x y : BigInt) (hx : x.Canon) (hy : y.Canon) :
    BigInt.xorAssign x y = .ok (BigInt.ofInt (Int.xor x.val y.val)) := by
  obtain ⟨sx, mx⟩ := x
  obtain ⟨sy, my⟩ := y
  unfold BigInt.xorAssign
  cases sx <;> cases sy <;> simp only
  case nosign.nosign | plus.nosign | minus.nosign =>
    rw [show (⟨.nosign, my⟩ : BigInt).val = 0 from rfl, int_xor_zero, ← bigint_canon_eq_ofInt hx]
  case nosign.plus | nosign.minus =>
    rw [show (⟨.nosign, mx⟩ : BigInt).val = 0 from rfl, int_zero_xor, ← bigint_canon_eq_ofInt hy]
  case plus.plus =>
    rw [xorAssign_spec mx my hx.1 hy.1, plus_if_ofNat]; rfl
  case plus.minus =>
    obtain ⟨out, h1, h2, h3⟩ := bitxorPosNeg_spec mx my hx.1 hy.1 (bigint_mag_ne hy (by simp))
    rw [h1]; dsimp only [Except.map]
    rw [normalizeI_minus h2, h3]; rfl
  case minus.plus =>
    obtain ⟨out, h1, h2, h3⟩ := bitxorNegPos_spec mx my hx.1 hy.1 (bigint_mag_ne hx (by simp))
    rw [h1]; dsimp only [Except.map]
    rw [normalizeI_minus h2, h3]; rfl
  case minus.minus =>
    obtain ⟨out, h1, h2, h3⟩ := bitxorNegNeg_spec mx my hx.1 hy.1 (bigint_mag_ne hx (by simp)) (bigint_mag_ne hy (by simp))
    rw [h1]; dsimp only [Except.map]
    rw [normalizeI_plus h2, h3]; rfl

/-- `&x ^ &y` for all nine sign pairs -/
theorem bigint_xorRef_spec (x y : BigInt) (hx : x.Canon) (hy : y.Canon) :
    BigInt.xorRef x y = .ok (BigInt.ofInt (Int.xor x.val y.val)) := by
  unfold BigInt.xorRef
  split
  · exact bigint_xorAssign_spec x y hx hy
  · rw [bigint_xorAssign_spec y x hy hx, int_xor_comm]

/-! ## `BigInt::set_bit` (with `set_negative_bit`, all five sub-cases) -/

/-- `x.set_bit(k, v)`: the canonical representation of `x | 2^k` (v = true) resp. `x & !2^k`
    (v = false, Mathlib's `Int.ldiff`) on the infinite two's complement expansion -/
theorem bigint_set_bit_spec (x : BigInt) (k : Nat) (v : Bool) (hx : x.Canon) :
    BigInt.setBit x k v = .ok (BigInt.ofInt
      (if v then Int.lor x.val ((2 ^ k : Nat) : Int) else Int.ldiff x.val ((2 ^ k : Nat) : Int))) := by
  unfold BigInt.setBit
  have hplus : ∀ (m : List Nat), Canon m →
      BigInt.normalizeI ⟨.plus, setBitU m k v⟩ = BigInt.ofInt
        (if v then Int.lor (val m : Int) ((2 ^ k : Nat) : Int) else Int.ldiff (val m : Int) ((2 ^ k : Nat) : Int)) := by
    intro m hm
    cases v with
    | true =>
      obtain ⟨s1, s2⟩ := setBitU_true m k hm
      rw [normalizeI_plus s2.1, s1]; rfl
    | false =>
      obtain ⟨s1, s2⟩ := setBitU_false m k hm
      rw [normalizeI_plus s2.1, s1]; rfl
  rcases bigint_canon_cases hx with h0 | ⟨hs, hne, hpos⟩
  · rw [h0]
    simp only [Except.map]
    cases v with
    | true =>
      have := hplus [] canon_nil
      simp only [if_true] at this ⊢
      rw [this]; rfl
    | false =>
      simp only [Bool.false_eq_true, if_false]
      have hz : Nat.ldiff 0 (2 ^ k) = 0 := Nat.le_zero.mp (ldiff_le 0 _)
      have e : Int.ldiff (⟨.nosign, []⟩ : BigInt).val ((2 ^ k : Nat) : Int) = 0 := by
        show ((Nat.ldiff 0 (2 ^ k) : Nat) : Int) = 0
        rw [hz]; rfl
      rw [e]
      rfl
  · obtain ⟨s, m⟩ := x
    simp only at *
    cases s with
    | nosign => exact absurd rfl hs
    | plus =>
      simp only [Except.map]
      rw [hplus m hx.1]; rfl
    | minus =>
      obtain ⟨out, h1, h2, h3⟩ := setNegativeBit_spec m k v hx.1 hne
      simp only
      rw [h1]
      simp only [Except.map]
      rw [normalizeI_minus h2, h3, negSetTarget_int _ _ _ hpos]; rfl

/-- `set_negative_bit`'s `unwrap`s, its slice indexing and its `debug_assert_eq!(carry_in, 0)` cannot fire -/
theorem setNegativeBit_no_internal (data : List Nat) (k : Nat) (v : Bool) (h : Canon data) (hne : data ≠ []) :
    ∃ out, setNegativeBit data k v = .ok out := by
  obtain ⟨out, h1, _⟩ := setNegativeBit_spec data k v h hne; exact ⟨out, h1⟩

/-- after `set_bit(k, b)` bit `k` of the two's complement expansion reads `b`, all others are unchanged -/
theorem bigint_set_bit_testBit (x : BigInt) (k : Nat) (b : Bool) (hx : x.Canon) (i : Nat) :
    ∃ y, BigInt.setBit x k b = .ok y ∧ y.Canon ∧
      Int.testBit y.val i = if i = k then b else Int.testBit x.val i := by
  refine ⟨_, bigint_set_bit_spec x k b hx, bigint_ofInt_canon _, ?_⟩
  rw [bigint_ofInt_val]
  have hp : Int.testBit ((2 ^ k : Nat) : Int) i = decide (k = i) := by
    show Nat.testBit (2 ^ k) i = _
    exact Nat.testBit_two_pow
  cases b with
  | true =>
    simp only [if_true]
    rw [Int.testBit_lor, hp]
    by_cases hik : i = k
    · subst hik; simp
    · have : ¬ k = i := fun e => hik e.symm
      simp [hik, this]
  | false =>
    simp only [Bool.false_eq_true, if_false]
    rw [Int.testBit_ldiff, hp]
    by_cases hik : i = k
    · subst hik; simp
    · have : ¬ k = i := fun e => hik e.symm
      simp [hik, this]

/-! ## internal assertions are unreachable

Every `debug_assert!` / `unwrap` / `expect` of the modelled routines is an `.error (.internal …)`
outcome of the model.  The `_spec` theorems above show `.ok …` for all canonical operands, so none
of them can fire; the statements below spell that out per routine. -/

theorem signed_routines_no_internal (a b : List Nat) (ha : Canon a) (hb : Canon b)
    (hane : a ≠ []) (hbne : b ≠ []) :
    (∃ r, bitandPosNeg a b = .ok r) ∧ (∃ r, bitandNegPos a b = .ok r) ∧ (∃ r, bitandNegNeg a b = .ok r) ∧
    (∃ r, bitorPosNeg a b = .ok r) ∧ (∃ r, bitorNegPos a b = .ok r) ∧ (∃ r, bitorNegNeg a b = .ok r) ∧
    (∃ r, bitxorPosNeg a b = .ok r) ∧ (∃ r, bitxorNegPos a b = .ok r) ∧ (∃ r, bitxorNegNeg a b = .ok r) := by
  refine ⟨?_, ?_, ?_, ?_, ?_, ?_, ?_, ?_, ?_⟩
  · obtain ⟨r, h, _⟩ := bitandPosNeg_spec a b ha hb hbne; exact ⟨r, h⟩
  · obtain ⟨r, h, _⟩ := bitandNegPos_spec a b ha hb hane; exact ⟨r, h⟩
  · obtain ⟨r, h, _⟩ := bitandNegNeg_spec a b ha hb hane hbne; exact ⟨r, h⟩
  · obtain ⟨r, h, _⟩ := bitorPosNeg_spec a b ha hb hbne; exact ⟨r, h⟩
  · obtain ⟨r, h, _⟩ := bitorNegPos_spec a b ha hb hane; exact ⟨r, h⟩
  · obtain ⟨r, h, _⟩ := bitorNegNeg_spec a b ha hb hane hbne; exact ⟨r, h⟩
  · obtain ⟨r, h, _⟩ := bitxorPosNeg_spec a b ha hb hbne; exact ⟨r, h⟩
  · obtain ⟨r, h, _⟩ := bitxorNegPos_spec a b ha hb hane; exact ⟨r, h⟩
  · obtain ⟨r, h, _⟩ := bitxorNegNeg_spec a b ha hb hane hbne; exact ⟨r, h⟩

/-- `shr_round_down`'s `expect("negative values are non-zero")` cannot fire -/
theorem shrRoundDown_no_internal (x : BigInt) (k : Int) (hx : x.Canon) :
    ∃ b, shrRoundDown x k = .ok b := by
  unfold shrRoundDown
  by_cases hs : x.sign = .minus
  · simp only [hs, if_true]
    rcases bigint_canon_cases hx with h0 | ⟨_, hne, hpos⟩
    · rw [h0] at hs; cases hs
    · obtain ⟨t, m, ht, _⟩ := (trailingZerosU_spec x.mag hx.1.1).2 (by omega)
      rw [ht]; exact ⟨_, rfl⟩
  · simp [hs]

/-! ## non-vacuity: the hypotheses hold on concrete multi-digit operands -/

example : Canon [0, 0, B - 1] ∧ Canon [B - 1, B - 1] := by decide
example : (⟨.minus, [0, 1]⟩ : BigInt).Canon ∧ (⟨.minus, [B - 1]⟩ : BigInt).Canon := by decide
-- `-(B-1) & -2 = -B`: the re-negation carry pushes an extra digit
example : BigInt.andAssign ⟨.minus, [B - 1]⟩ ⟨.minus, [2]⟩ = .ok ⟨.minus, [0, 1]⟩ := by decide
-- `-B >> 64 = -1`, `-(B+1) >> 64 = -2` (floor)
example : BigInt.shr NB.Gen.P ⟨.minus, [1, 1]⟩ 64 = .ok ⟨.minus, [2]⟩ := by decide

end NB.C07
