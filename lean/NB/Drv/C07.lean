/- driver handlers for stream C07 (bitwise logic, shifts, bit queries).
   The oracle column is computed from the operand *values* with Lean's `Nat`/`Int` arithmetic only
   (two's complement on a window one digit wider than both operands, floor division, `2^k`), never
   through the model's digit routines. -/
import NB.Wire
import NB.Model.Bits
import NB.Model.Shift
import NB.Model.AsmParams
import NB.Model.BitsRL
namespace NB.Drv.C07
open NB NB.Wire NB.C07

def P := NB.Gen.P

def su := showExcept showLimbs
def si := showExcept showBigInt
def sn (n : Nat) : String := "ok " ++ toString n
def sb (b : Bool) : String := "ok " ++ showBool b
def son : Option Nat → String
  | some n => "some " ++ toString n
  | none => "none"

/-! #### oracles -/

/-- two's complement of `z` on `w` bits -/
def twoc (w : Nat) (z : Int) : Nat := (z % ((2 : Int) ^ w)).toNat
/-- the signed value of a `w`-bit two's complement pattern -/
def untwoc (w : Nat) (r : Nat) : Int := if r ≥ 2 ^ (w - 1) then (r : Int) - (2 : Int) ^ w else r

/-- signed bit operation through a window wide enough for both operands and the sign bit -/
def oBitop (f : Nat → Nat → Nat) (x y : BigInt) : String :=
  let w := 64 * (max x.mag.length y.mag.length + 1)
  si (.ok (BigInt.ofInt (untwoc w (f (twoc w x.val) (twoc w y.val)))))

/-- bit `k` of the infinite two's complement expansion of `z`, where `|z| < 2^lim`
    (at and above `lim` every bit equals the sign; below, it is `floor(z / 2^k) mod 2`) -/
def oBit (lim : Nat) (z : Int) (k : Nat) : Bool :=
  if k ≥ lim then decide (z < 0) else (z / (2 : Int) ^ k) % 2 == 1

/-- setting / clearing a bit that already has the wanted value changes nothing; otherwise it
    adds / subtracts `2^k` (not evaluated when that would not fit in memory) -/
def oSetBit (lim : Nat) (z : Int) (k : Nat) (v : Bool) : Option Int :=
  if oBit lim z k == v then some z
  else if k > 2 ^ 27 then none
  else if v then some (z + (2 : Int) ^ k) else some (z - (2 : Int) ^ k)

def oBits (n : Nat) : Nat := if n = 0 then 0 else Nat.log2 n + 1
/-- index of the lowest set bit: `n ^^^ (n-1)` is a block of `t+1` ones -/
def oTz (n : Nat) : Option Nat := if n = 0 then none else some (Nat.log2 (n ^^^ (n - 1)))
def oTo (n : Nat) : Nat := (oTz (n + 1)).getD 0

/-- population count by halving the bit width -/
def oPop : Nat → Nat → Nat → Nat
  | 0, _, n => n % 2
  | f + 1, w, n =>
    if w ≤ 1 then n % 2 else
    let h := w / 2
    oPop f h (n % 2 ^ h) + oPop f (w - h) (n / 2 ^ h)

def oCountOnes (n : Nat) : Nat := let w := oBits n; oPop (w + 1) w n

/-! #### shift amounts `<type>:<decimal>` -/

def tyRange (t : String) : Option (Int × Int) :=
  match t with
  | "u8" => some (0, 2^8 - 1) | "u16" => some (0, 2^16 - 1) | "u32" => some (0, 2^32 - 1)
  | "u64" => some (0, 2^64 - 1) | "u128" => some (0, 2^128 - 1) | "usize" => some (0, 2^64 - 1)
  | "i8" => some (-2^7, 2^7 - 1) | "i16" => some (-2^15, 2^15 - 1) | "i32" => some (-2^31, 2^31 - 1)
  | "i64" => some (-2^63, 2^63 - 1) | "i128" => some (-2^127, 2^127 - 1) | "isize" => some (-2^63, 2^63 - 1)
  | _ => none

def parseShift (s : String) : Option Int :=
  match s.splitOn ":" with
  | [t, v] => do
    let (lo, hi) ← tyRange t
    let k ← parseInt v
    if lo ≤ k ∧ k ≤ hi then some k else none
  | _ => none

def parseIdx (s : String) : Option Nat := do
  let k ← parseNat s
  if k < 2 ^ 64 then some k else none

def parseBool (s : String) : Option Bool :=
  if s == "1" then some true else if s == "0" then some false else none

/-- left shifts whose result would not fit in memory are not evaluated -/
def shlLimit : Nat := 2 ^ 27

def oShlU (a : List Nat) (k : Int) : Option String :=
  if k < 0 then some "panic negshift" else
  if a = [] then some (su (.ok [])) else
  if k.toNat / 64 ≥ 2 ^ 64 then some "panic capacity" else   -- resource limit, not a value
  if k.toNat > shlLimit then none else
  some (su (.ok (ofNat (val a * 2 ^ k.toNat))))

def oShrU (a : List Nat) (k : Int) : String :=
  if k < 0 then "panic negshift" else
  if k.toNat > 64 * a.length then su (.ok []) else
  su (.ok (ofNat (val a / 2 ^ k.toNat)))

def oShlI (x : BigInt) (k : Int) : Option String :=
  if k < 0 then some "panic negshift" else
  if x.mag = [] then some (si (.ok (BigInt.ofInt 0))) else
  if k.toNat / 64 ≥ 2 ^ 64 then some "panic capacity" else
  if k.toNat > shlLimit then none else
  some (si (.ok (BigInt.ofInt (x.val * (2 : Int) ^ k.toNat))))

/-- floor division by `2^k` (Lean's `Int./` rounds toward −∞ for a positive divisor) -/
def oShrI (x : BigInt) (k : Int) : String :=
  if k < 0 then "panic negshift" else
  if k.toNat > 64 * x.mag.length then si (.ok (BigInt.ofInt (if x.val < 0 then -1 else 0))) else
  si (.ok (BigInt.ofInt (x.val / (2 : Int) ^ k.toNat)))

/-- `digit*count,digit*count,…` (hex digit, decimal count) -/
def parseRL (s : String) : Option (List (Nat × Nat)) :=
  (s.splitOn ",").mapM (fun t =>
    match t.splitOn "*" with
    | [d, n] => do
      let d ← parseLimbs d
      let n ← n.toNat?
      match d with
      | [x] => some (x, n)
      | [] => some (0, n)
      | _ => none
    | _ => none)

def hugeQuery (q : String) (s : List (Nat × Nat)) : Option String :=
  if q == "count_ones" then some (sn (countOnesRL s))
  else if q == "bits" then some (sn (bitsRL s))
  else if q == "trailing_zeros" then some (son (trailingZerosRL s))
  else if q == "trailing_ones" then some (sn (trailingOnesRL s))
  else match q.splitOn ":" with
    | ["bit", k] => do let k ← k.toNat?; some (sb (bitRL s k))
    | _ => none

/-- independent closed forms over the segments (bit tests on the digits instead of the model's digit intrinsics) -/
def oLowestBit (p : Nat → Bool) : Option Nat := (List.range 64).find? p

def oHuge (q : String) (s : List (Nat × Nat)) : String :=
  let s := s.filter (fun x => x.2 != 0)
  let total := (s.map (·.2)).foldl (· + ·) 0
  let firstWhere (p : Nat → Bool) : Option (Nat × Nat) :=   -- (digits before, digit)
    (s.foldl (fun (acc : Nat × Option (Nat × Nat)) x =>
      match acc.2 with
      | some _ => acc
      | none => if p x.1 then (acc.1, some (acc.1, x.1)) else (acc.1 + x.2, none)) (0, none)).2
  if q == "count_ones" then
    sn ((s.map (fun x => x.2 * ((List.range 64).filter (fun i => x.1.testBit i)).length)).foldl (· + ·) 0)
  else if q == "bits" then
    match s.getLast? with
    | none => sn 0
    | some (top, _) => if top = 0 then "-" else sn (64 * (total - 1) + Nat.log2 top + 1)
  else if q == "trailing_zeros" then
    match firstWhere (fun d => d % B != 0) with
    | none => "none"
    | some (off, d) => match oLowestBit (fun i => d.testBit i) with
      | some i => "some " ++ toString (64 * off + i)
      | none => "-"
  else if q == "trailing_ones" then
    match firstWhere (fun d => d % B != B - 1) with
    | none => sn (64 * total)
    | some (off, d) => match oLowestBit (fun i => !d.testBit i) with
      | some i => sn (64 * off + i)
      | none => "-"
  else match q.splitOn ":" with
    | ["bit", k] =>
      match k.toNat? with
      | none => "-"
      | some k =>
        let idx := k / 64
        let r := s.foldl (fun (acc : Nat × Option Bool) x =>
          match acc.2 with
          | some _ => acc
          | none => if idx < acc.1 + x.2 then (acc.1, some (x.1.testBit (k % 64))) else (acc.1 + x.2, none)) (0, none)
        sb (r.2.getD false)
    | _ => "-"

def handle (op : String) (args : List String) : Option (String × String) :=
  match op, args with
  | "u.and", [a, b] => do
    let a ← parseLimbs a; let b ← parseLimbs b
    pure (su (.ok (andRef a b)), su (.ok (ofNat (val a &&& val b))))
  | "u.and_assign", [a, b] => do
    let a ← parseLimbs a; let b ← parseLimbs b
    pure (su (.ok (andAssign a b)), su (.ok (ofNat (val a &&& val b))))
  | "u.or", [a, b] => do
    let a ← parseLimbs a; let b ← parseLimbs b
    pure (su (.ok (orRef a b)), su (.ok (ofNat (val a ||| val b))))
  | "u.or_assign", [a, b] => do
    let a ← parseLimbs a; let b ← parseLimbs b
    pure (su (.ok (orAssign a b)), su (.ok (ofNat (val a ||| val b))))
  | "u.xor", [a, b] => do
    let a ← parseLimbs a; let b ← parseLimbs b
    pure (su (.ok (xorRef a b)), su (.ok (ofNat (val a ^^^ val b))))
  | "u.xor_assign", [a, b] => do
    let a ← parseLimbs a; let b ← parseLimbs b
    pure (su (.ok (xorAssign a b)), su (.ok (ofNat (val a ^^^ val b))))
  | "i.and", [a, b] => do
    let a ← parseBigInt a; let b ← parseBigInt b
    pure (si (BigInt.andRef a b), oBitop (· &&& ·) a b)
  | "i.and_assign", [a, b] => do
    let a ← parseBigInt a; let b ← parseBigInt b
    pure (si (BigInt.andAssign a b), oBitop (· &&& ·) a b)
  | "i.or", [a, b] => do
    let a ← parseBigInt a; let b ← parseBigInt b
    pure (si (BigInt.orRef a b), oBitop (· ||| ·) a b)
  | "i.or_assign", [a, b] => do
    let a ← parseBigInt a; let b ← parseBigInt b
    pure (si (BigInt.orAssign a b), oBitop (· ||| ·) a b)
  | "i.xor", [a, b] => do
    let a ← parseBigInt a; let b ← parseBigInt b
    pure (si (BigInt.xorRef a b), oBitop (· ^^^ ·) a b)
  | "i.xor_assign", [a, b] => do
    let a ← parseBigInt a; let b ← parseBigInt b
    pure (si (BigInt.xorAssign a b), oBitop (· ^^^ ·) a b)
  | "i.not", [a] => do
    let a ← parseBigInt a
    pure (si (BigInt.notRef P a), si (.ok (BigInt.ofInt (-a.val - 1))))
  | "i.not_val", [a] => do
    let a ← parseBigInt a
    pure (si (BigInt.notVal P a), si (.ok (BigInt.ofInt (-a.val - 1))))
  | "u.shl", [a, k] | "u.shl_assign", [a, k] => do
    let a ← parseLimbs a; let k ← parseShift k
    let o ← oShlU a k
    pure (su (biguintShl a k), o)
  | "u.shr", [a, k] | "u.shr_assign", [a, k] => do
    let a ← parseLimbs a; let k ← parseShift k
    pure (su (biguintShr a k), oShrU a k)
  | "i.shl", [a, k] => do
    let a ← parseBigInt a; let k ← parseShift k
    let o ← oShlI a k
    pure (si (BigInt.shl a k), o)
  | "i.shl_assign", [a, k] => do
    let a ← parseBigInt a; let k ← parseShift k
    let o ← oShlI a k
    pure (si (BigInt.shlAssign a k), o)
  | "i.shr", [a, k] => do
    let a ← parseBigInt a; let k ← parseShift k
    pure (si (BigInt.shr P a k), oShrI a k)
  | "i.shr_assign", [a, k] => do
    let a ← parseBigInt a; let k ← parseShift k
    pure (si (BigInt.shrAssign P a k), oShrI a k)
  -- api-coverage: by-value shift impls.  `Shl/Shr<T> for BigUint` call `biguint_shl/shr(Cow::Owned(self), rhs)`
  -- (same routine as the by-reference impls); `Shl<T> for BigInt` is `from_biguint(self.sign, self.data << rhs)`
  -- and `Shr<T> for BigInt` repeats the round-down body of the by-reference impl on owned data.
  | "u.shl_val", [a, k] => do
    let a ← parseLimbs a; let k ← parseShift k
    let o ← oShlU a k
    pure (su (biguintShl a k), o)
  | "u.shr_val", [a, k] => do
    let a ← parseLimbs a; let k ← parseShift k
    pure (su (biguintShr a k), oShrU a k)
  | "i.shl_val", [a, k] => do
    let a ← parseBigInt a; let k ← parseShift k
    let o ← oShlI a k
    pure (si (BigInt.shl a k), o)
  | "i.shr_val", [a, k] => do
    let a ← parseBigInt a; let k ← parseShift k
    pure (si (BigInt.shr P a k), oShrI a k)
  | "u.bit", [a, k] => do
    let a ← parseLimbs a; let k ← parseIdx k
    pure (sb (bitU a k), sb (oBit (64 * a.length) (val a) k))
  | "i.bit", [a, k] => do
    let a ← parseBigInt a; let k ← parseIdx k
    pure (showExcept showBool (BigInt.bit a k), sb (oBit (64 * a.mag.length) a.val k))
  | "u.set_bit", [a, k, v] => do
    let a ← parseLimbs a; let k ← parseIdx k; let v ← parseBool v
    let o ← oSetBit (64 * a.length) (val a) k v
    pure (su (.ok (setBitU a k v)), su (.ok (ofNat o.toNat)))
  | "i.set_bit", [a, k, v] => do
    let a ← parseBigInt a; let k ← parseIdx k; let v ← parseBool v
    let o ← oSetBit (64 * a.mag.length) a.val k v
    pure (si (BigInt.setBit a k v), si (.ok (BigInt.ofInt o)))
  | "u.bits", [a] => do
    let a ← parseLimbs a
    pure (sn (bitsU a), sn (oBits (val a)))
  | "i.bits", [a] => do
    let a ← parseBigInt a
    pure (sn (BigInt.bits a), sn (oBits a.val.natAbs))
  | "u.trailing_zeros", [a] => do
    let a ← parseLimbs a
    pure (son (trailingZerosU a), son (oTz (val a)))
  | "i.trailing_zeros", [a] => do
    let a ← parseBigInt a
    pure (son (BigInt.trailingZeros a), son (oTz a.val.natAbs))
  | "u.trailing_ones", [a] => do
    let a ← parseLimbs a
    pure (sn (trailingOnesU a), sn (oTo (val a)))
  | "u.count_ones", [a] => do
    let a ← parseLimbs a
    pure (sn (countOnesU a), sn (oCountOnes (val a)))
  -- bit queries on run-length encoded (huge) operands: the model column evaluates the RL definitions of
  -- NB.Model.BitsRL, proved equal to the list definitions on the expansion (Props/C07RL); oracle: independent closed forms `oHuge`
  | "u.huge", [q, segs] => do
    let s ← parseRL segs
    let r ← hugeQuery q s
    pure (r, oHuge q s)
  | "i.huge", [q, _, segs] => do
    let s ← parseRL segs
    let r ← (if q == "bits" || q == "trailing_zeros" then hugeQuery q s else none)
    pure (r, oHuge q s)
  | _, _ => none

end NB.Drv.C07
