//! stream C11: integer roots (`num_integer::Roots` for BigUint / BigInt)
use crate::wire::*;
use num_integer::Roots;

pub fn handle(op: &str, a: &[&str]) -> Option<String> {
    Some(match (op, a) {
        ("u.sqrt", [x]) => ok_u(&Roots::sqrt(&parse_u(x)?)),
        ("u.cbrt", [x]) => ok_u(&Roots::cbrt(&parse_u(x)?)),
        ("u.nth_root", [x, n]) => {
            let n: u32 = n.parse().ok()?;
            ok_u(&Roots::nth_root(&parse_u(x)?, n))
        }
        ("i.sqrt", [x]) => ok_i(&Roots::sqrt(&parse_i(x)?)),
        ("i.cbrt", [x]) => ok_i(&Roots::cbrt(&parse_i(x)?)),
        ("i.nth_root", [x, n]) => {
            let n: u32 = n.parse().ok()?;
            ok_i(&Roots::nth_root(&parse_i(x)?, n))
        }
        // api-coverage: the INHERENT methods `BigUint::{sqrt,cbrt,nth_root}` / `BigInt::{sqrt,cbrt,nth_root}`
        // (src/biguint.rs, src/bigint.rs: one-line forwarders to the `Roots` impl) — path-qualified so that the
        // inherent method, not the trait method, is called
        ("u.sqrt_m", [x]) => ok_u(&num_bigint::BigUint::sqrt(&parse_u(x)?)),
        ("u.cbrt_m", [x]) => ok_u(&num_bigint::BigUint::cbrt(&parse_u(x)?)),
        ("u.nth_root_m", [x, n]) => {
            let n: u32 = n.parse().ok()?;
            ok_u(&num_bigint::BigUint::nth_root(&parse_u(x)?, n))
        }
        ("i.sqrt_m", [x]) => ok_i(&num_bigint::BigInt::sqrt(&parse_i(x)?)),
        ("i.cbrt_m", [x]) => ok_i(&num_bigint::BigInt::cbrt(&parse_i(x)?)),
        ("i.nth_root_m", [x, n]) => {
            let n: u32 = n.parse().ok()?;
            ok_i(&num_bigint::BigInt::nth_root(&parse_i(x)?, n))
        }
        _ => return None,
    })
}
