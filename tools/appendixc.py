#!/usr/bin/env python3
"""Regenerate DESIGN.md Appendix C (between APPC markers) from the committed evidence files."""
import json, os
V = os.path.dirname(os.path.dirname(os.path.abspath(__file__)))
partial = {"C04": "std hasher observed", "C06": "pad_integral/from_utf8 modelled", "C08": "float hardware assumed",
           "C10": "val/ref forms by form matrix", "C11": "float guess assumed ≥ 1", "C14": "process faults/hangs observed",
           "C15": "real memory observed (valgrind, exact-size blocks)", "C16": "compile success observed (20 configs)",
           "C20": "W ≥ real count measured"}
def find(o, key):
    if isinstance(o, dict):
        if key in o:
            return o[key]
        for v in o.values():
            r = find(v, key)
            if r is not None:
                return r
    if isinstance(o, list):
        for v in o:
            r = find(v, key)
            if r is not None:
                return r
    return None
out = ["| id | category | theorems audited | requests (quick) | profiles | partial? |", "|---|---|---|---|---|---|"]
tot_t = tot_r = 0
for i in range(1, 21):
    pid = "C%02d" % i
    e = json.load(open(os.path.join(V, "evidence", pid + ".json")))
    th = find(e, "discharged") or 0
    rq = find(e, "requests") or 0
    pr = find(e, "profiles") or []
    tot_t += th; tot_r += rq
    out.append("| %s | %s | %d | %d | %s (+ spare-capacity run) | %s |" % (pid, e.get("level", "proof"), th, rq, ",".join(pr), partial.get(pid, "–")))
out.append("| total | | %d | %d | | |" % (tot_t, tot_r))
s = open(os.path.join(V, "DESIGN.md")).read()
a, b = s.index("<!-- APPC-BEGIN -->") + len("<!-- APPC-BEGIN -->"), s.index("<!-- APPC-END -->")
s = s[:a] + "\n" + "\n".join(out) + "\n" + s[b:]
open(os.path.join(V, "DESIGN.md"), "w").write(s)
print(tot_t, tot_r)
