/- driver handlers for stream C04 (equal integers are indistinguishable: Eq / Ord / Hash /
   constructors / histories of in-place operations) -/
import NB.Wire
import NB.Model.Core
import NB.Model.AsmParams
namespace NB.Drv.C04
open NB NB.Wire NB.Core

def P := NB.Gen.P

def parseSignS (s : String) : Option Sign :=
  match s.toList with
  | [c] => parseSign c
  | _ => none

/-- insertion sort with a comparison function (std's `sort` is not modelled; any correct sort of
    values on which `cmp` is a total order consistent with `==` gives the same list) -/
def insertBy {α} (cmp : α → α → Ordering) (x : α) : List α → List α
  | [] => [x]
  | y :: ys => if cmp x y == .gt then y :: insertBy cmp x ys else x :: y :: ys

def sortBy {α} (cmp : α → α → Ordering) (l : List α) : List α := l.foldr (insertBy cmp) []

/-- `core::cmp::max_by`: `match cmp(v1, v2) { Greater => v1, _ => v2 }` -/
def maxBy {α} (cmp : α → α → Ordering) (a b : α) : α := if cmp a b == .gt then a else b
/-- `core::cmp::min_by`: `match cmp(v1, v2) { Greater => v2, _ => v1 }` -/
def minBy {α} (cmp : α → α → Ordering) (a b : α) : α := if cmp a b == .gt then b else a

def showOrdC : Ordering → String
  | .lt => "<" | .eq => "=" | .gt => ">"

def parseAll {α} (f : String → Option α) : List String → Option (List α)
  | [] => some []
  | s :: t => do let a ← f s; let l ← parseAll f t; pure (a :: l)

/-! ### histories -/

def parseImm (s : String) : Option (List Nat) :=
  if s.isEmpty then some [] else parseAll parseHex (s.splitOn ",")

/-- op token `u:<name>:<dst>:<src>[:<imm hex,…>]` / `i:…` -/
def parseOp (t : String) : Option Op :=
  match t.splitOn ":" with
  | [k, name, d, s] => do
    let d ← d.toNat?; let s ← s.toNat?
    if k == "u" then some (.u name d s []) else if k == "i" then some (.i name d s []) else none
  | [k, name, d, s, imm] => do
    let d ← d.toNat?; let s ← s.toNat?; let imm ← parseImm imm
    if k == "u" then some (.u name d s imm) else if k == "i" then some (.i name d s imm) else none
  | _ => none

/-- all unordered pairs of a list, in index order -/
def pairs {α} : List α → List (α × α)
  | [] => []
  | x :: xs => xs.map (fun y => (x, y)) ++ pairs xs

/-- dump of a model state: raw registers, pairwise `cmp == hash==`, and each register against a
    freshly built canonical value of the same integer (`cmp == hash== exports==`) -/
def dumpModel (r : Regs) : String :=
  let us := " ".intercalate (r.u.map showLimbs)
  let is_ := " ".intercalate (r.i.map showBigInt)
  let pu := String.join ((pairs r.u).map fun (a, b) =>
    showOrdC (BigUint.cmp a b) ++ showBool (BigUint.eq a b) ++ showBool (BigUint.hashInput a == BigUint.hashInput b))
  let pi_ := String.join ((pairs r.i).map fun (a, b) =>
    showOrdC (BigInt.cmp a b) ++ showBool (BigInt.eq a b) ++ showBool (BigInt.hashInput a == BigInt.hashInput b))
  let fu := String.join (r.u.map fun a =>
    let f := ofNat (val a)
    showOrdC (BigUint.cmp a f) ++ showBool (BigUint.eq a f) ++ showBool (BigUint.hashInput a == BigUint.hashInput f)
      ++ showBool (BigUint.toU64Digits a == BigUint.toU64Digits f))
  let fi := String.join (r.i.map fun a =>
    let f := BigInt.ofInt a.val
    showOrdC (BigInt.cmp a f) ++ showBool (BigInt.eq a f) ++ showBool (BigInt.hashInput a == BigInt.hashInput f)
      ++ showBool (BigInt.intoParts a == BigInt.intoParts f))
  s!"U {us} I {is_} P {pu};{pi_} F {fu};{fi}"

def dumpSpec (s : SRegs) : String :=
  let us := " ".intercalate (s.u.map fun v => showLimbs (ofNat v))
  let is_ := " ".intercalate (s.i.map fun v => showBigInt (BigInt.ofInt v))
  let pu := String.join ((pairs s.u).map fun (a, b) =>
    showOrdC (compare a b) ++ showBool (a == b) ++ showBool (a == b))
  let pi_ := String.join ((pairs s.i).map fun (a, b) =>
    showOrdC (compare a b) ++ showBool (a == b) ++ showBool (a == b))
  let fu := String.join (s.u.map fun _ => "=111")
  let fi := String.join (s.i.map fun _ => "=111")
  s!"U {us} I {is_} P {pu};{pi_} F {fu};{fi}"

/-- run the op tokens; `!` is a checkpoint (dump the state here as well) -/
def runTokens (nu ni : Nat) : List String → Regs → SRegs → List String → List String → Option (List String × List String)
  | [], r, s, dm, ds => some ((dumpModel r :: dm).reverse, (dumpSpec s :: ds).reverse)
  | t :: ts, r, s, dm, ds =>
    if t == "!" then runTokens nu ni ts r s (dumpModel r :: dm) (dumpSpec s :: ds)
    else match parseOp t with
      | some op => if op.wf nu ni then runTokens nu ni ts (r.step P op) (s.step op) dm ds else none
      | none => none

def splitAtSemi (l : List String) : List String × List String :=
  (l.takeWhile (· ≠ ";"), (l.dropWhile (· ≠ ";")).drop 1)

def hist (args : List String) : Option (String × String) :=
  match args with
  | nu :: ni :: rest => do
    let nu ← nu.toNat?; let ni ← ni.toNat?
    let (vals, ops) := splitAtSemi rest
    if vals.length ≠ nu + ni then none else
    let us ← parseAll parseLimbs (vals.take nu)
    let is_ ← parseAll parseBigInt (vals.drop nu)
    let r : Regs := ⟨us, is_⟩
    let (dm, ds) ← runTokens nu ni ops r r.vals [] []
    pure ("ok " ++ " / ".intercalate dm, "ok " ++ " / ".intercalate ds)
  | _ => none

def sL (l : List (List Nat)) : String := " ".intercalate (l.map showLimbs)
def sI (l : List BigInt) : String := " ".intercalate (l.map showBigInt)

def handle (op : String) (args : List String) : Option (String × String) :=
  match op, args with
  | "u.cmp", [a, b] => do
    let a ← parseLimbs a; let b ← parseLimbs b
    pure (showOrd (BigUint.cmp a b), showOrd (compare (val a) (val b)))
  | "i.cmp", [a, b] => do
    let a ← parseBigInt a; let b ← parseBigInt b
    pure (showOrd (BigInt.cmp a b), showOrd (compare a.val b.val))
  | "u.eq", [a, b] => do
    let a ← parseLimbs a; let b ← parseLimbs b
    pure (showBool (BigUint.eq a b), showBool (val a == val b))
  | "i.eq", [a, b] => do
    let a ← parseBigInt a; let b ← parseBigInt b
    pure (showBool (BigInt.eq a b), showBool (a.val == b.val))
  | "u.hash_eq", [a, b] => do
    let a ← parseLimbs a; let b ← parseLimbs b
    pure (showBool (BigUint.hashInput a == BigUint.hashInput b), showBool (val a == val b))
  | "i.hash_eq", [a, b] => do
    let a ← parseBigInt a; let b ← parseBigInt b
    pure (showBool (BigInt.hashInput a == BigInt.hashInput b), showBool (a.val == b.val))
  | "u.max", [a, b] => do
    let a ← parseLimbs a; let b ← parseLimbs b
    pure ("ok " ++ showLimbs (maxBy BigUint.cmp a b), "ok " ++ showLimbs (ofNat (max (val a) (val b))))
  | "u.min", [a, b] => do
    let a ← parseLimbs a; let b ← parseLimbs b
    pure ("ok " ++ showLimbs (minBy BigUint.cmp a b), "ok " ++ showLimbs (ofNat (min (val a) (val b))))
  | "i.max", [a, b] => do
    let a ← parseBigInt a; let b ← parseBigInt b
    pure ("ok " ++ showBigInt (maxBy BigInt.cmp a b), "ok " ++ showBigInt (BigInt.ofInt (max a.val b.val)))
  | "i.min", [a, b] => do
    let a ← parseBigInt a; let b ← parseBigInt b
    pure ("ok " ++ showBigInt (minBy BigInt.cmp a b), "ok " ++ showBigInt (BigInt.ofInt (min a.val b.val)))
  | "u.sort", l => do
    let l ← parseAll parseLimbs l
    let o := sortBy (fun (a b : Nat) => compare a b) (l.map val)
    pure ("ok " ++ sL (sortBy BigUint.cmp l), "ok " ++ sL (o.map ofNat))
  | "i.sort", l => do
    let l ← parseAll parseBigInt l
    let o := sortBy (fun (a b : Int) => compare a b) (l.map BigInt.val)
    pure ("ok " ++ sI (sortBy BigInt.cmp l), "ok " ++ sI (o.map BigInt.ofInt))
  -- constructors (arbitrary u32 words, arbitrary sign requests)
  | "u.new", [w] => do
    let w ← parseWords w
    if ¬ WordsOk w then none else
    pure ("ok " ++ showLimbs (BigUint.new w), "ok " ++ showLimbs (ofNat (val32 w)))
  | "u.from_slice", [w] => do
    let w ← parseWords w
    if ¬ WordsOk w then none else
    pure ("ok " ++ showLimbs (BigUint.fromSlice w), "ok " ++ showLimbs (ofNat (val32 w)))
  | "u.assign_from_slice", [old, w] => do
    let old ← parseLimbs old; let w ← parseWords w
    if ¬ WordsOk w then none else
    pure ("ok " ++ showLimbs (BigUint.assignFromSlice old w), "ok " ++ showLimbs (ofNat (val32 w)))
  | "i.from_biguint", [s, m] => do
    let s ← parseSignS s; let m ← parseLimbs m
    pure ("ok " ++ showBigInt (BigInt.fromBiguint s m), "ok " ++ showBigInt (BigInt.ofInt (Sign.toInt s * (val m : Int))))
  | "i.new", [s, w] => do
    let s ← parseSignS s; let w ← parseWords w
    if ¬ WordsOk w then none else
    pure ("ok " ++ showBigInt (BigInt.new s w), "ok " ++ showBigInt (BigInt.ofInt (Sign.toInt s * (val32 w : Int))))
  | "i.from_slice", [s, w] => do
    let s ← parseSignS s; let w ← parseWords w
    if ¬ WordsOk w then none else
    pure ("ok " ++ showBigInt (BigInt.fromSlice s w), "ok " ++ showBigInt (BigInt.ofInt (Sign.toInt s * (val32 w : Int))))
  | "i.assign_from_slice", [old, s, w] => do
    let old ← parseBigInt old; let s ← parseSignS s; let w ← parseWords w
    if ¬ WordsOk w then none else
    pure ("ok " ++ showBigInt (BigInt.assignFromSlice old s w), "ok " ++ showBigInt (BigInt.ofInt (Sign.toInt s * (val32 w : Int))))
  | "hist", args => hist args
  -- api-coverage: PartialOrd (`partial_cmp`, provided `< <= > >=`), `!=`, Clone::clone
  | "u.partial_cmp", [a, b] => do
    let a ← parseLimbs a; let b ← parseLimbs b
    pure (showOpt showOrd (BigUint.partialCmp a b), "some " ++ showOrd (compare (val a) (val b)))
  | "i.partial_cmp", [a, b] => do
    let a ← parseBigInt a; let b ← parseBigInt b
    pure (showOpt showOrd (BigInt.partialCmp a b), "some " ++ showOrd (compare a.val b.val))
  | "u.rel", [a, b] => do
    let a ← parseLimbs a; let b ← parseLimbs b
    let c := BigUint.partialCmp a b
    let x := val a; let y := val b
    pure ("ok " ++ showBool (pLt c) ++ showBool (pLe c) ++ showBool (pGt c) ++ showBool (pGe c) ++ showBool (!(BigUint.eq a b)),
          "ok " ++ showBool (decide (x < y)) ++ showBool (decide (x ≤ y)) ++ showBool (decide (x > y)) ++ showBool (decide (x ≥ y))
            ++ showBool (decide (x ≠ y)))
  | "i.rel", [a, b] => do
    let a ← parseBigInt a; let b ← parseBigInt b
    let c := BigInt.partialCmp a b
    let x := a.val; let y := b.val
    pure ("ok " ++ showBool (pLt c) ++ showBool (pLe c) ++ showBool (pGt c) ++ showBool (pGe c) ++ showBool (!(BigInt.eq a b)),
          "ok " ++ showBool (decide (x < y)) ++ showBool (decide (x ≤ y)) ++ showBool (decide (x > y)) ++ showBool (decide (x ≥ y))
            ++ showBool (decide (x ≠ y)))
  | "u.clone", [a] => do
    let a ← parseLimbs a
    pure ("ok " ++ showLimbs (BigUint.clone a), "ok " ++ showLimbs (ofNat (val a)))
  | "i.clone", [a] => do
    let a ← parseBigInt a
    pure ("ok " ++ showBigInt (BigInt.clone a), "ok " ++ showBigInt (BigInt.ofInt a.val))
  -- api-coverage: `arbitrary::Arbitrary` (value from a byte buffer).  Model: NB.Core.BigUint.arbitrary /
  -- BigInt.arbitrary (decoding of the `arbitrary` crate + `biguint_from_vec` / `from_biguint`); oracle: the
  -- integer denoted by the decoded digits (`val`), re-encoded canonically.
  | "arb.u", [bs] | "arb.u_rest", [bs] => do
    let bs ← parseBytes bs
    let ds := (arbVecU64 (bs.length + 1) bs).1
    pure ("ok " ++ showLimbs (BigUint.arbitrary bs), "ok " ++ showLimbs (ofNat (val ds)))
  | "arb.i", [bs] | "arb.i_rest", [bs] => do
    let bs ← parseBytes bs
    let ds := (arbVecU64 bs.length (bs.drop 1)).1
    let v : Int := if bs.headD 0 % 2 = 1 then (val ds : Int) else - (val ds : Int)
    pure ("ok " ++ showBigInt (BigInt.arbitrary bs), "ok " ++ showBigInt (BigInt.ofInt v))
  -- `size_hint`: `Vec::<u64>::size_hint` = (0, None); BigInt: `and(bool (1, Some 1), (0, None))` = (1, None)
  | "arb.u_size_hint", [_] => pure ("ok 0 none", "-")
  | "arb.i_size_hint", [_] => pure ("ok 1 none", "-")
  -- `quickcheck::Arbitrary`: the harness checks in-process that the generated value and every shrink candidate is
  -- canonical and equals the normalised `Vec<u64>` reference drawn from an identically seeded `Gen`
  -- (three flags); quickcheck's RNG is not modelled
  | "qc.u", [_, _] | "qc.i", [_, _] => pure ("ok 111", "ok 111")
  | _, _ => none

end NB.Drv.C04
