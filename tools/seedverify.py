#!/usr/bin/env python3
"""Confirm a candidate seeded change before keeping it: in a fresh scratch worktree of /repo,
(1) the patch applies, (2) the crate builds and the whole existing test suite passes with it,
(3) the demonstration fails with the change and passes without it.
Usage: tools/seedverify.py <dir with patch.diff demo.rs meta.json>   (prints a JSON verdict, rc 0 if confirmed)"""
import json, os, re, shutil, subprocess, sys, tempfile

EXTRA_ENV = {}

def sh(cmd, cwd, timeout=3000):
    e = dict(os.environ); e["CARGO_NET_OFFLINE"] = "true"
    if cmd[:2] in (["cargo", "test"], ["cargo", "run"]) and "seed_demo" in cmd:
        e.update(EXTRA_ENV)
    p = subprocess.run(cmd, cwd=cwd, env=e, stdout=subprocess.PIPE, stderr=subprocess.STDOUT, text=True, timeout=timeout)
    return p.returncode, p.stdout

def main():
    d = os.path.abspath(sys.argv[1])
    wt = tempfile.mkdtemp(prefix="seedwt_", dir="/tmp")
    os.rmdir(wt)
    verdict = {"dir": d}
    try:
        rc, out = sh(["git", "-C", "/repo", "worktree", "add", "-q", "--detach", wt, "HEAD"], "/repo")
        assert rc == 0, out
        shutil.copy("/repo/Cargo.lock", wt)
        demo = open(os.path.join(d, "demo.rs")).read()
        is_example = re.search(r"^\s*fn\s+main\s*\(", demo, re.M) is not None and "#[test]" not in demo
        if is_example:
            os.makedirs(os.path.join(wt, "examples"), exist_ok=True)
            shutil.copy(os.path.join(d, "demo.rs"), os.path.join(wt, "examples", "seed_demo.rs"))
            feats = re.search(r"--features[= ]+\"?([\w ,]+)\"?", demo)
            demo_cmd = ["cargo", "run", "--offline", "-q", "--example", "seed_demo"]
        else:
            shutil.copy(os.path.join(d, "demo.rs"), os.path.join(wt, "tests", "seed_demo.rs"))
            feats = re.search(r"--features[= ]+\"?([\w ,]+)\"?", demo)
            demo_cmd = ["cargo", "test", "--offline", "-q", "--test", "seed_demo"]
        hdr = demo[:1500]
        mrun = re.search(r"^//\s*RUN:(.*)$", demo, re.M)
        if mrun:
            hdr = mrun.group(1)
            feats = re.search(r"--features[= ]+\"?([\w ,]+)\"?", hdr)
        if "--release" in hdr:
            demo_cmd.append("--release")
        if "--no-default-features" in hdr:
            demo_cmd.append("--no-default-features")
        if feats and "--features" in hdr:
            demo_cmd += ["--features", feats.group(1).strip()]
        try:
            mj = json.load(open(os.path.join(d, "meta.json")))
            if isinstance(mj.get("demo_cmd"), list):
                demo_cmd = mj["demo_cmd"]
            if isinstance(mj.get("demo_env"), dict):
                EXTRA_ENV.update(mj["demo_env"])
        except Exception:  # noqa: BLE001
            pass
        verdict["demo_cmd"] = " ".join(demo_cmd)
        rc0, out0 = sh(demo_cmd, wt)
        verdict["demo_without_change_rc"] = rc0
        rc, out = sh(["git", "apply", os.path.join(d, "patch.diff")], wt)
        if rc != 0:
            rc, out = sh(["patch", "-p1", "--fuzz=3", "-i", os.path.join(d, "patch.diff")], wt)
        verdict["patch_applies"] = rc == 0
        if rc != 0:
            verdict["patch_error"] = out[-400:]
        else:
            rcb, outb = sh(["cargo", "build", "--offline", "--release"], wt)
            verdict["builds_release"] = rcb == 0
            # existing suite (the demo file is excluded by moving it away)
            demo_path = os.path.join(wt, "examples" if is_example else "tests", "seed_demo.rs")
            os.rename(demo_path, demo_path + ".off")
            rct, outt = sh(["cargo", "test", "--offline", "--no-fail-fast"], wt)
            os.rename(demo_path + ".off", demo_path)
            verdict["suite_passes_with_change"] = rct == 0
            if rct != 0:
                verdict["suite_tail"] = outt[-600:]
            rc1, out1 = sh(demo_cmd, wt)
            verdict["demo_with_change_rc"] = rc1
            verdict["demo_with_change_tail"] = out1[-400:]
        verdict["confirmed"] = bool(verdict.get("patch_applies") and verdict.get("builds_release") and
                                    verdict.get("suite_passes_with_change") and verdict.get("demo_without_change_rc") == 0 and
                                    verdict.get("demo_with_change_rc", 0) != 0)
    finally:
        subprocess.run(["git", "-C", "/repo", "worktree", "remove", "--force", wt], capture_output=True)
        shutil.rmtree(wt, ignore_errors=True)
    print(json.dumps(verdict, indent=1))
    return 0 if verdict.get("confirmed") else 1

if __name__ == "__main__":
    sys.exit(main())
