/- helper lemmas for the digit-level scalar leaves (NB.Model.ScalarD, theorems in NB.Props.C10D):
   the two type-tag vocabularies, `From<uN>`, the value/digit views `toV`/`ofV` of a BigInt, `Except.map` plumbing -/
import NB.Model.ScalarD
import NB.Lemmas.Scalar
import NB.Lemmas.Convert
namespace NB.SD
open NB NB.Conv

/-- the bound of an unsigned leaf scalar type as used by `dAddAssign_spec` & co. -/
abbrev bound (t : STy) : Nat := if t = .u128 then B * B else B

/-! ## type tags -/

theorem pty_minV (t : STy) : (pty t).minV = t.lo := by
  cases t <;> simp [pty, PTy.minV, PTy.signed, PTy.bits, STy.lo, STy.signed, STy.half]

theorem pty_maxV (t : STy) : (pty t).maxV = t.hi := by
  cases t <;> simp [pty, PTy.maxV, PTy.signed, PTy.bits, STy.hi, STy.signed, STy.half, STy.modulus]

theorem pty_inRange (t : STy) (v : Int) : (pty t).InRange v ↔ t.InRange v := by
  unfold PTy.InRange STy.InRange; rw [pty_minV, pty_maxV]

theorem lo_nonpos (t : STy) : t.lo ≤ 0 := by
  cases t <;> simp [STy.lo, STy.signed, STy.half]

/-- a value of an unsigned scalar type is below the digit bound of its promoted leaf type -/
theorem bound_of_inRange (t : STy) (ht : t.signed = false) (v : Int) (h : t.InRange v) :
    v.toNat < bound t := by
  have hB : B = 18446744073709551616 := rfl
  have hBB : B * B = 340282366920938463463374607431768211456 := by decide
  cases t <;> simp [STy.signed] at ht <;>
    simp [STy.InRange, STy.lo, STy.hi, STy.signed, STy.modulus] at h <;>
    simp only [bound, reduceCtorEq, if_false, if_true] <;> omega

theorem bound_le (t : STy) : bound t ≤ B * B := by
  unfold bound; split
  · exact Nat.le_refl _
  · exact Nat.le_mul_of_pos_left B B_pos

/-! ## `From<uN>` -/

theorem uFrom_eq (t : STy) (s : Nat) : uFrom t s = ofNat s := by
  cases t <;> simp only [uFrom, fromU64_eq_ofNat, fromU128_eq_ofNat]

theorem ofNat_eq_nil_iff (n : Nat) : ofNat n = [] ↔ n = 0 := by
  constructor
  · intro h; have := ofNat_val n; rw [h] at this; simpa [val] using this.symm
  · intro h; subst h; unfold ofNat; simp

theorem ofNat_zero : ofNat 0 = [] := (ofNat_eq_nil_iff 0).2 rfl

theorem iFromU_eq (t : STy) (u : Nat) : iFromU t u = ofV (VInt.fromNat u) := by
  have h64 : I.fromU64 u = ofV (VInt.fromNat u) := by
    unfold I.fromU64 VInt.fromNat VInt.zero ofV
    by_cases h : u = 0
    · subst h; simp [ofNat_zero]
    · have : u > 0 := Nat.pos_of_ne_zero h
      simp [h, this, fromU64_eq_ofNat]
  have h128 : I.fromU128 u = ofV (VInt.fromNat u) := by
    unfold I.fromU128 VInt.fromNat VInt.zero ofV
    by_cases h : u = 0
    · subst h; simp [ofNat_zero]
    · have : u > 0 := Nat.pos_of_ne_zero h
      simp [h, this, fromU128_eq_ofNat]
  cases t <;> simp only [iFromU, h64, h128]

/-! ## comparisons, digit counts -/

theorem compare_eq_cmpNat (a b : Nat) : compare a b = cmpNat a b := by
  unfold cmpNat
  by_cases h1 : a < b
  · simp only [h1, if_true]; exact Nat.compare_eq_lt.2 h1
  · by_cases h2 : a = b
    · subst h2; simp
    · simp only [h1, h2, if_false]; exact Nat.compare_eq_gt.2 (by omega)

theorem cmpSlice_ofNat {m : List Nat} (h : Canon m) (t : STy) (u : Nat) :
    cmpSlice m (uFrom t u) = cmpNat (val m) u := by
  rw [uFrom_eq, cmpSlice_spec h (ofNat_canon u), ofNat_val, compare_eq_cmpNat]

theorem nd_val {a : List Nat} (h : Canon a) : nd (val a) = a.length := by
  unfold nd; rw [← canon_eq_ofNat h]

/-! ## value view / digit view of a BigInt -/

theorem ofV_toV {a : BigInt} (h : a.Canon) : ofV (toV a) = a := by
  obtain ⟨s, m⟩ := a
  unfold ofV toV; simp only
  rw [← canon_eq_ofNat h.1]

theorem toV_canon {a : BigInt} (h : a.Canon) : (toV a).Canon := by
  obtain ⟨s, m⟩ := a
  obtain ⟨hc, hs⟩ := h
  simp only at hc hs
  unfold VInt.Canon toV; simp only
  rw [hs]
  constructor
  · intro e; subst e; rfl
  · intro e
    have := canon_eq_ofNat hc
    rw [e, ofNat_zero] at this; exact this

theorem toV_val (a : BigInt) : (toV a).val = a.val := by
  obtain ⟨s, m⟩ := a
  cases s <;> rfl

theorem toV_neg (a : BigInt) : toV a.neg = (toV a).neg := rfl

theorem ofV_neg (v : VInt) : (ofV v).neg = ofV v.neg := rfl

theorem ofV_zero : ofV VInt.zero = ⟨.nosign, []⟩ := by
  unfold ofV VInt.zero; simp [ofNat_zero]

theorem ofV_ofInt (i : Int) : ofV (VInt.ofInt i) = BigInt.ofInt i := by
  unfold VInt.ofInt BigInt.ofInt ofV
  by_cases h1 : i < 0
  · simp [h1]
  · by_cases h2 : i = 0
    · simp [h2, ofNat_zero]
    · simp [h1, h2]

/-- `BigInt::from(BigUint)` on canonical digits -/
theorem fromBiguint_ofNat (n : Nat) : I.fromBiguint (ofNat n) = ofV (VInt.fromNat n) := by
  unfold I.fromBiguint VInt.fromNat VInt.zero ofV
  by_cases h : n = 0
  · subst h; simp [ofNat_zero]
  · have : ofNat n ≠ [] := fun e => h ((ofNat_eq_nil_iff n).1 e)
    simp [h, this]

/-- `BigInt::from_biguint` on canonical digits -/
theorem bigFromBiguint_ofNat (s : Sign) (n : Nat) :
    BigInt.fromBiguint s (ofNat n) = ofV (VInt.fromBiguint s n) := by
  unfold BigInt.fromBiguint VInt.fromBiguint VInt.zero ofV
  by_cases hs : s = .nosign
  · simp [hs, ofNat_zero]
  · by_cases h : n = 0
    · subst h; simp [hs, ofNat_zero]
    · have : ofNat n ≠ [] := fun e => h ((ofNat_eq_nil_iff n).1 e)
      simp [hs, h, this]

/-- the `is_zero → NoSign` tail on canonical digits -/
theorem fixZero_ofNat (s : Sign) (n : Nat) :
    fixZero s (ofNat n) = ofV (if n = 0 then (⟨.nosign, n⟩ : VInt) else ⟨s, n⟩) := by
  unfold fixZero ofV
  by_cases h : n = 0
  · subst h; simp [ofNat_zero]
  · have : ofNat n ≠ [] := fun e => h ((ofNat_eq_nil_iff n).1 e)
    simp [h, this]

/-- magnitude of `BigInt::from(s)` -/
theorem ofInt_mag (s : Int) : (BigInt.ofInt s).mag = ofNat s.natAbs := by
  unfold BigInt.ofInt
  by_cases h1 : s < 0
  · simp [h1]
  · by_cases h2 : s = 0
    · subst h2; simp [ofNat_zero]
    · simp [h1, h2]

/-! ## `Except.map` plumbing -/

theorem map_map {ε α β γ} (f : α → β) (g : β → γ) (x : Except ε α) :
    (x.map f).map g = x.map (fun a => g (f a)) := by
  cases x <;> rfl

theorem map_congr {ε α β} {f g : α → β} (x : Except ε α) (h : ∀ a, f a = g a) : x.map f = x.map g := by
  cases x
  · rfl
  · simp only [Except.map, h]

/-- the shape of every refinement step: a digit-level leaf `x.map ofNat` post-processed by `F`
    equals the value-level post-processing `G` followed by `ofV` -/
theorem map_ofNat_ofV {ε} (x : Except ε Nat) (F : List Nat → BigInt) (G : Nat → VInt)
    (h : ∀ n, F (ofNat n) = ofV (G n)) :
    (x.map ofNat).map F = (x.map G).map ofV := by
  rw [map_map, map_map]; exact map_congr x h

theorem map_ite {ε α β} (c : Prop) [Decidable c] (f : α → β) (e : ε) (x : α) :
    (if c then Except.error e else Except.ok x).map f = if c then .error e else .ok (f x) := by
  split <;> rfl

end NB.SD
