//! stream C03: division (all conventions, checked forms, internal Knuth-D hooks)
use crate::wire::*;
use num_bigint::{BigInt, BigUint};
use num_integer::Integer;
use num_traits::{CheckedDiv, CheckedEuclid, Euclid};

fn pair_u(p: &(BigUint, BigUint)) -> String {
    format!("ok {} {}", show_u(&p.0), show_u(&p.1))
}
fn pair_i(p: &(BigInt, BigInt)) -> String {
    format!("ok {} {}", show_i(&p.0), show_i(&p.1))
}
fn opt_pair_u(p: &Option<(BigUint, BigUint)>) -> String {
    match p {
        Some(p) => format!("some {} {}", show_u(&p.0), show_u(&p.1)),
        None => "none".to_string(),
    }
}
fn opt_pair_i(p: &Option<(BigInt, BigInt)>) -> String {
    match p {
        Some(p) => format!("some {} {}", show_i(&p.0), show_i(&p.1)),
        None => "none".to_string(),
    }
}

// ---------------------------------------------------------------------------------------------
// api-coverage: the scalar division forms named in C03's anchors (`Div/Rem<u32|u64|u128> for BigUint`,
// `Div/Rem<BigUint> for u32|u64|u128` which inspect the divisor's digit count, `impl_rem_assign_scalar!`, and the
// BigInt leaves for unsigned and signed scalars), in their by-value leaf form; u8/u16/usize/i8/i16/isize go
// through the promotion impls first.  `which`: 0 `x / v`, 1 `x % v`, 2 `v / x`, 3 `v % x`, 4 `x /= v`, 5 `x %= v`.
use core::ops::{Div, DivAssign, Rem, RemAssign};

fn sc_u<T>(x: BigUint, v: T, which: u8) -> BigUint
where
    T: Copy + Div<BigUint, Output = BigUint> + Rem<BigUint, Output = BigUint>,
    BigUint: Div<T, Output = BigUint> + Rem<T, Output = BigUint> + DivAssign<T> + RemAssign<T>,
{
    match which {
        0 => x / v,
        1 => x % v,
        2 => v / x,
        3 => v % x,
        4 => {
            let mut y = x;
            y /= v;
            y
        }
        _ => {
            let mut y = x;
            y %= v;
            y
        }
    }
}

fn sc_i<T>(x: BigInt, v: T, which: u8) -> BigInt
where
    T: Copy + Div<BigInt, Output = BigInt> + Rem<BigInt, Output = BigInt>,
    BigInt: Div<T, Output = BigInt> + Rem<T, Output = BigInt> + DivAssign<T> + RemAssign<T>,
{
    match which {
        0 => x / v,
        1 => x % v,
        2 => v / x,
        3 => v % x,
        4 => {
            let mut y = x;
            y /= v;
            y
        }
        _ => {
            let mut y = x;
            y %= v;
            y
        }
    }
}

/// `scalar %= BigUint` (`impl_rem_assign_scalar!`, by value → `forward_val_assign_scalar!` → by reference)
fn sc_rem_assign<T>(mut v: T, x: BigUint) -> BigInt
where
    T: Copy + RemAssign<BigUint> + Into<BigInt>,
{
    v %= x;
    v.into()
}

/// scalar token `<type>:<decimal>`, parsed into exactly that primitive type
macro_rules! scalar_dispatch {
    ($tok:expr, |$v:ident| $body:expr, unsigned) => {{
        let (ty, s) = $tok.split_once(':')?;
        match ty {
            "u8" => { let $v = s.parse::<u8>().ok()?; $body }
            "u16" => { let $v = s.parse::<u16>().ok()?; $body }
            "u32" => { let $v = s.parse::<u32>().ok()?; $body }
            "u64" => { let $v = s.parse::<u64>().ok()?; $body }
            "u128" => { let $v = s.parse::<u128>().ok()?; $body }
            "usize" => { let $v = s.parse::<usize>().ok()?; $body }
            _ => return None,
        }
    }};
    ($tok:expr, |$v:ident| $body:expr, all) => {{
        let (ty, s) = $tok.split_once(':')?;
        match ty {
            "u8" => { let $v = s.parse::<u8>().ok()?; $body }
            "u16" => { let $v = s.parse::<u16>().ok()?; $body }
            "u32" => { let $v = s.parse::<u32>().ok()?; $body }
            "u64" => { let $v = s.parse::<u64>().ok()?; $body }
            "u128" => { let $v = s.parse::<u128>().ok()?; $body }
            "usize" => { let $v = s.parse::<usize>().ok()?; $body }
            "i8" => { let $v = s.parse::<i8>().ok()?; $body }
            "i16" => { let $v = s.parse::<i16>().ok()?; $body }
            "i32" => { let $v = s.parse::<i32>().ok()?; $body }
            "i64" => { let $v = s.parse::<i64>().ok()?; $body }
            "i128" => { let $v = s.parse::<i128>().ok()?; $body }
            "isize" => { let $v = s.parse::<isize>().ok()?; $body }
            _ => return None,
        }
    }};
}

fn scalar_op(op: &str, a: &[&str]) -> Option<String> {
    let which = |name: &str| -> Option<u8> {
        Some(match name {
            "div_s" => 0,
            "rem_s" => 1,
            "s_div" => 2,
            "s_rem" => 3,
            "div_assign_s" => 4,
            "rem_assign_s" => 5,
            _ => return None,
        })
    };
    Some(match (op, a) {
        ("s.rem_assign_u", [tv, x]) => {
            let x = parse_u(x)?;
            ok_i(&scalar_dispatch!(tv, |v| sc_rem_assign(v, x), all))
        }
        (_, [p, q]) if op.starts_with("u.") => {
            let w = which(&op[2..])?;
            // scalar-left forms carry the scalar first
            let (x, tv) = if w == 2 || w == 3 { (q, p) } else { (p, q) };
            let x = parse_u(x)?;
            ok_u(&scalar_dispatch!(tv, |v| sc_u(x, v, w), unsigned))
        }
        (_, [p, q]) if op.starts_with("i.") => {
            let w = which(&op[2..])?;
            let (x, tv) = if w == 2 || w == 3 { (q, p) } else { (p, q) };
            let x = parse_i(x)?;
            ok_i(&scalar_dispatch!(tv, |v| sc_i(x, v, w), all))
        }
        _ => return None,
    })
}

pub fn handle(op: &str, a: &[&str]) -> Option<String> {
    Some(match (op, a) {
        // ---- BigUint
        ("u.div", [x, y]) => ok_u(&(&parse_u(x)? / &parse_u(y)?)),
        ("u.div_vv", [x, y]) => ok_u(&(parse_u(x)? / parse_u(y)?)),
        ("u.rem", [x, y]) => ok_u(&(&parse_u(x)? % &parse_u(y)?)),
        ("u.rem_vv", [x, y]) => ok_u(&(parse_u(x)? % parse_u(y)?)),
        ("u.div_rem", [x, y]) => pair_u(&parse_u(x)?.div_rem(&parse_u(y)?)),
        ("u.div_assign", [x, y]) => {
            let mut v = parse_u(x)?;
            v /= &parse_u(y)?;
            ok_u(&v)
        }
        ("u.rem_assign", [x, y]) => {
            let mut v = parse_u(x)?;
            v %= &parse_u(y)?;
            ok_u(&v)
        }
        ("u.div_floor", [x, y]) => ok_u(&parse_u(x)?.div_floor(&parse_u(y)?)),
        ("u.mod_floor", [x, y]) => ok_u(&parse_u(x)?.mod_floor(&parse_u(y)?)),
        ("u.div_mod_floor", [x, y]) => pair_u(&parse_u(x)?.div_mod_floor(&parse_u(y)?)),
        ("u.div_ceil", [x, y]) => ok_u(&Integer::div_ceil(&parse_u(x)?, &parse_u(y)?)),
        ("u.div_euclid", [x, y]) => ok_u(&Euclid::div_euclid(&parse_u(x)?, &parse_u(y)?)),
        ("u.rem_euclid", [x, y]) => ok_u(&Euclid::rem_euclid(&parse_u(x)?, &parse_u(y)?)),
        ("u.div_rem_euclid", [x, y]) => pair_u(&Euclid::div_rem_euclid(&parse_u(x)?, &parse_u(y)?)),
        ("u.checked_div", [x, y]) => opt_u(&CheckedDiv::checked_div(&parse_u(x)?, &parse_u(y)?)),
        ("u.checked_div_euclid", [x, y]) => opt_u(&CheckedEuclid::checked_div_euclid(&parse_u(x)?, &parse_u(y)?)),
        ("u.checked_rem_euclid", [x, y]) => opt_u(&CheckedEuclid::checked_rem_euclid(&parse_u(x)?, &parse_u(y)?)),
        ("u.checked_div_rem_euclid", [x, y]) => {
            opt_pair_u(&CheckedEuclid::checked_div_rem_euclid(&parse_u(x)?, &parse_u(y)?))
        }
        // ---- BigInt
        ("i.div", [x, y]) => ok_i(&(&parse_i(x)? / &parse_i(y)?)),
        ("i.rem", [x, y]) => ok_i(&(&parse_i(x)? % &parse_i(y)?)),
        ("i.div_rem", [x, y]) => pair_i(&parse_i(x)?.div_rem(&parse_i(y)?)),
        ("i.div_assign", [x, y]) => {
            let mut v = parse_i(x)?;
            v /= &parse_i(y)?;
            ok_i(&v)
        }
        ("i.rem_assign", [x, y]) => {
            let mut v = parse_i(x)?;
            v %= &parse_i(y)?;
            ok_i(&v)
        }
        ("i.div_floor", [x, y]) => ok_i(&parse_i(x)?.div_floor(&parse_i(y)?)),
        ("i.mod_floor", [x, y]) => ok_i(&parse_i(x)?.mod_floor(&parse_i(y)?)),
        ("i.div_mod_floor", [x, y]) => pair_i(&parse_i(x)?.div_mod_floor(&parse_i(y)?)),
        ("i.div_ceil", [x, y]) => ok_i(&Integer::div_ceil(&parse_i(x)?, &parse_i(y)?)),
        ("i.div_euclid", [x, y]) => ok_i(&Euclid::div_euclid(&parse_i(x)?, &parse_i(y)?)),
        ("i.rem_euclid", [x, y]) => ok_i(&Euclid::rem_euclid(&parse_i(x)?, &parse_i(y)?)),
        ("i.div_rem_euclid", [x, y]) => pair_i(&Euclid::div_rem_euclid(&parse_i(x)?, &parse_i(y)?)),
        ("i.checked_div", [x, y]) => opt_i(&CheckedDiv::checked_div(&parse_i(x)?, &parse_i(y)?)),
        ("i.checked_div_euclid", [x, y]) => opt_i(&CheckedEuclid::checked_div_euclid(&parse_i(x)?, &parse_i(y)?)),
        ("i.checked_rem_euclid", [x, y]) => opt_i(&CheckedEuclid::checked_rem_euclid(&parse_i(x)?, &parse_i(y)?)),
        ("i.checked_div_rem_euclid", [x, y]) => {
            opt_pair_i(&CheckedEuclid::checked_div_rem_euclid(&parse_i(x)?, &parse_i(y)?))
        }
        // api-coverage: the INHERENT `BigInt::checked_div` (src/bigint.rs; `i.checked_div` above is the trait impl
        // `CheckedDiv for BigInt` of src/bigint/division.rs — two separate bodies)
        ("i.checked_div_m", [x, y]) => opt_i(&BigInt::checked_div(&parse_i(x)?, &parse_i(y)?)),
        // api-coverage: scalar division forms (see `scalar_op`)
        (
            "s.rem_assign_u" | "u.div_s" | "u.rem_s" | "u.s_div" | "u.s_rem" | "u.div_assign_s" | "u.rem_assign_s"
            | "i.div_s" | "i.rem_s" | "i.s_div" | "i.s_rem" | "i.div_assign_s" | "i.rem_assign_s",
            [_, _],
        ) => return scalar_op(op, a),
        // ---- internal hooks (raw digit slices)
        #[cfg(num_bigint_verif)]
        ("raw.div_rem_core", [x, y]) => {
            let a = parse_limbs(x)?;
            let b = parse_limbs(y)?;
            // preconditions of div_rem_core; anything else is not a valid request
            if !(a.len() >= b.len() && b.len() > 1 && (b[b.len() - 1] >> 63) == 1) {
                return None;
            }
            let (q, r) = num_bigint::verif::div_rem_core(num_bigint::verif::raw(a), &b);
            format!(
                "ok {} {}",
                show_limbs(num_bigint::verif::raw_digits(&q)),
                show_limbs(num_bigint::verif::raw_digits(&r))
            )
        }
        #[cfg(num_bigint_verif)]
        ("raw.submul", [x, y, c]) => {
            let mut a = parse_limbs(x)?;
            let b = parse_limbs(y)?;
            let c = u64::from_str_radix(c, 16).ok()?;
            if a.len() != b.len() {
                return None;
            }
            let borrow = num_bigint::verif::sub_mul_digit_same_len(&mut a, &b, c);
            format!("ok {} {:x}", show_limbs(&a), borrow)
        }
        _ => return None,
    })
}
