//! stream C12: exponentiation (`num_traits::Pow` for BigUint / BigInt, all exponent types and forms)
use crate::wire::*;
use num_bigint::{BigInt, BigUint};
use num_traits::Pow;

/// all four operand forms for a primitive exponent type
macro_rules! forms {
    ($base:expr, $form:expr, $e:expr) => {{
        let b = $base;
        let e = $e;
        match $form {
            "vv" => Pow::pow(b, e),
            "vr" => Pow::pow(b, &e),
            "rv" => Pow::pow(&b, e),
            "rr" => Pow::pow(&b, &e),
            _ => return None,
        }
    }};
}

macro_rules! by_type {
    ($base:expr, $form:expr, $ty:expr, $e:expr) => {{
        match $ty {
            "u8" => forms!($base, $form, $e.parse::<u8>().ok()?),
            "u16" => forms!($base, $form, $e.parse::<u16>().ok()?),
            "u32" => forms!($base, $form, $e.parse::<u32>().ok()?),
            "u64" => forms!($base, $form, $e.parse::<u64>().ok()?),
            "usize" => forms!($base, $form, $e.parse::<usize>().ok()?),
            "u128" => forms!($base, $form, $e.parse::<u128>().ok()?),
            "big" => forms!($base, $form, parse_u($e)?),
            _ => return None,
        }
    }};
}

fn pow_u(form: &str, base: BigUint, ty: &str, e: &str) -> Option<BigUint> {
    if form == "m" {
        if ty != "u32" {
            return None;
        }
        return Some(base.pow(e.parse::<u32>().ok()?));
    }
    Some(by_type!(base, form, ty, e))
}

fn pow_i(form: &str, base: BigInt, ty: &str, e: &str) -> Option<BigInt> {
    if form == "m" {
        if ty != "u32" {
            return None;
        }
        return Some(base.pow(e.parse::<u32>().ok()?));
    }
    Some(by_type!(base, form, ty, e))
}

pub fn handle(op: &str, a: &[&str]) -> Option<String> {
    let parts: Vec<&str> = op.split('.').collect();
    if parts.len() != 3 || parts[1] != "pow" || a.len() != 2 {
        return None;
    }
    let (ty, e) = a[1].split_once(':')?;
    Some(match parts[0] {
        "u" => ok_u(&pow_u(parts[2], parse_u(a[0])?, ty, e)?),
        "i" => ok_i(&pow_i(parts[2], parse_i(a[0])?, ty, e)?),
        _ => return None,
    })
}
