/- driver handlers for stream C01 (addition / subtraction) -/
import NB.Wire
import NB.Model.AddSub
import NB.Model.AsmParams
import NB.Model.Scalar
namespace NB.Drv.C01
open NB NB.Wire

def blk := NB.Gen.P

def oSubU (a b : Nat) : Except Panic (List Nat) :=
  if a < b then .error .underflow else .ok (ofNat (a - b))

def su := showExcept showLimbs
def si := showExcept showBigInt

def handle (op : String) (args : List String) : Option (String × String) :=
  match op, args with
  | "u.add", [a, b] => do
    let a ← parseLimbs a; let b ← parseLimbs b
    pure (su (.ok (addRef blk a b)), su (.ok (ofNat (val a + val b))))
  | "u.add_assign", [a, b] => do
    let a ← parseLimbs a; let b ← parseLimbs b
    pure (su (.ok (addAssign blk a b)), su (.ok (ofNat (val a + val b))))
  | "u.checked_add", [a, b] => do
    let a ← parseLimbs a; let b ← parseLimbs b
    pure (showOpt showLimbs (some (addRef blk a b)), showOpt showLimbs (some (ofNat (val a + val b))))
  | "u.sub", [a, b] => do
    let a ← parseLimbs a; let b ← parseLimbs b
    pure (su (subRef blk a b), su (oSubU (val a) (val b)))
  | "u.sub_assign", [a, b] => do
    let a ← parseLimbs a; let b ← parseLimbs b
    pure (su (subAssign blk a b), su (oSubU (val a) (val b)))
  | "u.sub_refval", [a, b] => do
    let a ← parseLimbs a; let b ← parseLimbs b
    pure (su (subRefVal blk a b), su (oSubU (val a) (val b)))
  | "u.checked_sub", [a, b] => do
    let a ← parseLimbs a; let b ← parseLimbs b
    let m := match checkedSub blk a b with
      | .ok r => showOpt showLimbs r
      | .error p => "panic " ++ p.toString
    let o := if val a < val b then "none" else "some " ++ showLimbs (ofNat (val a - val b))
    pure (m, o)
  | "i.add", [a, b] | "i.add_assign", [a, b] => do
    let a ← parseBigInt a; let b ← parseBigInt b
    pure (si (BigInt.add blk a b), si (.ok (BigInt.ofInt (a.val + b.val))))
  | "i.sub", [a, b] | "i.sub_assign", [a, b] => do
    let a ← parseBigInt a; let b ← parseBigInt b
    pure (si (BigInt.sub blk a b), si (.ok (BigInt.ofInt (a.val - b.val))))
  | "i.checked_add", [a, b] => do
    let a ← parseBigInt a; let b ← parseBigInt b
    let m := match BigInt.add blk a b with
      | .ok r => "some " ++ showBigInt r
      | .error p => "panic " ++ p.toString
    pure (m, "some " ++ showBigInt (BigInt.ofInt (a.val + b.val)))
  | "i.checked_sub", [a, b] => do
    let a ← parseBigInt a; let b ← parseBigInt b
    let m := match BigInt.sub blk a b with
      | .ok r => "some " ++ showBigInt r
      | .error p => "panic " ++ p.toString
    pure (m, "some " ++ showBigInt (BigInt.ofInt (a.val - b.val)))
  -- scalar on the left: `u32/u64/u128 - BigUint` (computed inside the big operand's buffer through `sub2rev`)
  | "u.sub_from_u32", [sc, b] | "u.sub_from_u64", [sc, b] => do
    let sc ← parseNat sc; let b ← parseLimbs b
    pure (su (dSubRev .u64 sc b), su (oSubU sc (val b)))
  | "u.sub_from_u128", [sc, b] => do
    let sc ← parseNat sc; let b ← parseLimbs b
    pure (su (dSubRev .u128 sc b), su (oSubU sc (val b)))
  -- scalar on the right: `BigUint ± u32/u64/u128` (digit splitting into `[lo, hi]`, zero padding, `__add2` / `sub2`)
  | "u.add_u64", [a, sc] => do
    let a ← parseLimbs a; let sc ← parseNat sc
    pure (su (.ok (dAddAssign .u64 blk a sc)), su (.ok (ofNat (val a + sc))))
  | "u.add_u128", [a, sc] => do
    let a ← parseLimbs a; let sc ← parseNat sc
    pure (su (.ok (dAddAssign .u128 blk a sc)), su (.ok (ofNat (val a + sc))))
  | "u.sub_u64", [a, sc] => do
    let a ← parseLimbs a; let sc ← parseNat sc
    pure (su (dSubAssign .u64 blk a sc), su (oSubU (val a) sc))
  | "u.sub_u128", [a, sc] => do
    let a ← parseLimbs a; let sc ← parseNat sc
    pure (su (dSubAssign .u128 blk a sc), su (oSubU (val a) sc))
  -- internal hooks: raw slices
  | "raw.add2", [a, b] => do
    let a ← parseLimbs a; let b ← parseLimbs b
    if a.length < b.length then none else
    let r := add2c blk a b
    let tot := val a + val b
    let n := a.length
    -- oracle: digits of (a+b) mod B^n padded to n digits, and the carry
    let lo := tot % (B ^ n)
    let pad := ofNat lo ++ List.replicate (n - (ofNat lo).length) 0
    pure (showLimbs r.1 ++ " " ++ toString r.2, showLimbs pad ++ " " ++ toString (tot / B ^ n))
  | _, _ => none

end NB.Drv.C01
