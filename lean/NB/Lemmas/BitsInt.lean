/- helper lemmas for the BigInt part of C07 (scalar ±1, floor division, two's complement streams) -/
import NB.Lemmas.Bits
import NB.Lemmas.Shift
import NB.Props.C01
namespace NB.C07

theorem canon_one : Canon [1] := by decide

theorem addAssignU32_spec (P : Params) (a : List Nat) (ha : Canon a) :
    addAssignU32 P a 1 = ofNat (val a + 1) := by
  unfold addAssignU32
  simp only [ne_eq, Nat.succ_ne_zero, not_false_eq_true, if_true]
  by_cases h0 : a = []
  · subst h0
    simp only [if_true]
    obtain ⟨l1, l2, l3, l4⟩ := add2c_spec P [0] [1] (by simp) (by decide) (by decide)
    generalize add2c P [0] [1] = r at *
    obtain ⟨r1, r2⟩ := r
    simp only at *
    match r1, l2 with
    | [x], _ =>
      have hx : x < B := l3.head
      simp only [val, Nat.mul_zero, Nat.add_zero, List.length_cons, List.length_nil, ] at l1
      have hr2 : r2 = 0 := by
        rcases Nat.eq_zero_or_pos r2 with h | h
        · exact h
        · have : B * r2 ≥ B := Nat.le_mul_of_pos_right _ h
          unfold B at *; omega
      subst hr2
      have : x = 1 := by omega
      subst this
      have e := canon_eq_ofNat canon_one
      rw [show val [1] = 1 by simp [val]] at e
      simp only [not_true_eq_false, if_false, val, Nat.zero_add]
      exact e
  · simp only [h0, if_false]
    have := addAssign_spec P a [1] ha canon_one
    unfold addAssign at this
    have hl : ¬ a.length < [1].length := by
      cases a with
      | nil => exact absurd rfl h0
      | cons _ _ => simp
    simp only [hl, if_false] at this
    simpa [val] using this

theorem subAssignU32_spec (P : Params) (a : List Nat) (ha : Canon a) (h1 : 1 ≤ val a) :
    subAssignU32 P a 1 = .ok (ofNat (val a - 1)) := by
  have := subAssign_spec P a [1] ha canon_one
  unfold subAssign at this
  unfold subAssignU32
  rw [this]
  simp [val]; omega

/-- divisibility of `2^t * odd` by powers of two -/
theorem pow_two_dvd_odd (t m k : Nat) : (2 ^ t * (2 * m + 1)) % 2 ^ k = 0 ↔ k ≤ t := by
  constructor
  · intro h
    by_contra hlt
    have hlt : t + 1 ≤ k := by omega
    have h1 : 2 ^ k ∣ 2 ^ t * (2 * m + 1) := Nat.dvd_of_mod_eq_zero h
    have h2 : 2 ^ (t + 1) ∣ 2 ^ t * (2 * m + 1) := Nat.dvd_trans (Nat.pow_dvd_pow 2 hlt) h1
    rw [Nat.pow_succ] at h2
    have h3 : 2 ∣ 2 * m + 1 := Nat.dvd_of_mul_dvd_mul_left (Nat.pow_pos (by decide)) h2
    omega
  · intro h
    have : 2 ^ t = 2 ^ k * 2 ^ (t - k) := by rw [← Nat.pow_add]; congr 1; omega
    rw [this, Nat.mul_assoc, Nat.mul_mod_right]

/-- floor division of a negated natural number -/
theorem neg_ediv_pow (A k : Nat) :
    (-(A : Int)) / (2 : Int) ^ k =
      -((A / 2 ^ k : Nat) : Int) - (if A % 2 ^ k = 0 then 0 else 1) := by
  have hD : (0 : Int) < ((2 ^ k : Nat) : Int) := by exact_mod_cast Nat.pow_pos (by decide)
  have hcast : (2 : Int) ^ k = ((2 ^ k : Nat) : Int) := by push_cast; rfl
  rw [hcast]
  generalize 2 ^ k = D at *
  have hdm := Nat.div_add_mod A D
  have hmod : A % D < D := Nat.mod_lt _ (by exact_mod_cast hD)
  generalize A / D = q at *
  generalize A % D = r at *
  subst hdm
  by_cases hr : r = 0
  · subst hr
    simp only [if_true, Nat.add_zero, Int.sub_zero]
    push_cast
    rw [← Int.mul_neg, Int.mul_ediv_cancel_left _ (by omega)]
  · simp only [hr, if_false]
    have := (Int.ediv_emod_unique (a := -((D * q + r : Nat) : Int)) (b := (D : Int))
      (q := -(q : Int) - 1) (r := (D : Int) - r) hD).2
      ⟨by push_cast; ring, by omega, by omega⟩
    exact this.1

theorem bigint_val_minus (m : List Nat) : (⟨.minus, m⟩ : BigInt).val = -(val m : Int) := rfl
theorem bigint_val_plus (m : List Nat) : (⟨.plus, m⟩ : BigInt).val = (val m : Int) := rfl

/-- a canonical BigInt is zero, or has a canonical non-empty magnitude -/
theorem bigint_canon_cases {x : BigInt} (h : x.Canon) :
    (x = ⟨.nosign, []⟩) ∨ (x.sign ≠ .nosign ∧ x.mag ≠ [] ∧ 0 < val x.mag) := by
  obtain ⟨s, m⟩ := x
  obtain ⟨hc, hs⟩ := h
  simp only at hc hs
  by_cases h0 : m = []
  · left; subst h0; rw [hs.mpr rfl]
  · right
    exact ⟨fun e => h0 (hs.mp e), h0, canon_val_pos hc h0⟩

theorem fromBiguint_ofNat_plus (n : Nat) : BigInt.fromBiguint .plus (ofNat n) = BigInt.ofInt (n : Int) := by
  rw [fromBiguint_plus (ofNat_canon n), ofNat_val]

theorem fromBiguint_ofNat_minus (n : Nat) : BigInt.fromBiguint .minus (ofNat n) = BigInt.ofInt (-(n : Int)) := by
  rw [fromBiguint_minus (ofNat_canon n), ofNat_val]

theorem ofNat_eq_nil_iff (n : Nat) : ofNat n = [] ↔ n = 0 := by
  constructor
  · intro h; have := ofNat_val n; rw [h] at this; simpa [val] using this.symm
  · intro h; subst h; unfold ofNat; simp

theorem shrRoundDown_nonneg (x : BigInt) (k : Int) (h : x.sign ≠ .minus) :
    shrRoundDown x k = .ok false := by
  unfold shrRoundDown; simp [h]

/-- for a negative value: round down exactly when a one bit is shifted out -/
theorem shrRoundDown_minus (m : List Nat) (k : Int) (hc : Canon m) (hne : m ≠ []) (hk : 0 ≤ k)
    (hlen : BITS * m.length < U64_RANGE) :
    shrRoundDown ⟨.minus, m⟩ k = .ok (decide (val m % 2 ^ k.toNat ≠ 0)) := by
  unfold shrRoundDown
  simp only [if_true]
  have hpos := canon_val_pos hc hne
  obtain ⟨t, q, ht, hq⟩ := (trailingZerosU_spec m hc.1).2 (by omega)
  rw [ht]
  simp only
  congr 1
  -- t < 64 * len
  have htlt : t < BITS * m.length := by
    by_contra hge
    have hge : BITS * m.length ≤ t := by omega
    have h1 := val_lt hc.1
    rw [B_pow] at h1
    have h2 : 2 ^ (BITS * m.length) ≤ 2 ^ t := Nat.pow_le_pow_right (by decide) hge
    have h3 : 2 ^ t ≤ val m := by rw [hq]; exact Nat.le_mul_of_pos_right _ (by omega)
    omega
  have hiff := pow_two_dvd_odd t q k.toNat
  rw [← hq] at hiff
  by_cases hk0 : k > 0
  · by_cases hk64 : k < U64_RANGE
    · have hc1 : (0 ≤ k ∧ k < U64_RANGE) := ⟨hk, hk64⟩
      simp only [hk0, decide_true, hc1, and_self, if_true, Bool.true_and]
      congr 1
      rw [ne_eq, hiff]
      apply propext
      constructor
      · intro h; omega
      · intro h; omega
    · have hc1 : ¬ (0 ≤ k ∧ k < U64_RANGE) := fun h => hk64 h.2
      simp only [hk0, decide_true, hc1, if_false, Bool.true_and]
      symm; rw [decide_eq_true_iff, ne_eq, hiff]
      omega
  · have hk0' : k = 0 := by omega
    subst hk0'
    simp [Nat.mod_one]

theorem ofInt_neg_of_pos {n : Nat} (h : 0 < n) : BigInt.ofInt (-(n : Int)) = ⟨.minus, ofNat n⟩ := by
  unfold BigInt.ofInt
  have : (-(n : Int)) < 0 := by omega
  simp only [this, if_true, Int.natAbs_neg, Int.natAbs_natCast]

theorem ofInt_of_pos {n : Nat} (h : 0 < n) : BigInt.ofInt (n : Int) = ⟨.plus, ofNat n⟩ := by
  unfold BigInt.ofInt
  have h1 : ¬ ((n : Int) < 0) := by omega
  have h2 : ¬ ((n : Int) = 0) := by omega
  simp only [h1, h2, if_false, Int.natAbs_natCast]

theorem ofNat_one : ofNat 1 = [1] := by
  have e := canon_eq_ofNat canon_one
  rw [show val [1] = 1 by simp [val]] at e
  exact e.symm

theorem ofNat_zero : ofNat 0 = [] := by unfold ofNat; simp

theorem fromU_ofNat (n : Nat) : BigInt.fromU (ofNat n) = BigInt.ofInt (n : Int) := by
  unfold BigInt.fromU
  by_cases h : n = 0
  · subst h; simp [ofNat_zero, BigInt.ofInt]
  · have : ofNat n ≠ [] := by rw [ne_eq, ofNat_eq_nil_iff]; exact h
    simp only [this, if_false]
    rw [ofInt_of_pos (Nat.pos_of_ne_zero h)]

theorem testBit_pred_odd_mul (t q k : Nat) :
    (2 ^ t * (2 * q + 1) - 1).testBit k =
      if k < t then true else if k = t then false else (2 ^ t * (2 * q + 1)).testBit k := by
  have hpos : 0 < 2 ^ t := Nat.pow_pos (by decide)
  have e1 : 2 ^ t * (2 * q + 1) - 1 = (2 ^ t - 1) + 2 ^ t * (2 * q) := by
    have : 2 ^ t * (2 * q + 1) = 2 ^ t * (2 * q) + 2 ^ t := by ring
    omega
  have e2 : 2 ^ t * (2 * q + 1) = 0 + 2 ^ t * (2 * q + 1) := by simp
  rw [e1, testBit_block _ (by omega)]
  by_cases h1 : k < t
  · simp [h1]
  · simp only [h1, if_false]
    by_cases h2 : k = t
    · subst h2; simp [Nat.testBit_zero]
    · simp only [h2, if_false]
      rw [e2, testBit_block _ hpos, if_neg h1]
      obtain ⟨j, hj⟩ : ∃ j, k - t = j + 1 := ⟨k - t - 1, by omega⟩
      rw [hj, Nat.testBit_succ, Nat.testBit_succ]
      congr 1; omega

end NB.C07
