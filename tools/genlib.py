"""Generator helpers: wire encoding and structured digit patterns (B = 2^64)."""
import random

B = 1 << 64
MAX = B - 1

def limbs_of(n):
    assert n >= 0
    out = []
    while n:
        out.append(n & MAX)
        n >>= 64
    return out

def wl(l):
    """wire for a raw limb list"""
    return "." if not l else ",".join("%x" % d for d in l)

def wu(n):
    """wire for a BigUint value (canonical)"""
    return wl(limbs_of(n))

def wi(n):
    """wire for a BigInt value (canonical)"""
    if n == 0:
        return "0."
    return ("+" if n > 0 else "-") + wu(abs(n))

def wbytes(bs):
    return "x" + "".join("%02x" % b for b in bs)

def wwords(ws):
    return "w" + ",".join("%x" % w for w in ws)

def val(l):
    v = 0
    for d in reversed(l):
        v = (v << 64) | d
    return v

SPECIAL = [0, 1, 2, MAX, MAX - 1, 1 << 63, (1 << 63) - 1, (1 << 63) + 1, 1 << 32, (1 << 32) - 1]

def digit(rng, kind=None):
    k = kind if kind is not None else rng.randrange(10)
    if k < 4:
        return rng.randrange(B)
    if k < 7:
        return rng.choice(SPECIAL)
    if k < 8:
        return MAX
    if k < 9:
        return 0
    return 1 << rng.randrange(64)

def digits(rng, n, pattern=None):
    """n raw digits with a named pattern"""
    p = pattern or rng.choice(["rand", "ones", "zeros_top1", "sparse", "mixed", "runs", "lowzero", "half"])
    if n == 0:
        return []
    if p == "rand":
        l = [rng.randrange(B) for _ in range(n)]
    elif p == "ones":
        l = [MAX] * n
    elif p == "zeros_top1":
        l = [0] * (n - 1) + [1]
    elif p == "sparse":
        l = [0] * n
        for _ in range(max(1, n // 8)):
            l[rng.randrange(n)] = digit(rng)
    elif p == "mixed":
        l = [digit(rng) for _ in range(n)]
    elif p == "runs":
        l = []
        while len(l) < n:
            run = rng.randrange(1, 9)
            d = rng.choice([0, MAX, MAX, 1, rng.randrange(B)])
            l += [d] * run
        l = l[:n]
    elif p == "lowzero":
        z = rng.randrange(0, n)
        l = [0] * z + [rng.randrange(B) for _ in range(n - z)]
    elif p == "half":
        h = n // 2
        l = [MAX] * h + [rng.randrange(B) for _ in range(n - h)]
    else:
        raise ValueError(p)
    return l

def canon(l, rng=None):
    """make the top digit non-zero (value keeps its length)"""
    l = list(l)
    if l and l[-1] == 0:
        l[-1] = 1 if rng is None else rng.randrange(1, B)
    return l

def big(rng, n, pattern=None):
    """a canonical n-digit value"""
    return val(canon(digits(rng, n, pattern), rng))

def signed(rng, v):
    return v if rng.randrange(2) else -v
