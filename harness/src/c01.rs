//! stream C01: addition and subtraction
use crate::wire::*;
use num_bigint::{BigInt, BigUint};
use num_traits::{CheckedAdd, CheckedSub};

pub fn handle(op: &str, a: &[&str]) -> Option<String> {
    Some(match (op, a) {
        ("u.add", [x, y]) => ok_u(&(&parse_u(x)? + &parse_u(y)?)),
        ("u.add_assign", [x, y]) => {
            let mut v = parse_u(x)?;
            v += &parse_u(y)?;
            ok_u(&v)
        }
        ("u.checked_add", [x, y]) => opt_u(&parse_u(x)?.checked_add(&parse_u(y)?)),
        ("u.sub", [x, y]) => ok_u(&(&parse_u(x)? - &parse_u(y)?)),
        ("u.sub_assign", [x, y]) => {
            let mut v = parse_u(x)?;
            v -= &parse_u(y)?;
            ok_u(&v)
        }
        ("u.sub_refval", [x, y]) => ok_u(&(&parse_u(x)? - parse_u(y)?)),
        ("u.checked_sub", [x, y]) => opt_u(&parse_u(x)?.checked_sub(&parse_u(y)?)),
        ("i.add", [x, y]) => ok_i(&(&parse_i(x)? + &parse_i(y)?)),
        ("i.add_assign", [x, y]) => {
            let mut v = parse_i(x)?;
            v += &parse_i(y)?;
            ok_i(&v)
        }
        ("i.sub", [x, y]) => ok_i(&(&parse_i(x)? - &parse_i(y)?)),
        ("i.sub_assign", [x, y]) => {
            let mut v = parse_i(x)?;
            v -= &parse_i(y)?;
            ok_i(&v)
        }
        ("i.checked_add", [x, y]) => opt_i(&parse_i(x)?.checked_add(&parse_i(y)?)),
        ("i.checked_sub", [x, y]) => opt_i(&parse_i(x)?.checked_sub(&parse_i(y)?)),
        #[cfg(num_bigint_verif)]
        ("raw.add2", [x, y]) => {
            let mut a = parse_limbs(x)?;
            let b = parse_limbs(y)?;
            if a.len() < b.len() {
                return None;
            }
            let c = num_bigint::verif::add2c(&mut a, &b);
            format!("{} {}", show_limbs(&a), c)
        }
        _ => return None,
    })
}

#[allow(dead_code)]
fn _types(_: BigInt, _: BigUint) {}
