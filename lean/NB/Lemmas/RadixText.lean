/- helper lemmas for NB.Model.Radix (C06): text parsing against the grammar, UTF-8 gate -/
import NB.Lemmas.RadixParse
namespace NB.Radix
open NB

/-! ### digit bytes -/

theorem byteDigit_lt_iff {r b : Nat} (hr : r ≤ 36) : byteDigit b < r ↔ Spec.isDigit r b = true := by
  unfold byteDigit Spec.isDigit Spec.digitVal?
  by_cases h1 : 48 ≤ b ∧ b ≤ 57
  · simp only [h1, and_self, if_true, decide_eq_true_eq]
  · by_cases h2 : 97 ≤ b ∧ b ≤ 122
    · simp only [h1, h2, and_self, if_true, if_false, decide_eq_true_eq]; omega
    · by_cases h3 : 65 ≤ b ∧ b ≤ 90
      · simp only [h1, h2, h3, and_self, if_true, if_false, decide_eq_true_eq]; omega
      · simp only [h1, h2, h3, if_false]
        constructor
        · intro h; omega
        · intro h; cases h

theorem digitVal_getD {r b : Nat} (h : Spec.isDigit r b = true) : (Spec.digitVal? b).getD 0 = byteDigit b := by
  unfold Spec.isDigit at h
  unfold byteDigit Spec.digitVal? at *
  by_cases h1 : 48 ≤ b ∧ b ≤ 57
  · simp only [h1, and_self, if_true, Option.getD_some]
  · by_cases h2 : 97 ≤ b ∧ b ≤ 122
    · simp only [h1, h2, and_self, if_true, if_false, Option.getD_some]; omega
    · by_cases h3 : 65 ≤ b ∧ b ≤ 90
      · simp only [h1, h2, h3, and_self, if_true, if_false, Option.getD_some]; omega
      · simp only [h1, h2, h3, if_false] at h; cases h

theorem isDigit_lt_128 {r b : Nat} (h : Spec.isDigit r b = true) : b < 128 ∧ b ≠ 95 ∧ b ≠ 43 ∧ b ≠ 45 := by
  unfold Spec.isDigit Spec.digitVal? at h
  by_cases h1 : 48 ≤ b ∧ b ≤ 57
  · omega
  · by_cases h2 : 97 ≤ b ∧ b ≤ 122
    · omega
    · by_cases h3 : 65 ≤ b ∧ b ≤ 90
      · omega
      · simp only [h1, h2, h3, if_false] at h; cases h

/-! ### the sign splits -/

theorem stripPlus_nil : stripPlus [] = [] := rfl
theorem stripPlus_plus_nil : stripPlus [43] = [] := rfl
theorem stripPlus_plus_plus (t : List Nat) : stripPlus (43 :: 43 :: t) = 43 :: 43 :: t := rfl
theorem stripPlus_plus_cons {c : Nat} (t : List Nat) (h : c ≠ 43) : stripPlus (43 :: c :: t) = c :: t := by
  unfold stripPlus
  split
  · rename_i tail heq
    injection heq with _ h2
    subst h2
    split
    · rename_i heq2; injection heq2 with h3 _; exact absurd h3 h
    · rfl
  · rename_i hne; exact absurd rfl (hne _)
theorem stripPlus_cons_ne {c : Nat} (t : List Nat) (h : c ≠ 43) : stripPlus (c :: t) = c :: t := by
  unfold stripPlus
  split
  · rename_i tail heq; injection heq with h1 _; exact absurd h1 h
  · rfl

theorem stripMinus_cons_ne {c : Nat} (t : List Nat) (h : c ≠ 45) : stripMinus (c :: t) = (.plus, c :: t) := by
  unfold stripMinus
  split
  · rename_i tail heq; injection heq with h1 _; exact absurd h1 h
  · rfl
theorem stripMinus_nil : stripMinus [] = (.plus, []) := rfl
theorem stripMinus_minus_nil : stripMinus [45] = (.minus, []) := rfl
theorem stripMinus_minus_plus (t : List Nat) : stripMinus (45 :: 43 :: t) = (.minus, 45 :: 43 :: t) := rfl
theorem stripMinus_minus_cons {c : Nat} (t : List Nat) (h : c ≠ 43) : stripMinus (45 :: c :: t) = (.minus, c :: t) := by
  unfold stripMinus
  split
  · rename_i tail heq
    injection heq with _ h2
    subst h2
    split
    · rename_i heq2; injection heq2 with h3 _; exact absurd h3 h
    · rfl
  · rename_i hne; exact absurd rfl (hne _)

/-! ### the body of `from_str_radix` against the grammar -/

theorem body_false_of_not_digit {r c : Nat} (t : List Nat) (h : Spec.isDigit r c = false) :
    Spec.body r (c :: t) = false := by
  simp [Spec.body, h]

theorem isDigit_43 (r : Nat) : Spec.isDigit r 43 = false := by
  unfold Spec.isDigit Spec.digitVal?; simp
theorem isDigit_45 (r : Nat) : Spec.isDigit r 45 = false := by
  unfold Spec.isDigit Spec.digitVal?; simp
theorem isDigit_95 (r : Nat) : Spec.isDigit r 95 = false := by
  unfold Spec.isDigit Spec.digitVal?; simp

/-- everything after the sign handling of `BigUint::from_str_radix`, on the stripped text `s'` -/
theorem fromStrRadixU_core {r : Nat} (h2 : 2 ≤ r) (h36 : r ≤ 36) (s s' : List Nat) (hs : stripPlus s = s') :
    fromStrRadixU s r = .ok (if Spec.body r s' then .ok (ofNat (Spec.denoteBody r s'))
                             else .error (if s' = [] then .empty else .invalid)) := by
  unfold fromStrRadixU strRadixMax
  rw [if_neg (by omega)]
  simp only [hs]
  cases s' with
  | nil => simp [Spec.body]
  | cons b rest =>
    have hne : (b :: rest) ≠ [] := by simp
    simp only [hne, if_false, List.head?_cons, Option.some.injEq]
    have hmod : r % U8 = r := Nat.mod_eq_of_lt (by unfold U8; omega)
    rw [hmod]
    by_cases hb : b = 95
    · subst hb
      simp only [if_true, body_false_of_not_digit rest (isDigit_95 r)]
      rfl
    · simp only [hb, if_false]
      -- the digit check is exactly the grammar
      have hall : (((b :: rest).filter (fun x => x != 95)).map byteDigit).all (fun d => decide (d < r)) = Spec.body r (b :: rest) := by
        rw [Bool.eq_iff_iff]
        simp only [List.all_eq_true, List.mem_map, List.mem_filter, decide_eq_true_eq, Spec.body, Bool.and_eq_true,
          Bool.or_eq_true, beq_iff_eq, bne_iff_ne, ne_eq]
        constructor
        · intro h
          refine ⟨(byteDigit_lt_iff h36).1 (h _ ⟨b, ⟨by simp, hb⟩, rfl⟩), ?_⟩
          intro c hc
          by_cases hc95 : c = 95
          · exact Or.inl hc95
          · exact Or.inr ((byteDigit_lt_iff h36).1 (h _ ⟨c, ⟨by simp [hc], hc95⟩, rfl⟩))
        · rintro ⟨hbd, hrest⟩ d ⟨c, ⟨hc, hc95⟩, rfl⟩
          rcases List.mem_cons.1 hc with rfl | hc'
          · exact (byteDigit_lt_iff h36).2 hbd
          · rcases hrest c hc' with h95 | hd
            · exact absurd h95 hc95
            · exact (byteDigit_lt_iff h36).2 hd
      rw [hall]
      by_cases hbody : Spec.body r (b :: rest) = true
      · simp only [hbody, if_true]
        set v := ((b :: rest).filter (fun x => x != 95)).map byteDigit with hv
        have hvall : ∀ d ∈ v, d < r := by
          have := hall.trans hbody
          simpa [List.all_eq_true] using this
        have hbmem : byteDigit b ∈ v := by
          rw [hv]; simp only [List.mem_map, List.mem_filter, bne_iff_ne, ne_eq]
          exact ⟨b, ⟨by simp, hb⟩, rfl⟩
        have hvne : v.reverse ≠ [] := by
          intro h; rw [List.reverse_eq_nil_iff] at h; rw [h] at hbmem; cases hbmem
        have := digitsToBigUint_spec (by omega : 2 ≤ r) (by omega : r ≤ 256) v.reverse hvne (by simpa using hvall)
        rw [List.reverse_reverse] at this
        rw [this, ← beValue_eq_ofDigits]
        -- the digit values are those of the grammar
        have hmap : v = ((b :: rest).filter (fun x => x != 95)).map (fun x => (Spec.digitVal? x).getD 0) := by
          rw [hv]
          apply List.map_congr_left
          intro c hc
          simp only [List.mem_filter, bne_iff_ne, ne_eq] at hc
          have hcd : Spec.isDigit r c = true := by
            simp only [Spec.body, Bool.and_eq_true, List.all_eq_true, Bool.or_eq_true, beq_iff_eq] at hbody
            rcases List.mem_cons.1 hc.1 with rfl | hc'
            · exact hbody.1
            · rcases hbody.2 c hc' with h95 | hd
              · exact absurd h95 hc.2
              · exact hd
          exact (digitVal_getD hcd).symm
        simp only [Spec.denoteBody, ← hmap]
      · have hbf : Spec.body r (b :: rest) = false := by simpa using hbody
        simp [hbf]

/-! ### UTF-8 gate -/

theorem utf8Valid_ascii : ∀ (s : List Nat), (∀ b ∈ s, b < 128) → utf8Valid s = true := by
  intro s
  induction s with
  | nil => intro _; rfl
  | cons b t ih =>
    intro h
    have hb : b < 128 := h b (by simp)
    unfold utf8Valid
    rw [if_pos hb]
    exact ih (fun x hx => h x (by simp [hx]))

theorem body_ascii {r : Nat} (s : List Nat) (h : Spec.body r s = true) : ∀ b ∈ s, b < 128 := by
  cases s with
  | nil => cases h
  | cons c t =>
    simp only [Spec.body, Bool.and_eq_true, List.all_eq_true, Bool.or_eq_true, beq_iff_eq] at h
    intro b hb
    rcases List.mem_cons.1 hb with rfl | hb'
    · exact (isDigit_lt_128 h.1).1
    · rcases h.2 b hb' with h95 | hd
      · omega
      · exact (isDigit_lt_128 hd).1

end NB.Radix
