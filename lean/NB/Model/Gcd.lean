/-
  NB.Model.Gcd — value-level model of the gcd family of `impl Integer for BigUint` (src/biguint.rs)
  and `impl Integer for BigInt` (src/bigint.rs), plus num-integer 0.1.47's default
  `Integer::extended_gcd` (the loop BigInt inherits).

  The Rust code is written with BigUint/BigInt operators (`>>= << -= / * % + - cmp`), so the model
  works on `Nat`/`Int` with the mathematical operators (layering justified by C01–C03/C07) and
  keeps the control flow: Stein's loop exactly as coded (`twos`, the common shift, the initial
  shift of `n`, shift of `m` inside the loop, swap, subtract, final shift), the zero guards of
  `lcm`/`gcd_lcm`/`extended_gcd_lcm`, the three-pair Euclid loop with truncated division and the final
  sign fix, `mod_floor`'s sign table, `next/prev_multiple_of` via `mod_floor`.
  Every operator that can panic is an explicit outcome (`m -= &n` underflow, `/` and `%` by zero,
  the `unreachable!()` arms); the theorems of NB.Props.C13 show which are unreachable.
  Loops take fuel (`steinFuel`, `egcdFuel` are proved sufficient).
  `is_even` looks at the first digit only, so it is modelled on the digit list.
-/
import NB.Base
import NB.Model.IntVal
namespace NB.Gcd
open NB.IntVal

/-! ### BigUint -/

/-- count of trailing zero bits of a non-zero value, by repeated halving (fuel = bit length) -/
def tzLoop : Nat → Nat → Nat
  | 0, _ => 0
  | fuel + 1, x => if x % 2 = 1 then 0 else 1 + tzLoop fuel (x / 2)

/-- `fn twos(x) = x.trailing_zeros().unwrap_or(0)` -/
def twos (x : Nat) : Nat := if x = 0 then 0 else tzLoop (Nat.log2 x + 1) x

/-- `while !m.is_zero() { m >>= twos(&m); if n > m { swap(&mut n, &mut m) } m -= &n; }` ; returns `n` -/
def steinLoop : Nat → Nat → Nat → Except Panic Nat
  | 0, _, _ => .error (.internal "fuel")
  | fuel + 1, m, n =>
    if m ≠ 0 then
      let m := m >>> twos m
      let (n, m) := if n > m then (m, n) else (n, m)
      -- `m -= &n`
      if m < n then .error .underflow else
      steinLoop fuel (m - n) n
    else .ok n

def steinFuel (a b : Nat) : Nat := a + b + 1

/-- `BigUint::gcd` (Stein's algorithm) -/
def gcd (a b : Nat) : Except Panic Nat :=
  if a = 0 then .ok b else
  if b = 0 then .ok a else
  let m := a
  let n := b
  -- find common factors of 2
  let shift := min (twos n) (twos m)
  -- divide m and n by 2 until odd; m inside loop
  let n := n >>> twos n
  match steinLoop (steinFuel m n) m n with
  | .error e => .error e
  | .ok n => .ok (n <<< shift)

/-- BigUint `/` -/
def udiv (a b : Nat) : Except Panic Nat := if b = 0 then .error .divzero else .ok (a / b)

/-- BigUint `%` / `mod_floor` -/
def umod (a b : Nat) : Except Panic Nat := if b = 0 then .error .divzero else .ok (a % b)

/-- BigUint `-` -/
def usub (a b : Nat) : Except Panic Nat := if a < b then .error .underflow else .ok (a - b)

/-- `BigUint::lcm`: `if self.is_zero() && other.is_zero() { ZERO } else { self / self.gcd(other) * other }` -/
def lcm (a b : Nat) : Except Panic Nat :=
  if a = 0 ∧ b = 0 then .ok 0 else
  match gcd a b with
  | .error e => .error e
  | .ok g =>
    match udiv a g with
    | .error e => .error e
    | .ok q => .ok (q * b)

/-- `BigUint::gcd_lcm` -/
def gcdLcm (a b : Nat) : Except Panic (Nat × Nat) :=
  match gcd a b with
  | .error e => .error e
  | .ok g =>
    if g = 0 then .ok (g, 0) else
    match udiv a g with
    | .error e => .error e
    | .ok q => .ok (g, q * b)

/-- `BigUint::is_multiple_of` -/
def isMultipleOf (a b : Nat) : Except Panic Bool :=
  if b = 0 then .ok (decide (a = 0)) else
  match umod a b with
  | .error e => .error e
  | .ok r => .ok (decide (r = 0))

/-- `BigUint::is_even`: `match self.data.first() { Some(x) => x.is_even(), None => true }` -/
def isEven (ds : List Nat) : Bool :=
  match ds.head? with
  | some x => decide (x % 2 = 0)
  | none => true

/-- `BigUint::is_odd` -/
def isOdd (ds : List Nat) : Bool := !isEven ds

/-- `BigUint::next_multiple_of` -/
def nextMultipleOf (a b : Nat) : Except Panic Nat :=
  match umod a b with
  | .error e => .error e
  | .ok m =>
    if m = 0 then .ok a else
    match usub b m with
    | .error e => .error e
    | .ok d => .ok (a + d)

/-- `BigUint::prev_multiple_of`: `self - self.mod_floor(other)` -/
def prevMultipleOf (a b : Nat) : Except Panic Nat :=
  match umod a b with
  | .error e => .error e
  | .ok m => usub a m

/-- `BigUint::inc`: `*self += 1u32` -/
def inc (a : Nat) : Except Panic Nat := .ok (a + 1)

/-- `BigUint::dec`: `*self -= 1u32` -/
def dec (a : Nat) : Except Panic Nat := usub a 1

/-! ### BigInt (value level: `Int`; `sign` = sign of the value, `data` = `natAbs`) -/

/-- `BigInt::from(BigUint)` -/
def ofMag (m : Nat) : Int := (m : Int)

def bigintGcd (a b : Int) : Except Panic Int :=
  match gcd a.natAbs b.natAbs with
  | .error e => .error e
  | .ok g => .ok (ofMag g)

def bigintLcm (a b : Int) : Except Panic Int :=
  match lcm a.natAbs b.natAbs with
  | .error e => .error e
  | .ok l => .ok (ofMag l)

def bigintGcdLcm (a b : Int) : Except Panic (Int × Int) :=
  match gcdLcm a.natAbs b.natAbs with
  | .error e => .error e
  | .ok (g, l) => .ok (ofMag g, ofMag l)

/-- BigInt `/` (truncating) -/
def idiv (a b : Int) : Except Panic Int := if b = 0 then .error .divzero else .ok (Int.tdiv a b)

/-- num-integer `extended_gcd` loop.  State: `s = (s0, s1)`, `t = (t0, t1)`, `r = (r0, r1)`.
    Body: `q = r.1 / r.0; f = |r| { swap(r.0, r.1); r.0 = r.0 - q * r.1; r }; r = f(r); s = f(s); t = f(t)` -/
def egcdLoop : Nat → Int → Int → Int → Int → Int → Int → Except Panic (Int × Int × Int)
  | 0, _, _, _, _, _, _ => .error (.internal "fuel")
  | fuel + 1, s0, s1, t0, t1, r0, r1 =>
    if r0 ≠ 0 then
      match idiv r1 r0 with
      | .error e => .error e
      | .ok q =>
        egcdLoop fuel (s1 - q * s0) s0 (t1 - q * t0) t0 (r1 - q * r0) r0
    else .ok (r1, s1, t1)

def egcdFuel (b : Int) : Nat := b.natAbs + 1

/-- num-integer 0.1.47 `Integer::extended_gcd` (default method) on BigInt; returns `(gcd, x, y)` -/
def extendedGcd (a b : Int) : Except Panic (Int × Int × Int) :=
  -- s = (0, 1); t = (1, 0); r = (other, self)
  match egcdLoop (egcdFuel b) 0 1 1 0 b a with
  | .error e => .error e
  | .ok (r1, s1, t1) =>
    if r1 ≥ 0 then .ok (r1, s1, t1)
    else .ok (0 - r1, 0 - s1, 0 - t1)

/-- `BigInt::extended_gcd_lcm` -/
def extendedGcdLcm (a b : Int) : Except Panic ((Int × Int × Int) × Int) :=
  match extendedGcd a b with
  | .error e => .error e
  | .ok (g, x, y) =>
    if g = 0 then .ok ((g, x, y), 0) else
    -- `BigInt::from(&self.data / &egcd.gcd.data * &other.data)`
    match udiv a.natAbs g.natAbs with
    | .error e => .error e
    | .ok q => .ok ((g, x, y), ofMag (q * b.natAbs))

/-- `BigInt::is_multiple_of`: `self.data.is_multiple_of(&other.data)` -/
def bigintIsMultipleOf (a b : Int) : Except Panic Bool := isMultipleOf a.natAbs b.natAbs

/-- `BigInt::mod_floor` -/
def bigintModFloor (a b : Int) : Except Panic Int :=
  -- m.sign == other.sign
  match umod a.natAbs b.natAbs with
  | .error e => .error e
  | .ok mUi =>
    let m := fromBiguint (signOf b) mUi
    match signOf a, signOf b with
    | .plus, .plus | .nosign, .plus | .minus, .minus => .ok m
    | .plus, .minus | .nosign, .minus | .minus, .plus =>
      if m = 0 then .ok m else .ok (b - m)
    | _, .nosign => .error (.internal "unreachable")

/-- `BigInt::next_multiple_of` -/
def bigintNextMultipleOf (a b : Int) : Except Panic Int :=
  match bigintModFloor a b with
  | .error e => .error e
  | .ok m => if m = 0 then .ok a else .ok (a + (b - m))

/-- `BigInt::prev_multiple_of` -/
def bigintPrevMultipleOf (a b : Int) : Except Panic Int :=
  match bigintModFloor a b with
  | .error e => .error e
  | .ok m => .ok (a - m)

def bigintInc (a : Int) : Except Panic Int := .ok (a + 1)
def bigintDec (a : Int) : Except Panic Int := .ok (a - 1)

end NB.Gcd
