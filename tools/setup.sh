#!/bin/sh
# Build the whole framework offline: regenerate NB/Gen, build every Lean module (model, driver,
# proofs) and the Rust harness (release + debug) against /repo's working tree.
set -e
cd "$(dirname "$0")/.."
export CARGO_NET_OFFLINE=true
python3 tools/extract.py > /dev/null
(cd lean && lake build NB nbdrv $(python3 ../tools/props.py --lean-modules))
(cd harness && cargo build --offline --release && cargo build --offline)
echo setup-ok
