/- driver handlers for stream C17 (serde format) -/
import NB.Wire
import NB.Model.Bytes
import NB.Model.Serde
namespace NB.Drv.C17
open NB NB.Wire NB.Bytes NB.Serde

def showDeclared : Option Nat → String
  | some n => toString n
  | none => "none"

def showSeq (r : SeqRec) : String := "seq " ++ showDeclared r.declared ++ " " ++ showWords r.elems

def parseHint (s : String) : Option (Option Nat) :=
  if s == "none" then some none else s.toNat?.map some

def signedVal (s : Sign) (m : Nat) : Int :=
  match s with
  | .minus => - (m : Int) | .nosign => 0 | .plus => (m : Int)

def oSign (v : Int) : Option Sign :=
  if v = -1 then some .minus else if v = 0 then some .nosign else if v = 1 then some .plus else none

def parseKind (s : String) : Option TokKind :=
  match s with
  | "i8" => some .i8 | "i16" => some .i16 | "i32" => some .i32 | "i64" => some .i64 | "i128" => some .i128
  | "u8" => some .u8 | "u16" => some .u16 | "u32" => some .u32 | "u64" => some .u64 | "u128" => some .u128
  | "bool" | "f32" | "f64" | "char" | "str" | "bytes" | "unit" | "none" | "seq" => some .other
  | _ => none

/-- `kind:value` -/
def parseTok (s : String) : Option (TokKind × Int) :=
  match s.splitOn ":" with
  | [k, v] => do let k ← parseKind k; let v ← parseInt v; pure (k, v)
  | _ => none

/-- `tok,tok,…` or `.` -/
def parseTokList (s : String) : Option (List (TokKind × Int)) :=
  if s == "." then some [] else (s.splitOn ",").mapM parseTok

/-- independent statement for typed element sequences -/
def oTokSeq (toks : List (TokKind × Int)) : Option (List Nat) :=
  if toks.all (fun t => (match t.1 with | .i128 | .u128 | .other => false | _ => true)
      && decide (0 ≤ t.2) && decide (t.2 < 4294967296))
  then some (ofNat (valBase W (toks.map (fun t => t.2.toNat)))) else none

/-- independent statement: accepted iff a ≤ 64-bit integer token whose value is −1, 0 or 1 -/
def oSignTok (k : TokKind) (v : Int) : Option Sign :=
  match k with
  | .i128 | .u128 | .other => none
  | _ => oSign v

def showKind : Kind → String
  | .tuple2 => "tuple2" | .i8 => "i8" | .seq => "seq" | .u32 => "u32"

/-- run-length rendering used by the harness: `seq,u32*3` (`-` for none) -/
def showKinds (ks : List Kind) : String :=
  let rec go (ks : List Kind) (cur : Option (Kind × Nat)) (acc : List String) : List String :=
    match ks, cur with
    | [], none => acc.reverse
    | [], some (k, n) => ((if n > 1 then showKind k ++ "*" ++ toString n else showKind k) :: acc).reverse
    | k :: r, none => go r (some (k, 1)) acc
    | k :: r, some (c, n) =>
      if k == c then go r (some (c, n + 1)) acc
      else go r (some (k, 1)) ((if n > 1 then showKind c ++ "*" ++ toString n else showKind c) :: acc)
  let l := go ks none []
  if l.isEmpty then "-" else ",".intercalate l

/-- independent statement of the hint sequence: it mirrors the serialized shape `(i8, [u32; n])` / `[u32; n]` -/
def oHintsU (n : Nat) : String := if n = 0 then "seq" else if n = 1 then "seq,u32" else "seq,u32*" ++ toString n
def oHintsI (v : Int) (n : Nat) : String :=
  if v = -1 ∨ v = 0 ∨ v = 1 then "tuple2,i8," ++ oHintsU n else "tuple2,i8"

def handle (op : String) (args : List String) : Option (String × String) :=
  match op, args with
  | "u.ser", [a] => do
    let a ← parseLimbs a
    let d := digitsBase W (val a)
    pure ("ok " ++ showSeq (ser a), "ok " ++ showSeq ⟨some d.length, d⟩)
  | "u.de", [w] => do
    let w ← parseWords w
    pure ("ok " ++ showLimbs (de none w), "ok " ++ showLimbs (ofNat (valBase W w)))
  | "u.de", [w, h] => do
    let w ← parseWords w; let h ← parseHint h
    pure ("ok " ++ showLimbs (de h w), "ok " ++ showLimbs (ofNat (valBase W w)))
  -- `deserialize_in_place` is serde's provided method: deserialize, then overwrite the target
  | "u.de_in_place", [_, w] => do
    let w ← parseWords w
    pure ("ok " ++ showLimbs (de none w), "ok " ++ showLimbs (ofNat (valBase W w)))
  | "u.de_in_place", [_, w, h] => do
    let w ← parseWords w; let h ← parseHint h
    pure ("ok " ++ showLimbs (de h w), "ok " ++ showLimbs (ofNat (valBase W w)))
  | "u.roundtrip", [a] => do
    let a ← parseLimbs a
    pure ("ok " ++ showLimbs (de (ser a).declared (ser a).elems), "ok " ++ showLimbs (ofNat (val a)))
  | "i.ser", [a] => do
    let a ← parseBigInt a
    let r := serBigInt a
    let d := digitsBase W (val a.mag)
    pure ("ok tuple 2 i8 " ++ showInt r.1 ++ " " ++ showSeq r.2,
          "ok tuple 2 i8 " ++ showInt (if a.val < 0 then -1 else if a.val = 0 then 0 else 1) ++ " "
            ++ showSeq ⟨some d.length, d⟩)
  | "i.de", [v, w] => do
    let v ← parseInt v; let w ← parseWords w
    let m := match deBigInt v none w with | some x => "ok " ++ showBigInt x | none => "err"
    let o := match oSign v with
      | some s => "ok " ++ showBigInt (BigInt.ofInt (signedVal s (valBase W w)))
      | none => "err"
    pure (m, o)
  | "i.de", [v, w, h] => do
    let v ← parseInt v; let w ← parseWords w; let h ← parseHint h
    let m := match deBigInt v h w with | some x => "ok " ++ showBigInt x | none => "err"
    let o := match oSign v with
      | some s => "ok " ++ showBigInt (BigInt.ofInt (signedVal s (valBase W w)))
      | none => "err"
    pure (m, o)
  | "i.de_in_place", [_, v, w] => do
    let v ← parseInt v; let w ← parseWords w
    let m := match deBigInt v none w with | some x => "ok " ++ showBigInt x | none => "err"
    let o := match oSign v with
      | some s => "ok " ++ showBigInt (BigInt.ofInt (signedVal s (valBase W w)))
      | none => "err"
    pure (m, o)
  | "i.de_in_place", [_, v, w, h] => do
    let v ← parseInt v; let w ← parseWords w; let h ← parseHint h
    let m := match deBigInt v h w with | some x => "ok " ++ showBigInt x | none => "err"
    let o := match oSign v with
      | some s => "ok " ++ showBigInt (BigInt.ofInt (signedVal s (valBase W w)))
      | none => "err"
    pure (m, o)
  | "i.roundtrip", [a] => do
    let a ← parseBigInt a
    let r := serBigInt a
    let m := match deBigInt r.1 r.2.declared r.2.elems with | some x => "ok " ++ showBigInt x | none => "err"
    pure (m, "ok " ++ showBigInt (BigInt.ofInt a.val))
  -- api-coverage: `Serialize for Sign` / `Deserialize for Sign` on their own
  | "sign.ser", [s] => do
    let sg ← (match s.toList with | [c] => parseSign c | _ => none)
    pure ("ok i8:" ++ showInt (serSign sg),
          "ok i8:" ++ showInt (match sg with | .minus => -1 | .nosign => 0 | .plus => 1))
  | "u.de_hints", [w] => do
    let w ← parseWords w
    pure ("ok " ++ showLimbs (de none w) ++ " ; " ++ showKinds (deHintsU w),
          "ok " ++ showLimbs (ofNat (valBase W w)) ++ " ; " ++ oHintsU w.length)
  | "u.de_hints", [w, h] => do
    let w ← parseWords w; let h ← parseHint h
    pure ("ok " ++ showLimbs (de h w) ++ " ; " ++ showKinds (deHintsU w),
          "ok " ++ showLimbs (ofNat (valBase W w)) ++ " ; " ++ oHintsU w.length)
  | "i.de_hints", [v, w] => do
    let v ← parseInt v; let w ← parseWords w
    let m := (match deBigInt v none w with | some x => "ok " ++ showBigInt x | none => "err") ++ " ; " ++ showKinds (deHintsI v w)
    let o := (match oSign v with
      | some s => "ok " ++ showBigInt (BigInt.ofInt (signedVal s (valBase W w)))
      | none => "err") ++ " ; " ++ oHintsI v w.length
    pure (m, o)
  | "i.de_hints", [v, w, h] => do
    let v ← parseInt v; let w ← parseWords w; let h ← parseHint h
    let m := (match deBigInt v h w with | some x => "ok " ++ showBigInt x | none => "err") ++ " ; " ++ showKinds (deHintsI v w)
    let o := (match oSign v with
      | some s => "ok " ++ showBigInt (BigInt.ofInt (signedVal s (valBase W w)))
      | none => "err") ++ " ; " ++ oHintsI v w.length
    pure (m, o)
  | "sign.de_hints", [v] => do
    let v ← parseInt v
    let sh : Option Sign → String := fun r => match r with | some s => "ok " ++ showSign s | none => "err"
    pure (sh (deSign v) ++ " ; i8", sh (oSign v) ++ " ; i8")
  | "u.de_tl", [l] => do
    let l ← parseTokList l
    let sh : Option (List Nat) → String := fun r => match r with | some d => "ok " ++ showLimbs d | none => "err"
    pure (sh (deTokSeq none l), sh (oTokSeq l))
  | "u.de_tl", [l, h] => do
    let l ← parseTokList l; let h ← parseHint h
    let sh : Option (List Nat) → String := fun r => match r with | some d => "ok " ++ showLimbs d | none => "err"
    pure (sh (deTokSeq h l), sh (oTokSeq l))
  | "i.de_t", [kv, w] => do
    let (k, v) ← parseTok kv; let w ← parseWords w
    let m := match deBigIntTok k v none w with | some x => "ok " ++ showBigInt x | none => "err"
    let o := match oSignTok k v with
      | some s => "ok " ++ showBigInt (BigInt.ofInt (signedVal s (valBase W w)))
      | none => "err"
    pure (m, o)
  | "i.de_t", [kv, w, h] => do
    let (k, v) ← parseTok kv; let w ← parseWords w; let h ← parseHint h
    let m := match deBigIntTok k v h w with | some x => "ok " ++ showBigInt x | none => "err"
    let o := match oSignTok k v with
      | some s => "ok " ++ showBigInt (BigInt.ofInt (signedVal s (valBase W w)))
      | none => "err"
    pure (m, o)
  | "sign.de_t", [kv] => do
    let (k, v) ← parseTok kv
    let sh : Option Sign → String := fun r => match r with | some s => "ok " ++ showSign s | none => "err"
    pure (sh (deSignTok k v), sh (oSignTok k v))
  | "sign.de", [v] => do
    let v ← parseInt v
    let sh : Option Sign → String := fun r => match r with | some s => "ok " ++ showSign s | none => "err"
    pure (sh (deSign v), sh (oSign v))
  | _, _ => none

end NB.Drv.C17
