/- helper lemmas about `val`, `normalize`, `Canon`, `ofNat`, `cmpSlice` -/
import NB.Base
import Mathlib.Tactic.Ring
import Mathlib.Tactic.Linarith
import Mathlib.Data.List.Induction
namespace NB

theorem val_nil : val [] = 0 := rfl
theorem val_cons (d : Nat) (ds : List Nat) : val (d :: ds) = d + B * val ds := rfl

theorem val_append (a b : List Nat) : val (a ++ b) = val a + B ^ a.length * val b := by
  induction a with
  | nil => simp [val]
  | cons d ds ih => simp only [List.cons_append, val, ih, List.length_cons, pow_succ]; ring

theorem DigitsOk.nil : DigitsOk [] := by intro d h; cases h
theorem DigitsOk.cons {d : Nat} {ds : List Nat} (h : d < B) (hs : DigitsOk ds) : DigitsOk (d :: ds) := by
  intro x hx; cases hx with
  | head => exact h
  | tail _ h' => exact hs x h'
theorem DigitsOk.head {d : Nat} {ds : List Nat} (h : DigitsOk (d :: ds)) : d < B := h d (by simp)
theorem DigitsOk.tail {d : Nat} {ds : List Nat} (h : DigitsOk (d :: ds)) : DigitsOk ds :=
  fun x hx => h x (List.mem_cons_of_mem _ hx)
theorem DigitsOk.append {a b : List Nat} (ha : DigitsOk a) (hb : DigitsOk b) : DigitsOk (a ++ b) := by
  intro x hx; rcases List.mem_append.mp hx with h | h
  · exact ha x h
  · exact hb x h
theorem DigitsOk.take {a : List Nat} (n : Nat) (ha : DigitsOk a) : DigitsOk (a.take n) :=
  fun x hx => ha x (List.mem_of_mem_take hx)
theorem DigitsOk.drop {a : List Nat} (n : Nat) (ha : DigitsOk a) : DigitsOk (a.drop n) :=
  fun x hx => ha x (List.mem_of_mem_drop hx)
theorem DigitsOk.left {a b : List Nat} (h : DigitsOk (a ++ b)) : DigitsOk a :=
  fun x hx => h x (List.mem_append_left _ hx)
theorem DigitsOk.right {a b : List Nat} (h : DigitsOk (a ++ b)) : DigitsOk b :=
  fun x hx => h x (List.mem_append_right _ hx)

theorem val_lt {a : List Nat} (h : DigitsOk a) : val a < B ^ a.length := by
  induction a with
  | nil => simp [val]
  | cons d ds ih =>
    have h1 := h.head
    have h2 := ih h.tail
    simp only [val, List.length_cons, pow_succ]
    nlinarith [B_pos]

theorem normalize_val (a : List Nat) : val (normalize a) = val a := by
  induction a with
  | nil => rfl
  | cons d ds ih =>
    simp only [normalize]
    cases hn : normalize ds with
    | nil =>
      rw [hn] at ih
      by_cases hd : d = 0
      · simp [hd, val, ← ih]
      · simp [hd, val, ← ih]
    | cons t ts =>
      rw [hn] at ih
      simp [val, ← ih]

theorem normalize_digitsOk {a : List Nat} (h : DigitsOk a) : DigitsOk (normalize a) := by
  induction a with
  | nil => exact h
  | cons d ds ih =>
    simp only [normalize]
    have := ih h.tail
    cases hn : normalize ds with
    | nil =>
      by_cases hd : d = 0
      · simp [hd]; exact DigitsOk.nil
      · simp [hd]; exact DigitsOk.cons h.head DigitsOk.nil
    | cons t ts =>
      rw [hn] at this
      exact DigitsOk.cons h.head this

theorem normalize_getLast (a : List Nat) : (normalize a).getLast? ≠ some 0 := by
  induction a with
  | nil => simp [normalize]
  | cons d ds ih =>
    simp only [normalize]
    cases hn : normalize ds with
    | nil =>
      by_cases hd : d = 0
      · simp [hd]
      · simp [hd]
    | cons t ts =>
      rw [hn] at ih
      simpa [List.getLast?_cons_cons] using ih

theorem normalize_canon {a : List Nat} (h : DigitsOk a) : Canon (normalize a) :=
  ⟨normalize_digitsOk h, normalize_getLast a⟩

theorem canon_tail {d : Nat} {ds : List Nat} (h : Canon (d :: ds)) : Canon ds := by
  refine ⟨h.1.tail, ?_⟩
  have := h.2
  cases ds with
  | nil => simp
  | cons e es => simpa [List.getLast?_cons_cons] using this

theorem normalize_of_canon {a : List Nat} (h : Canon a) : normalize a = a := by
  induction a with
  | nil => rfl
  | cons d ds ih =>
    have ht := ih (canon_tail h)
    simp only [normalize, ht]
    cases ds with
    | nil =>
      have : d ≠ 0 := by
        intro hd; exact h.2 (by simp [hd])
      simp [this]
    | cons e es => rfl

theorem canon_val_zero {a : List Nat} (h : Canon a) (hv : val a = 0) : a = [] := by
  induction a with
  | nil => rfl
  | cons d ds ih =>
    simp only [val] at hv
    have hd : d = 0 := by omega
    have hvs : val ds = 0 := by
      have : B * val ds = 0 := by omega
      rcases Nat.mul_eq_zero.mp this with h | h
      · exact absurd h (by decide)
      · exact h
    have := ih (canon_tail h) hvs
    subst this; subst hd
    exact absurd rfl h.2

theorem canon_unique {a b : List Nat} (ha : Canon a) (hb : Canon b) (h : val a = val b) : a = b := by
  induction a generalizing b with
  | nil => exact (canon_val_zero hb (by simpa [val] using h.symm)).symm
  | cons d ds ih =>
    cases b with
    | nil => exact canon_val_zero ha (by simpa [val] using h)
    | cons e es =>
      have hd := ha.1.head
      have he := hb.1.head
      simp only [val] at h
      have h1 : d = e := by
        have := congrArg (· % B) h
        simp only [Nat.add_mul_mod_self_left] at this
        rwa [Nat.mod_eq_of_lt hd, Nat.mod_eq_of_lt he] at this
      subst h1
      have h2 : val ds = val es := by
        have : B * val ds = B * val es := by omega
        exact Nat.eq_of_mul_eq_mul_left B_pos this
      rw [ih (canon_tail ha) (canon_tail hb) h2]

theorem ofNat_val (n : Nat) : val (ofNat n) = n := by
  induction n using Nat.strongRecOn with
  | _ n ih =>
    unfold ofNat
    by_cases h : n = 0
    · simp [h, val]
    · simp only [h, dite_false, val]
      rw [ih (n / B) (Nat.div_lt_self (Nat.pos_of_ne_zero h) (by decide))]
      exact Nat.mod_add_div n B

theorem ofNat_digitsOk (n : Nat) : DigitsOk (ofNat n) := by
  induction n using Nat.strongRecOn with
  | _ n ih =>
    unfold ofNat
    by_cases h : n = 0
    · simp [h]; exact DigitsOk.nil
    · simp only [h, dite_false]
      exact DigitsOk.cons (Nat.mod_lt _ B_pos) (ih (n / B) (Nat.div_lt_self (Nat.pos_of_ne_zero h) (by decide)))

theorem ofNat_canon (n : Nat) : Canon (ofNat n) := by
  refine ⟨ofNat_digitsOk n, ?_⟩
  induction n using Nat.strongRecOn with
  | _ n ih =>
    unfold ofNat
    by_cases h : n = 0
    · simp [h]
    · simp only [h, dite_false]
      have hlt := Nat.div_lt_self (Nat.pos_of_ne_zero h) (show 1 < B by decide)
      have := ih (n / B) hlt
      by_cases hq : n / B = 0
      · have : ofNat (n / B) = [] := by unfold ofNat; simp [hq]
        rw [this]
        have hn : n < B := by
          rcases Nat.lt_or_ge n B with h' | h'
          · exact h'
          · exact absurd hq (Nat.ne_of_gt (Nat.div_pos h' B_pos))
        simp [Nat.mod_eq_of_lt hn, h]
      · have hne : ofNat (n / B) ≠ [] := by
          unfold ofNat; simp [hq]
        cases hl : ofNat (n / B) with
        | nil => exact absurd hl hne
        | cons e es =>
          rw [hl] at this
          simpa [List.getLast?_cons_cons] using this

/-- a canonical digit list is determined by its value -/
theorem canon_eq_ofNat {a : List Nat} (h : Canon a) : a = ofNat (val a) :=
  canon_unique h (ofNat_canon _) (ofNat_val _).symm

theorem canon_nil : Canon [] := ⟨DigitsOk.nil, by simp⟩

theorem canon_val_pos {a : List Nat} (h : Canon a) (hne : a ≠ []) : 0 < val a := by
  rcases Nat.eq_zero_or_pos (val a) with h0 | h0
  · exact absurd (canon_val_zero h h0) hne
  · exact h0

/-- lower bound: a canonical non-empty list has value at least `B^(len-1)` -/
theorem canon_val_ge {a : List Nat} (h : Canon a) (hne : a ≠ []) : B ^ (a.length - 1) ≤ val a := by
  induction a with
  | nil => exact absurd rfl hne
  | cons d ds ih =>
    cases ds with
    | nil =>
      have : d ≠ 0 := by intro hd; exact h.2 (by simp [hd])
      simp [val]; omega
    | cons e es =>
      have := ih (canon_tail h) (by simp)
      simp only [val, List.length_cons, Nat.add_sub_cancel] at *
      calc B ^ (es.length + 1) = B * B ^ es.length := by ring
        _ ≤ B * (e + B * val es) := Nat.mul_le_mul_left _ this
        _ ≤ d + B * (e + B * val es) := Nat.le_add_left _ _

theorem cmpRev_spec : ∀ (a b : List Nat), a.length = b.length → DigitsOk a → DigitsOk b →
    cmpRev a.reverse b.reverse = compare (val a) (val b) := by
  intro a
  induction a using List.reverseRecOn with
  | nil =>
    intro b hl _ _
    cases b with
    | nil => simp [cmpRev, val]
    | cons _ _ => simp at hl
  | append_singleton as x ih =>
    intro b hl ha hb
    rcases List.eq_nil_or_concat b with hb0 | ⟨bs, y, rfl⟩
    · subst hb0; simp at hl
    · simp only [List.concat_eq_append] at *
      have hlen : as.length = bs.length := by simpa using hl
      simp only [List.reverse_append, List.reverse_cons, List.reverse_nil, List.nil_append,
        List.cons_append, cmpRev]
      rw [val_append, val_append]
      have hx : x < B := ha x (by simp)
      have hy : y < B := hb y (by simp)
      have hva := val_lt ha.left
      have hvb := val_lt hb.left
      simp only [val, Nat.mul_zero, Nat.add_zero]
      rw [hlen] at hva ⊢
      have hp : 0 < B ^ bs.length := Nat.pow_pos B_pos
      by_cases hxy : x < y
      · simp only [hxy, if_true]
        symm; rw [Nat.compare_eq_lt]
        nlinarith
      · simp only [hxy, if_false]
        by_cases hyx : x > y
        · simp only [hyx, if_true]
          symm; rw [Nat.compare_eq_gt]
          nlinarith
        · simp only [hyx, if_false]
          have hxe : x = y := by omega
          subst hxe
          rw [ih bs hlen ha.left hb.left]
          simp only [compare, compareOfLessAndEq]
          by_cases h1 : val as < val bs
          · simp [h1]
          · by_cases h2 : val as = val bs
            · simp [h2]
            · simp [h1, h2]

theorem cmpSlice_spec {a b : List Nat} (ha : Canon a) (hb : Canon b) :
    cmpSlice a b = compare (val a) (val b) := by
  unfold cmpSlice
  by_cases h1 : a.length < b.length
  · simp only [h1, if_true]
    symm; rw [Nat.compare_eq_lt]
    have hbne : b ≠ [] := by intro h; subst h; simp at h1
    have := canon_val_ge hb hbne
    have h2 := val_lt ha.1
    calc val a < B ^ a.length := h2
      _ ≤ B ^ (b.length - 1) := Nat.pow_le_pow_right B_pos (by omega)
      _ ≤ val b := this
  · simp only [h1, if_false]
    by_cases h2 : a.length > b.length
    · simp only [h2, if_true]
      symm; rw [Nat.compare_eq_gt]
      have hane : a ≠ [] := by intro h; subst h; simp at h2
      have := canon_val_ge ha hane
      have h3 := val_lt hb.1
      calc val b < B ^ b.length := h3
        _ ≤ B ^ (a.length - 1) := Nat.pow_le_pow_right B_pos (by omega)
        _ ≤ val a := this
    · simp only [h2, if_false]
      exact cmpRev_spec a b (by omega) ha.1 hb.1

end NB
