/-
  C18 — random generation stays within the requested bounds and covers them.

  The RNG is a tape of u32 words (NB.Spec.Rand states the rand 0.8.8 facts behind that encoding).
  All theorems are about the model NB.Model.Rand of src/bigrand.rs (64-bit digits), which is
  correspondence-checked against the real crate on every run, and hold for EVERY tape
  (`WordsOk tape`: each element is a u32), every bit size, every canonical bound/range:

    gen_biguint_spec       gen_biguint(n) = the first ⌈n/32⌉ words as little-endian base-2^32
                           digits, top word shifted right by 32 − n%32; consumes exactly those
                           words; tape too short ⇒ exhausted; never panics
    gen_biguint_bound      … hence canonical and < 2^n
    gen_biguint_uniform_*  words ↦ (value, discarded bits) is a bijection
                           (2^32)^len ≃ 2^n × 2^(32·len−n), with the explicit inverse `encode`
    below_spec/below_first gen_biguint_below(b) panics iff b = 0; otherwise it returns the first
                           candidate of width bits(b) on the tape that is < b, having consumed
                           exactly the rejected candidates and that one; exhausted iff there is none
    biguint_range_spec, bigint_range_spec, uniform_u_spec, uniform_i_spec, sample_single_*:
                           every range form = lo + (first candidate below the width), incl. the
                           lbound = 0 / ubound = 0 branches and the inclusive constructors; panics
                           (emptyrange) exactly for empty / inverted ranges
    *_mem                  results lie in [lo, hi) resp. [lo, hi]
    gen_bigint_spec/_first/_bound
                           gen_bigint(n): candidate, sign word, redraw of zero; result in (−2^n, 2^n)
    random_bits_*          RandomBits = gen_biguint / gen_bigint
    *_panic_iff            each entry point panics exactly for a zero bound / an empty or inverted
                           range, always with the documented assertion (class emptyrange); the
                           subtractions `ubound - lbound`, `high - low` never underflow; `high + 1u32`
                           is exact (addAssignU32_spec, bigintAddU32_spec in NB.Lemmas.RandOps)
    *_no_internal, gen_biguint_no_panic
                           the fuel of the two modelled `loop`s never runs out and no internal
                           assertion / overflow check is reachable
-/
import NB.Lemmas.RandOps
namespace NB
open NB.Rand

/-- proof obligation over the constants regenerated from src/bigrand.rs on every run -/
theorem gen_rand_params_valid : NB.Gen.RP.Valid := by decide

/-! ### gen_biguint -/

/-- `gen_biguint(n)` is a fixed function of the word stream: it consumes exactly ⌈n/32⌉ words and
    returns the canonical digits of `cand n words`; it never panics (in particular the debug
    assertion `native_len * 2 >= len` and the shift `32 - rem` are in range). -/
theorem gen_biguint_spec (rp : RandParams) (hv : rp.Valid) (n : Nat) (tape : Tape) (ht : WordsOk tape) :
    genBiguint rp n tape =
      .ok (if tape.length < specLen n then none
           else some (ofNat (cand n (tape.take (specLen n))), tape.drop (specLen n))) := by
  rw [genBiguint_spec rp hv n tape ht]
  unfold genSpec
  split <;> rfl

/-- whatever `gen_biguint(n)` returns is canonical and below `2^n` -/
theorem gen_biguint_bound (rp : RandParams) (hv : rp.Valid) (n : Nat) (tape : Tape) (ht : WordsOk tape)
    (v : List Nat) (rest : Tape) (h : genBiguint rp n tape = .ok (some (v, rest))) :
    Canon v ∧ val v < 2 ^ n ∧ rest.length + specLen n = tape.length := by
  rw [gen_biguint_spec rp hv n tape ht] at h
  split at h
  · simp at h
  · simp only [Except.ok.injEq, Option.some.injEq, Prod.mk.injEq] at h
    obtain ⟨rfl, rfl⟩ := h
    refine ⟨ofNat_canon _, ?_, by rw [List.length_drop]; omega⟩
    rw [ofNat_val]
    exact cand_lt n _ (ht.take _) (by rw [List.length_take]; omega)

/-- surjectivity with an explicit pre-image: every value `v < 2^n` together with every choice `d`
    of the `32·len − n` discarded bits is produced by the word list `encode n v d` -/
theorem gen_biguint_uniform_right (n v d : Nat) (hv : v < 2 ^ n) (hd : d < 2 ^ (WBITS * specLen n - n)) :
    (encode n v d).length = specLen n ∧ WordsOk (encode n v d) ∧
    cand n (encode n v d) = v ∧ discarded n (encode n v d) = d :=
  encode_spec n v d hv hd

/-- … and `encode` recovers the words from (value, discarded bits): the map is a bijection -/
theorem gen_biguint_uniform_left (n : Nat) (ws : List Nat) (hok : WordsOk ws) (hl : ws.length = specLen n) :
    encode n (cand n ws) (discarded n ws) = ws ∧
    cand n ws < 2 ^ n ∧ discarded n ws < 2 ^ (WBITS * specLen n - n) := by
  refine ⟨encode_decode n ws hok hl, cand_lt n ws hok hl, ?_⟩
  unfold discarded
  by_cases hr : n % WBITS = 0
  · simp [hr]
  · simp only [hr, if_false]; rw [pad_bits hr]; exact Nat.mod_lt _ (Nat.pow_pos (by decide))

/-- injectivity: two word lists with the same value and the same discarded bits are equal, so
    every value `< 2^n` has exactly `2^(32·len − n)` pre-images -/
theorem gen_biguint_uniform_inj (n : Nat) (ws ws' : List Nat) (hok : WordsOk ws) (hok' : WordsOk ws')
    (hl : ws.length = specLen n) (hl' : ws'.length = specLen n)
    (hc : cand n ws = cand n ws') (hd : discarded n ws = discarded n ws') : ws = ws' := by
  rw [← encode_decode n ws hok hl, ← encode_decode n ws' hok' hl', hc, hd]

/-- `BigUint::bits` is the bit length: the width of the candidates of `gen_biguint_below` -/
theorem bits_spec (a : List Nat) (ha : Canon a) :
    bits a = natBits (val a) ∧ val a < 2 ^ bits a ∧ (val a ≠ 0 → 2 ^ (bits a - 1) ≤ val a) := by
  rw [bits_eq_natBits ha]
  exact ⟨rfl, natBits_spec _⟩

/-! ### gen_biguint_below -/

/-- `gen_biguint_below(bound)`: panics exactly for a zero bound; otherwise rejection sampling of
    `bits(bound)`-bit candidates as described by `belowSpec` -/
theorem below_spec (rp : RandParams) (hv : rp.Valid) (bound : List Nat) (hb : Canon bound)
    (tape : Tape) (ht : WordsOk tape) :
    genBiguintBelow rp bound tape =
      if val bound = 0 then .error .emptyrange else liftU (belowSpec (val bound) tape) := by
  unfold genBiguintBelow
  by_cases hz : bound = []
  · subst hz; simp [val]
  · have hpos := canon_val_pos hb hz
    have hne : val bound ≠ 0 := by omega
    simp only [hz, hne, if_false]
    rw [bits_eq_natBits hb,
      belowLoop_spec rp hv _ (specLen_pos (natBits_pos hne)) bound hb _ tape ht (by omega)]
    unfold liftU belowSpec
    simp

/-- the meaning of `belowSpec`: with `n = bits(bound)` and `len = ⌈n/32⌉`, the result is the
    candidate of the first complete `len`-word chunk that is `< bound` (all earlier chunks are
    `≥ bound`), the tape is consumed up to and including that chunk; `none` iff no complete chunk
    qualifies -/
theorem below_first (bound : Nat) (hb : bound ≠ 0) (tape : List Nat) :
    let n := natBits bound
    (∃ k, (k + 1) * specLen n ≤ tape.length ∧
          cand n (chunk (specLen n) k tape) < bound ∧
          (∀ j, j < k → bound ≤ cand n (chunk (specLen n) j tape)) ∧
          belowSpec bound tape
            = some (cand n (chunk (specLen n) k tape), tape.drop ((k + 1) * specLen n)))
    ∨ ((∀ k, (k + 1) * specLen n ≤ tape.length → bound ≤ cand n (chunk (specLen n) k tape)) ∧
        belowSpec bound tape = none) :=
  belowSpecLoop_char (natBits bound) bound (specLen_pos (natBits_pos hb)) _ tape (by omega)

/-- a returned sample is below the bound -/
theorem belowSpec_lt {bound : Nat} (hb : bound ≠ 0) {tape rest : List Nat} {c : Nat}
    (h : belowSpec bound tape = some (c, rest)) : c < bound := by
  rcases below_first bound hb tape with ⟨k, _, h2, _, h4⟩ | ⟨_, h2⟩
  · rw [h4] at h
    simp only [Option.some.injEq, Prod.mk.injEq] at h
    rw [← h.1]; exact h2
  · rw [h2] at h; cases h

/-- `gen_biguint_below(b) < b`, canonical -/
theorem below_mem (rp : RandParams) (hv : rp.Valid) (bound : List Nat) (hb : Canon bound)
    (tape : Tape) (ht : WordsOk tape) (v : List Nat) (rest : Tape)
    (h : genBiguintBelow rp bound tape = .ok (some (v, rest))) : Canon v ∧ val v < val bound := by
  rw [below_spec rp hv bound hb tape ht] at h
  by_cases hz : val bound = 0
  · simp [hz] at h
  · simp only [hz, if_false, liftU, Except.ok.injEq] at h
    cases hs : belowSpec (val bound) tape with
    | none => simp [hs] at h
    | some ct =>
      obtain ⟨c, t⟩ := ct
      simp only [hs, Option.map, Option.some.injEq, Prod.mk.injEq] at h
      obtain ⟨rfl, _⟩ := h
      refine ⟨ofNat_canon _, ?_⟩
      rw [ofNat_val, Nat.zero_add]
      exact belowSpec_lt hz hs

/-! ### unsigned ranges -/

/-- `gen_biguint_range(lo, hi)`: panics exactly when `lo ≥ hi`; otherwise `lo +` the first
    candidate below `hi − lo` (for `lo = 0` this is the special-cased `gen_biguint_below(hi)`) -/
theorem biguint_range_spec (P : Params) (rp : RandParams) (hv : rp.Valid) (lo hi : List Nat)
    (hlo : Canon lo) (hhi : Canon hi) (tape : Tape) (ht : WordsOk tape) :
    genBiguintRange P rp lo hi tape =
      if val lo < val hi then liftU (belowSpec (val hi - val lo) tape) (val lo)
      else .error .emptyrange := by
  unfold genBiguintRange
  rw [cmpSlice_spec hlo hhi]
  by_cases hlt : val lo < val hi
  · simp only [Nat.compare_eq_lt.mpr hlt, ne_eq, not_true_eq_false, hlt, if_true, if_false]
    by_cases hz : lo = []
    · subst hz
      simp only [if_true, val, Nat.sub_zero]
      rw [below_spec rp hv hi hhi tape ht]
      simp only [val] at hlt
      simp [Nat.ne_of_gt hlt]
    · simp only [hz, if_false]
      rw [subRef_spec P hi lo hhi hlo]
      simp only [show ¬ val hi < val lo by omega, if_false]
      rw [below_spec rp hv _ (ofNat_canon _) tape ht, ofNat_val]
      simp only [show val hi - val lo ≠ 0 by omega, if_false]
      exact liftU_bindE_add P _ lo hlo
  · have : compare (val lo) (val hi) ≠ .lt := by rw [Ne, Nat.compare_eq_lt]; exact hlt
    simp [this, hlt]

/-- `gen_biguint_range(lo, hi) ∈ [lo, hi)`, canonical -/
theorem biguint_range_mem (P : Params) (rp : RandParams) (hv : rp.Valid) (lo hi : List Nat)
    (hlo : Canon lo) (hhi : Canon hi) (tape : Tape) (ht : WordsOk tape) (v : List Nat) (rest : Tape)
    (h : genBiguintRange P rp lo hi tape = .ok (some (v, rest))) :
    Canon v ∧ val lo ≤ val v ∧ val v < val hi := by
  rw [biguint_range_spec P rp hv lo hi hlo hhi tape ht] at h
  by_cases hlt : val lo < val hi
  · simp only [hlt, if_true] at h
    have := liftU_mem (w := val hi - val lo) (fun c t hs => belowSpec_lt (by omega) hs) h
    exact ⟨this.1, by omega, by omega⟩
  · simp [hlt] at h

/-- `UniformBigUint::sample_single` is `gen_biguint_range` -/
theorem sample_single_u_spec (P : Params) (rp : RandParams) (lo hi : List Nat) (tape : Tape) :
    UniformU.sampleSingle P rp lo hi tape = genBiguintRange P rp lo hi tape := rfl

/-- `UniformBigUint::new(lo, hi)`: panics exactly when `lo ≥ hi`, else base `lo`, length `hi − lo` -/
theorem uniform_u_new_spec (P : Params) (lo hi : List Nat) (hlo : Canon lo) (hhi : Canon hi) :
    UniformU.new P lo hi =
      if val lo < val hi then .ok ⟨lo, ofNat (val hi - val lo)⟩ else .error .emptyrange := by
  unfold UniformU.new
  rw [cmpSlice_spec hlo hhi]
  by_cases hlt : val lo < val hi
  · simp only [Nat.compare_eq_lt.mpr hlt, ne_eq, not_true_eq_false, hlt, if_true, if_false]
    rw [subRef_spec P hi lo hhi hlo]
    simp only [show ¬ val hi < val lo by omega, if_false]; rfl
  · have : compare (val lo) (val hi) ≠ .lt := by rw [Ne, Nat.compare_eq_lt]; exact hlt
    simp [this, hlt]

/-- `UniformBigUint::new_inclusive(lo, hi)`: panics exactly when `lo > hi`, else length `hi + 1 − lo` -/
theorem uniform_u_new_inclusive_spec (P : Params) (lo hi : List Nat) (hlo : Canon lo) (hhi : Canon hi) :
    UniformU.newInclusive P lo hi =
      if val lo ≤ val hi then .ok ⟨lo, ofNat (val hi + 1 - val lo)⟩ else .error .emptyrange := by
  unfold UniformU.newInclusive
  rw [cmpSlice_spec hlo hhi]
  by_cases hle : val lo ≤ val hi
  · have : compare (val lo) (val hi) ≠ .gt := by rw [Ne, Nat.compare_eq_gt]; omega
    simp only [this, hle, if_true, if_false]
    rw [addAssignU32_spec P hi 1 hhi (by decide),
      uniform_u_new_spec P lo _ hlo (ofNat_canon _), ofNat_val]
    simp [show val lo < val hi + 1 by omega]
  · simp [Nat.compare_eq_gt.mpr (show val hi < val lo by omega), hle]

/-- sampling from a constructed `UniformBigUint` -/
theorem uniform_u_sample_spec (P : Params) (rp : RandParams) (hv : rp.Valid) (u : UniformU)
    (hb : Canon u.base) (hl : Canon u.len) (tape : Tape) (ht : WordsOk tape) :
    u.sample P rp tape =
      if val u.len = 0 then .error .emptyrange else liftU (belowSpec (val u.len) tape) (val u.base) := by
  unfold UniformU.sample
  rw [below_spec rp hv u.len hl tape ht]
  by_cases hz : val u.len = 0
  · simp [hz, R.bindE]
  · simp only [hz, if_false]; exact liftU_bindE_add P _ _ hb

/-- `Uniform::new(lo, hi).sample` ∈ [lo, hi) and `Uniform::new_inclusive(lo, hi).sample` ∈ [lo, hi]:
    `lo +` the first candidate below the width; panics exactly for empty / inverted ranges -/
theorem uniform_u_spec (P : Params) (rp : RandParams) (hv : rp.Valid) (incl : Bool) (lo hi : List Nat)
    (hlo : Canon lo) (hhi : Canon hi) (tape : Tape) (ht : WordsOk tape) :
    UniformU.newSample P rp incl lo hi tape =
      let hi' := if incl then val hi + 1 else val hi
      if val lo < hi' then liftU (belowSpec (hi' - val lo) tape) (val lo) else .error .emptyrange := by
  unfold UniformU.newSample
  cases incl with
  | false =>
    simp only [Bool.false_eq_true, if_false, uniform_u_new_spec P lo hi hlo hhi]
    by_cases hlt : val lo < val hi
    · simp only [hlt, if_true]
      rw [uniform_u_sample_spec P rp hv _ hlo (ofNat_canon _) tape ht]
      simp [ofNat_val, show val hi - val lo ≠ 0 by omega]
    · simp [hlt]
  | true =>
    simp only [if_true, uniform_u_new_inclusive_spec P lo hi hlo hhi]
    by_cases hle : val lo ≤ val hi
    · simp only [hle, if_true, show val lo < val hi + 1 by omega]
      rw [uniform_u_sample_spec P rp hv _ hlo (ofNat_canon _) tape ht]
      simp [ofNat_val, show val hi + 1 - val lo ≠ 0 by omega]
    · simp [hle, show ¬ val lo < val hi + 1 by omega]

theorem uniform_u_mem (P : Params) (rp : RandParams) (hv : rp.Valid) (incl : Bool) (lo hi : List Nat)
    (hlo : Canon lo) (hhi : Canon hi) (tape : Tape) (ht : WordsOk tape) (v : List Nat) (rest : Tape)
    (h : UniformU.newSample P rp incl lo hi tape = .ok (some (v, rest))) :
    Canon v ∧ val lo ≤ val v ∧ (if incl then val v ≤ val hi else val v < val hi) := by
  rw [uniform_u_spec P rp hv incl lo hi hlo hhi tape ht] at h
  cases incl with
  | false =>
    simp only [Bool.false_eq_true, if_false] at h ⊢
    by_cases hlt : val lo < val hi
    · simp only [hlt, if_true] at h
      have := liftU_mem (w := val hi - val lo) (fun c t hs => belowSpec_lt (by omega) hs) h
      exact ⟨this.1, by omega, by omega⟩
    · simp [hlt] at h
  | true =>
    simp only [if_true] at h ⊢
    by_cases hlt : val lo < val hi + 1
    · simp only [hlt, if_true] at h
      have := liftU_mem (w := val hi + 1 - val lo) (fun c t hs => belowSpec_lt (by omega) hs) h
      exact ⟨this.1, by omega, by omega⟩
    · simp [hlt] at h

/-! ### signed ranges -/

/-- `gen_bigint_range(lo, hi)`: panics exactly when `lo ≥ hi`; otherwise `lo +` the first candidate
    below `hi − lo`, through each of the three branches (`lo = 0`, `hi = 0`, general) -/
theorem bigint_range_spec (P : Params) (rp : RandParams) (hv : rp.Valid) (lo hi : BigInt)
    (hlo : lo.Canon) (hhi : hi.Canon) (tape : Tape) (ht : WordsOk tape) :
    genBigintRange P rp lo hi tape =
      if lo.val < hi.val then
        liftI ((belowSpec (hi.val - lo.val).toNat tape).map fun (c, t) => (lo.val + (c : Int), t))
      else .error .emptyrange := by
  unfold genBigintRange
  rw [bigintCmp_spec hlo hhi]
  by_cases hlt : lo.val < hi.val
  · have hc : compare lo.val hi.val = .lt := compare_lt_iff_lt.mpr hlt
    simp only [hc, ne_eq, not_true_eq_false, hlt, if_true, if_false]
    by_cases h1 : lo.sign = .nosign
    · have hz := (bigint_nosign_iff hlo).mp h1
      obtain ⟨hm, hmv⟩ := bigint_mag hhi
      simp only [h1, if_true]
      rw [below_spec rp hv _ hm tape ht, hmv]
      have e : hi.val.natAbs = (hi.val - lo.val).toNat := by omega
      simp only [show hi.val.natAbs ≠ 0 by omega, if_false]
      rw [e, liftU_bindE_int _ (fun r => .ok (fromU r)) (fun c => lo.val + (c : Int))]
      intro c; rw [fromU_ofNat, hz, Int.zero_add]
    · simp only [h1, if_false]
      have hz1 : lo.val ≠ 0 := fun h => h1 ((bigint_nosign_iff hlo).mpr h)
      by_cases h2 : hi.sign = .nosign
      · have hz := (bigint_nosign_iff hhi).mp h2
        obtain ⟨hm, hmv⟩ := bigint_mag hlo
        simp only [h2, if_true]
        rw [below_spec rp hv _ hm tape ht, hmv]
        have e : lo.val.natAbs = (hi.val - lo.val).toNat := by omega
        simp only [show lo.val.natAbs ≠ 0 by omega, if_false]
        rw [e]
        exact liftU_bindE_int _ (fun r => BigInt.add P lo (fromU r)) (fun c => lo.val + (c : Int)) (add_fromU P lo hlo)
      · simp only [h2, if_false]
        rw [bigint_sub_spec P hi lo hhi hlo]
        simp only
        obtain ⟨hm, hmv⟩ := bigint_mag (bigint_ofInt_canon (hi.val - lo.val))
        rw [bigint_ofInt_val] at hmv
        rw [below_spec rp hv _ hm tape ht, hmv]
        have e : (hi.val - lo.val).natAbs = (hi.val - lo.val).toNat := by omega
        simp only [show (hi.val - lo.val).natAbs ≠ 0 by omega, if_false]
        rw [e]
        exact liftU_bindE_int _ (fun r => BigInt.add P lo (fromU r)) (fun c => lo.val + (c : Int)) (add_fromU P lo hlo)
  · have : compare lo.val hi.val ≠ .lt := fun h => hlt (compare_lt_iff_lt.mp h)
    simp [this, hlt]


/-- `gen_bigint_range(lo, hi) ∈ [lo, hi)`, canonical -/
theorem bigint_range_mem (P : Params) (rp : RandParams) (hv : rp.Valid) (lo hi : BigInt)
    (hlo : lo.Canon) (hhi : hi.Canon) (tape : Tape) (ht : WordsOk tape) (v : BigInt) (rest : Tape)
    (h : genBigintRange P rp lo hi tape = .ok (some (v, rest))) :
    v.Canon ∧ lo.val ≤ v.val ∧ v.val < hi.val := by
  rw [bigint_range_spec P rp hv lo hi hlo hhi tape ht] at h
  by_cases hlt : lo.val < hi.val
  · simp only [hlt, if_true] at h
    have := liftI_mem (w := (hi.val - lo.val).toNat) (fun c t hs => belowSpec_lt (by omega) hs) h
    exact ⟨this.1, this.2.1, by omega⟩
  · simp [hlt] at h

/-- `UniformBigInt::sample_single` is `gen_bigint_range` -/
theorem sample_single_i_spec (P : Params) (rp : RandParams) (lo hi : BigInt) (tape : Tape) :
    UniformI.sampleSingle P rp lo hi tape = genBigintRange P rp lo hi tape := rfl

/-- `UniformBigInt::new(lo, hi)`: panics exactly when `lo ≥ hi`, else base `lo`, length `hi − lo` -/
theorem uniform_i_new_spec (P : Params) (lo hi : BigInt) (hlo : lo.Canon) (hhi : hi.Canon) :
    UniformI.new P lo hi =
      if lo.val < hi.val then .ok ⟨lo, ofNat (hi.val - lo.val).toNat⟩ else .error .emptyrange := by
  unfold UniformI.new
  rw [bigintCmp_spec hlo hhi]
  by_cases hlt : lo.val < hi.val
  · have hc : compare lo.val hi.val = .lt := compare_lt_iff_lt.mpr hlt
    simp only [hc, ne_eq, not_true_eq_false, hlt, if_true, if_false]
    rw [bigint_sub_spec P hi lo hhi hlo]
    obtain ⟨hm, hmv⟩ := bigint_mag (bigint_ofInt_canon (hi.val - lo.val))
    rw [bigint_ofInt_val] at hmv
    show Except.ok (UniformI.mk lo (BigInt.ofInt (hi.val - lo.val)).mag) = _
    rw [canon_eq_ofNat hm, hmv]
    congr 3; omega
  · have : compare lo.val hi.val ≠ .lt := fun h => hlt (compare_lt_iff_lt.mp h)
    simp [this, hlt]

/-- `UniformBigInt::new_inclusive(lo, hi)`: panics exactly when `lo > hi` -/
theorem uniform_i_new_inclusive_spec (P : Params) (lo hi : BigInt) (hlo : lo.Canon) (hhi : hi.Canon) :
    UniformI.newInclusive P lo hi =
      if lo.val ≤ hi.val then .ok ⟨lo, ofNat (hi.val + 1 - lo.val).toNat⟩ else .error .emptyrange := by
  unfold UniformI.newInclusive
  rw [bigintCmp_spec hlo hhi]
  by_cases hle : lo.val ≤ hi.val
  · have : compare lo.val hi.val ≠ .gt := fun h => by have := compare_gt_iff_gt.mp h; omega
    simp only [this, hle, if_true, if_false]
    rw [bigintAddU32_spec P hi 1 hhi (by decide)]
    simp only
    rw [uniform_i_new_spec P lo _ hlo (bigint_ofInt_canon _), bigint_ofInt_val]
    simp [show lo.val < hi.val + 1 by omega]
  · have : compare lo.val hi.val = .gt := compare_gt_iff_gt.mpr (by omega)
    simp [this, hle]

/-- sampling from a constructed `UniformBigInt` -/
theorem uniform_i_sample_spec (P : Params) (rp : RandParams) (hv : rp.Valid) (u : UniformI)
    (hb : u.base.Canon) (hl : Canon u.len) (tape : Tape) (ht : WordsOk tape) :
    u.sample P rp tape =
      if val u.len = 0 then .error .emptyrange
      else liftI ((belowSpec (val u.len) tape).map fun (c, t) => (u.base.val + (c : Int), t)) := by
  unfold UniformI.sample
  rw [below_spec rp hv u.len hl tape ht]
  by_cases hz : val u.len = 0
  · simp [hz, R.bindE]
  · simp only [hz, if_false]
    exact liftU_bindE_int _ (fun r => BigInt.add P u.base (fromU r)) (fun c => u.base.val + (c : Int))
      (add_fromU P u.base hb)

/-- `Uniform::new(lo, hi).sample` / `Uniform::new_inclusive(lo, hi).sample` for BigInt -/
theorem uniform_i_spec (P : Params) (rp : RandParams) (hv : rp.Valid) (incl : Bool) (lo hi : BigInt)
    (hlo : lo.Canon) (hhi : hi.Canon) (tape : Tape) (ht : WordsOk tape) :
    UniformI.newSample P rp incl lo hi tape =
      let hi' := if incl then hi.val + 1 else hi.val
      if lo.val < hi' then
        liftI ((belowSpec (hi' - lo.val).toNat tape).map fun (c, t) => (lo.val + (c : Int), t))
      else .error .emptyrange := by
  unfold UniformI.newSample
  cases incl with
  | false =>
    simp only [Bool.false_eq_true, if_false, uniform_i_new_spec P lo hi hlo hhi]
    by_cases hlt : lo.val < hi.val
    · simp only [hlt, if_true]
      rw [uniform_i_sample_spec P rp hv _ hlo (ofNat_canon _) tape ht]
      simp [ofNat_val, show (hi.val - lo.val).toNat ≠ 0 by omega]
    · simp [hlt]
  | true =>
    simp only [if_true, uniform_i_new_inclusive_spec P lo hi hlo hhi]
    by_cases hle : lo.val ≤ hi.val
    · simp only [hle, if_true, show lo.val < hi.val + 1 by omega]
      rw [uniform_i_sample_spec P rp hv _ hlo (ofNat_canon _) tape ht]
      simp [ofNat_val, show (hi.val + 1 - lo.val).toNat ≠ 0 by omega]
    · simp [hle, show ¬ lo.val < hi.val + 1 by omega]

theorem uniform_i_mem (P : Params) (rp : RandParams) (hv : rp.Valid) (incl : Bool) (lo hi : BigInt)
    (hlo : lo.Canon) (hhi : hi.Canon) (tape : Tape) (ht : WordsOk tape) (v : BigInt) (rest : Tape)
    (h : UniformI.newSample P rp incl lo hi tape = .ok (some (v, rest))) :
    v.Canon ∧ lo.val ≤ v.val ∧ (if incl then v.val ≤ hi.val else v.val < hi.val) := by
  rw [uniform_i_spec P rp hv incl lo hi hlo hhi tape ht] at h
  cases incl with
  | false =>
    simp only [Bool.false_eq_true, if_false] at h ⊢
    by_cases hlt : lo.val < hi.val
    · simp only [hlt, if_true] at h
      have := liftI_mem (w := (hi.val - lo.val).toNat) (fun c t hs => belowSpec_lt (by omega) hs) h
      exact ⟨this.1, this.2.1, by omega⟩
    · simp [hlt] at h
  | true =>
    simp only [if_true] at h ⊢
    by_cases hlt : lo.val < hi.val + 1
    · simp only [hlt, if_true] at h
      have := liftI_mem (w := (hi.val + 1 - lo.val).toNat) (fun c t hs => belowSpec_lt (by omega) hs) h
      exact ⟨this.1, this.2.1, by omega⟩
    · simp [hlt] at h

/-! ### gen_bigint, RandomBits -/

/-- `gen_bigint(n)` = `bigintSpec`: draw a candidate and one sign word (top bit set = Plus); a
    zero candidate with the bit set is drawn again, with the bit clear it is returned -/
theorem gen_bigint_spec (rp : RandParams) (hv : rp.Valid) (n : Nat) (tape : Tape) (ht : WordsOk tape) :
    genBigint rp n tape = liftI (bigintSpec n tape) :=
  genBigintLoop_spec rp hv n _ tape ht (by omega)

/-- the meaning of `bigintSpec`: the tape is read in blocks of ⌈n/32⌉ + 1 words (candidate, sign
    word); blocks with a zero candidate and the sign bit set are redrawn; the first other complete
    block is returned as +candidate (bit set) / −candidate (bit clear) / 0, the tape consumed up
    to and including that block; `none` iff every complete block is a redraw -/
theorem gen_bigint_first (n : Nat) (tape : List Nat) :
    (∃ k, (k + 1) * (specLen n + 1) ≤ tape.length ∧
          (∀ j, j < k → blockCand n j tape = 0 ∧ blockSign n j tape = true) ∧
          ¬ (blockCand n k tape = 0 ∧ blockSign n k tape = true) ∧
          bigintSpec n tape = some (blockVal n k tape, tape.drop ((k + 1) * (specLen n + 1))))
    ∨ ((∀ k, (k + 1) * (specLen n + 1) ≤ tape.length →
            blockCand n k tape = 0 ∧ blockSign n k tape = true) ∧
        bigintSpec n tape = none) :=
  bigintSpecLoop_char n _ tape (by omega)

/-- `gen_bigint(n) ∈ (−2^n, 2^n)`, canonical -/
theorem gen_bigint_bound (rp : RandParams) (hv : rp.Valid) (n : Nat) (tape : Tape) (ht : WordsOk tape)
    (v : BigInt) (rest : Tape) (h : genBigint rp n tape = .ok (some (v, rest))) :
    v.Canon ∧ -(2 ^ n : Int) < v.val ∧ v.val < 2 ^ n := by
  rw [gen_bigint_spec rp hv n tape ht] at h
  unfold liftI at h
  cases hs : bigintSpec n tape with
  | none => simp [hs] at h
  | some ct =>
    obtain ⟨c, t⟩ := ct
    simp only [hs, Option.map, Except.ok.injEq, Option.some.injEq, Prod.mk.injEq] at h
    obtain ⟨rfl, _⟩ := h
    rw [bigint_ofInt_val]
    exact ⟨bigint_ofInt_canon _, bigintSpecLoop_bound n _ tape c t ht hs⟩

/-- `RandomBits` samples are `gen_biguint` / `gen_bigint` -/
theorem random_bits_u_spec (rp : RandParams) (n : Nat) (tape : Tape) :
    randomBitsU rp n tape = genBiguint rp n tape := rfl
theorem random_bits_i_spec (rp : RandParams) (n : Nat) (tape : Tape) :
    randomBitsI rp n tape = genBigint rp n tape := rfl

/-! ### the modelled loops never run out of fuel; no internal assertion is reachable -/

theorem below_no_internal (rp : RandParams) (hv : rp.Valid) (bound : List Nat) (hb : Canon bound)
    (tape : Tape) (ht : WordsOk tape) (tag : String) :
    genBiguintBelow rp bound tape ≠ .error (.internal tag) := by
  rw [below_spec rp hv bound hb tape ht]
  split <;> simp [liftU]

theorem gen_bigint_no_internal (rp : RandParams) (hv : rp.Valid) (n : Nat) (tape : Tape) (ht : WordsOk tape)
    (tag : String) : genBigint rp n tape ≠ .error (.internal tag) := by
  rw [gen_bigint_spec rp hv n tape ht]; simp [liftI]

theorem gen_biguint_no_panic (rp : RandParams) (hv : rp.Valid) (n : Nat) (tape : Tape) (ht : WordsOk tape)
    (p : Panic) : genBiguint rp n tape ≠ .error p := by
  rw [gen_biguint_spec rp hv n tape ht]; simp

/-! ### non-vacuity -/
example : WordsOk [1, 0xffffffff, 3] ∧ NB.Gen.RP.Valid := by decide
example : genBiguint NB.Gen.RP 40 [1, 0xffffffff, 3] = .ok (some ([0xff00000001], [3])) := by decide
example : genBiguint NB.Gen.RP 96 [1, 2, 3, 4] = .ok (some ([1 + 2 * 4294967296, 3], [4])) := by decide
example : genBiguintBelow NB.Gen.RP [5] [0xffffffff, 0xa0000000, 0x40000000, 7] = .ok (some ([2], [7])) := by decide
example : genBiguintBelow NB.Gen.RP [5] [0xffffffff, 0xffffffff] = .ok none := by decide
example : genBiguintBelow NB.Gen.RP [] [1, 2] = .error .emptyrange := by decide
example : genBigint NB.Gen.RP 0 [0x80000000, 0x80000000, 0] = .ok (some (⟨.nosign, []⟩, [])) := by decide
example : genBigint NB.Gen.RP 33 [5, 0xffffffff, 0] = .ok (some (⟨.minus, [4294967301]⟩, [])) := by decide
example : genBigintRange NB.Gen.P NB.Gen.RP ⟨.minus, [5]⟩ ⟨.plus, [3]⟩ [0xf0000000, 0x60000000, 9]
    = .ok (some (⟨.plus, [1]⟩, [9])) := by decide
example : genBigintRange NB.Gen.P NB.Gen.RP ⟨.plus, [3]⟩ ⟨.plus, [3]⟩ [1] = .error .emptyrange := by decide
example : encode 40 0xff00000001 0x123456 = [1, 0xff123456] := by decide

/-! ### panics: exactly the documented ones -/

/-- `gen_biguint_below` panics iff the bound is zero (and then with the assertion, class emptyrange) -/
theorem below_panic_iff (rp : RandParams) (hv : rp.Valid) (bound : List Nat) (hb : Canon bound)
    (tape : Tape) (ht : WordsOk tape) (p : Panic) :
    genBiguintBelow rp bound tape = .error p ↔ p = .emptyrange ∧ val bound = 0 := by
  rw [below_spec rp hv bound hb tape ht]
  by_cases h : val bound = 0
  · simp [h, eq_comm]
  · simp [h, liftU]

/-- `gen_biguint_range` / `sample_single` panic iff `hi ≤ lo`; in particular the subtraction
    `ubound - lbound` never underflows -/
theorem biguint_range_panic_iff (P : Params) (rp : RandParams) (hv : rp.Valid) (lo hi : List Nat)
    (hlo : Canon lo) (hhi : Canon hi) (tape : Tape) (ht : WordsOk tape) (p : Panic) :
    genBiguintRange P rp lo hi tape = .error p ↔ p = .emptyrange ∧ val hi ≤ val lo := by
  rw [biguint_range_spec P rp hv lo hi hlo hhi tape ht]
  by_cases h : val lo < val hi
  · simp only [h, if_true, liftU]
    constructor
    · intro h'; cases h'
    · intro ⟨_, h'⟩; omega
  · simp only [h, if_false, Except.error.injEq]
    constructor
    · intro h'; exact ⟨h'.symm, by omega⟩
    · intro ⟨h', _⟩; exact h'.symm

theorem bigint_range_panic_iff (P : Params) (rp : RandParams) (hv : rp.Valid) (lo hi : BigInt)
    (hlo : lo.Canon) (hhi : hi.Canon) (tape : Tape) (ht : WordsOk tape) (p : Panic) :
    genBigintRange P rp lo hi tape = .error p ↔ p = .emptyrange ∧ hi.val ≤ lo.val := by
  rw [bigint_range_spec P rp hv lo hi hlo hhi tape ht]
  by_cases h : lo.val < hi.val
  · simp only [h, if_true, liftI]
    constructor
    · intro h'; cases h'
    · intro ⟨_, h'⟩; omega
  · simp only [h, if_false, Except.error.injEq]
    constructor
    · intro h'; exact ⟨h'.symm, by omega⟩
    · intro ⟨h', _⟩; exact h'.symm

/-- `Uniform::new(..).sample` panics iff `hi ≤ lo`, `Uniform::new_inclusive(..).sample` iff `hi < lo` -/
theorem uniform_u_panic_iff (P : Params) (rp : RandParams) (hv : rp.Valid) (incl : Bool) (lo hi : List Nat)
    (hlo : Canon lo) (hhi : Canon hi) (tape : Tape) (ht : WordsOk tape) (p : Panic) :
    UniformU.newSample P rp incl lo hi tape = .error p ↔
      p = .emptyrange ∧ (if incl then val hi < val lo else val hi ≤ val lo) := by
  rw [uniform_u_spec P rp hv incl lo hi hlo hhi tape ht]
  cases incl with
  | false =>
    simp only [Bool.false_eq_true, if_false]
    by_cases h : val lo < val hi
    · simp only [h, if_true, liftU]
      constructor
      · intro h'; cases h'
      · intro ⟨_, h'⟩; omega
    · simp only [h, if_false, Except.error.injEq]
      constructor
      · intro h'; exact ⟨h'.symm, by omega⟩
      · intro ⟨h', _⟩; exact h'.symm
  | true =>
    simp only [if_true]
    by_cases h : val lo < val hi + 1
    · simp only [h, if_true, liftU]
      constructor
      · intro h'; cases h'
      · intro ⟨_, h'⟩; omega
    · simp only [h, if_false, Except.error.injEq]
      constructor
      · intro h'; exact ⟨h'.symm, by omega⟩
      · intro ⟨h', _⟩; exact h'.symm

theorem uniform_i_panic_iff (P : Params) (rp : RandParams) (hv : rp.Valid) (incl : Bool) (lo hi : BigInt)
    (hlo : lo.Canon) (hhi : hi.Canon) (tape : Tape) (ht : WordsOk tape) (p : Panic) :
    UniformI.newSample P rp incl lo hi tape = .error p ↔
      p = .emptyrange ∧ (if incl then hi.val < lo.val else hi.val ≤ lo.val) := by
  rw [uniform_i_spec P rp hv incl lo hi hlo hhi tape ht]
  cases incl with
  | false =>
    simp only [Bool.false_eq_true, if_false]
    by_cases h : lo.val < hi.val
    · simp only [h, if_true, liftI]
      constructor
      · intro h'; cases h'
      · intro ⟨_, h'⟩; omega
    · simp only [h, if_false, Except.error.injEq]
      constructor
      · intro h'; exact ⟨h'.symm, by omega⟩
      · intro ⟨h', _⟩; exact h'.symm
  | true =>
    simp only [if_true]
    by_cases h : lo.val < hi.val + 1
    · simp only [h, if_true, liftI]
      constructor
      · intro h'; cases h'
      · intro ⟨_, h'⟩; omega
    · simp only [h, if_false, Except.error.injEq]
      constructor
      · intro h'; exact ⟨h'.symm, by omega⟩
      · intro ⟨h', _⟩; exact h'.symm

example : UniformU.newSample NB.Gen.P NB.Gen.RP true [5] [5] [0xffffffff, 7, 9] = .ok (some ([5], [9])) := by decide
example : UniformU.newSample NB.Gen.P NB.Gen.RP false [5] [5] [0] = .error .emptyrange := by decide
example : UniformI.newSample NB.Gen.P NB.Gen.RP true ⟨.minus, [5]⟩ ⟨.minus, [3]⟩ [0xc0000000, 0x40000000, 1]
    = .ok (some (⟨.minus, [4]⟩, [1])) := by decide
example : UniformI.newSample NB.Gen.P NB.Gen.RP true ⟨.minus, [3]⟩ ⟨.minus, [5]⟩ [0] = .error .emptyrange := by decide

end NB
