"""C07 — bitwise logic, shifts, bit queries: request generator.

Structure first: value families (powers of two and neighbours, B^j and neighbours, long trailing
zero / one runs, complementary patterns that make the re-negation carry run through every digit),
all nine sign pairs, equal / unequal lengths; shift amounts around digit boundaries and the value's
length through every primitive type (negative amounts for the signed ones); bit indices around the
lowest set bit and the top digit."""
from genlib import *

UTYPES = {"u8": 8, "u16": 16, "u32": 32, "u64": 64, "u128": 128, "usize": 64}
ITYPES = {"i8": 8, "i16": 16, "i32": 32, "i64": 64, "i128": 128, "isize": 64}
SHL_CAP = 1 << 20          # largest left-shift amount applied to a non-zero value (result ≲ 2^20 bits)

def tmax(t):
    return (1 << UTYPES[t]) - 1 if t in UTYPES else (1 << (ITYPES[t] - 1)) - 1

def tmin(t):
    return 0 if t in UTYPES else -(1 << (ITYPES[t] - 1))

def specials(rng, tier):
    """magnitudes: 0, 1, 2^k, 2^k±1, B^j-1, B^j, B^j+1"""
    out = [0, 1, 2, 3]
    ks = [1, 2, 31, 32, 33, 62, 63, 64, 65, 66, 126, 127, 128, 129, 191, 192, 193, 255, 256, 257, 320, 511, 512]
    if tier == "thorough":
        ks += [64 * j + d for j in (9, 16, 33, 40) for d in (-1, 0, 1)] + [rng.randrange(1, 3000) for _ in range(12)]
    for k in ks:
        out += [1 << k, (1 << k) - 1, (1 << k) + 1]
    for j in range(1, 7 if tier != "thorough" else 12):
        out += [B ** j - 1, B ** j, B ** j + 1, B ** j - 2]
    return out

def runs(rng, n):
    """n-digit values with long trailing zero / one runs and a random rest"""
    out = []
    if n == 0:
        return [0]
    z = rng.randrange(0, n)               # whole zero digits
    zb = rng.randrange(0, 64)             # plus some zero bits
    top = big(rng, n - z, "rand") if n - z > 0 else 1
    v = (top >> zb << zb) or (1 << zb)
    out.append(v << (64 * z))                                   # trailing zeros
    out.append(((top >> zb << zb) << (64 * z)) | ((1 << (64 * z + zb)) - 1))   # trailing ones
    out.append(val([MAX] * n))
    out.append(val([0] * (n - 1) + [1]))
    out.append(val([0] * (n - 1) + [1 << 63]))
    out.append(val([MAX] * (n - 1) + [rng.randrange(1, B)]))
    out.append(big(rng, n))
    return out

def family(rng, n):
    """values around a random pattern m and its n-digit complement: pairs drawn from one family hit
    results of the form ±B^n (extra digit pushed) and ±(B^n - 1) and zero"""
    full = B ** n - 1
    m = big(rng, n, rng.choice(["rand", "mixed", "runs", "lowzero", "half", "sparse"])) if n else 0
    c = full ^ m
    fam = [m, m + 1, max(m - 1, 0), c, c + 1, max(c - 1, 0), full, full + 1, max(full - 1, 0)]
    r = rng.randrange(B ** n) if n else 0
    fam += [c | r, (c | r) + 1, c & r, (c & r) + 1]
    return fam

def lens(rng, tier):
    base = [0, 1, 2, 3, 4, 5, 8]
    mx = 80 if tier == "thorough" else 20
    return base + [rng.randrange(1, mx) for _ in range(4)]

BITOPS = ["and", "or", "xor"]
SIGNS = [(1, 1), (1, -1), (-1, 1), (-1, -1)]

def bitop_reqs(rng, a, b, reqs, every_form=False):
    """one magnitude pair through all sign pairs"""
    forms = [(o, f) for o in BITOPS for f in ("", "_assign")]
    for (sa, sb) in SIGNS:
        if (a == 0 and sa < 0) or (b == 0 and sb < 0):
            continue
        chosen = forms if every_form else rng.sample(forms, 2)
        for (o, f) in chosen:
            reqs.append("C07 i.%s%s %s %s" % (o, f, wi(sa * a), wi(sb * b)))
    for (o, f) in (forms if every_form else rng.sample(forms, 3)):
        reqs.append("C07 u.%s%s %s %s" % (o, f, wu(a), wu(b)))

def shift_amounts(rng, n, tier):
    """amounts relative to a value of n digits"""
    base = [0, 1, 2, 31, 32, 33, 63, 64, 65, 127, 128, 129, 64 * n, 64 * n + 1, max(64 * n - 1, 0),
            64 * (n + 1), max(64 * n - 64, 0), max(64 * n - 63, 0), max(64 * n - 65, 0)]
    base += [rng.randrange(0, 64 * n + 130) for _ in range(3)]
    return base

def shift_token(rng, k):
    """`type:k` for a random primitive type that can hold k"""
    cands = [t for t in list(UTYPES) + list(ITYPES) if tmin(t) <= k <= tmax(t)]
    return "%s:%d" % (rng.choice(cands), k)

def shift_reqs(rng, v, n, tier, reqs):
    """v: signed value of n digits"""
    for k in shift_amounts(rng, n, tier):
        tok = shift_token(rng, k)
        reqs.append("C07 i.%s %s %s" % (rng.choice(["shr", "shr", "shr_assign"]), wi(v), tok))
        if v >= 0 and rng.randrange(2):
            reqs.append("C07 u.%s %s %s" % (rng.choice(["shr", "shr_assign"]), wu(v), shift_token(rng, k)))
        if rng.randrange(3) == 0:
            reqs.append("C07 i.%s %s %s" % (rng.choice(["shl", "shl_assign"]), wi(v), shift_token(rng, k)))
            if v >= 0:
                reqs.append("C07 u.%s %s %s" % (rng.choice(["shl", "shl_assign"]), wu(v), shift_token(rng, k)))

def type_edge_reqs(rng, vals, reqs):
    """every primitive type at its extreme values, negative amounts, huge right shifts"""
    for t in list(UTYPES) + list(ITYPES):
        hi, lo = tmax(t), tmin(t)
        ks = [0, 1, 63, 64, 65, hi, hi - 1, hi // 2, hi // 64 * 64, min(hi, 1 << 32), min(hi, (1 << 64) - 1),
              min(hi, 1 << 64), min(hi, (1 << 64) + 1), min(hi, 1 << 70), min(hi, (1 << 70) + 5)]
        negs = [] if lo == 0 else [-1, -2, -63, -64, -65, lo, lo + 1, max(lo, -(1 << 64)), max(lo, -(1 << 70))]
        for k in ks + negs:
            v = rng.choice(vals)
            s = signed(rng, v)
            for op in ("shr", "shr_assign"):
                reqs.append("C07 i.%s %s %s:%d" % (op, wi(s), t, k))
                reqs.append("C07 u.%s %s %s:%d" % (op, wu(v), t, k))
            # left shifts: negative amounts panic, zero stays zero, non-zero only up to the cap
            # (above it the real code would try to allocate the result) or beyond usize digits
            # (`capacity overflow` panic)
            for op in ("shl", "shl_assign"):
                if k < 0 or k <= SHL_CAP or k // 64 >= (1 << 64):
                    reqs.append("C07 i.%s %s %s:%d" % (op, wi(s), t, k))
                    reqs.append("C07 u.%s %s %s:%d" % (op, wu(v), t, k))
                reqs.append("C07 i.%s 0. %s:%d" % (op, t, k))
                reqs.append("C07 u.%s . %s:%d" % (op, t, k))

def tz_of(v):
    return (v & -v).bit_length() - 1 if v else 0

def bit_reqs(rng, v, n, reqs):
    """indices below / at / above the lowest set bit, around the top digit, far beyond; set and clear"""
    tz = tz_of(v)
    idx = {0, 1, 63, 64, 65, tz, tz + 1, max(tz - 1, 0), max(tz - 63, 0), tz + 64, tz // 64 * 64, tz // 64 * 64 + 63,
           max(tz // 64 * 64 - 1, 0), 64 * n, 64 * n + 1, max(64 * n - 1, 0), max(64 * n - 2, 0), max(64 * n - 64, 0),
           64 * n + 63, 64 * n + 64, 64 * n + 130, v.bit_length(), max(v.bit_length() - 1, 0),
           rng.randrange(0, 64 * n + 70), rng.randrange(0, 64 * n + 70)}
    for k in sorted(idx):
        for s in ((v, -v) if v else (0,)):
            reqs.append("C07 i.bit %s %d" % (wi(s), k))
            reqs.append("C07 i.set_bit %s %d %d" % (wi(s), k, rng.randrange(2)))
            if rng.randrange(2):
                reqs.append("C07 i.set_bit %s %d %d" % (wi(s), k, rng.randrange(2)))
        if rng.randrange(2):
            reqs.append("C07 u.bit %s %d" % (wu(v), k))
            reqs.append("C07 u.set_bit %s %d %d" % (wu(v), k, rng.randrange(2)))
    # far indices: queries are cheap; updates that do not extend the value are cheap too
    for k in ((1 << 32) + 5, (1 << 63), (1 << 64) - 1, (1 << 64) - 64):
        reqs.append("C07 u.bit %s %d" % (wu(v), k))
        reqs.append("C07 u.set_bit %s %d 0" % (wu(v), k))
        for s in ((v, -v) if v else (0,)):
            reqs.append("C07 i.bit %s %d" % (wi(s), k))
            reqs.append("C07 i.set_bit %s %d %d" % (wi(s), k, 1 if s < 0 else 0))

def tz_sweep(rng, tier, reqs):
    """every trailing-zero count t over several digits: bit / set_bit / shr at t-1, t, t+1 on ±(odd << t)
    (the five `set_negative_bit` sub-cases, `bit`'s three-way compare and `shr_round_down`'s `zeros < shift`
    all switch exactly there)"""
    top = 400 if tier == "thorough" else 200
    for t in range(0, top):
        odd = rng.choice([1, 3, (1 << 64) - 1, (1 << 63) + 1, rng.randrange(B) | 1, rng.randrange(B * B) | 1])
        v = odd << t
        for k in {max(t - 1, 0), t, t + 1, t // 64 * 64, t // 64 * 64 + 63, rng.randrange(0, t + 70)}:
            reqs.append("C07 i.bit %s %d" % (wi(-v), k))
            reqs.append("C07 i.set_bit %s %d 0" % (wi(-v), k))
            reqs.append("C07 i.set_bit %s %d 1" % (wi(-v), k))
            reqs.append("C07 i.shr %s %s" % (wi(-v), shift_token(rng, k)))
            if rng.randrange(3) == 0:
                reqs.append("C07 u.bit %s %d" % (wu(v), k))
                reqs.append("C07 u.set_bit %s %d %d" % (wu(v), k, rng.randrange(2)))
                reqs.append("C07 i.set_bit %s %d %d" % (wi(v), k, rng.randrange(2)))
                reqs.append("C07 u.shr %s %s" % (wu(v), shift_token(rng, k)))
        # trailing ones of the same length
        w = (odd << (t + 1)) | ((1 << t) - 1)
        reqs.append("C07 u.trailing_ones %s" % wu(w))
        reqs.append("C07 u.trailing_zeros %s" % wu(v))
        reqs.append("C07 i.trailing_zeros %s" % wi(-v))

def query_reqs(rng, v, reqs):
    reqs.append("C07 u.bits %s" % wu(v))
    reqs.append("C07 u.trailing_zeros %s" % wu(v))
    reqs.append("C07 u.trailing_ones %s" % wu(v))
    reqs.append("C07 u.count_ones %s" % wu(v))
    s = signed(rng, v)
    reqs.append("C07 i.bits %s" % wi(s))
    reqs.append("C07 i.trailing_zeros %s" % wi(s))
    reqs.append("C07 i.not %s" % wi(s))
    reqs.append("C07 i.not_val %s" % wi(-s))

def huge_requests(rng, tier):
    """bit queries on run-length encoded operands (`u.huge` / `i.huge`): many small shapes (cheap; they tie the RL
    definitions of the model to the real functions through the same parser) and a few operands of 2^26 + k digits, the
    only ones on which a counter kept in u32 / usize-as-u32 arithmetic overflows (C07-t1: popcounts summed in u32)."""
    reqs = []
    M = MAX
    def seg(l):
        return ",".join("%x*%d" % (d, n) for d, n in l)
    pats = [0, 0, M, M, 1, 1 << 63, 0x5555555555555555, 0xffffffff00000000, 0xffffffff]
    for _ in range(300 if tier == "thorough" else 80):
        l = [(rng.choice(pats + [rng.randrange(B)]), rng.choice([0, 1, 1, 2, 3, 7, 64, 65, 200])) for _ in range(rng.randrange(1, 6))]
        l.append((rng.choice([1, M, 1 << 63, rng.randrange(1, B)]), 1))        # canonical: non-zero top digit
        total = sum(n for _, n in l)
        for q in ("count_ones", "bits", "trailing_zeros", "trailing_ones", "bit:%d" % rng.randrange(0, 64 * total + 70),
                  "bit:%d" % (64 * rng.randrange(0, total + 1) + rng.choice([0, 63]))):
            reqs.append("C07 u.huge %s %s" % (q, seg(l)))
        reqs.append("C07 i.huge %s %s %s" % (rng.choice(["bits", "trailing_zeros"]), rng.choice("+-"), seg(l)))
    H = 1 << 26                                                               # 2^26 digits = 2^32 bits
    big_shapes = [("count_ones", [(M, H)]), ("count_ones", [(M, H), (1, 1)]), ("bits", [(0, H), (1, 1)]),
                  ("trailing_zeros", [(0, H), (8, 1)]), ("trailing_ones", [(M, H), (1, 1)]),
                  ("bit:%d" % (64 * H), [(0, H), (1, 1)]), ("bit:%d" % (64 * H + 1), [(0, H), (1, 1)])]
    if tier == "thorough":
        big_shapes += [("count_ones", [(0x5555555555555555, 2 * H), (3, 1)]), ("bits", [(M, H - 1), (1, 1)]),
                       ("trailing_zeros", [(0, H - 1), (1 << 63, 1), (7, 1)]), ("trailing_ones", [(M, H - 1), (M >> 1, 1), (1, 1)]),
                       ("count_ones", [(M, H - 1), (M >> 1, 1)]), ("bit:%d" % (64 * H - 1), [(M, H)])]
    for q, l in big_shapes:
        reqs.append("C07 u.huge %s %s" % (q, seg(l)))
    reqs.append("C07 i.huge trailing_zeros - %s" % seg([(0, H), (8, 1)]))
    reqs.append("C07 i.huge bits - %s" % seg([(0, H), (1, 1)]))
    return reqs

def gen(rng, tier):
    reqs = huge_requests(rng, tier)
    rounds = 8 if tier == "thorough" else 1
    for _ in range(rounds):
        sp = specials(rng, tier)
        ls = lens(rng, tier)
        # 1. bit operations
        # specials against specials (sampled) and against themselves
        for a in sp:
            bitop_reqs(rng, a, a, reqs)
            bitop_reqs(rng, a, rng.choice(sp), reqs)
        # complementary families: equal and unequal lengths
        for n in ls:
            for m in {n, max(n - 1, 0), n + 1, rng.choice(ls)}:
                fa, fb = family(rng, n), family(rng, m)
                fam = fa + fb
                for _ in range(6):
                    bitop_reqs(rng, rng.choice(fa), rng.choice(fam), reqs)
                ra, rb = runs(rng, n), runs(rng, m)
                for _ in range(4):
                    bitop_reqs(rng, rng.choice(ra), rng.choice(rb + fa), reqs)
        # the carry-push cases once through every form
        for n in (1, 2, 3):
            full = B ** n - 1
            bitop_reqs(rng, full, 2, reqs, every_form=True)          # -(B^n-1) & -2 = -B^n
            bitop_reqs(rng, full, full + 1, reqs, every_form=True)
            bitop_reqs(rng, full + 1, full + 1, reqs, every_form=True)
            bitop_reqs(rng, 1, full, reqs, every_form=True)
        # 2. shifts
        vals = []
        for n in ls:
            vals += runs(rng, n)
        for n in ls:
            for v in runs(rng, n) + [rng.choice(sp)]:
                nn = len(limbs_of(v))
                shift_reqs(rng, signed(rng, v), nn, tier, reqs)
        type_edge_reqs(rng, [v for v in vals if v] + [1, B - 1, B], reqs)
        tz_sweep(rng, tier, reqs)
        # 3. bit / set_bit and 4. queries
        for n in ls:
            for v in runs(rng, n)[:4] + family(rng, n)[:3]:
                bit_reqs(rng, v, len(limbs_of(v)), reqs)
        for v in sp + vals:
            query_reqs(rng, v, reqs)
        for n in ls:
            for v in family(rng, n):
                query_reqs(rng, v, reqs)
    by_value_shift_reqs(rng, tier, reqs)
    return reqs

def by_value_shift_reqs(rng, tier, reqs):
    """api-coverage block: the by-value impls `x << k`, `x >> k` (ops `*_val`) for both types: amounts around the
    digit boundaries and the value's length, every trailing-zero relation for negative values (the round-down
    adjustment of `Shr<T> for BigInt` is a separate copy of the by-reference code), negative amounts, every
    amount type, zero operands, huge right shifts"""
    ls = [1, 2, 3, 5] + ([17, 40] if tier == "thorough" else [9])
    for n in ls:
        for v in runs(rng, n)[:4] + [big(rng, n), B ** n - 1, B ** (n - 1)]:
            nn = len(limbs_of(v))
            for k in shift_amounts(rng, nn, tier):
                s = signed(rng, v)
                reqs.append("C07 i.shr_val %s %s" % (wi(s), shift_token(rng, k)))
                reqs.append("C07 u.shr_val %s %s" % (wu(v), shift_token(rng, k)))
                if k <= 64 * nn + 130 and rng.randrange(2):
                    reqs.append("C07 i.shl_val %s %s" % (wi(s), shift_token(rng, k)))
                    reqs.append("C07 u.shl_val %s %s" % (wu(v), shift_token(rng, k)))
    for t in range(0, 200 if tier == "thorough" else 140, 1 if tier == "thorough" else 3):
        odd = rng.choice([1, 3, (1 << 64) - 1, rng.randrange(B) | 1, rng.randrange(B * B) | 1])
        v = odd << t
        for k in {max(t - 1, 0), t, t + 1, t // 64 * 64, t // 64 * 64 + 63}:
            reqs.append("C07 i.shr_val %s %s" % (wi(-v), shift_token(rng, k)))
    for ty in list(UTYPES) + list(ITYPES):
        hi, lo = tmax(ty), tmin(ty)
        v = big(rng, 3)
        for k in [0, 1, 64, hi, hi - 1, min(hi, 1 << 64), min(hi, (1 << 70) + 5)] + ([] if lo == 0 else [-1, -64, lo]):
            reqs.append("C07 i.shr_val %s %s:%d" % (wi(-v), ty, k))
            reqs.append("C07 u.shr_val %s %s:%d" % (wu(v), ty, k))
            if k < 0 or k <= 1000:
                reqs.append("C07 i.shl_val %s %s:%d" % (wi(-v), ty, k))
                reqs.append("C07 u.shl_val %s %s:%d" % (wu(v), ty, k))
            reqs.append("C07 i.shl_val 0. %s:%d" % (ty, k))
            reqs.append("C07 u.shl_val . %s:%d" % (ty, k))
            reqs.append("C07 i.shr_val 0. %s:%d" % (ty, k))
