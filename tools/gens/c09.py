"""C09 — bytes, digit vectors and digit iterators: request generator.

Structure first: value regimes (zero; top native digit with zero / non-zero upper half; magnitudes
2^(8k-1), 2^(8k-1)+-1 where the signed encoding changes length; negative powers of two), byte
slices (empty, all-zero, 0x00.. / 0xff.. sign-extension padding, lengths around the 8-byte chunk
boundary), u32 word slices (odd counts, trailing zero words), and call sequences on the iterators
(random strings of length <= 12 plus the EXHAUSTIVE set of all prefixes of length <= 6 over
{next, next_back, nth(1)} each followed by each observer {len, size_hint, last, count} on 8 values).
"""
import itertools
from genlib import *

W = 1 << 32

def top_shapes(rng, n):
    """canonical n-digit values: top digit with zero / non-zero upper half, extreme tops"""
    if n == 0:
        return [0]
    low = [rng.randrange(B) for _ in range(n - 1)]
    tops = [rng.randrange(1, W), rng.randrange(W, B), 1, W - 1, W, W + 1, MAX, 1 << 63, (1 << 63) - 1,
            rng.randrange(1, 256) << 32, 0x80 << 56, 0x80 << 24]
    out = [val(low + [t]) for t in tops]
    out.append(val([0] * (n - 1) + [rng.choice(tops)]))
    out.append(val([MAX] * (n - 1) + [rng.choice(tops)]))
    return out

def values(rng, tier):
    ns = list(range(0, 5)) + [7, 8, 9]
    if tier == "thorough":
        ns += [rng.randrange(5, 70) for _ in range(6)]
    vs = []
    for n in ns:
        vs += top_shapes(rng, n)
    return vs

def edge_magnitudes(tier):
    """2^(8k-1), 2^(8k-1)+-1, 2^(8k), 2^(8k)+-1 for the byte counts around chunk boundaries"""
    ks = list(range(1, 20)) + [23, 24, 25, 31, 32, 33]
    if tier == "thorough":
        ks = list(range(1, 70)) + [127, 128, 129, 255, 256, 257]
    out = []
    for k in ks:
        for e in (8 * k - 1, 8 * k):
            out += [(1 << e) - 1, 1 << e, (1 << e) + 1]
    return out

def byte_slices(rng, tier):
    out = [[], [0], [0, 0], [0] * 8, [0] * 9, [0] * 17, [0xff], [0xff] * 8, [0xff] * 9, [0x80], [0x7f],
           [0x80, 0], [0, 0x80], [0x7f, 0xff], [0xff, 0x7f], [0, 0xff], [0xff, 0]]
    lens = list(range(0, 20)) + [23, 24, 25, 31, 32, 33, 40]
    if tier == "thorough":
        lens += [rng.randrange(0, 300) for _ in range(30)] + [63, 64, 65, 127, 128, 129]
    for n in lens:
        core = [rng.randrange(256) for _ in range(n)]
        out.append(core)
        if n:
            for top in (0x00, 0x01, 0x7f, 0x80, 0x81, 0xff):
                c = core[:-1] + [top]
                out.append(c)
                for pad in (1, 2, 7, 8, 9):
                    out.append(c + [0x00] * pad)
                    out.append(c + [0xff] * pad)
            # exactly -2^(8n-1) and neighbours
            out.append([0] * (n - 1) + [0x80])
            out.append([1] + [0] * (n - 2) + [0x80] if n > 1 else [0x81])
            out.append([0xff] * (n - 1) + [0x7f])
            out.append([0] * n)
    return out

def word_slices(rng, tier):
    out = [[], [0], [0, 0], [0, 0, 0], [1], [0, 1], [1, 0], [1, 0, 0], [0, 0, 1], [W - 1], [W - 1, W - 1, W - 1]]
    lens = list(range(0, 12)) + [15, 16, 17]
    if tier == "thorough":
        lens += [rng.randrange(0, 140) for _ in range(30)]
    for n in lens:
        core = [rng.choice([rng.randrange(W), rng.randrange(W), 0, W - 1, 1]) for _ in range(n)]
        for tz in (0, 1, 2, 3, 4):
            out.append(core + [0] * tz)
        if n:
            nz = core[:-1] + [rng.randrange(1, W)]
            out.append(nz)
            out.append(nz + [0])
            out.append(nz + [0, 0])
    return out

def sgn(rng):
    return rng.choice(["+", "-", "0", "+", "-"])

ITER_VALUES = None

def iter_values():
    """0,1,2,3 native digits x top digit with zero / non-zero upper half (+ a zero low half)"""
    def d(i, hi=True):
        return (((2 * i + 2) << 32) if hi else 0) | (2 * i + 1)
    return [0,
            val([d(0, False)]), val([d(0)]),
            val([d(0), d(1, False)]), val([d(0), d(1)]),
            val([d(0), d(1), d(2, False)]), val([d(0), d(1), d(2)]),
            val([7 << 32])]

def exhaustive_iter(depth):
    reqs = []
    vals = iter_values()
    for n in range(depth + 1):
        for pre in itertools.product(["n", "b", "t1"], repeat=n):
            p = "".join(pre)
            for obs in ("l", "h", "L", "C"):
                for v in vals:
                    reqs.append("C09 iter32 %s %s" % (wu(v), p + obs))
    return reqs

# nth / skip with an index near usize::MAX (any offset arithmetic in an `nth` override must not wrap)
HUGE_NTH = [(1 << 64) - 1, (1 << 64) - 2, 1 << 63, (1 << 63) - 1, 1 << 32, (1 << 32) - 1]

def internal_iteration_reqs(rng, tier):
    """internal iteration (`fold`, `for_each`, `rfold`, `rev().collect()`, `sum`) on fresh and PARTIALLY CONSUMED digit
    iterators: every short prefix of next / next_back / nth calls, on values whose top digit has a zero / non-zero high
    half, 0 … 5 digits (C09-z1: a `fold` override that mishandles "first remaining digit is also the last one")"""
    reqs = []
    vals = [0, 5, (1 << 32) + 5, (1 << 32), MAX, B, B + 5, (1 << 96) + 7, val([7, 0xdeadbeef00000007]), val([1, 2, 3]), val([MAX, MAX, 1]),
            val([0, 0, 1 << 32]), big(rng, 4), big(rng, 5) >> 33]
    prefixes = ["-", "n", "b", "nn", "nb", "bn", "bb", "nnn", "nnb", "bbn", "nbnb", "t0", "t1", "nt1", "bt0", "nnnn", "bbbb", "nnnnn", "nbbbn", "lnh", "nlb"]
    if tier == "thorough":
        prefixes += ["".join(rng.choice("nbnb" + "t") + (str(rng.randrange(3)) if False else "") for _ in range(rng.randrange(1, 9))).replace("t", "t0") for _ in range(60)]
    kinds = ["F", "E", "R", "V", "S"]
    k = 0
    for v in vals:
        for p in prefixes:
            for kind in (kinds if tier == "thorough" else [kinds[k % 5], kinds[(k + 2) % 5]]):
                reqs.append("C09 iter32x %s %s %s" % (wu(v), p, kind))
                if k % 3 == 0:
                    reqs.append("C09 iter64x %s %s %s" % (wu(v), p, kind))
            k += 1
    return reqs

def rand_calls(rng, maxlen=12):
    n = rng.randrange(0, maxlen + 1)
    cs = []
    for _ in range(n):
        r = rng.randrange(20)
        if r < 6: cs.append("n")
        elif r < 12: cs.append("b")
        elif r < 14: cs.append("l")
        elif r < 15: cs.append("h")
        else: cs.append("t%d" % rng.choice([0, 0, 1, 1, 2, 3, rng.randrange(0, 12), HUGE_NTH[rng.randrange(len(HUGE_NTH))]]))
    r = rng.randrange(4)
    if r == 0: cs.append("L")
    elif r == 1: cs.append("C")
    return "".join(cs) or "-"

def gen(rng, tier):
    reqs = internal_iteration_reqs(rng, tier)
    thorough = tier == "thorough"
    vs = values(rng, tier)
    em = edge_magnitudes(tier)
    # --- export of magnitudes
    for v in vs + em:
        for op in ("u.to_bytes_le", "u.to_bytes_be", "u.to_u32_digits", "u.to_u64_digits"):
            reqs.append("C09 %s %s" % (op, wu(v)))
    for v in vs[::3]:
        reqs.append("C09 u.to_le_bytes %s" % wu(v))
        reqs.append("C09 u.to_be_bytes %s" % wu(v))
    # --- signed export: both signs of every edge magnitude, negative powers of two
    signed_vals = [0]
    for v in em + vs:
        signed_vals += [v, -v]
    signed_vals += [-(1 << j) for j in range(0, 200 if not thorough else 700)]
    # the "-2^(8k-1) needs no extra byte" exception must look at ALL lower bits: 2^(8k-1) + 2^m for every m,
    # and + a lower part with a long trailing-zero run, across digit boundaries
    for k in (list(range(1, 26)) + [32, 33] + ([40, 64, 65, 128] if thorough else [])):
        e = 8 * k - 1
        ms = range(0, e) if (k <= 12 or thorough) else list(range(0, e, 7)) + [e - 1, e - 2, e - 8, e - 9, 63, 64, 65, 127, 128]
        for m in ms:
            if 0 <= m < e:
                signed_vals += [-((1 << e) + (1 << m)), (1 << e) + (1 << m)]
        for _ in range(3):
            tz = rng.randrange(0, e)
            low = (rng.randrange(1, 1 << max(1, e - tz)) << tz) % (1 << e)
            if low:
                signed_vals += [-((1 << e) + low), -((1 << e) - low)]
    for v in signed_vals:
        reqs.append("C09 i.to_signed_bytes_le %s" % wi(v))
        reqs.append("C09 i.to_signed_bytes_be %s" % wi(v))
    for v in signed_vals[::4]:
        for op in ("i.to_le_bytes", "i.to_be_bytes", "i.to_bytes_le", "i.to_bytes_be", "i.to_u32_digits", "i.to_u64_digits"):
            reqs.append("C09 %s %s" % (op, wi(v)))
    # --- import of bytes
    for bs in byte_slices(rng, tier):
        x = wbytes(bs)
        for op in ("u.from_bytes_le", "u.from_bytes_be", "i.from_signed_bytes_le", "i.from_signed_bytes_be"):
            reqs.append("C09 %s %s" % (op, x))
        reqs.append("C09 i.from_bytes_le %s %s" % (sgn(rng), x))
        reqs.append("C09 i.from_bytes_be %s %s" % (sgn(rng), x))
        if rng.randrange(4) == 0:
            for op in ("u.from_le_bytes", "u.from_be_bytes", "i.from_le_bytes", "i.from_be_bytes"):
                reqs.append("C09 %s %s" % (op, x))
    # --- import of u32 words
    olds = [0, 1, val([MAX, MAX, MAX]), rng.randrange(B ** 5)]
    for ws in word_slices(rng, tier):
        w = wwords(ws)
        reqs.append("C09 u.new %s" % w)
        reqs.append("C09 u.from_slice %s" % w)
        reqs.append("C09 u.assign_from_slice %s %s" % (wu(rng.choice(olds)), w))
        for s in ("+", "-", "0"):
            op = rng.choice(["i.new", "i.from_slice"])
            reqs.append("C09 %s %s %s" % (op, s, w))
            reqs.append("C09 i.assign_from_slice %s %s %s" % (wi(signed(rng, rng.choice(olds))), s, w))
    # --- iterators: huge nth after every short prefix of next / next_back, then observers
    for v in iter_values():
        for pre in ("", "n", "nn", "nnn", "b", "nb", "bn", "nbn", "bb", "nnb"):
            for k in HUGE_NTH[:3]:
                for obs in ("l", "n", "b", "L", "C"):
                    for it in ("iter32", "iter64"):
                        reqs.append("C09 %s %s %st%d%s" % (it, wu(v), pre, k, obs))
    # --- iterators: exhaustive prefixes, then random call strings
    reqs += exhaustive_iter(7 if thorough else 6)
    ivs = iter_values() + vs
    for _ in range(40000 if thorough else 4000):
        v = rng.choice(ivs)
        cs = rand_calls(rng)
        r = rng.randrange(10)
        if r < 5: reqs.append("C09 iter32 %s %s" % (wu(v), cs))
        elif r < 8: reqs.append("C09 iter64 %s %s" % (wu(v), cs))
        elif r < 9: reqs.append("C09 i.iter32 %s %s" % (wi(signed(rng, v)), cs))
        else: reqs.append("C09 i.iter64 %s %s" % (wi(signed(rng, v)), cs))
    # api-coverage block: provided `to_ne_bytes` / `from_ne_bytes` (little-endian on this target): values on byte and
    # digit boundaries of both signs (the -2^(8k-1) exception of the signed form), byte strings with sign-extension
    # / zero padding, empty input
    nv = [0, 1, 127, 128, 255, 256, 32767, 32768, (1 << 63) - 1, 1 << 63, MAX, B, (1 << 127), (1 << 128) - 1]
    nv += [big(rng, n) for n in (1, 2, 3, 5)] + [1 << (8 * k - 1) for k in (1, 2, 8, 9, 16, 17)]
    for v in nv:
        reqs.append("C09 u.to_ne_bytes %s" % wu(v))
        reqs.append("C09 i.to_ne_bytes %s" % wi(v))
        reqs.append("C09 i.to_ne_bytes %s" % wi(-v))
    for n in (0, 1, 2, 7, 8, 9, 16, 17, 24):
        for pat in range(4):
            bs = [rng.randrange(256) for _ in range(n)]
            if n and pat == 1: bs[-1] = 0
            if n and pat == 2: bs[-1] = 0xff
            if n > 1 and pat == 3: bs[-1] = 0xff; bs[-2] |= 0x80
            reqs.append("C09 u.from_ne_bytes %s" % wbytes(bs))
            reqs.append("C09 i.from_ne_bytes %s" % wbytes(bs))
    return reqs
