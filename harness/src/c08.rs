//! stream C08: primitive integer and float conversions
//!
//! Besides answering each request from the public API, the handlers cross-check the equivalent
//! API forms against each other in-process (`TryFrom<&Big>` vs `TryFrom<Big>`, `ToBigUint`/`ToBigInt`
//! for primitives vs `FromPrimitive`, `u128/i128 as f64/f32` and `f64 as u128/i128` for values that
//! fit) and report a disagreement as `panic internal:<which>-mismatch`.
use crate::wire::*;
use core::convert::TryFrom;
use num_bigint::{BigInt, BigUint, ToBigInt, ToBigUint};
use num_traits::{FromPrimitive, ToPrimitive};

fn mismatch(what: &str) -> String {
    format!("panic internal:{}-mismatch", what)
}

/// a cross-check failed: keep the API result visible in the replay
fn mismatch_with(what: &str, result: String) -> String {
    format!("panic internal:{}-mismatch({})", what, result.replace(' ', "_"))
}

/// dispatch on a primitive type name: `$mac!(type, to_method, from_method, signed)`
macro_rules! with_ty {
    ($name:expr, $mac:ident) => {
        match $name {
            "u8" => $mac!(u8, to_u8, from_u8, false),
            "u16" => $mac!(u16, to_u16, from_u16, false),
            "u32" => $mac!(u32, to_u32, from_u32, false),
            "u64" => $mac!(u64, to_u64, from_u64, false),
            "u128" => $mac!(u128, to_u128, from_u128, false),
            "usize" => $mac!(usize, to_usize, from_usize, false),
            "i8" => $mac!(i8, to_i8, from_i8, true),
            "i16" => $mac!(i16, to_i16, from_i16, true),
            "i32" => $mac!(i32, to_i32, from_i32, true),
            "i64" => $mac!(i64, to_i64, from_i64, true),
            "i128" => $mac!(i128, to_i128, from_i128, true),
            "isize" => $mac!(isize, to_isize, from_isize, true),
            _ => return None,
        }
    };
}

fn split_typed(s: &str) -> Option<(&str, &str)> {
    let mut it = s.splitn(2, ':');
    Some((it.next()?, it.next()?))
}

fn u_to(t: &str, x: &BigUint) -> Option<String> {
    macro_rules! go {
        ($T:ty, $to:ident, $from:ident, $s:expr) => {{
            let r: Option<$T> = ToPrimitive::$to(x);
            match r {
                Some(v) => format!("some {}", v),
                None => "none".to_string(),
            }
        }};
    }
    Some(with_ty!(t, go))
}

fn i_to(t: &str, x: &BigInt) -> Option<String> {
    macro_rules! go {
        ($T:ty, $to:ident, $from:ident, $s:expr) => {{
            let r: Option<$T> = ToPrimitive::$to(x);
            match r {
                Some(v) => format!("some {}", v),
                None => "none".to_string(),
            }
        }};
    }
    Some(with_ty!(t, go))
}

fn u_try_into(t: &str, x: &BigUint) -> Option<String> {
    macro_rules! go {
        ($T:ty, $to:ident, $from:ident, $s:expr) => {{
            let by_ref = <$T>::try_from(x);
            let by_val = <$T>::try_from(x.clone());
            match (by_ref, by_val) {
                (Ok(a), Ok(b)) if a == b => format!("ok {}", b),
                (Err(_), Err(e)) => format!("err {}", show_u(&e.into_original())),
                _ => mismatch("tryfrom-ref"),
            }
        }};
    }
    Some(with_ty!(t, go))
}

fn i_try_into(t: &str, x: &BigInt) -> Option<String> {
    macro_rules! go {
        ($T:ty, $to:ident, $from:ident, $s:expr) => {{
            let by_ref = <$T>::try_from(x);
            let by_val = <$T>::try_from(x.clone());
            match (by_ref, by_val) {
                (Ok(a), Ok(b)) if a == b => format!("ok {}", b),
                (Err(_), Err(e)) => format!("err {}", show_i(&e.into_original())),
                _ => mismatch("tryfrom-ref"),
            }
        }};
    }
    Some(with_ty!(t, go))
}

fn u_from(tv: &str) -> Option<String> {
    let (t, v) = split_typed(tv)?;
    if t == "bool" {
        return Some(ok_u(&BigUint::from(v == "1")));
    }
    Some(match t {
        "u8" => ok_u(&BigUint::from(v.parse::<u8>().ok()?)),
        "u16" => ok_u(&BigUint::from(v.parse::<u16>().ok()?)),
        "u32" => ok_u(&BigUint::from(v.parse::<u32>().ok()?)),
        "u64" => ok_u(&BigUint::from(v.parse::<u64>().ok()?)),
        "u128" => ok_u(&BigUint::from(v.parse::<u128>().ok()?)),
        "usize" => ok_u(&BigUint::from(v.parse::<usize>().ok()?)),
        _ => return None, // no `From<iN> for BigUint`
    })
}

fn u_from_prim(tv: &str) -> Option<String> {
    let (t, v) = split_typed(tv)?;
    macro_rules! go {
        ($T:ty, $to:ident, $from:ident, $s:expr) => {{
            let n = v.parse::<$T>().ok()?;
            let r = <BigUint as FromPrimitive>::$from(n);
            if r != n.to_biguint() {
                mismatch("to_biguint")
            } else {
                opt_u(&r)
            }
        }};
    }
    Some(with_ty!(t, go))
}

fn u_try_from(tv: &str) -> Option<String> {
    let (t, v) = split_typed(tv)?;
    Some(match t {
        "i8" => try_u(BigUint::try_from(v.parse::<i8>().ok()?).ok()),
        "i16" => try_u(BigUint::try_from(v.parse::<i16>().ok()?).ok()),
        "i32" => try_u(BigUint::try_from(v.parse::<i32>().ok()?).ok()),
        "i64" => try_u(BigUint::try_from(v.parse::<i64>().ok()?).ok()),
        "i128" => try_u(BigUint::try_from(v.parse::<i128>().ok()?).ok()),
        "isize" => try_u(BigUint::try_from(v.parse::<isize>().ok()?).ok()),
        _ => return None,
    })
}

fn try_u(r: Option<BigUint>) -> String {
    match r {
        Some(v) => ok_u(&v),
        None => "err".to_string(),
    }
}

fn i_from(tv: &str) -> Option<String> {
    let (t, v) = split_typed(tv)?;
    if t == "bool" {
        return Some(ok_i(&BigInt::from(v == "1")));
    }
    macro_rules! go {
        ($T:ty, $to:ident, $from:ident, $s:expr) => {{
            let n = v.parse::<$T>().ok()?;
            ok_i(&BigInt::from(n))
        }};
    }
    Some(with_ty!(t, go))
}

fn i_from_prim(tv: &str) -> Option<String> {
    let (t, v) = split_typed(tv)?;
    macro_rules! go {
        ($T:ty, $to:ident, $from:ident, $s:expr) => {{
            let n = v.parse::<$T>().ok()?;
            let r = <BigInt as FromPrimitive>::$from(n);
            if r != n.to_bigint() {
                mismatch("to_bigint")
            } else {
                opt_i(&r)
            }
        }};
    }
    Some(with_ty!(t, go))
}

/// value of a BigUint known to be below 2^128, from its digits (independent of `to_u128`)
fn u128_of(v: &BigUint) -> u128 {
    let d = v.to_u64_digits();
    let lo = d.first().copied().unwrap_or(0) as u128;
    let hi = d.get(1).copied().unwrap_or(0) as u128;
    lo | (hi << 64)
}

fn parse_bits64(s: &str) -> Option<f64> {
    Some(f64::from_bits(u64::from_str_radix(s, 16).ok()?))
}
fn parse_bits32(s: &str) -> Option<f32> {
    Some(f32::from_bits(u32::from_str_radix(s, 16).ok()?))
}

pub fn handle(op: &str, a: &[&str]) -> Option<String> {
    Some(match (op, a) {
        ("u.to", [t, x]) => u_to(t, &parse_u(x)?)?,
        ("i.to", [t, x]) => i_to(t, &parse_i(x)?)?,
        ("u.try_into", [t, x]) => u_try_into(t, &parse_u(x)?)?,
        ("i.try_into", [t, x]) => i_try_into(t, &parse_i(x)?)?,
        ("u.from", [tv]) => u_from(tv)?,
        ("u.from_prim", [tv]) => u_from_prim(tv)?,
        ("u.try_from", [tv]) => u_try_from(tv)?,
        ("i.from", [tv]) => i_from(tv)?,
        ("i.from_prim", [tv]) => i_from_prim(tv)?,
        ("u.try_from_i", [x]) => match BigUint::try_from(parse_i(x)?) {
            Ok(v) => ok_u(&v),
            Err(e) => format!("err {}", show_i(&e.into_original())),
        },
        ("u.try_from_iref", [x]) => match BigUint::try_from(&parse_i(x)?) {
            Ok(v) => ok_u(&v),
            Err(_) => "err".to_string(),
        },
        ("i.to_biguint", [x]) => opt_u(&parse_i(x)?.to_biguint()),
        ("u.to_bigint", [x]) => opt_i(&parse_u(x)?.to_bigint()),
        ("i.from_u", [x]) => ok_i(&BigInt::from(parse_u(x)?)),
        // api-coverage: the TRAIT impls `ToBigUint for BigInt` (the method call above resolves to the inherent
        // `BigInt::to_biguint`), `ToBigUint for BigUint`, `ToBigInt for BigInt`
        ("i.to_biguint_t", [x]) => opt_u(&ToBigUint::to_biguint(&parse_i(x)?)),
        ("u.to_biguint_t", [x]) => opt_u(&ToBigUint::to_biguint(&parse_u(x)?)),
        ("i.to_bigint_t", [x]) => opt_i(&ToBigInt::to_bigint(&parse_i(x)?)),
        #[cfg(num_bigint_verif)]
        ("u.high_bits", [x]) => format!("ok {:x}", num_bigint::verif::high_bits_to_u64(&parse_u(x)?)),
        ("u.to_f64", [x]) => {
            let v = parse_u(x)?;
            let f = v.to_f64()?;
            let r = format!("ok {:x}", f.to_bits());
            if v.bits() <= 128 {
                let n = u128_of(&v);
                if (n as f64).to_bits() != f.to_bits() {
                    return Some(mismatch_with("as-cast", r));
                }
            }
            r
        }
        ("u.to_f32", [x]) => {
            let v = parse_u(x)?;
            let f = v.to_f32()?;
            let r = format!("ok {:x}", f.to_bits());
            if v.bits() <= 128 {
                let n = u128_of(&v);
                if (n as f32).to_bits() != f.to_bits() {
                    return Some(mismatch_with("as-cast", r));
                }
            }
            r
        }
        ("i.to_f64", [x]) => {
            let v = parse_i(x)?;
            let f = v.to_f64()?;
            let r = format!("ok {:x}", f.to_bits());
            if v.magnitude().bits() <= 127 {
                // `-0.0` cannot arise: zero has NoSign
                let n = u128_of(v.magnitude()) as i128;
                let n = if v.sign() == num_bigint::Sign::Minus { -n } else { n };
                if (n as f64).to_bits() != f.to_bits() {
                    return Some(mismatch_with("as-cast", r));
                }
            }
            r
        }
        ("i.to_f32", [x]) => {
            let v = parse_i(x)?;
            let f = v.to_f32()?;
            let r = format!("ok {:x}", f.to_bits());
            if v.magnitude().bits() <= 127 {
                let n = u128_of(v.magnitude()) as i128;
                let n = if v.sign() == num_bigint::Sign::Minus { -n } else { n };
                if (n as f32).to_bits() != f.to_bits() {
                    return Some(mismatch_with("as-cast", r));
                }
            }
            r
        }
        ("u.from_f64", [b]) => {
            let f = parse_bits64(b)?;
            let r = BigUint::from_f64(f);
            if r != f.to_biguint() {
                return Some(mismatch("to_biguint"));
            }
            if f.is_finite() && f > -1.0 && f < 3.0e38 && r != Some(BigUint::from(f as u128)) {
                return Some(mismatch_with("as-cast", opt_u(&r)));
            }
            opt_u(&r)
        }
        ("u.from_f32", [b]) => {
            let f = parse_bits32(b)?;
            let r = BigUint::from_f32(f);
            if r != f.to_biguint() {
                return Some(mismatch("to_biguint"));
            }
            if f.is_finite() && f > -1.0 && f < 3.0e38 && r != Some(BigUint::from(f as u128)) {
                return Some(mismatch_with("as-cast", opt_u(&r)));
            }
            opt_u(&r)
        }
        ("i.from_f64", [b]) => {
            let f = parse_bits64(b)?;
            let r = BigInt::from_f64(f);
            if r != f.to_bigint() {
                return Some(mismatch("to_bigint"));
            }
            if f.is_finite() && f.abs() < 1.0e38 && r != Some(BigInt::from(f as i128)) {
                return Some(mismatch_with("as-cast", opt_i(&r)));
            }
            opt_i(&r)
        }
        ("i.from_f32", [b]) => {
            let f = parse_bits32(b)?;
            let r = BigInt::from_f32(f);
            if r != f.to_bigint() {
                return Some(mismatch("to_bigint"));
            }
            if f.is_finite() && f.abs() < 1.0e38 && r != Some(BigInt::from(f as i128)) {
                return Some(mismatch_with("as-cast", opt_i(&r)));
            }
            opt_i(&r)
        }
        _ => return None,
    })
}
