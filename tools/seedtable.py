#!/usr/bin/env python3
"""Print the markdown table of seeded changes and their detection (from seeded/*/meta.json + detection.json)."""
import glob, json, os
V = os.path.dirname(os.path.dirname(os.path.abspath(__file__)))
print("| seeded change | targets | what it does / what it needs to manifest | caught by (first replay) |")
print("|---|---|---|---|")
for d in sorted(glob.glob(os.path.join(V, "seeded", "*"))):
    m = json.load(open(os.path.join(d, "meta.json")))
    det = json.load(open(os.path.join(d, "detection.json"))) if os.path.exists(os.path.join(d, "detection.json")) else {}
    summ = " ".join(str(m.get("summary", "")).split())
    needs = " ".join(str(m.get("needs", "")).split())
    txt = (summ[:170] + ("…" if len(summ) > 170 else "")) + " **Needs:** " + (needs[:150] + ("…" if len(needs) > 150 else ""))
    txt = txt.replace("|", "\\|")
    caught = []
    for pid, r in sorted(det.items()):
        if r.get("violations"):
            fr = r.get("first_replay") or {}
            what = fr.get("request") or fr.get("command") or (str(fr.get("failures", ""))[:60]) or fr.get("kind", "")
            caught.append("%s (`%s`)" % (pid, str(what)[:70].replace("|", "\\|")))
        else:
            caught.append("%s: **missed**" % pid)
    print("| %s | %s | %s | %s |" % (os.path.basename(d), m.get("property"), txt, "; ".join(caught) or "not run"))
