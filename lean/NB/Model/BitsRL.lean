/-
  NB.Model.BitsRL — the bit queries of NB.Model.Bits (`bits`, `trailing_zeros`, `trailing_ones`,
  `count_ones`, `bit`) on RUN-LENGTH ENCODED digit vectors.

  A huge operand (2^26 digits and more) cannot be expanded into a `List Nat` by the driver, so it
  travels as a list of segments `(digit, count)`, little-endian (first segment = least significant
  digits); the digit vector it denotes is `expandRL s` = the concatenation of `replicate count digit`.
  Segments with `count = 0` are allowed anywhere and denote nothing; equal neighbouring digits need
  not be merged.  Every function below runs in time proportional to the NUMBER OF SEGMENTS and is
  proved (NB.Props.C07RL, for ALL segment lists) equal to the list function of NB.Model.Bits applied
  to `expandRL s`.
-/
import NB.Model.Bits
namespace NB.C07

/-- the digit vector denoted by a segment list -/
def expandRL : List (Nat × Nat) → List Nat
  | [] => []
  | (d, n) :: s => List.replicate n d ++ expandRL s

/-- `(expandRL s).length` -/
def lengthRL : List (Nat × Nat) → Nat
  | [] => 0
  | (_, n) :: s => n + lengthRL s

/-- `(expandRL s).getLast?`: the digit of the last non-empty segment -/
def lastRL : List (Nat × Nat) → Option Nat
  | [] => none
  | (d, n) :: s =>
    match lastRL s with
    | some top => some top
    | none => if n = 0 then none else some d

/-- `(expandRL s)[i]?`: the digit of the segment containing digit index `i` -/
def getRL? : List (Nat × Nat) → Nat → Option Nat
  | [], _ => none
  | (d, n) :: s, i => if i < n then some d else getRL? s (i - n)

/-- `position p (expandRL s)`: the first non-empty segment whose digit satisfies `p`;
    index = sum of the earlier counts -/
def positionRL (p : Nat → Bool) : List (Nat × Nat) → Option Nat
  | [] => none
  | (d, n) :: s => if n ≠ 0 ∧ p d = true then some 0 else (positionRL p s).map (· + n)

/-- `BigUint::count_ones`: Σ popcount(digit) * count -/
def countOnesRL : List (Nat × Nat) → Nat
  | [] => 0
  | (d, n) :: s => popDigit d * n + countOnesRL s

/-- `BigUint::bits` -/
def bitsRL (s : List (Nat × Nat)) : Nat :=
  match lastRL s with
  | none => 0
  | some top => lengthRL s * BITS - lzDigit top

/-- `BigUint::trailing_zeros` -/
def trailingZerosRL (s : List (Nat × Nat)) : Option Nat :=
  match positionRL (fun d => d != 0) s with
  | none => none
  | some i => some (i * BITS + tzDigit ((getRL? s i).getD 0))

/-- `BigUint::trailing_ones` -/
def trailingOnesRL (s : List (Nat × Nat)) : Nat :=
  match positionRL (fun d => dnot d != 0) s with
  | some i => i * BITS + toDigit ((getRL? s i).getD 0)
  | none => lengthRL s * BITS

/-- `BigUint::bit` -/
def bitRL (s : List (Nat × Nat)) (bit : Nat) : Bool :=
  match getRL? s (bit / BITS) with
  | some digit => (digit &&& (1 <<< (bit % BITS))) != 0
  | none => false

end NB.C07
