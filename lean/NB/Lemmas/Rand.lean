/- helper lemmas for C18: word lists, packing u32 words into u64 digits, the top-word shift,
   `bits`, the explicit inverse of the candidate map -/
import NB.Lemmas.Base
import NB.Lemmas.Canon
import NB.Model.Rand
namespace NB.Rand
open NB

theorem WB_pos : 0 < WB := by decide
theorem WB_sq : WB * WB = B := by decide
theorem WB_pow (k : Nat) : WB ^ k = 2 ^ (32 * k) := by
  rw [Nat.pow_mul]; rfl

theorem WordsOk.nil : WordsOk [] := by intro w h; cases h
theorem WordsOk.cons {w : Nat} {ws : List Nat} (h : w < WB) (hs : WordsOk ws) : WordsOk (w :: ws) := by
  intro x hx; cases hx with
  | head => exact h
  | tail _ h' => exact hs x h'
theorem WordsOk.head {w : Nat} {ws : List Nat} (h : WordsOk (w :: ws)) : w < WB := h w (by simp)
theorem WordsOk.tail {w : Nat} {ws : List Nat} (h : WordsOk (w :: ws)) : WordsOk ws :=
  fun x hx => h x (List.mem_cons_of_mem _ hx)
theorem WordsOk.append {a b : List Nat} (ha : WordsOk a) (hb : WordsOk b) : WordsOk (a ++ b) := by
  intro x hx; rcases List.mem_append.mp hx with h | h
  · exact ha x h
  · exact hb x h
theorem WordsOk.take {a : List Nat} (n : Nat) (ha : WordsOk a) : WordsOk (a.take n) :=
  fun x hx => ha x (List.mem_of_mem_take hx)
theorem WordsOk.drop {a : List Nat} (n : Nat) (ha : WordsOk a) : WordsOk (a.drop n) :=
  fun x hx => ha x (List.mem_of_mem_drop hx)
theorem WordsOk.replicate_zero (k : Nat) : WordsOk (List.replicate k 0) := by
  intro x hx; rw [List.mem_replicate] at hx; rw [hx.2]; exact WB_pos

theorem wordsVal_append (a b : List Nat) : wordsVal (a ++ b) = wordsVal a + WB ^ a.length * wordsVal b := by
  induction a with
  | nil => simp [wordsVal]
  | cons d ds ih => simp only [List.cons_append, wordsVal, ih, List.length_cons, pow_succ]; ring

theorem wordsVal_lt {a : List Nat} (h : WordsOk a) : wordsVal a < WB ^ a.length := by
  induction a with
  | nil => simp [wordsVal]
  | cons d ds ih =>
    have hd := h.head
    have := ih h.tail
    simp only [wordsVal, List.length_cons, pow_succ]
    nlinarith [WB_pos]

theorem wordsVal_replicate_zero (k : Nat) : wordsVal (List.replicate k 0) = 0 := by
  induction k with
  | zero => rfl
  | succ k ih => simp [List.replicate_succ, wordsVal, ih]

/-- the u64 view of a u32 buffer has the same value -/
theorem packWords_val (ws : List Nat) : val (packWords ws) = wordsVal ws := by
  fun_induction packWords ws with
  | case1 => rfl
  | case2 a => simp [val, wordsVal]
  | case3 a b t ih =>
    simp only [val, wordsVal, ih, ← WB_sq]; ring

theorem packWords_ok {ws : List Nat} (h : WordsOk ws) : DigitsOk (packWords ws) := by
  fun_induction packWords ws with
  | case1 => exact DigitsOk.nil
  | case2 a =>
    refine DigitsOk.cons ?_ DigitsOk.nil
    have := h.head; unfold WB at this; unfold B; omega
  | case3 a b t ih =>
    refine DigitsOk.cons ?_ (ih h.tail.tail)
    have ha := h.head
    have hb := h.tail.head
    unfold WB at *; unfold B; omega

theorem shrLast_length (s : Nat) (ws : List Nat) : (shrLast s ws).length = ws.length := by
  fun_induction shrLast s ws <;> simp_all

theorem shrLast_ok {s : Nat} {ws : List Nat} (h : WordsOk ws) : WordsOk (shrLast s ws) := by
  fun_induction shrLast s ws with
  | case1 => exact h
  | case2 w =>
    refine WordsOk.cons ?_ WordsOk.nil
    exact Nat.lt_of_le_of_lt (Nat.div_le_self _ _) h.head
  | case3 w ws hne ih => exact WordsOk.cons h.head (ih h.tail)

/-- value after `data[last] >>= s` -/
theorem shrLast_val (s : Nat) (ws : List Nat) (hne : ws ≠ []) :
    wordsVal (shrLast s ws) =
      wordsVal (ws.take (ws.length - 1)) + WB ^ (ws.length - 1) * (ws.getD (ws.length - 1) 0 / 2 ^ s) := by
  fun_induction shrLast s ws with
  | case1 => exact absurd rfl hne
  | case2 w => simp [wordsVal]
  | case3 w ws hne' ih =>
    have hl : 0 < ws.length := List.length_pos_iff.mpr hne'
    have e : (w :: ws).length - 1 = (ws.length - 1) + 1 := by simp; omega
    rw [e, List.take_succ_cons, List.getD_cons_succ]
    simp only [wordsVal]
    rw [ih hne', pow_succ]
    ring


theorem bindE_ok_some {α β : Type} (v : α) (t : Tape) (f : α → Except Panic β) :
    R.bindE (.ok (some (v, t))) f = match f v with | .error p => .error p | .ok w => .ok (some (w, t)) := rfl

theorem specLen_arith (n : Nat) :
    ¬ (divCeil n 64 * 2 < n / 32 + (if n % 32 > 0 then 1 else 0)) := by
  unfold divCeil
  split <;> split <;> omega

theorem specLen_pad (n : Nat) :
    divCeil n 64 * 2 - (n / 32 + (if n % 32 > 0 then 1 else 0)) ≤ 1 := by
  unfold divCeil
  split <;> split <;> omega

/-- normalising a digit vector gives the canonical digits of its value -/
theorem normalize_eq_ofNat {ds : List Nat} (h : DigitsOk ds) : normalize ds = ofNat (val ds) := by
  rw [canon_eq_ofNat (normalize_canon h), normalize_val]

theorem cand_take (n : Nat) (ws : List Nat) (hl : ws.length = specLen n) (hr : n % WBITS ≠ 0) :
    wordsVal (shrLast (WBITS - n % WBITS) ws) = cand n ws := by
  have hpos : 0 < specLen n := by unfold specLen; simp [Nat.pos_of_ne_zero hr]
  have hne : ws ≠ [] := by intro h; subst h; simp at hl; omega
  rw [shrLast_val _ _ hne, hl]
  unfold cand
  simp [hr]

theorem genBiguint_spec (rp : RandParams) (hv : rp.Valid) (n : Nat) (tape : Tape) (ht : WordsOk tape) :
    genBiguint rp n tape = .ok ((genSpec n tape).map fun (c, t) => (ofNat c, t)) := by
  obtain ⟨h1, h2, h3⟩ := hv
  unfold genBiguint
  simp only [h1, h3]
  have hlen : n / WBITS + (if n % WBITS > 0 then 1 else 0) = specLen n := rfl
  rw [hlen]
  have hA : ¬ (divCeil n DBITS * 2 < specLen n) := specLen_arith n
  simp only [hA, if_false]
  unfold genBits fill genSpec
  by_cases hshort : tape.length < specLen n
  · simp only [hshort, if_true]; rfl
  · simp only [hshort, if_false]
    have hlt : (tape.take (specLen n)).length = specLen n := by rw [List.length_take]; omega
    have hok := ht.take (specLen n)
    by_cases hr : n % WBITS > 0
    · have hpos : specLen n ≠ 0 := by unfold specLen; simp [hr]
      have c1 : ¬ (WBITS < n % WBITS) := by
        have := Nat.mod_lt n (show 0 < WBITS by decide); omega
      have c2 : ¬ (WBITS ≤ WBITS - n % WBITS) := by omega
      simp only [h2, hr, if_true, hpos, c1, c2, if_false]
      rw [bindE_ok_some]
      simp only [Option.map]
      congr 3
      rw [normalize_eq_ofNat (packWords_ok ((shrLast_ok hok).append (WordsOk.replicate_zero _)))]
      rw [packWords_val, wordsVal_append, wordsVal_replicate_zero, Nat.mul_zero, Nat.add_zero,
        cand_take n _ hlt (by omega)]
    · simp only [hr, if_false]
      rw [bindE_ok_some]
      simp only [Option.map]
      congr 3
      rw [normalize_eq_ofNat (packWords_ok (hok.append (WordsOk.replicate_zero _)))]
      rw [packWords_val, wordsVal_append, wordsVal_replicate_zero, Nat.mul_zero, Nat.add_zero]
      unfold cand
      simp [show n % WBITS = 0 by omega]

theorem specLen_zero_rem {n : Nat} (h : n % WBITS = 0) : n = WBITS * specLen n := by
  unfold specLen WBITS at *; simp only [h, Nat.lt_irrefl, if_false, Nat.add_zero]
  omega

theorem specLen_pos_rem {n : Nat} (h : n % WBITS ≠ 0) : n = WBITS * (specLen n - 1) + n % WBITS := by
  unfold specLen WBITS at *; simp only [Nat.pos_of_ne_zero h, if_true]
  omega

/-- every candidate is below 2^n -/
theorem cand_lt (n : Nat) (ws : List Nat) (hok : WordsOk ws) (hl : ws.length = specLen n) :
    cand n ws < 2 ^ n := by
  unfold cand
  by_cases hr : n % WBITS = 0
  · simp only [hr, if_true]
    have := wordsVal_lt hok
    rw [hl, WB_pow] at this
    have e := specLen_zero_rem hr
    unfold WBITS at e
    rw [← e] at this; exact this
  · simp only [hr, if_false]
    have hlow := wordsVal_lt (hok.take (specLen n - 1))
    have hlen : (ws.take (specLen n - 1)).length = specLen n - 1 := by rw [List.length_take]; omega
    rw [hlen] at hlow
    have htop : ws.getD (specLen n - 1) 0 < WB := by
      rw [List.getD_eq_getElem?_getD]
      cases h : ws[specLen n - 1]? with
      | none => exact WB_pos
      | some w => exact hok w (List.mem_of_getElem? h)
    have hrl : n % WBITS < WBITS := Nat.mod_lt _ (by decide)
    have hsplit : WB = 2 ^ (WBITS - n % WBITS) * 2 ^ (n % WBITS) := by
      rw [← pow_add, WB_eq]; congr 1; omega
    have hq : ws.getD (specLen n - 1) 0 / 2 ^ (WBITS - n % WBITS) < 2 ^ (n % WBITS) :=
      Nat.div_lt_of_lt_mul (by rw [← hsplit]; exact htop)
    have e := specLen_pos_rem hr
    have hpow : 2 ^ n = WB ^ (specLen n - 1) * 2 ^ (n % WBITS) := by
      conv_lhs => rw [e]
      rw [pow_add, WB_pow]; rfl
    rw [hpow]
    generalize ws.getD (specLen n - 1) 0 / 2 ^ (WBITS - n % WBITS) = q at *
    generalize wordsVal (ws.take (specLen n - 1)) = lo at *
    have hp : 0 < WB ^ (specLen n - 1) := Nat.pow_pos WB_pos
    generalize WB ^ (specLen n - 1) = Pw at *
    generalize 2 ^ (n % WBITS) = T at *
    have : Pw * (q + 1) ≤ Pw * T := Nat.mul_le_mul_left _ hq
    rw [Nat.mul_add, Nat.mul_one] at this
    omega

theorem wordsOf_length (k x : Nat) : (wordsOf k x).length = k := by
  induction k generalizing x with
  | zero => rfl
  | succ k ih => simp [wordsOf, ih]

theorem wordsOf_ok (k x : Nat) : WordsOk (wordsOf k x) := by
  induction k generalizing x with
  | zero => exact WordsOk.nil
  | succ k ih => exact WordsOk.cons (Nat.mod_lt _ WB_pos) (ih _)

theorem wordsOf_val (k x : Nat) : wordsVal (wordsOf k x) = x % WB ^ k := by
  induction k generalizing x with
  | zero => simp [wordsOf, wordsVal, Nat.mod_one]
  | succ k ih =>
    simp only [wordsOf, wordsVal, ih, pow_succ]
    rw [Nat.mul_comm (WB ^ k) WB, Nat.mod_mul]

theorem wordsOf_wordsVal (ws : List Nat) (h : WordsOk ws) : wordsOf ws.length (wordsVal ws) = ws := by
  induction ws with
  | nil => rfl
  | cons w ws ih =>
    have hw := h.head
    simp only [List.length_cons, wordsOf, wordsVal]
    rw [Nat.add_mul_mod_self_left, Nat.mod_eq_of_lt hw, Nat.add_mul_div_left _ _ WB_pos,
      Nat.div_eq_of_lt hw, Nat.zero_add, ih h.tail]


theorem split_last (ws : List Nat) (k : Nat) (hl : ws.length = k + 1) :
    ws = ws.take k ++ [ws.getD k 0] := by
  conv_lhs => rw [← List.take_append_drop k ws]
  congr 1
  have hk : k < ws.length := by omega
  rw [List.drop_eq_getElem_cons hk, List.drop_of_length_le (by omega)]
  simp [List.getD_eq_getElem?_getD, List.getElem?_eq_getElem hk]

theorem pad_bits {n : Nat} (hr : n % WBITS ≠ 0) : WBITS * specLen n - n = WBITS - n % WBITS := by
  have := specLen_pos_rem hr
  have hp : 0 < specLen n := by unfold specLen; simp [Nat.pos_of_ne_zero hr]
  unfold WBITS at *
  omega

theorem pad_bits_zero {n : Nat} (hr : n % WBITS = 0) : WBITS * specLen n - n = 0 := by
  have := specLen_zero_rem hr
  omega

/-- `encode` is a right inverse: every (value, discarded bits) pair is hit -/
theorem encode_spec (n v d : Nat) (hv : v < 2 ^ n) (hd : d < 2 ^ (WBITS * specLen n - n)) :
    (encode n v d).length = specLen n ∧ WordsOk (encode n v d) ∧
    cand n (encode n v d) = v ∧ discarded n (encode n v d) = d := by
  unfold encode cand discarded
  by_cases hr : n % WBITS = 0
  · simp only [hr, if_true]
    rw [pad_bits_zero hr] at hd
    refine ⟨wordsOf_length _ _, wordsOf_ok _ _, ?_, by omega⟩
    rw [wordsOf_val, WB_pow]
    have e := specLen_zero_rem hr
    unfold WBITS at e
    rw [← e]; exact Nat.mod_eq_of_lt hv
  · simp only [hr, if_false]
    rw [pad_bits hr] at hd
    have hp : 0 < specLen n := by unfold specLen; simp [Nat.pos_of_ne_zero hr]
    have hrl : n % WBITS < WBITS := Nat.mod_lt _ (by decide)
    have hsplit : WB = 2 ^ (n % WBITS) * 2 ^ (WBITS - n % WBITS) := by
      rw [← pow_add, WB_eq]; congr 1; omega
    have hpow : 2 ^ n = WB ^ (specLen n - 1) * 2 ^ (n % WBITS) := by
      conv_lhs => rw [specLen_pos_rem hr]
      rw [pow_add, WB_pow]; rfl
    have hPw : 0 < WB ^ (specLen n - 1) := Nat.pow_pos WB_pos
    have hhi : v / WB ^ (specLen n - 1) < 2 ^ (n % WBITS) :=
      Nat.div_lt_of_lt_mul (by rw [← hpow]; exact hv)
    have hS : 0 < 2 ^ (WBITS - n % WBITS) := Nat.pow_pos (by decide)
    have hlen0 : (wordsOf (specLen n - 1) (v % WB ^ (specLen n - 1))).length = specLen n - 1 := wordsOf_length _ _
    have htake : (wordsOf (specLen n - 1) (v % WB ^ (specLen n - 1)) ++
        [v / WB ^ (specLen n - 1) * 2 ^ (WBITS - n % WBITS) + d]).take (specLen n - 1)
        = wordsOf (specLen n - 1) (v % WB ^ (specLen n - 1)) := by
      rw [List.take_append_of_le_length (by omega), List.take_of_length_le (by omega)]
    have hget : (wordsOf (specLen n - 1) (v % WB ^ (specLen n - 1)) ++
        [v / WB ^ (specLen n - 1) * 2 ^ (WBITS - n % WBITS) + d]).getD (specLen n - 1) 0
        = v / WB ^ (specLen n - 1) * 2 ^ (WBITS - n % WBITS) + d := by
      rw [List.getD_eq_getElem?_getD, List.getElem?_append_right (by omega)]
      simp [hlen0]
    have htopok : v / WB ^ (specLen n - 1) * 2 ^ (WBITS - n % WBITS) + d < WB := by
      have h1 : (v / WB ^ (specLen n - 1) + 1) * 2 ^ (WBITS - n % WBITS)
          ≤ 2 ^ (n % WBITS) * 2 ^ (WBITS - n % WBITS) := Nat.mul_le_mul_right _ hhi
      rw [← hsplit, Nat.add_mul, Nat.one_mul] at h1
      omega
    rw [htake, hget]
    refine ⟨by simp [hlen0]; omega, ?_, ?_, ?_⟩
    · refine (wordsOf_ok _ _).append (WordsOk.cons ?_ WordsOk.nil)
      exact htopok
    · rw [wordsOf_val, Nat.mod_mod]
      rw [Nat.mul_comm (v / _), Nat.mul_add_div hS, Nat.div_eq_of_lt hd, Nat.add_zero]
      exact Nat.mod_add_div v _
    · rw [Nat.mul_comm (v / _), Nat.mul_add_mod]
      exact Nat.mod_eq_of_lt hd

/-- `encode` is a left inverse: the word list is recovered from (value, discarded bits) -/
theorem encode_decode (n : Nat) (ws : List Nat) (hok : WordsOk ws) (hl : ws.length = specLen n) :
    encode n (cand n ws) (discarded n ws) = ws := by
  unfold encode cand discarded
  by_cases hr : n % WBITS = 0
  · simp only [hr, if_true]
    rw [← hl]; exact wordsOf_wordsVal ws hok
  · simp only [hr, if_false]
    have hp : 0 < specLen n := by unfold specLen; simp [Nat.pos_of_ne_zero hr]
    have hsp := split_last ws (specLen n - 1) (by omega)
    have hlow := wordsVal_lt (hok.take (specLen n - 1))
    have hlen : (ws.take (specLen n - 1)).length = specLen n - 1 := by rw [List.length_take]; omega
    rw [hlen] at hlow
    have hPw : 0 < WB ^ (specLen n - 1) := Nat.pow_pos WB_pos
    rw [Nat.add_mul_mod_self_left, Nat.mod_eq_of_lt hlow, Nat.add_mul_div_left _ _ hPw,
      Nat.div_eq_of_lt hlow, Nat.zero_add, Nat.div_add_mod']
    conv_rhs => rw [hsp]
    congr 1
    have := wordsOf_wordsVal (ws.take (specLen n - 1)) (hok.take _)
    rw [hlen] at this; exact this


theorem B_pow (k : Nat) : B ^ k = 2 ^ (64 * k) := by
  rw [Nat.pow_mul]; rfl

/-- `BigUint::bits` of a canonical value is the bit length of the number -/
theorem bits_eq_natBits {a : List Nat} (ha : Canon a) : bits a = natBits (val a) := by
  unfold bits natBits
  cases hlast : a.getLast? with
  | none =>
    have : a = [] := List.getLast?_eq_none_iff.mp hlast
    subst this; simp [val]
  | some d =>
    obtain ⟨init, rfl⟩ := List.getLast?_eq_some_iff.mp hlast
    have hd0 : d ≠ 0 := by
      intro h; apply ha.2; rw [hlast, h]
    have hdB : d < B := ha.1 d (by simp)
    have hinit := val_lt (ha.1.left)
    have hv : val (init ++ [d]) = val init + B ^ init.length * d := by
      rw [val_append]; simp [val]
    have hpos : 0 < B ^ init.length := Nat.pow_pos B_pos
    have hne : val (init ++ [d]) ≠ 0 := by
      rw [hv]
      have : B ^ init.length * 1 ≤ B ^ init.length * d := Nat.mul_le_mul_left _ (Nat.pos_of_ne_zero hd0)
      omega
    have hL : d.log2 < 64 := (Nat.log2_lt hd0).mpr (by rw [← B_eq]; exact hdB)
    have hlo := Nat.log2_self_le hd0
    have hhi := @Nat.lt_log2_self d
    have hlog : (val (init ++ [d])).log2 = 64 * init.length + d.log2 := by
      rw [Nat.log2_eq_iff hne, hv, B_pow]
      have e1 : 2 ^ (64 * init.length + d.log2) = 2 ^ (64 * init.length) * 2 ^ d.log2 := pow_add _ _ _
      have e2 : 2 ^ (64 * init.length + d.log2 + 1) = 2 ^ (64 * init.length) * 2 ^ (d.log2 + 1) := by
        rw [Nat.add_assoc, pow_add]
      rw [e1, e2]
      rw [B_pow] at hinit
      generalize 2 ^ (64 * init.length) = Q at *
      have h1 : Q * 2 ^ d.log2 ≤ Q * d := Nat.mul_le_mul_left _ hlo
      have h2 : Q * (d + 1) ≤ Q * 2 ^ (d.log2 + 1) := Nat.mul_le_mul_left _ hhi
      rw [Nat.mul_add, Nat.mul_one] at h2
      constructor <;> omega
    simp only [hne, if_false, hlog, bitLen, hd0, List.length_append, List.length_singleton]
    unfold DBITS
    omega

theorem natBits_pos {v : Nat} (h : v ≠ 0) : 0 < natBits v := by
  unfold natBits; simp [h]

/-- `v < 2^(natBits v)`, and `2^(natBits v - 1) ≤ v` for `v ≠ 0`: natBits is the bit length -/
theorem natBits_spec (v : Nat) : v < 2 ^ natBits v ∧ (v ≠ 0 → 2 ^ (natBits v - 1) ≤ v) := by
  unfold natBits
  by_cases h : v = 0
  · subst h; simp
  · simp only [h, if_false]
    exact ⟨Nat.lt_log2_self, fun _ => by simpa using Nat.log2_self_le h⟩

theorem specLen_pos {n : Nat} (h : 0 < n) : 0 < specLen n := by
  unfold specLen WBITS; split <;> omega

theorem cmp_int_nat (x y : Int) (a b : Nat) (h1 : x < y ↔ a < b) (h2 : x = y ↔ a = b) :
    compare x y = compare a b := by
  rcases Nat.lt_trichotomy a b with h | h | h
  · rw [Nat.compare_eq_lt.mpr h, compare_lt_iff_lt]; exact h1.mpr h
  · rw [Nat.compare_eq_eq.mpr h, compare_eq_iff_eq]; exact h2.mpr h
  · rw [Nat.compare_eq_gt.mpr h, compare_gt_iff_gt]
    have : ¬ x < y := fun hh => by have := h1.mp hh; omega
    have : ¬ x = y := fun hh => by have := h2.mp hh; omega
    omega

/-- `impl Ord for BigInt` on canonical values is the order of the integers -/
theorem bigintCmp_spec {a b : BigInt} (ha : a.Canon) (hb : b.Canon) :
    bigintCmp a b = compare a.val b.val := by
  obtain ⟨sa, ma⟩ := a
  obtain ⟨sb, mb⟩ := b
  obtain ⟨hca, hsa⟩ := ha
  obtain ⟨hcb, hsb⟩ := hb
  simp only at hca hsa hcb hsb
  have hpa : sa ≠ .nosign → 0 < val ma := fun h => canon_val_pos hca (fun e => h (hsa.mpr e))
  have hpb : sb ≠ .nosign → 0 < val mb := fun h => canon_val_pos hcb (fun e => h (hsb.mpr e))
  have c1 := cmpSlice_spec hca hcb
  have c2 := cmpSlice_spec hcb hca
  cases sa <;> cases sb <;> simp only [BigInt.val]
  all_goals first
    | (show cmpSlice mb ma = _; rw [c2]; exact (cmp_int_nat _ _ _ _ (by omega) (by omega)).symm)
    | (show cmpSlice ma mb = _; rw [c1]; exact (cmp_int_nat _ _ _ _ (by omega) (by omega)).symm)
    | (show Ordering.lt = _; symm; rw [compare_lt_iff_lt]; have := hpa (by decide); have := hpb (by decide); omega)
    | (show Ordering.lt = _; symm; rw [compare_lt_iff_lt]; have := hpa (by decide); omega)
    | (show Ordering.lt = _; symm; rw [compare_lt_iff_lt]; have := hpb (by decide); omega)
    | (show Ordering.gt = _; symm; rw [compare_gt_iff_gt]; have := hpa (by decide); have := hpb (by decide); omega)
    | (show Ordering.gt = _; symm; rw [compare_gt_iff_gt]; have := hpa (by decide); omega)
    | (show Ordering.gt = _; symm; rw [compare_gt_iff_gt]; have := hpb (by decide); omega)
    | (show Ordering.eq = _; symm; rw [compare_eq_iff_eq])

/-- lift a spec-level result (value as a Nat) to the model's result type -/
def liftU (r : Option (Nat × List Nat)) (off : Nat := 0) : R (List Nat) :=
  .ok (r.map fun (c, t) => (ofNat (off + c), t))

theorem belowLoop_spec (rp : RandParams) (hv : rp.Valid) (n : Nat) (hn : 0 < specLen n)
    (bound : List Nat) (hb : Canon bound) :
    ∀ (fuel : Nat) (tape : Tape), WordsOk tape → tape.length < fuel →
      belowLoop rp n bound fuel tape
        = .ok ((belowSpecLoop n (val bound) fuel tape).map fun (c, t) => (ofNat c, t)) := by
  intro fuel
  induction fuel with
  | zero => intro tape _ h; omega
  | succ f ih =>
    intro tape ht hf
    rw [belowLoop, belowSpecLoop, genBiguint_spec rp hv n tape ht]
    unfold genSpec
    by_cases hs : tape.length < specLen n
    · simp [hs]
    · simp only [hs, if_false, Option.map]
      rw [cmpSlice_spec (ofNat_canon _) hb, ofNat_val]
      by_cases hc : cand n (tape.take (specLen n)) < val bound
      · simp [hc, Nat.compare_eq_lt.mpr hc]
      · have hne : compare (cand n (tape.take (specLen n))) (val bound) ≠ .lt := by
          rw [Ne, Nat.compare_eq_lt]; exact hc
        simp only [hne, hc, if_false]
        exact ih _ (ht.drop _) (by rw [List.length_drop]; omega)

theorem chunk_succ (len k : Nat) (tape : List Nat) :
    chunk len (k + 1) tape = chunk len k (tape.drop len) := by
  unfold chunk
  rw [List.drop_drop]; congr 2; ring

theorem chunk_zero (len : Nat) (tape : List Nat) : chunk len 0 tape = tape.take len := by
  unfold chunk; simp

/-- what the rejection loop computes: the first complete chunk whose candidate is below the
    bound (all earlier candidates are ≥ bound), or nothing when no complete chunk qualifies -/
theorem belowSpecLoop_char (n bound : Nat) (hn : 0 < specLen n) :
    ∀ (fuel : Nat) (tape : List Nat), tape.length < fuel →
      (∃ k, (k + 1) * specLen n ≤ tape.length ∧
            cand n (chunk (specLen n) k tape) < bound ∧
            (∀ j, j < k → bound ≤ cand n (chunk (specLen n) j tape)) ∧
            belowSpecLoop n bound fuel tape
              = some (cand n (chunk (specLen n) k tape), tape.drop ((k + 1) * specLen n)))
      ∨ ((∀ k, (k + 1) * specLen n ≤ tape.length → bound ≤ cand n (chunk (specLen n) k tape)) ∧
          belowSpecLoop n bound fuel tape = none) := by
  intro fuel
  induction fuel with
  | zero => intro tape h; omega
  | succ f ih =>
    intro tape hf
    rw [belowSpecLoop]
    by_cases hs : tape.length < specLen n
    · right
      refine ⟨fun k hk => ?_, by simp [hs]⟩
      have : specLen n ≤ (k + 1) * specLen n := Nat.le_mul_of_pos_left _ (by omega)
      omega
    · simp only [hs, if_false]
      by_cases hc : cand n (tape.take (specLen n)) < bound
      · left
        refine ⟨0, by omega, by rw [chunk_zero]; exact hc, fun j hj => by omega, ?_⟩
        simp [hc, chunk_zero]
      · simp only [hc, if_false]
        rcases ih (tape.drop (specLen n)) (by rw [List.length_drop]; omega) with ⟨k, h1, h2, h3, h4⟩ | ⟨h1, h2⟩
        · left
          refine ⟨k + 1, ?_, by rw [chunk_succ]; exact h2, ?_, ?_⟩
          · rw [List.length_drop] at h1
            have : (k + 1 + 1) * specLen n = (k + 1) * specLen n + specLen n := by ring
            omega
          · intro j hj
            cases j with
            | zero => rw [chunk_zero]; omega
            | succ j => rw [chunk_succ]; exact h3 j (by omega)
          · rw [h4, chunk_succ, List.drop_drop]
            congr 3; ring
        · right
          refine ⟨fun k hk => ?_, h2⟩
          cases k with
          | zero => rw [chunk_zero]; omega
          | succ k =>
            rw [chunk_succ]; apply h1
            rw [List.length_drop]
            have : (k + 1 + 1) * specLen n = (k + 1) * specLen n + specLen n := by ring
            omega


theorem ofNat_eq_nil_iff (c : Nat) : ofNat c = [] ↔ c = 0 := by
  constructor
  · intro h; have := ofNat_val c; rw [h] at this; simpa [val] using this.symm
  · intro h; subst h; unfold ofNat; simp

theorem genBool_eq (t : Tape) : genBool t = boolSpec t := by
  cases t <;> rfl

theorem boolSpec_some {t t2 : List Nat} {b : Bool} (h : boolSpec t = some (b, t2)) :
    t2.length + 1 = t.length ∧ (WordsOk t → WordsOk t2) := by
  cases t with
  | nil => simp [boolSpec] at h
  | cons w r =>
    simp only [boolSpec, Option.some.injEq, Prod.mk.injEq] at h
    obtain ⟨_, rfl⟩ := h
    exact ⟨rfl, fun hw => hw.tail⟩

theorem genSpec_some {n : Nat} {tape t1 : List Nat} {c : Nat} (h : genSpec n tape = some (c, t1)) :
    t1.length + specLen n = tape.length ∧ c = cand n (tape.take (specLen n)) ∧ t1 = tape.drop (specLen n) := by
  unfold genSpec at h
  split at h
  · simp at h
  · simp only [Option.some.injEq, Prod.mk.injEq] at h
    obtain ⟨rfl, rfl⟩ := h
    refine ⟨by rw [List.length_drop]; omega, rfl, rfl⟩

theorem genBigintLoop_spec (rp : RandParams) (hv : rp.Valid) (n : Nat) :
    ∀ (fuel : Nat) (tape : Tape), WordsOk tape → tape.length < fuel →
      genBigintLoop rp n fuel tape
        = .ok ((bigintSpecLoop n fuel tape).map fun (c, t) => (BigInt.ofInt c, t)) := by
  intro fuel
  induction fuel with
  | zero => intro tape _ h; omega
  | succ f ih =>
    intro tape ht hf
    rw [genBigintLoop, bigintSpecLoop, genBiguint_spec rp hv n tape ht]
    cases hg : genSpec n tape with
    | none => rfl
    | some ct =>
      obtain ⟨c, t1⟩ := ct
      obtain ⟨hl1, _, ht1⟩ := genSpec_some hg
      have hw1 : WordsOk t1 := by rw [ht1]; exact ht.drop _
      simp only [Option.map, ofNat_eq_nil_iff, genBool_eq]
      cases hbs : boolSpec t1 with
      | none => by_cases hc : c = 0 <;> simp [hc]
      | some bt =>
        obtain ⟨b, t2⟩ := bt
        obtain ⟨hl2, hw2⟩ := boolSpec_some hbs
        by_cases hc : c = 0
        · subst hc
          simp only [if_true]
          cases b with
          | true => simp only [if_true]; exact ih t2 (hw2 hw1) (by omega)
          | false => simp [BigInt.fromBiguint, BigInt.ofInt]
        · simp only [hc, if_false]
          cases b with
          | true =>
            simp only [if_true, fromBiguint_plus (ofNat_canon c), ofNat_val]
          | false =>
            simp only [Bool.false_eq_true, if_false, fromBiguint_minus (ofNat_canon c), ofNat_val]

/-- every value `gen_bigint(n)` can return lies strictly between −2^n and 2^n -/
theorem bigintSpecLoop_bound (n : Nat) :
    ∀ (fuel : Nat) (tape : List Nat) (v : Int) (rest : List Nat), WordsOk tape →
      bigintSpecLoop n fuel tape = some (v, rest) → -(2 ^ n : Int) < v ∧ v < 2 ^ n := by
  intro fuel
  induction fuel with
  | zero => intro tape v rest _ h; simp [bigintSpecLoop] at h
  | succ f ih =>
    intro tape v rest ht h
    rw [bigintSpecLoop] at h
    cases hg : genSpec n tape with
    | none => simp [hg] at h
    | some ct =>
      obtain ⟨c, t1⟩ := ct
      obtain ⟨hl1, hc, ht1⟩ := genSpec_some hg
      have hw1 : WordsOk t1 := by rw [ht1]; exact ht.drop _
      have hlt : c < 2 ^ n := by
        rw [hc]; exact cand_lt n _ (ht.take _) (by rw [List.length_take]; omega)
      have hpos : (0 : Int) < 2 ^ n := by positivity
      have hlt' : (c : Int) < 2 ^ n := by exact_mod_cast hlt
      simp only [hg] at h
      cases hbs : boolSpec t1 with
      | none => simp [hbs] at h
      | some bt =>
        obtain ⟨b, t2⟩ := bt
        obtain ⟨hl2, hw2⟩ := boolSpec_some hbs
        simp only [hbs] at h
        by_cases hc0 : c = 0
        · simp only [hc0, if_true] at h
          cases b with
          | true => simp only [if_true] at h; exact ih t2 v rest (hw2 hw1) h
          | false =>
            simp only [Bool.false_eq_true, if_false, Option.some.injEq, Prod.mk.injEq] at h
            obtain ⟨rfl, _⟩ := h
            omega
        · simp only [hc0, if_false, Option.some.injEq, Prod.mk.injEq] at h
          obtain ⟨rfl, _⟩ := h
          cases b <;> simp <;> omega


theorem blockCand_zero (n : Nat) (tape : List Nat) : blockCand n 0 tape = cand n (tape.take (specLen n)) := by
  unfold blockCand; simp

theorem blockSign_zero (n : Nat) (tape : List Nat) :
    blockSign n 0 tape = decide (WB / 2 ≤ (tape.drop (specLen n)).headD 0) := by
  unfold blockSign; simp

theorem blockCand_succ (n k : Nat) (tape : List Nat) :
    blockCand n (k + 1) tape = blockCand n k (tape.drop (specLen n + 1)) := by
  unfold blockCand
  rw [List.drop_drop]; congr 3; ring

theorem blockSign_succ (n k : Nat) (tape : List Nat) :
    blockSign n (k + 1) tape = blockSign n k (tape.drop (specLen n + 1)) := by
  unfold blockSign
  rw [List.drop_drop]; congr 4; ring

theorem blockVal_succ (n k : Nat) (tape : List Nat) :
    blockVal n (k + 1) tape = blockVal n k (tape.drop (specLen n + 1)) := by
  unfold blockVal; rw [blockCand_succ, blockSign_succ]

/-- what `gen_bigint(n)` computes: the tape is read in blocks of ⌈n/32⌉ + 1 words; blocks whose
    candidate is zero and whose sign bit is set are skipped (redrawn); the first other complete
    block is returned as ±candidate (zero for a zero candidate); `none` iff every complete block
    is a redraw -/
theorem bigintSpecLoop_char (n : Nat) :
    ∀ (fuel : Nat) (tape : List Nat), tape.length < fuel →
      (∃ k, (k + 1) * (specLen n + 1) ≤ tape.length ∧
            (∀ j, j < k → blockCand n j tape = 0 ∧ blockSign n j tape = true) ∧
            ¬ (blockCand n k tape = 0 ∧ blockSign n k tape = true) ∧
            bigintSpecLoop n fuel tape
              = some (blockVal n k tape, tape.drop ((k + 1) * (specLen n + 1))))
      ∨ ((∀ k, (k + 1) * (specLen n + 1) ≤ tape.length →
              blockCand n k tape = 0 ∧ blockSign n k tape = true) ∧
          bigintSpecLoop n fuel tape = none) := by
  intro fuel
  induction fuel with
  | zero => intro tape h; omega
  | succ f ih =>
    intro tape hf
    rw [bigintSpecLoop]
    unfold genSpec
    by_cases hs : tape.length < specLen n
    · right
      refine ⟨fun k hk => ?_, by simp [hs]⟩
      have : specLen n + 1 ≤ (k + 1) * (specLen n + 1) := Nat.le_mul_of_pos_left _ (by omega)
      omega
    · simp only [hs, if_false]
      cases hd : tape.drop (specLen n) with
      | nil =>
        right
        have hlen : tape.length ≤ specLen n := by
          have := congrArg List.length hd; simp only [List.length_drop, List.length_nil] at this; omega
        refine ⟨fun k hk => ?_, by simp [boolSpec]⟩
        have : specLen n + 1 ≤ (k + 1) * (specLen n + 1) := Nat.le_mul_of_pos_left _ (by omega)
        omega
      | cons w t2 =>
        have hlen : t2.length + 1 + specLen n = tape.length := by
          have := congrArg List.length hd
          simp only [List.length_drop, List.length_cons] at this; omega
        have ht2 : t2 = tape.drop (specLen n + 1) := by
          have : tape.drop (specLen n + 1) = (tape.drop (specLen n)).drop 1 := by
            rw [List.drop_drop]
          rw [this, hd]; rfl
        have hsgn : blockSign n 0 tape = decide (WB / 2 ≤ w) := by
          rw [blockSign_zero, hd]; rfl
        simp only [boolSpec]
        by_cases hz : cand n (tape.take (specLen n)) = 0 ∧ decide (WB / 2 ≤ w) = true
        · obtain ⟨hz1, hz2⟩ := hz
          simp only [hz1, hz2, if_true]
          rcases ih t2 (by omega) with ⟨k, h1, h2, h3, h4⟩ | ⟨h1, h2⟩
          · left
            refine ⟨k + 1, ?_, ?_, ?_, ?_⟩
            · have : (k + 1 + 1) * (specLen n + 1) = (k + 1) * (specLen n + 1) + (specLen n + 1) := by ring
              omega
            · intro j hj
              cases j with
              | zero => rw [blockCand_zero, hsgn]; exact ⟨hz1, hz2⟩
              | succ j => rw [blockCand_succ, blockSign_succ, ← ht2]; exact h2 j (by omega)
            · rw [blockCand_succ, blockSign_succ, ← ht2]; exact h3
            · rw [h4, blockVal_succ, ← ht2, ht2, List.drop_drop]
              congr 3; ring
          · right
            refine ⟨fun k hk => ?_, h2⟩
            cases k with
            | zero => rw [blockCand_zero, hsgn]; exact ⟨hz1, hz2⟩
            | succ k =>
              rw [blockCand_succ, blockSign_succ, ← ht2]; apply h1
              have : (k + 1 + 1) * (specLen n + 1) = (k + 1) * (specLen n + 1) + (specLen n + 1) := by ring
              omega
        · left
          refine ⟨0, by omega, fun j hj => by omega, by rw [blockCand_zero, hsgn]; exact hz, ?_⟩
          have hv : blockVal n 0 tape =
              if cand n (tape.take (specLen n)) = 0 then 0
              else if decide (WB / 2 ≤ w) then (cand n (tape.take (specLen n)) : Int)
                   else -(cand n (tape.take (specLen n)) : Int) := by
            unfold blockVal; rw [blockCand_zero, hsgn]
          rw [hv, Nat.zero_add, Nat.one_mul, ← ht2]
          by_cases hc : cand n (tape.take (specLen n)) = 0
          · have hb : decide (WB / 2 ≤ w) = false := by
              cases hb : decide (WB / 2 ≤ w) with
              | true => exact absurd ⟨hc, hb⟩ hz
              | false => rfl
            simp [hc, hb]
          · simp [hc]

end NB.Rand
