/-
  C14 — operations fail only in their documented cases, and checked variants never panic.

  The model makes every way an operation can go wrong an explicit outcome: a documented panic
  class, or `.internal tag` for every assertion / debug assertion / overflow / precondition /
  fuel-exhaustion site.  Each property's own theorems have the shape
      model op args = (if <documented condition> then .error <documented class> else .ok <exact value>)
  so "fails exactly in the documented cases, never with an internal error, and terminates" is a
  corollary for each operation family.  This file collects those corollaries in one table
  (`Documented x cond cls`), over the theorems of C01–C03, C05–C07, C11, C12, C18.
  What the model cannot exhibit — a fault of the real process, a hang of the real loop — is
  observed by running every stream in the debug AND release profiles under a watchdog.
-/
import NB.Props.C01
import NB.Props.C02
import NB.Props.C03
import NB.Props.C05
import NB.Props.C06
import NB.Props.C07
import NB.Props.C11
import NB.Props.C12
import NB.Props.C13
import NB.Props.C18
namespace NB

/-- `x` fails exactly when `cond` holds, then with class `cls`; otherwise it returns a value.
    In particular it never yields `.internal _` (unless `cls` itself is) and always terminates
    (the model functions are total; fuelled loops have sufficiency theorems). -/
def Documented {α} (x : Except Panic α) (cond : Prop) (cls : Panic) : Prop :=
  (cond → x = .error cls) ∧ (¬ cond → ∃ v, x = .ok v)

theorem documented_of_ite {α} {x : Except Panic α} {cond : Prop} [Decidable cond] {cls : Panic} {v : α}
    (h : x = if cond then .error cls else .ok v) : Documented x cond cls := by
  constructor
  · intro hc; rw [h, if_pos hc]
  · intro hc; exact ⟨v, by rw [h, if_neg hc]⟩

theorem documented_no_internal {α} {x : Except Panic α} {cond : Prop} {cls : Panic}
    (h : Documented x cond cls) (hcls : ∀ t, cls ≠ .internal t) [Decidable cond] (tag : String) :
    x ≠ .error (.internal tag) := by
  by_cases hc : cond
  · rw [h.1 hc]; intro e; injection e with e; exact hcls tag e
  · obtain ⟨v, hv⟩ := h.2 hc; rw [hv]; intro e; cases e

/-- a `checked_*` method / an infallible operation: always returns -/
def NeverFails {α} (x : Except Panic α) : Prop := ∃ v, x = .ok v

/-! ### C01: subtraction below zero is the only failure of + and − -/

theorem c14_sub (P : Params) (a b : List Nat) (ha : Canon a) (hb : Canon b) :
    Documented (subRef P a b) (val a < val b) .underflow :=
  documented_of_ite (subRef_spec P a b ha hb)

theorem c14_sub_refval (P : Params) (a b : List Nat) (ha : Canon a) (hb : Canon b) :
    Documented (subRefVal P a b) (val a < val b) .underflow :=
  documented_of_ite (subRefVal_spec P a b ha hb)

theorem c14_checked_sub (P : Params) (a b : List Nat) (ha : Canon a) (hb : Canon b) :
    NeverFails (checkedSub P a b) := ⟨_, checkedSub_spec P a b ha hb⟩

theorem c14_bigint_add_sub (P : Params) (a b : BigInt) (ha : a.Canon) (hb : b.Canon) :
    NeverFails (BigInt.add P a b) ∧ NeverFails (BigInt.sub P a b) :=
  ⟨⟨_, bigint_add_spec P a b ha hb⟩, ⟨_, bigint_sub_spec P a b ha hb⟩⟩

/-! ### C02: multiplication never fails (no carry-overflow assert, no add2/sub2 failure, fuel suffices) -/

open NB.Mul in
theorem c14_mul (P : Params) (hP : P.ValidMul) (a b : List Nat) (ha : Canon a) (hb : Canon b) :
    NeverFails (mulRef P a b) := ⟨_, mul_spec P hP a b ha hb⟩

/-! ### C03: division fails exactly for a zero divisor; checked forms never fail -/

theorem c14_div_rem (P : Params) (a b : List Nat) (ha : Canon a) (hb : Canon b) :
    Documented (divRemRef P a b) (b = []) .divzero :=
  documented_of_ite (div_rem_spec P a b ha hb)

theorem c14_checked_div (P : Params) (a b : List Nat) (ha : Canon a) (hb : Canon b) :
    NeverFails (checkedDiv P a b) := ⟨_, checkedDiv_spec P a b ha hb⟩

theorem c14_checked_div_rem_euclid (P : Params) (a b : List Nat) (ha : Canon a) (hb : Canon b) :
    NeverFails (checkedDivRemEuclid P a b) := ⟨_, checkedDivRemEuclid_spec P a b ha hb⟩

theorem c14_bigint_div_rem (P : Params) (a b : BigInt) (ha : a.Canon) (hb : b.Canon) :
    Documented (BigInt.divRem P a b) (b.val = 0) .divzero :=
  documented_of_ite (bigint_divRem_spec P a b ha hb)

/-! ### C05: modpow fails exactly for a negative exponent or a zero modulus -/

theorem c14_modpow (P : Params) (hP : P.ValidMonty) (b e m : List Nat) (hb : Canon b) (he : Canon e) (hm : Canon m) :
    Documented (modpowU P b e m) (m = []) .zeromod := by
  constructor
  · intro h; subst h; exact modpow_zero_mod P b e
  · intro h
    have : val m ≠ 0 := fun h0 => h (canon_val_zero hm h0)
    exact ⟨_, modpow_spec P hP b e m hb he hm this⟩

theorem c14_bigint_modpow (P : Params) (hP : P.ValidMonty) (b e m : BigInt) (hb : b.Canon) (he : e.Canon) (hm : m.Canon) :
    (e.val < 0 → BigInt.modpow P b e m = .error .negexp) ∧
    (¬ e.val < 0 → m.val = 0 → BigInt.modpow P b e m = .error .zeromod) ∧
    (¬ e.val < 0 → m.val ≠ 0 → NeverFails (BigInt.modpow P b e m)) := by
  have h := bigint_modpow_spec P hP b e m hb he hm
  refine ⟨fun h1 => by rw [h, if_pos h1], fun h1 h2 => by rw [h, if_neg h1, if_pos h2],
          fun h1 h2 => ⟨_, by rw [h, if_neg h1, if_neg h2]⟩⟩

theorem c14_modinv_zero (a : Nat) : modinvU a 0 = .error .zeromod := modinv_zero_mod a

theorem c14_modinv (a m : Nat) (hm : m ≠ 0) : NeverFails (modinvU a m) := by
  obtain ⟨r, h, _⟩ := modinv_spec a m hm; exact ⟨r, h⟩

/-! ### C06: radix conversions fail exactly for an out-of-range radix -/

open NB.Radix in
theorem c14_to_radix (P : Params) (u : List Nat) (hc : Canon u) (r : Nat) :
    Documented (toRadixLe P u r) (¬ (2 ≤ r ∧ r ≤ 256)) .radix := by
  have h := to_radix_le_outcome P u hc r
  constructor
  · intro hc'; rw [h, if_neg hc']
  · intro hc'; have : 2 ≤ r ∧ r ≤ 256 := Classical.not_not.mp hc'; exact ⟨_, by rw [h, if_pos this]⟩

open NB.Radix in
theorem c14_to_str (P : Params) (x : BigInt) (hc : x.Canon) (r : Nat) :
    Documented (toStrRadixI P x r) (¬ (2 ≤ r ∧ r ≤ 36)) .radix := by
  have h := to_str_outcome P x hc r
  constructor
  · intro hc'; rw [h, if_neg hc']
  · intro hc'; have : 2 ≤ r ∧ r ≤ 36 := Classical.not_not.mp hc'; exact ⟨_, by rw [h, if_pos this]⟩

/-! ### C07: shifts fail exactly for a negative amount (capacity overflow is out of scope) -/

open NB.C07 in
theorem c14_shl (a : List Nat) (k : Int) (ha : Canon a) (hcap : a ≠ [] → k.toNat / BITS < USIZE_RANGE) :
    Documented (biguintShl a k) (k < 0) .negshift :=
  ⟨fun h => shl_negative a k h, fun h => ⟨_, shl_spec a k ha (by omega) hcap⟩⟩

open NB.C07 in
theorem c14_shr_negative (a : List Nat) (k : Int) (hk : k < 0) : biguintShr a k = .error .negshift :=
  shr_negative a k hk

/-! ### C11: roots fail exactly for an even root of a negative number or degree zero -/

open NB.Roots NB.IntVal in
theorem c14_nth_root {S : GuessSrc} (x : Int) (n : Nat)
    (h2 : SqrtOk S x.natAbs) (h3 : CbrtOk S x.natAbs) (h4 : NthOk S x.natAbs n) :
    (x < 0 ∧ n % 2 = 0 → bigintNthRoot S x n = .error .imaginary) ∧
    (¬ (x < 0 ∧ n % 2 = 0) → n = 0 → bigintNthRoot S x n = .error .zeroroot) ∧
    (¬ (x < 0 ∧ n % 2 = 0) → n ≠ 0 → NeverFails (bigintNthRoot S x n)) := by
  have h := bigint_nth_root_spec (S := S) x n h2 h3 h4
  refine ⟨fun h1 => by rw [h, if_pos h1], fun h1 h2' => by rw [h, if_neg h1, if_pos h2'],
          fun h1 h2' => ⟨_, by rw [h, if_neg h1, if_neg h2']⟩⟩

/-! ### C12: pow fails only with the (out-of-scope) capacity class -/

open NB.Pow in
theorem c14_pow_big (f : Form) (x e : Nat) :
    Documented (powBig f x e) (2 ≤ x ∧ 2 ^ 128 ≤ e) .capacity :=
  documented_of_ite (pow_big_spec f x e)

/-! ### C18: bounded sampling fails exactly for a zero bound -/

open NB.Rand in
theorem c14_gen_below (rp : RandParams) (hv : rp.Valid) (bound : List Nat) (hb : Canon bound)
    (tape : Tape) (ht : WordsOk tape) (p : Panic) :
    genBiguintBelow rp bound tape = .error p ↔ p = .emptyrange ∧ val bound = 0 :=
  below_panic_iff rp hv bound hb tape ht p

/- non-vacuity -/
example : Documented (subRef NB.Gen.P [5] [0, 1]) (val [5] < val [0, 1]) .underflow :=
  c14_sub _ _ _ (by decide) (by decide)

end NB
