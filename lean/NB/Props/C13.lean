/-
  C13 — GCD, LCM, Bézout coefficients and multiple-of helpers are exact.

  Model: NB.Model.Gcd (value-level transcription of the gcd family of `impl Integer for BigUint` /
  `impl Integer for BigInt` and of num-integer 0.1.47's default `extended_gcd` loop;
  correspondence-checked against the crate on every run).  Specs are `Nat.gcd`, `Nat.lcm`, `Int.gcd`,
  `Int.lcm`, `∣`, `Int.fmod`.  Every loop takes fuel and the fuel the model passes is proved
  sufficient; every internal panic site of the model (`m -= &n` underflow, division by the gcd,
  `unreachable!()`) is shown unreachable by the equalities below (the result is `.ok …`).
-/
import NB.Lemmas.Gcd
namespace NB
open NB.Gcd NB.IntVal

/-! ### BigUint gcd (Stein) -/

/-- `twos` is the 2-adic valuation -/
theorem twos_valuation {x : Nat} (hx : x ≠ 0) : 2 ^ twos x ∣ x ∧ (x / 2 ^ twos x) % 2 = 1 := twos_spec hx

/-- the loop of Stein's algorithm: for odd `n` and fuel `> m + n` it returns `gcd m n`
    (in particular the in-loop subtraction never underflows and the loop terminates) -/
theorem stein_loop_spec (fuel m n : Nat) (hn : n % 2 = 1) (hf : m + n < fuel) :
    steinLoop fuel m n = .ok (Nat.gcd m n) := steinLoop_spec fuel m n hn hf

/-- `BigUint::gcd` is the greatest common divisor, all operands -/
theorem gcd_spec (a b : Nat) : gcd a b = .ok (Nat.gcd a b) := gcd_ok a b

theorem gcd_zero_cases (a : Nat) : gcd 0 a = .ok a ∧ gcd a 0 = .ok a ∧ gcd 0 0 = .ok 0 := by
  simp [gcd_ok]

/-- `BigUint::lcm`: the division by the gcd never fails -/
theorem lcm_spec (a b : Nat) : lcm a b = .ok (Nat.lcm a b) := lcm_ok a b

/-- `lcm(a,b) = a·b / gcd(a,b)`, and `0` if either operand is `0` -/
theorem lcm_formula (a b : Nat) : Nat.lcm a b = a * b / Nat.gcd a b ∧ Nat.lcm a 0 = 0 ∧ Nat.lcm 0 b = 0 :=
  ⟨rfl, Nat.lcm_zero_right a, Nat.lcm_zero_left b⟩

theorem gcd_lcm_spec (a b : Nat) : gcdLcm a b = .ok (Nat.gcd a b, Nat.lcm a b) := gcdLcm_ok a b

/-! ### BigInt gcd / lcm -/

theorem bigint_gcd_spec (a b : Int) : bigintGcd a b = .ok (Int.gcd a b : Int) := by
  simp only [bigintGcd, gcd_ok, ofMag]; rfl

theorem bigint_lcm_spec (a b : Int) : bigintLcm a b = .ok (Int.lcm a b : Int) := by
  simp only [bigintLcm, lcm_ok, ofMag]; rfl

theorem bigint_gcd_lcm_spec (a b : Int) : bigintGcdLcm a b = .ok ((Int.gcd a b : Int), (Int.lcm a b : Int)) := by
  simp only [bigintGcdLcm, gcdLcm_ok, ofMag]; rfl

/-! ### Bézout coefficients (num-integer's default `extended_gcd` on BigInt) -/

/-- loop invariant `a·sᵢ + b·tᵢ = rᵢ`, gcd preserved, `|r.0|` strictly decreasing -/
theorem egcd_loop_spec (a b : Int) (fuel : Nat) (s0 s1 t0 t1 r0 r1 : Int)
    (h0 : a * s0 + b * t0 = r0) (h1 : a * s1 + b * t1 = r1) (hf : r0.natAbs < fuel) :
    ∃ g x y, egcdLoop fuel s0 s1 t0 t1 r0 r1 = .ok (g, x, y) ∧ a * x + b * y = g ∧ g.natAbs = Int.gcd r0 r1 :=
  egcdLoop_spec a b fuel s0 s1 t0 t1 r0 r1 h0 h1 hf

/-- `extended_gcd` returns `(g, x, y)` with `a·x + b·y = g` and `g = gcd(a, b) ≥ 0`, all signs -/
theorem egcd_spec (a b : Int) :
    ∃ g x y, extendedGcd a b = .ok (g, x, y) ∧ a * x + b * y = g ∧ g = (Int.gcd a b : Int) := by
  obtain ⟨x, y, e, h⟩ := extendedGcd_ok a b
  exact ⟨_, x, y, e, h, rfl⟩

/-- `BigInt::extended_gcd_lcm`: same identities plus the lcm -/
theorem egcd_lcm_spec (a b : Int) :
    ∃ g x y l, extendedGcdLcm a b = .ok ((g, x, y), l) ∧ a * x + b * y = g ∧ g = (Int.gcd a b : Int) ∧
      l = (Int.lcm a b : Int) := by
  obtain ⟨x, y, e, h⟩ := extendedGcd_ok a b
  unfold extendedGcdLcm
  rw [e]
  simp only
  by_cases hg : ((Int.gcd a b : Nat) : Int) = 0
  · rw [if_pos hg]
    refine ⟨_, x, y, _, rfl, h, rfl, ?_⟩
    have : Int.gcd a b = 0 := by exact_mod_cast hg
    obtain ⟨rfl, rfl⟩ := Int.gcd_eq_zero_iff.mp this
    simp
  · rw [if_neg hg]
    have hn : Nat.gcd a.natAbs b.natAbs ≠ 0 := by
      intro h0; apply hg; show ((Nat.gcd a.natAbs b.natAbs : Nat) : Int) = 0; rw [h0]; rfl
    have e2 : ((Int.gcd a b : Nat) : Int).natAbs = Nat.gcd a.natAbs b.natAbs := by
      rw [Int.natAbs_natCast]; rfl
    simp only [udiv, e2, hn, if_false, div_gcd_mul _ _ hn, ofMag]
    exact ⟨_, x, y, _, rfl, h, rfl, rfl⟩

/-! ### multiples -/

/-- `BigUint::is_multiple_of` is divisibility; only zero is a multiple of zero -/
theorem is_multiple_of_spec (a b : Nat) : isMultipleOf a b = .ok (decide (b ∣ a)) := isMultipleOf_ok a b

theorem multiple_of_zero (a : Nat) : isMultipleOf a 0 = .ok (decide (a = 0)) := by
  simp [isMultipleOf]

theorem bigint_is_multiple_of_spec (a b : Int) : bigintIsMultipleOf a b = .ok (decide (b ∣ a)) := by
  unfold bigintIsMultipleOf
  rw [isMultipleOf_ok]
  congr 1
  exact decide_eq_decide.mpr Int.natAbs_dvd_natAbs

theorem bigint_multiple_of_zero (a : Int) : bigintIsMultipleOf a 0 = .ok (decide (a = 0)) := by
  rw [bigint_is_multiple_of_spec]
  congr 1
  exact decide_eq_decide.mpr Int.zero_dvd

/-- `BigUint::next_multiple_of`: panics (division by zero) iff `b = 0`; otherwise the least multiple `≥ a` -/
theorem next_multiple_spec (a b : Nat) :
    nextMultipleOf a b = if b = 0 then .error .divzero else .ok ((a + b - 1) / b * b) := by
  unfold nextMultipleOf umod usub
  by_cases hb : b = 0
  · simp [hb]
  · simp only [hb, if_false]
    have hlt := Nat.mod_lt a (show b > 0 by omega)
    have hdm := Nat.div_add_mod a b
    by_cases hm : a % b = 0
    · simp only [hm, if_true]
      congr 1
      have : (a + b - 1) / b = a / b := by
        apply Nat.div_eq_of_lt_le
        · rw [Nat.mul_comm]; omega
        · have : (a / b + 1) * b = b * (a / b) + b := by ring
          omega
      rw [this, Nat.mul_comm]; omega
    · simp only [hm, if_false]
      have : ¬ (b < a % b) := by omega
      simp only [this, if_false]
      congr 1
      have : (a + b - 1) / b = a / b + 1 := by
        apply Nat.div_eq_of_lt_le
        · have : (a / b + 1) * b = b * (a / b) + b := by ring
          omega
        · have : (a / b + 1 + 1) * b = b * (a / b) + b + b := by ring
          omega
      rw [this]
      have : (a / b + 1) * b = b * (a / b) + b := by ring
      omega

/-- characterisation: the result is the least multiple of `b` that is `≥ a` -/
theorem next_multiple_char (a b : Nat) (hb : b ≠ 0) :
    b ∣ (a + b - 1) / b * b ∧ a ≤ (a + b - 1) / b * b ∧ (a + b - 1) / b * b < a + b := by
  refine ⟨Nat.dvd_mul_left _ _, ?_, ?_⟩
  · have := Nat.div_add_mod (a + b - 1) b
    have := Nat.mod_lt (a + b - 1) (show b > 0 by omega)
    rw [Nat.mul_comm]; omega
  · have := Nat.div_mul_le_self (a + b - 1) b
    omega

/-- `BigUint::prev_multiple_of`: panics iff `b = 0` (and never underflows); otherwise the greatest multiple `≤ a` -/
theorem prev_multiple_spec (a b : Nat) :
    prevMultipleOf a b = if b = 0 then .error .divzero else .ok (a / b * b) := by
  unfold prevMultipleOf umod usub
  by_cases hb : b = 0
  · simp [hb]
  · simp only [hb, if_false]
    have hle := Nat.mod_le a b
    have hdm := Nat.div_add_mod a b
    have : ¬ (a < a % b) := by omega
    simp only [this, if_false]
    congr 1
    rw [Nat.mul_comm]; omega

theorem prev_multiple_char (a b : Nat) (hb : b ≠ 0) : b ∣ a / b * b ∧ a / b * b ≤ a ∧ a < a / b * b + b := by
  refine ⟨Nat.dvd_mul_left _ _, Nat.div_mul_le_self a b, ?_⟩
  have := Nat.div_add_mod a b
  have := Nat.mod_lt a (show b > 0 by omega)
  rw [Nat.mul_comm]; omega

/-- `BigInt::mod_floor` (as coded: magnitude remainder, sign table, `other - m`) is `Int.fmod` -/
theorem bigint_mod_floor_spec (a b : Int) :
    bigintModFloor a b = if b = 0 then .error .divzero else .ok (Int.fmod a b) := by
  by_cases hb : b = 0
  · subst hb; rw [if_pos rfl]; exact bigintModFloor_zero a
  · rw [if_neg hb]; exact bigintModFloor_ok a hb

/-- `BigInt::next_multiple_of` as coded: `a + ((-a) fmod b)` — the nearest multiple of `b` at or above
    `a` for `b > 0`, at or below `a` for `b < 0`; panics iff `b = 0` -/
theorem bigint_next_multiple_spec (a b : Int) :
    bigintNextMultipleOf a b = if b = 0 then .error .divzero else .ok (a + Int.fmod (-a) b) := by
  unfold bigintNextMultipleOf
  rw [bigint_mod_floor_spec]
  by_cases hb : b = 0
  · simp [hb]
  · simp only [hb, if_false]
    rw [fmod_neg_left a hb]
    by_cases h0 : Int.fmod a b = 0
    · simp [h0]
    · simp [h0]

theorem bigint_next_multiple_char (a b : Int) (hb : b ≠ 0) :
    b ∣ a + Int.fmod (-a) b ∧ (0 < b → a ≤ a + Int.fmod (-a) b ∧ a + Int.fmod (-a) b < a + b) ∧
    (b < 0 → a + b < a + Int.fmod (-a) b ∧ a + Int.fmod (-a) b ≤ a) := by
  obtain ⟨h1, h2, h3⟩ := fmod_decomp (-a) hb
  refine ⟨⟨- Int.fdiv (-a) b, ?_⟩, fun h => by have := h2 h; omega, fun h => by have := h3 h; omega⟩
  generalize Int.fmod (-a) b = m at *
  generalize Int.fdiv (-a) b = q at *
  linarith

/-- `BigInt::prev_multiple_of` as coded: `a - (a fmod b)`; panics iff `b = 0` -/
theorem bigint_prev_multiple_spec (a b : Int) :
    bigintPrevMultipleOf a b = if b = 0 then .error .divzero else .ok (a - Int.fmod a b) := by
  unfold bigintPrevMultipleOf
  rw [bigint_mod_floor_spec]
  by_cases hb : b = 0
  · simp [hb]
  · simp [hb]

theorem bigint_prev_multiple_char (a b : Int) (hb : b ≠ 0) :
    b ∣ a - Int.fmod a b ∧ (0 < b → a - b < a - Int.fmod a b ∧ a - Int.fmod a b ≤ a) ∧
    (b < 0 → a ≤ a - Int.fmod a b ∧ a - Int.fmod a b < a - b) := by
  obtain ⟨h1, h2, h3⟩ := fmod_decomp a hb
  refine ⟨⟨Int.fdiv a b, ?_⟩, fun h => by have := h2 h; omega, fun h => by have := h3 h; omega⟩
  generalize Int.fmod a b = m at *
  generalize Int.fdiv a b = q at *
  linarith

/-! ### parity, inc, dec -/

/-- `is_even` (first digit only) is the parity of the value -/
theorem is_even_spec (ds : List Nat) : isEven ds = decide (val ds % 2 = 0) := isEven_ok ds

theorem is_odd_spec (ds : List Nat) : isOdd ds = decide (val ds % 2 = 1) := by
  unfold isOdd
  rw [isEven_ok]
  by_cases h : val ds % 2 = 0
  · simp [h]
  · have : val ds % 2 = 1 := by omega
    simp [this]

theorem inc_spec (a : Nat) : inc a = .ok (a + 1) := rfl

/-- `dec` on BigUint zero is the subtraction-underflow panic -/
theorem dec_spec (a : Nat) : dec a = if a = 0 then .error .underflow else .ok (a - 1) := by
  unfold dec usub
  by_cases h : a = 0
  · simp [h]
  · have : ¬ a < 1 := by omega
    simp [h, this]

theorem bigint_inc_dec_spec (a : Int) : bigintInc a = .ok (a + 1) ∧ bigintDec a = .ok (a - 1) := ⟨rfl, rfl⟩

/-! ### non-vacuity / concrete evaluations of the model -/

example : gcd 48 180 = .ok 12 := by decide
example : gcd (3 * 2 ^ 70) (5 * 2 ^ 67) = .ok (2 ^ 67) := by decide
example : extendedGcd 240 (-46) = .ok (2, -9, -47) := by decide
example : (240 : Int) * (-9) + (-46) * (-47) = 2 := by decide
example : bigintNextMultipleOf 23 (-8) = .ok 16 := by decide
example : bigintModFloor (-7) 3 = .ok 2 := by decide

end NB
