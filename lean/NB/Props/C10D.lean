/-
  C10, one layer down — the DIGIT-level scalar leaves (NB.Model.ScalarD, namespace `NB.SD`) compute the
  value-level leaves of NB.Model.Scalar.

  NB.Props.C10 proves the value-level leaf impls (`uMulAssign`, `uDiv`, `iAddU`, …: the case analysis of the
  Rust source over mathematical `+ - * / %`) equal to the canonical big-by-big operations
  (`uScalarForm_spec`, `iScalarForm_spec`).  Here every leaf is re-stated on digit vectors, with each
  BigUint operator replaced by its digit-level model, and proved to REFINE the value-level leaf:

      digitLeaf P … a …  =  (valueLeaf … (val a) …).map ofNat            (BigUint; `a` canonical)
      digitLeaf P … a …  =  (valueLeaf … (toV a) …).map ofV              (BigInt;  `a` canonical)

  for every scalar value of the leaf type, under `P.ValidMul` where `mul3` is involved
  (`gen_params_valid_mul` instantiates it).  The operator theorems used: `dAddAssign_spec`,
  `dSubAssign_spec`, `dSubRev_spec` (C10 over C01), `scalar_mul_val`, `mul3_spec` (C02),
  `divRemDigit_spec'`, `remDigit_spec'`, `divRemVal_spec'` (the statements of C03's `div_rem_digit_spec`,
  `rem_digit_spec`, `div_rem_val_spec`, taken from NB.Lemmas.Div), `biguint_to_spec`, `bigint_from_val` (C08),
  `cmpSlice_spec`, `fromU64_eq_ofNat`, `fromU128_eq_ofNat`.

  Headline: `dUScalarForm_refines`, `dIScalarForm_refines` (the whole promotion + leaf routing), and the
  transferred specs `dUScalarForm_spec`, `dIScalarForm_spec`: every `+ - * / %` form with a primitive scalar, on
  digit vectors, returns the canonical digits of the canonical operation (or its panic class).
  Nothing here is `_partial`.  The driver (NB.Drv.C10) computes the model column of these forms with
  `NB.SD.uScalarForm` / `NB.SD.iScalarForm` / `NB.SD.dRemAssignScalar`.

  Second part — THE REMAINING FORMS (shifts, Pow, big ∘ big, checked_*, Sum / Product), which the driver also
  computes on digit vectors (second part of NB.Model.ScalarD, NB.Model.PowD):
    dUShl_refines, dUShr_refines                      `NB.C07.biguintShl/Shr a k = (uShl/uShr (val a) k).map ofNat`
                                                      for EVERY amount `k : Int` (negshift, capacity overflow included)
    dIShl_refines, dIShlAssign_refines, dIShr_refines, dIShrAssign_refines
                                                      `NB.C07.BigInt.shl/… a k = (iShl/… (toV a) k).map ofV`
                                                      (`shr_round_down`, the `+ 1u8`, the sign fix of `>>=`)
    dShift_spec_u, dShift_spec_i                      transferred: `a·2^k`, `⌊a / 2^k⌋` (toward −∞), or the panic class
    dUPow_refines, dIPow_refines, dUPowBig_refines, dIPowBig_refines
                                                      `NB.PowD.*` (4 operand forms) = `powPrim`, `iPow`, `uPowBig`, `iPowBig`
    dUBin_refines, dIBin_refines                      `&a ∘ &b` on digits = the value-level `uBin` / `iBin` of NB.Drv.C10
                                                      (`+ - * / % & | ^` for BigUint, `+ - * / %` for BigInt)
    dIBin_spec                                        all eight BigInt operators against `Int` `+ - * tdiv tmod land lor xor`
    dUChecked_spec, dIChecked_spec                    `checked_add/sub/mul/div`: `None` iff `a < b` / zero divisor
    dUSum_spec, dUProduct_spec, dISum_spec, dIProduct_spec
                                                      the folds over big and scalar items = `ofNat (Σ)`, `ofNat (Π)`, …
  Hypotheses beyond canonicity: `P.ValidMul` where a multiplication occurs (`gen_params_valid_mul`), and for
  `>>`: the operand has fewer than 2^64 bits / digits (`hlen`, as `shr_spec` / `bigint_shr_spec` of C07 need —
  a `Vec` cannot be longer).  Operator theorems used: C01 `addRef_spec`, `addAssign_spec`, `subRef_spec`,
  `checkedSub_spec`, `bigint_add_spec`, `bigint_sub_spec`; C02 `mul_spec`, `bigint_mul_spec`; C03 `divRef_spec`,
  `remRef_spec`, `checkedDiv_spec`, `bigint_div_spec`, `bigint_rem_spec`, `bigint_checkedDiv_spec`; C07 `shl_spec`,
  `shl_capacity`, `shl_negative`, `shr_spec`, `shr_negative`, `bigint_shr_spec`, `bigint_shr_negative`,
  `bigint_shrAssign_spec`, `shrRoundDown_no_internal`, `andRef_spec` …, `bigint_andRef_spec` …; C12 `powD_spec`,
  `pow_bigD_spec`, `bigint_powD_spec`, `bigint_pow_bigD_spec`.
  Not linked: the driver's former value-level sign-case formulas `iBit` for BigInt `& | ^` (no theorem existed about
  them); `dIBin_spec` states these three operators directly against Mathlib's `Int.land / lor / xor`.
-/
import NB.Props.C10
import NB.Props.C01
import NB.Props.C02
import NB.Props.C03
import NB.Props.C07
import NB.Props.C08
import NB.Props.C12
import NB.Lemmas.Div
import NB.Lemmas.ScalarD
namespace NB
open NB.Conv

/-! ## BigUint leaves -/

theorem two_digits_ok {s : Nat} (hs : s < B * B) : DigitsOk [s % B, s / B] :=
  DigitsOk.cons (Nat.mod_lt _ B_pos) (DigitsOk.cons (Nat.div_lt_of_lt_mul hs) DigitsOk.nil)

theorem two_digits_val (s : Nat) : val [s % B, s / B] = s := by
  simp only [val, Nat.mul_zero, Nat.add_zero]; exact Nat.mod_add_div s B

/-- `MulAssign<u32|u64|u128> for BigUint` on digits (`scalar_mul`, or `mul3` with the two-digit operand
    `[lo, hi]`) returns the canonical digits of the value-level leaf, i.e. of `a * s` -/
theorem dMulAssign_spec (t : STy) (P : Params) (hP : P.ValidMul) (a : List Nat) (s : Nat) (ha : Canon a)
    (hs : s < SD.bound t) :
    SD.dMulAssign t P a s = .ok (ofNat (uMulAssign t (val a) s)) := by
  rw [uMulAssign_spec]
  unfold SD.dMulAssign
  cases t <;> simp only [SD.bound, reduceCtorEq, if_false, if_true] at hs <;>
    try (simp only []; rw [scalar_mul_val a s ha hs])
  by_cases h : s < B
  · simp only [h, if_true]; rw [scalar_mul_val a s ha h]
  · simp only [h, if_false]
    rw [mul3_spec P hP a _ ha.1 (two_digits_ok hs), two_digits_val]

theorem ofNat_ne_nil {n : Nat} (h : n ≠ 0) : ofNat n ≠ [] := fun e => h ((SD.ofNat_eq_nil_iff n).1 e)

/-- `div_rem(self, From::from(other))` for a scalar divisor -/
theorem divRemVal_scalar (P : Params) (a : List Nat) (t : STy) (s : Nat) (ha : Canon a) :
    divRemVal P a (SD.uFrom t s) =
      if s = 0 then .error .divzero else .ok (ofNat (val a / s), ofNat (val a % s)) := by
  rw [SD.uFrom_eq, divRemVal_spec' P a _ ha (ofNat_canon s), ofNat_val]
  by_cases h : s = 0
  · subst h; simp [SD.ofNat_zero]
  · simp only [ofNat_ne_nil h, h, if_false]

/-- `Div<u32> for BigUint` through `div_rem_digit`, `Div<u64|u128>` through `From` + `div_rem` -/
theorem dDiv_spec (t : STy) (P : Params) (a : List Nat) (s : Nat) (ha : Canon a) :
    SD.dDiv t P a s = (uDiv t (val a) s).map ofNat := by
  rw [uDiv_spec]
  have gen : (divRemVal P a (SD.uFrom t s)).map (·.1)
      = (if s = 0 then Except.error Panic.divzero else .ok (val a / s)).map ofNat := by
    rw [divRemVal_scalar P a t s ha]; split <;> rfl
  unfold SD.dDiv
  cases t <;> simp only [] <;> try exact gen
  by_cases h : s = 0
  · subst h; simp [divRemDigit, Except.map]
  · rw [divRemDigit_spec' a s ha.1 h]; simp only [h, if_false]; rfl

/-- `Rem<u32> for &BigUint` through `rem_digit`, `Rem<u64|u128>` through `From` + `div_rem` -/
theorem dRem_spec (t : STy) (P : Params) (a : List Nat) (s : Nat) (ha : Canon a) :
    SD.dRem t P a s = (uRem t (val a) s).map ofNat := by
  rw [uRem_spec]
  have gen : (divRemVal P a (SD.uFrom t s)).map (·.2)
      = (if s = 0 then Except.error Panic.divzero else .ok (val a % s)).map ofNat := by
    rw [divRemVal_scalar P a t s ha]; split <;> rfl
  unfold SD.dRem
  cases t <;> simp only [] <;> try exact gen
  by_cases h : s = 0
  · subst h; simp [remDigit, Except.map]
  · rw [remDigit_spec' a s ha.1 h]; simp only [h, if_false]
    show Except.ok (U.fromU64 (val a % s)) = _
    rw [fromU64_eq_ofNat]; rfl

/-- `Div<BigUint> for u32|u64|u128` through the digit-count match: a normalised divisor never hits the
    primitive division-by-zero, more digits than the scalar type holds give quotient zero -/
theorem dDivRev_spec (t : STy) (s : Nat) (a : List Nat) (ha : Canon a) :
    SD.dDivRev t s a = (uDivRev t s (val a)).map ofNat := by
  have h1 : ∀ d0, Canon [d0] → d0 ≠ 0 ∧ val [d0] = d0 := by
    intro d0 h; exact ⟨(canon_singleton h).1, by simp [val]⟩
  have h2 : ∀ d0 d1, Canon [d0, d1] → d1 * B + d0 ≠ 0 ∧ val [d0, d1] = d1 * B + d0 := by
    intro d0 d1 h
    have hd1 : d1 ≠ 0 := by
      intro e; subst e; exact h.2 (by simp)
    refine ⟨?_, by simp [val]; ring⟩
    have : 0 < d1 * B := Nat.mul_pos (Nat.pos_of_ne_zero hd1) B_pos
    omega
  unfold SD.dDivRev uDivRev
  rw [SD.nd_val ha]
  rcases a with _ | ⟨d0, _ | ⟨d1, _ | ⟨d2, r⟩⟩⟩
  · cases t <;> rfl
  · obtain ⟨hne, hv⟩ := h1 d0 ha
    cases t <;> simp only [List.length, hne, if_false, hv, Except.map, fromU64_eq_ofNat, fromU128_eq_ofNat]
  · obtain ⟨hne, hv⟩ := h2 d0 d1 ha
    cases t <;> simp only [List.length, hne, if_false, hv, Except.map, fromU128_eq_ofNat, SD.ofNat_zero]
  · cases t <;> simp only [List.length, Except.map, SD.ofNat_zero]

/-- `impl_rem_assign_scalar!` on digits (digit-level `to_T`, `BigInt::from(*self).magnitude() == other` as
    digit-vector equality) is the value-level leaf — for all 12 scalar types and every scalar value -/
theorem dRemAssignScalar_spec (t : STy) (s : Int) (a : List Nat) (ha : Canon a) (h : t.InRange s) :
    SD.dRemAssignScalar t s a = remAssignScalar t s (val a) := by
  unfold SD.dRemAssignScalar remAssignScalar toT
  rw [biguint_to_spec (SD.pty t) a ha, SD.pty_minV, SD.pty_maxV]
  have hlo : t.lo ≤ (val a : Int) := le_trans (SD.lo_nonpos t) (by omega)
  by_cases hfit : (val a : Int) ≤ t.hi
  · simp only [hlo, hfit, and_self, if_true]
    rcases hv : val a with _ | n
    · simp
    · have : ¬ (((n + 1 : Nat) : Int) = 0) := by omega
      simp only [this, if_false]
  · simp only [hlo, hfit, and_false, if_false]
    rw [bigint_from_val (SD.pty t) s ((SD.pty_inRange t s).2 h)]
    simp only [SD.ofInt_mag]
    by_cases he : magOf s = val a
    · have he' : s.natAbs = val a := he
      have : ofNat s.natAbs = a := by rw [he']; exact (canon_eq_ofNat ha).symm
      rw [if_pos this, if_pos he]
    · have : ¬ ofNat s.natAbs = a := by
        intro e; apply he; rw [← e, ofNat_val]; rfl
      rw [if_neg this, if_neg he]

/-- `Rem<&BigUint> for u32`, `Rem<BigUint> for u64|u128` on digits -/
theorem dRemRev_spec (t : STy) (s : Nat) (a : List Nat) (ha : Canon a) (hs : t.InRange (s : Int)) :
    SD.dRemRev t s a = (uRemRev t s (val a)).map ofNat := by
  unfold SD.dRemRev uRemRev
  rw [dRemAssignScalar_spec t s a ha hs, SD.map_map]
  exact SD.map_congr _ (fun r => SD.uFrom_eq t _)

/-! ## BigInt ± scalar -/

theorem bigint_neg_canon {a : BigInt} (h : a.Canon) : a.neg.Canon := by
  obtain ⟨sg, m⟩ := a
  obtain ⟨hc, hs⟩ := h
  refine ⟨hc, ?_⟩
  simp only [BigInt.neg] at hs ⊢
  rw [← hs]
  cases sg <;> simp [Sign.neg]

/-- `Add<u32|u64|u128> for BigInt` on digits: sign match, `cmp_slice` against `From::from(other)`, the
    digit-level `+=`, `-=`, `scalar - big` -/
theorem iAddU_refines (t : STy) (P : Params) (a : BigInt) (u : Nat) (ha : a.Canon) (hu : u < SD.bound t) :
    SD.iAddU t P a u = (iAddU t (SD.toV a) u).map SD.ofV := by
  obtain ⟨sg, m⟩ := a
  obtain ⟨hc, _⟩ := ha
  simp only at hc
  cases sg <;> simp only [SD.iAddU, iAddU, SD.toV]
  · rw [SD.cmpSlice_ofNat hc]
    cases cmpNat (val m) u <;> simp only []
    · rw [dSubRev_spec t u m hc hu]; exact SD.map_ofNat_ofV _ _ _ SD.fromBiguint_ofNat
    · show Except.ok _ = Except.ok _
      rw [SD.ofV_zero]
    · rw [dSubAssign_spec t P m u hc hu]
      exact SD.map_ofNat_ofV _ _ _ (fun n => by rw [SD.fromBiguint_ofNat, SD.ofV_neg])
  · show Except.ok _ = Except.ok _
    rw [SD.iFromU_eq]
  · rw [dAddAssign_spec t P m u hc hu]
    show Except.ok _ = Except.ok _
    rw [SD.fromBiguint_ofNat]

/-- `Sub<u32|u64|u128> for BigInt` on digits -/
theorem iSubU_refines (t : STy) (P : Params) (a : BigInt) (u : Nat) (ha : a.Canon) (hu : u < SD.bound t) :
    SD.iSubU t P a u = (iSubU t (SD.toV a) u).map SD.ofV := by
  obtain ⟨sg, m⟩ := a
  obtain ⟨hc, _⟩ := ha
  simp only at hc
  cases sg <;> simp only [SD.iSubU, iSubU, SD.toV]
  · rw [dAddAssign_spec t P m u hc hu]
    show Except.ok _ = Except.ok _
    rw [SD.fromBiguint_ofNat, SD.ofV_neg]
  · show Except.ok _ = Except.ok _
    rw [SD.iFromU_eq, SD.ofV_neg]
  · rw [SD.cmpSlice_ofNat hc]
    cases cmpNat (val m) u <;> simp only []
    · rw [dSubRev_spec t u m hc hu]
      exact SD.map_ofNat_ofV _ _ _ (fun n => by rw [SD.fromBiguint_ofNat, SD.ofV_neg])
    · show Except.ok _ = Except.ok _
      rw [SD.ofV_zero]
    · rw [dSubAssign_spec t P m u hc hu]; exact SD.map_ofNat_ofV _ _ _ SD.fromBiguint_ofNat

/-- `Sub<BigInt> for u32|u64|u128` on digits -/
theorem uSubI_refines (t : STy) (P : Params) (u : Nat) (a : BigInt) (ha : a.Canon) (hu : u < SD.bound t) :
    SD.uSubI t P u a = (uSubI t u (SD.toV a)).map SD.ofV := by
  unfold SD.uSubI uSubI
  rw [iSubU_refines t P a u ha hu, SD.map_map, SD.map_map]
  exact SD.map_congr _ (fun v => SD.ofV_neg v)

/-- what `checked_uabs` hands to the unsigned leaf fits the leaf's digit bound and its type -/
theorem uabs_bound (t : STy) (s : Int) (ht : t.signed = true) (h : t.InRange s) :
    (checkedUabs t s = .positive s ∧ s.toNat < SD.bound t.unsignedOf ∧ t.unsignedOf.InRange (s.toNat : Int)) ∨
    (checkedUabs t s = .negative (-s) ∧ (-s).toNat < SD.bound t.unsignedOf ∧
      t.unsignedOf.InRange ((-s).toNat : Int)) := by
  have hfit := (uabs_spec t s ht h).2
  have hus : t.unsignedOf.signed = false := by cases t <;> simp [STy.signed] at ht <;> rfl
  rcases uabs_cases t s ht h with ⟨hpos, e, hc⟩ | ⟨hneg, e, hc⟩
  · left
    rw [abs_of_nonneg hpos] at hfit
    exact ⟨e, SD.bound_of_inRange _ hus s hfit, by rw [hc]; exact hfit⟩
  · right
    rw [abs_of_neg hneg] at hfit
    exact ⟨e, SD.bound_of_inRange _ hus (-s) hfit, by rw [hc]; exact hfit⟩

theorem iAddS_refines (t : STy) (P : Params) (a : BigInt) (s : Int) (ht : t.signed = true) (h : t.InRange s)
    (ha : a.Canon) : SD.iAddS t P a s = (iAddS t (SD.toV a) s).map SD.ofV := by
  unfold SD.iAddS iAddS
  rcases uabs_bound t s ht h with ⟨e, hb, _⟩ | ⟨e, hb, _⟩ <;> rw [e] <;> simp only []
  · exact iAddU_refines _ P a _ ha hb
  · exact iSubU_refines _ P a _ ha hb

theorem iSubS_refines (t : STy) (P : Params) (a : BigInt) (s : Int) (ht : t.signed = true) (h : t.InRange s)
    (ha : a.Canon) : SD.iSubS t P a s = (iSubS t (SD.toV a) s).map SD.ofV := by
  unfold SD.iSubS iSubS
  rcases uabs_bound t s ht h with ⟨e, hb, _⟩ | ⟨e, hb, _⟩ <;> rw [e] <;> simp only []
  · exact iSubU_refines _ P a _ ha hb
  · exact iAddU_refines _ P a _ ha hb

theorem sSubI_refines (t : STy) (P : Params) (s : Int) (a : BigInt) (ht : t.signed = true) (h : t.InRange s)
    (ha : a.Canon) : SD.sSubI t P s a = (sSubI t s (SD.toV a)).map SD.ofV := by
  unfold SD.sSubI sSubI
  rcases uabs_bound t s ht h with ⟨e, hb, _⟩ | ⟨e, hb, _⟩ <;> rw [e] <;> simp only []
  · exact uSubI_refines _ P _ a ha hb
  · exact iSubU_refines _ P a.neg _ (bigint_neg_canon ha) hb

/-! ## BigInt * scalar -/

theorem iMulU_refines (t : STy) (P : Params) (hP : P.ValidMul) (a : BigInt) (u : Nat) (ha : a.Canon)
    (hu : u < SD.bound t) : SD.iMulU t P a u = .ok (SD.ofV (iMulU t (SD.toV a) u)) := by
  unfold SD.iMulU iMulU
  rw [dMulAssign_spec t P hP a.mag u ha.1 hu]
  show Except.ok _ = Except.ok _
  rw [SD.bigFromBiguint_ofNat]; rfl

theorem iMulAssignU_refines (t : STy) (P : Params) (hP : P.ValidMul) (a : BigInt) (u : Nat) (ha : a.Canon)
    (hu : u < SD.bound t) : SD.iMulAssignU t P a u = .ok (SD.ofV (iMulAssignU t (SD.toV a) u)) := by
  unfold SD.iMulAssignU iMulAssignU
  rw [dMulAssign_spec t P hP a.mag u ha.1 hu]
  show Except.ok _ = Except.ok _
  rw [SD.fixZero_ofNat]; rfl

theorem iMulS_refines (t : STy) (P : Params) (hP : P.ValidMul) (a : BigInt) (s : Int) (ht : t.signed = true)
    (h : t.InRange s) (ha : a.Canon) : SD.iMulS t P a s = .ok (SD.ofV (iMulS t (SD.toV a) s)) := by
  unfold SD.iMulS iMulS
  rcases uabs_bound t s ht h with ⟨e, hb, _⟩ | ⟨e, hb, _⟩ <;> rw [e] <;> simp only []
  · exact iMulU_refines _ P hP a _ ha hb
  · exact iMulU_refines _ P hP a.neg _ (bigint_neg_canon ha) hb

theorem iMulAssignS_refines (t : STy) (P : Params) (hP : P.ValidMul) (a : BigInt) (s : Int)
    (ht : t.signed = true) (h : t.InRange s) (ha : a.Canon) :
    SD.iMulAssignS t P a s = .ok (SD.ofV (iMulAssignS t (SD.toV a) s)) := by
  unfold SD.iMulAssignS iMulAssignS
  rcases uabs_bound t s ht h with ⟨e, hb, _⟩ | ⟨e, hb, _⟩ <;> rw [e] <;> simp only []
  · exact iMulAssignU_refines _ P hP a _ ha hb
  · rw [dMulAssign_spec _ P hP a.mag _ ha.1 hb]; rfl

/-! ## BigInt / scalar, scalar / BigInt, BigInt % scalar, scalar % BigInt -/

theorem iDivU_refines (t : STy) (P : Params) (a : BigInt) (u : Nat) (ha : a.Canon) :
    SD.iDivU t P a u = (iDivU t (SD.toV a) u).map SD.ofV := by
  unfold SD.iDivU iDivU
  rw [dDiv_spec t P a.mag u ha.1]
  exact SD.map_ofNat_ofV _ _ _ (SD.bigFromBiguint_ofNat a.sign)

theorem iDivAssignU_refines (t : STy) (P : Params) (a : BigInt) (u : Nat) (ha : a.Canon) :
    SD.iDivAssignU t P a u = (iDivAssignU t (SD.toV a) u).map SD.ofV := by
  unfold SD.iDivAssignU iDivAssignU
  rw [dDiv_spec t P a.mag u ha.1]
  exact SD.map_ofNat_ofV _ _ _ (SD.fixZero_ofNat a.sign)

theorem uDivI_refines (t : STy) (u : Nat) (a : BigInt) (ha : a.Canon) :
    SD.uDivI t u a = (uDivI t u (SD.toV a)).map SD.ofV := by
  unfold SD.uDivI uDivI
  rw [dDivRev_spec t u a.mag ha.1]
  exact SD.map_ofNat_ofV _ _ _ (SD.bigFromBiguint_ofNat a.sign)

theorem iDivS_refines (t : STy) (P : Params) (a : BigInt) (s : Int) (ha : a.Canon) :
    SD.iDivS t P a s = (iDivS t (SD.toV a) s).map SD.ofV := by
  unfold SD.iDivS iDivS
  cases checkedUabs t s <;> simp only []
  · exact iDivU_refines _ P a _ ha
  · exact iDivU_refines _ P a.neg _ (bigint_neg_canon ha)

theorem iDivAssignS_refines (t : STy) (P : Params) (a : BigInt) (s : Int) (ha : a.Canon) :
    SD.iDivAssignS t P a s = (iDivAssignS t (SD.toV a) s).map SD.ofV := by
  unfold SD.iDivAssignS iDivAssignS
  cases checkedUabs t s <;> simp only []
  · exact iDivAssignU_refines _ P a _ ha
  · exact iDivAssignU_refines _ P a.neg _ (bigint_neg_canon ha)

theorem sDivI_refines (t : STy) (s : Int) (a : BigInt) (ha : a.Canon) :
    SD.sDivI t s a = (sDivI t s (SD.toV a)).map SD.ofV := by
  unfold SD.sDivI sDivI
  cases checkedUabs t s <;> simp only []
  · exact uDivI_refines _ _ a ha
  · exact uDivI_refines _ _ a.neg (bigint_neg_canon ha)

theorem iRemU_refines (t : STy) (P : Params) (a : BigInt) (u : Nat) (ha : a.Canon) :
    SD.iRemU t P a u = (iRemU t (SD.toV a) u).map SD.ofV := by
  unfold SD.iRemU iRemU
  rw [dRem_spec t P a.mag u ha.1]
  exact SD.map_ofNat_ofV _ _ _ (SD.bigFromBiguint_ofNat a.sign)

theorem iRemAssignU_refines (t : STy) (P : Params) (a : BigInt) (u : Nat) (ha : a.Canon) :
    SD.iRemAssignU t P a u = (iRemAssignU t (SD.toV a) u).map SD.ofV := by
  unfold SD.iRemAssignU iRemAssignU
  rw [dRem_spec t P a.mag u ha.1]
  exact SD.map_ofNat_ofV _ _ _ (SD.fixZero_ofNat a.sign)

theorem uRemI_refines (t : STy) (u : Nat) (a : BigInt) (ha : a.Canon) (hu : t.InRange (u : Int)) :
    SD.uRemI t u a = (uRemI t u (SD.toV a)).map SD.ofV := by
  unfold SD.uRemI uRemI
  rw [dRemRev_spec t u a.mag ha.1 hu]
  exact SD.map_ofNat_ofV _ _ _ SD.fromBiguint_ofNat

theorem iRemS_refines (t : STy) (P : Params) (a : BigInt) (s : Int) (ha : a.Canon) :
    SD.iRemS t P a s = (iRemS t (SD.toV a) s).map SD.ofV :=
  iRemU_refines _ P a _ ha

theorem iRemAssignS_refines (t : STy) (P : Params) (a : BigInt) (s : Int) (ha : a.Canon) :
    SD.iRemAssignS t P a s = (iRemAssignS t (SD.toV a) s).map SD.ofV :=
  iRemAssignU_refines _ P a _ ha

theorem sRemI_refines (t : STy) (s : Int) (a : BigInt) (ht : t.signed = true) (h : t.InRange s) (ha : a.Canon) :
    SD.sRemI t s a = (sRemI t s (SD.toV a)).map SD.ofV := by
  unfold SD.sRemI sRemI
  rcases uabs_bound t s ht h with ⟨e, _, hr⟩ | ⟨e, _, hr⟩ <;> rw [e] <;> simp only []
  · exact uRemI_refines _ _ a ha hr
  · rw [uRemI_refines _ _ a ha hr, SD.map_map, SD.map_map]
    exact SD.map_congr _ (fun v => SD.ofV_neg v)

/-! ## headline: the whole promotion + leaf routing on digits refines the value-level routing -/

/-- EVERY BigUint scalar form on digit vectors (5 operators × 3 positions × 6 unsigned scalar types × every
    value of the type × every canonical big operand) returns the canonical digits of what the value-level
    form returns, or the same panic -/
theorem dUScalarForm_refines (P : Params) (hP : P.ValidMul) (op : AOp) (pos : SPos) (t : STy) (a : List Nat)
    (s : Int) (ha : Canon a) (ht : t.signed = false) (h : t.InRange s) :
    SD.uScalarForm P op pos t a s = (uScalarForm op pos t (val a) s).map ofNat := by
  obtain ⟨hc, hp⟩ := promo_lossless t s h
  have hps : t.promo.signed = false := by rw [promo_signed]; exact ht
  have hb := SD.bound_of_inRange t.promo hps s hp
  have h0 := inRange_unsigned_nonneg _ s hps hp
  have hsn : ((s.toNat : Nat) : Int) = s := by omega
  unfold SD.uScalarForm uScalarForm
  simp only [hc]
  cases op <;> cases pos <;> simp only []
  all_goals first
    | (rw [dAddAssign_spec _ P a _ ha hb]; rfl)
    | (rw [dMulAssign_spec _ P hP a _ ha hb]; rfl)
    | exact dSubRev_spec _ _ a ha hb
    | exact dSubAssign_spec _ P a _ ha hb
    | exact dDivRev_spec _ _ a ha
    | exact dDiv_spec _ P a _ ha
    | exact dRemRev_spec _ _ a ha (by rw [hsn]; exact hp)
    | exact dRem_spec _ P a _ ha

/-- EVERY BigInt scalar form on digit vectors (5 operators × 3 positions × 12 scalar types × every value of
    the type × every canonical big operand) returns the canonical BigInt of what the value-level form
    returns, or the same panic -/
theorem dIScalarForm_refines (P : Params) (hP : P.ValidMul) (op : AOp) (pos : SPos) (t : STy) (a : BigInt)
    (s : Int) (ha : a.Canon) (h : t.InRange s) :
    SD.iScalarForm P op pos t a s = (iScalarForm op pos t (SD.toV a) s).map SD.ofV := by
  obtain ⟨hc, hp⟩ := promo_lossless t s h
  unfold SD.iScalarForm iScalarForm
  simp only [hc]
  by_cases hsg : t.promo.signed = true
  · simp only [hsg, if_true]
    cases op <;> cases pos <;> simp only []
    all_goals first
      | exact iAddS_refines _ P a s hsg hp ha
      | exact iSubS_refines _ P a s hsg hp ha
      | exact sSubI_refines _ P s a hsg hp ha
      | (rw [iMulS_refines _ P hP a s hsg hp ha]; rfl)
      | (rw [iMulAssignS_refines _ P hP a s hsg hp ha]; rfl)
      | exact iDivS_refines _ P a s ha
      | exact iDivAssignS_refines _ P a s ha
      | exact sDivI_refines _ s a ha
      | exact iRemS_refines _ P a s ha
      | exact iRemAssignS_refines _ P a s ha
      | exact sRemI_refines _ s a hsg hp ha
  · have hus : t.promo.signed = false := by simpa using hsg
    have hb := SD.bound_of_inRange t.promo hus s hp
    have h0 := inRange_unsigned_nonneg _ s hus hp
    have hsn : ((s.toNat : Nat) : Int) = s := by omega
    simp only [hus, Bool.false_eq_true, if_false]
    cases op <;> cases pos <;> simp only []
    all_goals first
      | exact iAddU_refines _ P a _ ha hb
      | exact iSubU_refines _ P a _ ha hb
      | exact uSubI_refines _ P _ a ha hb
      | (rw [iMulU_refines _ P hP a _ ha hb]; rfl)
      | (rw [iMulAssignU_refines _ P hP a _ ha hb]; rfl)
      | exact iDivU_refines _ P a _ ha
      | exact iDivAssignU_refines _ P a _ ha
      | exact uDivI_refines _ _ a ha
      | exact iRemU_refines _ P a _ ha
      | exact iRemAssignU_refines _ P a _ ha
      | exact uRemI_refines _ _ a ha (by rw [hsn]; exact hp)

/-! ## transfer of the C10 headline specs to the digit level -/

/-- the canonical `&BigInt ∘ &BigInt` operations with digit-level results (`canonI` through `ofV`) -/
def canonBI (op : AOp) (x y : Int) : Except Panic BigInt :=
  match op with
  | .add => .ok (BigInt.ofInt (x + y))
  | .sub => .ok (BigInt.ofInt (x - y))
  | .mul => .ok (BigInt.ofInt (x * y))
  | .div => if y = 0 then .error .divzero else .ok (BigInt.ofInt (Int.tdiv x y))
  | .rem => if y = 0 then .error .divzero else .ok (BigInt.ofInt (Int.tmod x y))

def placeBI (op : AOp) (pos : SPos) (a s : Int) : Except Panic BigInt :=
  match pos with
  | .scalarBig => canonBI op s a
  | _ => canonBI op a s

theorem canonI_map_ofV (op : AOp) (x y : Int) : (canonI op x y).map SD.ofV = canonBI op x y := by
  cases op <;> simp only [canonI, canonBI]
  · show Except.ok _ = Except.ok _; rw [SD.ofV_ofInt]
  · show Except.ok _ = Except.ok _; rw [SD.ofV_ofInt]
  · show Except.ok _ = Except.ok _; rw [SD.ofV_ofInt]
  · rw [SD.map_ite, SD.ofV_ofInt]
  · rw [SD.map_ite, SD.ofV_ofInt]

theorem placeI_map_ofV (op : AOp) (pos : SPos) (a s : Int) :
    (placeI op pos a s).map SD.ofV = placeBI op pos a s := by
  cases pos <;> exact canonI_map_ofV op _ _

/-- **digit-level `uScalarForm_spec`**: every BigUint `+ - * / %` form with a primitive scalar, computed on
    digit vectors through the digit-level add/sub/mul/div/convert models, returns the canonical digits of
    the canonical operation on `BigUint::from(s)` — or its panic class (underflow, divzero) -/
theorem dUScalarForm_spec (P : Params) (hP : P.ValidMul) (op : AOp) (pos : SPos) (t : STy) (a : List Nat)
    (s : Int) (ha : Canon a) (ht : t.signed = false) (h : t.InRange s) :
    SD.uScalarForm P op pos t a s = (placeU op pos (val a) s.toNat).map ofNat := by
  rw [dUScalarForm_refines P hP op pos t a s ha ht h, uScalarForm_spec op pos t (val a) s ht h]

/-- **digit-level `iScalarForm_spec`**: every BigInt `+ - * / %` form with a primitive scalar of any of the 12
    types, computed on (sign, digit vector) through the digit-level models, returns the canonical BigInt of
    the canonical operation on `BigInt::from(s)` (`/ %` truncating) — or divzero -/
theorem dIScalarForm_spec (P : Params) (hP : P.ValidMul) (op : AOp) (pos : SPos) (t : STy) (a : BigInt)
    (s : Int) (ha : a.Canon) (h : t.InRange s) :
    SD.iScalarForm P op pos t a s = placeBI op pos a.val s := by
  rw [dIScalarForm_refines P hP op pos t a s ha h, iScalarForm_spec op pos t (SD.toV a) s h (SD.toV_canon ha),
    SD.toV_val, placeI_map_ofV]

/-- `scalar %= BigUint` on digits: truncated remainder for every scalar type and value (incl. `iN::MIN`) -/
theorem dRemAssignScalar_tmod (t : STy) (s : Int) (a : List Nat) (ha : Canon a) (h : t.InRange s) :
    SD.dRemAssignScalar t s a = if val a = 0 then .error .divzero else .ok (Int.tmod s (val a)) := by
  rw [dRemAssignScalar_spec t s a ha h, remAssignScalar_spec t s (val a) h]

/-- what the driver runs: the forms at the parameters regenerated from the source -/
theorem drv_uScalarForm_spec (op : AOp) (pos : SPos) (t : STy) (a : List Nat) (s : Int) (ha : Canon a)
    (ht : t.signed = false) (h : t.InRange s) :
    SD.uScalarForm NB.Gen.P op pos t a s = (placeU op pos (val a) s.toNat).map ofNat :=
  dUScalarForm_spec NB.Gen.P gen_params_valid_mul op pos t a s ha ht h

theorem drv_iScalarForm_spec (op : AOp) (pos : SPos) (t : STy) (a : BigInt) (s : Int) (ha : a.Canon)
    (h : t.InRange s) :
    SD.iScalarForm NB.Gen.P op pos t a s = placeBI op pos a.val s :=
  dIScalarForm_spec NB.Gen.P gen_params_valid_mul op pos t a s ha h

/-! # second part: shifts, Pow, big ∘ big, checked_*, Sum / Product on digit vectors

  (definitions: second part of NB.Model.ScalarD; what NB.Drv.C10 runs for these forms) -/

theorem canon_val_ne_zero_iff {a : List Nat} (ha : Canon a) : val a ≠ 0 ↔ a ≠ [] := by
  constructor
  · intro h e; subst e; exact h rfl
  · intro h; exact Nat.ne_of_gt (canon_val_pos ha h)

theorem dUShl_refines (a : List Nat) (k : Int) (ha : Canon a) :
    SD.uShiftForm true a k = (uShl (val a) k).map ofNat := by
  show NB.C07.biguintShl a k = _
  rw [uShl_spec]
  by_cases hk : k < 0
  · rw [C07.shl_negative a k hk]; simp only [hk, if_true]; rfl
  · have hk0 : 0 ≤ k := by omega
    simp only [hk, if_false]
    by_cases hcap : val a ≠ 0 ∧ k / 64 ≥ usizeLim
    · rw [if_pos hcap]
      rw [C07.shl_capacity a k hk0 ((canon_val_ne_zero_iff ha).1 hcap.1)
        (by have := hcap.2; unfold usizeLim at this; unfold C07.USIZE_RANGE C07.BITS B; omega)]
      rfl
    · rw [if_neg hcap]
      rw [C07.shl_spec a k ha hk0 (fun hne => by
        have h1 := (canon_val_ne_zero_iff ha).2 hne
        have h2 : ¬ k / 64 ≥ usizeLim := fun h => hcap ⟨h1, h⟩
        unfold usizeLim at h2; unfold C07.USIZE_RANGE C07.BITS B; omega)]
      rfl

theorem dUShr_refines (a : List Nat) (k : Int) (ha : Canon a) (hlen : a.length < C07.USIZE_RANGE) :
    SD.uShiftForm false a k = (uShr (val a) k).map ofNat := by
  show NB.C07.biguintShr a k = _
  rw [uShr_spec]
  by_cases hk : k < 0
  · rw [C07.shr_negative a k hk]; simp only [hk, if_true]; rfl
  · rw [C07.shr_spec a k ha (by omega) hlen]; simp only [hk, if_false]; rfl

theorem dIShl_refines (P : Params) (a : BigInt) (k : Int) (ha : a.Canon) :
    SD.iShiftForm P true false a k = (iShl (SD.toV a) k).map SD.ofV := by
  show NB.C07.BigInt.shl a k = _
  unfold NB.C07.BigInt.shl iShl
  rw [show NB.C07.biguintShl a.mag k = _ from dUShl_refines a.mag k ha.1]
  exact SD.map_ofNat_ofV _ _ _ (fun n => SD.bigFromBiguint_ofNat a.sign n)

theorem dIShlAssign_refines (P : Params) (a : BigInt) (k : Int) (ha : a.Canon) :
    SD.iShiftForm P true true a k = (iShlAssign (SD.toV a) k).map SD.ofV := by
  show NB.C07.BigInt.shlAssign a k = _
  unfold NB.C07.BigInt.shlAssign iShlAssign
  rw [show NB.C07.biguintShl a.mag k = _ from dUShl_refines a.mag k ha.1]
  exact SD.map_ofNat_ofV _ _ _ (fun n => rfl)

theorem hbits_of_len {m : List Nat} (hm : DigitsOk m) (hlen : C07.BITS * m.length < C07.U64_RANGE) :
    ∀ K : Nat, 2 ^ 64 ≤ K → val m < 2 ^ K := by
  intro K hK
  calc val m < B ^ m.length := val_lt hm
    _ = 2 ^ (64 * m.length) := pow_B _
    _ ≤ 2 ^ K := Nat.pow_le_pow_right (by decide) (by unfold C07.BITS C07.U64_RANGE B at hlen; omega)

theorem dIShr_refines (P : Params) (a : BigInt) (k : Int) (ha : a.Canon)
    (hlen : C07.BITS * a.mag.length < C07.U64_RANGE) :
    SD.iShiftForm P false false a k = (iShr (SD.toV a) k).map SD.ofV := by
  show NB.C07.BigInt.shr P a k = _
  rw [iShr_spec (SD.toV a) k (SD.toV_canon ha) (hbits_of_len ha.1.1 hlen)]
  by_cases hk : k < 0
  · rw [C07.bigint_shr_negative P a k ha hk]; simp only [hk, if_true]; rfl
  · rw [C07.bigint_shr_spec P a k ha (by omega) hlen]; simp only [hk, if_false]
    show _ = Except.ok (SD.ofV _)
    rw [SD.ofV_ofInt, SD.toV_val]

theorem bigint_shrAssign_negative (P : Params) (x : BigInt) (k : Int) (hx : x.Canon) (hk : k < 0) :
    C07.BigInt.shrAssign P x k = .error .negshift := by
  unfold C07.BigInt.shrAssign
  obtain ⟨b, hb⟩ := C07.shrRoundDown_no_internal x k hx
  rw [hb, C07.shr_negative _ _ hk]; rfl

theorem dIShrAssign_refines (P : Params) (a : BigInt) (k : Int) (ha : a.Canon)
    (hlen : C07.BITS * a.mag.length < C07.U64_RANGE) :
    SD.iShiftForm P false true a k = (iShrAssign (SD.toV a) k).map SD.ofV := by
  show NB.C07.BigInt.shrAssign P a k = _
  rw [iShrAssign_spec (SD.toV a) k (SD.toV_canon ha),
    iShr_spec (SD.toV a) k (SD.toV_canon ha) (hbits_of_len ha.1.1 hlen)]
  by_cases hk : k < 0
  · rw [bigint_shrAssign_negative P a k ha hk]; simp only [hk, if_true]; rfl
  · rw [C07.bigint_shrAssign_spec P a k ha (by omega) hlen]; simp only [hk, if_false]
    show _ = Except.ok (SD.ofV _)
    rw [SD.ofV_ofInt, SD.toV_val]

/-! pow -/
theorem dUPow_refines (P : Params) (hP : P.ValidMul) (f : Pow.Form) (a : List Nat) (e : Nat) (ha : Canon a) :
    PowD.powPrim P f a e = .ok (ofNat (powPrim (val a) e)) := by
  rw [powD_spec P hP f a e ha, powPrim_eq]

theorem dIPow_refines (P : Params) (hP : P.ValidMul) (f : Pow.Form) (a : BigInt) (e : Nat) (ha : a.Canon) :
    PowD.bigintPow P f a e = .ok (SD.ofV (iPow (SD.toV a) e)) := by
  rw [bigint_powD_spec P hP f a e ha, iPow_spec, SD.ofV_ofInt, SD.toV_val]

theorem two_pow_128 : (2 : Nat) ^ 128 = 340282366920938463463374607431768211456 := by norm_num

theorem dUPowBig_refines (P : Params) (hP : P.ValidMul) (f : Pow.Form) (a e : List Nat) (ha : Canon a)
    (he : Canon e) :
    PowD.powBig P f a e = (uPowBig (val a) (val e)).map ofNat := by
  rw [pow_bigD_spec P hP f a e ha he, uPowBig_spec, two_pow_128]
  split <;> rfl

theorem bigint_natAbs_val {a : BigInt} (ha : a.Canon) : a.val.natAbs = val a.mag := by
  obtain ⟨s, m⟩ := a
  cases s
  · show (-(val m : Int)).natAbs = val m; omega
  · have : m = [] := ha.2.1 rfl
    subst this; rfl
  · show ((val m : Int)).natAbs = val m; omega

theorem dIPowBig_refines (P : Params) (hP : P.ValidMul) (f : Pow.Form) (a : BigInt) (e : List Nat)
    (ha : a.Canon) (he : Canon e) :
    PowD.bigintPowBig P f a e = (iPowBig (SD.toV a) (val e)).map SD.ofV := by
  rw [bigint_pow_bigD_spec P hP f a e ha he, iPowBig_spec, two_pow_128, bigint_natAbs_val ha]
  rw [show (SD.toV a).mag = val a.mag from rfl]
  by_cases h : 2 ≤ val a.mag ∧ 340282366920938463463374607431768211456 ≤ val e
  · rw [if_pos h, if_pos h]; rfl
  · rw [if_neg h, if_neg h]
    show _ = Except.ok (SD.ofV _); rw [SD.ofV_ofInt, SD.toV_val]

/-! big ∘ big -/

theorem dUBin_refines (P : Params) (hP : P.ValidMul) (op : Nat) (a b : List Nat) (ha : Canon a) (hb : Canon b) :
    SD.uBinForm P op a b = (Drv.C10.uBin op (val a) (val b)).map ofNat := by
  have hz : b = [] ↔ val b = 0 := by
    have := canon_val_ne_zero_iff hb; constructor
    · intro h; subst h; rfl
    · intro h; by_contra c; exact (this.2 c) h
  match op with
  | 0 => rfl
  | 1 => show Except.ok (addRef P a b) = _; rw [addRef_spec P a b ha hb]; rfl
  | 2 =>
    show subRef P a b = _; rw [subRef_spec P a b ha hb]
    show _ = Except.map ofNat (if val a < val b then _ else _); split <;> rfl
  | 3 => show Mul.mulRef P a b = _; rw [NB.mul_spec P hP a b ha hb]; rfl
  | 4 =>
    show divRef P a b = _; rw [divRef_spec P a b ha hb]
    show _ = Except.map ofNat (if val b = 0 then _ else _)
    by_cases h : b = []
    · rw [if_pos h, if_pos (hz.1 h)]; rfl
    · rw [if_neg h, if_neg (fun c => h (hz.2 c))]; rfl
  | 5 =>
    show remRef P a b = _; rw [remRef_spec P a b ha hb]
    show _ = Except.map ofNat (if val b = 0 then _ else _)
    by_cases h : b = []
    · rw [if_pos h, if_pos (hz.1 h)]; rfl
    · rw [if_neg h, if_neg (fun c => h (hz.2 c))]; rfl
  | 6 => show Except.ok (C07.andRef a b) = _; rw [C07.andRef_spec a b ha hb]; rfl
  | 7 => show Except.ok (C07.orRef a b) = _; rw [C07.orRef_spec a b ha hb]; rfl
  | 8 => show Except.ok (C07.xorRef a b) = _; rw [C07.xorRef_spec a b ha hb]; rfl
  | n + 9 => rfl

theorem tdiv_sign_both (s t : Sign) (m n : Nat) :
    Int.tdiv (s.toInt * m) (t.toInt * n) = (s.mul t).toInt * ↑(m / n) := by
  rw [sign_mul_toInt]
  cases t
  · rw [show Sign.toInt .minus = -1 from rfl, neg_one_mul, Int.tdiv_neg, tdiv_sign]; ring
  · simp [Sign.toInt]
  · rw [show Sign.toInt .plus = 1 from rfl, one_mul, tdiv_sign]; ring

theorem tmod_sign_both (s t : Sign) (m n : Nat) (ht : t ≠ .nosign) :
    Int.tmod (s.toInt * m) (t.toInt * n) = s.toInt * ↑(m % n) := by
  cases t
  · rw [show Sign.toInt .minus = -1 from rfl, neg_one_mul, Int.tmod_neg, tmod_sign]
  · exact absurd rfl ht
  · rw [show Sign.toInt .plus = 1 from rfl, one_mul, tmod_sign]

theorem toV_mag_zero_iff {b : BigInt} (hb : b.Canon) : (SD.toV b).mag = 0 ↔ b.val = 0 := by
  rw [← SD.toV_val]; exact (vint_canon_val_zero_iff (SD.toV_canon hb)).symm

/-- `&BigInt ∘ &BigInt` for `+ - * / %` on (sign, digit vector) refines the value-level canonical operation -/
theorem dIBin_refines (P : Params) (hP : P.ValidMul) (op : Nat) (hop : ¬ (op = 6 ∨ op = 7 ∨ op = 8))
    (a b : BigInt) (ha : a.Canon) (hb : b.Canon) :
    SD.iBinForm P op a b = (Drv.C10.iBin op (SD.toV a) (SD.toV b)).map SD.ofV := by
  have hz := toV_mag_zero_iff hb
  have hsb : (SD.toV b).mag ≠ 0 → (SD.toV b).sign ≠ .nosign := fun h c => h ((SD.toV_canon hb).1 c)
  match op, hop with
  | 0, _ => rfl
  | 1, _ =>
    show BigInt.add P a b = _; rw [bigint_add_spec P a b ha hb]
    show _ = Except.ok (SD.ofV (VInt.ofInt _)); rw [SD.ofV_ofInt, SD.toV_val, SD.toV_val]
  | 2, _ =>
    show BigInt.sub P a b = _; rw [bigint_sub_spec P a b ha hb]
    show _ = Except.ok (SD.ofV (VInt.ofInt _)); rw [SD.ofV_ofInt, SD.toV_val, SD.toV_val]
  | 3, _ =>
    show Mul.bigintMul P a b = _; rw [bigint_mul_spec P hP a b ha hb]
    show _ = Except.ok (SD.ofV (VInt.mul _ _)); rw [vint_mul_spec, SD.ofV_ofInt, SD.toV_val, SD.toV_val]
  | 4, _ =>
    show BigInt.div P a b = _; rw [bigint_div_spec P a b ha hb]
    show _ = Except.map SD.ofV (if (SD.toV b).mag = 0 then _ else _)
    by_cases h : b.val = 0
    · rw [if_pos h, if_pos (hz.2 h)]; rfl
    · rw [if_neg h, if_neg (fun c => h (hz.1 c))]
      show _ = Except.ok (SD.ofV (VInt.fromBiguint _ _))
      rw [VInt.fromBiguint_toInt, SD.ofV_ofInt, ← tdiv_sign_both, ← VInt.val_eq_toInt, ← VInt.val_eq_toInt,
        SD.toV_val, SD.toV_val]
  | 5, _ =>
    show BigInt.rem P a b = _; rw [bigint_rem_spec P a b ha hb]
    show _ = Except.map SD.ofV (if (SD.toV b).mag = 0 then _ else _)
    by_cases h : b.val = 0
    · rw [if_pos h, if_pos (hz.2 h)]; rfl
    · have hm : (SD.toV b).mag ≠ 0 := fun c => h (hz.1 c)
      rw [if_neg h, if_neg hm]
      show _ = Except.ok (SD.ofV (VInt.fromBiguint _ _))
      rw [VInt.fromBiguint_toInt, SD.ofV_ofInt, ← tmod_sign_both _ _ _ _ (hsb hm), ← VInt.val_eq_toInt,
        ← VInt.val_eq_toInt, SD.toV_val, SD.toV_val]
  | 6, h => exact absurd (Or.inl rfl) h
  | 7, h => exact absurd (Or.inr (Or.inl rfl)) h
  | 8, h => exact absurd (Or.inr (Or.inr rfl)) h
  | n + 9, _ => rfl

/-- the mathematical meaning of the canonical `&BigInt ∘ &BigInt` operations (`/ %` truncate; `& | ^` are
    Mathlib's two's-complement `Int.land / lor / xor`) -/
def formSpecI (op : Nat) (x y : Int) : Except Panic BigInt :=
  match op with
  | 1 => .ok (BigInt.ofInt (x + y))
  | 2 => .ok (BigInt.ofInt (x - y))
  | 3 => .ok (BigInt.ofInt (x * y))
  | 4 => if y = 0 then .error .divzero else .ok (BigInt.ofInt (Int.tdiv x y))
  | 5 => if y = 0 then .error .divzero else .ok (BigInt.ofInt (Int.tmod x y))
  | 6 => .ok (BigInt.ofInt (Int.land x y))
  | 7 => .ok (BigInt.ofInt (Int.lor x y))
  | 8 => .ok (BigInt.ofInt (Int.xor x y))
  | _ => .error (.internal "op")

theorem dIBin_spec (P : Params) (hP : P.ValidMul) (op : Nat) (a b : BigInt) (ha : a.Canon) (hb : b.Canon) :
    SD.iBinForm P op a b = formSpecI op a.val b.val := by
  match op with
  | 0 => rfl
  | 1 => exact bigint_add_spec P a b ha hb
  | 2 => exact bigint_sub_spec P a b ha hb
  | 3 => exact bigint_mul_spec P hP a b ha hb
  | 4 => exact bigint_div_spec P a b ha hb
  | 5 => exact bigint_rem_spec P a b ha hb
  | 6 => exact C07.bigint_andRef_spec a b ha hb
  | 7 => exact C07.bigint_orRef_spec a b ha hb
  | 8 => exact C07.bigint_xorRef_spec a b ha hb
  | n + 9 => rfl

/-- `checked_add/sub/mul/div` for BigUint on digits: `None` exactly for `a < b` resp. a zero divisor, never a panic -/
theorem dUChecked_spec (P : Params) (hP : P.ValidMul) (op : Nat) (a b : List Nat) (ha : Canon a) (hb : Canon b) :
    SD.uCheckedForm P op a b =
      match op with
      | 1 => .ok (some (ofNat (val a + val b)))
      | 2 => .ok (if val a < val b then none else some (ofNat (val a - val b)))
      | 3 => .ok (some (ofNat (val a * val b)))
      | 4 => .ok (if val b = 0 then none else some (ofNat (val a / val b)))
      | _ => .error (.internal "op") := by
  match op with
  | 0 => rfl
  | 1 => show Except.ok (some (addRef P a b)) = _; rw [addRef_spec P a b ha hb]; rfl
  | 2 => exact checkedSub_spec P a b ha hb
  | 3 => show (Mul.mulRef P a b).map some = _; rw [NB.mul_spec P hP a b ha hb]; rfl
  | 4 =>
    show checkedDiv P a b = _; rw [checkedDiv_spec P a b ha hb]
    have := canon_val_ne_zero_iff hb
    by_cases h : b = []
    · subst h; rfl
    · rw [if_neg h]; show _ = Except.ok (if val b = 0 then _ else _); rw [if_neg (this.2 h)]
  | n + 5 => rfl

theorem dIChecked_spec (P : Params) (hP : P.ValidMul) (op : Nat) (a b : BigInt) (ha : a.Canon) (hb : b.Canon) :
    SD.iCheckedForm P op a b =
      match op with
      | 1 => .ok (some (BigInt.ofInt (a.val + b.val)))
      | 2 => .ok (some (BigInt.ofInt (a.val - b.val)))
      | 3 => .ok (some (BigInt.ofInt (a.val * b.val)))
      | 4 => .ok (if b.val = 0 then none else some (BigInt.ofInt (Int.tdiv a.val b.val)))
      | _ => .error (.internal "op") := by
  match op with
  | 0 => rfl
  | 1 => show (BigInt.add P a b).map some = _; rw [bigint_add_spec P a b ha hb]; rfl
  | 2 => show (BigInt.sub P a b).map some = _; rw [bigint_sub_spec P a b ha hb]; rfl
  | 3 => show (Mul.bigintMul P a b).map some = _; rw [bigint_mul_spec P hP a b ha hb]; rfl
  | 4 => exact bigint_checkedDiv_spec P a b ha hb
  | n + 5 => rfl

/-! Sum / Product -/

/-- the value of an item of a BigUint `Sum` / `Product` -/
def uItemVal : SD.Item (List Nat) → Nat
  | .big b => val b
  | .sc _ s => s.toNat

/-- an admissible item: a canonical big value or an in-range value of an unsigned scalar type -/
def UItemOk : SD.Item (List Nat) → Prop
  | .big b => Canon b
  | .sc t s => t.signed = false ∧ t.InRange s

def iItemVal : SD.Item BigInt → Int
  | .big b => b.val
  | .sc _ s => s

def IItemOk : SD.Item BigInt → Prop
  | .big b => b.Canon
  | .sc t s => t.InRange s

theorem dUIterStep_spec (P : Params) (hP : P.ValidMul) (sum : Bool) (v : Nat) (it : SD.Item (List Nat))
    (hit : UItemOk it) :
    SD.uIterStep P sum (ofNat v) it = .ok (ofNat (if sum then v + uItemVal it else v * uItemVal it)) := by
  cases it with
  | big b =>
    cases sum
    · show Mul.mulRef P (ofNat v) b = _
      rw [NB.mul_spec P hP _ b (ofNat_canon v) hit, ofNat_val]; rfl
    · show Except.ok (addAssign P (ofNat v) b) = _
      rw [addAssign_spec P _ b (ofNat_canon v) hit, ofNat_val]; rfl
  | sc t s =>
    obtain ⟨ht, hs⟩ := hit
    cases sum
    · show SD.uScalarForm P .mul .bigScalar t (ofNat v) s = _
      rw [dUScalarForm_spec P hP .mul .bigScalar t _ s (ofNat_canon v) ht hs, ofNat_val]; rfl
    · show SD.uScalarForm P .add .bigScalar t (ofNat v) s = _
      rw [dUScalarForm_spec P hP .add .bigScalar t _ s (ofNat_canon v) ht hs, ofNat_val]; rfl

theorem dUIterFold_spec (P : Params) (hP : P.ValidMul) (sum : Bool) :
    ∀ (items : List (SD.Item (List Nat))) (v : Nat), (∀ it ∈ items, UItemOk it) →
      SD.uIterFold P sum (ofNat v) items =
        .ok (ofNat (if sum then v + (items.map uItemVal).sum else v * (items.map uItemVal).prod)) := by
  intro items
  induction items with
  | nil => intro v _; cases sum <;> simp [SD.uIterFold]
  | cons it rest ih =>
    intro v h
    unfold SD.uIterFold
    rw [dUIterStep_spec P hP sum v it (h it (List.mem_cons_self))]
    simp only []
    rw [ih _ (fun x hx => h x (List.mem_cons_of_mem _ hx))]
    cases sum
    · simp only [Bool.false_eq_true, if_false, List.map_cons, List.prod_cons, Nat.mul_assoc]
    · simp only [if_true, List.map_cons, List.sum_cons, Nat.add_assoc]

/-- `Sum` for BigUint over big and scalar items, on digits: the canonical digits of the sum -/
theorem dUSum_spec (P : Params) (hP : P.ValidMul) (items : List (SD.Item (List Nat))) (h : ∀ it ∈ items, UItemOk it) :
    SD.uIterForm P true items = .ok (ofNat (items.map uItemVal).sum) := by
  have := dUIterFold_spec P hP true items 0 h
  rw [SD.ofNat_zero] at this
  simpa [SD.uIterForm] using this

/-- `Product` for BigUint, on digits: the canonical digits of the product (empty product = 1) -/
theorem dUProduct_spec (P : Params) (hP : P.ValidMul) (items : List (SD.Item (List Nat))) (h : ∀ it ∈ items, UItemOk it) :
    SD.uIterForm P false items = .ok (ofNat (items.map uItemVal).prod) := by
  have := dUIterFold_spec P hP false items 1 h
  rw [ofNat_one] at this
  simpa [SD.uIterForm] using this

theorem dIIterStep_spec (P : Params) (hP : P.ValidMul) (sum : Bool) (v : Int) (it : SD.Item BigInt)
    (hit : IItemOk it) :
    SD.iIterStep P sum (BigInt.ofInt v) it = .ok (BigInt.ofInt (if sum then v + iItemVal it else v * iItemVal it)) := by
  cases it with
  | big b =>
    cases sum
    · show Mul.bigintMul P (BigInt.ofInt v) b = _
      rw [bigint_mul_spec P hP _ b (bigint_ofInt_canon v) hit, bigint_ofInt_val]; rfl
    · show BigInt.add P (BigInt.ofInt v) b = _
      rw [bigint_add_spec P _ b (bigint_ofInt_canon v) hit, bigint_ofInt_val]; rfl
  | sc t s =>
    cases sum
    · show SD.iScalarForm P .mul .bigScalar t (BigInt.ofInt v) s = _
      rw [dIScalarForm_spec P hP .mul .bigScalar t _ s (bigint_ofInt_canon v) hit, bigint_ofInt_val]; rfl
    · show SD.iScalarForm P .add .bigScalar t (BigInt.ofInt v) s = _
      rw [dIScalarForm_spec P hP .add .bigScalar t _ s (bigint_ofInt_canon v) hit, bigint_ofInt_val]; rfl

theorem dIIterFold_spec (P : Params) (hP : P.ValidMul) (sum : Bool) :
    ∀ (items : List (SD.Item BigInt)) (v : Int), (∀ it ∈ items, IItemOk it) →
      SD.iIterFold P sum (BigInt.ofInt v) items =
        .ok (BigInt.ofInt (if sum then v + (items.map iItemVal).sum else v * (items.map iItemVal).prod)) := by
  intro items
  induction items with
  | nil => intro v _; cases sum <;> simp [SD.iIterFold]
  | cons it rest ih =>
    intro v h
    unfold SD.iIterFold
    rw [dIIterStep_spec P hP sum v it (h it (List.mem_cons_self))]
    simp only []
    rw [ih _ (fun x hx => h x (List.mem_cons_of_mem _ hx))]
    cases sum
    · simp only [Bool.false_eq_true, if_false, List.map_cons, List.prod_cons, mul_assoc]
    · simp only [if_true, List.map_cons, List.sum_cons, add_assoc]

theorem dISum_spec (P : Params) (hP : P.ValidMul) (items : List (SD.Item BigInt)) (h : ∀ it ∈ items, IItemOk it) :
    SD.iIterForm P true items = .ok (BigInt.ofInt (items.map iItemVal).sum) := by
  have := dIIterFold_spec P hP true items 0 h
  rw [show BigInt.ofInt 0 = ⟨.nosign, []⟩ from ofInt_zero] at this
  simpa [SD.iIterForm] using this

theorem dIProduct_spec (P : Params) (hP : P.ValidMul) (items : List (SD.Item BigInt)) (h : ∀ it ∈ items, IItemOk it) :
    SD.iIterForm P false items = .ok (BigInt.ofInt (items.map iItemVal).prod) := by
  have := dIIterFold_spec P hP false items 1 h
  rw [show BigInt.ofInt 1 = ⟨.plus, [1]⟩ by simp [BigInt.ofInt, ofNat_one]] at this
  simpa [SD.iIterForm] using this


/-! ### transferred specs and the instances the driver runs -/

/-- BigUint `<<` / `>>` (and `<<=`, `>>=`) by any amount of any of the 12 primitive types, on digits -/
theorem dShift_spec_u (left : Bool) (a : List Nat) (k : Int) (ha : Canon a) (hlen : a.length < C07.USIZE_RANGE) :
    SD.uShiftForm left a k =
      if k < 0 then .error .negshift
      else if left then
        (if val a ≠ 0 ∧ k / 64 ≥ usizeLim then .error .capacity else .ok (ofNat (val a * 2 ^ k.toNat)))
      else .ok (ofNat (val a / 2 ^ k.toNat)) := by
  cases left
  · rw [dUShr_refines a k ha hlen, uShr_spec]
    by_cases hk : k < 0
    · rw [if_pos hk, if_pos hk]; rfl
    · rw [if_neg hk, if_neg hk]; rfl
  · rw [dUShl_refines a k ha, uShl_spec]
    by_cases hk : k < 0
    · rw [if_pos hk, if_pos hk]; rfl
    · rw [if_neg hk, if_neg hk]
      simp only [if_true]
      split <;> rfl

/-- BigInt `<< <<= >> >>=` on (sign, digits): `x·2^k`, `⌊x / 2^k⌋` toward −∞, negative amounts panic -/
theorem dShift_spec_i (P : Params) (left assign : Bool) (a : BigInt) (k : Int) (ha : a.Canon)
    (hlen : C07.BITS * a.mag.length < C07.U64_RANGE) :
    SD.iShiftForm P left assign a k =
      if k < 0 then .error .negshift
      else if left then
        (if a.val ≠ 0 ∧ k / 64 ≥ usizeLim then .error .capacity else .ok (BigInt.ofInt (a.val * 2 ^ k.toNat)))
      else .ok (BigInt.ofInt (a.val / 2 ^ k.toNat)) := by
  have hc := SD.toV_canon ha
  have hb := hbits_of_len ha.1.1 hlen
  have e1 : (iShl (SD.toV a) k).map SD.ofV =
      if k < 0 then .error .negshift
      else (if a.val ≠ 0 ∧ k / 64 ≥ usizeLim then .error .capacity else .ok (BigInt.ofInt (a.val * 2 ^ k.toNat))) := by
    rw [iShl_spec _ k hc, SD.toV_val]
    by_cases hk : k < 0
    · rw [if_pos hk, if_pos hk]; rfl
    · rw [if_neg hk, if_neg hk]
      split
      · rfl
      · show Except.ok (SD.ofV _) = _; rw [SD.ofV_ofInt]
  have e2 : (iShr (SD.toV a) k).map SD.ofV =
      if k < 0 then .error .negshift else .ok (BigInt.ofInt (a.val / 2 ^ k.toNat)) := by
    rw [iShr_spec _ k hc hb, SD.toV_val]
    by_cases hk : k < 0
    · rw [if_pos hk, if_pos hk]; rfl
    · rw [if_neg hk, if_neg hk]; show Except.ok (SD.ofV _) = _; rw [SD.ofV_ofInt]
  cases left <;> cases assign
  · rw [dIShr_refines P a k ha hlen, e2]; simp
  · rw [dIShrAssign_refines P a k ha hlen, iShrAssign_spec _ k hc, e2]; simp
  · rw [dIShl_refines P a k ha, e1]; simp
  · rw [dIShlAssign_refines P a k ha, iShlAssign_spec _ k hc, e1]; simp

/-- digit-level `Pow` by a primitive exponent: `x^e`, every operand form, no multiplication panic -/
theorem dUPow_spec (P : Params) (hP : P.ValidMul) (f : Pow.Form) (a : List Nat) (e : Nat) (ha : Canon a) :
    PowD.powPrim P f a e = .ok (ofNat (val a ^ e)) := powD_spec P hP f a e ha

/-- what the driver runs (parameters regenerated from the source on every run) -/
theorem drv_uBin_refines (op : Nat) (a b : List Nat) (ha : Canon a) (hb : Canon b) :
    SD.uBinForm NB.Gen.P op a b = (Drv.C10.uBin op (val a) (val b)).map ofNat :=
  dUBin_refines NB.Gen.P gen_params_valid_mul op a b ha hb

theorem drv_iBin_spec (op : Nat) (a b : BigInt) (ha : a.Canon) (hb : b.Canon) :
    SD.iBinForm NB.Gen.P op a b = formSpecI op a.val b.val :=
  dIBin_spec NB.Gen.P gen_params_valid_mul op a b ha hb

theorem drv_uPow_refines (f : Pow.Form) (a : List Nat) (e : Nat) (ha : Canon a) :
    PowD.powPrim NB.Gen.P f a e = .ok (ofNat (powPrim (val a) e)) :=
  dUPow_refines NB.Gen.P gen_params_valid_mul f a e ha

theorem drv_iPow_refines (f : Pow.Form) (a : BigInt) (e : Nat) (ha : a.Canon) :
    PowD.bigintPow NB.Gen.P f a e = .ok (SD.ofV (iPow (SD.toV a) e)) :=
  dIPow_refines NB.Gen.P gen_params_valid_mul f a e ha

/-! ## non-vacuity: concrete digit-level runs (two-digit scalar through `mul3`, Knuth division by `[lo, hi]`,
    the digit-count match, `MIN %= 2^(N-1)`, the sign/cmp match).
    `decide +kernel`: `ofNat`, `From<u64>` are well-founded recursions, which only the kernel unfolds. -/

example : SD.dMulAssign .u128 NB.Gen.P [3, 5] (2 * B + 7) = .ok [21, 41, 10] := by decide +kernel
example : SD.dDiv .u128 NB.Gen.P [0, 0, 1] (B + 1) = .ok [18446744073709551615] := by decide +kernel
example : SD.dRem .u32 NB.Gen.P [1, 1] 10 = .ok [7] := by decide +kernel
example : SD.dDivRev .u128 (5 * B) [0, 2] = .ok [2] := by decide +kernel
example : SD.dDivRev .u64 5 [0, 2] = .ok [] := by decide +kernel
example : SD.dRemAssignScalar .i8 (-128) [128] = .ok 0 := by decide +kernel
example : SD.dRemAssignScalar .i64 (-9223372036854775808) [9223372036854775808] = .ok 0 := by decide +kernel
example : SD.iScalarForm NB.Gen.P .add .bigScalar .i8 ⟨.plus, [128]⟩ (-128) = .ok ⟨.nosign, []⟩ := by decide +kernel
example : SD.iScalarForm NB.Gen.P .sub .scalarBig .u64 ⟨.plus, [0, 1]⟩ 5 = .ok ⟨.minus, [18446744073709551611]⟩ := by
  decide +kernel
example : SD.uScalarForm NB.Gen.P .sub .bigScalar .u8 [254] 255 = .error .underflow := by decide +kernel
example : SD.uScalarForm NB.Gen.P .div .assign .u64 [1, 2, 3] 0 = .error .divzero := by decide +kernel
-- second part: a 65-bit left shift, the negative-amount panic, `-3 >> 1 = -2` (round down), `>>=` to zero,
-- 3^5 by value/reference, (-2)^3, the capacity panic of a BigUint exponent ≥ 2^128, big ∘ big, Sum
example : SD.uShiftForm true [B - 1] 65 = .ok [0, B - 2, 1] := by decide +kernel
example : SD.uShiftForm false [1] (-1) = .error .negshift := by decide +kernel
example : SD.iShiftForm NB.Gen.P false false ⟨.minus, [3]⟩ 1 = .ok ⟨.minus, [2]⟩ := by decide +kernel
example : SD.iShiftForm NB.Gen.P false true ⟨.plus, [3]⟩ 2 = .ok ⟨.nosign, []⟩ := by decide +kernel
example : SD.iShiftForm NB.Gen.P false true ⟨.minus, [3]⟩ (-128) = .error .negshift := by decide +kernel
example : PowD.powPrim NB.Gen.P .rv [3] 5 = .ok [243] := by decide +kernel
example : PowD.bigintPow NB.Gen.P .vv ⟨.minus, [2]⟩ 3 = .ok ⟨.minus, [8]⟩ := by decide +kernel
example : PowD.powBig NB.Gen.P .rr [2] [0, 0, 1] = .error .capacity := by decide +kernel
example : SD.uBinForm NB.Gen.P 2 [0, 1] [1] = .ok [B - 1] := by decide +kernel
example : SD.uBinForm NB.Gen.P 2 [1] [0, 1] = .error .underflow := by decide +kernel
example : SD.iBinForm NB.Gen.P 5 ⟨.minus, [7]⟩ ⟨.plus, [0, 1]⟩ = .ok ⟨.minus, [7]⟩ := by decide +kernel
example : SD.iBinForm NB.Gen.P 6 ⟨.minus, [B - 1]⟩ ⟨.minus, [2]⟩ = .ok ⟨.minus, [0, 1]⟩ := by decide +kernel
example : SD.uCheckedForm NB.Gen.P 4 [5] [] = .ok none := by decide +kernel
example : SD.uIterForm NB.Gen.P true [.big [B - 1], .sc .u8 1, .big [0, 1]] = .ok [0, 2] := by decide +kernel
example : UItemOk (.sc .u8 255) := ⟨rfl, by decide⟩
example : UItemOk (.big [0, 1]) := by show Canon _; decide
example : IItemOk (.sc .i8 (-128)) := by show STy.InRange _ _; decide

end NB
