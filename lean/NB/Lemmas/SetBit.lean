/- BigInt::set_bit / set_negative_bit -/
import NB.Lemmas.SignedOps
namespace NB.C07

theorem or_two_pow_eq (m k : Nat) : m ||| 2 ^ k = if m.testBit k then m else m + 2 ^ k := by
  have hlo : m % 2 ^ k < 2 ^ k := Nat.mod_lt _ (Nat.pow_pos (by decide))
  have hm : m = m % 2 ^ k + 2 ^ k * (m / 2 ^ k) := (Nat.mod_add_div m (2 ^ k)).symm
  have hbit : m.testBit k = (m / 2 ^ k).testBit 0 := by
    conv_lhs => rw [hm]
    rw [testBit_block _ hlo, if_neg (Nat.lt_irrefl _), Nat.sub_self]
  have h1 : m ||| 2 ^ k = m % 2 ^ k + 2 ^ k * (m / 2 ^ k ||| 1) := by
    conv_lhs => rw [hm]
    have := or_block (k := k) (d := m % 2 ^ k) (e := 0) (m / 2 ^ k) 1 hlo (Nat.pow_pos (by decide))
    simpa using this
  rw [h1, hbit, Nat.testBit_zero]
  generalize m / 2 ^ k = h at *
  have h2 : h ||| 1 = if h % 2 = 1 then h else h + 1 := by
    have e : h = h % 2 + 2 ^ 1 * (h / 2) := by omega
    have := or_block (k := 1) (d := h % 2) (e := 1) (h / 2) 0 (by omega) (by decide)
    rw [Nat.mul_zero, Nat.add_zero, Nat.or_zero, ← e] at this
    rw [this]
    rcases Nat.mod_two_eq_zero_or_one h with h0 | h0 <;> rw [h0] <;> simp <;> omega
  rw [h2]
  by_cases hh : h % 2 = 1
  · simp only [hh, decide_true, if_true]; omega
  · simp only [hh, decide_false, Bool.false_eq_true, if_false]
    rw [Nat.mul_add]; omega

theorem ldiff_two_pow_eq (m k : Nat) : Nat.ldiff m (2 ^ k) = if m.testBit k then m - 2 ^ k else m := by
  have hlo : m % 2 ^ k < 2 ^ k := Nat.mod_lt _ (Nat.pow_pos (by decide))
  have hm : m = m % 2 ^ k + 2 ^ k * (m / 2 ^ k) := (Nat.mod_add_div m (2 ^ k)).symm
  have hbit : m.testBit k = (m / 2 ^ k).testBit 0 := by
    conv_lhs => rw [hm]
    rw [testBit_block _ hlo, if_neg (Nat.lt_irrefl _), Nat.sub_self]
  have h1 : Nat.ldiff m (2 ^ k) = m % 2 ^ k + 2 ^ k * Nat.ldiff (m / 2 ^ k) 1 := by
    conv_lhs => rw [hm]
    have := ldiff_block (k := k) (d := m % 2 ^ k) (e := 0) (m / 2 ^ k) 1 hlo (Nat.pow_pos (by decide))
    rw [ldiff_zero_right] at this
    simpa using this
  rw [h1, hbit, Nat.testBit_zero]
  have hm2 : m = m % 2 ^ k + 2 ^ k * (m / 2 ^ k) := hm
  generalize m / 2 ^ k = h at *
  have h2 : Nat.ldiff h 1 = 2 * (h / 2) := by
    have e : h = h % 2 + 2 ^ 1 * (h / 2) := by omega
    have := ldiff_block (k := 1) (d := h % 2) (e := 1) (h / 2) 0 (by omega) (by decide)
    rw [Nat.mul_zero, Nat.add_zero, ldiff_zero_right, ← e] at this
    rw [this]
    have l0 : Nat.ldiff 0 1 = 0 := by apply Nat.eq_of_testBit_eq; intro i; simp [Nat.testBit_ldiff]
    have l1 : Nat.ldiff 1 1 = 0 := by apply Nat.eq_of_testBit_eq; intro i; simp [Nat.testBit_ldiff]
    rcases Nat.mod_two_eq_zero_or_one h with h0 | h0 <;> rw [h0] <;> simp [l0, l1]
  rw [h2]
  by_cases hh : h % 2 = 1
  · simp only [hh, decide_true, if_true]
    have : 2 ^ k * h = 2 ^ k * (2 * (h / 2)) + 2 ^ k := by
      rw [← Nat.mul_succ]; congr 1; omega
    omega
  · simp only [hh, decide_false, Bool.false_eq_true, if_false]
    have : 2 * (h / 2) = h := by omega
    rw [this]; omega

/-- magnitude of a negative number `-A` after `set_bit(k, v)` in two's complement, in terms of
    bit `k` of `A - 1` (the complement of the two's complement pattern) -/
def negSetTarget (A k : Nat) (v : Bool) : Nat :=
  if v then (if (A - 1).testBit k then A - 2 ^ k else A)
  else (if (A - 1).testBit k then A else A + 2 ^ k)

theorem testBit_ge {n k : Nat} (h : n.testBit k = true) : 2 ^ k ≤ n := by
  by_contra hlt
  rw [Nat.testBit_lt_two_pow (by omega)] at h; cases h

theorem negSetTarget_int (A k : Nat) (v : Bool) (hA : 0 < A) :
    -(negSetTarget A k v : Int) =
      if v then Int.lor (-(A : Int)) ((2 ^ k : Nat) : Int) else Int.ldiff (-(A : Int)) ((2 ^ k : Nat) : Int) := by
  obtain ⟨n, rfl⟩ : ∃ n, A = n + 1 := ⟨A - 1, by omega⟩
  rw [neg_succ_cast]
  unfold negSetTarget
  rw [Nat.add_sub_cancel]
  cases v with
  | true =>
    simp only [if_true]
    show _ = Int.negSucc (Nat.ldiff n (2 ^ k))
    rw [Int.negSucc_eq, ldiff_two_pow_eq]
    by_cases hb : n.testBit k = true
    · have hge := testBit_ge hb
      simp only [hb, if_true]
      generalize 2 ^ k = p at *
      omega
    · simp only [hb, Bool.false_eq_true, if_false]; push_cast; omega
  | false =>
    simp only [Bool.false_eq_true, if_false]
    show _ = Int.negSucc (n ||| 2 ^ k)
    rw [Int.negSucc_eq, or_two_pow_eq]
    by_cases hb : n.testBit k = true
    · simp only [hb, if_true]; push_cast; omega
    · simp only [hb, Bool.false_eq_true, if_false]
      generalize 2 ^ k = p at *
      push_cast; omega

/-- where the lowest set bit sits in the digit list -/
theorem tz_structure : ∀ (ds : List Nat) (t : Nat), DigitsOk ds → trailingZerosU ds = some t →
    ∃ digit rest, ds = List.replicate (t / BITS) 0 ++ digit :: rest ∧ digit ≠ 0 ∧ tzDigit digit = t % BITS := by
  intro ds
  induction ds with
  | nil => intro t _ h; simp [trailingZerosU_nil] at h
  | cons d ds ih =>
    intro t hok h
    rw [trailingZerosU_cons] at h
    by_cases hd : d = 0
    · subst hd
      simp only [ne_eq, not_true_eq_false, if_false] at h
      cases h' : trailingZerosU ds with
      | none => rw [h'] at h; simp at h
      | some t' =>
        rw [h'] at h
        simp at h
        subst h
        obtain ⟨digit, rest, e1, e2, e3⟩ := ih t' hok.tail h'
        refine ⟨digit, rest, ?_, e2, ?_⟩
        · have : (t' + BITS) / BITS = t' / BITS + 1 := Nat.add_div_right _ (by decide)
          rw [this, List.replicate_succ, List.cons_append, ← e1]
        · rw [e3]; simp
    · simp only [ne_eq, hd, not_false_eq_true, if_true, Option.some.injEq] at h
      subst h
      have hlt := (tzDigit_spec hd hok.head).1
      refine ⟨d, ds, ?_, hd, ?_⟩
      · rw [Nat.div_eq_of_lt hlt]; rfl
      · rw [Nat.mod_eq_of_lt hlt]

theorem dnot_dnot {d : Nat} (hd : d < B) : dnot (dnot d) = d := by unfold dnot MAXD; omega

theorem clearLoop_spec : ∀ (ds : List Nat) (cout : Nat), DigitsOk ds → cout ≤ 1 →
    val (clearLoop 0 cout ds).1 + B ^ ds.length * (clearLoop 0 cout ds).2.2 = val ds + cout ∧
    (clearLoop 0 cout ds).2.1 = 0 ∧ (clearLoop 0 cout ds).1.length = ds.length ∧
    DigitsOk (clearLoop 0 cout ds).1 ∧ (clearLoop 0 cout ds).2.2 ≤ 1 := by
  intro ds
  induction ds with
  | nil => intro cout _ hc; simp [clearLoop, val, hc, DigitsOk.nil]
  | cons d ds ih =>
    intro cout hd hc
    unfold clearLoop
    by_cases h0 : cout = 0
    · subst h0; simp [hd]
    · have hc1 : cout = 1 := by omega
      subst hc1
      simp only [true_and, Nat.succ_ne_zero, if_false]
      have hdB := hd.head
      have e1 : negCarry d 0 = (dnot d, 0) := by
        unfold negCarry
        have : dnot d < B := dnot_lt
        simp [Nat.mod_eq_of_lt this, Nat.div_eq_of_lt this]
      rw [e1]
      simp only
      have e2 : negCarry (dnot d) 1 = ((1 + d) % B, (1 + d) / B) := by
        unfold negCarry; rw [dnot_dnot hdB]
      rw [e2]
      simp only
      have hc' : (1 + d) / B ≤ 1 := by
        have : 1 + d < 2 * B := by omega
        have := (Nat.div_lt_iff_lt_mul B_pos).2 this
        omega
      obtain ⟨i1, i2, i3, i4, i5⟩ := ih ((1 + d) / B) hd.tail hc'
      refine ⟨?_, i2, by simp [i3], DigitsOk.cons (Nat.mod_lt _ B_pos) i4, i5⟩
      simp only [val_cons, List.length_cons, pow_succ]
      have hdm := Nat.mod_add_div (1 + d) B
      generalize (clearLoop 0 ((1 + d) / B) ds) = r at *
      generalize (1 + d) % B = lo at *
      generalize (1 + d) / B = hi at *
      calc lo + B * val r.1 + B ^ ds.length * B * r.2.2
          = lo + B * (val r.1 + B ^ ds.length * r.2.2) := by ring
        _ = lo + B * (val ds + hi) := by rw [i1]
        _ = (lo + B * hi) + B * val ds := by ring
        _ = d + B * val ds + 1 := by rw [hdm]; ring

/-- the digit-level core of "clear the lowest set bit of a negative number" -/
theorem clear_digit {digit j q : Nat} (hd : digit < B) (hj : j < BITS) (hq : digit = 2 ^ j * (2 * q + 1)) :
    negCarry digit 1 = (B - digit, 0) ∧
    negCarry ((B - digit) &&& dnot (1 <<< j)) 1 = ((digit + 2 ^ j) % B, (digit + 2 ^ j) / B) ∧
    (digit + 2 ^ j) / B ≤ 1 := by
  have hpos : 0 < digit := by rw [hq]; exact Nat.mul_pos (Nat.pow_pos (by decide)) (by omega)
  have hjB : 2 ^ j < B := by rw [B_eq_bits]; exact Nat.pow_lt_pow_right (by decide) hj
  have h1 : negCarry digit 1 = (B - digit, 0) := by
    unfold negCarry dnot MAXD
    have e : 1 + (B - 1 - digit) = B - digit := by omega
    rw [e, Nat.mod_eq_of_lt (by omega), Nat.div_eq_of_lt (by omega)]
  -- B - digit = 2^j * odd, so bit j is set
  have hB : B = 2 ^ j * (2 * 2 ^ (BITS - 1 - j)) := by
    rw [B_eq_bits, ← Nat.pow_succ', ← Nat.pow_add]; congr 1; omega
  have hle : q + 1 ≤ 2 ^ (BITS - 1 - j) := by
    have h1 : 2 ^ j * (2 * q + 1) < 2 ^ j * (2 * 2 ^ (BITS - 1 - j)) := by rw [← hB, ← hq]; exact hd
    have := Nat.lt_of_mul_lt_mul_left h1
    omega
  have hodd : B - digit = 0 + 2 ^ j * (2 * (2 ^ (BITS - 1 - j) - q - 1) + 1) := by
    have : 2 ^ j * (2 * (2 ^ (BITS - 1 - j) - q - 1) + 1) + 2 ^ j * (2 * q + 1) = B := by
      rw [hB, ← Nat.mul_add]; congr 1; omega
    omega
  have hbit : (B - digit).testBit j = true := by
    rw [hodd, testBit_block _ (Nat.pow_pos (by decide)), if_neg (Nat.lt_irrefl _), Nat.sub_self,
      Nat.testBit_zero]
    simp
  have h2 : (B - digit) &&& dnot (1 <<< j) = B - digit - 2 ^ j := by
    rw [and_dnot_mask (by omega) hj, ldiff_two_pow_eq, hbit]; rfl
  have hge : 2 ^ j ≤ B - digit := testBit_ge hbit
  refine ⟨h1, ?_, ?_⟩
  · rw [h2]
    unfold negCarry dnot MAXD
    have e : ∀ (Bv p dg : Nat), 0 < dg → dg < Bv → p ≤ Bv - dg → 1 + (Bv - 1 - (Bv - dg - p)) = dg + p := by
      intros; omega
    rw [e B (2 ^ j) digit hpos hd hge]
  · have h2B : digit + 2 ^ j < 2 * B := by
      rw [Nat.two_mul]; exact Nat.add_lt_add hd hjB
    have := (Nat.div_lt_iff_lt_mul B_pos).2 h2B
    exact Nat.le_of_lt_succ this

theorem clear_at_tz_val (pre rest : List Nat) (digit j q : Nat) (hpre : DigitsOk pre) (hrest : DigitsOk rest)
    (hd : digit < B) (hj : j < BITS) (hq : digit = 2 ^ j * (2 * q + 1)) :
    let tin := negCarry digit 1
    let o := negCarry (tin.1 &&& dnot (1 <<< j)) 1
    let r := clearLoop tin.2 o.2 rest
    let d := pre ++ o.1 :: r.1
    r.2.1 = 0 ∧ r.2.2 ≤ 1 ∧ DigitsOk d ∧
    val d + B ^ d.length * r.2.2 = val (pre ++ digit :: rest) + B ^ pre.length * 2 ^ j := by
  obtain ⟨h1, h2, h3⟩ := clear_digit hd hj hq
  intro tin o r d
  have etin : tin = (B - digit, 0) := h1
  have eo : o = ((digit + 2 ^ j) % B, (digit + 2 ^ j) / B) := by
    show negCarry (tin.1 &&& dnot (1 <<< j)) 1 = _
    rw [etin]; exact h2
  have er : r = clearLoop 0 ((digit + 2 ^ j) / B) rest := by
    show clearLoop tin.2 o.2 rest = _
    rw [etin, eo]
  obtain ⟨c1, c2, c3, c4, c5⟩ := clearLoop_spec rest ((digit + 2 ^ j) / B) hrest h3
  rw [← er] at c1 c2 c3 c4 c5
  have ed : d = pre ++ ((digit + 2 ^ j) % B) :: r.1 := by
    show pre ++ o.1 :: r.1 = _
    rw [eo]
  refine ⟨c2, c5, ?_, ?_⟩
  · rw [ed]; exact hpre.append (DigitsOk.cons (Nat.mod_lt _ B_pos) c4)
  · rw [ed, val_append, val_append, val_cons, val_cons]
    simp only [List.length_append, List.length_cons, c3]
    have hdm := Nat.mod_add_div (digit + 2 ^ j) B
    have e1 : B ^ (pre.length + (rest.length + 1)) = B ^ pre.length * (B * B ^ rest.length) := by
      rw [pow_add, pow_succ]; ring
    rw [e1]
    generalize (digit + 2 ^ j) % B = lo at *
    generalize (digit + 2 ^ j) / B = hi at *
    generalize B ^ pre.length = Pp at *
    generalize B ^ rest.length = Pr at *
    calc val pre + Pp * (lo + B * val r.1) + Pp * (B * Pr) * r.2.2
        = val pre + Pp * (lo + B * (val r.1 + Pr * r.2.2)) := by ring
      _ = val pre + Pp * (lo + B * (val rest + hi)) := by rw [c1]
      _ = val pre + Pp * ((lo + B * hi) + B * val rest) := by ring
      _ = val pre + Pp * (digit + B * val rest) + Pp * 2 ^ j := by rw [hdm]; ring

theorem xor_all_ones {n x : Nat} (hx : x < 2 ^ n) : x ^^^ (2 ^ n - 1) = 2 ^ n - 1 - x := by
  apply Nat.eq_of_testBit_eq; intro i
  rw [Nat.testBit_xor, Nat.testBit_two_pow_sub_one,
    show 2 ^ n - 1 - x = 2 ^ n - (x + 1) by omega, Nat.testBit_two_pow_sub_succ hx]
  by_cases hi : i < n
  · simp [hi]
  · have : x.testBit i = false :=
      Nat.testBit_lt_two_pow (Nat.lt_of_lt_of_le hx (Nat.pow_le_pow_right (by decide) (by omega)))
    simp [hi, this]

/-- flipping bits `k'..j` of a digit whose lowest set bit is `j` subtracts `2^k'` -/
theorem flip_digit {digit j q k' : Nat} (hq : digit = 2 ^ j * (2 * q + 1)) (hk : k' ≤ j) :
    digit ^^^ (2 ^ (j + 1) - 2 ^ k') = digit - 2 ^ k' := by
  have hp1 : 0 < 2 ^ k' := Nat.pow_pos (by decide)
  have hjk : 2 ^ j = 2 ^ k' * 2 ^ (j - k') := by rw [← Nat.pow_add]; congr 1; omega
  have hj1 : 2 ^ (j + 1) = 2 ^ k' * 2 ^ (j - k' + 1) := by rw [← Nat.pow_add]; congr 1; omega
  have hlow : 2 ^ (j - k') < 2 ^ (j - k' + 1) := Nat.pow_lt_pow_right (by decide) (by omega)
  -- low j+1 bits
  have e1 : 2 ^ j ^^^ (2 ^ (j + 1) - 2 ^ k') = 2 ^ j - 2 ^ k' := by
    have a1 : 2 ^ j = 0 + 2 ^ k' * 2 ^ (j - k') := by rw [Nat.zero_add]; exact hjk
    have a2 : 2 ^ (j + 1) - 2 ^ k' = 0 + 2 ^ k' * (2 ^ (j - k' + 1) - 1) := by
      rw [Nat.zero_add, Nat.mul_sub, ← hj1, Nat.mul_one]
    rw [a2]; conv_lhs => rw [a1]
    rw [xor_block _ _ hp1 hp1, xor_all_ones hlow]
    simp only [Nat.xor_self, Nat.zero_add]
    have : 2 ^ (j - k' + 1) - 1 - 2 ^ (j - k') = 2 ^ (j - k') - 1 := by
      rw [Nat.pow_succ]; omega
    rw [this, Nat.mul_sub, ← hjk, Nat.mul_one]
  have hlt1 : 2 ^ j < 2 ^ (j + 1) := Nat.pow_lt_pow_right (by decide) (by omega)
  have hm : 2 ^ (j + 1) - 2 ^ k' < 2 ^ (j + 1) := by omega
  have hd : digit = 2 ^ j + 2 ^ (j + 1) * q := by rw [hq, Nat.pow_succ]; ring
  have hmask : 2 ^ (j + 1) - 2 ^ k' = (2 ^ (j + 1) - 2 ^ k') + 2 ^ (j + 1) * 0 := by simp
  rw [hmask]; conv_lhs => rw [hd]
  rw [xor_block _ _ hlt1 hm, e1]
  simp only [Nat.xor_zero]
  have hle : 2 ^ k' ≤ 2 ^ j := Nat.pow_le_pow_right (by decide) hk
  rw [hd]; omega

theorem maskLo_eq {k' : Nat} (hk : k' < BITS) : (MAXD <<< k') % B = B - 2 ^ k' := by
  have hB : B = 2 ^ k' * 2 ^ (BITS - k') := by rw [B_eq_bits, ← Nat.pow_add]; congr 1; omega
  have hp : 0 < 2 ^ k' := Nat.pow_pos (by decide)
  have hlt : 2 ^ k' < B := by rw [B_eq_bits]; exact Nat.pow_lt_pow_right (by decide) hk
  rw [Nat.shiftLeft_eq]
  unfold MAXD
  have e : (B - 1) * 2 ^ k' = (B - 2 ^ k') + B * (2 ^ k' - 1) := by
    have h1 : (B - 1) * 2 ^ k' = B * 2 ^ k' - 2 ^ k' := by rw [Nat.sub_mul, Nat.one_mul]
    have h2 : B * (2 ^ k' - 1) = B * 2 ^ k' - B := by rw [Nat.mul_sub, Nat.mul_one]
    have h3 : B ≤ B * 2 ^ k' := Nat.le_mul_of_pos_right _ hp
    omega
  rw [e, Nat.add_mul_mod_self_left, Nat.mod_eq_of_lt (by omega)]

theorem maskHi_eq {j : Nat} (hj : j < BITS) : MAXD >>> (BITS - 1 - j) = 2 ^ (j + 1) - 1 := by
  have hB : B = 2 ^ (BITS - 1 - j) * 2 ^ (j + 1) := by rw [B_eq_bits, ← Nat.pow_add]; congr 1; omega
  have hp : 0 < 2 ^ (BITS - 1 - j) := Nat.pow_pos (by decide)
  have hp2 : 0 < 2 ^ (j + 1) := Nat.pow_pos (by decide)
  rw [Nat.shiftRight_eq_div_pow]
  unfold MAXD
  generalize 2 ^ (BITS - 1 - j) = Q at *
  generalize 2 ^ (j + 1) = R at *
  have e : B - 1 = (Q - 1) + Q * (R - 1) := by
    have : Q * (R - 1) = Q * R - Q := by rw [Nat.mul_sub, Nat.mul_one]
    have : Q ≤ Q * R := Nat.le_mul_of_pos_right _ hp2
    omega
  rw [e, Nat.add_mul_div_left _ _ hp, Nat.div_eq_of_lt (by omega)]; simp

/-- `mask_lo & mask_hi` when both indices fall in the same digit -/
theorem maskLoHi_eq {k' j : Nat} (hj : j < BITS) (hk : k' ≤ j) :
    (B - 2 ^ k') &&& (2 ^ (j + 1) - 1) = 2 ^ (j + 1) - 2 ^ k' := by
  rw [Nat.and_two_pow_sub_one_eq_mod]
  have hB : B = 2 ^ (j + 1) * 2 ^ (BITS - 1 - j) := by rw [B_eq_bits, ← Nat.pow_add]; congr 1; omega
  have hp2 : 0 < 2 ^ (BITS - 1 - j) := Nat.pow_pos (by decide)
  have hle : 2 ^ k' < 2 ^ (j + 1) := Nat.pow_lt_pow_right (by decide) (by omega)
  have hp : 0 < 2 ^ k' := Nat.pow_pos (by decide)
  generalize 2 ^ (j + 1) = R at *
  generalize 2 ^ (BITS - 1 - j) = Q at *
  generalize 2 ^ k' = p at *
  have e : B - p = (R - p) + R * (Q - 1) := by
    have : R * (Q - 1) = R * Q - R := by rw [Nat.mul_sub, Nat.mul_one]
    have : R ≤ R * Q := Nat.le_mul_of_pos_right _ hp2
    omega
  rw [e, Nat.add_mul_mod_self_left, Nat.mod_eq_of_lt (by omega)]

theorem set_append_at {l1 : List Nat} (x : Nat) (l2 : List Nat) (a : Nat) {n : Nat} (h : l1.length = n) :
    (l1 ++ x :: l2).set n a = l1 ++ a :: l2 := by
  subst h; simp

theorem getD_append_at {l1 : List Nat} (x : Nat) (l2 : List Nat) {n : Nat} (h : l1.length = n) :
    (l1 ++ x :: l2).getD n 0 = x := by
  subst h; simp

theorem take_append_at {l1 : List Nat} (x : Nat) (l2 : List Nat) {n : Nat} (h : l1.length = n) :
    (l1 ++ x :: l2).take (n + 1) = l1 ++ [x] := by
  subst h
  induction l1 with
  | nil => simp
  | cons y ys ih => simp [ih]

theorem drop_append_at {l1 : List Nat} (l2 : List Nat) {n : Nat} (h : l1.length = n) :
    (l1 ++ l2).drop n = l2 := by
  subst h; simp

theorem val_replicate_maxd (n : Nat) : val (List.replicate n MAXD) + 1 = B ^ n := by
  induction n with
  | zero => simp [val]
  | succ n ih =>
    simp only [List.replicate_succ, val_cons, pow_succ]
    have hB : MAXD + 1 = B := by unfold MAXD; have := B_pos; omega
    have : B * (val (List.replicate n MAXD) + 1) = B * B ^ n := by rw [ih]
    rw [Nat.mul_add, Nat.mul_one] at this
    rw [Nat.mul_comm (B ^ n) B]; omega

/-- the value-level effect of the "set a bit below the lowest set bit" branch -/
theorem set_below_tz_val (rest : List Nat) (digit j q lo i k' : Nat) (hrest : DigitsOk rest)
    (hd : digit < B) (hj : j < BITS) (hq : digit = 2 ^ j * (2 * q + 1)) (hk' : k' < BITS)
    (hlo : lo ≤ i) (hlt : lo = i → k' < j) :
    let data := List.replicate i 0 ++ digit :: rest
    let maskLo := (MAXD <<< k') % B
    let maskHi := MAXD >>> (BITS - 1 - j)
    let d1 := data.set lo maskLo
    let d2 := d1.take (lo + 1) ++ List.replicate (i - (lo + 1)) MAXD ++ d1.drop i
    let out := if lo = i then data.set lo (data.getD lo 0 ^^^ (maskLo &&& maskHi))
               else d2.set i (d2.getD i 0 ^^^ maskHi)
    DigitsOk out ∧ val out + B ^ lo * 2 ^ k' = val data := by
  intro data maskLo maskHi d1 d2 out
  have hz : ∀ n, DigitsOk (List.replicate n 0) := fun n => digitsOk_replicate (by decide)
  have hmx : ∀ n, DigitsOk (List.replicate n MAXD) := fun n => digitsOk_replicate (by unfold MAXD; have := B_pos; omega)
  have eLo : maskLo = B - 2 ^ k' := maskLo_eq hk'
  have eHi : maskHi = 2 ^ (j + 1) - 1 := maskHi_eq hj
  have hvdata : val data = B ^ i * (digit + B * val rest) := by
    show val (List.replicate i 0 ++ digit :: rest) = _
    rw [val_append, val_replicate_zero, List.length_replicate, val_cons]; simp
  have hpk : 0 < 2 ^ k' := Nat.pow_pos (by decide)
  by_cases hli : lo = i
  · have hkj := hlt hli
    subst hli
    have eout : out = List.replicate lo 0 ++ (digit - 2 ^ k') :: rest := by
      show (if lo = lo then data.set lo (data.getD lo 0 ^^^ (maskLo &&& maskHi)) else _) = _
      rw [if_pos rfl]
      show (List.replicate lo 0 ++ digit :: rest).set lo ((List.replicate lo 0 ++ digit :: rest).getD lo 0 ^^^ (maskLo &&& maskHi)) = _
      rw [getD_append_at _ _ (List.length_replicate), set_append_at _ _ _ (List.length_replicate),
        eLo, eHi, maskLoHi_eq hj (by omega), flip_digit hq (by omega)]
    have hle : 2 ^ k' ≤ digit := by
      rw [hq]
      calc 2 ^ k' ≤ 2 ^ j := Nat.pow_le_pow_right (by decide) (by omega)
        _ ≤ 2 ^ j * (2 * q + 1) := Nat.le_mul_of_pos_right _ (by omega)
    rw [eout, hvdata]
    refine ⟨(hz lo).append (DigitsOk.cons (by omega) hrest), ?_⟩
    rw [val_append, val_replicate_zero, List.length_replicate, val_cons, Nat.zero_add, ← Nat.mul_add]
    congr 1; omega
  · have hlo' : lo < i := by omega
    obtain ⟨m, hm⟩ : ∃ m, i = lo + 1 + m := ⟨i - lo - 1, by omega⟩
    have erep : List.replicate i 0 = List.replicate lo 0 ++ 0 :: List.replicate m 0 := by
      rw [hm, Nat.add_assoc, ← List.replicate_append_replicate, Nat.add_comm 1 m, List.replicate_succ]
    have edata : data = List.replicate lo 0 ++ 0 :: (List.replicate m 0 ++ digit :: rest) := by
      show List.replicate i 0 ++ digit :: rest = _
      rw [erep]; simp
    have ed1 : d1 = List.replicate lo 0 ++ maskLo :: (List.replicate m 0 ++ digit :: rest) := by
      show data.set lo maskLo = _
      rw [edata, set_append_at _ _ _ (List.length_replicate)]
    have ed1' : d1 = (List.replicate lo 0 ++ maskLo :: List.replicate m 0) ++ digit :: rest := by
      rw [ed1]; simp
    have hl1 : (List.replicate lo 0 ++ maskLo :: List.replicate m 0).length = i := by
      simp; omega
    have ed2 : d2 = (List.replicate lo 0 ++ maskLo :: List.replicate m MAXD) ++ digit :: rest := by
      show d1.take (lo + 1) ++ List.replicate (i - (lo + 1)) MAXD ++ d1.drop i = _
      rw [show i - (lo + 1) = m by omega]
      conv_lhs => rw [ed1' ]
      rw [drop_append_at _ hl1, ← ed1', ed1, take_append_at _ _ (List.length_replicate)]
      simp
    have hl2 : (List.replicate lo 0 ++ maskLo :: List.replicate m MAXD).length = i := by
      simp; omega
    have eout : out = (List.replicate lo 0 ++ maskLo :: List.replicate m MAXD) ++ (digit - 1) :: rest := by
      show (if lo = i then _ else d2.set i (d2.getD i 0 ^^^ maskHi)) = _
      rw [if_neg hli, ed2, getD_append_at _ _ hl2, set_append_at _ _ _ hl2, eHi]
      have := flip_digit (k' := 0) hq (Nat.zero_le _)
      rw [pow_zero] at this
      rw [this]
    have hd1 : 1 ≤ digit := by rw [hq]; exact Nat.mul_pos (Nat.pow_pos (by decide)) (by omega)
    have hmlo : maskLo < B := by rw [eLo]; have := B_pos; omega
    rw [eout, hvdata]
    refine ⟨((hz lo).append (DigitsOk.cons hmlo (hmx m))).append (DigitsOk.cons (by omega) hrest), ?_⟩
    rw [val_append, hl2, val_append, val_replicate_zero, List.length_replicate, val_cons, val_cons, eLo]
    have hmax := val_replicate_maxd m
    have hBi : B ^ i = B ^ lo * (B * B ^ m) := by rw [hm, pow_add, pow_add]; ring
    have hlt2 : 2 ^ k' < B := by rw [B_eq_bits]; exact Nat.pow_lt_pow_right (by decide) hk'
    rw [hBi]
    generalize val (List.replicate m MAXD) = vm at *
    generalize B ^ m = Pm at *
    generalize B ^ lo = Pl at *
    generalize 2 ^ k' = p at *
    generalize val rest = vr at *
    -- Pl*(B - p + B*vm) + Pl*B*Pm*(digit - 1 + B*vr) + Pl*p = Pl*B*Pm*(digit + B*vr)
    have e1 : Pl * ((B - p) + B * vm) + Pl * p = Pl * (B * Pm) := by
      rw [← Nat.mul_add]; congr 1
      rw [← hmax, Nat.mul_add]; omega
    have e2 : digit - 1 + B * vr + 1 = digit + B * vr := by omega
    calc 0 + Pl * (B - p + B * vm) + Pl * (B * Pm) * (digit - 1 + B * vr) + Pl * p
        = (Pl * ((B - p) + B * vm) + Pl * p) + Pl * (B * Pm) * (digit - 1 + B * vr) := by ring
      _ = Pl * (B * Pm) * (digit - 1 + B * vr + 1) := by rw [e1]; ring
      _ = Pl * (B * Pm) * (digit + B * vr) := by rw [e2]

theorem two_pow_split (k : Nat) : 2 ^ k = B ^ (k / BITS) * 2 ^ (k % BITS) := by
  rw [B_pow, ← Nat.pow_add, Nat.div_add_mod]

theorem setNegativeBit_spec (data : List Nat) (k : Nat) (v : Bool) (h : Canon data) (hne : data ≠ []) :
    ∃ out, setNegativeBit data k v = .ok out ∧ DigitsOk out ∧ val out = negSetTarget (val data) k v := by
  have hA := canon_val_pos h hne
  have hAlt := val_lt h.1
  unfold setNegativeBit negSetTarget
  by_cases hge : k ≥ BITS * data.length
  · -- beyond the top digit: the two's complement bit is 1
    simp only [hge, if_true]
    have hpow : B ^ data.length ≤ 2 ^ k := by rw [B_pow]; exact Nat.pow_le_pow_right (by decide) hge
    have hb1 : (val data - 1).testBit k = false := Nat.testBit_lt_two_pow (by omega)
    have hb2 : (val data).testBit k = false := Nat.testBit_lt_two_pow (by omega)
    cases v with
    | true => exact ⟨data, by simp, h.1, by simp [hb1]⟩
    | false =>
      obtain ⟨s1, s2⟩ := setBitU_true data k h
      refine ⟨setBitU data k true, by simp, s2.1, ?_⟩
      rw [s1, or_two_pow_eq, hb2]; simp [hb1]
  · simp only [hge, if_false]
    obtain ⟨t, q, ht, hq⟩ := (trailingZerosU_spec data h.1).2 (by omega)
    rw [ht]
    simp only
    have hbit := testBit_pred_odd_mul t q k
    rw [← hq] at hbit
    rcases Nat.lt_trichotomy k t with hlt | heq | hgt
    · -- below the lowest set bit
      have c1 : ¬ k > t := by omega
      have c2 : ¬ (k = t ∧ (!v) = true) := by omega
      simp only [c1, c2, if_false, hlt, true_and]
      have hb : (val data - 1).testBit k = true := by rw [hbit]; simp [hlt]
      cases v with
      | false => exact ⟨data, by simp, h.1, by simp [hb]⟩
      | true =>
        simp only [if_true, hb]
        obtain ⟨digit, rest, e1, e2, e3⟩ := tz_structure data t h.1 ht
        have hdok : DigitsOk (digit :: rest) := by rw [e1] at h; exact h.1.right
        obtain ⟨hjlt, q', hq'⟩ := tzDigit_spec e2 hdok.head
        rw [e3] at hjlt hq'
        have hlo : k / BITS ≤ t / BITS := Nat.div_le_div_right (by omega)
        have hsame : k / BITS = t / BITS → k % BITS < t % BITS := by
          intro he
          have := Nat.div_add_mod k BITS
          have := Nat.div_add_mod t BITS
          rw [he] at *; omega
        obtain ⟨o1, o2⟩ := set_below_tz_val rest digit (t % BITS) q' (k / BITS) (t / BITS) (k % BITS)
          hdok.tail hdok.head hjlt hq' (Nat.mod_lt _ (by decide)) hlo hsame
        have hlen : ¬ (t / BITS ≥ data.length) := by
          rw [e1]; simp
        simp only [hlen, if_false]
        rw [← e1] at o1 o2
        rw [← two_pow_split] at o2
        by_cases hsi : k / BITS = t / BITS
        · simp only [hsi, if_true] at o1 o2 ⊢
          exact ⟨_, rfl, o1, by omega⟩
        · simp only [hsi, if_false] at o1 o2 ⊢
          exact ⟨_, rfl, o1, by omega⟩
    · -- at the lowest set bit
      subst heq
      have c1 : ¬ k > k := by omega
      have hb : (val data - 1).testBit k = false := by rw [hbit]; simp
      simp only [c1, if_false, true_and, false_and, hb]
      cases v with
      | true => exact ⟨data, by simp, h.1, by simp⟩
      | false =>
        simp only [Bool.not_false, if_true, Bool.false_eq_true, if_false]
        obtain ⟨digit, rest, e1, e2, e3⟩ := tz_structure data k h.1 ht
        have hdok : DigitsOk (digit :: rest) := by rw [e1] at h; exact h.1.right
        have hpre : DigitsOk (List.replicate (k / BITS) 0) := digitsOk_replicate (by decide)
        obtain ⟨hjlt, q', hq'⟩ := tzDigit_spec e2 hdok.head
        rw [e3] at hjlt hq'
        obtain ⟨r1, r2, r3, r4⟩ := clear_at_tz_val (List.replicate (k / BITS) 0) rest digit (k % BITS) q'
          hpre hdok.tail hdok.head hjlt hq'
        have edrop : data.drop (k / BITS) = digit :: rest := by
          conv_lhs => rw [e1]
          exact drop_append_at _ (List.length_replicate)
        have etake : data.take (k / BITS) = List.replicate (k / BITS) 0 := by
          conv_lhs => rw [e1]
          simp
        rw [edrop]
        simp only [etake]
        simp only [List.length_replicate] at r4
        rw [← e1, ← two_pow_split] at r4
        generalize hr : clearLoop (negCarry digit 1).2 (negCarry ((negCarry digit 1).1 &&& dnot (1 <<< (k % BITS))) 1).2 rest = r at *
        generalize ho : negCarry ((negCarry digit 1).1 &&& dnot (1 <<< (k % BITS))) 1 = o at *
        by_cases hc : r.2.2 = 0
        · simp only [hc, ne_eq, not_true_eq_false, if_false]
          rw [hc] at r4
          exact ⟨_, rfl, r3, by omega⟩
        · have hc1 : r.2.2 = 1 := by omega
          simp only [hc, ne_eq, not_false_eq_true, if_true, r1, not_true_eq_false, if_false]
          refine ⟨_, rfl, r3.append (by decide), ?_⟩
          rw [val_append, ← r4, hc1]; simp [val]
    · -- above the lowest set bit: the two's complement bit is the complement of the magnitude's
      simp only [hgt, if_true]
      have c1 : ¬ k < t := by omega
      have c2 : ¬ k = t := by omega
      have hb : (val data - 1).testBit k = (val data).testBit k := by rw [hbit]; simp [c1, c2]
      rw [hb]
      cases v with
      | true =>
        obtain ⟨s1, s2⟩ := setBitU_false data k h
        refine ⟨setBitU data k false, by simp, s2.1, ?_⟩
        rw [s1, ldiff_two_pow_eq]; simp
      | false =>
        obtain ⟨s1, s2⟩ := setBitU_true data k h
        refine ⟨setBitU data k true, by simp, s2.1, ?_⟩
        rw [s1, or_two_pow_eq]; simp

end NB.C07
