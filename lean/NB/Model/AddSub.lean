/-
  NB.Model.AddSub — model of src/biguint/addition.rs, src/biguint/subtraction.rs and the
  sign dispatch of src/bigint/addition.rs, src/bigint/subtraction.rs.

  `P : Params` carries the description of the asm routines (`P.addBlk`, `P.subBlk`: block width from
  the generated instruction list, divisor from `size /= 5`; see NB.Gen).  It handles the first `w * (len / d)` digits with a chained adc/sbb
  (its instruction-level model is in NB.Model.Asm); the rest goes through the scalar loop.
-/
import NB.Base
namespace NB

/-- `_addcarry_u64`: (out, carry_out) -/
def adc (c a b : Nat) : Nat × Nat := ((a + b + c) % B, (a + b + c) / B)

/-- `_subborrow_u64`: (out, borrow_out) computing a - b - c -/
def sbb (c a b : Nat) : Nat × Nat :=
  if b + c ≤ a then (a - (b + c), 0) else (a + B - (b + c), 1)

/-- chained adc over the zip of two slices (stops at the shorter, like `iter().zip`) -/
def adcZip (c : Nat) : List Nat → List Nat → List Nat × Nat
  | a :: as, b :: bs =>
    let o := adc c a b
    let r := adcZip o.2 as bs
    (o.1 :: r.1, r.2)
  | _, _ => ([], c)

/-- carry propagation into the high part: `for a in a_hi { carry = adc(carry,*a,0,a); if carry == 0 {break} }`
    guarded by `if carry != 0`. Untouched digits are copied. -/
def adcProp (c : Nat) : List Nat → List Nat × Nat
  | [] => ([], c)
  | a :: as =>
    if c = 0 then (a :: as, 0)
    else
      let o := adc c a 0
      let r := adcProp o.2 as
      (o.1 :: r.1, r.2)

/-- `__add2(a, b)` with `a.len() >= b.len()`: returns (new a, carry). -/
def add2c (P : Params) (a b : List Nat) : List Nat × Nat :=
  let aLo := a.take b.length
  let aHi := a.drop b.length
  let done := P.addBlk.done b.length
  let r1 := adcZip 0 (aLo.take done) (b.take done)       -- asm blocks
  let r2 := adcZip r1.2 (aLo.drop done) (b.drop done)    -- scalar tail
  let r3 := adcProp r2.2 aHi                             -- propagate
  (r1.1 ++ r2.1 ++ r3.1, r3.2)

/-- `add2`: the debug assertion `carry == 0` becomes an internal error -/
def add2 (P : Params) (a b : List Nat) : Except Panic (List Nat) :=
  let r := add2c P a b
  if r.2 = 0 then .ok r.1 else .error (.internal "add2 carry")

/-- `impl AddAssign<&BigUint> for BigUint` -/
def addAssign (P : Params) (a b : List Nat) : List Nat :=
  let r :=
    if a.length < b.length then
      let lo := add2c P a (b.take a.length)
      let hi := add2c P (b.drop a.length) [lo.2]
      (lo.1 ++ hi.1, hi.2)
    else add2c P a b
  if r.2 ≠ 0 then r.1 ++ [r.2] else r.1

/-- `&a + &b` (forward_ref_ref_binop_commutative: clone the longer) -/
def addRef (P : Params) (a b : List Nat) : List Nat :=
  if a.length ≥ b.length then addAssign P a b else addAssign P b a

/-- chained sbb over the zip -/
def sbbZip (c : Nat) : List Nat → List Nat → List Nat × Nat
  | a :: as, b :: bs =>
    let o := sbb c a b
    let r := sbbZip o.2 as bs
    (o.1 :: r.1, r.2)
  | _, _ => ([], c)

def sbbProp (c : Nat) : List Nat → List Nat × Nat
  | [] => ([], c)
  | a :: as =>
    if c = 0 then (a :: as, 0)
    else
      let o := sbb c a 0
      let r := sbbProp o.2 as
      (o.1 :: r.1, r.2)

/-- `sub2(a, b)`: a -= b, panics on underflow -/
def sub2 (P : Params) (a b : List Nat) : Except Panic (List Nat) :=
  let len := min a.length b.length
  let aLo := a.take len
  let aHi := a.drop len
  let bLo := b.take len
  let bHi := b.drop len
  let done := P.subBlk.done len
  let r1 := sbbZip 0 (aLo.take done) (bLo.take done)
  let r2 := sbbZip r1.2 (aLo.drop done) (bLo.drop done)
  let r3 := sbbProp r2.2 aHi
  if r3.2 = 0 ∧ bHi.all (· == 0) then .ok (r1.1 ++ r2.1 ++ r3.1) else .error .underflow

/-- `__sub2rev(a, b)`: b = a - b over equal-length slices, returns (new b, borrow) -/
def sub2revc (a b : List Nat) : List Nat × Nat := sbbZip 0 a b

/-- `sub2rev(a, b)`: b = a - b, `b.len() >= a.len()` -/
def sub2rev (a b : List Nat) : Except Panic (List Nat) :=
  let len := min a.length b.length
  let aLo := a.take len
  let aHi := a.drop len
  let bLo := b.take len
  let bHi := b.drop len
  let r := sub2revc aLo bLo
  if aHi ≠ [] then .error (.internal "sub2rev a_hi") else
  if r.2 = 0 ∧ bHi.all (· == 0) then .ok (r.1 ++ bHi) else .error .underflow

/-- `impl SubAssign<&BigUint> for BigUint` -/
def subAssign (P : Params) (a b : List Nat) : Except Panic (List Nat) :=
  (sub2 P a b).map normalize

/-- `&a - &b` = `a.clone() - &b` = sub_assign -/
def subRef (P : Params) (a b : List Nat) : Except Panic (List Nat) := subAssign P a b

/-- `impl Sub<BigUint> for &BigUint`: `&a - b` reusing b's buffer -/
def subRefVal (P : Params) (a b : List Nat) : Except Panic (List Nat) :=
  if b.length < a.length then
    let lo := sub2revc (a.take b.length) b
    let hiIn := a.drop b.length
    if lo.2 ≠ 0 then
      (sub2 P hiIn [1]).map (fun hi => normalize (lo.1 ++ hi))
    else .ok (normalize (lo.1 ++ hiIn))
  else (sub2rev a b).map normalize

/-- `checked_sub` -/
def checkedSub (P : Params) (a b : List Nat) : Except Panic (Option (List Nat)) :=
  match cmpSlice a b with
  | .lt => .ok none
  | .eq => .ok (some [])
  | .gt => (subRef P a b).map some

/-- the magnitude-difference arm shared by `bigint_add!` (opposite signs) and `bigint_sub!`
    (equal signs): compare, subtract the smaller magnitude from the larger, the result takes
    the left sign `s` if the left magnitude is larger and the opposite sign otherwise -/
def BigInt.subMag (P : Params) (s : Sign) (ma mb : List Nat) : Except Panic BigInt :=
  match cmpSlice ma mb with
  | .lt => (subRef P mb ma).map (BigInt.fromBiguint s.neg)
  | .gt => (subRef P ma mb).map (BigInt.fromBiguint s)
  | .eq => .ok ⟨.nosign, []⟩

/-- `bigint_add!` for the ref/ref form -/
def BigInt.add (P : Params) (a b : BigInt) : Except Panic BigInt :=
  match a.sign, b.sign with
  | _, .nosign => .ok a
  | .nosign, _ => .ok b
  | .plus, .plus | .minus, .minus => .ok (BigInt.fromBiguint a.sign (addRef P a.mag b.mag))
  | .plus, .minus | .minus, .plus => BigInt.subMag P a.sign a.mag b.mag

def BigInt.neg (a : BigInt) : BigInt := ⟨a.sign.neg, a.mag⟩

/-- `bigint_sub!` for the ref/ref form -/
def BigInt.sub (P : Params) (a b : BigInt) : Except Panic BigInt :=
  match a.sign, b.sign with
  | _, .nosign => .ok a
  | .nosign, _ => .ok b.neg
  | .plus, .minus | .minus, .plus => .ok (BigInt.fromBiguint a.sign (addRef P a.mag b.mag))
  | .plus, .plus | .minus, .minus => BigInt.subMag P a.sign a.mag b.mag

end NB
