/- driver handlers for stream C12 (exponentiation).
   ops: `u.pow.<form> <base> <type>:<e>` and `i.pow.<form> …` with form ∈ vv vr rv rr (base by
   value/reference, exponent by value/reference), `u.pow.m` / `i.pow.m` (inherent `pow(&self, u32)`),
   type ∈ u8 u16 u32 u64 u128 usize (decimal e) or `big:<limbs>` (BigUint exponent).
   Oracle: x^e; for |x| ≥ 2 and e ≥ 2^128 the documented capacity panic. -/
import NB.Wire
import NB.Model.Pow
import NB.Model.PowD
import NB.Model.AsmParams
namespace NB.Drv.C12
open NB NB.Wire NB.Pow NB.IntVal

/-- the extracted parameters the digit-level multiplication runs with -/
def P := NB.Gen.P

/-- operands as the harness builds them: `BigUint::new` / `BigInt::from_biguint` normalise (strip high
    zero limbs, zero gets `NoSign`), so the digit-level model is always run on the canonical vector the
    real code sees (identity on canonical request tokens; the shrinker of tools/check.py can emit a
    token like `0`).  A limb that is not a 64-bit digit is rejected (the harness cannot parse it either). -/
def pU (s : String) : Option (List Nat) := do
  let l ← parseLimbs s
  if l.all (fun d => decide (d < B)) then pure (normalize l) else none
def pI (s : String) : Option BigInt := do
  let x ← parseBigInt s
  if x.mag.all (fun d => decide (d < B)) then pure (BigInt.fromBiguint x.sign (normalize x.mag)) else none

/- MODEL column: the digit-level definitions of NB.Model.PowD (every `*` is `mulRef`/`mulAssign` on the
   limbs as received; BigUint exponents are digit vectors); ORACLE column: `x ^ e` on Nat/Int. -/
def su (r : Except Panic Nat) : String := showExcept showLimbs (r.map ofNat)
def si (r : Except Panic Int) : String := showExcept showBigInt (r.map BigInt.ofInt)
def du := showExcept showLimbs
def di := showExcept showBigInt

def parseForm : String → Option Form
  | "vv" => some .vv | "vr" => some .vr | "rv" => some .rv | "rr" => some .rr | _ => none

def typeBits : String → Option Nat
  | "u8" => some 8 | "u16" => some 16 | "u32" => some 32 | "u64" => some 64
  | "usize" => some 64 | "u128" => some 128 | _ => none

/-- exponent token: `(isBig, value, limbs)` (the limbs only for a BigUint exponent) -/
def parseExp (s : String) : Option (Bool × Nat × List Nat) :=
  match s.splitOn ":" with
  | ["big", l] => do let l ← pU l; pure (true, val l, l)
  | [t, e] => do
    let w ← typeBits t; let e ← parseNat e
    if e < 2 ^ w then pure (false, e, []) else none
  | _ => none

/-- oracle for a natural base -/
def oPowU (x e : Nat) : Except Panic Nat :=
  if x = 0 then .ok (if e = 0 then 1 else 0)
  else if x = 1 then .ok 1
  else if e ≥ 2 ^ 128 then .error .capacity
  else .ok (x ^ e)

def oPowI (x : Int) (e : Nat) : Except Panic Int :=
  match oPowU x.natAbs e with
  | .error p => .error p
  | .ok m => .ok (if x < 0 ∧ e % 2 = 1 then - (m : Int) else (m : Int))

def handle (op : String) (args : List String) : Option (String × String) :=
  match op.splitOn ".", args with
  | ["u", "pow", f], [a, e] => do
    let a ← pU a; let (big, e, el) ← parseExp e
    if f == "m" then
      if big ∨ e ≥ 2 ^ 32 then none else
      pure (du (PowD.powRV P a e), su (oPowU (val a) e))
    else
      let f ← parseForm f
      pure (du (if big then PowD.powBig P f a el else PowD.powPrim P f a e), su (oPowU (val a) e))
  | ["i", "pow", f], [a, e] => do
    let a ← pI a; let (big, e, el) ← parseExp e
    if f == "m" then
      if big ∨ e ≥ 2 ^ 32 then none else
      pure (di (PowD.bigintPow P .rv a e), si (oPowI a.val e))
    else
      let f ← parseForm f
      pure (di (if big then PowD.bigintPowBig P f a el else PowD.bigintPow P f a e), si (oPowI a.val e))
  | _, _ => none

end NB.Drv.C12
