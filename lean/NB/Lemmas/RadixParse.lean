/- helper lemmas for NB.Model.Radix (C06): the input paths (chunked Horner, bit regrouping) -/
import NB.Lemmas.RadixBits
import NB.Lemmas.AddSub
namespace NB.Radix
open NB

/-! ### big-endian Horner values -/

theorem foldl_horner (r : Nat) : ∀ (ds : List Nat) (acc : Nat),
    ds.foldl (fun a d => a * r + d) acc = acc * r ^ ds.length + Spec.beValue r ds := by
  intro ds
  induction ds with
  | nil => intro acc; simp [Spec.beValue]
  | cons d ds ih =>
    intro acc
    have h1 := ih (acc * r + d)
    have h2 := ih (0 * r + d)
    simp only [List.foldl_cons, List.length_cons, Spec.beValue] at *
    rw [h1, h2]; ring

theorem beValue_nil (r : Nat) : Spec.beValue r [] = 0 := rfl

theorem beValue_cons (r d : Nat) (ds : List Nat) :
    Spec.beValue r (d :: ds) = d * r ^ ds.length + Spec.beValue r ds := by
  have := foldl_horner r ds (0 * r + d)
  simp only [Spec.beValue, List.foldl_cons] at *
  rw [this]; ring

theorem beValue_append (r : Nat) (a b : List Nat) :
    Spec.beValue r (a ++ b) = Spec.beValue r a * r ^ b.length + Spec.beValue r b := by
  unfold Spec.beValue
  rw [List.foldl_append, foldl_horner]
  rfl

theorem beValue_eq_ofDigits (r : Nat) (ds : List Nat) : Spec.beValue r ds = Nat.ofDigits r ds.reverse := by
  induction ds with
  | nil => rfl
  | cons d ds ih =>
    rw [beValue_cons, List.reverse_cons, Nat.ofDigits_append, Nat.ofDigits_singleton, ih, List.length_reverse]
    ring

theorem beValue_lt {r : Nat} (hr : 1 ≤ r) : ∀ (ds : List Nat), (∀ d ∈ ds, d < r) →
    Spec.beValue r ds < r ^ ds.length := by
  intro ds
  induction ds with
  | nil => intro _; simp [beValue_nil]
  | cons d ds ih =>
    intro h
    have hd : d < r := h d (by simp)
    have := ih (fun x hx => h x (by simp [hx]))
    rw [beValue_cons, List.length_cons, pow_succ]
    have : (d + 1) * r ^ ds.length ≤ r * r ^ ds.length := Nat.mul_le_mul_right _ hd
    rw [Nat.mul_comm (r ^ ds.length) r]
    linarith [Nat.add_mul d 1 (r ^ ds.length)]

/-- the wrapping u64 fold does not wrap as long as `radix^len` fits a digit -/
theorem beFold_eq {r : Nat} (hr : 1 ≤ r) (ds : List Nat) (h : ∀ d ∈ ds, d < r) (hB : r ^ ds.length ≤ B) :
    beFold r ds = Spec.beValue r ds := by
  have key : ∀ (ds : List Nat) (acc j : Nat), (∀ d ∈ ds, d < r) → acc < r ^ j → r ^ (j + ds.length) ≤ B →
      ds.foldl (fun a d => (a * r + d) % B) acc = ds.foldl (fun a d => a * r + d) acc := by
    intro ds
    induction ds with
    | nil => intros; rfl
    | cons d ds ih =>
      intro acc j h hacc hB
      have hd : d < r := h d (by simp)
      have hstep : acc * r + d < r ^ (j + 1) := by
        rw [pow_succ]
        have : (acc + 1) * r ≤ r ^ j * r := Nat.mul_le_mul_right _ hacc
        linarith [Nat.add_mul acc 1 r]
      have hle : r ^ (j + 1) ≤ B := by
        refine Nat.le_trans (Nat.pow_le_pow_right hr ?_) hB
        simp only [List.length_cons]; omega
      simp only [List.foldl_cons]
      rw [Nat.mod_eq_of_lt (by omega)]
      exact ih _ (j + 1) (fun x hx => h x (by simp [hx])) hstep
        (by simp only [List.length_cons] at hB; rw [show j + 1 + ds.length = j + (ds.length + 1) by omega]; exact hB)
  unfold beFold Spec.beValue
  exact key ds 0 0 h (by simp) (by simpa using hB)

/-! ### the digit-level Horner loop -/

theorem mulSweep_spec {base : Nat} (hb : base < B) : ∀ (ds : List Nat) (carry : Nat), DigitsOk ds → carry < B →
    (mulSweep base ds carry).1.length = ds.length ∧ DigitsOk (mulSweep base ds carry).1 ∧
    (mulSweep base ds carry).2 < B ∧
    val (mulSweep base ds carry).1 + B ^ ds.length * (mulSweep base ds carry).2 = val ds * base + carry := by
  intro ds
  induction ds with
  | nil => intro carry _ hc; simp [mulSweep, val, hc]; exact DigitsOk.nil
  | cons d ds ih =>
    intro carry hok hc
    have hd : d < B := hok.head
    have hBpos := B_pos
    have ht : carry + 0 + d * base < B * B := by
      have h1 : d * base ≤ (B - 1) * (B - 1) := Nat.mul_le_mul (by omega) (by omega)
      have h2 : (B - 1) * (B - 1) + (B - 1) = (B - 1) * B := by decide
      have h3 : (B - 1) * B < B * B := Nat.mul_lt_mul_of_pos_right (by omega) hBpos
      omega
    have hq : (carry + 0 + d * base) / B < B := Nat.div_lt_of_lt_mul ht
    obtain ⟨i1, i2, i3, i4⟩ := ih ((carry + 0 + d * base) / B) hok.tail hq
    simp only [mulSweep, macWithCarry, List.length_cons, val]
    refine ⟨by rw [i1], DigitsOk.cons (Nat.mod_lt _ hBpos) i2, i3, ?_⟩
    have hdm := Nat.mod_add_div (carry + 0 + d * base) B
    rw [pow_succ]
    calc (carry + 0 + d * base) % B + B * val (mulSweep base ds ((carry + 0 + d * base) / B)).1
          + B ^ ds.length * B * (mulSweep base ds ((carry + 0 + d * base) / B)).2
        = (carry + 0 + d * base) % B + B * (val (mulSweep base ds ((carry + 0 + d * base) / B)).1
            + B ^ ds.length * (mulSweep base ds ((carry + 0 + d * base) / B)).2) := by ring
      _ = (carry + 0 + d * base) % B + B * (val ds * base + (carry + 0 + d * base) / B) := by rw [i4]
      _ = ((carry + 0 + d * base) % B + B * ((carry + 0 + d * base) / B)) + B * (val ds * base) := by ring
      _ = (d + B * val ds) * base + carry := by rw [hdm]; ring

theorem add2Digit_spec (a : List Nat) (n : Nat) (ha : DigitsOk a) (hlen : 1 ≤ a.length) (hn : n < B)
    (hfit : val a + n < B ^ a.length) :
    ∃ r, add2Digit a n = .ok r ∧ DigitsOk r ∧ r.length = a.length ∧ val r = val a + n := by
  have hn' : DigitsOk [n] := DigitsOk.cons hn DigitsOk.nil
  have htl : (a.take 1).length = 1 := by rw [List.length_take]; omega
  obtain ⟨z1, z2, z3, z4⟩ := adcZip_spec (a.take 1) [n] 0 (by rw [htl]; rfl) (ha.take _) hn' (by omega)
  obtain ⟨p1, p2, p3, p4⟩ := adcProp_spec (a.drop 1) (adcZip 0 (a.take 1) [n]).2 (ha.drop _) z4
  have hsplit : val a = val (a.take 1) + B ^ 1 * val (a.drop 1) := by
    conv_lhs => rw [← List.take_append_drop 1 a, val_append, htl]
  have hdl : (a.drop 1).length = a.length - 1 := by rw [List.length_drop]
  unfold add2Digit
  dsimp only
  generalize adcProp (adcZip 0 (a.take 1) [n]).2 (a.drop 1) = hi at *
  generalize adcZip 0 (a.take 1) [n] = lo at *
  simp only [val, Nat.mul_zero, Nat.add_zero] at z1
  rw [htl] at z1 z2
  have hpow : B ^ a.length = B ^ 1 * B ^ (a.length - 1) := by rw [← pow_add]; congr 1; omega
  have htot : val (lo.1 ++ hi.1) + B ^ a.length * hi.2 = val a + n := by
    rw [val_append, z2, hsplit, hpow]
    have := congrArg (B ^ 1 * ·) p1
    simp only [Nat.mul_add] at this
    rw [hdl] at this
    have e : B ^ 1 * B ^ (a.length - 1) * hi.2 = B ^ 1 * (B ^ (a.length - 1) * hi.2) := by ring
    rw [e]; omega
  have hz : hi.2 = 0 := by
    by_contra hne
    have : B ^ a.length * 1 ≤ B ^ a.length * hi.2 := Nat.mul_le_mul_left _ (by omega)
    omega
  rw [if_pos hz]
  refine ⟨_, rfl, z3.append p3, ?_, ?_⟩
  · rw [List.length_append, z2, p2, hdl]; omega
  · rw [hz] at htot; omega

theorem hornerStep_spec {radix base : Nat} (data chunk : List Nat) (hd : DigitsOk data) (hne : data ≠ [])
    (hb : base < B) (hn : beFold radix chunk < base) :
    ∃ d', hornerStep radix base data chunk = .ok d' ∧ DigitsOk d' ∧ d' ≠ [] ∧
      val d' = val data * base + beFold radix chunk := by
  unfold hornerStep
  -- the (possibly extended) digit vector has a zero top digit
  have hext : ∃ D, (if data.getLast? ≠ some 0 then data ++ [0] else data) = D ∧ DigitsOk D ∧ 1 ≤ D.length ∧
      val D = val data ∧ val D < B ^ (D.length - 1) := by
    by_cases hl : data.getLast? ≠ some 0
    · refine ⟨data ++ [0], by rw [if_pos hl], hd.append (DigitsOk.cons B_pos DigitsOk.nil), by simp, ?_, ?_⟩
      · rw [val_append]; simp [val]
      · rw [val_append]; simp only [val, Nat.mul_zero, Nat.add_zero, List.length_append, List.length_cons,
          List.length_nil, Nat.add_sub_cancel]
        exact val_lt hd
    · have hl' : data.getLast? = some 0 := by simpa using hl
      refine ⟨data, by rw [if_neg hl], hd, List.length_pos_of_ne_nil hne, rfl, val_lt_of_getLast_zero hd hl'⟩
  obtain ⟨D, hD, hDok, hDlen, hDval, hDlt⟩ := hext
  dsimp only
  rw [hD]
  obtain ⟨s1, s2, s3, s4⟩ := mulSweep_spec hb D 0 hDok B_pos
  -- no carry leaves the sweep, and the chunk value still fits
  have hpow : B ^ D.length = B ^ (D.length - 1) * B := by rw [← pow_succ]; congr 1; omega
  have hbound : val D * base + base ≤ B ^ D.length := by
    have h1 : (val D + 1) * base ≤ B ^ (D.length - 1) * B := Nat.mul_le_mul hDlt (by omega)
    rw [hpow]; linarith [Nat.add_mul (val D) 1 base]
  have hc0 : (mulSweep base D 0).2 = 0 := by
    by_contra hne0
    have : B ^ D.length * 1 ≤ B ^ D.length * (mulSweep base D 0).2 := Nat.mul_le_mul_left _ (by omega)
    omega
  rw [if_neg (by simpa using hc0)]
  rw [hc0] at s4
  obtain ⟨r, hr, hrok, hrlen, hrval⟩ := add2Digit_spec (mulSweep base D 0).1 (beFold radix chunk) s2
    (by rw [s1]; exact hDlen) (by omega) (by rw [s1]; omega)
  refine ⟨r, hr, hrok, ?_, ?_⟩
  · intro e; rw [e] at hrlen; simp at hrlen; omega
  · rw [hrval, ← hDval]; omega

theorem hornerLoop_spec {r base power : Nat} (hr : 1 ≤ r) (hb : base = r ^ power) (hp : 0 < power)
    (hB : r ^ power < B) : ∀ (n : Nat) (tail : List Nat) (data : List Nat), tail.length = n * power →
    (∀ d ∈ tail, d < r) → DigitsOk data → data ≠ [] →
    ∃ d', hornerLoop r base power data tail = .ok d' ∧ DigitsOk d' ∧
      val d' = val data * r ^ tail.length + Spec.beValue r tail := by
  intro n
  induction n with
  | zero =>
    intro tail data hlen _ hok _
    have : tail = [] := List.eq_nil_of_length_eq_zero (by simpa using hlen)
    subst this
    rw [hornerLoop]; simp [beValue_nil, hok]
  | succ n ih =>
    intro tail data hlen hd hok hne0
    have hlen' : tail.length = n * power + power := by rw [hlen]; ring
    have hne : tail ≠ [] := by intro e; rw [e] at hlen'; simp at hlen'; omega
    rw [hornerLoop]
    have hcond : ¬ (tail = [] ∨ power = 0) := by
      intro h; rcases h with h | h
      · exact hne h
      · omega
    simp only [hcond, dite_false]
    have htl : (tail.take power).length = power := by rw [List.length_take]; omega
    have hdl : (tail.drop power).length = n * power := by rw [List.length_drop]; omega
    have hdt : ∀ d ∈ tail.take power, d < r := fun d hx => hd d (List.mem_of_mem_take hx)
    have hdd : ∀ d ∈ tail.drop power, d < r := fun d hx => hd d (List.mem_of_mem_drop hx)
    have hfold : beFold r (tail.take power) = Spec.beValue r (tail.take power) :=
      beFold_eq hr _ hdt (by rw [htl]; omega)
    have hlt : beFold r (tail.take power) < base := by
      rw [hfold, hb]; have := beValue_lt hr _ hdt; rwa [htl] at this
    obtain ⟨d1, h1, h1ok, h1ne, h1val⟩ := hornerStep_spec data (tail.take power) hok hne0 (by rw [hb]; exact hB) hlt
    rw [h1]
    dsimp only
    obtain ⟨d2, h2, h2ok, h2val⟩ := ih _ d1 hdl hdd h1ok h1ne
    refine ⟨d2, h2, h2ok, ?_⟩
    rw [h2val, h1val, hfold]
    conv_rhs => rw [← List.take_append_drop power tail, beValue_append, List.length_append, htl]
    rw [hb, pow_add]
    ring

theorem fromRadixDigitsBe_spec {r : Nat} (h2 : 2 ≤ r) (h256 : r ≤ 256) (hp : isPow2 r = false)
    (v : List Nat) (hne : v ≠ []) (hd : ∀ d ∈ v, d < r) :
    fromRadixDigitsBe v r = .ok (ofNat (Spec.beValue r v)) := by
  obtain ⟨base, power, hg, hb, hbB, _, hpw⟩ := getRadixBase_ok h2 h256 hp
  unfold fromRadixDigitsBe
  rw [hg]
  dsimp only
  rw [if_neg (by omega)]
  have hlen : 0 < v.length := List.length_pos_of_ne_nil hne
  set i := if v.length % power = 0 then power else v.length % power with hi
  have hmod : v.length % power < power := Nat.mod_lt _ (by omega)
  have hile : i ≤ v.length := by
    rw [hi]; split
    · rename_i h0
      have := Nat.div_add_mod v.length power
      rcases Nat.eq_zero_or_pos (v.length / power) with hz | hz
      · rw [hz, h0] at this; omega
      · have : power * 1 ≤ power * (v.length / power) := Nat.mul_le_mul_left _ hz
        omega
    · exact Nat.mod_le _ _
  have hip : i ≤ power := by rw [hi]; split <;> omega
  rw [if_neg (by omega)]
  have htl : (v.take i).length = i := by rw [List.length_take]; omega
  have hdl : (v.drop i).length = v.length - i := by rw [List.length_drop]
  have hdt : ∀ d ∈ v.take i, d < r := fun d hx => hd d (List.mem_of_mem_take hx)
  have hdd : ∀ d ∈ v.drop i, d < r := fun d hx => hd d (List.mem_of_mem_drop hx)
  have hrp : r ^ power < B := by rw [← hb]; exact hbB
  have hmul : ∃ n, (v.drop i).length = n * power := by
    refine ⟨(v.length - i) / power, ?_⟩
    rw [hdl]
    have hdvd : power ∣ v.length - i := by
      rw [hi]; split
      · rename_i h0
        exact (Nat.dvd_sub (Nat.dvd_of_mod_eq_zero h0) (Nat.dvd_refl _))
      · exact Nat.dvd_sub_mod _
    exact (Nat.div_mul_cancel hdvd).symm
  obtain ⟨n, hn⟩ := hmul
  have hpw_le : r ^ (v.take i).length ≤ r ^ power := Nat.pow_le_pow_right (by omega) (by omega)
  have hfirst : beFold r (v.take i) = Spec.beValue r (v.take i) :=
    beFold_eq (by omega) _ hdt (by omega)
  have hfB : beFold r (v.take i) < B := by
    rw [hfirst]
    have := beValue_lt (r := r) (by omega) _ hdt
    omega
  obtain ⟨d', h', hok', hval'⟩ := hornerLoop_spec (by omega) hb (by omega) hrp n _ [beFold r (v.take i)] hn hdd
    (DigitsOk.cons hfB DigitsOk.nil) (by simp)
  rw [h']
  dsimp only
  rw [canon_eq_ofNat (normalize_canon hok'), normalize_val, hval', hfirst]
  simp only [val, Nat.mul_zero, Nat.add_zero]
  conv_rhs => rw [← List.take_append_drop i v, beValue_append]

/-! ### exact-width bit regrouping -/

theorem foldChunk_spec {bits : Nat} (chunk : List Nat) (hc : ∀ c ∈ chunk, c < 2 ^ bits)
    (hlen : bits * chunk.length ≤ 64) :
    foldChunk bits chunk = Nat.ofDigits (2 ^ bits) chunk ∧ foldChunk bits chunk < 2 ^ (bits * chunk.length) := by
  induction chunk with
  | nil => simp [foldChunk]
  | cons c cs ih =>
    have hc0 : c < 2 ^ bits := hc c (by simp)
    simp only [List.length_cons, Nat.mul_add, Nat.mul_one] at hlen
    obtain ⟨e, hlt⟩ := ih (fun x hx => hc x (by simp [hx])) (by omega)
    have hstep : foldChunk bits (c :: cs) = ((foldChunk bits cs <<< bits) % B) ||| c := rfl
    have hsh : foldChunk bits cs <<< bits < 2 ^ (bits * cs.length + bits) := by
      rw [Nat.shiftLeft_eq, pow_add]
      exact Nat.mul_lt_mul_of_pos_right hlt (Nat.pow_pos (by omega))
    have hB : 2 ^ (bits * cs.length + bits) ≤ B := by
      rw [B_eq]; exact Nat.pow_le_pow_right (by omega) hlen
    rw [hstep, Nat.mod_eq_of_lt (by omega), ← Nat.shiftLeft_add_eq_or_of_lt hc0, Nat.shiftLeft_eq, e,
      Nat.ofDigits_cons]
    refine ⟨by ring, ?_⟩
    simp only [List.length_cons, Nat.mul_add, Nat.mul_one]
    rw [← e, pow_add]
    have : (foldChunk bits cs + 1) * 2 ^ bits ≤ 2 ^ (bits * cs.length) * 2 ^ bits := Nat.mul_le_mul_right _ hlt
    linarith [Nat.add_mul (foldChunk bits cs) 1 (2 ^ bits)]

theorem chunksOf_nil (n : Nat) : chunksOf n [] = [] := by
  rw [chunksOf]; simp

theorem chunks_val {bits dpb : Nat} (hdpb : 0 < dpb) (hB : bits * dpb = 64) :
    ∀ (n : Nat) (v : List Nat), v.length ≤ n → (∀ c ∈ v, c < 2 ^ bits) →
    val ((chunksOf dpb v).map (foldChunk bits)) = Nat.ofDigits (2 ^ bits) v ∧
    DigitsOk ((chunksOf dpb v).map (foldChunk bits)) := by
  intro n
  induction n with
  | zero =>
    intro v hl _
    have : v = [] := List.eq_nil_of_length_eq_zero (by omega)
    subst this
    rw [chunksOf_nil]; exact ⟨rfl, DigitsOk.nil⟩
  | succ n ih =>
    intro v hl hd
    by_cases hv : v = []
    · subst hv; rw [chunksOf_nil]; exact ⟨rfl, DigitsOk.nil⟩
    · rw [chunksOf]
      have hcond : ¬ (dpb = 0 ∨ v = []) := by
        intro h; rcases h with h | h
        · omega
        · exact hv h
      simp only [hcond, dite_false, List.map_cons]
      have hlen : 0 < v.length := List.length_pos_of_ne_nil hv
      have hdt : ∀ d ∈ v.take dpb, d < 2 ^ bits := fun d hx => hd d (List.mem_of_mem_take hx)
      have hdd : ∀ d ∈ v.drop dpb, d < 2 ^ bits := fun d hx => hd d (List.mem_of_mem_drop hx)
      have htl : (v.take dpb).length ≤ dpb := by rw [List.length_take]; omega
      obtain ⟨e1, e2⟩ := foldChunk_spec (v.take dpb) hdt
        (by rw [← hB]; exact Nat.mul_le_mul_left _ htl)
      obtain ⟨i1, i2⟩ := ih (v.drop dpb) (by rw [List.length_drop]; omega) hdd
      have hx : foldChunk bits (v.take dpb) < B := by
        refine Nat.lt_of_lt_of_le e2 ?_
        rw [B_eq]; apply Nat.pow_le_pow_right (by omega)
        rw [← hB]; exact Nat.mul_le_mul_left _ htl
      refine ⟨?_, DigitsOk.cons hx i2⟩
      rw [val_cons, i1, e1]
      conv_rhs => rw [← List.take_append_drop dpb v, Nat.ofDigits_append]
      by_cases hfull : dpb ≤ v.length
      · have : (v.take dpb).length = dpb := by rw [List.length_take]; omega
        rw [this, ← pow_mul, hB, B_eq]
      · have : v.drop dpb = [] := List.drop_eq_nil_of_le (by omega)
        rw [this]; simp

theorem fromBitwiseDigitsLe_spec {bits : Nat} (h1 : 1 ≤ bits) (h8 : bits ≤ 8) (hdiv : BITS % bits = 0)
    (v : List Nat) (hd : ∀ c ∈ v, c < 2 ^ bits) :
    fromBitwiseDigitsLe v bits = .ok (ofNat (Nat.ofDigits (2 ^ bits) v)) := by
  have hBITS : BITS = 64 := rfl
  have hmul : bits * (BITS / bits) = 64 := Nat.mul_div_cancel' (Nat.dvd_of_mod_eq_zero hdiv)
  have hdpb : 0 < BITS / bits := Nat.div_pos (by omega) (by omega)
  unfold fromBitwiseDigitsLe
  rw [if_neg (by omega)]
  dsimp only
  rw [if_neg (by omega)]
  obtain ⟨e, hok⟩ := chunks_val hdpb hmul v.length v (Nat.le_refl _) hd
  rw [canon_eq_ofNat (normalize_canon hok), normalize_val, e]

/-! ### inexact-width bit regrouping (input) -/

theorem inexFold_spec {bits : Nat} (h1 : 1 ≤ bits) (h8 : bits ≤ 8) :
    ∀ (v : List Nat) (s : InexSt), (∀ c ∈ v, c < 2 ^ bits) → s.dbits < 64 → s.d < 2 ^ s.dbits →
    DigitsOk s.dataRev →
    (v.foldl (inexStep bits) s).dbits < 64 ∧
    (v.foldl (inexStep bits) s).d < 2 ^ (v.foldl (inexStep bits) s).dbits ∧
    DigitsOk (v.foldl (inexStep bits) s).dataRev ∧
    val (v.foldl (inexStep bits) s).dataRev.reverse
        + B ^ (v.foldl (inexStep bits) s).dataRev.length * (v.foldl (inexStep bits) s).d
      = val s.dataRev.reverse + B ^ s.dataRev.length * (s.d + 2 ^ s.dbits * Nat.ofDigits (2 ^ bits) v) := by
  have hBITS : BITS = 64 := rfl
  intro v
  induction v with
  | nil =>
    intro s _ h64 hd hok
    simp only [List.foldl_nil, Nat.ofDigits_nil, Nat.mul_zero, Nat.add_zero]
    exact ⟨h64, hd, hok, trivial⟩
  | cons c cs ih =>
    intro s hc h64 hd hok
    have hc0 : c < 2 ^ bits := hc c (by simp)
    have hcs : ∀ x ∈ cs, x < 2 ^ bits := fun x hx => hc x (by simp [hx])
    simp only [List.foldl_cons]
    have hor : s.d ||| ((c <<< s.dbits) % B) = (s.d + c * 2 ^ s.dbits) % B := or_shl_mod (by omega) hd
    set x := s.d + c * 2 ^ s.dbits with hx
    have hxlt : x < 2 ^ (s.dbits + bits) := by
      rw [pow_add]
      have : (c + 1) * 2 ^ s.dbits ≤ 2 ^ bits * 2 ^ s.dbits := Nat.mul_le_mul_right _ hc0
      rw [Nat.mul_comm (2 ^ s.dbits)]
      linarith [Nat.add_mul c 1 (2 ^ s.dbits)]
    by_cases hpush : BITS ≤ s.dbits + bits
    · -- a big digit is completed
      have hstep : inexStep bits s c =
          ⟨c >>> (bits - (s.dbits + bits - BITS)), s.dbits + bits - BITS, (x % B) :: s.dataRev⟩ := by
        unfold inexStep; simp only [hpush, if_true, hor]
      rw [hstep]
      have hd' : c >>> (bits - (s.dbits + bits - BITS)) = x / B := by
        rw [Nat.shiftRight_eq_div_pow]
        have e : bits - (s.dbits + bits - BITS) = 64 - s.dbits := by omega
        have hsplit : B = 2 ^ s.dbits * 2 ^ (64 - s.dbits) := by rw [← pow_add, B_eq]; congr 1; omega
        rw [e, hsplit, ← Nat.div_div_eq_div_mul, hx, Nat.add_mul_div_right _ _ (Nat.pow_pos (by omega)),
          Nat.div_eq_of_lt hd, Nat.zero_add]
      have hdlt : x / B < 2 ^ (s.dbits + bits - BITS) := by
        rw [Nat.div_lt_iff_lt_mul B_pos, B_eq, ← pow_add]
        have : s.dbits + bits - BITS + 64 = s.dbits + bits := by omega
        rw [this]; exact hxlt
      have hok' : DigitsOk ((x % B) :: s.dataRev) := DigitsOk.cons (Nat.mod_lt _ B_pos) hok
      obtain ⟨r1, r2, r3, r4⟩ := ih ⟨x / B, s.dbits + bits - BITS, (x % B) :: s.dataRev⟩ hcs (by dsimp only; omega)
        hdlt hok'
      rw [hd']
      refine ⟨r1, r2, r3, ?_⟩
      rw [r4]
      dsimp only
      rw [List.reverse_cons, val_append, List.length_reverse, List.length_cons, Nat.ofDigits_cons]
      simp only [val, Nat.mul_zero, Nat.add_zero]
      have hBp : B * 2 ^ (s.dbits + bits - BITS) = 2 ^ s.dbits * 2 ^ bits := by
        rw [B_eq, ← pow_add, ← pow_add]; congr 1; omega
      have hxd : x % B + B * (x / B) = x := Nat.mod_add_div x B
      rw [pow_succ]
      calc val s.dataRev.reverse + B ^ s.dataRev.length * (x % B)
            + B ^ s.dataRev.length * B * (x / B + 2 ^ (s.dbits + bits - BITS) * Nat.ofDigits (2 ^ bits) cs)
          = val s.dataRev.reverse + B ^ s.dataRev.length *
              ((x % B + B * (x / B)) + (B * 2 ^ (s.dbits + bits - BITS)) * Nat.ofDigits (2 ^ bits) cs) := by ring
        _ = val s.dataRev.reverse + B ^ s.dataRev.length *
              (s.d + 2 ^ s.dbits * (c + 2 ^ bits * Nat.ofDigits (2 ^ bits) cs)) := by
            rw [hxd, hBp, hx]; ring
    · have hxB : x < B := by
        refine Nat.lt_of_lt_of_le hxlt ?_
        rw [B_eq]; exact Nat.pow_le_pow_right (by omega) (by omega)
      have hstep : inexStep bits s c = ⟨x, s.dbits + bits, s.dataRev⟩ := by
        unfold inexStep; simp only [hpush, if_false, hor, Nat.mod_eq_of_lt hxB]
      rw [hstep]
      obtain ⟨r1, r2, r3, r4⟩ := ih ⟨x, s.dbits + bits, s.dataRev⟩ hcs (by dsimp only; omega) hxlt hok
      refine ⟨r1, r2, r3, ?_⟩
      rw [r4]
      dsimp only
      rw [Nat.ofDigits_cons, hx, pow_add]
      ring

theorem fromInexactBitwiseDigitsLe_spec {bits : Nat} (h1 : 1 ≤ bits) (h8 : bits ≤ 8)
    (v : List Nat) (hd : ∀ c ∈ v, c < 2 ^ bits) :
    fromInexactBitwiseDigitsLe v bits = ofNat (Nat.ofDigits (2 ^ bits) v) := by
  obtain ⟨r1, r2, r3, r4⟩ := inexFold_spec h1 h8 v ⟨0, 0, []⟩ hd (by decide) (by decide) DigitsOk.nil
  unfold fromInexactBitwiseDigitsLe
  dsimp only
  generalize List.foldl (inexStep bits) ⟨0, 0, []⟩ v = s at *
  simp only [List.reverse_nil, val, List.length_nil, pow_zero, Nat.one_mul, Nat.zero_add] at r4
  have hrev : DigitsOk s.dataRev.reverse := fun d hd => r3 d (List.mem_reverse.mp hd)
  by_cases h0 : 0 < s.dbits
  · simp only [h0, if_true]
    have hdB : s.d < B := Nat.lt_of_lt_of_le r2 (by rw [B_eq]; exact Nat.pow_le_pow_right (by omega) (by omega))
    have hok : DigitsOk (s.d :: s.dataRev).reverse := by
      rw [List.reverse_cons]; exact hrev.append (DigitsOk.cons hdB DigitsOk.nil)
    rw [canon_eq_ofNat (normalize_canon hok), normalize_val, List.reverse_cons, val_append, List.length_reverse]
    simp only [val, Nat.mul_zero, Nat.add_zero]
    rw [r4]
  · simp only [h0, if_false]
    have hz : s.dbits = 0 := by omega
    have hd0 : s.d = 0 := by rw [hz] at r2; simpa using r2
    rw [canon_eq_ofNat (normalize_canon hrev), normalize_val]
    rw [hd0] at r4; simp only [Nat.mul_zero, Nat.add_zero] at r4
    rw [r4]

/-! ### the shared conversion tail -/

theorem digitsToBigUint_spec {r : Nat} (h2 : 2 ≤ r) (h256 : r ≤ 256) (le : List Nat) (hne : le ≠ [])
    (hd : ∀ d ∈ le, d < r) :
    digitsToBigUint r le le.reverse = .ok (ofNat (Nat.ofDigits r le)) := by
  unfold digitsToBigUint
  by_cases hp : isPow2 r = true
  · obtain ⟨hr, hb1, hb8⟩ := pow2_bits h2 h256 hp
    simp only [hp, if_true]
    have hd' : ∀ d ∈ le, d < 2 ^ ilog2 r := by rw [← hr]; exact hd
    by_cases hdiv : BITS % ilog2 r = 0
    · simp only [hdiv, if_true]
      rw [fromBitwiseDigitsLe_spec hb1 hb8 hdiv le hd', ← hr]
    · simp only [hdiv, if_false]
      rw [fromInexactBitwiseDigitsLe_spec hb1 hb8 le hd', ← hr]
  · have hp' : isPow2 r = false := by simpa using hp
    simp only [hp', Bool.false_eq_true, if_false]
    rw [fromRadixDigitsBe_spec h2 h256 hp' le.reverse (by simpa using hne) (by simpa using hd),
      beValue_eq_ofDigits, List.reverse_reverse]

end NB.Radix
