#!/usr/bin/env python3
"""Regenerate MANIFEST.json from tools/props.py (claimed checks) and properties.jsonl."""
import json, os, subprocess, sys
VERIF = os.path.dirname(os.path.dirname(os.path.abspath(__file__)))
sys.path.insert(0, os.path.join(VERIF, "tools"))
import props
ids = [json.loads(l)["id"] for l in open(os.path.join(VERIF, "properties.jsonl"))]
hook_commits = subprocess.run(["git", "-C", "/repo", "log", "--format=%H %s"], capture_output=True, text=True).stdout.split("\n")
hook_commits = [l.split()[0] for l in hook_commits if "verif hook" in l or "verif probe" in l]
checks, na = [], []
for i in ids:
    if i in props.PROPS and props.PROPS[i].get("claimed", True):
        p = props.PROPS[i]
        checks.append({
            "property_id": i,
            "quick_cmd": "python3 tools/check.py %s --tier quick" % i,
            "thorough_cmd": "python3 tools/check.py %s --tier thorough" % i,
            "evidence_file": "evidence/%s.json" % i,
            "replay_cmd_template": "python3 tools/check.py %s --replay {path}" % i,
            "engine": "lean4-proof+correspondence",
            "level_claimed": {"category": p.get("level", "proof"), "text": p["level_text"], "design_ref": "DESIGN.md §4 " + i},
            "level_note": p["level_note"],
            "technique": p.get("technique", "Lean 4 theorems over a hand-written executable model + translator-regenerated parameters + three-way correspondence check (impl / model / Nat-Int oracle)"),
        })
    else:
        na.append({"property_id": i, "reason": props.NOT_CLAIMED.get(i, "machinery for this property is not built yet (work in progress); no check is registered")})
m = {
    "version": 1,
    "setup_cmd": "sh tools/setup.sh",
    "hooks": {
        "guard": "--cfg num_bigint_verif",
        "enable": "RUSTFLAGS='--cfg num_bigint_verif' (set in harness/.cargo/config.toml); the harness depends on /repo by path and is rebuilt by every check",
        "baseline_off_cmd": "cd /repo && cargo test --offline --no-fail-fast",
        "source_commits": hook_commits,
        "add_only": True,
    },
    "engines": [{
        "name": "lean4-proof+correspondence", "path": "tools/check.py",
        "serves_properties": [c["property_id"] for c in checks],
        "kind_free_text": "Lean 4.33 theorems (lean/NB/Props) about an import-free executable model (lean/NB/Model), tied to /repo by tools/extract.py (regenerates lean/NB/Gen from the source) and by a differential run of the real crate (harness/) against the compiled model and a Nat/Int oracle (lean/Driver.lean)",
    }],
    "checks": checks,
    "not_applicable": na,
    "notes": "See DESIGN.md. Exit 2 from a check means the machinery could not reach a verdict (never printed with a VIOLATION line).",
}
json.dump(m, open(os.path.join(VERIF, "MANIFEST.json"), "w"), indent=1)
print("claimed", len(checks), "unclaimed", len(na))
