/- helper lemmas for the digit-level float conversions (NB.Model.FloatD, theorems in NB.Props.C08):
   `bitsU = bitsOf`, `fls` through `leading_zeros` = `bitLen` on a `u64`, the mantissa of
   `high_bits_to_u64` fits a `u64`, and the shift operators of C07 inside `from_f64`. -/
import NB.Model.FloatD
import NB.Lemmas.Float
import NB.Props.C07
namespace NB.Conv
open NB

/-- the private `bits()` of NB.Model.Float is the digit-level `BigUint::bits` of NB.Model.Bits, on every
    digit vector (canonical or not) -/
theorem bitsU_eq_bitsOf (v : List Nat) : NB.C07.bitsU v = bitsOf v := by
  unfold NB.C07.bitsU bitsOf
  cases v.getLast? with
  | none => rfl
  | some last =>
    simp only [NB.C07.lzDigit, bitLen, NB.C07.BITS, digitBits]
    by_cases h : last = 0
    · simp [h]
    · simp only [h, if_false]; omega

theorem highBitsToU64D_eq (v : List Nat) : highBitsToU64D v = highBitsToU64 v := by
  match v with
  | [] => rfl
  | [_] => rfl
  | _ :: _ :: _ => simp only [highBitsToU64D, highBitsToU64, bitsU_eq_bitsOf]

/-- `fls` on a `u64`: `64 - leading_zeros` is the bit length -/
theorem flsU64_eq {m : Nat} (h : m < 2 ^ 64) : flsU64 m = bitLen m := by
  unfold flsU64 NB.C07.lzDigit bitLen NB.C07.BITS
  by_cases h0 : m = 0
  · simp [h0]
  · simp only [h0, if_false]
    have : Nat.log2 m < 64 := (Nat.log2_lt h0).2 h
    omega

/-- the mantissa returned by `high_bits_to_u64` fits a `u64` -/
theorem highBits_lt {x : List Nat} (h : Canon x) {m : Nat} (hm : highBitsToU64 x = .ok m) : m < 2 ^ 64 := by
  by_cases hl : x.length ≤ 1
  · rw [highBits_small hl] at hm
    cases hm
    have := (canon_len_le_one h).mp hl
    rwa [B_eq_pow] at this
  · have hl2 : 2 ≤ x.length := by omega
    rw [highBits_spec h hl2] at hm
    cases hm
    have hbl : 64 < bitLen (val x) := by
      by_contra c
      have h1 : val x < 2 ^ 64 := bitLen_le_iff.mp (by omega)
      have := (canon_len_le_one h).mpr (by rw [B_eq_pow]; exact h1)
      omega
    have hn : bitLen (val x) = 64 + (bitLen (val x) - 64) := by omega
    have hb := stickyShift_bitLen (k := 64) (by decide) hn
    exact bitLen_le_iff.mp (by omega)

/-- digit-level `to_f32/to_f64` = the NB.Model.Float model, for canonical operands -/
theorem toFloatD_eq (f : FFmt) {x : List Nat} (h : Canon x) : U.toFloatD f x = U.toFloat f x := by
  unfold U.toFloatD U.toFloat
  rw [highBitsToU64D_eq, bitsU_eq_bitsOf]
  cases hm : highBitsToU64 x with
  | error e => rfl
  | ok m =>
    simp only [bind, Except.bind]
    rw [flsU64_eq (highBits_lt h hm)]

theorem bigintToFloatD_eq (f : FFmt) {x : BigInt} (h : x.Canon) : I.toFloatD f x = I.toFloat f x := by
  unfold I.toFloatD I.toFloat
  rw [toFloatD_eq f h.1]

/-! ### `from_f64` -/

theorem ofNat_length_le_one {n : Nat} (h : n < B) : (ofNat n).length ≤ 1 :=
  (canon_len_le_one (ofNat_canon n)).mpr (by rw [ofNat_val]; exact h)

/-- the shifts inside `from_f64` never panic and compute `* 2^e` / `/ 2^e`: the digit-level tail equals the
    value-level tail of NB.Model.Float for every `u64` mantissa and every exponent below `2^64` -/
theorem fromDecodedD_eq (mantissa expo : Nat) (neg : Bool) (hm : mantissa < B) (he : expo < B) :
    U.fromDecodedD mantissa expo neg = .ok (U.fromDecoded mantissa expo neg) := by
  unfold U.fromDecodedD U.fromDecoded
  cases neg with
  | true => rfl
  | false =>
    simp only [Bool.false_eq_true, if_false]
    rw [fromU64_eq_ofNat]
    have hc := ofNat_canon mantissa
    cases compare expo (f64.bias + f64.fbits) with
    | eq => rfl
    | gt =>
      simp only []
      rw [NB.C07.shl_spec (ofNat mantissa) _ hc (Int.natCast_nonneg _)]
      · simp only [Int.toNat_natCast]; rfl
      · intro _
        simp only [Int.toNat_natCast]
        unfold NB.C07.USIZE_RANGE NB.C07.BITS
        have : (expo - (f64.bias + f64.fbits)) / 64 ≤ expo := Nat.le_trans (Nat.div_le_self _ _) (Nat.sub_le _ _)
        omega
    | lt =>
      simp only []
      rw [NB.C07.shr_spec (ofNat mantissa) _ hc (Int.natCast_nonneg _)]
      · simp only [Int.toNat_natCast]; rfl
      · have := ofNat_length_le_one hm
        unfold NB.C07.USIZE_RANGE B at *
        omega

theorem integerDecode_mantissa_lt (b : Nat) : (integerDecode f64 b).1 < B := by
  unfold integerDecode
  simp only []
  have h1 : b % 2 ^ f64.fbits < 2 ^ f64.fbits := Nat.mod_lt _ (Nat.pow_pos (by decide))
  have e : (2 : Nat) ^ f64.fbits = 4503599627370496 := by decide
  rw [e] at h1 ⊢
  unfold B
  split <;> omega

theorem integerDecode_expo_lt (b : Nat) : (integerDecode f64 b).2.1 < B := by
  unfold integerDecode
  simp only []
  have h1 : b / 2 ^ f64.fbits % 2 ^ f64.ebits < 2 ^ f64.ebits := Nat.mod_lt _ (Nat.pow_pos (by decide))
  have e : (2 : Nat) ^ f64.ebits = 2048 := by decide
  rw [e] at h1
  unfold B
  omega

/-- digit-level `BigUint::from_f64` = the NB.Model.Float model on EVERY bit pattern; no shift panics -/
theorem fromF64D_eq (b : Nat) : U.fromF64D b = .ok (U.fromF64 b) := by
  unfold U.fromF64D U.fromF64
  cases fIsFinite f64 b with
  | false => rfl
  | true =>
    simp only [Bool.not_true, Bool.false_eq_true, if_false]
    cases fIsZero f64 (truncBits f64 b) with
    | true => rfl
    | false =>
      simp only [Bool.false_eq_true, if_false]
      exact fromDecodedD_eq _ _ _ (integerDecode_mantissa_lt _) (integerDecode_expo_lt _)

theorem fromF32D_eq (b : Nat) : U.fromF32D b = .ok (U.fromF32 b) := fromF64D_eq _

/-- digit-level `BigInt::from_f64` = the NB.Model.Float model on every bit pattern -/
theorem bigintFromF64D_eq (b : Nat) : I.fromF64D b = .ok (I.fromF64 b) := by
  unfold I.fromF64D I.fromF64
  cases fGeZero f64 b with
  | true => simp only [if_true]; rw [fromF64D_eq]; rfl
  | false =>
    simp only [Bool.false_eq_true, if_false]
    rw [fromF64D_eq]
    cases U.fromF64 (fNeg f64 b) <;> rfl

theorem bigintFromF32D_eq (b : Nat) : I.fromF32D b = .ok (I.fromF32 b) := bigintFromF64D_eq _

end NB.Conv
