/-
  NB.Model.Bits — model of src/biguint/bits.rs, src/bigint/bits.rs and of the bit queries in
  src/biguint.rs / src/bigint.rs (`bits`, `trailing_zeros`, `trailing_ones`, `count_ones`, `bit`,
  `set_bit`, `set_negative_bit`) and of `impl Not for BigInt` (src/bigint.rs).

  Digit level: a digit is a `Nat < B`; the primitive `u64` operations `& | ^` are `Nat.land/lor/xor`
  on single digits, `!d` is `MAXD - d`, and the `u64` intrinsics `leading_zeros`, `trailing_zeros`,
  `trailing_ones`, `count_ones` are the small functions `lzDigit`, `tzDigit`, `toDigit`, `popDigit`
  below (these four are modelled, i.e. part of the trusted base, like `adc`/`sbb`).

  Every `debug_assert!`, `unwrap`, `expect` and slice index of the modelled routines is an explicit
  `.error (.internal …)` outcome; NB.Props.C07 proves them unreachable for canonical operands.
-/
import NB.Base
import NB.Model.AddSub
namespace NB.C07

/-- `big_digit::BITS` on the 64-bit-digit targets (`B = 2^BITS`, see `B_eq`) -/
def BITS : Nat := 64
/-- `big_digit::MAX`, also `!0` -/
def MAXD : Nat := B - 1
/-- `!d` for a 64-bit digit -/
def dnot (d : Nat) : Nat := MAXD - d

/-! ### u64 intrinsics (modelled) -/

def ctzAux : Nat → Nat → Nat
  | 0, _ => 0
  | f + 1, d => if d % 2 = 1 then 0 else 1 + ctzAux f (d / 2)

/-- `u64::trailing_zeros` (64 for 0) -/
def tzDigit (d : Nat) : Nat := ctzAux BITS d
/-- `u64::trailing_ones` = `(!d).trailing_zeros()` -/
def toDigit (d : Nat) : Nat := tzDigit (dnot d)
/-- `u64::leading_zeros` (64 for 0) -/
def lzDigit (d : Nat) : Nat := if d = 0 then BITS else BITS - 1 - Nat.log2 d

def popAux : Nat → Nat → Nat
  | 0, _ => 0
  | f + 1, d => d % 2 + popAux f (d / 2)
/-- `u64::count_ones` -/
def popDigit (d : Nat) : Nat := popAux BITS d

/-! ### src/biguint/bits.rs -/

/-- `for (ai, &bi) in a.iter_mut().zip(b.iter()) { *ai = f(*ai, bi) }`: the digits of `a` beyond
    `b.len()` are left alone -/
def zipMut (f : Nat → Nat → Nat) (a b : List Nat) : List Nat :=
  List.zipWith f a b ++ a.drop b.length

/-- `impl BitAndAssign<&BigUint> for BigUint`: zip, `truncate(other.len())`, `normalize` -/
def andAssign (a b : List Nat) : List Nat :=
  normalize ((zipMut (· &&& ·) a b).take b.length)

/-- `&a & &b`: clones the shorter operand -/
def andRef (a b : List Nat) : List Nat :=
  if a.length ≤ b.length then andAssign a b else andAssign b a

/-- `impl BitOrAssign<&BigUint> for BigUint`: zip, extend with the extra digits of `other`;
    no normalisation -/
def orAssign (a b : List Nat) : List Nat :=
  let a1 := zipMut (· ||| ·) a b
  if b.length > a1.length then a1 ++ b.drop a1.length else a1

/-- `forward_ref_ref_binop_commutative`: clones the longer operand -/
def orRef (a b : List Nat) : List Nat :=
  if a.length ≥ b.length then orAssign a b else orAssign b a

/-- `impl BitXorAssign<&BigUint> for BigUint`: zip, extend, `normalize` -/
def xorAssign (a b : List Nat) : List Nat :=
  let a1 := zipMut (· ^^^ ·) a b
  normalize (if b.length > a1.length then a1 ++ b.drop a1.length else a1)

def xorRef (a b : List Nat) : List Nat :=
  if a.length ≥ b.length then xorAssign a b else xorAssign b a

/-! ### bit queries of src/biguint.rs -/

/-- `iter().position(p)` -/
def position (p : Nat → Bool) : List Nat → Option Nat
  | [] => none
  | d :: ds => if p d then some 0 else (position p ds).map (· + 1)

/-- `BigUint::bits` -/
def bitsU (ds : List Nat) : Nat :=
  match ds.getLast? with
  | none => 0
  | some top => ds.length * BITS - lzDigit top

/-- `BigUint::trailing_zeros` -/
def trailingZerosU (ds : List Nat) : Option Nat :=
  match position (fun d => d != 0) ds with
  | none => none
  | some i => some (i * BITS + tzDigit (ds.getD i 0))

/-- `BigUint::trailing_ones` -/
def trailingOnesU (ds : List Nat) : Nat :=
  match position (fun d => dnot d != 0) ds with
  | some i => i * BITS + toDigit (ds.getD i 0)
  | none => ds.length * BITS

/-- `BigUint::count_ones` -/
def countOnesU (ds : List Nat) : Nat := (ds.map popDigit).sum

/-- `BigUint::bit` (`bit : u64`; the `to_usize` conversion cannot fail on a 64-bit target) -/
def bitU (ds : List Nat) (bit : Nat) : Bool :=
  match ds[bit / BITS]? with
  | some digit => (digit &&& (1 <<< (bit % BITS))) != 0
  | none => false

/-- `BigUint::set_bit` -/
def setBitU (ds : List Nat) (bit : Nat) (value : Bool) : List Nat :=
  let digitIndex := bit / BITS
  let bitMask := 1 <<< (bit % BITS)
  if value then
    let data := if digitIndex ≥ ds.length then ds ++ List.replicate (digitIndex + 1 - ds.length) 0 else ds
    data.set digitIndex (data.getD digitIndex 0 ||| bitMask)
  else if digitIndex < ds.length then
    normalize (ds.set digitIndex (ds.getD digitIndex 0 &&& dnot bitMask))
  else ds

/-! ### src/bigint/bits.rs -/

/-- `negate_carry(a, &mut acc)`: `acc += !a; lo = acc as u64; acc >>= 64` — returns (lo, new acc).
    (`acc ≤ 1` on entry, so the `u128` addition cannot overflow.) -/
def negCarry (a acc : Nat) : Nat × Nat := ((acc + dnot a) % B, (acc + dnot a) / B)

/-- a digit of an operand as seen by a loop body: through `negate_carry` when the operand is
    negative (`twos_x`), as is otherwise; returns (digit, new carry) -/
def twos (neg : Bool) (d c : Nat) : Nat × Nat := if neg then negCarry d c else (d, c)

/-- The `for (ai, &bi) in a.iter_mut().zip(b.iter())` loop of the nine `bit{and,or,xor}_{pos,neg}_{pos,neg}`
    routines.  `na`/`nb`: operand digits go through `negate_carry` (carries `ca`/`cb`);
    `nr`: the result digit is negated back through `negate_carry` (carry `cr`).
    Returns the new low digits and the three carries. -/
def zipLoop (op : Nat → Nat → Nat) (na nb nr : Bool) :
    Nat → Nat → Nat → List Nat → List Nat → List Nat × (Nat × Nat × Nat)
  | ca, cb, cr, x :: xs, y :: ys =>
    let ta := twos na x ca
    let tb := twos nb y cb
    let r := twos nr (op ta.1 tb.1) cr
    let rest := zipLoop op na nb nr ta.2 tb.2 r.2 xs ys
    (r.1 :: rest.1, rest.2)
  | ca, cb, cr, _, _ => ([], (ca, cb, cr))

/-- The loops over the extra digits of the longer operand: the digit goes through `negate_carry`
    if `negIn`, is xored with `!0` if `flip` (the other operand's sign extension), and the result
    goes through `negate_carry` if `negOut`.  Returns the digits and the two carries. -/
def tailLoop (negIn flip negOut : Bool) : Nat → Nat → List Nat → List Nat × (Nat × Nat)
  | cin, cout, [] => ([], (cin, cout))
  | cin, cout, d :: ds =>
    let t := twos negIn d cin
    let m := if flip then t.1 ^^^ MAXD else t.1
    let r := twos negOut m cout
    let rest := tailLoop negIn flip negOut t.2 r.2 ds
    (r.1 :: rest.1, rest.2)

/-- `bitand_pos_neg(a: &mut [BigDigit], b)` — answer is pos, has length of a -/
def bitandPosNeg (a b : List Nat) : Except Panic (List Nat) :=
  let z := zipLoop (· &&& ·) false true false 0 1 0 a b
  let carryB := z.2.2.1
  if ¬ (b.length > a.length ∨ carryB = 0) then .error (.internal "bitand_pos_neg carry_b") else
  .ok (z.1 ++ a.drop b.length)

/-- `bitand_neg_pos(a: &mut Vec, b)` — answer is pos, has length of b -/
def bitandNegPos (a b : List Nat) : Except Panic (List Nat) :=
  let z := zipLoop (· &&& ·) true false false 1 0 0 a b
  let carryA := z.2.1
  if ¬ (a.length > b.length ∨ carryA = 0) then .error (.internal "bitand_neg_pos carry_a") else
  let a1 := z.1 ++ a.drop b.length
  match compare a.length b.length with
  | .gt => .ok (a1.take b.length)
  | .eq => .ok a1
  | .lt => .ok (a1 ++ b.drop a.length)

/-- `bitand_neg_neg(a: &mut Vec, b)` — answer is neg, length of longest with a possible carry -/
def bitandNegNeg (a b : List Nat) : Except Panic (List Nat) :=
  let z := zipLoop (· &&& ·) true true true 1 1 1 a b
  let carryA := z.2.1; let carryB := z.2.2.1; let carryAnd := z.2.2.2
  if ¬ (a.length > b.length ∨ carryA = 0) then .error (.internal "bitand_neg_neg carry_a") else
  if ¬ (b.length > a.length ∨ carryB = 0) then .error (.internal "bitand_neg_neg carry_b") else
  let fin (d : List Nat) (c : Nat) : Except Panic (List Nat) := .ok (if c ≠ 0 then d ++ [1] else d)
  match compare a.length b.length with
  | .gt =>
    let t := tailLoop true false true carryA carryAnd (a.drop b.length)
    if t.2.1 ≠ 0 then .error (.internal "bitand_neg_neg carry_a tail") else fin (z.1 ++ t.1) t.2.2
  | .eq => fin z.1 carryAnd
  | .lt =>
    let t := tailLoop true false true carryB carryAnd (b.drop a.length)
    if t.2.1 ≠ 0 then .error (.internal "bitand_neg_neg carry_b tail") else fin (z.1 ++ t.1) t.2.2

/-- `bitor_pos_neg(a: &mut Vec, b)` — answer is neg, has length of b -/
def bitorPosNeg (a b : List Nat) : Except Panic (List Nat) :=
  let z := zipLoop (· ||| ·) false true true 0 1 1 a b
  let carryB := z.2.2.1; let carryOr := z.2.2.2
  if ¬ (b.length > a.length ∨ carryB = 0) then .error (.internal "bitor_pos_neg carry_b") else
  match compare a.length b.length with
  | .gt =>
    if carryOr ≠ 0 then .error (.internal "bitor_pos_neg carry_or") else
    .ok ((z.1 ++ a.drop b.length).take b.length)
  | .eq => if carryOr ≠ 0 then .error (.internal "bitor_pos_neg carry_or") else .ok z.1
  | .lt =>
    let t := tailLoop true false true carryB carryOr (b.drop a.length)
    if t.2.1 ≠ 0 then .error (.internal "bitor_pos_neg carry_b tail") else
    if t.2.2 ≠ 0 then .error (.internal "bitor_pos_neg carry_or") else
    .ok (z.1 ++ t.1)

/-- `bitor_neg_pos(a: &mut [BigDigit], b)` — answer is neg, has length of a -/
def bitorNegPos (a b : List Nat) : Except Panic (List Nat) :=
  let z := zipLoop (· ||| ·) true false true 1 0 1 a b
  let carryA := z.2.1; let carryOr := z.2.2.2
  if ¬ (a.length > b.length ∨ carryA = 0) then .error (.internal "bitor_neg_pos carry_a") else
  if a.length > b.length then
    let t := tailLoop true false true carryA carryOr (a.drop b.length)
    if t.2.1 ≠ 0 then .error (.internal "bitor_neg_pos carry_a tail") else
    if t.2.2 ≠ 0 then .error (.internal "bitor_neg_pos carry_or") else
    .ok (z.1 ++ t.1)
  else
    if carryOr ≠ 0 then .error (.internal "bitor_neg_pos carry_or") else .ok z.1

/-- `bitor_neg_neg(a: &mut Vec, b)` — answer is neg, has length of shortest -/
def bitorNegNeg (a b : List Nat) : Except Panic (List Nat) :=
  let z := zipLoop (· ||| ·) true true true 1 1 1 a b
  let carryA := z.2.1; let carryB := z.2.2.1; let carryOr := z.2.2.2
  if ¬ (a.length > b.length ∨ carryA = 0) then .error (.internal "bitor_neg_neg carry_a") else
  if ¬ (b.length > a.length ∨ carryB = 0) then .error (.internal "bitor_neg_neg carry_b") else
  let a1 := z.1 ++ a.drop b.length
  let a2 := if a.length > b.length then a1.take b.length else a1
  if carryOr ≠ 0 then .error (.internal "bitor_neg_neg carry_or") else .ok a2

/-- `bitxor_pos_neg(a: &mut Vec, b)` — answer is neg, length of longest with a possible carry -/
def bitxorPosNeg (a b : List Nat) : Except Panic (List Nat) :=
  let z := zipLoop (· ^^^ ·) false true true 0 1 1 a b
  let carryB := z.2.2.1; let carryXor := z.2.2.2
  if ¬ (b.length > a.length ∨ carryB = 0) then .error (.internal "bitxor_pos_neg carry_b") else
  let fin (d : List Nat) (c : Nat) : Except Panic (List Nat) := .ok (if c ≠ 0 then d ++ [1] else d)
  match compare a.length b.length with
  | .gt =>
    let t := tailLoop false true true 0 carryXor (a.drop b.length)
    fin (z.1 ++ t.1) t.2.2
  | .eq => fin z.1 carryXor
  | .lt =>
    let t := tailLoop true false true carryB carryXor (b.drop a.length)
    if t.2.1 ≠ 0 then .error (.internal "bitxor_pos_neg carry_b tail") else fin (z.1 ++ t.1) t.2.2

/-- `bitxor_neg_pos(a: &mut Vec, b)` — answer is neg, length of longest with a possible carry -/
def bitxorNegPos (a b : List Nat) : Except Panic (List Nat) :=
  let z := zipLoop (· ^^^ ·) true false true 1 0 1 a b
  let carryA := z.2.1; let carryXor := z.2.2.2
  if ¬ (a.length > b.length ∨ carryA = 0) then .error (.internal "bitxor_neg_pos carry_a") else
  let fin (d : List Nat) (c : Nat) : Except Panic (List Nat) := .ok (if c ≠ 0 then d ++ [1] else d)
  match compare a.length b.length with
  | .gt =>
    let t := tailLoop true false true carryA carryXor (a.drop b.length)
    if t.2.1 ≠ 0 then .error (.internal "bitxor_neg_pos carry_a tail") else fin (z.1 ++ t.1) t.2.2
  | .eq => fin z.1 carryXor
  | .lt =>
    let t := tailLoop false true true 0 carryXor (b.drop a.length)
    fin (z.1 ++ t.1) t.2.2

/-- `bitxor_neg_neg(a: &mut Vec, b)` — answer is pos, has length of longest -/
def bitxorNegNeg (a b : List Nat) : Except Panic (List Nat) :=
  let z := zipLoop (· ^^^ ·) true true false 1 1 0 a b
  let carryA := z.2.1; let carryB := z.2.2.1
  if ¬ (a.length > b.length ∨ carryA = 0) then .error (.internal "bitxor_neg_neg carry_a") else
  if ¬ (b.length > a.length ∨ carryB = 0) then .error (.internal "bitxor_neg_neg carry_b") else
  match compare a.length b.length with
  | .gt =>
    let t := tailLoop true true false carryA 0 (a.drop b.length)
    if t.2.1 ≠ 0 then .error (.internal "bitxor_neg_neg carry_a tail") else .ok (z.1 ++ t.1)
  | .eq => .ok z.1
  | .lt =>
    let t := tailLoop true true false carryB 0 (b.drop a.length)
    if t.2.1 ≠ 0 then .error (.internal "bitxor_neg_neg carry_b tail") else .ok (z.1 ++ t.1)

/-- `IntDigits::normalize for BigInt`: normalise the magnitude, `NoSign` if it became zero -/
def BigInt.normalizeI (x : BigInt) : BigInt :=
  let d := normalize x.mag
  if d = [] then ⟨.nosign, d⟩ else ⟨x.sign, d⟩

/-- `impl From<BigUint> for BigInt` -/
def BigInt.fromU (d : List Nat) : BigInt := if d = [] then ⟨.nosign, []⟩ else ⟨.plus, d⟩

/-- `impl BitAndAssign<&BigInt> for BigInt` -/
def BigInt.andAssign (x y : BigInt) : Except Panic BigInt :=
  match x.sign, y.sign with
  | .nosign, _ => .ok x
  | _, .nosign => .ok ⟨.nosign, []⟩
  | .plus, .plus =>
    let d := C07.andAssign x.mag y.mag
    .ok (if d = [] then ⟨.nosign, d⟩ else ⟨.plus, d⟩)
  | .plus, .minus => (bitandPosNeg x.mag y.mag).map (fun d => BigInt.normalizeI ⟨.plus, d⟩)
  | .minus, .plus => (bitandNegPos x.mag y.mag).map (fun d => BigInt.normalizeI ⟨.plus, d⟩)
  | .minus, .minus => (bitandNegNeg x.mag y.mag).map (fun d => BigInt.normalizeI ⟨.minus, d⟩)

/-- `impl BitAnd<&BigInt> for &BigInt` -/
def BigInt.andRef (x y : BigInt) : Except Panic BigInt :=
  match x.sign, y.sign with
  | .nosign, _ => .ok ⟨.nosign, []⟩
  | _, .nosign => .ok ⟨.nosign, []⟩
  | .plus, .plus => .ok (BigInt.fromU (C07.andRef x.mag y.mag))
  | .plus, .minus => BigInt.andAssign x y
  | .minus, .plus => BigInt.andAssign y x
  | .minus, .minus => if x.mag.length ≥ y.mag.length then BigInt.andAssign x y else BigInt.andAssign y x

/-- `impl BitOrAssign<&BigInt> for BigInt` -/
def BigInt.orAssign (x y : BigInt) : Except Panic BigInt :=
  match x.sign, y.sign with
  | _, .nosign => .ok x
  | .nosign, _ => .ok y
  | .plus, .plus => .ok ⟨.plus, C07.orAssign x.mag y.mag⟩
  | .plus, .minus => (bitorPosNeg x.mag y.mag).map (fun d => BigInt.normalizeI ⟨.minus, d⟩)
  | .minus, .plus => (bitorNegPos x.mag y.mag).map (fun d => BigInt.normalizeI ⟨.minus, d⟩)
  | .minus, .minus => (bitorNegNeg x.mag y.mag).map (fun d => BigInt.normalizeI ⟨.minus, d⟩)

/-- `impl BitOr<&BigInt> for &BigInt` -/
def BigInt.orRef (x y : BigInt) : Except Panic BigInt :=
  match x.sign, y.sign with
  | .nosign, _ => .ok y
  | _, .nosign => .ok x
  | .plus, .plus => .ok (BigInt.fromU (C07.orRef x.mag y.mag))
  | .plus, .minus => BigInt.orAssign y x
  | .minus, .plus => BigInt.orAssign x y
  | .minus, .minus => if x.mag.length ≤ y.mag.length then BigInt.orAssign x y else BigInt.orAssign y x

/-- `impl BitXorAssign<&BigInt> for BigInt` -/
def BigInt.xorAssign (x y : BigInt) : Except Panic BigInt :=
  match x.sign, y.sign with
  | _, .nosign => .ok x
  | .nosign, _ => .ok y
  | .plus, .plus =>
    let d := C07.xorAssign x.mag y.mag
    .ok (if d = [] then ⟨.nosign, d⟩ else ⟨.plus, d⟩)
  | .plus, .minus => (bitxorPosNeg x.mag y.mag).map (fun d => BigInt.normalizeI ⟨.minus, d⟩)
  | .minus, .plus => (bitxorNegPos x.mag y.mag).map (fun d => BigInt.normalizeI ⟨.minus, d⟩)
  | .minus, .minus => (bitxorNegNeg x.mag y.mag).map (fun d => BigInt.normalizeI ⟨.plus, d⟩)

/-- `forward_all_binop_to_val_ref_commutative!(impl BitXor for BigInt)`: clone the longer -/
def BigInt.xorRef (x y : BigInt) : Except Panic BigInt :=
  if x.mag.length ≥ y.mag.length then BigInt.xorAssign x y else BigInt.xorAssign y x

/-! ### `impl Not for BigInt` (src/bigint.rs) with the scalar `+= 1u32` / `-= 1u32` it uses -/

/-- `impl AddAssign<u32> for BigUint` -/
def addAssignU32 (P : Params) (a : List Nat) (other : Nat) : List Nat :=
  if other ≠ 0 then
    let a0 := if a = [] then [0] else a
    let r := add2c P a0 [other]
    if r.2 ≠ 0 then r.1 ++ [r.2] else r.1
  else a

/-- `impl SubAssign<u32> for BigUint`: `sub2(&mut self.data[..], &[other]); self.normalize()` -/
def subAssignU32 (P : Params) (a : List Nat) (other : Nat) : Except Panic (List Nat) :=
  (sub2 P a [other]).map normalize

/-- `impl Not for BigInt` (by value) -/
def BigInt.notVal (P : Params) (x : BigInt) : Except Panic BigInt :=
  match x.sign with
  | .nosign | .plus => .ok ⟨.minus, addAssignU32 P x.mag 1⟩
  | .minus =>
    (subAssignU32 P x.mag 1).map (fun d => ⟨if d = [] then .nosign else .plus, d⟩)

/-- `impl Not for &BigInt` -/
def BigInt.notRef (P : Params) (x : BigInt) : Except Panic BigInt :=
  match x.sign with
  | .nosign => .ok (BigInt.neg ⟨.plus, [1]⟩)
  | .plus => .ok (BigInt.neg (BigInt.fromU (addAssignU32 P x.mag 1)))
  | .minus => (subAssignU32 P x.mag 1).map BigInt.fromU

/-! ### `BigInt::{bits, trailing_zeros, bit, set_bit}` and `set_negative_bit` -/

def BigInt.bits (x : BigInt) : Nat := bitsU x.mag
def BigInt.trailingZeros (x : BigInt) : Option Nat := trailingZerosU x.mag

/-- `BigInt::bit` -/
def BigInt.bit (x : BigInt) (bit : Nat) : Except Panic Bool :=
  if x.sign = .minus then
    if bit ≥ BITS * x.mag.length then .ok true
    else
      match trailingZerosU x.mag with
      | none => .error (.internal "bit trailing_zeros unwrap")
      | some tz =>
        .ok (match compare bit tz with
             | .lt => false
             | .eq => true
             | .gt => !(bitU x.mag bit))
  else .ok (bitU x.mag bit)

/-- the `for digit in digit_iter` loop of the clearing case, with its early `break` -/
def clearLoop : Nat → Nat → List Nat → List Nat × (Nat × Nat)
  | cin, cout, [] => ([], (cin, cout))
  | cin, cout, d :: ds =>
    if cin = 0 ∧ cout = 0 then (d :: ds, (cin, cout))
    else
      let t := negCarry d cin
      let o := negCarry t.1 cout
      let r := clearLoop t.2 o.2 ds
      (o.1 :: r.1, r.2)

/-- `set_negative_bit(x, bit, value)` on the magnitude of a negative `x` -/
def setNegativeBit (data : List Nat) (bit : Nat) (value : Bool) : Except Panic (List Nat) :=
  if bit ≥ BITS * data.length then
    .ok (if !value then setBitU data bit true else data)
  else
    match trailingZerosU data with
    | none => .error (.internal "set_negative_bit trailing_zeros unwrap")
    | some tz =>
      if bit > tz then .ok (setBitU data bit (!value))
      else if bit = tz ∧ !value then
        let bitIndex := bit / BITS
        let bitMask := 1 <<< (bit % BITS)
        match data.drop bitIndex with
        | [] => .error (.internal "set_negative_bit digit_iter unwrap")
        | digit :: rest =>
          let tin := negCarry digit 1
          let twosOut := tin.1 &&& dnot bitMask
          let o := negCarry twosOut 1
          let r := clearLoop tin.2 o.2 rest
          let d := data.take bitIndex ++ o.1 :: r.1
          if r.2.2 ≠ 0 then
            if r.2.1 ≠ 0 then .error (.internal "set_negative_bit carry_in") else .ok (d ++ [1])
          else .ok d
      else if bit < tz ∧ value then
        let indexLo := bit / BITS
        let indexHi := tz / BITS
        let maskLo := (MAXD <<< (bit % BITS)) % B
        let maskHi := MAXD >>> (BITS - 1 - (tz % BITS))
        if indexHi ≥ data.length then .error (.internal "set_negative_bit index") else
        if indexLo = indexHi then
          .ok (data.set indexLo (data.getD indexLo 0 ^^^ (maskLo &&& maskHi)))
        else
          let d1 := data.set indexLo maskLo
          let d2 := d1.take (indexLo + 1) ++ List.replicate (indexHi - (indexLo + 1)) MAXD ++ d1.drop indexHi
          .ok (d2.set indexHi (d2.getD indexHi 0 ^^^ maskHi))
      else .ok data

/-- `BigInt::set_bit` -/
def BigInt.setBit (x : BigInt) (bit : Nat) (value : Bool) : Except Panic BigInt :=
  (match x.sign with
   | .plus => (.ok ⟨.plus, setBitU x.mag bit value⟩ : Except Panic BigInt)
   | .minus => (setNegativeBit x.mag bit value).map (fun d => ⟨.minus, d⟩)
   | .nosign => .ok (if value then ⟨.plus, setBitU x.mag bit true⟩ else x)).map BigInt.normalizeI

end NB.C07
