/-
  NB.Model.Cost — the work count of the multiplication model, and the nominal recurrence `W`.

  The Rust hook is the single statement `crate::verif::work(b.len())` in `mac_digit`, executed
  after the `c == 0` early return: every non-zero multiplier digit adds the row length.  The
  count therefore depends only on the two operands, never on the accumulator, and the only data it
  depends on is what the dispatch of `mac3` looks at: low zero digits (stripping), zero multiplier
  digits in the schoolbook loop, the signs and lengths of the Karatsuba differences (`sub_sign`),
  and the magnitudes of the Toom-3 evaluation points (which are sums/differences of slices — no
  product is needed to know them).  `Cost.mac3` mirrors exactly that dispatch, function by
  function, reusing `lowZeros`, `subSign`, `toomSplit`, `toomPts` of NB.Model.Mul.

  `W P fuel n m` is the nominal-length recurrence of DESIGN.md §4 C20: the same dispatch on the
  lengths alone with every sub-product at its maximal length (`j0.len = x1.len`, Toom-3 evaluation
  points one digit longer than a part, one-digit factors free since they take the scalar path).
  It returns `none` when the fuel is exhausted.
-/
import NB.Base
import NB.Model.Mul
namespace NB.Cost
open NB.Mul

abbrev CostFn := List Nat → List Nat → Nat

/-- `for xi in x { mac_digit(.., y, xi) }`: one row of length `y.len()` per non-zero `xi` -/
def school (x y : List Nat) : Nat := (x.filter (· ≠ 0)).length * y.length

/-- the `impl_mul!` shape match: zero and one-digit operands take the scalar path (no row) -/
def mulMag (rec : CostFn) (a b : List Nat) : Nat :=
  match a, b with
  | [], _ => 0
  | _, [] => 0
  | _, [_] => 0
  | [_], _ => 0
  | x, y => rec x y

/-- a BigInt product inside Toom-3 -/
def mulInt (rec : CostFn) (a b : Int) : Nat := mulMag rec (ofNat a.natAbs) (ofNat b.natAbs)

def halfKara (P : Params) (rec : CostFn) (x y : List Nat) : Nat :=
  let m2 := y.length / P.halfDen
  rec x (y.take m2) + rec x (y.drop m2)

def karatsuba (P : Params) (rec : CostFn) (x y : List Nat) : Nat :=
  let b := x.length / P.karaDen
  let x0 := x.take b
  let x1 := x.drop b
  let y0 := y.take b
  let y1 := y.drop b
  let c := rec x1 y1 + rec x0 y0
  match subSign P x1 x0, subSign P y1 y0 with
  | .ok j0, .ok j1 =>
    match j0.1.mul j1.1 with
    | .nosign => c
    | _ => c + rec j0.2 j1.2
  | _, _ => c

def toom3 (P : Params) (rec : CostFn) (x y : List Nat) : Nat :=
  let i := y.length / P.toomDen + P.toomAdd
  let x0len := min x.length i
  let x1len := min (x.length - x0len) i
  let y0len := i
  let y1len := min (y.length - y0len) i
  let xs := toomSplit x0len x1len x
  let ys := toomSplit y0len y1len y
  let px := toomPts xs.1 xs.2.1 xs.2.2
  let py := toomPts ys.1 ys.2.1 ys.2.2
  mulInt rec px.1 py.1 + mulInt rec px.2.1 py.2.1 + mulInt rec px.2.2.1 py.2.2.1
    + mulInt rec px.2.2.2.1 py.2.2.2.1 + mulInt rec px.2.2.2.2 py.2.2.2.2

def mac3Core (P : Params) (rec : CostFn) (b c : List Nat) : Nat :=
  let x := if b.length < c.length then b else c
  let y := if b.length < c.length then c else b
  if x.length ≤ P.tSchool then school x y
  else if x.length * P.halfMul ≤ y.length then halfKara P rec x y
  else if x.length ≤ P.tKara then karatsuba P rec x y
  else toom3 P rec x y

def mac3Body (P : Params) (rec : CostFn) (b c : List Nat) : Nat :=
  let nb := lowZeros b
  if nb ≠ 0 ∧ nb = b.length then 0
  else
    let nc := lowZeros c
    if nc ≠ 0 ∧ nc = c.length then 0
    else mac3Core P rec (b.drop nb) (c.drop nc)

/-- work count of `mac3(acc, b, c)` (any `acc`) -/
def mac3 (P : Params) : Nat → List Nat → List Nat → Nat
  | 0, _, _ => 0
  | fuel + 1, b, c => mac3Body P (mac3 P fuel) b c

/-- work count of `&a * &b` -/
def mul (P : Params) (a b : List Nat) : Nat := mulMag (mac3 P (mulFuel a b)) a b

/-! ### nominal recurrence -/

/-- a Toom-3 point product on nominal lengths: one-digit (and empty) factors are free -/
def Wm (rec : Nat → Nat → Option Nat) (a b : Nat) : Option Nat :=
  if a ≤ 1 ∨ b ≤ 1 then some 0 else rec a b

def add3 (a b c : Option Nat) : Option Nat :=
  match a, b, c with
  | some x, some y, some z => some (x + y + z)
  | _, _, _ => none

def Wbody (P : Params) (rec : Nat → Nat → Option Nat) (n m : Nat) : Option Nat :=
  let x := min n m
  let y := max n m
  if x ≤ P.tSchool then some (x * y)
  else if x * P.halfMul ≤ y then
    let m2 := y / P.halfDen
    -- rec x m2 + rec x (y - m2); equal halves are evaluated once
    match rec x m2 with
    | some a => if y - m2 = m2 then some (a + a) else add3 (some a) (rec x (y - m2)) (some 0)
    | none => none
  else if x ≤ P.tKara then
    let b := x / P.karaDen
    -- p2, p0 and (nominally full-length) p1: rec (x-b) (y-b) + rec b b + rec (x-b) (y-b)
    match rec (x - b) (y - b) with
    | some a => add3 (some a) (rec b b) (some a)
    | none => none
  else
    let i := y / P.toomDen + P.toomAdd
    match Wm rec (i + 1) (i + 1) with
    | some e => add3 (Wm rec i i) (Wm rec (x - 2 * i) (y - 2 * i)) (some (3 * e))
    | none => none

/-- nominal work of an `n × m` digit product (`none`: fuel exhausted) -/
def W (P : Params) : Nat → Nat → Nat → Option Nat
  | 0, _, _ => none
  | fuel + 1, n, m => Wbody P (W P fuel) n m

/-- fuel used for the size table (recursion depth is logarithmic) -/
def Wfuel : Nat := 64

/-! ### the fixed dense operands of the C20 size table -/

/-- digit `i` of operand `k ∈ {0, 1}` for pattern id `p`:
    `((i+1) * 0x9E3779B97F4A7C15 + p + k * 0xD1B54A32D192ED03) mod 2^64 | 1` -/
def denseDigit (p k i : Nat) : Nat :=
  (((i + 1) * 0x9E3779B97F4A7C15 + p + k * 0xD1B54A32D192ED03) % B) ||| 1

def dense (p k n : Nat) : List Nat := (List.range n).map (denseDigit p k)

end NB.Cost
