/-
  NB.Model.RootsD — DIGIT-level model of `impl Roots for BigUint` (src/biguint.rs: `fixpoint`,
  `nth_root`, `sqrt`, `cbrt`) and `impl Roots for BigInt` (src/bigint.rs).

  Same control flow as the value-level model NB.Model.Roots, but every BigUint operator of the Rust
  text is the digit-level model of that operator (on `List Nat`, little-endian base-2^64 digits), with
  its panic outcome propagated:

      x < xn, x > xn                   `cmpSlice`                       (cmp_slice)
      xn.bits(), self.bits()           `C07.bitsU`
      BigUint::one() << max_bits       `C07.biguintShl [1] max_bits`    (capacity panic possible)
      self / s, self / s.pow(..),
      self / (s * s)                   `divRef` = first component of `divRemRef`  (&a / b forwards to &a / &b)
      s * s                            `Mul.mulRef`
      s.pow(n_min_1)                   `powRVD` below: the `pow_impl!` loops with `Mul.mulRef` / `Mul.mulAssign`
      n_min_1 * s                      `Mul.scalarMul s n_min_1`        (u32 * &BigUint → clone, `*= u32` → scalar_mul)
      s + q                            `addAssign q s`                  (&a + b → b + &a → b += &a)
      n_min_1 * s + q, (s << 1) + q    `addAssign t q`                  (val + val; the operand that is kept is chosen
                                                                        by `capacity()`, which is not modelled: both
                                                                        choices return the same digits, C01)
      t >> 1, s << 1                   `C07.biguintShr t 1`, `C07.biguintShl s 1`
      t / n, t / 3u32                  `divRemDigit t n`                (BigUint / u32 → div_rem_digit)
      self >> scale, r << root_scale   `C07.biguintShr`, `C07.biguintShl`
      is_zero() || is_one()            `x = [] ∨ x = [1]`
      self.to_u64()                    `Conv.U.toU64`;  `.into()` = `fromDigit`

  The initial guess is, as in NB.Model.Roots, supplied by a guess source — here `GuessSrcD`, whose
  functions receive and return digit vectors.  `nostdSrcD` is `BigUint::one() << max_bits`;
  `stdSrcD P F d` is the `#[cfg(feature = "std")]` match: the float arm is the abstract evaluation
  `F : Roots.F64` applied to the value (its result converted with `ofNat`), the `_` arm is the scaled
  recursive call `(self >> scale).nth_root(n) << root_scale` / the fallback, on digits.

  Not digit-level: the primitive `u64` roots of num-integer (`Roots.floorRoot` on the value, as before),
  the float evaluation `F`, the `u64` bit-count arithmetic (`bits`, `max_bits`, `scale`: `Nat`), the fuel
  (computed from the value of the guess; a model artefact, proved sufficient).

  Refinement theorems (NB.Lemmas.RootsD / NB.Props.C11): for canonical inputs these functions return
  `(value-level function on val).map ofNat`.
-/
import NB.Base
import NB.Model.AddSub
import NB.Model.Mul
import NB.Model.Div
import NB.Model.Shift
import NB.Model.Bits
import NB.Model.Convert
import NB.Model.Pow
import NB.Model.Roots
namespace NB.RootsD

/-! ### `Pow<u32> for &BigUint` (src/biguint/power.rs, `pow_impl!`) on digits -/

/-- `while exp & 1 == 0 { base = &base * &base; exp >>= 1; }` -/
def sqLoopD (P : Params) : Nat → List Nat → Nat → Except Panic (List Nat × Nat)
  | 0, _, _ => .error (.internal "fuel")
  | fuel + 1, base, exp =>
    if exp &&& 1 = 0 then
      match Mul.mulRef P base base with
      | .error e => .error e
      | .ok b2 => sqLoopD P fuel b2 (exp >>> 1)
    else .ok (base, exp)

/-- `while exp > 1 { exp >>= 1; base = &base * &base; if exp & 1 == 1 { acc *= &base; } }` -/
def accLoopD (P : Params) : Nat → List Nat → Nat → List Nat → Except Panic (List Nat)
  | 0, _, _, _ => .error (.internal "fuel")
  | fuel + 1, base, exp, acc =>
    if exp > 1 then
      let exp := exp >>> 1
      match Mul.mulRef P base base with
      | .error e => .error e
      | .ok base =>
        if exp &&& 1 = 1 then
          match Mul.mulAssign P acc base with
          | .error e => .error e
          | .ok acc => accLoopD P fuel base exp acc
        else accLoopD P fuel base exp acc
    else .ok acc

/-- `impl Pow<$T> for BigUint` -/
def powVVD (P : Params) (x : List Nat) (e : Nat) : Except Panic (List Nat) :=
  if e = 0 then .ok [1] else
  match sqLoopD P (Pow.powFuel e) x e with
  | .error p => .error p
  | .ok (base, exp) =>
    if exp = 1 then .ok base else
    accLoopD P (Pow.powFuel e) base exp base

/-- `impl Pow<$T> for &BigUint`: `if exp == 0 { return one }; Pow::pow(self.clone(), exp)` -/
def powRVD (P : Params) (x : List Nat) (e : Nat) : Except Panic (List Nat) :=
  if e = 0 then .ok [1] else powVVD P x e

/-! ### `fixpoint` -/

/-- `BigUint::one() << max_bits` -/
def oneShl (maxBits : Nat) : Except Panic (List Nat) := C07.biguintShl [1] (maxBits : Int)

/-- first loop: `while x < xn { x = if xn.bits() > max_bits { 1 << max_bits } else { xn }; xn = f(&x) }` -/
def climbD (f : List Nat → Except Panic (List Nat)) (maxBits : Nat) :
    Nat → List Nat → List Nat → Except Panic (List Nat × List Nat)
  | 0, _, _ => .error (.internal "fuel")
  | fuel + 1, x, xn =>
    if cmpSlice x xn = .lt then
      match (if C07.bitsU xn > maxBits then oneShl maxBits else .ok xn) with
      | .error e => .error e
      | .ok x' =>
        match f x' with
        | .error e => .error e
        | .ok xn' => climbD f maxBits fuel x' xn'
    else .ok (x, xn)

/-- second loop: `while x > xn { x = xn; xn = f(&x) }; x` -/
def descendD (f : List Nat → Except Panic (List Nat)) : Nat → List Nat → List Nat → Except Panic (List Nat)
  | 0, _, _ => .error (.internal "fuel")
  | fuel + 1, x, xn =>
    if cmpSlice x xn = .gt then
      match f xn with
      | .error e => .error e
      | .ok xn' => descendD f fuel xn xn'
    else .ok x

/-- `fn fixpoint(x, max_bits, f)` -/
def fixpointD (fuel : Nat) (x : List Nat) (maxBits : Nat) (f : List Nat → Except Panic (List Nat)) :
    Except Panic (List Nat) :=
  match f x with
  | .error e => .error e
  | .ok xn =>
    match climbD f maxBits fuel x xn with
    | .error e => .error e
    | .ok (x, xn) => descendD f fuel x xn

/-! ### Newton steps (the closures passed to `fixpoint`) -/

/-- `|s| { let q = self / s.pow(n_min_1); let t = n_min_1 * s + q; t / n }` -/
def stepNthD (P : Params) (x : List Nat) (n : Nat) (s : List Nat) : Except Panic (List Nat) :=
  let nMin1 := n - 1
  match powRVD P s nMin1 with
  | .error e => .error e
  | .ok d =>
    match divRef P x d with
    | .error e => .error e
    | .ok q =>
      let t := addAssign P (Mul.scalarMul s nMin1) q
      match divRemDigit t n with
      | .error e => .error e
      | .ok (r, _) => .ok r

/-- `|s| { let q = self / s; let t = s + q; t >> 1 }` -/
def stepSqrtD (P : Params) (x : List Nat) (s : List Nat) : Except Panic (List Nat) :=
  match divRef P x s with
  | .error e => .error e
  | .ok q =>
    let t := addAssign P q s
    C07.biguintShr t 1

/-- `|s| { let q = self / (s * s); let t = (s << 1) + q; t / 3u32 }` -/
def stepCbrtD (P : Params) (x : List Nat) (s : List Nat) : Except Panic (List Nat) :=
  match Mul.mulRef P s s with
  | .error e => .error e
  | .ok ss =>
    match divRef P x ss with
    | .error e => .error e
    | .ok q =>
      match C07.biguintShl s 1 with
      | .error e => .error e
      | .ok s2 =>
        let t := addAssign P s2 q
        match divRemDigit t 3 with
        | .error e => .error e
        | .ok (r, _) => .ok r

/-! ### guess sources on digits -/

/-- where `let guess = …` is evaluated: arguments are `self`, (`n`,) `bits`, `max_bits` -/
structure GuessSrcD where
  nth : List Nat → Nat → Nat → Nat → Except Panic (List Nat)
  sqrt : List Nat → Nat → Nat → Except Panic (List Nat)
  cbrt : List Nat → Nat → Nat → Except Panic (List Nat)

/-- `if let Some(x) = self.to_u64() { return x.nth_root(n).into(); }`: `some r` when the fast path
    returns; the primitive root is num-integer's (spec-level `floorRoot`), `.into()` is `fromDigit` -/
def u64Path (x : List Nat) (n : Nat) : Except Panic (Option (List Nat)) :=
  match Conv.U.toU64 x with
  | .error e => .error e
  | .ok (some v) => .ok (some (fromDigit (Roots.floorRoot v n)))
  | .ok none => .ok none

/-! ### the three root functions, parameterised by the guess source -/

/-- `BigUint::sqrt` -/
def sqrtD (P : Params) (S : GuessSrcD) (x : List Nat) : Except Panic (List Nat) :=
  if x = [] ∨ x = [1] then .ok x else
  match u64Path x 2 with
  | .error e => .error e
  | .ok (some r) => .ok r
  | .ok none =>
    let bits := C07.bitsU x
    let maxBits := bits / 2 + 1
    match S.sqrt x bits maxBits with
    | .error e => .error e
    | .ok guess => fixpointD (Roots.fixFuel (val guess) maxBits) guess maxBits (stepSqrtD P x)

/-- `BigUint::cbrt` -/
def cbrtD (P : Params) (S : GuessSrcD) (x : List Nat) : Except Panic (List Nat) :=
  if x = [] ∨ x = [1] then .ok x else
  match u64Path x 3 with
  | .error e => .error e
  | .ok (some r) => .ok r
  | .ok none =>
    let bits := C07.bitsU x
    let maxBits := bits / 3 + 1
    match S.cbrt x bits maxBits with
    | .error e => .error e
    | .ok guess => fixpointD (Roots.fixFuel (val guess) maxBits) guess maxBits (stepCbrtD P x)

/-- `BigUint::nth_root` -/
def nthRootD (P : Params) (S : GuessSrcD) (x : List Nat) (n : Nat) : Except Panic (List Nat) :=
  -- `assert!(n > 0, "root degree n must be at least 1")`
  if n = 0 then .error .zeroroot else
  if x = [] ∨ x = [1] then .ok x else
  if n = 1 then .ok x else
  if n = 2 then sqrtD P S x else
  if n = 3 then cbrtD P S x else
  -- The root of non-zero values less than 2ⁿ can only be 1.
  let bits := C07.bitsU x
  if bits ≤ n then .ok [1] else
  match u64Path x n with
  | .error e => .error e
  | .ok (some r) => .ok r
  | .ok none =>
    let maxBits := bits / n + 1
    match S.nth x n bits maxBits with
    | .error e => .error e
    | .ok guess => fixpointD (Roots.fixFuel (val guess) maxBits) guess maxBits (stepNthD P x n)

/-- `#[cfg(not(feature = "std"))] let guess = BigUint::one() << max_bits;` -/
def nostdSrcD : GuessSrcD where
  nth := fun _ _ _ maxBits => oneShl maxBits
  sqrt := fun _ _ maxBits => oneShl maxBits
  cbrt := fun _ _ maxBits => oneShl maxBits

/-- `#[cfg(feature = "std")] let guess = match self.to_f64() { … }` on digits.  The float arm is the
    abstract evaluation `F` of NB.Model.Roots applied to the value of `self`; `d` bounds the depth of
    the scaled recursive call. -/
def stdSrcD (P : Params) (F : Roots.F64) : Nat → GuessSrcD
  | 0 =>
    { nth := fun _ _ _ _ => .error (.internal "depth")
      sqrt := fun _ _ _ => .error (.internal "depth")
      cbrt := fun _ _ _ => .error (.internal "depth") }
  | d + 1 =>
    { nth := fun x n bits maxBits =>
        match F.nth (val x) n with
        | some g => .ok (ofNat g)
        | none =>
          -- Try to guess by scaling down such that it does fit in `f64`.
          match Roots.extraBits bits with
          | .error e => .error e
          | .ok extra =>
            let rootScale := Roots.divCeil extra n
            let scale := rootScale * n
            if scale < bits ∧ bits - scale > n then
              -- `(self >> scale).nth_root(n) << root_scale`
              match C07.biguintShr x (scale : Int) with
              | .error e => .error e
              | .ok y =>
                match nthRootD P (stdSrcD P F d) y n with
                | .error e => .error e
                | .ok r => C07.biguintShl r (rootScale : Int)
            else oneShl maxBits
      sqrt := fun x bits _ =>
        match F.sqrt (val x) with
        | some g => .ok (ofNat g)
        | none =>
          match Roots.extraBits bits with
          | .error e => .error e
          | .ok extra =>
            let rootScale := (extra + 1) / 2
            let scale := rootScale * 2
            match C07.biguintShr x (scale : Int) with
            | .error e => .error e
            | .ok y =>
              match sqrtD P (stdSrcD P F d) y with
              | .error e => .error e
              | .ok r => C07.biguintShl r (rootScale : Int)
      cbrt := fun x bits _ =>
        match F.cbrt (val x) with
        | some g => .ok (ofNat g)
        | none =>
          match Roots.extraBits bits with
          | .error e => .error e
          | .ok extra =>
            let rootScale := (extra + 2) / 3
            let scale := rootScale * 3
            match C07.biguintShr x (scale : Int) with
            | .error e => .error e
            | .ok y =>
              match cbrtD P (stdSrcD P F d) y with
              | .error e => .error e
              | .ok r => C07.biguintShl r (rootScale : Int) }

/-! ### `impl Roots for BigInt` on digits -/

/-- `BigInt::nth_root` -/
def bigintNthRootD (P : Params) (S : GuessSrcD) (x : BigInt) (n : Nat) : Except Panic BigInt :=
  -- `assert!(!(self.is_negative() && n.is_even()), "root of degree {} is imaginary", n)`
  if x.sign = .minus ∧ n % 2 = 0 then .error .imaginary else
  match nthRootD P S x.mag n with
  | .error e => .error e
  | .ok r => .ok (BigInt.fromBiguint x.sign r)

/-- `BigInt::sqrt` -/
def bigintSqrtD (P : Params) (S : GuessSrcD) (x : BigInt) : Except Panic BigInt :=
  -- `assert!(!self.is_negative(), "square root is imaginary")`
  if x.sign = .minus then .error .imaginary else
  match sqrtD P S x.mag with
  | .error e => .error e
  | .ok r => .ok (BigInt.fromBiguint x.sign r)

/-- `BigInt::cbrt` -/
def bigintCbrtD (P : Params) (S : GuessSrcD) (x : BigInt) : Except Panic BigInt :=
  match cbrtD P S x.mag with
  | .error e => .error e
  | .ok r => .ok (BigInt.fromBiguint x.sign r)

end NB.RootsD
