/-
  NB.Model.Monty — digit-level model of src/biguint/monty.rs (64-bit digits).

  `inv_mod_alt`, `mul_add_www`, `add_ww`, `add_mul_vvw`, `sub_vv`, `montgomery` are modelled on
  `Nat` digits `< B` with the wrapping arithmetic of the release build written out (`% B`);
  the theorems of NB.Props.C05 show that no wrap-around ever loses information.  `monty_modpow`
  keeps the padding, the `rr` constant, the `2^window`-entry table, the windows taken from the
  top of every exponent digit, the `squarings` squarings per window skipped on the very first window, the conversion
  out of Montgomery form and the "one last reduction".  BigUint operators used by the Rust code
  (`x %= m`, `1 << k`, `% m`, `>=`, `-=`) are taken at value level (C01–C03, C07).
-/
import NB.Base
namespace NB

/-- `big_digit::BITS` on the modelled target -/
def BITS : Nat := 64

/-- `a.wrapping_add(b)` -/
def wadd (a b : Nat) : Nat := (a + b) % B
/-- `a.wrapping_sub(b)` for digits `a, b < B` -/
def wsub (a b : Nat) : Nat := (a + B - b) % B
/-- `a.wrapping_mul(b)` -/
def wmul (a b : Nat) : Nat := (a * b) % B
/-- `a.wrapping_neg()` for a digit `a < B` -/
def wneg (a : Nat) : Nat := (B - a) % B
/-- `!a` for a digit `a < B` -/
def wnot (a : Nat) : Nat := B - 1 - a

/-- the `while i < BITS { t = t*t; k0 = k0*(t+1); i <<= 1 }` loop of `inv_mod_alt`.
    `t + 1` is an overflow site (debug builds): it becomes an internal error.  The fuel is the
    number of iterations still allowed; `invModAlt` passes `BITS`, which is more than enough
    (`i` doubles). -/
def invLoop : Nat → Nat → Nat → Nat → Except Panic (Nat × Nat)
  | 0, _, _, _ => .error (.internal "inv_mod_alt: loop does not terminate")
  | fuel + 1, i, t, k0 =>
    if i < BITS then
      let t := wmul t t
      if t + 1 ≥ B then .error (.internal "inv_mod_alt: t + 1 overflows") else
      let k0 := wmul k0 (t + 1)
      invLoop fuel (i * 2) t k0
    else .ok (t, k0)

/-- `inv_mod_alt(b)`: `-b⁻¹ mod 2^64` by Newton iteration -/
def invModAlt (b : Nat) : Except Panic Nat :=
  if b &&& 1 = 0 then .error (.internal "inv_mod_alt: assert_ne!(b & 1, 0)") else
  let k0 := wsub 2 b
  let t := b - 1
  match invLoop BITS 1 t k0 with
  | .error e => .error e
  | .ok (_, k0) =>
    if wmul k0 b ≠ 1 then .error (.internal "inv_mod_alt: debug_assert_eq!(k0 * b, 1)")
    else .ok (wneg k0)

/-- `mul_add_www(x, y, c) = (z1, z0)` with `z1·B + z0 = x·y + c` computed in u128 -/
def mulAddWWW (x y c : Nat) : Nat × Nat :=
  let z := x * y + c
  ((z / B) % B, z % B)

/-- `add_ww(x, y, c) = (z1, z0)` -/
def addWW (x y c : Nat) : Nat × Nat :=
  let yc := wadd y c
  let z0 := wadd x yc
  let z1 := if z0 < x ∨ yc < y then 1 else 0
  (z1, z0)

/-- `add_mul_vvw(z, x, y)`: `z += x·y` over `zip(z, x)`, returns (new z, carry word).  The
    carry-in is explicit so that the loop is a structural recursion; digits of `z` beyond the
    zip are left alone. -/
def addMulVVW : List Nat → List Nat → Nat → Nat → List Nat × Nat
  | zi :: zs, xi :: xs, y, c =>
    let p := mulAddWWW xi y zi
    let s := addWW p.2 c 0
    let r := addMulVVW zs xs y (wadd s.1 p.1)
    (s.2 :: r.1, r.2)
  | zs, _, _, c => (zs, c)

/-- the borrow of `sub_vv`: Hacker's Delight 2-12 -/
def hdBorrow (xi yi zi : Nat) : Nat :=
  ((yi &&& wnot xi) ||| ((yi ||| wnot xi) &&& zi)) >>> (BITS - 1)

/-- `sub_vv(z, x, y)`: `z = x - y` over `zip(x, y).take(z.len())`, returns (new z, borrow) -/
def subVV : List Nat → List Nat → List Nat → Nat → List Nat × Nat
  | _ :: zs, xi :: xs, yi :: ys, c =>
    let zi := wsub (wsub xi yi) c
    let r := subVV zs xs ys (hdBorrow xi yi zi)
    (zi :: r.1, r.2)
  | zs, _, _, c => (zs, c)

/-- replace the slice `z[i .. i+n]` by `w` -/
def setSlice (z : List Nat) (i n : Nat) (w : List Nat) : List Nat :=
  z.take i ++ w ++ z.drop (i + n)

/-- the body of `for i in 0..n` in `montgomery`; `ys` are the digits `y[i..]` still to come
    (the Rust code has asserted `y.len() == n`).  State: the `2n`-digit buffer `z` and `c`. -/
def montLoop (x m : List Nat) (k n : Nat) : List Nat → Nat → List Nat → Nat → List Nat × Nat
  | [], _, z, c => (z, c)
  | yi :: ys, i, z, c =>
    let r2 := addMulVVW ((z.drop i).take n) x yi 0
    let z := setSlice z i n r2.1
    let t := wmul (z.getD i 0) k
    let r3 := addMulVVW ((z.drop i).take n) m t 0
    let z := setSlice z i n r3.1
    let cx := wadd c r2.2
    let cy := wadd cx r3.2
    let z := z.set (n + i) cy
    let c := if cx < r2.2 ∨ cy < r3.2 then 1 else 0
    montLoop x m k n ys (i + 1) z c

/-- which exit `montgomery` took (probes MONTY_NOSUB / MONTY_SUB) -/
def montCarry (x y m : List Nat) (k n : Nat) : Nat :=
  (montLoop x m k n y 0 (List.replicate (n * 2) 0) 0).2

/-- `montgomery(x, y, m, k, n)` -/
def montgomery (x y m : List Nat) (k n : Nat) : Except Panic (List Nat) :=
  if ¬ (x.length = n ∧ y.length = n ∧ m.length = n) then
    .error (.internal "montgomery: operand lengths")
  else
    let r := montLoop x m k n y 0 (List.replicate (n * 2) 0) 0
    if r.2 = 0 then .ok (r.1.drop n)
    else .ok (subVV (r.1.take n) (r.1.drop n) m 0).1

/-- `v.resize(n, 0)` when `v.len() < n` -/
def padTo (v : List Nat) (n : Nat) : List Nat := v ++ List.replicate (n - v.length) 0

/-- `v.resize(n, 0)`: pad with zeros or truncate -/
def resize (v : List Nat) (n : Nat) : List Nat := (padTo v n).take n

/-- `powers.push(montgomery(&powers[i-1], &powers[1], …))` for the remaining `cnt` entries;
    `prev` is the last entry pushed so far -/
def tableLoop (m : List Nat) (k n : Nat) (p1 : List Nat) : Nat → List Nat → Except Panic (List (List Nat))
  | 0, _ => .ok []
  | cnt + 1, prev =>
    match montgomery prev p1 m k n with
    | .error e => .error e
    | .ok r =>
      match tableLoop m k n p1 cnt r with
      | .error e => .error e
      | .ok rest => .ok (r :: rest)

/-- `s` Montgomery squarings in a row, as written in the source: the product goes to the other buffer
    (`zz = montgomery(&z, &z, …)`, then `z = montgomery(&zz, &zz, …)` resp. `mem::swap(&mut z, &mut zz)`),
    so each step squares the result of the previous one.  `s` is the extracted `P.squarings`
    (the number of squaring statements, times the loop count if they sit in a `for _ in 0..N`). -/
def squaringsN (m : List Nat) (k n : Nat) : Nat → List Nat → Except Panic (List Nat)
  | 0, z => .ok z
  | s + 1, z =>
    match montgomery z z m k n with
    | .error e => .error e
    | .ok zz => squaringsN m k n s zz

/-- the `while j < BITS` loop over one exponent digit.  `cnt` = iterations still to run
    (`⌈(BITS - j) / w⌉`, fixed when the loop is entered), `first` = `i == y.len() - 1`, `sq` = the
    number of squarings per window (`P.squarings`). -/
def windowLoop (w sq : Nat) (m : List Nat) (k n : Nat) (powers : List (List Nat)) (first : Bool) :
    Nat → Nat → Nat → List Nat → Except Panic (List Nat)
  | 0, _, _, z => .ok z
  | cnt + 1, j, yi, z =>
    let zq := if ¬ first ∨ j ≠ 0 then squaringsN m k n sq z else .ok z
    match zq with
    | .error e => .error e
    | .ok z =>
      match powers[yi >>> (BITS - w)]? with
      | none => .error (.internal "monty_modpow: powers index")
      | some p =>
        match montgomery z p m k n with
        | .error e => .error e
        | .ok zz => windowLoop w sq m k n powers first cnt (j + w) ((yi <<< w) % B) zz

/-- `for i in (0..y.len()).rev()`: `yrev` are the exponent digits from the top; the digit with
    index `i` is the first one processed exactly when nothing has been processed yet -/
def digitLoop (w sq : Nat) (m : List Nat) (k n : Nat) (powers : List (List Nat)) (ylen : Nat) :
    List Nat → List Nat → Except Panic (List Nat)
  | [], z => .ok z
  | yi :: rest, z =>
    let i := rest.length
    match windowLoop w sq m k n powers (i == ylen - 1) ((BITS + w - 1) / w) 0 yi z with
    | .error e => .error e
    | .ok z => digitLoop w sq m k n powers ylen rest z

/-- `monty_modpow(x, y, m)`; operands are the stored digit vectors -/
def montyModpow (P : Params) (x y m : List Nat) : Except Panic (List Nat) :=
  match m with
  | [] => .error (.internal "monty_modpow: m.data[0]")
  | m0 :: _ =>
    if m0 &&& 1 ≠ 1 then .error (.internal "monty_modpow: assert odd") else
    match invModAlt m0 with
    | .error e => .error e
    | .ok k =>
      let n := m.length
      let x := if x.length > n then ofNat (val x % val m) else x
      let x := if x.length < n then padTo x n else x
      let rr := ofNat (2 ^ (2 * n * BITS) % val m)
      let rr := if rr.length < n then padTo rr n else rr
      let one := padTo [1] n
      let w := P.window
      if w = 0 then .error (.internal "monty_modpow: window loop does not terminate") else
      match montgomery one rr m k n with
      | .error e => .error e
      | .ok p0 =>
        match montgomery x rr m k n with
        | .error e => .error e
        | .ok p1 =>
          match tableLoop m k n p1 (2 ^ w - 2) p1 with
          | .error e => .error e
          | .ok rest =>
            let powers := p0 :: p1 :: rest
            let z := resize p0 n
            match digitLoop w P.squarings m k n powers y.length y.reverse z with
            | .error e => .error e
            | .ok z =>
              match montgomery z one m k n with
              | .error e => .error e
              | .ok zz =>
                let v := val zz
                let vm := val m
                let v := if v ≥ vm then
                    let v := v - vm
                    if v ≥ vm then v % vm else v
                  else v
                .ok (ofNat v)

end NB
