/-
  C17 — Serialized form is the portable u32-digit format and round-trips exactly.

  Theorems about the executable model NB.Model.Serde (transcribed from src/biguint/serde.rs and
  src/bigint/serde.rs, 64-bit digit arms; correspondence-checked against the real impls through a
  recording Serializer and a token-replay Deserializer on every run).  A Serializer is abstracted
  to what it is told (the declared sequence length and the u32 elements, the i8 sign), a
  Deserializer to the token list it replays plus its size hint.  Specs: Mathlib `Nat.digits` /
  `Nat.ofDigits` in base 2^32.
-/
import NB.Lemmas.Serde
namespace NB
open NB.Bytes NB.Iter NB.Serde

/-- the length announced to `serialize_seq` is exactly the number of elements emitted — for EVERY
    digit vector (also non-canonical ones) -/
theorem ser_len (d : List Nat) : (ser d).declared = some (ser d).elems.length := ser_declared d

/-- the elements are the base-2^32 digits of the value, least significant first, without a trailing
    zero digit; zero is the empty sequence — independent of the internal 64-bit digit width -/
theorem ser_spec (d : List Nat) (hc : Canon d) : (ser d).elems = Nat.digits (2 ^ 32) (val d) := by
  rw [ser_elems_eq_abs, abs_new hc, W_eq]

theorem ser_zero : ser [] = ⟨some 0, []⟩ := rfl

/-- the serialized elements are exactly what `to_u32_digits` / `iter_u32_digits` produce -/
theorem ser_eq_u32_digits (d : List Nat) (hc : Canon d) : (ser d).elems = toU32Digits d := by
  rw [ser_elems_eq_abs, toU32Digits_eq_abs d hc.1]

/-- deserializing ANY u32 sequence (odd or even length, trailing zero elements, empty), whatever the
    size hint (absent, wrong, huge), yields the canonical representation of `Σ wᵢ·2^(32i)` -/
theorem de_val (hint : Option Nat) (ws : List Nat) (h : Below (2 ^ 32) ws) :
    de hint ws = ofNat (Nat.ofDigits (2 ^ 32) ws) ∧ Canon (de hint ws) := by
  rw [← W_eq] at *
  rw [de_eq hint ws h, ← valBase_eq_ofDigits]
  exact ⟨rfl, ofNat_canon _⟩

/-- the size hint only selects a bounded initial capacity (≤ 2^17 digits): it can neither change the
    value nor cause an oversized allocation -/
theorem de_hint_irrelevant (h1 h2 : Option Nat) (ws : List Nat) :
    de h1 ws = de h2 ws ∧ (visitSeq h1 ws).1 ≤ 131072 := by
  refine ⟨rfl, ?_⟩
  have := cautious_le h1
  simp only [visitSeq]
  omega

/-- trailing zero elements are redundant -/
theorem de_padding (hint : Option Nat) (ws : List Nat) (k : Nat) (h : Below (2 ^ 32) ws) :
    de hint (ws ++ List.replicate k 0) = de hint ws := by
  have hp : Below (2 ^ 32) (ws ++ List.replicate k 0) :=
    h.append (fun x hx => by rw [List.eq_of_mem_replicate hx]; decide)
  rw [(de_val hint _ hp).1, (de_val hint _ h).1, Nat.ofDigits_append_replicate_zero]

/-- `deserialize(serialize(x)) == x` for every value, whatever hint the format passes on -/
theorem de_ser (hint : Option Nat) (d : List Nat) (hc : Canon d) : de hint (ser d).elems = d := by
  rw [ser_spec d hc]
  have hb : Below (2 ^ 32) (Nat.digits (2 ^ 32) (val d)) := fun x hx => Nat.digits_lt_base (by decide) hx
  rw [(de_val hint _ hb).1, Nat.ofDigits_digits, ← canon_eq_ofNat hc]

/-! ## Sign and BigInt -/

/-- a sign value other than −1, 0, 1 is rejected (also integers that do not fit an `i8`) -/
theorem sign_de_reject (v : Int) (h : v ≠ -1 ∧ v ≠ 0 ∧ v ≠ 1) : deSign v = none := by
  unfold deSign
  obtain ⟨h1, h2, h3⟩ := h
  simp [h1, h2, h3]

theorem sign_de_accept : deSign (-1) = some .minus ∧ deSign 0 = some .nosign ∧ deSign 1 = some .plus := by
  decide

theorem sign_round_trip (s : Sign) : deSign (serSign s) = some s := by cases s <;> decide

/-- the serialized sign is −1, 0 or 1 and, for a canonical value, is the sign of the integer -/
theorem ser_sign_spec (x : BigInt) (hx : x.Canon) : (serBigInt x).1 = Int.sign x.val := by
  obtain ⟨s, m⟩ := x
  obtain ⟨hc, hs⟩ := hx
  simp only at hc hs
  cases s with
  | nosign => simp [serBigInt, serSign, BigInt.val]
  | plus =>
    have hne : m ≠ [] := fun h => by simpa using hs.mpr h
    have := canon_val_pos hc hne
    simp only [serBigInt, serSign, BigInt.val]
    rw [Int.sign_eq_one_of_pos (by omega)]
  | minus =>
    have hne : m ≠ [] := fun h => by simpa using hs.mpr h
    have := canon_val_pos hc hne
    simp only [serBigInt, serSign, BigInt.val]
    rw [Int.sign_eq_neg_one_of_neg (by omega)]

/-- a `BigInt` serializes as the pair (sign as −1/0/1, the u32 digits of the magnitude) -/
theorem bigint_ser_spec (x : BigInt) (hx : x.Canon) :
    (serBigInt x).1 = Int.sign x.val ∧
    (serBigInt x).2.elems = Nat.digits (2 ^ 32) x.val.natAbs ∧
    (serBigInt x).2.declared = some (serBigInt x).2.elems.length := by
  refine ⟨ser_sign_spec x hx, ?_, ser_len _⟩
  have : x.val.natAbs = val x.mag := by
    obtain ⟨s, m⟩ := x
    obtain ⟨_, hs⟩ := hx
    cases s with
    | nosign =>
      have : m = [] := hs.mp rfl
      subst this; simp [BigInt.val, val]
    | plus => simp [BigInt.val]
    | minus => simp [BigInt.val]
  rw [this]
  exact ser_spec x.mag hx.1

/-- ANY `(sign, sequence)` pair deserializes to the canonical value it denotes — inconsistent pairs
    (sign 0 with non-zero digits, sign ±1 with zero digits) are canonicalised exactly like
    `from_biguint` — and invalid signs are rejected -/
theorem bigint_de_val (v : Int) (hint : Option Nat) (ws : List Nat) (h : Below (2 ^ 32) ws) :
    deBigInt v hint ws =
      if v = -1 ∨ v = 0 ∨ v = 1 then some (BigInt.ofInt (v * ((Nat.ofDigits (2 ^ 32) ws : Nat) : Int))) else none := by
  unfold deBigInt
  rw [(de_val hint ws h).1]
  by_cases h1 : v = -1
  · subst h1
    simp only [sign_de_accept.1, true_or, if_true]
    rw [fromBiguint_minus (ofNat_canon _), ofNat_val]; simp
  · by_cases h2 : v = 0
    · subst h2
      simp [sign_de_accept.2.1, BigInt.fromBiguint, BigInt.ofInt]
    · by_cases h3 : v = 1
      · subst h3
        simp only [sign_de_accept.2.2, or_true, if_true]
        rw [fromBiguint_plus (ofNat_canon _), ofNat_val]; simp
      · simp [sign_de_reject v ⟨h1, h2, h3⟩, h1, h2, h3]

/-- the result of a successful `BigInt` deserialization is always canonical -/
theorem bigint_de_canon (v : Int) (hint : Option Nat) (ws : List Nat) (h : Below (2 ^ 32) ws) (x : BigInt)
    (hx : deBigInt v hint ws = some x) : x.Canon := by
  rw [bigint_de_val v hint ws h] at hx
  split at hx
  · cases hx; exact bigint_ofInt_canon _
  · cases hx

/-- `deserialize(serialize(x)) == x` for every `BigInt` -/
theorem bigint_de_ser (hint : Option Nat) (x : BigInt) (hx : x.Canon) :
    deBigInt (serBigInt x).1 hint (serBigInt x).2.elems = some x := by
  unfold deBigInt serBigInt
  simp only [sign_round_trip, de_ser hint x.mag hx.1]
  obtain ⟨s, m⟩ := x
  obtain ⟨_, hs⟩ := hx
  simp only at hs
  unfold BigInt.fromBiguint
  by_cases h1 : s = .nosign
  · have : m = [] := hs.mp h1
    subst h1; subst this; simp
  · have : m ≠ [] := fun h => h1 (hs.mpr h)
    simp [h1, this]

/-! ## non-vacuity -/

example : (ser [0xffffffff00000001, 0x1]).elems = [1, 0xffffffff, 1] ∧ (ser [0xffffffff00000001, 0x1]).declared = some 3 := by
  decide
example : deBigInt (-1) (some 7) [0, 0, 0] = some ⟨.nosign, []⟩ := by decide
example : deBigInt 0 none [5, 6, 7] = some ⟨.nosign, []⟩ := by decide
example : deBigInt 2 none [5] = none ∧ deBigInt 300 none [5] = none := by decide

end NB
