#!/usr/bin/env python3
"""Collect the harmless-change runs (tools/bentest.py) into benign/<id>/{patch.diff,meta.json,alarms.json} and print a
markdown table.  Usage: tools/bentable.py <dir with run directories> [<dir> ...] > benign/README.md"""
import glob, json, os, shutil, sys
V = os.path.dirname(os.path.dirname(os.path.abspath(__file__)))
rows = []
for root in sys.argv[1:]:
    for d in sorted(glob.glob(os.path.join(root, "*"))):
        if not os.path.exists(os.path.join(d, "alarms.json")):
            continue
        name = os.path.basename(root.rstrip("/")) + "-" + os.path.basename(d)
        out = os.path.join(V, "benign", name)
        os.makedirs(out, exist_ok=True)
        for f in ("patch.diff", "meta.json", "alarms.json"):
            if os.path.exists(os.path.join(d, f)):
                shutil.copy(os.path.join(d, f), out)
        m = json.load(open(os.path.join(d, "meta.json")))
        a = json.load(open(os.path.join(d, "alarms.json")))
        al = [k for k, v in sorted(a.items()) if v.get("rc") != 0]
        summ = " ".join(str(m.get("summary", "")).split())
        rows.append((name, m.get("kind", "?"), summ[:230] + ("…" if len(summ) > 230 else ""), ", ".join(al) or "none"))
print("# Harmless changes used as negative controls\n")
print("Each directory holds the patch, the author's argument (`meta.json`) and the outcome of all 20 quick checks with the")
print("patch applied (`alarms.json`, written by `tools/bentest.py`).  `-again` / `-third` entries are re-runs after a fix of the")
print("machinery; the fix is described in DESIGN.md §8.\n")
print("| run | kind | change | checks that raised an alarm |")
print("|---|---|---|---|")
for r in rows:
    print("| %s | %s | %s | %s |" % (r[0], r[1], r[2].replace("|", "\\|"), r[3]))
