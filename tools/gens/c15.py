"""C15 — unsafe code: asm block routines on exact-size slices, text validity, rand view."""
from genlib import *

def gen(rng, tier):
    reqs = []
    mx = 130 if tier == "thorough" else 40
    # every (len a, len b) shape for the slice routines; size = every residue mod the block width
    for n in range(0, mx + 1):
        a = digits(rng, n, rng.choice(["rand", "ones", "mixed", "runs"]))
        b = digits(rng, n, rng.choice(["rand", "ones", "mixed", "runs"]))
        reqs.append("C15 raw.asm_add %s %s %d" % (wl(a), wl(b), n))
        reqs.append("C15 raw.asm_sub %s %s %d" % (wl(a), wl(b), n))
        reqs.append("C15 raw.asm_add %s %s %d" % (wl([MAX] * n), wl([MAX] * n), n))
        reqs.append("C15 raw.asm_sub %s %s %d" % (wl([0] * n), wl([MAX] * n), n))
        if n >= 2:
            k = rng.randrange(n)
            reqs.append("C15 raw.asm_add %s %s %d" % (wl(a), wl(b), k))
    lens = range(0, mx + 1) if tier == "thorough" else list(range(0, 13)) + [14, 15, 16, 19, 20, 21, 24, 25, 26, 30, 31, 39, 40]
    for la in lens:
        for lb in lens:
            if tier != "thorough" and rng.randrange(3) and abs(la - lb) > 6:
                continue
            a = digits(rng, la, "mixed"); b = digits(rng, lb, "mixed")
            if lb <= la:
                reqs.append("C15 raw.add2x %s %s" % (wl(a), wl(b)))
                reqs.append("C15 raw.add2x %s %s" % (wl([MAX] * la), wl([MAX] * lb)))
            reqs.append("C15 raw.sub2x %s %s" % (wl(a), wl(b)))
            reqs.append("C15 u.addsub %s %s" % (wu(val(canon(a))), wu(val(canon(b)))))
    # text: every radix on a spread of values
    vals = [0, 1, 35, 36, B - 1, B, B + 1] + [big(rng, n) for n in (2, 3, 5, 17, 63, 64, 65, 70)]
    if tier == "thorough":
        vals += [big(rng, n) for n in (100, 130, 200)] + [36 ** k for k in (10, 50)] + [r ** 40 - 1 for r in (3, 10)]
    for v in vals:
        for r in range(2, 37):
            reqs.append("C15 u.text %d %s" % (r, wu(v)))
    # radices outside 2..=36 must be rejected (never turned into bytes for from_utf8_unchecked)
    for v in [0, 100, B - 1, big(rng, 2), big(rng, 5)]:
        for r in (0, 1, 37, 41, 42, 62, 64, 100, 200, 250, 255, 256, 257, 65536):
            reqs.append("C15 u.text %d %s" % (r, wu(v)))
    # the same through BigInt::to_str_radix (its own entry point; C15-u1 moved the radix check into the BigUint wrapper)
    for v in [0, 1, 35, 36, 100, B - 1, B, big(rng, 2), big(rng, 5), big(rng, 17)]:
        for r in list(range(2, 37)) + [0, 1, 37, 41, 42, 62, 64, 100, 168, 169, 200, 250, 255, 256, 257, 65536]:
            if r > 36 or r < 2 or rng.randrange(3) == 0 or tier == "thorough":
                reqs.append("C15 i.text %d %s %s" % (r, rng.choice("+-"), wu(v)))
    # scripted generators (the word-tape requests of stream C18 run inside the C15 check too): a zero magnitude followed
    # by the "try again" coin, once and repeatedly, at sizes around every digit count — the refill / retry path is where a
    # buffer released by normalize() would be written again (C15-v1)
    M32 = (1 << 32) - 1
    for bits in [1, 31, 32, 33, 63, 64, 65, 127, 128, 129, 191, 192, 193, 255, 256, 257, 511, 512, 1024, 1025, 4097] + ([8192, 20000] if tier == "thorough" else []):
        ln = (bits + 31) // 32
        for retries in (1, 2, 5):
            tape = []
            for _ in range(retries):
                tape += [0] * ln + [rng.choice([1 << 31, M32, (1 << 31) | 12345])]
            final = [rng.randrange(1, 1 << 32) for _ in range(ln)] + [rng.choice([0, 1 << 31])]
            zero_end = [0] * ln + [rng.choice([0, 1, (1 << 31) - 1])]
            for tail in (final, zero_end):
                for op in ("gen_bigint", "random_bits_i"):
                    reqs.append("C18 %s %d %s" % (op, bits, wwords(tape + tail)))
    # the hardware divide: every division form that reaches `div_wide` (scalar forms of every primitive type with zero,
    # one, MAX and boundary divisors on zero / one-digit / long receivers; big ∘ big with normalised and unnormalised top
    # digits) — requests of stream C03 run inside the C15 check: a `div` issued with hi >= divisor kills the worker with
    # SIGFPE in release (C15-w2: `/= 0u32` without its zero check)
    try:
        import c03 as _c03
        sc = _c03.scalar_requests(rng, False)
        zero_div = [l for l in sc if (":0 " in l + " ") or l.rstrip().endswith(" .") or l.rstrip().endswith(" 0.")]
        rest = [l for l in sc if l not in set(zero_div)]
        reqs += zero_div + rng.sample(rest, min(len(rest), 4000 if tier == "thorough" else 1200))
        for a in [0, 1, 5, MAX, B, B + 1, big(rng, 2), big(rng, 3), big(rng, 9)]:
            for b in [0, 1, 2, MAX, B, B - 1, (1 << 63), (1 << 63) + 1, big(rng, 1), big(rng, 2), val([0, 1 << 63]), val([MAX, 1]), a, a + 1]:
                for op in ("u.div_rem", "u.div", "u.rem", "u.div_assign", "u.rem_assign"):
                    reqs.append("C03 %s %s %s" % (op, wu(a), wu(b)))
    except Exception:  # noqa: BLE001
        pass
    # scalar remainders / quotients whose dividend's TOP digit equals (or just exceeds / misses) the divisor, 2 … 5 digits:
    # a "skip the leading division" shortcut must use `top < b`, never `top <= b` (C15-h1: SIGFPE in release)
    for d in [2, 3, 7, (1 << 31) - 1, 1 << 31, (1 << 32) - 1, (1 << 32), (1 << 63), MAX, MAX - 1]:
        for nd in (2, 3, 4, 5):
            for top in (d, d - 1, d + 1 if d < MAX else d):
                a = (top << (64 * (nd - 1))) + rng.randrange(1 << (64 * (nd - 1)))
                for t in ("u8", "u16", "u32", "u64", "u128", "usize"):
                    if d < (1 << {"u8": 8, "u16": 16, "u32": 32, "u64": 64, "u128": 128, "usize": 64}[t]):
                        for op in ("rem_s", "div_s", "rem_assign_s", "div_assign_s"):
                            reqs.append("C03 u.%s %s %s:%d" % (op, wu(a), t, d))
                        reqs.append("C03 i.rem_s %s %s:%d" % (wi(-a), t, d))
    for n in range(0, 401 if tier == "thorough" else 200):
        reqs.append("C15 gen_biguint %d %d" % (n, rng.randrange(1 << 62)))
    return reqs
