/-
  NB.Model.IntVal — value-level view of a BigInt for the algorithms modelled on `Int`
  (roots, pow, gcd family): the sign field is the sign of the value, `data` is `natAbs`.
-/
import NB.Base
namespace NB.IntVal

/-- the `sign` field of the canonical BigInt denoting `x` -/
def signOf (x : Int) : Sign := if x < 0 then .minus else if x = 0 then .nosign else .plus

/-- `BigInt::from_biguint(sign, mag)` at value level -/
def fromBiguint (s : Sign) (m : Nat) : Int :=
  match s with
  | .minus => - (m : Int)
  | .nosign => 0
  | .plus => (m : Int)

end NB.IntVal
