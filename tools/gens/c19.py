"""C19 — sign, negation and identity helpers.

Every helper on zero, ±1, single- and multi-digit values of both signs, also on values that were
`clone_from`ed into the buffer of a longer predecessor (ops ending in `@`); `from_biguint` /
`parts_of` on all (Sign, magnitude) pairs including the inconsistent ones; `abs_sub` over all
sign / order cases (x<y, x=y, x>y for ++ +- -+ -- and zero operands); the Sign tables.
"""
from genlib import *

SIGNS = ["+", "-", "0"]

I1 = ["i.neg", "i.neg_ref", "i.abs", "i.signum", "i.is_positive", "i.is_negative", "i.sign", "i.magnitude",
      "i.into_parts", "i.roundtrip", "i.to_biguint", "i.to_biguint_trait", "i.try_from_ref", "i.try_into",
      "i.to_bigint", "i.is_zero", "i.is_one", "i.set_zero", "i.set_one"]
U1 = ["u.to_bigint", "u.to_biguint", "i.from_u", "u.is_zero", "u.is_one", "u.set_zero", "u.set_one"]
CONST = ["u.zero", "u.const_zero", "u.default", "u.one", "i.zero", "i.const_zero", "i.default", "i.one"]


def magnitudes(rng, tier):
    ms = [0, 1, 2, MAX, B, B + 1, B * B - 1, val([1, 0, 1]), val([0, 0, 1])]
    ns = [1, 2, 3, 5, 8, 13] + ([40, 100] if tier == "thorough" else [])
    for n in ns:
        ms.append(big(rng, n))
        ms.append(val([1] + [0] * (n - 1) + [1]) if n > 1 else 1)   # 1 in the low digit, long value
        ms.append(val([1] * n))
    return ms


def zero_slice_reqs(rng):
    out = []
    for n in (0, 1, 2, 3, 5, 8):
        w = "w" + ",".join(["0"] * n) if n else "w"
        for sg in "+-0":
            for old in (0, -12345, B + 7, -(B * B)):
                out.append("C09 i.assign_from_slice %s %s %s" % (wi(old), sg, w))
            out.append("C09 i.from_slice %s %s" % (sg, w))
            out.append("C09 i.new %s %s" % (sg, w))
    return out

def gen(rng, tier):
    reqs = []
    rounds = 8 if tier == "thorough" else 1
    for c in CONST:
        reqs.append("C19 " + c)
    for s in SIGNS:
        reqs.append("C19 sign.neg " + s)
        for t in SIGNS:
            reqs.append("C19 sign.mul %s %s" % (s, t))
    for _ in range(rounds):
        ms = magnitudes(rng, tier)
        for m in ms:
            pred = big(rng, rng.choice([4, 9, 30]))
            for sg in (1, -1):
                x = sg * m
                if m == 0 and sg == -1:
                    continue
                for op in I1:
                    reqs.append("C19 %s %s" % (op, wi(x)))
                    if rng.randrange(3) == 0:
                        reqs.append("C19 %s@ %s %s" % (op, wi(signed(rng, pred)), wi(x)))
            for op in U1:
                reqs.append("C19 %s %s" % (op, wu(m)))
                if rng.randrange(3) == 0:
                    reqs.append("C19 %s@ %s %s" % (op, wu(pred), wu(m)))
            # all (Sign, magnitude) pairs, also inconsistent ones
            for s in SIGNS:
                reqs.append("C19 i.from_biguint %s %s" % (s, wu(m)))
                reqs.append("C19 i.parts_of %s %s" % (s, wu(m)))
                if rng.randrange(2) == 0:
                    reqs.append("C19 i.from_biguint@ %s %s %s" % (wu(pred), s, wu(m)))
        # abs_sub over sign / order cases
        for m in ms:
            others = [m, m + 1, max(m - 1, 0), 0, 1, rng.choice(ms), m + B, m // B, big(rng, rng.randrange(0, 6))]
            for o in others:
                for (sa, sb) in [(1, 1), (1, -1), (-1, 1), (-1, -1)]:
                    reqs.append("C19 i.abs_sub %s %s" % (wi(sa * m), wi(sb * o)))
                if rng.randrange(4) == 0:
                    reqs.append("C19 i.abs_sub@ %s %s %s" % (wi(big(rng, 12)), wi(signed(rng, m)), wi(signed(rng, o))))
    # api-coverage block: the inherent associated consts
    reqs.append("C19 u.inherent_zero")
    reqs.append("C19 i.inherent_zero")
    return reqs + zero_slice_reqs(rng)
