/-
  C20 — Multiplication cost grows sub-quadratically with operand size.

  Model: NB.Model.Cost. `Cost.mac3` is the dispatch of `mac3` instrumented with the work counter of
  the Rust hook (row length added per non-zero multiplier digit in `mac_digit`); the check compares
  it for equality with the real counter on every run.  `Cost.W` is the nominal-length recurrence.

  Theorems.
  * `cost_le_schoolbook`, `cost_mul_le_schoolbook`: for ALL parameter records satisfying
    `ValidMul ∧ ValidCost`, all operands (any digit content) and every fuel, the work count is at
    most `x.len · y.len` — "unbalanced products cost no more than the schoolbook count" at full
    strength (strong induction on the fuel; the bound is monotone in both lengths, so shortened
    intermediates are covered).  `gen_params_valid_cost` instantiates it at the generated parameters.
  * Finite size table over the *generated* parameters `NB.Gen.P` (re-elaborated whenever the
    thresholds extracted from the source change), by kernel evaluation:
      `W_doubling_table` : for n ∈ {256,…,8192}: 4·W(2n,2n) ≤ 13·W(n,n)   (ratio ≤ 3.25 < 4)
      `W_4096_quarter`   : 4·W(4096,4096) < 4096²
      `W_unbalanced_bank`: W(n,m) ≤ n·m for (n,2n−1), (n,2n), (n,64n), n ∈ {33,…,4096}
  The exact cost is data dependent and not monotone in the operand lengths across a regime
  switch, so no all-data theorem `cost ≤ W` exists; the link between `W`, `Cost.mac3` and the real
  counter is the measured three-way comparison of tools/check.py (special step `c20.special`).
-/
import NB.Model.Cost
import NB.Model.AsmParams
import NB.Lemmas.Cost
namespace NB
open NB.Mul NB.Cost

/-- proof obligation over the generated parameters (re-elaborated on every run) -/
theorem gen_params_valid_cost : NB.Gen.P.ValidMul ∧ NB.Gen.P.ValidCost := by decide

/-- **no product costs more than schoolbook**: the work count of `mac3(acc, b, c)` in the Cost
    model is at most `b.len · c.len`, for all digit slices and every recursion budget -/
theorem cost_le_schoolbook (P : Params) (hP : P.ValidMul) (hC : P.ValidCost) (fuel : Nat)
    (b c : List Nat) (hb : DigitsOk b) (hc : DigitsOk c) :
    Cost.mac3 P fuel b c ≤ b.length * c.length :=
  cost_mac3_bound P hP hC fuel b c hb hc

/-- the same for the public product `&a * &b` (zero / one-digit operands cost nothing) -/
theorem cost_mul_le_schoolbook (P : Params) (hP : P.ValidMul) (hC : P.ValidCost)
    (a b : List Nat) (ha : DigitsOk a) (hb : DigitsOk b) :
    Cost.mul P a b ≤ a.length * b.length :=
  cost_mulMag_le (cost_mac3_bound P hP hC _) a b ha hb

/-- both nominal counts are defined (fuel sufficient) and `4·W(2n,2n) ≤ 13·W(n,n)` -/
def doublingOk (P : Params) (n : Nat) : Bool :=
  match W P Wfuel (2 * n) (2 * n), W P Wfuel n n with
  | some a, some b => decide (4 * a ≤ 13 * b)
  | _, _ => false

theorem doublingOk_sound {P : Params} {n : Nat} (h : doublingOk P n = true) :
    ∃ a b, W P Wfuel (2 * n) (2 * n) = some a ∧ W P Wfuel n n = some b ∧ 4 * a ≤ 13 * b := by
  unfold doublingOk at h
  split at h
  · rename_i a b ha hb
    exact ⟨a, b, ha, hb, of_decide_eq_true h⟩
  · cases h

/-- the nominal count is defined and `W(n,m) ≤ n·m` -/
def belowSchoolOk (P : Params) (nm : Nat × Nat) : Bool :=
  match W P Wfuel nm.1 nm.2 with
  | some a => decide (a ≤ nm.1 * nm.2)
  | none => false

theorem belowSchoolOk_sound {P : Params} {nm : Nat × Nat} (h : belowSchoolOk P nm = true) :
    ∃ a, W P Wfuel nm.1 nm.2 = some a ∧ a ≤ nm.1 * nm.2 := by
  unfold belowSchoolOk at h
  split at h
  · rename_i a ha
    exact ⟨a, ha, of_decide_eq_true h⟩
  · cases h

def doublingSizes : List Nat := [256, 512, 1024, 2048, 4096, 8192]

/-- each doubling of the length multiplies the nominal work by at most 3.25 (not 4) -/
theorem W_doubling_table : ∀ n ∈ doublingSizes,
    ∃ a b, W NB.Gen.P Wfuel (2 * n) (2 * n) = some a ∧ W NB.Gen.P Wfuel n n = some b ∧ 4 * a ≤ 13 * b := by
  have h : ∀ n ∈ doublingSizes, doublingOk NB.Gen.P n = true := by decide +kernel
  exact fun n hn => doublingOk_sound (h n hn)

/-- two 4096-digit numbers need fewer than a quarter of the 4096² schoolbook digit products -/
theorem W_4096_quarter : ∃ a, W NB.Gen.P Wfuel 4096 4096 = some a ∧ 4 * a < 4096 ^ 2 := by
  have h : (match W NB.Gen.P Wfuel 4096 4096 with
      | some a => decide (4 * a < 4096 ^ 2) | none => false) = true := by decide +kernel
  split at h
  · rename_i a ha; exact ⟨a, ha, of_decide_eq_true h⟩
  · cases h

def unbalancedBank : List (Nat × Nat) :=
  [33, 64, 100, 256, 257, 300, 512, 1000, 1024, 2048, 4096].flatMap
    (fun n => [(n, 2 * n - 1), (n, 2 * n), (n, 64 * n)])

/-- unbalanced products cost no more than the schoolbook count (nominal recurrence) -/
theorem W_unbalanced_bank : ∀ nm ∈ unbalancedBank,
    ∃ a, W NB.Gen.P Wfuel nm.1 nm.2 = some a ∧ a ≤ nm.1 * nm.2 := by
  have h : ∀ nm ∈ unbalancedBank, belowSchoolOk NB.Gen.P nm = true := by decide +kernel
  exact fun nm hnm => belowSchoolOk_sound (h nm hnm)

end NB
