"""C14 — failures only where documented: a meta-stream over every other stream, run in BOTH profiles
(debug = debug assertions + overflow checks on).  Takes every request of the other generators that
touches a documented-failure condition (zero divisor/modulus, empty operand, negative scalar such as
a negative shift or exponent, out-of-range radix, …) plus a large random sample of the rest."""
import importlib, random, re

STREAMS = ["c01", "c02", "c03", "c05", "c06", "c07", "c08", "c09", "c10", "c11", "c12", "c13", "c17", "c18", "c04", "c19"]
FAILISH = re.compile(r"(?:^| )(?:\.|0\.|[+-]\.|[a-z]+[0-9]*:-[0-9]+|-[0-9]+|0|1|37|257|65536|w|x)(?= |$)")

def gen(rng, tier):
    reqs = []
    per = 1500 if tier == "quick" else 12000
    for name in STREAMS:
        try:
            mod = importlib.import_module(name)
        except ImportError:
            continue
        r = random.Random(rng.randrange(1 << 30))
        lines = mod.gen(r, "quick" if tier == "quick" else "thorough")
        fail = [l for l in lines if FAILISH.search(l.split(" ", 2)[2] if l.count(" ") >= 2 else "")]
        rest = [l for l in lines if l not in set(fail)] if len(lines) < 50000 else lines
        r.shuffle(fail); r.shuffle(rest)
        reqs += fail[:per] + rest[:per]
        # boundary families that must not depend on the sample: sizes and values where a fast path, a chunked reader or
        # a size estimate changes behaviour (a panic on valid input there is exactly what this property forbids)
        for fn in {"c06": ["capacity_boundary_reqs"], "c05": ["tiny_modulus_reqs", "zero_residue_reqs", "nilpotent_reqs"],
                   "c01": ["complement_reqs"], "c09": ["internal_iteration_reqs"]}.get(name, []):
            f = getattr(mod, fn, None)
            if f is not None:
                try:
                    extra = f(random.Random(rng.randrange(1 << 30)), "quick")
                    have = set(reqs)
                    reqs += [l for l in extra if l not in have]
                except Exception:  # noqa: BLE001
                    pass
    return reqs
