/- driver handlers for stream C06 (text and radix conversions) -/
import NB.Wire
import NB.Model.Radix
import NB.Model.RadixD
import NB.Model.AsmParams
namespace NB.Drv.C06
open NB NB.Wire NB.Radix

def P := NB.Gen.P

/-! model column of the general-radix OUTPUT ops: the digit-level definitions of NB.Model.RadixD
    (`divRemDigit`, `divRemRef`, `Mul.mulRef`, `cmpSlice` on the digit vectors), proved equal to the value-level
    ones in NB.Props.C06 (`to_radix_le_refines`, `bigint_to_radix_refines`, `format_refines`). -/

/-- size cap in limbs above which the model column would fall back to the value-level model
    (List-based Knuth division is quadratic with a large constant: 2000 limbs ≈ 2.8 s per request).
    `0` = no cap: every request runs at digit level. -/
def dCap : Nat := 0

def useD (a : List Nat) : Bool := dCap == 0 || a.length ≤ dCap

def mToStrU (a : List Nat) (r : Nat) := if useD a then toStrRadixUD P a r else toStrRadixU P a r
def mToStrI (a : BigInt) (r : Nat) := if useD a.mag then toStrRadixID P a r else toStrRadixI P a r
def mToRadixLe (a : List Nat) (r : Nat) := if useD a then toRadixLeD P a r else toRadixLe P a r
def mToRadixBe (a : List Nat) (r : Nat) := if useD a then toRadixBeD P a r else toRadixBe P a r
def mToRadixLeI (a : BigInt) (r : Nat) := if useD a.mag then BigInt.toRadixLeD P a r else BigInt.toRadixLe P a r
def mToRadixBeI (a : BigInt) (r : Nat) := if useD a.mag then BigInt.toRadixBeD P a r else BigInt.toRadixBe P a r
def mFmt (k : FmtKind) (f : FmtSpec) (x : BigInt) := if useD x.mag then formatD P k f x else format P k f x

/-- stack-safe `x<hex>` parser (texts reach 10^5 bytes) -/
def parseBytesTR (s : String) : Option (List Nat) :=
  match s.toList with
  | 'x' :: rest =>
    let rec go (l : List Char) (acc : List Nat) : Option (List Nat) :=
      match l with
      | [] => some acc.reverse
      | [_] => none
      | a :: b :: t => match hexVal a, hexVal b with
        | some x, some y => go t ((x * 16 + y) :: acc)
        | _, _ => none
    go rest []
  | _ => none

def hexChars : Array Char := "0123456789abcdef".toList.toArray

def showBytesTR (l : List Nat) : String :=
  String.ofList ('x' :: (l.foldl (fun acc b => hexChars[b % 16]! :: hexChars[(b / 16) % 16]! :: acc) []).reverse)

/-! oracle: positional notation computed directly with `Nat` -/

/-- big-endian digits of `n` in radix `r ≥ 2` (`[]` for 0), accumulator style -/
def oDigitsBE (r : Nat) (n : Nat) (acc : List Nat := []) : List Nat :=
  if h : n = 0 ∨ r < 2 then acc else oDigitsBE r (n / r) (n % r :: acc)
termination_by n
decreasing_by exact Nat.div_lt_self (by omega) (by omega)

def oDigitsBE0 (r n : Nat) : List Nat := if n = 0 then [0] else oDigitsBE r n

def oAscii (d : Nat) : Nat := if d < 10 then 48 + d else 87 + d

def oStr (r : Nat) (neg : Bool) (n : Nat) : Except Panic (List Nat) :=
  if r < 2 ∨ 36 < r then .error .radix
  else .ok ((if neg then [45] else []) ++ (oDigitsBE0 r n).map oAscii)

def oRadixBE (r n : Nat) : Except Panic (List Nat) :=
  if r < 2 ∨ 256 < r then .error .radix else .ok (oDigitsBE0 r n)

def oFromRadixBE (r : Nat) (ds : List Nat) : Except Panic (Option Nat) :=
  if r < 2 ∨ 256 < r then .error .radix
  else if ds.all (· < r) then .ok (some (Spec.beValue r ds)) else .ok none

def showParseErr : ParseErr → String
  | .empty => "err empty" | .invalid => "err invalid"

def showParseU : Except Panic (Except ParseErr (List Nat)) → String
  | .ok (.ok v) => "ok " ++ showLimbs v
  | .ok (.error e) => showParseErr e
  | .error p => "panic " ++ p.toString

def showParseI : Except Panic (Except ParseErr BigInt) → String
  | .ok (.ok v) => "ok " ++ showBigInt v
  | .ok (.error e) => showParseErr e
  | .error p => "panic " ++ p.toString

def oParseU (r : Nat) (s : List Nat) : Except Panic (Except ParseErr (List Nat)) :=
  if r < 2 ∨ 36 < r then .error .radix else .ok (Spec.parseU r s)

def oParseI (r : Nat) (s : List Nat) : Except Panic (Except ParseErr BigInt) :=
  if r < 2 ∨ 36 < r then .error .radix else .ok (Spec.parseI r s)

def optOfParse {α} : Except Panic (Except ParseErr α) → Except Panic (Option α)
  | .ok (.ok v) => .ok (some v)
  | .ok (.error _) => .ok none
  | .error p => .error p

def showOptE {α} (f : α → String) : Except Panic (Option α) → String
  | .ok o => showOpt f o
  | .error p => "panic " ++ p.toString

def sb := showExcept showBytesTR
def showSD (p : Sign × List Nat) : String := showSign p.1 ++ " " ++ showBytesTR p.2
def ssd := showExcept showSD

def uOfInt (n : Nat) : BigInt := if n = 0 then ⟨.nosign, []⟩ else ⟨.plus, ofNat n⟩

/-- oracle for `format!`: digits from `Nat`, padding by the modelled `pad_integral` -/
def oFormat (id : Nat) (x : Int) : Option (Except Panic (List Nat)) :=
  match fmtTable[id]? with
  | none => none
  | some (k, f) =>
    let ds := (oDigitsBE0 (fmtRadix k) x.natAbs).map oAscii
    let ds := if k = .upperHex then ds.map (fun b => if 97 ≤ b then b - 32 else b) else ds
    some (.ok (padIntegral f (decide (0 ≤ x)) (fmtPrefix k) ds))

def mFormat (id : Nat) (x : BigInt) : Option (Except Panic (List Nat)) :=
  match fmtTable[id]? with
  | none => none
  | some (k, f) => some (mFmt k f x)

def handle (op : String) (args : List String) : Option (String × String) :=
  match op, args with
  | "u.to_str", [a, r] => do
    let a ← parseLimbs a; let r ← parseNat r
    pure (sb (mToStrU a r), sb (oStr r false (val a)))
  | "i.to_str", [a, r] => do
    let a ← parseBigInt a; let r ← parseNat r
    pure (sb (mToStrI a r), sb (oStr r (a.val < 0) a.val.natAbs))
  | "u.from_str", [r, s] => do
    let r ← parseNat r; let s ← parseBytesTR s
    pure (showParseU (fromStrRadixU s r), showParseU (oParseU r s))
  | "i.from_str", [r, s] => do
    let r ← parseNat r; let s ← parseBytesTR s
    pure (showParseI (fromStrRadixI s r), showParseI (oParseI r s))
  | "u.parse", [s] => do
    let s ← parseBytesTR s
    pure (showParseU (fromStrRadixU s 10), showParseU (oParseU 10 s))
  | "i.parse", [s] => do
    let s ← parseBytesTR s
    pure (showParseI (fromStrRadixI s 10), showParseI (oParseI 10 s))
  | "u.parse_bytes", [r, s] => do
    let r ← parseNat r; let s ← parseBytesTR s
    let o := if utf8Valid s then optOfParse (oParseU r s) else .ok none
    pure (showOptE showLimbs (parseBytesU s r), showOptE showLimbs o)
  | "i.parse_bytes", [r, s] => do
    let r ← parseNat r; let s ← parseBytesTR s
    let o := if utf8Valid s then optOfParse (oParseI r s) else .ok none
    pure (showOptE showBigInt (parseBytesI s r), showOptE showBigInt o)
  | "u.to_radix_le", [a, r] => do
    let a ← parseLimbs a; let r ← parseNat r
    pure (sb (mToRadixLe a r), sb ((oRadixBE r (val a)).map List.reverse))
  | "u.to_radix_be", [a, r] => do
    let a ← parseLimbs a; let r ← parseNat r
    pure (sb (mToRadixBe a r), sb (oRadixBE r (val a)))
  | "i.to_radix_le", [a, r] => do
    let a ← parseBigInt a; let r ← parseNat r
    pure (ssd (mToRadixLeI a r), ssd ((oRadixBE r a.val.natAbs).map (fun d => ((BigInt.ofInt a.val).sign, d.reverse))))
  | "i.to_radix_be", [a, r] => do
    let a ← parseBigInt a; let r ← parseNat r
    pure (ssd (mToRadixBeI a r), ssd ((oRadixBE r a.val.natAbs).map (fun d => ((BigInt.ofInt a.val).sign, d))))
  | "u.from_radix_le", [r, s] => do
    let r ← parseNat r; let s ← parseBytesTR s
    pure (showOptE showLimbs (fromRadixLe s r), showOptE showLimbs ((oFromRadixBE r s.reverse).map (·.map ofNat)))
  | "u.from_radix_be", [r, s] => do
    let r ← parseNat r; let s ← parseBytesTR s
    pure (showOptE showLimbs (fromRadixBe s r), showOptE showLimbs ((oFromRadixBE r s).map (·.map ofNat)))
  | "i.from_radix_le", [sg, r, s] => do
    let sg ← (match sg.toList with | [c] => parseSign c | _ => none)
    let r ← parseNat r; let s ← parseBytesTR s
    let mk (n : Nat) : BigInt := match sg with
      | .plus => BigInt.ofInt n | .minus => BigInt.ofInt (-(n : Int)) | .nosign => ⟨.nosign, []⟩
    pure (showOptE showBigInt (BigInt.fromRadixLe sg s r), showOptE showBigInt ((oFromRadixBE r s.reverse).map (·.map mk)))
  | "i.from_radix_be", [sg, r, s] => do
    let sg ← (match sg.toList with | [c] => parseSign c | _ => none)
    let r ← parseNat r; let s ← parseBytesTR s
    let mk (n : Nat) : BigInt := match sg with
      | .plus => BigInt.ofInt n | .minus => BigInt.ofInt (-(n : Int)) | .nosign => ⟨.nosign, []⟩
    pure (showOptE showBigInt (BigInt.fromRadixBe sg s r), showOptE showBigInt ((oFromRadixBE r s).map (·.map mk)))
  | "u.fmt", [id, a] => do
    let id ← parseNat id; let a ← parseLimbs a
    let m ← mFormat id (uOfInt (val a)); let o ← oFormat id (val a)
    -- the model receives the limbs verbatim
    let m' := match fmtTable[id]? with
      | some (k, f) => mFmt k f ⟨if a = [] then .nosign else .plus, a⟩
      | none => m
    pure (sb m', sb o)
  | "i.fmt", [id, a] => do
    let id ← parseNat id; let a ← parseBigInt a
    let m ← mFormat id a; let o ← oFormat id a.val
    pure (sb m, sb o)
  | _, _ => none

end NB.Drv.C06
